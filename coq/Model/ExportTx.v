(* Executable model of the export path of one neighbour (property C01):

     table/src/lib.rs          IdAllocator (lowest free id), Destination.id, the
                               NlriChange stream (abstracted: a RIB operation is
                               given by the change it emits)
     daemon/src/event/export.rs  ExportMap, process_nlri_change, GroupedSink
     daemon/src/peer_tx.rs       PendingTx::{reach, unreach, drain_messages}
     daemon/src/event/mod.rs     on_established (initial dump), handle_prefix_update,
                               do_route_refresh, flush_tx
     daemon/src/table_manager.rs register_peer, distribute_update (fan-out channel)

   One shard, one address family, one observed neighbour (shards and families
   have disjoint ids / separate PendingTx, neighbours do not interact).

   The RIB is abstracted to what the export path can see of it: per prefix a
   destination id and the ranked list of exportable candidate paths
   (Destination::unfiltered_iter).  A RIB operation is a label carrying the
   NlriChange the real table emits (flags, replaced path id, new ranked list);
   the destination id is NOT part of the label: it is computed here by the
   allocator, exactly as IdAllocator::alloc (lowest free) / dealloc do.

   Export filtering and rewriting are abstracted to three functions
     vis : path -> bool              echo prevention, iBGP split horizon, RS isolation
                                     (the filters applied BEFORE .take(effective_max))
     pol : bool -> N -> path -> option E
                                     RTC filter, pre-policy defaults, export policy,
                                     RR reflection, LLGR_STALE marking, export_attrs
                                     (applied AFTER .take); the bool is the CURRENT
                                     Source::is_llgr_stale() of the path's source,
                                     read when the change is processed
   E is what one NLRI carries on the wire besides (prefix, path id).

   [keying] selects how PendingTx names a pending entry:
     ById   (dest_id, path_id)  -- the code before the `fix:` commit
     ByNet  (prefix,  path_id)  -- the code after it
   [limited] says whether the initial dump / route refresh truncate the ranked
   list to effective_max paths BEFORE the visibility filters
   (collect_loc_rib_paths_limited: true = code before the `fix:` commit).

   No proofs in this file. *)
From Coq Require Import List NArith Bool.
From RB Require Import Base.Val.
Import ListNotations.
Open Scope N_scope.

(* p_mark is a ghost: Source::is_llgr_stale() of the path's source when the change (or RIB
   state) listing the path was produced.  The code never reads it -- it reads the live flag
   of the shared Source -- and neither does [process_change]; it lets the contract of the
   change stream say "the exported form of this path changed" when a source is marked. *)
Record path := { p_pid : N; p_src : N; p_tok : N; p_mark : bool }.

Record change := { c_net : N; c_id : N; c_bc : bool; c_ac : bool;
                   c_repl : option N; c_paths : list path }.

Record dest := { d_net : N; d_id : N; d_paths : list path }.

Definition rib := list dest.

Inductive keying := ById | ByNet.

(* what travels on the neighbour's event channel: a change of the RIB, or (since the fix of
   C01-refresh-race) one route-refresh walk, i.e. the snapshot do_route_refresh asked for, taken
   and queued under the shard lock (ToPeerEvent::RefreshWalk) *)
Inductive event := EvChange (c : change) | EvWalk (cs : list change).

(* ------------------------------------------------------------ small maps *)
Definition key := (N * N)%type.
Definition key_eqb (a b : key) : bool := (fst a =? fst b) && (snd a =? snd b).

Definition kremove {V} (k : key) (m : list (key * V)) : list (key * V) :=
  filter (fun x => negb (key_eqb k (fst x))) m.

Definition kinsert {V} (k : key) (v : V) (m : list (key * V)) : list (key * V) :=
  kremove k m ++ [(k, v)].

Fixpoint kfind {V} (k : key) (m : list (key * V)) : option V :=
  match m with
  | [] => None
  | (k', v) :: r => if key_eqb k k' then Some v else kfind k r
  end.

Definition memN (x : N) (l : list N) : bool := existsb (N.eqb x) l.
Definition memK (k : key) (l : list key) : bool := existsb (key_eqb k) l.

(* ------------------------------------------------------------ IdAllocator *)
(* alloc: the lowest local id whose bit is clear.  [used] is the set of ids
   of the live destinations (bit i set <-> i in used). *)
Fixpoint lowest_free (fuel : nat) (n : N) (used : list N) : N :=
  match fuel with
  | O => n
  | S f => if memN n used then lowest_free f (N.succ n) used else n
  end.

Definition alloc (used : list N) : N := lowest_free (length used) 0 used.

(* ------------------------------------------------------------ the abstract RIB *)
Fixpoint rfind (net : N) (r : rib) : option dest :=
  match r with
  | [] => None
  | d :: t => if d_net d =? net then Some d else rfind net t
  end.

Definition rused (r : rib) : list N := map d_id r.

Fixpoint rupdate (net : N) (paths : list path) (r : rib) : rib :=
  match r with
  | [] => []
  | d :: t => if d_net d =? net
              then {| d_net := net; d_id := d_id d; d_paths := paths |} :: t
              else d :: rupdate net paths t
  end.

(* Destination lookup-or-create (`entry(net).or_insert_with(|| with_id(alloc()))`),
   then the candidate list is replaced.  Returns the new RIB and the id. *)
Definition rset (net : N) (paths : list path) (r : rib) : rib * N :=
  match rfind net r with
  | Some d => (rupdate net paths r, d_id d)
  | None => let i := alloc (rused r) in
            (r ++ [{| d_net := net; d_id := i; d_paths := paths |}], i)
  end.

(* `destinations.remove(&net)` + `dealloc(id)` *)
Definition rfree (net : N) (r : rib) : rib :=
  filter (fun d => negb (d_net d =? net)) r.

(* ------------------------------------------------------------ PendingTx *)
Section WithE.
Variable E : Type.

Record ptx := { t_reach : list (key * (N * E));     (* key -> (prefix, payload) *)
                t_unreach : list (key * N) }.        (* key -> prefix *)

Definition ptx_empty : ptx := {| t_reach := []; t_unreach := [] |}.

(* PendingTx::reach: cancel a pending withdrawal of the same key, then insert *)
Definition ptx_reach (k : key) (net : N) (e : E) (p : ptx) : ptx :=
  {| t_reach := kinsert k (net, e) (t_reach p); t_unreach := kremove k (t_unreach p) |}.

(* PendingTx::unreach: cancel a pending announcement of the same key, then insert *)
Definition ptx_unreach (k : key) (net : N) (p : ptx) : ptx :=
  {| t_reach := kremove k (t_reach p); t_unreach := kinsert k net (t_unreach p) |}.

(* ------------------------------------------------------------ ExportMap *)
(* The set of (dest_id, path_id) pairs the neighbour has been told.  FamilyMap::Plain
   (effective_max = 1) is the same set with every path id normalised to 0. *)
Definition emap := list key.

Definition em_add (k : key) (m : emap) : emap := if memK k m then m else m ++ [k].
Definition em_del (k : key) (m : emap) : emap := filter (fun x => negb (key_eqb k x)) m.
Definition em_was_sent (id : N) (m : emap) : bool := existsb (fun x => fst x =? id) m.
Definition em_ids (id : N) (m : emap) : list N :=
  map snd (filter (fun x => fst x =? id) m).

(* ------------------------------------------------------------ neighbour *)
Record nbr := {
  n_reg : bool;                      (* event channel registered with the shard *)
  n_chan : list event;               (* undelivered ToPeerEvents, oldest first *)
  n_emap : emap;
  n_buf : list (key * E);            (* PendingTx.buffered: the initial dump, (prefix, wire path id) *)
  n_beor : bool;                     (* an End-of-RIB is among the buffered messages *)
  n_ptx : ptx;
  n_eor : bool;                      (* PendingTx.pending_eor *)
  n_mirror : list (key * E)          (* the neighbour's Adj-RIB-In: (prefix, path id) -> payload *)
}.

Record state := { s_rib : rib; s_llgr : list N (* sources with llgr_stale set *);
                  s_pv : N (* which export policy is installed *); s_nbr : nbr }.

Definition nbr0 : nbr :=
  {| n_reg := false; n_chan := []; n_emap := []; n_buf := []; n_beor := false;
     n_ptx := ptx_empty; n_eor := false; n_mirror := [] |}.

Definition state0 : state := {| s_rib := []; s_llgr := []; s_pv := 0; s_nbr := nbr0 |}.

Inductive label :=
| RibSet (net : N) (bc ac : bool) (repl : option N) (paths : list path)
    (* insert / remove / drop / restale / next-hop flap that leaves the destination in place *)
| RibTouch (net : N)
    (* a destination is created (id allocated) without any change being emitted *)
| RibFree (net : N) (emit : bool)
    (* the last entry of the prefix goes: id freed; a change with no paths is emitted iff [emit] *)
| LlgrFlip (src : N) (b : bool)
    (* Source::mark_llgr_stale / clear_llgr_stale, bare *)
| LlgrMark (src : N) (rs : list (N * bool * bool * option N * list path))
    (* Table::restale_llgr, one critical section: the flag is set, the affected destinations
       are re-sorted and their changes (net, best_changed, any_changed, replaced, ranked list)
       are emitted *)
| Deliver      (* handle_prefix_update on the oldest queued change *)
| Flush        (* flush_tx: drain_messages, bytes reach the neighbour *)
| Register     (* on_established: initial dump + channel registration, one critical section *)
| Refresh      (* do_route_refresh *)
| Unregister   (* unregister_peer at session end: the channel is dropped with the session *)
| PolicyChange (v : N).
               (* the neighbour's export policy assignment is replaced (takes effect for every
                  later handle_prefix_update / do_route_refresh / on_established) *)

Section WithPolicy.
Variable keying_ : keying.
Variable limited : bool.
Variable inline : bool.      (* do_route_refresh walks at once (the code before the fix) *)
Variable max : N.            (* effective_max (>= 1) *)
Variable aptx : bool.        (* PendingTx.addpath_tx / GroupedSink.addpath_tx *)
Variable vis : path -> bool.
Variable polv : N -> bool -> N -> path -> option E.   (* per installed policy *)

Section OnePolicy.
Variable pol : bool -> N -> path -> option E.

Definition ap : bool := negb (max =? 1).          (* the add-path branch of process_nlri_change *)
Definition wpid (pid : N) : N := if aptx then pid else 0.
Definition npid (pid : N) : N := if ap then pid else 0.
Definition kfst (c : change) : N := match keying_ with ById => c_id c | ByNet => c_net c end.
Definition pkey (c : change) (pid : N) : key := (kfst c, wpid pid).

Definition firstnN (n : N) {A} (l : list A) : list A := firstn (N.to_nat n) l.

Fixpoint filter_map {A B} (f : A -> option B) (l : list A) : list B :=
  match l with
  | [] => []
  | a :: t => match f a with Some b => b :: filter_map f t | None => filter_map f t end
  end.

(* The sink of process_nlri_change: PendingTx, or the GroupedSink of the initial dump. *)
Inductive sink := SPtx (p : ptx) | SGroup (g : list (key * E)).

Definition sink_reach (c : change) (pid : N) (e : E) (s : sink) : sink :=
  match s with
  | SPtx p => SPtx (ptx_reach (pkey c pid) (c_net c) e p)
  | SGroup g => SGroup (g ++ [((c_net c, wpid pid), e)])
  end.

Definition sink_unreach (c : change) (pid : N) (s : sink) : sink :=
  match s with
  | SPtx p => SPtx (ptx_unreach (pkey c pid) (c_net c) p)
  | SGroup g => SGroup g            (* GroupedSink::unreach is a no-op *)
  end.

Definition llgr_of (fl : list N) (p : path) : bool := memN (p_src p) fl.

(* effective_max == 1 *)
Definition proc_plain (fl : list N) (c : change) (st : emap * sink) : emap * sink :=
  if negb (c_bc c) then st else
  let '(em, sk) := st in
  let res := match c_paths c with
             | [] => None
             | b :: _ => if vis b then pol (llgr_of fl b) (c_net c) b else None
             end in
  match res with
  | None => if em_was_sent (c_id c) em
            then (em_del (c_id c, 0) em, sink_unreach c 0 sk)
            else st
  | Some e => (em_add (c_id c, 0) em, sink_reach c 0 e sk)
  end.

(* effective_max > 1 *)
Definition top_n (fl : list N) (c : change) : list (N * E) :=
  filter_map (fun q => match pol (llgr_of fl q) (c_net c) q with
                       | Some e => Some (p_pid q, e) | None => None end)
             (firstnN max (filter vis (c_paths c))).

Definition opt_eqb (o : option N) (x : N) : bool :=
  match o with Some y => y =? x | None => false end.

Definition proc_ap (fl : list N) (c : change) (st : emap * sink) : emap * sink :=
  if negb (c_ac c) then st else
  let top := top_n fl c in
  let cur := map fst top in
  let gone := filter (fun i => negb (memN i cur)) (em_ids (c_id c) (fst st)) in
  let st1 := fold_left (fun s i => (em_del (c_id c, i) (fst s), sink_unreach c i (snd s))) gone st in
  fold_left (fun s (x : N * E) =>
               let '(i, e) := x in
               if negb (memK (c_id c, i) (fst s)) || opt_eqb (c_repl c) i
               then (em_add (c_id c, i) (fst s), sink_reach c i e (snd s))
               else s) top st1.

Definition process_change (fl : list N) (c : change) (st : emap * sink) : emap * sink :=
  if ap then proc_ap fl c st else proc_plain fl c st.

(* collect_loc_rib_paths_limited / collect_loc_rib_paths: one change per destination
   with at least one candidate, flags set. *)
Definition snap_paths (l : list path) : list path := if limited then firstnN max l else l.

Definition snapshot (r : rib) : list change :=
  filter_map (fun d => match snap_paths (d_paths d) with
                       | [] => None
                       | l => Some {| c_net := d_net d; c_id := d_id d; c_bc := true; c_ac := true;
                                      c_repl := None; c_paths := l |}
                       end) r.

(* do_route_refresh: an add-path neighbour is walked once per candidate path, that path named
   as replaced, so that already advertised paths are re-sent *)
Definition refresh_changes (cs : list change) : list change :=
  if ap then
    flat_map (fun c => map (fun q => {| c_net := c_net c; c_id := c_id c; c_bc := true; c_ac := true;
                                        c_repl := Some (p_pid q); c_paths := c_paths c |})
                           (c_paths c)) cs
  else cs.

Definition sink_group (s : sink) : list (key * E) := match s with SGroup g => g | SPtx _ => [] end.
Definition sink_ptx (s : sink) (d : ptx) : ptx := match s with SPtx p => p | SGroup _ => d end.

(* The initial dump of on_established: a fresh ExportMap and a GroupedSink. *)
Definition dump (fl : list N) (r : rib) : emap * list (key * E) :=
  let st := fold_left (fun s c => process_change fl c s) (snapshot r) ([], SGroup []) in
  (fst st, sink_group (snd st)).

End OnePolicy.

(* ------------------------------------------------------------ the neighbour's mirror *)
Definition mirror_reach (es : list (key * E)) (m : list (key * E)) : list (key * E) :=
  fold_left (fun acc x => kinsert (fst x) (snd x) acc) es m.

Definition mirror_unreach (ks : list key) (m : list (key * E)) : list (key * E) :=
  fold_left (fun acc k => kremove k acc) ks m.

(* what drain_messages hands to the codec: buffered reach entries, then one
   Unreach with every pending withdrawal, then the Reach groups *)
Definition drained_unreach (p : ptx) : list key := map (fun x => (snd x, snd (fst x))) (t_unreach p).
Definition drained_reach (p : ptx) : list (key * E) :=
  map (fun x => ((fst (snd x), snd (fst x)), snd (snd x))) (t_reach p).

Definition flush_mirror (n : nbr) : list (key * E) :=
  mirror_reach (drained_reach (n_ptx n))
    (mirror_unreach (drained_unreach (n_ptx n))
       (mirror_reach (n_buf n) (n_mirror n))).

(* ------------------------------------------------------------ steps *)
Definition push (c : change) (n : nbr) : nbr :=
  if n_reg n then
    {| n_reg := true; n_chan := n_chan n ++ [EvChange c]; n_emap := n_emap n; n_buf := n_buf n;
       n_beor := n_beor n; n_ptx := n_ptx n; n_eor := n_eor n; n_mirror := n_mirror n |}
  else n.

Definition with_nbr (s : state) (n : nbr) : state :=
  {| s_rib := s_rib s; s_llgr := s_llgr s; s_pv := s_pv s; s_nbr := n |}.

Definition rib_set (s : state) (x : N * bool * bool * option N * list path) : state :=
  let '(net, bc, ac, repl, paths) := x in
  let '(r', i) := rset net paths (s_rib s) in
  {| s_rib := r'; s_llgr := s_llgr s; s_pv := s_pv s;
     s_nbr := push {| c_net := net; c_id := i; c_bc := bc; c_ac := ac;
                      c_repl := repl; c_paths := paths |} (s_nbr s) |}.

Definition set_llgr (src : N) (fl : list N) : list N := if memN src fl then fl else src :: fl.

Definition step (s : state) (l : label) : state :=
  let n := s_nbr s in
  match l with
  | RibSet net bc ac repl paths => rib_set s (net, bc, ac, repl, paths)
  | LlgrMark src rs =>
      fold_left rib_set rs {| s_rib := s_rib s; s_llgr := set_llgr src (s_llgr s); s_pv := s_pv s; s_nbr := n |}
  | RibTouch net =>
      match rfind net (s_rib s) with
      | Some _ => s
      | None => {| s_rib := fst (rset net [] (s_rib s)); s_llgr := s_llgr s; s_pv := s_pv s; s_nbr := n |}
      end
  | RibFree net emit =>
      match rfind net (s_rib s) with
      | None => s
      | Some d =>
          {| s_rib := rfree net (s_rib s); s_llgr := s_llgr s; s_pv := s_pv s;
             s_nbr := if emit
                      then push {| c_net := net; c_id := d_id d; c_bc := true; c_ac := true;
                                   c_repl := None; c_paths := [] |} n
                      else n |}
      end
  | LlgrFlip src b =>
      {| s_rib := s_rib s;
         s_llgr := if b then set_llgr src (s_llgr s)
                   else filter (fun x => negb (x =? src)) (s_llgr s);
         s_pv := s_pv s; s_nbr := n |}
  | Deliver =>
      match n_chan n with
      | [] => s
      | EvChange c :: rest =>
          let st := process_change (polv (s_pv s)) (s_llgr s) c (n_emap n, SPtx (n_ptx n)) in
          with_nbr s {| n_reg := n_reg n; n_chan := rest; n_emap := fst st; n_buf := n_buf n;
                        n_beor := n_beor n; n_ptx := sink_ptx (snd st) (n_ptx n);
                        n_eor := n_eor n; n_mirror := n_mirror n |}
      | EvWalk cs :: rest =>
          (* run_select, RefreshWalk arm: apply_refresh_walk, then schedule_eor *)
          let st := fold_left (fun a c => process_change (polv (s_pv s)) (s_llgr s) c a)
                              (refresh_changes cs) (n_emap n, SPtx (n_ptx n)) in
          with_nbr s {| n_reg := n_reg n; n_chan := rest; n_emap := fst st; n_buf := n_buf n;
                        n_beor := n_beor n; n_ptx := sink_ptx (snd st) (n_ptx n);
                        n_eor := true; n_mirror := n_mirror n |}
      end
  | Flush =>
      with_nbr s {| n_reg := n_reg n; n_chan := n_chan n; n_emap := n_emap n; n_buf := [];
                    n_beor := false; n_ptx := ptx_empty; n_eor := false;
                    n_mirror := flush_mirror n |}
  | Register =>
      (* a (re-)established session: new PendingTx, new ExportMap, new channel, and the
         neighbour's Adj-RIB-In starts empty *)
      let d := dump (polv (s_pv s)) (s_llgr s) (s_rib s) in
      with_nbr s {| n_reg := true; n_chan := []; n_emap := fst d; n_buf := snd d;
                    n_beor := true; n_ptx := ptx_empty; n_eor := false; n_mirror := [] |}
  | Refresh =>
      if n_reg n then
        if inline then
          let st := fold_left (fun a c => process_change (polv (s_pv s)) (s_llgr s) c a)
                              (refresh_changes (snapshot (s_rib s)))
                              (n_emap n, SPtx (n_ptx n)) in
          with_nbr s {| n_reg := true; n_chan := n_chan n; n_emap := fst st; n_buf := n_buf n;
                        n_beor := n_beor n; n_ptx := sink_ptx (snd st) (n_ptx n);
                        n_eor := true; n_mirror := n_mirror n |}
        else
          (* TableManager::queue_refresh_walk: the snapshot goes to the channel tail *)
          with_nbr s {| n_reg := true; n_chan := n_chan n ++ [EvWalk (snapshot (s_rib s))];
                        n_emap := n_emap n; n_buf := n_buf n; n_beor := n_beor n;
                        n_ptx := n_ptx n; n_eor := n_eor n; n_mirror := n_mirror n |}
      else s
  | Unregister => with_nbr s nbr0
  | PolicyChange v => {| s_rib := s_rib s; s_llgr := s_llgr s; s_pv := v; s_nbr := n |}
  end.

Definition run_from (s : state) (ls : list label) : state := fold_left step ls s.
Definition run (ls : list label) : state := run_from state0 ls.

End WithPolicy.
End WithE.

Arguments t_reach {E}. Arguments t_unreach {E}.
Arguments n_reg {E}. Arguments n_chan {E}. Arguments n_emap {E}. Arguments n_buf {E}.
Arguments n_beor {E}. Arguments n_ptx {E}. Arguments n_eor {E}. Arguments n_mirror {E}.
Arguments s_rib {E}. Arguments s_llgr {E}. Arguments s_pv {E}. Arguments s_nbr {E}.

(* ------------------------------------------------------------ concrete instance and printers *)
(* Cases instantiate E := (attribute token, LLGR_STALE marker) and
     vis p        := the path's source is not in the list of sources the neighbour may not
                     see (its own address, split-horizon and RS-isolation victims)
     pol llgr _ p := None when the token is one the export policy rejects,
                     Some (token, llgr) otherwise. *)
Definition CE := (N * N * N)%type.   (* (source, token, LLGR_STALE marker) *)

Record cfg := { g_keying : keying; g_limited : bool; g_inline : bool; g_max : N; g_aptx : bool;
                g_hidden : list N; g_rej : list N }.

Definition cvis (g : cfg) (p : path) : bool := negb (memN (p_src p) (g_hidden g)).
Definition cpol (g : cfg) (llgr : bool) (net : N) (p : path) : option CE :=
  if memN (p_tok p) (g_rej g) then None else Some (p_src p, p_tok p, if llgr then 1 else 0).

(* policy 0: the configured one; policy 1: accept everything and tag it (community 3:1,
   read back as token + 100) *)
Definition cpolv (g : cfg) (v : N) (llgr : bool) (net : N) (p : path) : option CE :=
  if v =? 0 then cpol g llgr net p else Some (p_src p, p_tok p + 100, if llgr then 1 else 0).

Definition cstep (g : cfg) : state CE -> label -> state CE :=
  step CE (g_keying g) (g_limited g) (g_inline g) (g_max g) (g_aptx g) (cvis g) (cpolv g).

Fixpoint lex_leb (a b : list N) : bool :=
  match a, b with
  | [], _ => true
  | _ :: _, [] => false
  | x :: a', y :: b' => if x <? y then true else if y <? x then false else lex_leb a' b'
  end.

Fixpoint ins_sorted (x : list N) (l : list (list N)) : list (list N) :=
  match l with
  | [] => [x]
  | y :: t => if lex_leb x y then x :: l else y :: ins_sorted x t
  end.

Definition sort_rows (l : list (list N)) : list (list N) := fold_right ins_sorted [] l.

Definition v_rows (l : list (list N)) : val := VL (map VNs (sort_rows l)).

Definition row_kv (x : key * CE) : list N :=
  [fst (fst x); snd (fst x); fst (fst (snd x)); snd (fst (snd x)); snd (snd x)].
Definition row_k (k : key) : list N := [fst k; snd k].

Definition fresh_of (g : cfg) (s : state CE) : list (key * CE) :=
  mirror_reach CE (snd (dump CE (g_keying g) (g_limited g) (g_max g) (g_aptx g) (cvis g)
                             (cpolv g (s_pv s)) (s_llgr s) (s_rib s))) [].

Definition pending_empty (n : nbr CE) : bool :=
  match n_buf n, t_reach (n_ptx n), t_unreach (n_ptx n) with
  | [], [], [] => negb (n_beor n)
  | _, _, _ => false
  end.

Definition rib_id (net : N) (s : state CE) : val :=
  match rfind net (s_rib s) with Some d => VL [VN (d_id d)] | None => VL [] end.

Definition v_path (p : path) : val := VL [VN (p_pid p); VN (p_src p); VN (p_tok p)].

Fixpoint rowN_eqb (a b : list N) : bool :=
  match a, b with
  | [], [] => true
  | x :: a', y :: b' => (x =? y) && rowN_eqb a' b'
  | _, _ => false
  end.

Fixpoint rows_eqb (a b : list (list N)) : bool :=
  match a, b with
  | [], [] => true
  | x :: a', y :: b' => rowN_eqb x y && rows_eqb a' b'
  | _, _ => false
  end.

Fixpoint ev_nets (l : list event) : list N :=
  match l with
  | [] => []
  | EvChange c :: t => c_net c :: ev_nets t
  | EvWalk _ :: t => 999 :: ev_nets t      (* a queued refresh walk, as a marker *)
  end.

(* mirror, from-scratch dump, prefixes with an undelivered change, mirror = dump *)
Definition v_check (g : cfg) (s : state CE) : val :=
  VL [v_rows (map row_kv (n_mirror (s_nbr s))); v_rows (map row_kv (fresh_of g s));
      VNs (ev_nets (n_chan (s_nbr s)));
      VB (rows_eqb (sort_rows (map row_kv (n_mirror (s_nbr s))))
                   (sort_rows (map row_kv (fresh_of g s))))].

Definition v_set (g : cfg) (s : state CE) (x : N * bool * bool * option N * list path) : val :=
  let '(net, bc, ac, repl, paths) := x in
  VL [VN 0; rib_id net (cstep g s (RibSet net bc ac repl paths)); VN net; VB bc; VB ac;
      VOpt VN repl; VList v_path paths].

Fixpoint v_sets (g : cfg) (s : state CE) (rs : list (N * bool * bool * option N * list path))
  : list val :=
  match rs with
  | [] => []
  | x :: t => let '(net, bc, ac, repl, paths) := x in
              v_set g s x :: v_sets g (cstep g s (RibSet net bc ac repl paths)) t
  end.

(* End-of-RIB markers of one drained batch, each with the number of routes announced before
   it: the one buffered with the initial dump follows the dump, the scheduled one
   (PendingTx.pending_eor) comes last *)
Definition eor_positions {E} (n : nbr E) : list N :=
  (if n_beor n then [N.of_nat (length (n_buf n))] else []) ++
  (if n_eor n then [N.of_nat (length (n_buf n) + length (t_reach (n_ptx n)))] else []).

Definition observe1 (g : cfg) (s : state CE) (l : label) : val :=
  let s' := cstep g s l in
  let n := s_nbr s in
  let n' := s_nbr s' in
  match l with
  | RibSet net bc ac repl paths => v_set g s (net, bc, ac, repl, paths)
  | LlgrMark _ _ => VL [VN 1]
  | RibTouch net => VL [VN 0; VL []]
  | RibFree net emit =>
      if emit then match rfind net (s_rib s) with
                   | Some d => VL [VN 0; VL [VN (d_id d)]; VN net; VB true; VB true; VL []; VL []]
                   | None => VL [VN 0; VL []]
                   end
      else VL [VN 0; VL []]
  | LlgrFlip _ _ => VL [VN 1]
  | Deliver => VL [VN 2; VB (pending_empty n')]
  | Flush => VL [VN 3;
                 v_rows (map row_k (drained_unreach CE (n_ptx n)));
                 v_rows (map row_kv (n_buf n ++ drained_reach CE (n_ptx n)));
                 VNs (eor_positions n);
                 v_check g s']
  | Register => VL [VN 4]
  | Refresh => VL [VN 5; VB (pending_empty n')]
  | Unregister => VL [VN 7]
  | PolicyChange _ => VL [VN 8]
  end.

Definition observe (g : cfg) (s : state CE) (l : label) : list val :=
  match l with
  | LlgrMark src rs =>
      VL [VN 1] :: v_sets g {| s_rib := s_rib s; s_llgr := set_llgr src (s_llgr s); s_pv := s_pv s; s_nbr := s_nbr s |} rs
  | _ => [observe1 g s l]
  end.

Fixpoint observe_from (g : cfg) (s : state CE) (ls : list label) : list val :=
  match ls with
  | [] => [VL [VN 6; VB (pending_empty (s_nbr s)); v_check g s]]
  | l :: t => observe g s l ++ observe_from g (cstep g s l) t
  end.

Definition run_case (g : cfg) (ls : list label) : val := VL (observe_from g (state0 CE) ls).
