(* Executable model of the daemon-level policy state (daemon/src/event/mod.rs
   Global): the PolicyTable plus every peer's export-policy override
   (PeerState::export_policy), with Global::{add_peer (export_policy of the
   parameters), add_policy, delete_policy, add_policy_assignment,
   delete_policy_assignment} and the table calls grpc.rs makes directly
   (defined sets, statements, set_policy_assignment).  Per-peer assignments are
   copies built by PolicyTable::build_assignment, as the Arc snapshots are.
   No proofs in this file.

   Not modelled: grpc.rs set_policies (replaces the whole table and clears every
   override), update_peer's apply-policy replacement, peer deletion. *)
From Coq Require Import List NArith ZArith Bool.
From RB Require Import Base.Val Model.Policy Model.PolicyTable.
Import ListNotations.
Open Scope N_scope.

Record global := { g_table : table; g_peers : list (N * option assignment) }.

Definition empty_global : global := {| g_table := empty_table; g_peers := [] |}.

Inductive gop :=
| GOp (o : op)                                   (* operations 1..8 of the table, through Global / grpc.rs *)
| GAddPeer (peer : N) (exp : option (disp * list N))
| GPeerAddAsg (peer : N) (import : bool) (d : disp) (names : list N)
| GPeerDelAsg (peer : N) (import : bool) (names : list N) (all : bool)
| GPeerEval (peer : N) (r : route)
| GDump
| GSetRpki                                       (* VRPs installed in TableManager.rpki *)
| GImportEval (r : route)                        (* TableManager::apply_import with the stored import slot *)
| GProbe (n : nlri) (asn : N).

Definition EXISTS : N := 5.      (* Error::AlreadyExists and other daemon errors *)

Definition find_peer (p : N) (l : list (N * option assignment)) : option (option assignment) :=
  match find (fun e => fst e =? p) l with Some e => Some (snd e) | None => None end.

Definition set_peer (p : N) (a : option assignment) (l : list (N * option assignment))
  : list (N * option assignment) :=
  map (fun e => if fst e =? p then (p, a) else e) l.

(* Peer::references_policy over all peers *)
Definition peers_ref (g : global) (n : N) : bool :=
  existsb (fun e => asg_has (snd e) n) (g_peers g).

(* api::RouteAction -> Disposition (disposition_and_policies_from_api) *)
Definition api_disp (d : disp) : disp := match d with DAccept => DAccept | _ => DReject end.

Definition with_table (g : global) (t : table) : global := {| g_table := t; g_peers := g_peers g |}.
Definition with_peers (g : global) (l : list (N * option assignment)) : global :=
  {| g_table := g_table g; g_peers := l |}.

Definition on_table (g : global) (r : res (table * N)) : res (global * N) :=
  match r with Ok (t, c) => Ok (with_table g t, c) | Panic tag => Panic tag end.

Definition gstep (g : global) (o : gop) : res (global * N) :=
  match o with
  | GOp (OAddPol n ss) =>
      if peers_ref g n then Ok (g, INUSE) else on_table g (crud_step (g_table g) (OAddPol n ss))
  | GOp (ODelPol n pr all ss) =>
      if peers_ref g n then Ok (g, INUSE) else on_table g (crud_step (g_table g) (ODelPol n pr all ss))
  | GOp (OAddAsg false im d ns) => on_table g (crud_step (g_table g) (OAddAsg false im (api_disp d) ns))
  | GOp o' => on_table g (crud_step (g_table g) o')
  | GAddPeer p exp =>
      match find_peer p (g_peers g) with
      | Some _ => Ok (g, EXISTS)
      | None =>
          match exp with
          | None => Ok (with_peers g (g_peers g ++ [(p, None)]), OK)
          | Some (d, names) =>
              match build_assignment (g_table g) None false d names with
              | None => Ok (g, INVAL)
              | Some a => Ok (with_peers g (g_peers g ++ [(p, Some a)]), OK)
              end
          end
      end
  | GPeerAddAsg p im d names =>
      if im then Ok (g, INVAL)
      else match find_peer p (g_peers g) with
           | None => Ok (g, INVAL)
           | Some existing =>
               match build_assignment (g_table g) existing false (api_disp d) names with
               | None => Ok (g, INVAL)
               | Some a => Ok (with_peers g (set_peer p (Some a) (g_peers g)), OK)
               end
           end
  | GPeerDelAsg p im names all =>
      if im then Ok (g, INVAL)
      else match find_peer p (g_peers g) with
           | None => Ok (g, INVAL)
           | Some existing =>
               if all then Ok (with_peers g (set_peer p None (g_peers g)), OK)
               else match existing with
                    | None => Ok (g, NOTFOUND)
                    | Some old =>
                        Ok (with_peers g
                              (set_peer p
                                 (Some (without_policies old names))
                                 (g_peers g)), OK)
                    end
           end
  | GPeerEval _ _ | GDump | GSetRpki | GImportEval _ | GProbe _ _ => Ok (g, OK)
  end.

(* the export policy a peer's session evaluates: its override, else the global slot *)
Definition effective_export (g : global) (p : N) : option assignment :=
  match find_peer p (g_peers g) with
  | Some (Some a) => Some a
  | _ => t_exp (g_table g)
  end.

Section GRun.
  Variable rx_comm rx_ext rx_large : N -> N -> bool.
  Variable rx_aspath : N -> list N -> bool.
  Variable validate : nlri -> N -> option N.

  (* the gate of TableManager::apply_import and PeerSession::handle_prefix_update:
     evaluation gets the RPKI table only when the assignment's cached flag is set
     (an RPKI table without VRPs answers None to everything, as no table does) *)
  Definition gate (rpki_on : bool) (a : assignment) : option (nlri -> N -> option N) :=
    if as_needs_rpki a && rpki_on then Some validate else None.

  Definition gimport (rpki_on : bool) (g : global) (r : route) : val :=
    let rs := {| r_attrs := ro_attrs r; r_nh := ro_nh r |} in
    match t_imp (g_table g) with
    | None => VL (VB false :: v_rstate rs)
    | Some a =>
        match apply_import rx_comm rx_ext rx_large rx_aspath (gate rpki_on a) a (ro_src r) (ro_net r) rs with
        | Panic _ => VL [VI (-1)%Z]
        | Ok (f, rs') => VL (VB f :: v_rstate rs')
        end
    end.

  Definition geval (rpki_on : bool) (g : global) (p : N) (r : route) : val :=
    match effective_export g p with
    | None => VL [VI (-2)%Z]
    | Some a =>
        let rs := {| r_attrs := ro_attrs r; r_nh := ro_nh r |} in
        let x := {| x_src := ro_src r; x_net := ro_net r; x_orig_nh := ro_orig r;
                    x_confed := ro_confed r; x_local := ro_local r; x_peer := ro_peer r |} in
        match apply_export rx_comm rx_ext rx_large rx_aspath (gate rpki_on a) a x rs with
        | Panic _ => VL [VI (-1)%Z]
        | Ok (d, rs') => VL (VN (disp_code d) :: v_rstate rs')
        end
    end.

  Definition gdump (g : global) : val :=
    VL [dump (g_table g);
        VList (fun e => VL [VN (fst e); v_asg (snd e)]) (g_peers g);
        VN 1; VN 1].

  Fixpoint grun_ops (rpki_on : bool) (g : global) (l : list gop) : list val :=
    match l with
    | [] => []
    | o :: r =>
        match o with
        | GPeerEval p ro =>
            let v := geval rpki_on g p ro in
            match v with
            | VL [VI (-1)%Z] => [v]
            | _ => v :: grun_ops rpki_on g r
            end
        | GImportEval ro =>
            let v := gimport rpki_on g ro in
            match v with
            | VL [VI (-1)%Z] => [v]
            | _ => v :: grun_ops rpki_on g r
            end
        | GDump => gdump g :: grun_ops rpki_on g r
        | GSetRpki => VL [VN 0] :: grun_ops true g r
        | GProbe n asn => (if rpki_on then VOpt VN (validate n asn) else VL []) :: grun_ops rpki_on g r
        | _ =>
            match gstep g o with
            | Panic _ => [VL [VI (-1)%Z]]
            | Ok (g', c) => VL [VN c] :: grun_ops rpki_on g' r
            end
        end
    end.
End GRun.

Definition grun_case (tc te tl : list (N * list N)) (ta : list (N * list (list N)))
           (tv : list (nlri * N * option N)) (ops : list gop) : val :=
  VL (grun_ops (rx_table tc) (rx_table te) (rx_table tl) (rx_str_table ta) (validate_table tv) false empty_global ops).
