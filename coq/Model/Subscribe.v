(* Small-step model of the subscriber path of daemon/src/table_manager.rs:
   subscribe (register-then-snapshot) and unsubscribe for any number of
   subscriptions, insert_route, remove_route, soft_reset_in, unregister_peer
   (drop arm and graceful-restart stale arm) + peer_down, drop_families,
   drop_stale_families, update_nexthop_validity, peer_up, the import policy
   swap, over two shards, as threads whose atomic steps are exactly the
   stretches of code between two scheduling points (verif_sched::point: before
   every shard-lock acquisition; the harness adds one before every operation).
   One step = one shard-lock critical section (the subscriber list is loaded
   inside it), or one ArcSwap load/rcu/store, or the lock-free stretch before
   the first lock.  No proofs in this file.

   The Adj-RIB-In is abstracted to key -> (attribute token, filtered); a key is
   (peer, shard, index, path id); the import policy is "reject these peers".
   [variant] selects the behaviour before ([Legacy]) and after ([Fixed]) the fix
   commits of findings C18-1 (an insert refused by the prefix limit had been
   announced and was not taken back), C18-2 (soft_reset_in loaded the
   subscriber list once, before the shard loop, instead of inside each critical
   section) and C18-3 (the session / stale purges removed paths without any
   Adj-RIB-In event). *)
From Coq Require Import List NArith Bool.
From RB Require Import Base.Val.
Import ListNotations.
Open Scope N_scope.

Record key := { k_peer : N; k_sh : N; k_ix : N; k_pid : N }.
Definition key_eqb (a b : key) : bool :=
  (k_peer a =? k_peer b) && (k_sh a =? k_sh b) && (k_ix a =? k_ix b) && (k_pid a =? k_pid b).
(* two shards: shard 0 and "the other one" *)
Definition shard_of (k : key) : N := if k_sh k =? 0 then 0 else 1.
Definition same_prefix (a b : key) : bool :=
  (k_peer a =? k_peer b) && (shard_of a =? shard_of b) && (k_ix a =? k_ix b).

Inductive ev :=
| EvPre (k : key) (v : option N)       (* BgpEvent::AdjRibIn: reach with attribute token, or withdraw *)
| EvPost (k : key) (v : option N)      (* BgpEvent::AdjRibInPost *)
| EvUp (p : N)
| EvDown (p : N)
| EvEnd.                               (* EndOfSnapshot *)

Inductive op :=
| Subscribe (j : nat)                  (* subscribe(true) into subscription slot j *)
| Unsubscribe (j : nat)
| Ins (k : key) (tok : N)
| Rem (k : key)
| Up (p : N)
| Down (p : N)                         (* unregister_peer(addr, all families, []) ; peer_down *)
| GrDown (p : N)                       (* unregister_peer(addr, [], all families) ; peer_down: paths kept, stale *)
| DropStale (p : N)                    (* drop_stale_families *)
| DropFam (p : N)                      (* drop_families *)
| MarkLlgr (p : N)                     (* mark_llgr_stale: the peer's NO_LLGR paths are deleted *)
| DropLlgr (p : N)                     (* drop_llgr_stale_families *)
| SoftReset (p : N)
| SetPol (n : N)
| Nhv (a : N).                         (* update_nexthop_validity: walks the shards, no Adj-RIB-In effect *)

(* atomic steps *)
(* which paths of a peer a purge selects: the stale ones (drop_stale), all (disconnected),
   the ones carrying the NO_LLGR community (drop_no_llgr, called by mark_llgr_stale) *)
Inductive pmode := PStale | PAll | PNoLlgr | PLlgr.
(* the attribute blocks of the harness: tokens 4.. carry NO_LLGR *)
Definition nollgr_tok (tok : N) : bool := 4 <=? tok.

Inductive mstep :=
| MSubReg (j : nat)                    (* subscribers.rcu(push) *)
| MWalk (j : nat)                      (* lock next shard, send its snapshot; after the last shard: EndOfSnapshot *)
| MUnsub (j : nat)                     (* subscribers.rcu(filter) *)
| MInsPrep (k : key) (tok : N)         (* import_policy.load_full() ... *)
| MInsLocked (k : key) (tok : N)       (* lock; subscribers.load(); notify; insert *)
| MRemPrep (k : key)
| MRemLocked (k : key)
| MUp (p : N)
| MUnregPrep (p : N)
| MUnregShard (p : N) (s : N)          (* lock shard s; disconnected(addr, family) *)
| MPeerDown (p : N)                    (* subscribers.load(); send PeerDown *)
| MStaleShard (p : N) (s : N)          (* lock shard s; mark_stale(addr, family) *)
| MPeerDownGr (p : N)                  (* PeerDown; the next session gets a new Source *)
| MPurgePrep (p : N)
| MPurgeShard (all : pmode) (p : N) (s : N)   (* lock shard s; drop_stale / disconnected / drop_no_llgr *)
| MResetPrep (p : N)                   (* import_policy / subscribers loads *)
| MResetShard (p : N) (s : N)
| MSetPol (n : N)
| MNhvPrep (a : N)
| MNhvShard (a : N) (s : N).

Definition expand (o : op) : list mstep :=
  match o with
  | Subscribe j => [MSubReg j; MWalk j; MWalk j]
  | Unsubscribe j => [MUnsub j]
  | Ins k tok => [MInsPrep k tok; MInsLocked k tok]
  | Rem k => [MRemPrep k; MRemLocked k]
  | Up p => [MUp p]
  | Down p => [MUnregPrep p; MUnregShard p 0; MUnregShard p 1; MPeerDown p]
  | GrDown p => [MUnregPrep p; MStaleShard p 0; MStaleShard p 1; MPeerDownGr p]
  | DropStale p => [MPurgePrep p; MPurgeShard PStale p 0; MPurgeShard PStale p 1]
  | DropFam p => [MPurgePrep p; MPurgeShard PAll p 0; MPurgeShard PAll p 1]
  | MarkLlgr p => [MPurgePrep p; MPurgeShard PNoLlgr p 0; MPurgeShard PNoLlgr p 1]
  | DropLlgr p => [MPurgePrep p; MPurgeShard PLlgr p 0; MPurgeShard PLlgr p 1]
  | SoftReset p => [MResetPrep p; MResetShard p 0; MResetShard p 1]
  | SetPol n => [MSetPol n]
  | Nhv a => [MNhvPrep a; MNhvShard a 0; MNhvShard a 1]
  end.

Record cfg := {
  c_pols : list (list N);              (* policy k (1-based): peers whose routes it rejects *)
  c_lims : list (N * N)                (* peer -> prefix limit of its session *)
}.

Inductive variant := Legacy | Fixed.

Record thread := {
  t_cur : list mstep;                  (* rest of the operation in progress *)
  t_ops : list op;                     (* operations still to be started *)
  t_pol : N;                           (* import policy loaded by the Prep step *)
  t_subs : nat -> bool                 (* subscriber list loaded by a Prep step *)
}.

Record glob := {
  g_keys : list key;                   (* keys ever inserted, no duplicates *)
  g_rib : key -> option (N * bool);    (* attribute token, filtered *)
  g_ssn : key -> N;                    (* which Source (session) of its peer the path came from *)
  g_stale : list (N * N);              (* (peer, session): Sources marked stale *)
  g_llgr : list (N * N);               (* (peer, session): Sources marked LLGR-stale *)
  g_sess : N -> N;                     (* current session of a peer *)
  g_ph : nat -> N;                     (* subscription slot: 0 unused, 1 in the subscriber list, 2 unsubscribed *)
  g_walk : nat -> N;                   (* shards snapshotted so far by subscription j *)
  g_pol : N;
  g_ctr : N -> N;                      (* per-session prefix counters *)
  g_evs : nat -> list ev               (* what subscription j's channel received, oldest first *)
}.

Record sys := { s_g : glob; s_thr : nat -> thread }.

Definition glob0 : glob :=
  {| g_keys := []; g_rib := fun _ => None; g_ssn := fun _ => 0; g_stale := []; g_llgr := []; g_sess := fun _ => 0;
     g_ph := fun _ => 0; g_walk := fun _ => 0; g_pol := 0; g_ctr := fun _ => 0; g_evs := fun _ => [] |}.
Definition init (progs : list (list op)) : sys :=
  {| s_g := glob0;
     s_thr := fun i => {| t_cur := []; t_ops := nth i progs []; t_pol := 0; t_subs := fun _ => false |} |}.

Section WithCfg.
Variable c : cfg.
Variable v : variant.

Definition rejects (pol p : N) : bool :=
  if pol =? 0 then false else
  match nth_error (c_pols c) (N.to_nat (pol - 1)) with
  | Some l => existsb (N.eqb p) l
  | None => false
  end.
Definition limit_of (p : N) : option N :=
  match find (fun x => fst x =? p) (c_lims c) with Some x => Some (snd x) | None => None end.

Definition upd_rib (k : key) (x : option (N * bool)) (r : key -> option (N * bool)) : key -> option (N * bool) :=
  fun q => if key_eqb q k then x else r q.
Definition add_key (k : key) (ks : list key) : list key :=
  if existsb (key_eqb k) ks then ks else k :: ks.
Definition set_ctr (p n : N) (f : N -> N) : N -> N := fun q => if q =? p then n else f q.

Definition live (g : glob) (j : nat) : bool := g_ph g j =? 1.

(* the notification helpers: an event goes to every subscription of the list *)
Definition bcast (subs : nat -> bool) (evs : nat -> list ev) (l : list ev) : nat -> list ev :=
  fun j => evs j ++ (if subs j then l else []).

Definition post_val (tok : N) (filtered : bool) : option N := if filtered then None else Some tok.

Definition peer_has_prefix (g : glob) (k : key) : bool :=
  existsb (fun q => same_prefix q k && match g_rib g q with Some _ => true | None => false end) (g_keys g).

Definition is_llgr (g : glob) (k : key) : bool :=
  existsb (fun x => (fst x =? k_peer k) && (snd x =? g_ssn g k)) (g_llgr g).
Definition is_stale (g : glob) (k : key) : bool :=
  existsb (fun x => (fst x =? k_peer k) && (snd x =? g_ssn g k)) (g_stale g).

(* the value a kind of Adj-RIB-In holds for a key: [b = false] pre-policy
   (iter_reach), [b = true] post-policy (iter_reach_post: filtered paths left out) *)
Definition ribv (b : bool) (r : key -> option (N * bool)) (k : key) : option N :=
  match r k with
  | Some (tok, f) => if b && f then None else Some tok
  | None => None
  end.
Definition evk (b : bool) (k : key) (x : option N) : ev := if b then EvPost k x else EvPre k x.

Definition with_rib (g : glob) (subs : nat -> bool) (evs : list ev) (keys : list key)
           (rib : key -> option (N * bool)) (ssn : key -> N) (ctr : N -> N) : glob :=
  {| g_keys := keys; g_rib := rib; g_ssn := ssn; g_stale := g_stale g; g_llgr := g_llgr g; g_sess := g_sess g;
     g_ph := g_ph g; g_walk := g_walk g; g_pol := g_pol g; g_ctr := ctr;
     g_evs := bcast subs (g_evs g) evs |}.

(* insert_route's critical section *)
Definition ins_locked (g : glob) (pol : N) (k : key) (tok : N) : glob :=
  let filtered := rejects pol (k_peer k) in
  let evs := [evk false k (Some tok); evk true k (post_val tok filtered)] in
  let is_new := negb (peer_has_prefix g k) in
  let ssn' := fun q => if key_eqb q k then g_sess g (k_peer k) else g_ssn g q in
  match limit_of (k_peer k) with
  | Some m =>
    if is_new && (m <=? g_ctr g (k_peer k)) then
      (* PrefixLimitExceeded: already notified, nothing inserted; since the fix of
         finding C18-1 the announcement is taken back *)
      with_rib g (live g) (evs ++ match v with
                                  | Legacy => []
                                  | Fixed => [evk false k None; evk true k None]
                                  end)
               (g_keys g) (g_rib g) (g_ssn g) (g_ctr g)
    else
      with_rib g (live g) evs (add_key k (g_keys g)) (upd_rib k (Some (tok, filtered)) (g_rib g)) ssn'
               (if is_new then set_ctr (k_peer k) (g_ctr g (k_peer k) + 1) (g_ctr g) else g_ctr g)
  | None =>
    with_rib g (live g) evs (add_key k (g_keys g)) (upd_rib k (Some (tok, filtered)) (g_rib g)) ssn' (g_ctr g)
  end.

(* remove_route's critical section *)
(* AtomicU64::fetch_sub(1) of Table::remove: wraps at zero (a session that came back after a
   graceful restart has a fresh counter and may withdraw a path retained from the previous one) *)
Definition ctr_dec (n : N) : N := if n =? 0 then 18446744073709551615 else n - 1.
Definition rem_locked (g : glob) (k : key) : glob :=
  let evs := [evk false k None; evk true k None] in
  let rib' := upd_rib k None (g_rib g) in
  let g' := with_rib g (live g) evs (g_keys g) rib' (g_ssn g) (g_ctr g) in
  match g_rib g k, limit_of (k_peer k) with
  | Some _, Some _ =>
    if peer_has_prefix g' k then g'
    else with_rib g (live g) evs (g_keys g) rib' (g_ssn g) (set_ctr (k_peer k) (ctr_dec (g_ctr g (k_peer k))) (g_ctr g))
  | _, _ => g'
  end.

Definition in_shard (s : N) (k : key) : bool := shard_of k =? s.
Definition nonnone {A} (o : option A) : bool := match o with Some _ => true | None => false end.

(* TableShard::disconnected / drop_stale for one shard: the selected paths vanish;
   since the fix of finding C18-3 each is withdrawn from the subscribers *)
Definition purge_sel (g : glob) (all : pmode) (p s : N) (q : key) : bool :=
  (k_peer q =? p) && in_shard s q &&
  match all with
  | PAll => true
  | PStale => is_stale g q
  | PNoLlgr => match g_rib g q with Some (tok, _) => nollgr_tok tok | None => false end
  | PLlgr => is_llgr g q
  end.
Definition set_llgr (g : glob) (l : list (N * N)) : glob :=
  {| g_keys := g_keys g; g_rib := g_rib g; g_ssn := g_ssn g; g_stale := g_stale g; g_llgr := l; g_sess := g_sess g;
     g_ph := g_ph g; g_walk := g_walk g; g_pol := g_pol g; g_ctr := g_ctr g; g_evs := g_evs g |}.
Definition purge_shard (g : glob) (all : pmode) (p s : N) : glob :=
  let ks := filter (fun q => purge_sel g all p s q && nonnone (g_rib g q)) (g_keys g) in
  let evs := flat_map (fun q => [evk false q None; evk true q None]) ks in
  let g1 := with_rib g (live g) (match v with Legacy => [] | Fixed => evs end) (g_keys g)
              (fun q => if purge_sel g all p s q then None else g_rib g q) (g_ssn g) (g_ctr g) in
  match all with
  | PNoLlgr =>
    (* mark_llgr_stale first marks the Sources of the peer's paths in this shard (restale_llgr) *)
    set_llgr g1 (map (fun q => (p, g_ssn g q))
                     (filter (fun q => (k_peer q =? p) && in_shard s q && nonnone (g_rib g q)) (g_keys g)) ++ g_llgr g)
  | _ => g1
  end.

(* TableShard::mark_stale for one shard: the Sources of the peer's paths in this
   shard are marked (the mark is shared by all their paths in every shard) *)
Definition stale_shard (g : glob) (p s : N) : glob :=
  let ks := filter (fun q => (k_peer q =? p) && in_shard s q && nonnone (g_rib g q)) (g_keys g) in
  {| g_keys := g_keys g; g_rib := g_rib g; g_ssn := g_ssn g;
     g_stale := map (fun q => (p, g_ssn g q)) ks ++ g_stale g; g_llgr := g_llgr g; g_sess := g_sess g;
     g_ph := g_ph g; g_walk := g_walk g; g_pol := g_pol g; g_ctr := g_ctr g; g_evs := g_evs g |}.

(* TableShard::soft_reset_in for one shard (stale paths are skipped) *)
Definition reset_sel (g : glob) (p s : N) (q : key) : bool :=
  (k_peer q =? p) && in_shard s q && negb (is_stale g q).
Definition reset_rib (g : glob) (f' : bool) (p s : N) : key -> option (N * bool) :=
  fun q => if reset_sel g p s q
           then match g_rib g q with Some (tok, _) => Some (tok, f') | None => None end
           else g_rib g q.
Definition reset_shard (g : glob) (subs : nat -> bool) (pol p s : N) : glob :=
  let r' := reset_rib g (rejects pol p) p s in
  let ks := filter (reset_sel g p s) (g_keys g) in
  let evs := flat_map (fun q => match g_rib g q with
                                | Some _ => [evk true q (ribv true r' q)]
                                | None => []
                                end) ks in
  with_rib g subs evs (g_keys g) r' (g_ssn g) (g_ctr g).

(* one shard of subscribe's snapshot loop (sent on the subscription's own sender) *)
Definition walk_evs (b : bool) (r : key -> option (N * bool)) (ks : list key) : list ev :=
  flat_map (fun q => match ribv b r q with Some tok => [evk b q (Some tok)] | None => [] end) ks.
Definition upd_nat {A} (j : nat) (x : A) (f : nat -> A) : nat -> A := fun i => if Nat.eqb i j then x else f i.
Definition walk_shard (g : glob) (j : nat) : glob :=
  let s := g_walk g j in
  let ks := filter (fun q => in_shard s q) (g_keys g) in
  {| g_keys := g_keys g; g_rib := g_rib g; g_ssn := g_ssn g; g_stale := g_stale g; g_llgr := g_llgr g; g_sess := g_sess g;
     g_ph := g_ph g; g_walk := upd_nat j (s + 1) (g_walk g); g_pol := g_pol g; g_ctr := g_ctr g;
     g_evs := upd_nat j (g_evs g j ++ walk_evs false (g_rib g) ks ++ walk_evs true (g_rib g) ks ++
                         (if s + 1 =? 2 then [EvEnd] else [])) (g_evs g) |}.

Definition with_evs (g : glob) (evs : list ev) : glob :=
  with_rib g (live g) evs (g_keys g) (g_rib g) (g_ssn g) (g_ctr g).
Definition set_ph (g : glob) (j : nat) (x : N) : glob :=
  {| g_keys := g_keys g; g_rib := g_rib g; g_ssn := g_ssn g; g_stale := g_stale g; g_llgr := g_llgr g; g_sess := g_sess g;
     g_ph := upd_nat j x (g_ph g); g_walk := g_walk g; g_pol := g_pol g; g_ctr := g_ctr g; g_evs := g_evs g |}.
Definition load_locals (g : glob) (t : thread) : thread :=
  {| t_cur := t_cur t; t_ops := t_ops t; t_pol := g_pol g; t_subs := live g |}.

(* effect of one atomic step executed by a thread with locals [t] *)
Definition exec (g : glob) (t : thread) (m : mstep) : glob * thread :=
  match m with
  | MSubReg j => (if g_ph g j =? 0 then set_ph g j 1 else g, t)   (* a slot is used by one subscribe call *)
  | MWalk j => (walk_shard g j, t)
  | MUnsub j => (set_ph g j 2, t)
  | MInsPrep _ _ => (g, load_locals g t)
  | MRemPrep _ | MUnregPrep _ | MPurgePrep _ | MNhvPrep _ | MNhvShard _ _ => (g, t)
  | MInsLocked k tok => (ins_locked g (t_pol t) k tok, t)
  | MRemLocked k => (rem_locked g k, t)
  | MUp p => (with_evs g [EvUp p], t)
  | MUnregShard p s => (purge_shard g PAll p s, t)
  | MPeerDown p =>
    (with_rib g (live g) [EvDown p] (g_keys g) (g_rib g) (g_ssn g) (set_ctr p 0 (g_ctr g)), t)
  | MStaleShard p s => (stale_shard g p s, t)
  | MPeerDownGr p =>
    let g1 := with_rib g (live g) [EvDown p] (g_keys g) (g_rib g) (g_ssn g) (set_ctr p 0 (g_ctr g)) in
    ({| g_keys := g_keys g1; g_rib := g_rib g1; g_ssn := g_ssn g1; g_stale := g_stale g1;
        g_llgr := g_llgr g1; g_sess := set_ctr p (g_sess g p + 1) (g_sess g); g_ph := g_ph g1; g_walk := g_walk g1;
        g_pol := g_pol g1; g_ctr := g_ctr g1; g_evs := g_evs g1 |}, t)
  | MPurgeShard all p s => (purge_shard g all p s, t)
  | MResetPrep _ => (g, load_locals g t)
  | MResetShard p s =>
    (reset_shard g (match v with Legacy => t_subs t | Fixed => live g end) (t_pol t) p s, t)
  | MSetPol n =>
    ({| g_keys := g_keys g; g_rib := g_rib g; g_ssn := g_ssn g; g_stale := g_stale g; g_llgr := g_llgr g; g_sess := g_sess g;
        g_ph := g_ph g; g_walk := g_walk g; g_pol := n; g_ctr := g_ctr g; g_evs := g_evs g |}, t)
  end.

(* next atomic step of a thread: continue the operation in progress, or start the next one *)
Definition next_step (t : thread) : option (mstep * thread) :=
  match t_cur t with
  | m :: r => Some (m, {| t_cur := r; t_ops := t_ops t; t_pol := t_pol t; t_subs := t_subs t |})
  | [] => match t_ops t with
          | o :: os => match expand o with
                       | m :: r => Some (m, {| t_cur := r; t_ops := os; t_pol := t_pol t; t_subs := t_subs t |})
                       | [] => None
                       end
          | [] => None
          end
  end.

Definition upd_thr (i : nat) (t : thread) (f : nat -> thread) : nat -> thread :=
  fun j => if Nat.eqb j i then t else f j.

(* thread [i] is granted one step (nothing happens if it has finished) *)
Definition sys_step (s : sys) (i : nat) : sys :=
  match next_step (s_thr s i) with
  | None => s
  | Some (m, t1) =>
    let '(g', t2) := exec (s_g s) t1 m in
    {| s_g := g'; s_thr := upd_thr i t2 (s_thr s) |}
  end.

Definition run_sched (s : sys) (sched : list nat) : sys := fold_left sys_step sched s.

(* let every thread run to completion, in index order (how the harness ends a case) *)
Fixpoint drain (fuel : nat) (s : sys) (i : nat) : sys :=
  match fuel with
  | O => s
  | S f => match next_step (s_thr s i) with
           | None => s
           | Some _ => drain f (sys_step s i) i
           end
  end.
Definition finish (s : sys) (n : nat) : sys :=
  fold_left (fun s i => drain 1000 s i) (seq 0 n) s.

End WithCfg.

(* ---- the subscriber: apply_snapshot on every AdjRibIn / AdjRibInPost event,
   PeerDown forgets the peer (Spec/SubscribeSpec.v states what this must equal) *)
Definition fmap := key -> option N.
Definition fupd (k : key) (x : option N) (m : fmap) : fmap := fun q => if key_eqb q k then x else m q.
Definition fclear (p : N) (m : fmap) : fmap := fun q => if k_peer q =? p then None else m q.
Definition apply_pre (m : fmap) (e : ev) : fmap :=
  match e with EvPre k x => fupd k x m | EvDown p => fclear p m | _ => m end.
Definition apply_post (m : fmap) (e : ev) : fmap :=
  match e with EvPost k x => fupd k x m | EvDown p => fclear p m | _ => m end.
Definition fold_pre (evs : list ev) : fmap := fold_left apply_pre evs (fun _ => None).
Definition fold_post (evs : list ev) : fmap := fold_left apply_post evs (fun _ => None).

(* track_peer_up / track_peer_down: which PeerUp/PeerDown events are forwarded *)
Fixpoint forward (sent : list N) (evs : list ev) : list ev :=
  match evs with
  | [] => []
  | EvUp p :: t => EvUp p :: forward (if existsb (N.eqb p) sent then sent else p :: sent) t
  | EvDown p :: t =>
    if existsb (N.eqb p) sent then EvDown p :: forward (filter (fun q => negb (q =? p)) sent) t
    else forward sent t
  | _ :: t => forward sent t
  end.

(* ---- printers *)
Definition v_key (k : key) : val := VL [VN (k_peer k); VN (shard_of k); VN (k_ix k); VN (k_pid k)].
Definition v_ev (e : ev) : val :=
  match e with
  | EvPre k x => VL [VN 0; v_key k; VOpt VN x]
  | EvPost k x => VL [VN 1; v_key k; VOpt VN x]
  | EvUp p => VL [VN 2; VN p]
  | EvDown p => VL [VN 3; VN p]
  | EvEnd => VL [VN 4]
  end.
Definition all_keys (g : glob) (evs : list ev) : list key :=
  fold_right (fun e acc => match e with
                           | EvPre k _ | EvPost k _ => add_key k acc
                           | _ => acc
                           end) (g_keys g) evs.
Definition v_map (ks : list key) (m : key -> option N) : val :=
  VL (flat_map (fun k => match m k with Some x => [VL [v_key k; VN x]] | None => [] end) ks).

Definition v_sub (g : glob) (j : nat) : val :=
  if g_ph g j =? 0 then VL [] else
  let evs := g_evs g j in
  let ks := all_keys g evs in
  VL [VList v_ev evs; v_map ks (fold_pre evs); v_map ks (fold_post evs); VList v_ev (forward [] evs)].

Definition observe (g : glob) : val :=
  VL [VL (flat_map (fun k => match ribv false (g_rib g) k with
                             | Some x => [VL [v_key k; VN x; VB (is_stale g k)]]
                             | None => []
                             end) (g_keys g));
      v_map (g_keys g) (ribv true (g_rib g));
      VL (map (v_sub g) [0; 1; 2]%nat)].

Definition run_case (v : variant) (c : cfg) (progs : list (list op)) (sched : list nat) : val :=
  observe (s_g (finish c v (run_sched c v (init progs) sched) (length progs))).
