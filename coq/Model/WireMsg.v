(* Executable model of the BGP receive path, part 4: PeerCodec::parse_message
   (OPEN, NOTIFICATION, KEEPALIVE, ROUTE-REFRESH arms; the UPDATE arm is
   WireUpdate.v), PeerCodec::try_parse, and the observation printed by
   harness/hx-packet.  No proofs in this file. *)
From Coq Require Import List ZArith NArith Bool.
From RB Require Import Base.Val Base.Bytes Model.Caps Model.Stream Model.Wire Model.WireNlri Model.WireUpdate.
Import ListNotations.
Open Scope N_scope.

Inductive pmsg :=
| POpen (asn hold rid : N) (caps : list cap)
| PUpdate (u : pupdate)
| PNotif (n : notif)
| PKeepalive
| PRefresh (fam : N).

(* ---- OPEN: capabilities inside one optional parameter.
   while c.position() < op_end: [crem] = op_end - position *)
Fixpoint caps_loop (fuel : nat) (p : profile) (c : list N) (crem : N) (acc : list cap) (as4 : N)
  : res (list cap * N * list N) :=
  if crem =? 0 then Ok (acc, as4, c) else
  match fuel with
  | O => Panic FUEL
  | S f =>
    if crem <? 2 then Fail E_OPEN_MALFORMED else
    '(ct, c) <- must 30 (get8 c) ;;
    '(cl, c) <- must 31 (get8 c) ;;
    let crem := crem - 2 in
    if crem <? cl then Fail E_OPEN_MALFORMED else
    '(cp, c') <- cap_decode p ct c cl ;;
    let used := len c - len c' in
    (* the cursor moved by what the arm read, which can be less than cap_len (FQDN) *)
    caps_loop f p c' (crem - used) (acc ++ [cp])
              (match cp with CFourOctet a => a | _ => as4 end)
  end.

(* while c.position() < param_end: [prem] = param_end - position *)
Fixpoint params_loop (fuel : nat) (p : profile) (c : list N) (prem : N) (acc : list cap) (as4 : N)
  : res (list cap * N) :=
  if prem =? 0 then Ok (acc, as4) else
  match fuel with
  | O => Panic FUEL
  | S f =>
    if prem <? 2 then Fail E_OPEN_MALFORMED else
    '(ot, c) <- must 32 (get8 c) ;;
    '(ol, c) <- must 33 (get8 c) ;;
    let prem := prem - 2 in
    if prem <? ol then Fail E_OPEN_MALFORMED else
    if ot =? 2 then
      '(acc, as4, c) <- caps_loop (S (length c)) p c ol acc as4 ;;
      params_loop f p c (prem - ol) acc as4
    else
      (* data: buf[position - 2 .. position + op_len] *)
      if Nat.ltb (length c) (nat_of ol) then Panic 34
      else Fail (mkn 2 4 (ot :: ol :: firstn (nat_of ol) c))
  end.

Definition parse_open (p : profile) (hdr_err : notif) (frame : list N) : res pmsg :=
  if len frame <? 29 then Fail hdr_err else
  match skipn 19 frame with
  | ver :: a1 :: a2 :: h1 :: h2 :: r1 :: r2 :: r3 :: r4 :: plen :: c =>
    if negb (ver =? 4) then Fail (mkn 2 1 [0; 4]) else
    let asn := be16 a1 a2 in
    let hold := be16 h1 h2 in
    if (hold =? 1) || (hold =? 2) then Fail (mkn 2 6 [h1; h2]) else
    let rid := be32 r1 r2 r3 r4 in
    (* unspecified, broadcast, multicast *)
    if (rid =? 0) || (rid =? 4294967295) || ((224 <=? r1) && (r1 <=? 239)) then Fail (mkn 2 3 []) else
    if len frame <? 29 + plen then Fail E_OPEN_MALFORMED else
    '(caps, as4) <- params_loop (S (length c)) p c plen [] 0 ;;
    Ok (POpen (if asn =? 23456 then as4 else asn) hold rid caps)
  | _ => Panic 35                                          (* c.read_*().unwrap() *)
  end.

Section Msg.
  Variable other_nlri : N -> bool -> list N -> option (list N).

  (* PeerCodec::parse_message on one frame *)
  Definition parse_message (p : profile) (cd : codec) (frame : list N) : res pmsg :=
    if len frame <? 19 then Fail (mkn 1 2 []) else
    code <- must 40 (nth_error frame 18) ;;                  (* buf[18] *)
    b16 <- must 41 (nth_error frame 16) ;;                   (* buf[16..18] *)
    b17 <- must 41 (nth_error frame 17) ;;
    let hdr_err := mkn 1 2 [b16; b17] in
    match code with
    | 1 => parse_open p hdr_err frame
    | 2 => u <- parse_update other_nlri cd hdr_err frame ;; Ok (PUpdate u)
    | 3 =>
      if len frame <? 21 then Fail hdr_err else
      match skipn 19 frame with
      | c :: s :: d => Ok (PNotif (notif_norm c s d))
      | _ => Panic 42
      end
    | 4 => if negb (len frame =? 19) then Fail hdr_err else Ok PKeepalive
    | 5 =>
      if len frame <? 23 then Fail hdr_err else
      if 23 <? len frame then Fail (mkn 7 1 frame) else
      match skipn 19 frame with
      | a :: b :: c :: d :: _ => Ok (PRefresh (be32 a b c d))
      | _ => Panic 43
      end
    | _ => Fail (mkn 1 3 [code])
    end.

  (* PeerCodec::try_parse on the receive buffer *)
  Definition try_parse (p : profile) (cd : codec) (src : list N) : dres pmsg notif :=
    if len src <? 19 then DNeed src else
    match nth_error src 16, nth_error src 17 with
    | Some b16, Some b17 =>
      let mlen := be16 b16 b17 in
      if (mlen <? 19) || (max_len cd <? mlen) then DErr (mkn 1 2 [b16; b17]) src else
      if len src <? mlen then DNeed src else
      let frame := firstn (nat_of mlen) src in               (* src.split_to(message_len) *)
      let rest := skipn (nat_of mlen) src in
      match parse_message p cd frame with
      | Ok m => DMsg m rest
      | Fail e => DErr e rest
      | Panic _ => DPanic
      end
    | _, _ => DPanic                                         (* src[16..18] *)
    end.
End Msg.

(* ------------------------------------------------------------ observation *)
Definition v_notif (n : notif) : list val := [VN (n_code n); VN (n_sub n); VNs (n_data n)].

Definition v_pmsg (m : pmsg) : val :=
  match m with
  | POpen a h r c => VL [VN 1; VN a; VN h; VN r; v_caps c]
  | PUpdate u => VL (VN 2 :: v_pupdate u)
  | PNotif n => VL (VN 3 :: v_notif n)
  | PKeepalive => VL [VN 4]
  | PRefresh f => VL [VN 5; VN f]
  end.

(* The correspondence run never negotiates a family whose decoder is not
   modelled, so the oracle is never called there; it is instantiated by a
   decoder that always fails. *)
Definition no_other : N -> bool -> list N -> option (list N) := fun _ _ _ => None.

Definition v_bgp_stream (p : profile) (cd : codec) (chunks : list (list N)) : val :=
  v_stream v_pmsg v_notif (run_stream (try_parse no_other p cd) chunks).

Definition mk_codec (ext_len two_byte : bool) (fams : list (N * bool)) : codec :=
  {| c_ext_len := ext_len; c_two_byte := two_byte; c_fams := fams |}.

(* The two build profiles are evaluated once: try_parse does not depend on the profile
   (Proofs/WireOpen.v try_parse_profile_indep - the only profile-dependent operation, the u8
   subtraction in the GR capability, is guarded), so the release observation is the debug one. *)
Definition run_bgp (cd : codec) (chunks : list (list N)) : val :=
  let v := v_bgp_stream Debug cd chunks in VL [v; v].
