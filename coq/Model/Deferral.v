(* Executable model of the Restarting-Speaker deferral machine of
   daemon/src/gr.rs: RestartingDeferral::{new, process, remove_peer,
   complete_for, finish_awaiting, finish_deferring}, transcribed arm for arm,
   and of the driver glue daemon/src/event/mod.rs process_restarting_outputs /
   gr_selection_deferral_timer_expired.  No proofs in this file.

   Families are their (afi << 16 | safi) code, peers are small integers the
   harness maps to IpAddr.  FnvHashSet<Family> is a duplicate-free list,
   FnvHashMap<IpAddr, _> an association list with distinct keys; iteration
   order of both is unspecified in Rust, so observations are compared modulo
   the order of FamilyDeferralComplete runs and of the family lists inside
   DeferFamilies / EndDeferral (gen/c11.py canon). *)
From Coq Require Import List NArith Bool.
From RB Require Import Base.Val.
Import ListNotations.
Open Scope N_scope.

Definition fam := N.
Definition peer := N.
Definition fset := list fam.

Definition mem (x : N) (s : list N) : bool := existsb (N.eqb x) s.

(* Vec<Family> -> FnvHashSet<Family> *)
Fixpoint dedup (l : list N) : fset :=
  match l with
  | [] => []
  | x :: r => if mem x r then dedup r else x :: dedup r
  end.

Definition fremove (f : fam) (s : fset) : fset := filter (fun x => negb (x =? f)) s.

Definition pmap := list (peer * fset).

Fixpoint p_get (m : pmap) (a : peer) : option fset :=
  match m with
  | [] => None
  | (k, v) :: r => if k =? a then Some v else p_get r a
  end.

Definition p_remove (m : pmap) (a : peer) : pmap :=
  filter (fun e => negb (fst e =? a)) m.

(* HashMap::insert *)
Fixpoint p_set (m : pmap) (a : peer) (s : fset) : pmap :=
  match m with
  | [] => [(a, s)]
  | (k, v) :: r => if k =? a then (k, s) :: r else (k, v) :: p_set r a s
  end.

(* pending.values().any(|fs| fs.contains(f)) *)
Definition any_has (m : pmap) (f : fam) : bool := existsb (fun e => mem f (snd e)) m.

(* pending.values().flatten().collect::<FnvHashSet>() *)
Definition all_fams (m : pmap) : fset := dedup (flat_map snd m).

Inductive rdstate :=
| AwaitingStart (pending : pmap) (duration : option N)
| Deferring (pending : pmap)
| Completed.

Inductive rdinput :=
| PeerEstablished (a : peer) (fams : list fam)
| EorReceived (a : peer) (f : fam)
| PeerWithdrawn (a : peer)
| TimerExpired.

Inductive rdoutput :=
| DeferFamilies (l : list fam)
| StartDeferralTimer (d : option N)
| FamilyDeferralComplete (f : fam)
| EndDeferral (l : list fam).

(* the harness builds the FnvHashMap argument of new() by inserting the pairs
   of the case in order *)
Definition mk_peers (l : list (peer * list fam)) : list (peer * list fam) :=
  fold_left (fun m e => match e with (a, fs) =>
     (fix ins (m : list (peer * list fam)) :=
        match m with
        | [] => [(a, fs)]
        | (k, v) :: r => if k =? a then (k, fs) :: r else (k, v) :: ins r
        end) m end) l [].

(* peers with an empty list are skipped *)
Definition initial_pending (gr_peers : list (peer * list fam)) : pmap :=
  flat_map (fun e => match snd e with [] => [] | _ => [(fst e, dedup (snd e))] end) gr_peers.

Definition rd_new (gr_peers : list (peer * list fam)) (duration : option N)
  : rdstate * list rdoutput :=
  let pending := initial_pending gr_peers in
  match pending with
  | [] => (Completed, [])
  | _ => (AwaitingStart pending duration, [DeferFamilies (all_fams pending)])
  end.

Definition is_completed (s : rdstate) : bool :=
  match s with Completed => true | _ => false end.

(* complete_for *)
Definition complete_for (m : pmap) (cands : list fam) : list rdoutput :=
  map FamilyDeferralComplete (filter (fun f => negb (any_has m f)) cands).

(* remove_peer: (pending after removal, outputs) *)
Definition remove_peer (m : pmap) (a : peer) : pmap * list rdoutput :=
  match p_get m a with
  | Some removed => let m' := p_remove m a in (m', complete_for m' removed)
  | None => (m, [])
  end.

Definition finish_awaiting (m : pmap) (d : option N) (out : list rdoutput) : rdstate * list rdoutput :=
  match m with
  | [] => (Completed, out ++ [EndDeferral []])
  | _ => (AwaitingStart m d, out)
  end.

Definition finish_deferring (m : pmap) (out : list rdoutput) : rdstate * list rdoutput :=
  match m with
  | [] => (Completed, out ++ [EndDeferral []])
  | _ => (Deferring m, out)
  end.

(* the Occupied-entry arm shared by AwaitingStart and Deferring:
   new pending map and the FamilyDeferralComplete outputs *)
Definition reestablish (m : pmap) (a : peer) (old : fset) (fams : list fam) : pmap * list rdoutput :=
  let new_set := dedup fams in
  let m' := p_set m a new_set in
  let removed := filter (fun f => negb (mem f new_set)) old in
  (m', complete_for m' removed).

Definition rd_step (s : rdstate) (i : rdinput) : rdstate * list rdoutput :=
  match s, i with
  | AwaitingStart m d, PeerEstablished a fams =>
      match fams with
      | [] => let '(m', out) := remove_peer m a in finish_awaiting m' d out
      | _ =>
          match p_get m a with
          | Some old =>
              let '(m', out) := reestablish m a old fams in
              (Deferring m', out ++ [StartDeferralTimer d])
          | None => (AwaitingStart m d, [])
          end
      end
  | AwaitingStart m d, PeerWithdrawn a =>
      let '(m', out) := remove_peer m a in finish_awaiting m' d out
  | Deferring m, EorReceived a f =>
      let '(m', out) :=
        match p_get m a with
        | Some ps =>
            (* let awaited = peer_set.remove(&family);   (fix C11-1) *)
            let awaited := mem f ps in
            let ps' := fremove f ps in
            let m' := match ps' with [] => p_remove m a | _ => p_set m a ps' end in
            (m', if awaited && negb (any_has m' f) then [FamilyDeferralComplete f] else [])
        | None => (m, [])
        end in
      match m' with
      | [] => (Completed, out ++ [EndDeferral []])
      | _ => (Deferring m', out)
      end
  | Deferring m, PeerEstablished a fams =>
      match fams with
      | [] => let '(m', out) := remove_peer m a in finish_deferring m' out
      | _ =>
          match p_get m a with
          | Some old => let '(m', out) := reestablish m a old fams in (Deferring m', out)
          | None => (Deferring m, [])
          end
      end
  | Deferring m, PeerWithdrawn a =>
      let '(m', out) := remove_peer m a in finish_deferring m' out
  | Deferring m, TimerExpired => (Completed, [EndDeferral (all_fams m)])
  | Completed, _ => (Completed, [])
  | s, _ => (s, [])
  end.

(* The EorReceived arm as it was before the repair of finding C11-1 (the
   FamilyDeferralComplete was emitted whether or not the family had still been
   awaited from that peer).  Kept only for the witness lemma in
   Proofs/Deferral.v; nothing else refers to it. *)
Definition rd_step_unfixed (s : rdstate) (i : rdinput) : rdstate * list rdoutput :=
  match s, i with
  | Deferring m, EorReceived a f =>
      let '(m', out) :=
        match p_get m a with
        | Some ps =>
            let ps' := fremove f ps in
            let m' := match ps' with [] => p_remove m a | _ => p_set m a ps' end in
            (m', if any_has m' f then [] else [FamilyDeferralComplete f])
        | None => (m, [])
        end in
      match m' with
      | [] => (Completed, out ++ [EndDeferral []])
      | _ => (Deferring m', out)
      end
  | _, _ => rd_step s i
  end.

Fixpoint rd_trace_unfixed (s : rdstate) (ins : list rdinput) : list (list rdoutput) :=
  match ins with
  | [] => []
  | i :: r => snd (rd_step_unfixed s i) :: rd_trace_unfixed (fst (rd_step_unfixed s i)) r
  end.

Fixpoint rd_run (s : rdstate) (ins : list rdinput) : rdstate :=
  match ins with
  | [] => s
  | i :: r => rd_run (fst (rd_step s i)) r
  end.

(* the outputs of every step, in order *)
Fixpoint rd_trace (s : rdstate) (ins : list rdinput) : list (list rdoutput) :=
  match ins with
  | [] => []
  | i :: r => snd (rd_step s i) :: rd_trace (fst (rd_step s i)) r
  end.

(* ------------------------------------------------------------ observation *)

Definition v_rdoutput (o : rdoutput) : val :=
  match o with
  | DeferFamilies l => VL [VN 0; VNs l]
  | StartDeferralTimer d => VL [VN 1; VOpt VN d]
  | FamilyDeferralComplete f => VL [VN 2; VN f]
  | EndDeferral l => VL [VN 3; VNs l]
  end.

Fixpoint observe_from (s : rdstate) (ins : list rdinput) : list val :=
  match ins with
  | [] => []
  | i :: r =>
      let '(s', o) := rd_step s i in
      VL [VList v_rdoutput o; VB (is_completed s')] :: observe_from s' r
  end.

Definition run_case (gr_peers : list (peer * list fam)) (d : option N) (ins : list rdinput) : val :=
  let '(s, o) := rd_new (mk_peers gr_peers) d in
  VL [VList v_rdoutput o; VB (is_completed s); VL (observe_from s ins)].
