(* Executable model of the RPKI table of table/src/lib.rs:
     RpkiTable::{new, insert, remove, drop_source, iter, validate}, key_to_addr,
   of packet/src/bgp.rs Attribute::as_path_origin (over the attribute's bytes),
   and of the composition daemon/src/table_manager.rs rpki_reset
   (= drop_source followed by inserts).  No proofs in this file.

   Representation.
   * An address is its list of octets (4 for IPv4, 16 for IPv6), as
     Ipv4Addr::octets()/Ipv6Addr::octets() give them; a trie key is
     octets ++ [mask], exactly the Vec<u8> the Rust code builds.
   * PatriciaMap<Vec<Arc<Roa>>> is an association list key -> entry with its
     library meaning: [get] exact key, [iter_prefix p] the entries whose key
     starts with p, [iter] all entries.  The library iterates in key order;
     nothing in the property depends on it, so the model keeps insertion
     order and the observations are compared as sorted lists.
   * Arc<IpAddr> identity of a cache (Arc::ptr_eq) is a token [r_src].
   * Panics are values ([PPanic]). *)
From Coq Require Import List NArith Bool ZArith.
From RB Require Import Base.Val.
Import ListNotations.
Open Scope N_scope.

Inductive pres (A : Type) := POk (a : A) | PPanic.
Arguments POk {A} a.
Arguments PPanic {A}.

Inductive fam := F4 | F6.

Record net := { n_fam : fam; n_addr : list N; n_mask : N }.
Record roa := { r_max : N; r_as : N; r_src : N }.

Definition key := list N.
Definition trie := list (key * list roa).
Record rtab := { t4 : trie; t6 : trie }.

Definition rtab_new : rtab := {| t4 := []; t6 := [] |}.

Definition sel (f : fam) (t : rtab) : trie := match f with F4 => t4 t | F6 => t6 t end.
Definition upd (f : fam) (m : trie) (t : rtab) : rtab :=
  match f with
  | F4 => {| t4 := m; t6 := t6 t |}
  | F6 => {| t4 := t4 t; t6 := m |}
  end.

Fixpoint key_eqb (a b : key) : bool :=
  match a, b with
  | [], [] => true
  | x :: a', y :: b' => (x =? y) && key_eqb a' b'
  | _, _ => false
  end.

(* ---- PatriciaMap operations with their library meaning *)
Fixpoint tget (k : key) (m : trie) : option (list roa) :=
  match m with
  | [] => None
  | (k', e) :: m' => if key_eqb k k' then Some e else tget k m'
  end.

Fixpoint tset (k : key) (e : list roa) (m : trie) : trie :=
  match m with
  | [] => [(k, e)]
  | (k', e') :: m' => if key_eqb k k' then (k', e) :: m' else (k', e') :: tset k e m'
  end.

Fixpoint tdel (k : key) (m : trie) : trie :=
  match m with
  | [] => []
  | (k', e') :: m' => if key_eqb k k' then m' else (k', e') :: tdel k m'
  end.

Fixpoint is_prefix (p k : key) : bool :=
  match p, k with
  | [], _ => true
  | x :: p', y :: k' => (x =? y) && is_prefix p' k'
  | _ :: _, [] => false
  end.

Definition iter_prefix (p : key) (m : trie) : trie :=
  filter (fun ke => is_prefix p (fst ke)) m.

(* ---- keys *)
Definition key_of (n : net) : key := n_addr n ++ [n_mask n].

(* key_to_addr: pops the mask, the rest must be 4 or 16 octets *)
Definition key_to_addr (k : key) : pres net :=
  match rev k with
  | [] => PPanic                                   (* .expect("... prefix-length byte") *)
  | mask :: ra =>
      let a := rev ra in
      match length a with
      | 4%nat => POk {| n_fam := F4; n_addr := a; n_mask := mask |}
      | 16%nat => POk {| n_fam := F6; n_addr := a; n_mask := mask |}
      | _ => PPanic                                (* unreachable!() *)
      end
  end.

(* ---- insert / remove / drop_source *)
Definition same_roa (a b : roa) : bool :=
  (r_src a =? r_src b) && (r_max a =? r_max b) && (r_as a =? r_as b).

Definition trie_insert (k : key) (r : roa) (m : trie) : trie :=
  match tget k m with
  | Some e => if existsb (fun x => same_roa x r) e then m else tset k (e ++ [r]) m
  | None => m ++ [(k, [r])]
  end.

Definition is_nil {A} (l : list A) : bool := match l with [] => true | _ => false end.

Definition trie_remove (k : key) (r : roa) (m : trie) : trie :=
  match tget k m with
  | Some e =>
      let e' := filter (fun x => negb (same_roa x r)) e in
      if is_nil e' then tdel k m else tset k e' m
  | None => m
  end.

Definition trie_drop (s : N) (m : trie) : trie :=
  filter (fun ke => negb (is_nil (snd ke)))
         (map (fun ke => (fst ke, filter (fun x => negb (r_src x =? s)) (snd ke))) m).

Definition insert (n : net) (r : roa) (t : rtab) : rtab :=
  upd (n_fam n) (trie_insert (key_of n) r (sel (n_fam n) t)) t.

Definition remove (n : net) (r : roa) (t : rtab) : rtab :=
  upd (n_fam n) (trie_remove (key_of n) r (sel (n_fam n) t)) t.

Definition drop_source (s : N) (t : rtab) : rtab :=
  {| t4 := trie_drop s (t4 t); t6 := trie_drop s (t6 t) |}.

(* TableManager::rpki_reset: drop_source, then insert each in order *)
Definition reset (s : N) (l : list (net * roa)) (t : rtab) : rtab :=
  fold_left (fun t nr => insert (fst nr) (snd nr) t) l (drop_source s t).

(* ---- iter *)
Fixpoint trie_iter (m : trie) : pres (list (net * roa)) :=
  match m with
  | [] => POk []
  | (k, e) :: m' =>
      match key_to_addr k, trie_iter m' with
      | POk n, POk l => POk (map (fun r => (n, r)) e ++ l)
      | _, _ => PPanic
      end
  end.

Definition iter (f : fam) (t : rtab) : pres (list (net * roa)) := trie_iter (sel f t).

(* ---- Attribute::as_path_origin over the attribute's byte string *)
Definition be32 (l : list N) : N :=
  fold_left (fun acc b => acc * 256 + b) l 0.

(* one iteration of the while loop per fuel unit; every iteration consumes at
   least two bytes, so [length buf] fuel is enough *)
Fixpoint apo_loop (fuel : nat) (buf : list N) (t num asn : N) : pres (N * N * N) :=
  match buf with
  | [] => POk (t, num, asn)
  | t' :: r1 =>
      match fuel with
      | O => POk (t, num, asn)
      | S fuel' =>
          match r1 with
          | [] => POk (t, num, asn)                    (* truncated header: the scan ends (a62a64e) *)
          | num' :: r2 =>
              if N.of_nat (length r2) <? 4 * num' then POk (t, num, asn)   (* segment runs past the end *)
              else
                let asn' := if num' =? 0 then 0
                            else be32 (firstn 4 (skipn (N.to_nat (4 * (num' - 1))) r2)) in
                apo_loop fuel' (skipn (N.to_nat (4 * num')) r2) t' num' asn'
          end
      end
  end.

Definition AS_PATH_TYPE_SET : N := 1.
Definition AS_PATH_TYPE_SEQ : N := 2.

(* (type, length, last AS) of the final segment; None when the attribute has < 2 bytes *)
Definition as_path_last_segment (buf : list N) : pres (option (N * N * N)) :=
  if (length buf <? 2)%nat then POk None
  else match apo_loop (length buf) buf 0 0 0 with
       | PPanic => PPanic
       | POk x => POk (Some x)
       end.

Definition as_path_origin (buf : list N) : pres (option N) :=
  match as_path_last_segment buf with
  | PPanic => PPanic
  | POk (Some (t, num, asn)) =>
      if (t =? AS_PATH_TYPE_SEQ) && (0 <? num) then POk (Some asn) else POk None
  | POk None => POk None
  end.

Definition as_path_ends_with_set (buf : list N) : pres bool :=
  match as_path_last_segment buf with
  | PPanic => PPanic
  | POk (Some (t, _, _)) => POk (t =? AS_PATH_TYPE_SET)
  | POk None => POk false
  end.

(* ---- validate *)
Inductive vstate := NotFound | Valid | Invalid.
Inductive vreason := RNone | RAsn | RLength.

Record vres := {
  v_state : vstate;
  v_reason : vreason;
  v_matched : list (net * roa);
  v_unmatched_asn : list (net * roa);
  v_unmatched_length : list (net * roa)
}.

Definition AS_PATH : N := 2.

(* attributes: (type code, bytes); only the first AS_PATH is looked at.
   The origin is an AS number; 0 stands for "NONE" (final AS_SET): the
   comparison below never lets AS 0 match. *)
Definition origin_asn (local_asn : N) (attrs : list (N * list N)) : pres N :=
  match find (fun a => fst a =? AS_PATH) attrs with
  | Some a =>
      match as_path_origin (snd a) with
      | PPanic => PPanic
      | POk (Some asn) => POk asn
      | POk None =>
          match as_path_ends_with_set (snd a) with
          | PPanic => PPanic
          | POk true => POk 0
          | POk false => POk local_asn
          end
      end
  | None => POk local_asn
  end.

(* the three pushes of the inner loop, for one (prefix, roa) *)
Definition classify (mask asn : N) (n : net) (r : roa) (acc : vres) : vres :=
  if mask <=? r_max r then
    if negb (r_as r =? 0) && (r_as r =? asn) then
      {| v_state := v_state acc; v_reason := v_reason acc;
         v_matched := v_matched acc ++ [(n, r)];
         v_unmatched_asn := v_unmatched_asn acc;
         v_unmatched_length := v_unmatched_length acc |}
    else
      {| v_state := v_state acc; v_reason := v_reason acc;
         v_matched := v_matched acc;
         v_unmatched_asn := v_unmatched_asn acc ++ [(n, r)];
         v_unmatched_length := v_unmatched_length acc |}
  else
    {| v_state := v_state acc; v_reason := v_reason acc;
       v_matched := v_matched acc;
       v_unmatched_asn := v_unmatched_asn acc;
       v_unmatched_length := v_unmatched_length acc ++ [(n, r)] |}.

Fixpoint scan (mask asn : N) (cands : trie) (acc : vres) : pres vres :=
  match cands with
  | [] => POk acc
  | (k, e) :: rest =>
      match key_to_addr k with
      | PPanic => PPanic
      | POk n => scan mask asn rest (fold_left (fun a r => classify mask asn n r a) e acc)
      end
  end.

Definition finish (r : vres) : vres :=
  if negb (is_nil (v_matched r)) then
    {| v_state := Valid; v_reason := v_reason r; v_matched := v_matched r;
       v_unmatched_asn := v_unmatched_asn r; v_unmatched_length := v_unmatched_length r |}
  else if negb (is_nil (v_unmatched_asn r)) then
    {| v_state := Invalid; v_reason := RAsn; v_matched := v_matched r;
       v_unmatched_asn := v_unmatched_asn r; v_unmatched_length := v_unmatched_length r |}
  else if negb (is_nil (v_unmatched_length r)) then
    {| v_state := Invalid; v_reason := RLength; v_matched := v_matched r;
       v_unmatched_asn := v_unmatched_asn r; v_unmatched_length := v_unmatched_length r |}
  else r.

Definition vres0 : vres :=
  {| v_state := NotFound; v_reason := RNone; v_matched := []; v_unmatched_asn := [];
     v_unmatched_length := [] |}.

(* Candidate lookup.  The route's address is cut to every length 0..=mask
   (bits past the length cleared, as `(0xff00u16 >> keep) as u8` does per octet)
   and the exact key octets ++ [len] is looked up. *)
Definition keep_mask (k : N) : N := N.shiftr 65280 k mod 256.

Fixpoint mask_bytes (bs : list N) (len : N) : list N :=
  match bs with
  | [] => []
  | b :: r => N.land b (keep_mask (N.min len 8)) :: mask_bytes r (len - 8)
  end.

Definition lens_upto (mask : N) : list N := map N.of_nat (seq 0 (S (N.to_nat mask))).

Definition cands_cover (addr : list N) (mask : N) (m : trie) : pres trie :=
  POk (flat_map (fun len =>
                   let k := mask_bytes addr len ++ [len] in
                   match tget k m with Some e => [(k, e)] | None => [] end)
                (lens_upto mask)).

Definition div_ceil8 (m : N) : N := (m + 7) / 8.

Definition validate_with (cands : list N -> N -> trie -> pres trie)
           (origin_asn : N -> list (N * list N) -> pres N)
           (t : rtab) (local_asn : N) (n : net) (attrs : list (N * list N))
  : pres (option vres) :=
  let m := sel (n_fam n) t in
  if is_nil m then POk None
  else
    match origin_asn local_asn attrs with
    | PPanic => PPanic
    | POk asn =>
        match cands (n_addr n) (n_mask n) m with
        | PPanic => PPanic
        | POk cs =>
            match scan (n_mask n) asn cs vres0 with
            | PPanic => PPanic
            | POk r => POk (Some (finish r))
            end
        end
    end.

Definition validate := validate_with cands_cover origin_asn.

(* ---- the policy consumer: table/src/policy.rs Condition::Rpki(expected)
     rpki.and_then(|r| r.validate(source, net, attr)).is_some_and(|v| v.state == *expected)
   (the table is always handed over: PolicyAssignment::needs_rpki is true for an
   assignment that contains the condition), and validate on a non-IP NLRI *)
Definition vstate_eqb (a b : vstate) : bool :=
  match a, b with
  | NotFound, NotFound | Valid, Valid | Invalid, Invalid => true
  | _, _ => false
  end.

Definition cond_of (r : option vres) (expected : vstate) : bool :=
  match r with Some v => vstate_eqb (v_state v) expected | None => false end.

Definition cond_rpki (t : rtab) (local_asn : N) (n : net) (attrs : list (N * list N)) (expected : vstate)
  : pres bool :=
  match validate t local_asn n attrs with
  | PPanic => PPanic
  | POk r => POk (cond_of r expected)
  end.

(* `_ => return None` for every NLRI that is not Nlri::V4 / Nlri::V6 *)
Definition validate_other (t : rtab) (local_asn : N) (attrs : list (N * list N)) : pres (option vres) :=
  POk None.

(* ---- histories *)
Inductive op :=
| OInsert (s : N) (n : net) (mx asn : N)
| ORemove (s : N) (n : net) (mx asn : N)
| ODrop (s : N)
| OReset (s : N) (l : list (net * N * N))
| OValidate (n : net) (local_asn : N) (attrs : list (N * list N))
| OValidateOther (kind : N) (n : net) (local_asn : N) (attrs : list (N * list N))
    (* validate on a non-IP NLRI (labeled unicast, VPN) carrying the prefix [n] *)
| OIter.

Definition mk_roa (s mx asn : N) : roa := {| r_max := mx; r_as := asn; r_src := s |}.

Definition apply_op (o : op) (t : rtab) : rtab :=
  match o with
  | OInsert s n mx asn => insert n (mk_roa s mx asn) t
  | ORemove s n mx asn => remove n (mk_roa s mx asn) t
  | ODrop s => drop_source s t
  | OReset s l => reset s (map (fun x => (fst (fst x), mk_roa s (snd (fst x)) (snd x))) l) t
  | OValidate _ _ _ | OValidateOther _ _ _ _ | OIter => t
  end.

Definition run_ops (ops : list op) (t : rtab) : rtab := fold_left (fun t o => apply_op o t) ops t.

(* ---- observations *)
Definition v_fam (f : fam) : val := VN (match f with F4 => 4 | F6 => 6 end).
Definition v_vrp (x : net * roa) : val :=
  let (n, r) := x in
  VL [v_fam (n_fam n); VNs (n_addr n); VN (n_mask n); VN (r_max r); VN (r_as r); VN (r_src r)].
Definition v_vstate (s : vstate) : val := VN (match s with NotFound => 0 | Valid => 1 | Invalid => 2 end).
Definition v_vreason (s : vreason) : val := VN (match s with RNone => 0 | RAsn => 1 | RLength => 2 end).
Definition v_vres (r : vres) : val :=
  VL [v_vstate (v_state r); v_vreason (v_reason r); VList v_vrp (v_matched r);
      VList v_vrp (v_unmatched_asn r); VList v_vrp (v_unmatched_length r)].

Definition dump (t : rtab) : pres val :=
  match iter F4 t, iter F6 t with
  | POk a, POk b => POk (VList v_vrp (a ++ b))
  | _, _ => PPanic
  end.

Section Observe.
  Variable vf : rtab -> N -> net -> list (N * list N) -> pres (option vres).

  Fixpoint observe (t : rtab) (ops : list op) : pres (list val) :=
    match ops with
    | [] => POk []
    | o :: rest =>
        let t' := apply_op o t in
        let here :=
            match o with
            | OValidate n la attrs =>
                match vf t la n attrs with
                | PPanic => PPanic
                | POk r => POk (VL [VOpt v_vres r;
                                    VL [VB (cond_of r NotFound); VB (cond_of r Valid); VB (cond_of r Invalid)]])
                end
            | OValidateOther _ _ la attrs =>
                match validate_other t la attrs with
                | PPanic => PPanic
                | POk r => POk (VL [VOpt v_vres r;
                                    VL [VB (cond_of r NotFound); VB (cond_of r Valid); VB (cond_of r Invalid)]])
                end
            | _ => dump t'
            end in
        match here with
        | PPanic => PPanic
        | POk v => match observe t' rest with
                   | PPanic => PPanic
                   | POk vs => POk (v :: vs)
                   end
        end
    end.

  Definition run_case_with (ops : list op) : val :=
    match observe rtab_new ops with
    | POk vs => VL vs
    | PPanic => VL [VI (-1)%Z]
    end.
End Observe.

Definition run_case (ops : list op) : val := run_case_with validate ops.

(* ======================================================================= *)
(* The hand-over of the table to policy evaluation (property C12, "the validation
   state used by policy"), over histories of assignment operations.

   table/src/policy.rs  PolicyTable::{build_assignment, add_assignment, set_policy_assignment,
                        delete_policy_assignment}, PolicyAssignment::{without_policies,
                        compute_needs_rpki}
   daemon/src/table_manager.rs  TableManager::apply_import:
                        let rpki = policy.needs_rpki.then(|| self.rpki.read().unwrap());
   daemon/src/event/mod.rs  PeerSession::handle_prefix_update:
                        export_policy (per peer, else global) .filter(|p| p.needs_rpki).map(|_| rpki)

   The harness fixes five policies: 0, 1, 2 = one statement `rpki not-found | valid | invalid
   -> accept`; 3, 4 = one statement without an rpki condition that matches no generated
   route.  Every assignment has default action reject. *)
Definition pol_state (p : N) : option vstate :=
  if p =? 0 then Some NotFound else if p =? 1 then Some Valid else if p =? 2 then Some Invalid else None.

Definition pol_has_rpki (p : N) : bool := match pol_state p with Some _ => true | None => false end.

(* compute_needs_rpki, always over the FINAL policy list of the assignment *)
Definition needs_rpki (l : list N) : bool := existsb pol_has_rpki l.

Definition asg : Type := option (list N).

Inductive akind := AAdd | ASet | ADel | ADelAll.

Definition mem_n (p : N) (l : list N) : bool := existsb (N.eqb p) l.

(* one assignment operation on one slot: the new slot and whether the call returned Ok *)
Definition asg_step (k : akind) (names : list N) (a : asg) : asg * bool :=
  match k with
  | AAdd =>
      match a with
      | None => (Some names, true)
      | Some old =>
          if existsb (fun p => mem_n p names) old then (a, false)       (* "policy already exists" *)
          else (Some (names ++ old), true)
      end
  | ASet => (Some names, true)
  | ADel =>
      match a with
      | None => (a, false)                                              (* NotFound *)
      | Some old => (Some (filter (fun p => negb (mem_n p names)) old), true)
      end
  | ADelAll => (None, true)
  end.

(* evaluation of an assignment on a route: no assignment = not filtered; otherwise the
   statements `rpki k -> accept` see the table iff needs_rpki, default reject *)
Definition asg_accepts (t : rtab) (local_asn : N) (n : net) (attrs : list (N * list N)) (a : asg) : pres bool :=
  match a with
  | None => POk true
  | Some l =>
      if needs_rpki l then
        match validate t local_asn n attrs with
        | PPanic => PPanic
        | POk r => POk (existsb (fun p => match pol_state p with Some k => cond_of r k | None => false end) l)
        end
      else POk false             (* Condition::Rpki with rpki = None never holds; policies 3, 4 never match *)
  end.

Record slots := { sl_import : asg; sl_export : asg; sl_peer : asg }.

Definition akind_of (k : N) : akind :=
  if k =? 0 then AAdd else if k =? 1 then ASet else if k =? 2 then ADel else ADelAll.

Definition slots_step (s : slots) (st : N * N * list N) : slots * bool :=
  let '(slot, k, names) := st in
  if slot =? 0 then
    let (a, ok) := asg_step (akind_of k) names (sl_import s) in
    ({| sl_import := a; sl_export := sl_export s; sl_peer := sl_peer s |}, ok)
  else if slot =? 1 then
    let (a, ok) := asg_step (akind_of k) names (sl_export s) in
    ({| sl_import := sl_import s; sl_export := a; sl_peer := sl_peer s |}, ok)
  else
    let (a, ok) := asg_step (akind_of k) names (sl_peer s) in
    ({| sl_import := sl_import s; sl_export := sl_export s; sl_peer := a |}, ok).

Fixpoint slots_run (s : slots) (sts : list (N * N * list N)) : slots * list bool :=
  match sts with
  | [] => (s, [])
  | st :: rest =>
      let (s1, ok) := slots_step s st in
      let (s2, oks) := slots_run s1 rest in (s2, ok :: oks)
  end.

Definition v_slot (a : asg) : val := VOpt (fun l => VL [VB (needs_rpki l); VNs l]) a.

Fixpoint v_routes (t : rtab) (s : slots) (routes : list (net * N * list (N * list N))) : pres (list val) :=
  match routes with
  | [] => POk []
  | (n, la, attrs) :: rest =>
      let peer := match sl_peer s with Some l => Some l | None => sl_export s end in
      match asg_accepts t la n attrs (sl_import s), asg_accepts t la n attrs (sl_export s),
            asg_accepts t la n attrs peer, v_routes t s rest with
      | POk i, POk ea, POk eb, POk vs => POk (VL [VB i; VB ea; VB eb] :: vs)
      | _, _, _, _ => PPanic
      end
  end.

Definition run_policy_case (ops : list op) (sts : list (N * N * list N))
           (routes : list (net * N * list (N * list N))) : val :=
  let t := run_ops ops rtab_new in
  let (s, oks) := slots_run {| sl_import := None; sl_export := None; sl_peer := None |} sts in
  match v_routes t s routes with
  | PPanic => VL [VI (-1)%Z]
  | POk vs => VL [VL [v_slot (sl_import s); v_slot (sl_export s); v_slot (sl_peer s)]; VList VB oks; VL vs]
  end.

(* ---- the API annotation (daemon/src/table_manager.rs TableManager::collect_paths, phase 2):
     for dest in &mut out { for path in &mut dest.paths {
         path.validation = rpki.validate(&path.source, &dest.net, &path.attr); } }
   every path of a destination is validated on its own source (local AS) and attributes *)
Definition annotate (t : rtab) (n : net) (paths : list (N * list (N * list N))) : list (pres (option vres)) :=
  map (fun p => validate t (fst p) n (snd p)) paths.
