(* Executable model of daemon/src/fsm.rs: Connection::process and
   PeerFsm::process, transcribed arm for arm.  No proofs in this file.

   Messages are abstracted to what the FSM inspects: OPEN carries
   (AS, identifier, hold time, capability list); NOTIFICATION its
   (code, subcode); UPDATE nothing; ROUTE-REFRESH its family.  The codec
   built by PeerCodec::negotiate is represented by the two capability
   lists it is computed from (its own model is Model/Negotiate.v). *)
From Coq Require Import List NArith Bool.
From RB Require Import Base.Val Model.Caps.
Import ListNotations.
Open Scope N_scope.

Inductive st := Idle | Connect | Active | OpenSent | OpenConfirm | Established.

Definition st_code (s : st) : N :=
  match s with
  | Idle => 0 | Connect => 1 | Active => 2
  | OpenSent => 3 | OpenConfirm => 4 | Established => 5
  end.

Definition st_eqb (a b : st) : bool := st_code a =? st_code b.

Inductive msg :=
| MOpen (asn id hold : N) (caps : list cap)
| MKeepalive
| MUpdate
| MNotif (code sub : N)
| MRefresh (fam : N).

Inductive input :=
| Connected (restarting : bool)
| Recv (m : msg)
| KaExpired
| HoldExpired
| Disconnected
| AdminShutdown
| UpdateSent.

Inductive reason :=
| RHoldExpired
| RRemoteNotif (code sub : N)
| RLocalNotif (code sub : N)
| RFsmError
| RAdmin
| RIo.

Inductive output :=
| Send (m : msg)
| SetKa (n : N)
| SetHold (n : N)
| Negotiated (lc rc : list cap)
| SessEstablished (asn id hold : N) (rcaps : list cap) (emax : list (N * N))
| SessDown (r : reason) (notif : option (N * N))
| StateChanged (s : st)
| RouteRefresh (f : N).

Record conn := {
  c_state : st;
  c_local_asn : N;
  c_local_id : N;
  c_local_hold : N;          (* u64 *)
  c_local_cap : list cap;
  c_expected_asn : N;
  c_remote_asn : N;
  c_remote_id : N;
  c_remote_hold : N;         (* u16 *)
  c_remote_cap : list cap;
  c_neg_hold : N;
  c_ka : N
}.

Definition INITIAL_HOLD_SECS : N := 240.

Definition conn_new (lasn lid : N) (lcap : list cap) (lhold exp : N) : conn :=
  {| c_state := Idle; c_local_asn := lasn; c_local_id := lid; c_local_hold := lhold;
     c_local_cap := lcap; c_expected_asn := exp;
     c_remote_asn := 0; c_remote_id := 0; c_remote_hold := 0; c_remote_cap := [];
     c_neg_hold := 0; c_ka := 0 |}.

Definition set_state (c : conn) (s : st) : conn :=
  {| c_state := s; c_local_asn := c_local_asn c; c_local_id := c_local_id c;
     c_local_hold := c_local_hold c; c_local_cap := c_local_cap c;
     c_expected_asn := c_expected_asn c; c_remote_asn := c_remote_asn c;
     c_remote_id := c_remote_id c; c_remote_hold := c_remote_hold c;
     c_remote_cap := c_remote_cap c; c_neg_hold := c_neg_hold c; c_ka := c_ka c |}.

(* HoldTime::new(self.local_holdtime as u16).unwrap_or(HoldTime::DISABLED) *)
Definition open_hold (lhold : N) : N :=
  let h := lhold mod 65536 in
  if (h =? 1) || (h =? 2) then 0 else h.

Definition fsm_err (c : conn) : list output :=
  [SessDown (RLocalNotif 5 (st_code (c_state c))) (Some (5, st_code (c_state c)))].

Definition on_connected (c : conn) : conn * list output :=
  let c' := set_state c OpenSent in
  (c', [Send (MOpen (c_local_asn c) (c_local_id c) (open_hold (c_local_hold c)) (c_local_cap c));
        StateChanged OpenSent]
       ++ (if c_local_hold c =? 0 then [] else [SetHold INITIAL_HOLD_SECS])).

Definition on_open (c : conn) (asn id hold : N) (caps : list cap) : conn * list output :=
  if negb (st_eqb (c_state c) OpenSent) then (c, fsm_err c)
  else if negb (c_expected_asn c =? 0) && negb (c_expected_asn c =? asn) then
    (c, [SessDown (RLocalNotif 2 2) (Some (2, 2))])
  else
    (* the smaller of the two advertised values: the local OPEN carried open_hold *)
    let neg := N.min (open_hold (c_local_hold c)) hold in
    let ka := if neg =? 0 then c_ka c else neg / 3 in
    let c' := {| c_state := OpenConfirm; c_local_asn := c_local_asn c; c_local_id := c_local_id c;
                 c_local_hold := c_local_hold c; c_local_cap := c_local_cap c;
                 c_expected_asn := c_expected_asn c; c_remote_asn := asn; c_remote_id := id;
                 c_remote_hold := hold; c_remote_cap := caps; c_neg_hold := neg; c_ka := ka |} in
    (c', [Send MKeepalive; Negotiated (c_local_cap c) caps]
         ++ (if neg =? 0 then (if c_local_hold c =? 0 then [] else [SetHold 0]) else [SetKa ka; SetHold neg])
         ++ [StateChanged OpenConfirm]).

Definition on_keepalive (c : conn) : conn * list output :=
  match c_state c with
  | OpenConfirm =>
      let c' := {| c_state := Established; c_local_asn := c_local_asn c; c_local_id := c_local_id c;
                   c_local_hold := c_local_hold c; c_local_cap := c_local_cap c;
                   c_expected_asn := c_expected_asn c; c_remote_asn := c_remote_asn c;
                   c_remote_id := c_remote_id c; c_remote_hold := c_remote_hold c;
                   c_remote_cap := []; c_neg_hold := c_neg_hold c; c_ka := c_ka c |} in
      (c', [SetHold (c_neg_hold c);
            SessEstablished (c_remote_asn c) (c_remote_id c) (c_remote_hold c) (c_remote_cap c) [];
            StateChanged Established])
  | Established => (c, [SetHold (c_neg_hold c)])
  | _ => (c, fsm_err c)
  end.

Definition on_update (c : conn) : conn * list output :=
  if st_eqb (c_state c) Established then (c, [SetHold (c_neg_hold c)]) else (c, fsm_err c).

Definition on_refresh (c : conn) (f : N) : conn * list output :=
  if st_eqb (c_state c) Established then (c, [RouteRefresh f]) else (c, fsm_err c).

Definition on_ka_expired (c : conn) : conn * list output :=
  match c_state c with
  | OpenConfirm | Established => (c, [Send MKeepalive; SetKa (c_ka c)])
  | _ => (c, [])
  end.

Definition on_hold_expired (c : conn) : conn * list output :=
  match c_state c with
  | OpenSent | OpenConfirm | Established => (c, [SessDown RHoldExpired (Some (4, 0))])
  | _ => (c, [])
  end.

Definition on_update_sent (c : conn) : conn * list output :=
  if st_eqb (c_state c) Established && (0 <? c_ka c) then (c, [SetKa (c_ka c)]) else (c, []).

Definition conn_step (c : conn) (i : input) : conn * list output :=
  match i with
  | Connected _ => on_connected c
  | Recv (MOpen asn id hold caps) => on_open c asn id hold caps
  | Recv MKeepalive => on_keepalive c
  | Recv MUpdate => on_update c
  | Recv (MNotif code sub) => (c, [SessDown (RRemoteNotif code sub) None])
  | Recv (MRefresh f) => on_refresh c f
  | KaExpired => on_ka_expired c
  | HoldExpired => on_hold_expired c
  | Disconnected => (c, [SessDown RIo None])
  | AdminShutdown => (c, [SessDown RAdmin (Some (6, 2))])
  | UpdateSent => on_update_sent c
  end.

(* ---------------------------------------------------------------- PeerFsm *)

Inductive role := RActive | RPassive.

Definition role_eqb (a b : role) : bool :=
  match a, b with RActive, RActive | RPassive, RPassive => true | _, _ => false end.

Definition other (r : role) : role := match r with RActive => RPassive | RPassive => RActive end.

Inductive pfo :=
| PConn (r : role) (o : output)
| PClose
| PStopActive.

Record pfsm := {
  p_active : option conn;
  p_passive : option conn;
  p_local_id : N;
  p_local_asn : N;
  p_local_cap : list cap;
  p_local_hold : N;
  p_expected_asn : N;
  p_send_max : list (N * N)       (* FnvHashMap<Family, usize>, keys distinct *)
}.

Definition pfsm_new (lid lasn : N) (lcap : list cap) (lhold exp : N) (smax : list (N * N)) : pfsm :=
  {| p_active := None; p_passive := None; p_local_id := lid; p_local_asn := lasn;
     p_local_cap := lcap; p_local_hold := lhold; p_expected_asn := exp; p_send_max := smax |}.

Definition slot (p : pfsm) (r : role) : option conn :=
  match r with RActive => p_active p | RPassive => p_passive p end.

Definition set_slot (p : pfsm) (r : role) (o : option conn) : pfsm :=
  match r with
  | RActive => {| p_active := o; p_passive := p_passive p; p_local_id := p_local_id p;
                  p_local_asn := p_local_asn p; p_local_cap := p_local_cap p;
                  p_local_hold := p_local_hold p; p_expected_asn := p_expected_asn p;
                  p_send_max := p_send_max p |}
  | RPassive => {| p_active := p_active p; p_passive := o; p_local_id := p_local_id p;
                   p_local_asn := p_local_asn p; p_local_cap := p_local_cap p;
                   p_local_hold := p_local_hold p; p_expected_asn := p_expected_asn p;
                   p_send_max := p_send_max p |}
  end.

Definition pstate (p : pfsm) (r : role) : st :=
  match slot p r with Some c => c_state c | None => Idle end.

Definition addpath_any (caps : list cap) (f bit : N) : bool :=
  existsb (fun c => match c with
                    | CAddPath es => existsb (fun e => (fst e =? f) && negb (N.land (snd e) bit =? 0)) es
                    | _ => false
                    end) caps.

(* PeerFsm::process: send-max entries of the families whose add-path send
   direction is in force in PeerCodec::negotiate(local_cap, remote_capabilities)
   (before the repair of finding C16-2: addpath_any on both lists) *)
Definition effective_max (smax : list (N * N)) (lcap rcap : list cap) : list (N * N) :=
  filter (fun fv => match neg_family lcap rcap (fst fv) with Some (_, true) => true | _ => false end) smax.

Definition is_entered_oc (o : output) : bool :=
  match o with StateChanged OpenConfirm => true | _ => false end.
Definition is_down (o : output) : bool :=
  match o with SessDown _ _ => true | _ => false end.

Definition with_rbit (c : cap) : cap :=
  match c with CGR fl t fams => CGR (N.lor fl 8) t fams | _ => c end.

Definition p_on_connected (p : pfsm) (r : role) (restarting : bool) : pfsm * list pfo :=
  match slot p r with
  | Some _ => (p, [PClose])
  | None =>
      let ecap := if restarting then map with_rbit (p_local_cap p) else p_local_cap p in
      let c0 := conn_new (p_local_asn p) (p_local_id p) ecap (p_local_hold p) (p_expected_asn p) in
      let '(c1, outs) := conn_step c0 (Connected false) in
      (set_slot p r (Some c1), map (PConn r) outs)
  end.

Definition collision_winner (p : pfsm) (r : role) : role :=
  let rid := match slot p r with Some c => c_remote_id c | None => 0 end in
  if rid <? p_local_id p then RActive else RPassive.

(* returns the state after closing the loser, and the loser *)
Definition check_collision (p : pfsm) (r : role) : pfsm * option role :=
  match slot p (other r) with
  | None => (p, None)
  | Some oc =>
      let os := c_state oc in
      if negb (st_eqb os OpenConfirm) && negb (st_eqb os Established) then (p, None)
      else
        let loser := if st_eqb os Established then r else other (collision_winner p r) in
        (set_slot p loser None, Some loser)
  end.

Definition map_out (p : pfsm) (r : role) (o : output) : pfo :=
  match o with
  | SessEstablished asn id hold rcaps _ =>
      PConn r (SessEstablished asn id hold rcaps (effective_max (p_send_max p) (p_local_cap p) rcaps))
  | _ => PConn r o
  end.

Definition peer_step (p : pfsm) (r : role) (i : input) : pfsm * list pfo :=
  match i with
  | Connected b => p_on_connected p r b
  | _ =>
      match slot p r with
      | None => (p, [])
      | Some c =>
          let '(c', outs) := conn_step c i in
          let p1 := set_slot p r (Some c') in
          let entered := existsb is_entered_oc outs in
          let down := existsb is_down outs in
          let res := map (map_out p r) outs in
          let '(p2, res2) :=
            if entered then
              let res1 := res ++ (if role_eqb r RPassive then [PStopActive] else []) in
              match check_collision p1 r with
              | (p2, Some loser) =>
                  if role_eqb loser r
                  then (p2, res1 ++ [PConn r (SessDown (RLocalNotif 6 7) (Some (6, 7)))])
                  else (p2, res1 ++ [PConn loser (Send (MNotif 6 7))])
              | (p2, None) => (p2, res1)
              end
            else (p1, res) in
          if down then (set_slot p2 r None, res2 ++ [PConn r (StateChanged Idle)])
          else (p2, res2)
      end
  end.

Definition run_from (p : pfsm) (ins : list (role * input)) : pfsm :=
  fold_left (fun s ri => fst (peer_step s (fst ri) (snd ri))) ins p.

(* trace of outputs, one list per input *)
Fixpoint trace_from (p : pfsm) (ins : list (role * input)) : list (list pfo) :=
  match ins with
  | [] => []
  | (r, i) :: rest => let '(p', o) := peer_step p r i in o :: trace_from p' rest
  end.

(* ------------------------------------------------------------ observation *)

Definition v_msg (m : msg) : val :=
  match m with
  | MOpen a i h c => VL [VN 1; VN a; VN i; VN h; v_caps c]
  | MUpdate => VL [VN 2]
  | MNotif c s => VL [VN 3; VN c; VN s]
  | MKeepalive => VL [VN 4]
  | MRefresh f => VL [VN 5; VN f]
  end.

Definition v_reason (r : reason) : val :=
  match r with
  | RHoldExpired => VL [VN 0]
  | RRemoteNotif c s => VL [VN 1; VN c; VN s]
  | RLocalNotif c s => VL [VN 2; VN c; VN s]
  | RFsmError => VL [VN 3]
  | RAdmin => VL [VN 4]
  | RIo => VL [VN 5]
  end.

Definition v_output (o : output) : val :=
  match o with
  | Send m => VL [VN 0; v_msg m]
  | SetKa n => VL [VN 1; VN n]
  | SetHold n => VL [VN 2; VN n]
  | Negotiated lc rc => VL [VN 3; v_caps lc; v_caps rc]
  | SessEstablished a i h rc em => VL [VN 4; VN a; VN i; VN h; v_caps rc; VList VPairN em]
  | SessDown r n => VL [VN 5; v_reason r; VOpt VPairN n]
  | StateChanged s => VL [VN 6; VN (st_code s)]
  | RouteRefresh f => VL [VN 7; VN f]
  end.

Definition v_role (r : role) : val := match r with RActive => VN 0 | RPassive => VN 1 end.

Definition v_pfo (o : pfo) : val :=
  match o with
  | PConn r o => VL [VN 0; v_role r; v_output o]
  | PClose => VL [VN 1]
  | PStopActive => VL [VN 2]
  end.

(* One observation per step: outputs, then both slot states. *)
Fixpoint observe_from (p : pfsm) (ins : list (role * input)) : list val :=
  match ins with
  | [] => []
  | (r, i) :: rest =>
      let '(p', o) := peer_step p r i in
      VL [VList v_pfo o; VN (st_code (pstate p' RActive)); VN (st_code (pstate p' RPassive))]
        :: observe_from p' rest
  end.

Definition run_case (lid lasn : N) (lcap : list cap) (lhold exp : N) (smax : list (N * N))
           (ins : list (role * input)) : val :=
  VL (observe_from (pfsm_new lid lasn lcap lhold exp smax) ins).
