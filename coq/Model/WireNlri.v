(* Executable model of the BGP receive path, part 2: NLRI decoders.
   PeerCodec::decode_nlri_list / decode_nlri, Nlri::decode (packet/src/bgp.rs),
   Ipv4Net/Ipv6Net::decode, labeled.rs, vpn.rs, mpls.rs, rd.rs (decode only).

   EVPN (evpn.rs, route types 1-5), RTC (rtc.rs), SR policy (sr_policy.rs) and the four
   flowspec families (flowspec.rs) and MUP (mup.rs, route types 1-4) are modelled below.  Families whose decoders are not
   modelled would go through the Section variable [other_nlri] (none is left: BGP-LS, ls.rs, is
   modelled below too; the variable and its contract are kept so that a family added to the
   crate without a model has a place); the
   contract assumed of it is stated in Proofs/WireNlri.v (consumes at least one
   byte or fails, never panics) and it is exercised by the harness only.

   The label-stack bit arithmetic is modelled as repaired (usize); the
   arithmetic of the unrepaired code is kept as [label_bits_v0]/[vpn_bits_ok_v0]
   for the record of the finding.  No proofs in this file. *)
From Coq Require Import List ZArith NArith Bool.
From RB Require Import Base.Val Base.Bytes Model.Caps Model.Wire.
Import ListNotations.
Open Scope N_scope.

Definition F_IPV4 := 65537.      Definition F_IPV4_MC := 65538.
Definition F_IPV6 := 131073.     Definition F_IPV6_MC := 131074.
Definition F_IPV4_MPLS := 65540. Definition F_IPV6_MPLS := 131076.
Definition F_IPV4_VPN := 65664.  Definition F_IPV6_VPN := 131200.
Definition F_IPV4_MUP := 65621.  Definition F_IPV6_MUP := 131157.
Definition F_IPV4_FS := 65669.   Definition F_IPV6_FS := 131205.
Definition F_IPV4_FSVPN := 65670. Definition F_IPV6_FSVPN := 131206.
Definition F_LS := 1074004039.
Definition F_IPV4_SRP := 65609.  Definition F_IPV6_SRP := 131145.
Definition F_EVPN := 1638470.    Definition F_RTC := 65668.

Definition is_other_family (f : N) : bool :=
  false && (f =? F_LS).   (* every family the crate can negotiate is modelled *)
Definition is_flowspec (f : N) : bool :=
  existsb (N.eqb f) [F_IPV4_FS; F_IPV6_FS; F_IPV4_FSVPN; F_IPV6_FSVPN].

(* a flowspec component: an address prefix (types 1, 2) or a list of (operator bits, value) *)
Inductive fcomp :=
| FPrefix (ty bits off : N) (addr : list N)
| FOps (ty : N) (ops : list (N * N)).

(* BGP-LS (ls.rs): node descriptor, link / prefix descriptor TLVs, the NLRI variants *)
Record lsnd := { nd_asn : option N; nd_lsid : option N; nd_area : option N;
                 nd_igp : option (list N); nd_bgp : option (list N); nd_confed : option N }.
Inductive lstlv :=
| LsLinkId (l r : N) | LsAddr (kind : N) (a : list N) | LsMt (ids : list N)
| LsOspf (t : N) | LsReach (plen : N) (a : list N) | LsUnk (t : N) (v : list N).
Inductive lsnlri :=
| LsUnknown (t : N) (body : list N)
| LsNode (p id : N) (n : lsnd)
| LsLink (p id : N) (l r : lsnd) (tl : list lstlv)
| LsPrefix (v6 : bool) (p id : N) (n : lsnd) (tl : list lstlv)
| LsSrv6 (p id : N) (n : lsnd) (sids : list (list N)) (mts : list N).

Inductive nlri :=
| NV4 (mask : N) (addr : list N)
| NV6 (mask : N) (addr : list N)
| NLab4 (labels : list N) (mask : N) (addr : list N)
| NLab6 (labels : list N) (mask : N) (addr : list N)
| NVpn4 (labels rd : list N) (mask : N) (addr : list N)
| NVpn6 (labels rd : list N) (mask : N) (addr : list N)
| NEvpn (enc : list N)                 (* EvpnNlri::encode of the decoded route: type, length, data *)
| NRtc (enc : list N)                  (* RtcNlri::encode *)
| NSrp (enc : list N)                  (* SrPolicyNlri::encode *)
| NMup (enc : list N)                  (* MupNlri::encode: architecture, route type, length, serialized body *)
| NLs (x : lsnlri)
| NFlow (kind : N) (rd : list N) (comps : list fcomp)   (* kind 0 v4, 1 v6, 2 vpn-v4, 3 vpn-v6; rd = [] unless vpn *)
| NOther.

Definition MAL := E_MALFORMED_ATTR_LIST.
Definition rm {A} (o : option A) : res A := req MAL o.

(* Ipv4Net::decode / Ipv6Net::decode: [n] is what remains of the NLRI field
   (including the length octet just read), [maxbits] 32 or 128. *)
Definition prefix_decode (maxbits : N) (abytes : nat) (c : list N) (n : N) : res (N * list N * list N) :=
  '(bits, c) <- rm (get8 c) ;;
  if (n <? ceil8 bits) || (maxbits <? bits) then Fail MAL else
  '(a, c) <- rm (take (nat_of (ceil8 bits)) c) ;;
  Ok (bits, pad_to abytes a, c).

(* MplsLabelStack::decode: 3-byte labels until the bottom-of-stack bit *)
Fixpoint label_stack (fuel : nat) (c : list N) (acc : list N) : res (list N * list N) :=
  match fuel with
  | O => Panic FUEL
  | S f =>
    match c with
    | a :: b :: d :: r =>
      let lab := be24 a b d / 16 in
      if N.testbit d 0 then Ok (rev (lab :: acc), r) else label_stack f r (lab :: acc)
    | _ => Fail MAL
    end
  end.

(* the tail shared by the labeled decoders once the labels are known *)
Definition labeled_tail (maxbits : N) (abytes : nat) (total label_bits : N) (c : list N)
  : res (N * list N * list N) :=
  if total <? label_bits then Fail MAL else
  let pbits := total - label_bits in
  if maxbits <? pbits then Fail MAL else
  '(a, c) <- rm (take (nat_of (ceil8 pbits)) c) ;;
  Ok (pbits, pad_to abytes a, c).

(* LabeledV4Nlri::decode / LabeledV6Nlri::decode *)
Definition labeled_decode (maxbits : N) (abytes : nat) (is_reach : bool) (c : list N) (n : N)
  : res (list N * N * list N * list N) :=
  if n <? 4 then Fail MAL else
  '(total, c) <- rm (get8 c) ;;
  if total <? 24 then Fail MAL else
  '(labels, lbits, c) <-
     (if is_reach then
        '(ls, c) <- label_stack (S (length c)) c [] ;;
        Ok (ls, 24 * len ls, c)
      else
        '(_, c) <- rm (take 3 c) ;; Ok ([0], 24, c)) ;;
  '(pbits, a, c) <- labeled_tail maxbits abytes total lbits c ;;
  Ok (labels, pbits, a, c).

(* VpnV4Nlri::decode / VpnV6Nlri::decode; RouteDistinguisher::decode accepts types 0..2 *)
Definition vpn_decode (maxbits : N) (abytes : nat) (c : list N) (n : N)
  : res (list N * list N * N * list N * list N) :=
  if n <? 12 then Fail MAL else
  '(total, c) <- rm (get8 c) ;;
  if total <? 88 then Fail MAL else
  '(ls, c) <- label_stack (S (length c)) c [] ;;
  let lbits := 24 * len ls in
  if total <? lbits + 64 then Fail MAL else
  let pbits := total - lbits - 64 in
  if maxbits <? pbits then Fail MAL else
  '(rd, c) <- rm (take 8 c) ;;
  match rd with
  | t1 :: t2 :: _ =>
    if 2 <? be16 t1 t2 then Fail MAL else
    '(a, c) <- rm (take (nat_of (ceil8 pbits)) c) ;;
    Ok (ls, rd, pbits, pad_to abytes a, c)
  | _ => Panic 2                                         (* &data[0..2] *)
  end.


(* ---- EVPN (evpn.rs EvpnNlri::decode and the five route decoders).  Every failure is the same
   io::Error, mapped to UpdateMalformedAttributeList, so the order of the reads inside one route
   does not show; [data] is what the route decoder consumed, which is also what encode() writes. *)
Definition rd_ok (rd : list N) : bool :=
  match rd with t1 :: t2 :: _ => be16 t1 t2 <=? 2 | _ => false end.

(* ip_len octet of route types 2-4: number of address octets, or None when malformed *)
Definition evpn_ip_octets (allow_zero : bool) (ip_len : N) : option nat :=
  if ip_len =? 32 then Some 4%nat else if ip_len =? 128 then Some 16%nat
  else if allow_zero && (ip_len =? 0) then Some 0%nat else None.

Definition evpn_route (rt rl : N) (c : list N) : res (list N * list N) :=
  match rt with
  | 1 => (* RD 8, ESI 10, ETag 4, label 3 *)
    if negb (rl =? 25) then Fail MAL else
    '(d, c) <- rm (take 25 c) ;;
    if rd_ok d then Ok (d, c) else Fail MAL
  | 2 => (* RD 8, ESI 10, ETag 4, MAC length 1 (= 48), MAC 6, IP length 1, IP 0/4/16, label1 3, [label2 3] *)
    if rl <? 33 then Fail MAL else
    '(h, c) <- rm (take 22 c) ;;
    if negb (rd_ok h) then Fail MAL else
    '(ml, c) <- rm (get8 c) ;;
    if negb (ml =? 48) then Fail MAL else
    '(mac, c) <- rm (take 6 c) ;;
    '(il, c) <- rm (get8 c) ;;
    match evpn_ip_octets true il with
    | None => Fail MAL
    | Some ipb =>
      '(ip, c) <- rm (take ipb c) ;;
      '(l1, c) <- rm (take 3 c) ;;
      let d := h ++ [ml] ++ mac ++ [il] ++ ip ++ l1 in
      if rl =? 33 + N.of_nat ipb + 3 then
        '(l2, c) <- rm (take 3 c) ;; Ok (d ++ l2, c)
      else Ok (d, c)
    end
  | 3 => (* RD 8, ETag 4, IP length 1, IP 4/16 *)
    if rl <? 17 then Fail MAL else
    '(h, c) <- rm (take 12 c) ;;
    if negb (rd_ok h) then Fail MAL else
    '(il, c) <- rm (get8 c) ;;
    match evpn_ip_octets false il with
    | None => Fail MAL
    | Some ipb => '(ip, c) <- rm (take ipb c) ;; Ok (h ++ [il] ++ ip, c)
    end
  | 4 => (* RD 8, ESI 10, IP length 1, IP 4/16 *)
    if rl <? 23 then Fail MAL else
    '(h, c) <- rm (take 18 c) ;;
    if negb (rd_ok h) then Fail MAL else
    '(il, c) <- rm (get8 c) ;;
    match evpn_ip_octets false il with
    | None => Fail MAL
    | Some ipb => '(ip, c) <- rm (take ipb c) ;; Ok (h ++ [il] ++ ip, c)
    end
  | 5 => (* RD 8, ESI 10, ETag 4, prefix length 1, prefix 4/16, gateway 4/16, label 3 *)
    if (rl =? 34) || (rl =? 58) then
      '(d, c) <- rm (take (nat_of rl) c) ;;
      (* prefix length octet (offset 22): at most 32 for the IPv4 form, 128 for the IPv6 form (e0eebac) *)
      match nth_error d 22 with
      | None => Panic 8
      | Some pl =>
        if rd_ok d && (pl <=? (if rl =? 34 then 32 else 128)) then Ok (d, c) else Fail MAL
      end
    else Fail MAL
  | _ => Fail MAL
  end.

Definition evpn_decode (c : list N) : res (list N * list N) :=
  '(rt, c) <- rm (get8 c) ;;
  '(rl, c) <- rm (get8 c) ;;
  '(d, c) <- evpn_route rt rl c ;;
  Ok (rt :: len d :: d, c).

(* ---- RTC (rtc.rs RtcNlri::decode): prefix length 0, 32 (origin AS) or 96 (origin AS + route target) *)
Definition rtc_decode (c : list N) : res (list N * list N) :=
  '(bits, c) <- rm (get8 c) ;;
  if bits =? 0 then Ok ([0], c)
  else if bits =? 32 then '(d, c) <- rm (take 4 c) ;; Ok (32 :: d, c)
  else if bits =? 96 then '(d, c) <- rm (take 12 c) ;; Ok (96 :: d, c)
  else Fail MAL.

(* ---- SR policy (sr_policy.rs SrPolicyNlri::decode): length 96 / 192, distinguisher, color, endpoint *)
Definition srp_decode (c : list N) : res (list N * list N) :=
  '(bits, c) <- rm (get8 c) ;;
  '(dc, c) <- rm (take 8 c) ;;
  if bits =? 96 then '(e, c) <- rm (take 4 c) ;; Ok (96 :: dc ++ e, c)
  else if bits =? 192 then '(e, c) <- rm (take 16 c) ;; Ok (192 :: dc ++ e, c)
  else Fail MAL.



Fixpoint be_val (l : list N) (acc : N) : N :=
  match l with [] => acc | b :: r => be_val r (acc * 256 + b) end.

(* ---- BGP-LS (ls.rs).  read_tlv: type, length, value; None when the header or the value is short *)
Definition ls_read_tlv (c : list N) : option (N * list N * list N) :=
  match c with
  | t1 :: t2 :: l1 :: l2 :: r =>
    let n := nat_of (be16 l1 l2) in
    if Nat.ltb (length r) n then None else Some (be16 t1 t2, firstn n r, skipn n r)
  | _ => None
  end.

(* `while pos < len { let Some(tlv) = read_tlv(..) else { break }; .. }`: the TLVs up to the first that does not fit *)
Fixpoint ls_tlvs (fuel : nat) (c : list N) : list (N * list N) :=
  match fuel with
  | O => []
  | S f =>
    match c with
    | [] => []
    | _ => match ls_read_tlv c with
           | None => []
           | Some (t, v, c') => (t, v) :: ls_tlvs f c'
           end
    end
  end.

(* value[..n].try_into().unwrap() *)
Definition ls_first (tag : N) (n : nat) (v : list N) : res (list N) :=
  if Nat.ltb (length v) n then Panic tag else Ok (firstn n v).

Definition be_of (l : list N) : N := be_val l 0.

Definition nd0 : lsnd := {| nd_asn := None; nd_lsid := None; nd_area := None; nd_igp := None; nd_bgp := None; nd_confed := None |}.

(* NodeDescriptor::decode: the last TLV of a kind wins; TLVs too short for their kind are ignored *)
Fixpoint ls_node_fold (tl : list (N * list N)) (nd : lsnd) : res lsnd :=
  match tl with
  | [] => Ok nd
  | (t, v) :: r =>
    let long := negb (Nat.ltb (length v) 4) in
    if (t =? 512) && long then
      x <- ls_first 60 4 v ;; ls_node_fold r {| nd_asn := Some (be_of x); nd_lsid := nd_lsid nd; nd_area := nd_area nd; nd_igp := nd_igp nd; nd_bgp := nd_bgp nd; nd_confed := nd_confed nd |}
    else if (t =? 513) && long then
      x <- ls_first 60 4 v ;; ls_node_fold r {| nd_asn := nd_asn nd; nd_lsid := Some (be_of x); nd_area := nd_area nd; nd_igp := nd_igp nd; nd_bgp := nd_bgp nd; nd_confed := nd_confed nd |}
    else if (t =? 514) && long then
      x <- ls_first 60 4 v ;; ls_node_fold r {| nd_asn := nd_asn nd; nd_lsid := nd_lsid nd; nd_area := Some (be_of x); nd_igp := nd_igp nd; nd_bgp := nd_bgp nd; nd_confed := nd_confed nd |}
    else if t =? 515 then
      ls_node_fold r {| nd_asn := nd_asn nd; nd_lsid := nd_lsid nd; nd_area := nd_area nd; nd_igp := Some v; nd_bgp := nd_bgp nd; nd_confed := nd_confed nd |}
    else if (t =? 516) && long then
      x <- ls_first 60 4 v ;; ls_node_fold r {| nd_asn := nd_asn nd; nd_lsid := nd_lsid nd; nd_area := nd_area nd; nd_igp := nd_igp nd; nd_bgp := Some x; nd_confed := nd_confed nd |}
    else if (t =? 517) && long then
      x <- ls_first 60 4 v ;; ls_node_fold r {| nd_asn := nd_asn nd; nd_lsid := nd_lsid nd; nd_area := nd_area nd; nd_igp := nd_igp nd; nd_bgp := nd_bgp nd; nd_confed := Some (be_of x) |}
    else ls_node_fold r nd
  end.

Definition ls_node (v : list N) : res lsnd := ls_node_fold (ls_tlvs (S (length v)) v) nd0.

(* chunks_exact(2) as 16-bit values *)
Fixpoint ls_u16s (mask : N) (v : list N) : list N :=
  match v with
  | a :: b :: r => N.land (be16 a b) mask :: ls_u16s mask r
  | _ => []
  end.

(* decode_link_desc_tlvs *)
Fixpoint ls_link_tlvs (tl : list (N * list N)) : res (list lstlv) :=
  match tl with
  | [] => Ok []
  | (t, v) :: r =>
    x <- (if (t =? 258) && negb (Nat.ltb (length v) 8) then
            a <- ls_first 61 4 v ;; b <- ls_first 61 4 (skipn 4 v) ;; Ok (LsLinkId (be_of a) (be_of b))
          else if ((t =? 259) || (t =? 260)) && negb (Nat.ltb (length v) 4) then
            a <- ls_first 62 4 v ;; Ok (LsAddr t a)
          else if ((t =? 261) || (t =? 262)) && negb (Nat.ltb (length v) 16) then
            a <- ls_first 63 16 v ;; Ok (LsAddr t a)
          else if t =? 263 then Ok (LsMt (ls_u16s 4095 v))
          else Ok (LsUnk t v)) ;;
    l <- ls_link_tlvs r ;; Ok (x :: l)
  end.

(* decode_prefix_desc_tlvs *)
Fixpoint ls_prefix_tlvs (tl : list (N * list N)) : res (list lstlv) :=
  match tl with
  | [] => Ok []
  | (t, v) :: r =>
    x <- (if t =? 263 then Ok (LsMt (ls_u16s 4095 v))
          else match v with
               | v0 :: vr =>
                 if t =? 264 then Ok (LsOspf v0)
                 else if t =? 265 then
                   let bl := nat_of (ceil8 v0) in
                   if Nat.ltb bl (length v) then
                     (* value[1..1 + byte_len] *)
                     if Nat.ltb (length vr) bl then Panic 64 else Ok (LsReach v0 (firstn bl vr))
                   else Ok (LsReach v0 vr)               (* value[1..] *)
                 else Ok (LsUnk t v)
               | [] => Ok (LsUnk t v)
               end) ;;
    l <- ls_prefix_tlvs r ;; Ok (x :: l)
  end.

(* the SRv6 SID NLRI's TLVs: (sids, multi-topology ids) *)
Fixpoint ls_srv6_tlvs (tl : list (N * list N)) (sids : list (list N)) (mts : list N) : res (list (list N) * list N) :=
  match tl with
  | [] => Ok (sids, mts)
  | (t, v) :: r =>
    if (t =? 518) && negb (Nat.ltb (length v) 20) then
      m <- ls_first 65 2 v ;; sid <- ls_first 65 16 (skipn 4 v) ;;
      ls_srv6_tlvs r (sids ++ [sid]) (mts ++ [be_of m])
    else if t =? 263 then ls_srv6_tlvs r sids (mts ++ ls_u16s 65535 v)
    else ls_srv6_tlvs r sids mts
  end.

(* decode_node_desc_and_rest / decode_node_desc_container: the first TLV must be a node descriptor container *)
Definition ls_node_and_rest (d : list N) : res (lsnd * list N) :=
  match ls_read_tlv d with
  | None => Fail MAL
  | Some (t, v, rest) =>
    if negb ((t =? 256) || (t =? 257)) then Fail MAL else
    nd <- ls_node v ;; Ok (nd, rest)
  end.

(* BgpLsNlri::decode *)
Definition ls_decode (c : list N) : res (lsnlri * list N) :=
  '(ty, c) <- rm (get16 c) ;;
  '(ln, c) <- rm (get16 c) ;;
  '(body, c) <- rm (take (nat_of ln) c) ;;
  if Nat.ltb (length body) 9 then Ok (LsUnknown ty body, c) else
  match body with
  | p :: b =>
    idb <- ls_first 66 8 b ;;                              (* body[1..9] *)
    let id := be_of idb in
    let rest := skipn 8 b in
    if ty =? 1 then
      '(nd, _) <- ls_node_and_rest rest ;; Ok (LsNode p id nd, c)
    else if ty =? 2 then
      '(l, r1) <- ls_node_and_rest rest ;;
      '(r, r2) <- ls_node_and_rest r1 ;;
      tl <- ls_link_tlvs (ls_tlvs (S (length r2)) r2) ;;
      Ok (LsLink p id l r tl, c)
    else if (ty =? 3) || (ty =? 4) then
      '(nd, r1) <- ls_node_and_rest rest ;;
      tl <- ls_prefix_tlvs (ls_tlvs (S (length r1)) r1) ;;
      Ok (LsPrefix (ty =? 4) p id nd tl, c)
    else if ty =? 6 then
      '(nd, r1) <- ls_node_and_rest rest ;;
      '(sids, mts) <- ls_srv6_tlvs (ls_tlvs (S (length r1)) r1) [] [] ;;
      Ok (LsSrv6 p id nd sids mts, c)
    else Ok (LsUnknown ty body, c)
  | [] => Panic 67                                          (* body[0] *)
  end.

(* ---- MUP (mup.rs MupNlri::decode and the four route body decoders).  The body decoders work on
   a slice with explicit length tests before every index, all failing with the same error; the
   model returns the route's serialize() output (octets after the ones a route uses are dropped). *)
Definition sub_list (start n : nat) (l : list N) : list N := firstn n (skipn start l).

Definition mup_body (ip_bits : N) (rt : N) (d : list N) : option (list N) :=
  let ipb := nat_of (ip_bits / 8) in
  let n := length d in
  let rd := firstn 8 d in
  match rt with
  | 1 => (* Interwork Segment Discovery: RD, prefix length, prefix *)
    if Nat.ltb n 9 || negb (rd_ok rd) then None else
    let plen := nth 8 d 0 in
    let pb := nat_of (ceil8 plen) in
    if Nat.ltb (n - 9) pb || (ip_bits <? plen) then None else
    Some (rd ++ [plen] ++ sub_list 9 pb d)
  | 2 => (* Direct Segment Discovery: RD, address *)
    if Nat.ltb n 8 || negb (rd_ok rd) || negb (Nat.eqb (n - 8) ipb) then None else Some d
  | 3 => (* Type 1 Session Transformed: RD, prefix length, prefix, TEID 4, QFI 1, endpoint length, endpoint, source length, [source] *)
    if Nat.ltb n 9 || negb (rd_ok rd) then None else
    let plen := nth 8 d 0 in
    let pb := nat_of (ceil8 plen) in
    let after := (9 + pb)%nat in
    if Nat.ltb n (after + 6) || (ip_bits <? plen) then None else
    let ea_len := nth (after + 5) d 0 in
    if negb (ea_len =? ip_bits) || Nat.ltb n (after + 6 + ipb + 1) then None else
    let sa_len := nth (after + 6 + ipb) d 0 in
    let head := rd ++ [plen] ++ sub_list 9 pb d ++ sub_list after 5 d ++ [ip_bits] ++ sub_list (after + 6) ipb d in
    if sa_len =? 0 then Some (head ++ [0]) else
    if negb (sa_len =? ip_bits) || Nat.ltb n (after + 6 + ipb + 1 + ipb) then None
    else Some (head ++ [ip_bits] ++ sub_list (after + 6 + ipb + 1) ipb d)
  | 4 => (* Type 2 Session Transformed: RD, endpoint length (address + TEID bits), address, TEID octets *)
    if Nat.ltb n 9 || negb (rd_ok rd) then None else
    let ea_len := nth 8 d 0 in
    if (ea_len <? ip_bits) || (ip_bits + 32 <? ea_len) || Nat.ltb n (9 + ipb) then None else
    let tb := nat_of (ceil8 (ea_len - ip_bits)) in
    if Nat.ltb n (9 + ipb + tb) then None
    else Some (rd ++ [ea_len] ++ sub_list 9 ipb d ++ sub_list (9 + ipb) tb d)
  | _ => None
  end.

Definition mup_decode (fam : N) (c : list N) (n : N) : res (list N * list N) :=
  if n <? 4 then Fail MAL else
  '(h, c) <- rm (take 4 c) ;;
  match h with
  | [arch; t1; t2; blen] =>
    if negb (arch =? 1) || (n <? 4 + blen) then Fail MAL else
    '(body, c) <- rm (take (nat_of blen) c) ;;
    match mup_body (if fam / 65536 =? 1 then 32 else 128) (be16 t1 t2) body with
    | Some ser => Ok (arch :: t1 :: t2 :: (len ser) mod 256 :: ser, c)
    | None => Fail MAL
    end
  | _ => Panic 9                                           (* header[0..4] *)
  end.

(* ---- flowspec (flowspec.rs).  Op::decode: length bits 5-4 give 1/2/4/8 value octets *)

Definition fs_op (c : list N) : res (N * N * list N) :=
  '(raw, c) <- rm (get8 c) ;;
  let order := (raw / 16) mod 4 in
  let n := if order =? 0 then 1%nat else if order =? 1 then 2%nat else if order =? 2 then 4%nat else 8%nat in
  '(v, c) <- rm (take n c) ;;
  Ok (N.land raw 207, be_val v 0, c).

(* decode_ops: until the end-of-list bit *)
Fixpoint fs_ops (fuel : nat) (c : list N) (acc : list (N * N)) : res (list (N * N) * list N) :=
  match fuel with
  | O => Panic FUEL
  | S f =>
    '(bits, v, c) <- fs_op c ;;
    if N.testbit bits 7 then Ok (rev ((bits, v) :: acc), c) else fs_ops f c ((bits, v) :: acc)
  end.

(* FlowspecV4Component::decode / FlowspecV6Component::decode on the NLRI's own buffer *)
Definition fs_component (v6 : bool) (c : list N) : res (fcomp * list N) :=
  '(ty, c) <- rm (get8 c) ;;
  if (ty =? 1) || (ty =? 2) then
    '(bits, c) <- rm (get8 c) ;;
    if (if v6 then 128 else 32) <? bits then Fail MAL else
    if v6 then
      '(off, c) <- rm (get8 c) ;;
      '(a, c) <- rm (take (nat_of (ceil8 bits)) c) ;;
      Ok (FPrefix ty bits off (pad_to 16 a), c)
    else
      '(a, c) <- rm (take (nat_of (ceil8 bits)) c) ;;
      Ok (FPrefix ty bits 0 (pad_to 4 a), c)
  else if (3 <=? ty) && (ty <=? (if v6 then 13 else 12)) then
    '(ops, c) <- fs_ops (S (length c)) c [] ;; Ok (FOps ty ops, c)
  else Fail MAL.

(* while c.position() < nlri_len *)
Fixpoint fs_components (fuel : nat) (v6 : bool) (c : list N) (acc : list fcomp) : res (list fcomp) :=
  match c with
  | [] => Ok (rev acc)
  | _ =>
    match fuel with
    | O => Panic FUEL
    | S f => '(x, c') <- fs_component v6 c ;; fs_components f v6 c' (x :: acc)
    end
  end.

(* Flowspec{,Vpn}V{4,6}Nlri::decode: [n] is what remains of the NLRI field *)
Definition fs_decode (vpn v6 : bool) (c : list N) (n : N) : res (list N * list fcomp * list N) :=
  if n <? 1 then Fail MAL else
  '(first, c) <- rm (get8 c) ;;
  '(nlen, hdr, c) <-
     (if first <? 240 then Ok (first, 1, c)
      else '(second, c) <- rm (get8 c) ;; Ok ((first mod 16) * 256 + second, 2, c)) ;;
  if (n <? nlen + hdr) || (vpn && (nlen <? 8)) then Fail MAL else
  '(buf, c) <- rm (take (nat_of nlen) c) ;;
  if vpn then
    let rd := firstn 8 buf in
    if Nat.ltb (length rd) 8 then Panic 7 else              (* c.read_u8()? on the 8 RD octets: cannot fail *)
    if negb (rd_ok rd) then Fail MAL else
    comps <- fs_components (S (length buf)) v6 (skipn 8 buf) [] ;;
    Ok (rd, comps, c)
  else
    comps <- fs_components (S (length buf)) v6 buf [] ;;
    Ok ([], comps, c).

(* ---- the unrepaired label arithmetic (vpn.rs / labeled.rs before the fix):
     let label_bits = (labels.encoded_len() * 8) as u8;
     if total_bits < label_bits + VPN_RD_BITS { Err }          (u8 addition) *)
Definition label_bits_v0 (nlabels : N) : N := trunc 8 (nlabels * 24).
Definition vpn_bits_ok_v0 (p : profile) (total nlabels : N) : option bool :=
  match add_w 8 p (label_bits_v0 nlabels) 64 with
  | None => None                                         (* attempt to add with overflow *)
  | Some s => Some (negb (total <? s))
  end.

Section Nlri.
  (* decoder of the families not modelled: family, is_reach, cursor -> the
     cursor after one NLRI, or None for an error *)
  Variable other_nlri : N -> bool -> list N -> option (list N).

  (* Nlri::decode *)
  Definition nlri_decode (fam : N) (is_reach : bool) (c : list N) (n : N) : res (nlri * list N) :=
    if (fam =? F_IPV4) || (fam =? F_IPV4_MC) then
      '(m, a, c) <- prefix_decode 32 4 c n ;; Ok (NV4 m a, c)
    else if (fam =? F_IPV6) || (fam =? F_IPV6_MC) then
      '(m, a, c) <- prefix_decode 128 16 c n ;; Ok (NV6 m a, c)
    else if fam =? F_IPV4_VPN then
      '(ls, rd, m, a, c) <- vpn_decode 32 4 c n ;; Ok (NVpn4 ls rd m a, c)
    else if fam =? F_IPV6_VPN then
      '(ls, rd, m, a, c) <- vpn_decode 128 16 c n ;; Ok (NVpn6 ls rd m a, c)
    else if fam =? F_IPV4_MPLS then
      '(ls, m, a, c) <- labeled_decode 32 4 is_reach c n ;; Ok (NLab4 ls m a, c)
    else if fam =? F_IPV6_MPLS then
      '(ls, m, a, c) <- labeled_decode 128 16 is_reach c n ;; Ok (NLab6 ls m a, c)
    else if fam =? F_EVPN then
      '(e, c) <- evpn_decode c ;; Ok (NEvpn e, c)
    else if fam =? F_RTC then
      '(e, c) <- rtc_decode c ;; Ok (NRtc e, c)
    else if (fam =? F_IPV4_SRP) || (fam =? F_IPV6_SRP) then
      '(e, c) <- srp_decode c ;; Ok (NSrp e, c)
    else if fam =? F_IPV4_FS then
      '(rd, comps, c) <- fs_decode false false c n ;; Ok (NFlow 0 rd comps, c)
    else if fam =? F_IPV6_FS then
      '(rd, comps, c) <- fs_decode false true c n ;; Ok (NFlow 1 rd comps, c)
    else if fam =? F_IPV4_FSVPN then
      '(rd, comps, c) <- fs_decode true false c n ;; Ok (NFlow 2 rd comps, c)
    else if fam =? F_IPV6_FSVPN then
      '(rd, comps, c) <- fs_decode true true c n ;; Ok (NFlow 3 rd comps, c)
    else if fam =? F_LS then
      '(x, c) <- ls_decode c ;; Ok (NLs x, c)
    else if (fam =? F_IPV4_MUP) || (fam =? F_IPV6_MUP) then
      '(e, c) <- mup_decode fam c n ;; Ok (NMup e, c)
    else if is_other_family fam then
      match other_nlri fam is_reach c with
      | Some c' => Ok (NOther, c')
      | None => Fail MAL
      end
    else Fail MAL.

  (* PeerCodec::decode_nlri *)
  Definition path_nlri_decode (fam : N) (addpath is_reach : bool) (c : list N) : res (N * nlri * list N) :=
    let n := len c in
    if addpath then
      if n <? 4 then Fail MAL else
      '(id, c) <- rm (get32 c) ;;
      '(x, c) <- nlri_decode fam is_reach c (n - 4) ;;
      Ok (id, x, c)
    else
      '(x, c) <- nlri_decode fam is_reach c n ;; Ok (0, x, c).

  (* PeerCodec::decode_nlri_list: while reader.remaining_len() > 0 *)
  Fixpoint nlri_list_fuel (fuel : nat) (fam : N) (addpath is_reach : bool) (c : list N)
           (acc : list (N * nlri)) : res (list (N * nlri)) :=
    match c with
    | [] => Ok (rev acc)
    | _ =>
      match fuel with
      | O => Panic FUEL
      | S f =>
        '(id, x, c') <- path_nlri_decode fam addpath is_reach c ;;
        nlri_list_fuel f fam addpath is_reach c' ((id, x) :: acc)
      end
    end.

  Definition nlri_list (fam : N) (addpath is_reach : bool) (c : list N) : res (list (N * nlri)) :=
    nlri_list_fuel (S (length c)) fam addpath is_reach c [].
End Nlri.

(* ------------------------------------------------------------ observation *)
Definition v_nlri (x : nlri) : val :=
  match x with
  | NV4 m a => VL [VN 0; VN m; VNs a]
  | NV6 m a => VL [VN 1; VN m; VNs a]
  | NLab4 l m a => VL [VN 2; VNs l; VN m; VNs a]
  | NLab6 l m a => VL [VN 3; VNs l; VN m; VNs a]
  | NVpn4 l r m a => VL [VN 4; VNs l; VNs r; VN m; VNs a]
  | NVpn6 l r m a => VL [VN 5; VNs l; VNs r; VN m; VNs a]
  | NEvpn e => VL [VN 10; VNs e]
  | NRtc e => VL [VN 11; VNs e]
  | NSrp e => VL [VN 12; VNs e]
  | NMup e => VL [VN 14; VNs e]
  | NLs x =>
    let v_nd (n : lsnd) := VL [VOpt VN (nd_asn n); VOpt VN (nd_lsid n); VOpt VN (nd_area n); VOpt VNs (nd_igp n); VOpt VNs (nd_bgp n); VOpt VN (nd_confed n)] in
    let v_tlv (t : lstlv) := match t with
      | LsLinkId l r => VL [VN 0; VN l; VN r] | LsAddr k a => VL [VN 1; VN k; VNs a] | LsMt ids => VL [VN 2; VNs ids]
      | LsOspf t => VL [VN 4; VN t] | LsReach p a => VL [VN 5; VN p; VNs a] | LsUnk t v => VL [VN 3; VN t; VNs v] end in
    match x with
    | LsUnknown t b => VL [VN 15; VN 0; VN t; VNs b]
    | LsNode p id n => VL [VN 15; VN 1; VN p; VN id; v_nd n]
    | LsLink p id l r tl => VL [VN 15; VN 2; VN p; VN id; v_nd l; v_nd r; VList v_tlv tl]
    | LsPrefix v6 p id n tl => VL [VN 15; VN (if v6 then 4 else 3); VN p; VN id; v_nd n; VList v_tlv tl]
    | LsSrv6 p id n sids mts => VL [VN 15; VN 6; VN p; VN id; v_nd n; VList VNs sids; VNs mts]
    end
  | NFlow k rd comps =>
    VL [VN 13; VN k; VNs rd;
        VList (fun x => match x with
                        | FPrefix t b o a => VL [VN t; VN 0; VN b; VN o; VNs a]
                        | FOps t ops => VL [VN t; VN 1; VList VPairN ops]
                        end) comps]
  | NOther => VL [VN 9]
  end.

Definition v_entries (l : list (N * nlri)) : val :=
  VList (fun e => VL [VN (fst e); v_nlri (snd e)]) l.
