(* Executable model of the BGP receive path, part 2: NLRI decoders.
   PeerCodec::decode_nlri_list / decode_nlri, Nlri::decode (packet/src/bgp.rs),
   Ipv4Net/Ipv6Net::decode, labeled.rs, vpn.rs, mpls.rs, rd.rs (decode only).

   Families whose decoders are not modelled (MUP, flowspec, flowspec-VPN, LS,
   SR policy, EVPN, RTC) go through the Section variable [other_nlri]; the
   contract assumed of it is stated in Proofs/WireNlri.v (consumes at least one
   byte or fails, never panics) and it is exercised by the harness only.

   The label-stack bit arithmetic is modelled as repaired (usize); the
   arithmetic of the unrepaired code is kept as [label_bits_v0]/[vpn_bits_ok_v0]
   for the record of the finding.  No proofs in this file. *)
From Coq Require Import List ZArith NArith Bool.
From RB Require Import Base.Val Base.Bytes Model.Caps Model.Wire.
Import ListNotations.
Open Scope N_scope.

Definition F_IPV4 := 65537.      Definition F_IPV4_MC := 65538.
Definition F_IPV6 := 131073.     Definition F_IPV6_MC := 131074.
Definition F_IPV4_MPLS := 65540. Definition F_IPV6_MPLS := 131076.
Definition F_IPV4_VPN := 65664.  Definition F_IPV6_VPN := 131200.
Definition F_IPV4_MUP := 65621.  Definition F_IPV6_MUP := 131157.
Definition F_IPV4_FS := 65669.   Definition F_IPV6_FS := 131205.
Definition F_IPV4_FSVPN := 65670. Definition F_IPV6_FSVPN := 131206.
Definition F_LS := 1073807431.
Definition F_IPV4_SRP := 65609.  Definition F_IPV6_SRP := 131145.
Definition F_EVPN := 1638470.    Definition F_RTC := 65668.

Definition is_other_family (f : N) : bool :=
  existsb (N.eqb f) [F_IPV4_MUP; F_IPV6_MUP; F_IPV4_FS; F_IPV6_FS; F_IPV4_FSVPN; F_IPV6_FSVPN;
                     F_LS; F_IPV4_SRP; F_IPV6_SRP; F_EVPN; F_RTC].
Definition is_flowspec (f : N) : bool :=
  existsb (N.eqb f) [F_IPV4_FS; F_IPV6_FS; F_IPV4_FSVPN; F_IPV6_FSVPN].

Inductive nlri :=
| NV4 (mask : N) (addr : list N)
| NV6 (mask : N) (addr : list N)
| NLab4 (labels : list N) (mask : N) (addr : list N)
| NLab6 (labels : list N) (mask : N) (addr : list N)
| NVpn4 (labels rd : list N) (mask : N) (addr : list N)
| NVpn6 (labels rd : list N) (mask : N) (addr : list N)
| NOther.

Definition MAL := E_MALFORMED_ATTR_LIST.
Definition rm {A} (o : option A) : res A := req MAL o.

(* Ipv4Net::decode / Ipv6Net::decode: [n] is what remains of the NLRI field
   (including the length octet just read), [maxbits] 32 or 128. *)
Definition prefix_decode (maxbits : N) (abytes : nat) (c : list N) (n : N) : res (N * list N * list N) :=
  '(bits, c) <- rm (get8 c) ;;
  if (n <? ceil8 bits) || (maxbits <? bits) then Fail MAL else
  '(a, c) <- rm (take (nat_of (ceil8 bits)) c) ;;
  Ok (bits, pad_to abytes a, c).

(* MplsLabelStack::decode: 3-byte labels until the bottom-of-stack bit *)
Fixpoint label_stack (fuel : nat) (c : list N) (acc : list N) : res (list N * list N) :=
  match fuel with
  | O => Panic FUEL
  | S f =>
    match c with
    | a :: b :: d :: r =>
      let lab := be24 a b d / 16 in
      if N.testbit d 0 then Ok (rev (lab :: acc), r) else label_stack f r (lab :: acc)
    | _ => Fail MAL
    end
  end.

(* the tail shared by the labeled decoders once the labels are known *)
Definition labeled_tail (maxbits : N) (abytes : nat) (total label_bits : N) (c : list N)
  : res (N * list N * list N) :=
  if total <? label_bits then Fail MAL else
  let pbits := total - label_bits in
  if maxbits <? pbits then Fail MAL else
  '(a, c) <- rm (take (nat_of (ceil8 pbits)) c) ;;
  Ok (pbits, pad_to abytes a, c).

(* LabeledV4Nlri::decode / LabeledV6Nlri::decode *)
Definition labeled_decode (maxbits : N) (abytes : nat) (is_reach : bool) (c : list N) (n : N)
  : res (list N * N * list N * list N) :=
  if n <? 4 then Fail MAL else
  '(total, c) <- rm (get8 c) ;;
  if total <? 24 then Fail MAL else
  '(labels, lbits, c) <-
     (if is_reach then
        '(ls, c) <- label_stack (S (length c)) c [] ;;
        Ok (ls, 24 * len ls, c)
      else
        '(_, c) <- rm (take 3 c) ;; Ok ([0], 24, c)) ;;
  '(pbits, a, c) <- labeled_tail maxbits abytes total lbits c ;;
  Ok (labels, pbits, a, c).

(* VpnV4Nlri::decode / VpnV6Nlri::decode; RouteDistinguisher::decode accepts types 0..2 *)
Definition vpn_decode (maxbits : N) (abytes : nat) (c : list N) (n : N)
  : res (list N * list N * N * list N * list N) :=
  if n <? 12 then Fail MAL else
  '(total, c) <- rm (get8 c) ;;
  if total <? 88 then Fail MAL else
  '(ls, c) <- label_stack (S (length c)) c [] ;;
  let lbits := 24 * len ls in
  if total <? lbits + 64 then Fail MAL else
  let pbits := total - lbits - 64 in
  if maxbits <? pbits then Fail MAL else
  '(rd, c) <- rm (take 8 c) ;;
  match rd with
  | t1 :: t2 :: _ =>
    if 2 <? be16 t1 t2 then Fail MAL else
    '(a, c) <- rm (take (nat_of (ceil8 pbits)) c) ;;
    Ok (ls, rd, pbits, pad_to abytes a, c)
  | _ => Panic 2                                         (* &data[0..2] *)
  end.

(* ---- the unrepaired label arithmetic (vpn.rs / labeled.rs before the fix):
     let label_bits = (labels.encoded_len() * 8) as u8;
     if total_bits < label_bits + VPN_RD_BITS { Err }          (u8 addition) *)
Definition label_bits_v0 (nlabels : N) : N := trunc 8 (nlabels * 24).
Definition vpn_bits_ok_v0 (p : profile) (total nlabels : N) : option bool :=
  match add_w 8 p (label_bits_v0 nlabels) 64 with
  | None => None                                         (* attempt to add with overflow *)
  | Some s => Some (negb (total <? s))
  end.

Section Nlri.
  (* decoder of the families not modelled: family, is_reach, cursor -> the
     cursor after one NLRI, or None for an error *)
  Variable other_nlri : N -> bool -> list N -> option (list N).

  (* Nlri::decode *)
  Definition nlri_decode (fam : N) (is_reach : bool) (c : list N) (n : N) : res (nlri * list N) :=
    if (fam =? F_IPV4) || (fam =? F_IPV4_MC) then
      '(m, a, c) <- prefix_decode 32 4 c n ;; Ok (NV4 m a, c)
    else if (fam =? F_IPV6) || (fam =? F_IPV6_MC) then
      '(m, a, c) <- prefix_decode 128 16 c n ;; Ok (NV6 m a, c)
    else if fam =? F_IPV4_VPN then
      '(ls, rd, m, a, c) <- vpn_decode 32 4 c n ;; Ok (NVpn4 ls rd m a, c)
    else if fam =? F_IPV6_VPN then
      '(ls, rd, m, a, c) <- vpn_decode 128 16 c n ;; Ok (NVpn6 ls rd m a, c)
    else if fam =? F_IPV4_MPLS then
      '(ls, m, a, c) <- labeled_decode 32 4 is_reach c n ;; Ok (NLab4 ls m a, c)
    else if fam =? F_IPV6_MPLS then
      '(ls, m, a, c) <- labeled_decode 128 16 is_reach c n ;; Ok (NLab6 ls m a, c)
    else if is_other_family fam then
      match other_nlri fam is_reach c with
      | Some c' => Ok (NOther, c')
      | None => Fail MAL
      end
    else Fail MAL.

  (* PeerCodec::decode_nlri *)
  Definition path_nlri_decode (fam : N) (addpath is_reach : bool) (c : list N) : res (N * nlri * list N) :=
    let n := len c in
    if addpath then
      if n <? 4 then Fail MAL else
      '(id, c) <- rm (get32 c) ;;
      '(x, c) <- nlri_decode fam is_reach c (n - 4) ;;
      Ok (id, x, c)
    else
      '(x, c) <- nlri_decode fam is_reach c n ;; Ok (0, x, c).

  (* PeerCodec::decode_nlri_list: while reader.remaining_len() > 0 *)
  Fixpoint nlri_list_fuel (fuel : nat) (fam : N) (addpath is_reach : bool) (c : list N)
           (acc : list (N * nlri)) : res (list (N * nlri)) :=
    match c with
    | [] => Ok (rev acc)
    | _ =>
      match fuel with
      | O => Panic FUEL
      | S f =>
        '(id, x, c') <- path_nlri_decode fam addpath is_reach c ;;
        nlri_list_fuel f fam addpath is_reach c' ((id, x) :: acc)
      end
    end.

  Definition nlri_list (fam : N) (addpath is_reach : bool) (c : list N) : res (list (N * nlri)) :=
    nlri_list_fuel (S (length c)) fam addpath is_reach c [].
End Nlri.

(* ------------------------------------------------------------ observation *)
Definition v_nlri (x : nlri) : val :=
  match x with
  | NV4 m a => VL [VN 0; VN m; VNs a]
  | NV6 m a => VL [VN 1; VN m; VNs a]
  | NLab4 l m a => VL [VN 2; VNs l; VN m; VNs a]
  | NLab6 l m a => VL [VN 3; VNs l; VN m; VNs a]
  | NVpn4 l r m a => VL [VN 4; VNs l; VNs r; VN m; VNs a]
  | NVpn6 l r m a => VL [VN 5; VNs l; VNs r; VN m; VNs a]
  | NOther => VL [VN 9]
  end.

Definition v_entries (l : list (N * nlri)) : val :=
  VList (fun e => VL [VN (fst e); v_nlri (snd e)]) l.
