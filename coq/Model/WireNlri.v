(* Executable model of the BGP receive path, part 2: NLRI decoders.
   PeerCodec::decode_nlri_list / decode_nlri, Nlri::decode (packet/src/bgp.rs),
   Ipv4Net/Ipv6Net::decode, labeled.rs, vpn.rs, mpls.rs, rd.rs (decode only).

   EVPN (evpn.rs, route types 1-5), RTC (rtc.rs), SR policy (sr_policy.rs) and the four
   flowspec families (flowspec.rs) are modelled below.  Families whose decoders are not
   modelled (MUP, BGP-LS) go through the Section variable [other_nlri]; the
   contract assumed of it is stated in Proofs/WireNlri.v (consumes at least one
   byte or fails, never panics) and it is exercised by the harness only.

   The label-stack bit arithmetic is modelled as repaired (usize); the
   arithmetic of the unrepaired code is kept as [label_bits_v0]/[vpn_bits_ok_v0]
   for the record of the finding.  No proofs in this file. *)
From Coq Require Import List ZArith NArith Bool.
From RB Require Import Base.Val Base.Bytes Model.Caps Model.Wire.
Import ListNotations.
Open Scope N_scope.

Definition F_IPV4 := 65537.      Definition F_IPV4_MC := 65538.
Definition F_IPV6 := 131073.     Definition F_IPV6_MC := 131074.
Definition F_IPV4_MPLS := 65540. Definition F_IPV6_MPLS := 131076.
Definition F_IPV4_VPN := 65664.  Definition F_IPV6_VPN := 131200.
Definition F_IPV4_MUP := 65621.  Definition F_IPV6_MUP := 131157.
Definition F_IPV4_FS := 65669.   Definition F_IPV6_FS := 131205.
Definition F_IPV4_FSVPN := 65670. Definition F_IPV6_FSVPN := 131206.
Definition F_LS := 1073807431.
Definition F_IPV4_SRP := 65609.  Definition F_IPV6_SRP := 131145.
Definition F_EVPN := 1638470.    Definition F_RTC := 65668.

Definition is_other_family (f : N) : bool :=
  existsb (N.eqb f) [F_IPV4_MUP; F_IPV6_MUP; F_LS].
Definition is_flowspec (f : N) : bool :=
  existsb (N.eqb f) [F_IPV4_FS; F_IPV6_FS; F_IPV4_FSVPN; F_IPV6_FSVPN].

(* a flowspec component: an address prefix (types 1, 2) or a list of (operator bits, value) *)
Inductive fcomp :=
| FPrefix (ty bits off : N) (addr : list N)
| FOps (ty : N) (ops : list (N * N)).

Inductive nlri :=
| NV4 (mask : N) (addr : list N)
| NV6 (mask : N) (addr : list N)
| NLab4 (labels : list N) (mask : N) (addr : list N)
| NLab6 (labels : list N) (mask : N) (addr : list N)
| NVpn4 (labels rd : list N) (mask : N) (addr : list N)
| NVpn6 (labels rd : list N) (mask : N) (addr : list N)
| NEvpn (enc : list N)                 (* EvpnNlri::encode of the decoded route: type, length, data *)
| NRtc (enc : list N)                  (* RtcNlri::encode *)
| NSrp (enc : list N)                  (* SrPolicyNlri::encode *)
| NFlow (kind : N) (rd : list N) (comps : list fcomp)   (* kind 0 v4, 1 v6, 2 vpn-v4, 3 vpn-v6; rd = [] unless vpn *)
| NOther.

Definition MAL := E_MALFORMED_ATTR_LIST.
Definition rm {A} (o : option A) : res A := req MAL o.

(* Ipv4Net::decode / Ipv6Net::decode: [n] is what remains of the NLRI field
   (including the length octet just read), [maxbits] 32 or 128. *)
Definition prefix_decode (maxbits : N) (abytes : nat) (c : list N) (n : N) : res (N * list N * list N) :=
  '(bits, c) <- rm (get8 c) ;;
  if (n <? ceil8 bits) || (maxbits <? bits) then Fail MAL else
  '(a, c) <- rm (take (nat_of (ceil8 bits)) c) ;;
  Ok (bits, pad_to abytes a, c).

(* MplsLabelStack::decode: 3-byte labels until the bottom-of-stack bit *)
Fixpoint label_stack (fuel : nat) (c : list N) (acc : list N) : res (list N * list N) :=
  match fuel with
  | O => Panic FUEL
  | S f =>
    match c with
    | a :: b :: d :: r =>
      let lab := be24 a b d / 16 in
      if N.testbit d 0 then Ok (rev (lab :: acc), r) else label_stack f r (lab :: acc)
    | _ => Fail MAL
    end
  end.

(* the tail shared by the labeled decoders once the labels are known *)
Definition labeled_tail (maxbits : N) (abytes : nat) (total label_bits : N) (c : list N)
  : res (N * list N * list N) :=
  if total <? label_bits then Fail MAL else
  let pbits := total - label_bits in
  if maxbits <? pbits then Fail MAL else
  '(a, c) <- rm (take (nat_of (ceil8 pbits)) c) ;;
  Ok (pbits, pad_to abytes a, c).

(* LabeledV4Nlri::decode / LabeledV6Nlri::decode *)
Definition labeled_decode (maxbits : N) (abytes : nat) (is_reach : bool) (c : list N) (n : N)
  : res (list N * N * list N * list N) :=
  if n <? 4 then Fail MAL else
  '(total, c) <- rm (get8 c) ;;
  if total <? 24 then Fail MAL else
  '(labels, lbits, c) <-
     (if is_reach then
        '(ls, c) <- label_stack (S (length c)) c [] ;;
        Ok (ls, 24 * len ls, c)
      else
        '(_, c) <- rm (take 3 c) ;; Ok ([0], 24, c)) ;;
  '(pbits, a, c) <- labeled_tail maxbits abytes total lbits c ;;
  Ok (labels, pbits, a, c).

(* VpnV4Nlri::decode / VpnV6Nlri::decode; RouteDistinguisher::decode accepts types 0..2 *)
Definition vpn_decode (maxbits : N) (abytes : nat) (c : list N) (n : N)
  : res (list N * list N * N * list N * list N) :=
  if n <? 12 then Fail MAL else
  '(total, c) <- rm (get8 c) ;;
  if total <? 88 then Fail MAL else
  '(ls, c) <- label_stack (S (length c)) c [] ;;
  let lbits := 24 * len ls in
  if total <? lbits + 64 then Fail MAL else
  let pbits := total - lbits - 64 in
  if maxbits <? pbits then Fail MAL else
  '(rd, c) <- rm (take 8 c) ;;
  match rd with
  | t1 :: t2 :: _ =>
    if 2 <? be16 t1 t2 then Fail MAL else
    '(a, c) <- rm (take (nat_of (ceil8 pbits)) c) ;;
    Ok (ls, rd, pbits, pad_to abytes a, c)
  | _ => Panic 2                                         (* &data[0..2] *)
  end.


(* ---- EVPN (evpn.rs EvpnNlri::decode and the five route decoders).  Every failure is the same
   io::Error, mapped to UpdateMalformedAttributeList, so the order of the reads inside one route
   does not show; [data] is what the route decoder consumed, which is also what encode() writes. *)
Definition rd_ok (rd : list N) : bool :=
  match rd with t1 :: t2 :: _ => be16 t1 t2 <=? 2 | _ => false end.

(* ip_len octet of route types 2-4: number of address octets, or None when malformed *)
Definition evpn_ip_octets (allow_zero : bool) (ip_len : N) : option nat :=
  if ip_len =? 32 then Some 4%nat else if ip_len =? 128 then Some 16%nat
  else if allow_zero && (ip_len =? 0) then Some 0%nat else None.

Definition evpn_route (rt rl : N) (c : list N) : res (list N * list N) :=
  match rt with
  | 1 => (* RD 8, ESI 10, ETag 4, label 3 *)
    if negb (rl =? 25) then Fail MAL else
    '(d, c) <- rm (take 25 c) ;;
    if rd_ok d then Ok (d, c) else Fail MAL
  | 2 => (* RD 8, ESI 10, ETag 4, MAC length 1 (= 48), MAC 6, IP length 1, IP 0/4/16, label1 3, [label2 3] *)
    if rl <? 33 then Fail MAL else
    '(h, c) <- rm (take 22 c) ;;
    if negb (rd_ok h) then Fail MAL else
    '(ml, c) <- rm (get8 c) ;;
    if negb (ml =? 48) then Fail MAL else
    '(mac, c) <- rm (take 6 c) ;;
    '(il, c) <- rm (get8 c) ;;
    match evpn_ip_octets true il with
    | None => Fail MAL
    | Some ipb =>
      '(ip, c) <- rm (take ipb c) ;;
      '(l1, c) <- rm (take 3 c) ;;
      let d := h ++ [ml] ++ mac ++ [il] ++ ip ++ l1 in
      if rl =? 33 + N.of_nat ipb + 3 then
        '(l2, c) <- rm (take 3 c) ;; Ok (d ++ l2, c)
      else Ok (d, c)
    end
  | 3 => (* RD 8, ETag 4, IP length 1, IP 4/16 *)
    if rl <? 17 then Fail MAL else
    '(h, c) <- rm (take 12 c) ;;
    if negb (rd_ok h) then Fail MAL else
    '(il, c) <- rm (get8 c) ;;
    match evpn_ip_octets false il with
    | None => Fail MAL
    | Some ipb => '(ip, c) <- rm (take ipb c) ;; Ok (h ++ [il] ++ ip, c)
    end
  | 4 => (* RD 8, ESI 10, IP length 1, IP 4/16 *)
    if rl <? 23 then Fail MAL else
    '(h, c) <- rm (take 18 c) ;;
    if negb (rd_ok h) then Fail MAL else
    '(il, c) <- rm (get8 c) ;;
    match evpn_ip_octets false il with
    | None => Fail MAL
    | Some ipb => '(ip, c) <- rm (take ipb c) ;; Ok (h ++ [il] ++ ip, c)
    end
  | 5 => (* RD 8, ESI 10, ETag 4, prefix length 1, prefix 4/16, gateway 4/16, label 3 *)
    if (rl =? 34) || (rl =? 58) then
      '(d, c) <- rm (take (nat_of rl) c) ;;
      (* prefix length octet (offset 22): at most 32 for the IPv4 form, 128 for the IPv6 form (e0eebac) *)
      match nth_error d 22 with
      | None => Panic 8
      | Some pl =>
        if rd_ok d && (pl <=? (if rl =? 34 then 32 else 128)) then Ok (d, c) else Fail MAL
      end
    else Fail MAL
  | _ => Fail MAL
  end.

Definition evpn_decode (c : list N) : res (list N * list N) :=
  '(rt, c) <- rm (get8 c) ;;
  '(rl, c) <- rm (get8 c) ;;
  '(d, c) <- evpn_route rt rl c ;;
  Ok (rt :: len d :: d, c).

(* ---- RTC (rtc.rs RtcNlri::decode): prefix length 0, 32 (origin AS) or 96 (origin AS + route target) *)
Definition rtc_decode (c : list N) : res (list N * list N) :=
  '(bits, c) <- rm (get8 c) ;;
  if bits =? 0 then Ok ([0], c)
  else if bits =? 32 then '(d, c) <- rm (take 4 c) ;; Ok (32 :: d, c)
  else if bits =? 96 then '(d, c) <- rm (take 12 c) ;; Ok (96 :: d, c)
  else Fail MAL.

(* ---- SR policy (sr_policy.rs SrPolicyNlri::decode): length 96 / 192, distinguisher, color, endpoint *)
Definition srp_decode (c : list N) : res (list N * list N) :=
  '(bits, c) <- rm (get8 c) ;;
  '(dc, c) <- rm (take 8 c) ;;
  if bits =? 96 then '(e, c) <- rm (take 4 c) ;; Ok (96 :: dc ++ e, c)
  else if bits =? 192 then '(e, c) <- rm (take 16 c) ;; Ok (192 :: dc ++ e, c)
  else Fail MAL.

(* ---- flowspec (flowspec.rs).  Op::decode: length bits 5-4 give 1/2/4/8 value octets *)
Fixpoint be_val (l : list N) (acc : N) : N :=
  match l with [] => acc | b :: r => be_val r (acc * 256 + b) end.

Definition fs_op (c : list N) : res (N * N * list N) :=
  '(raw, c) <- rm (get8 c) ;;
  let order := (raw / 16) mod 4 in
  let n := if order =? 0 then 1%nat else if order =? 1 then 2%nat else if order =? 2 then 4%nat else 8%nat in
  '(v, c) <- rm (take n c) ;;
  Ok (N.land raw 207, be_val v 0, c).

(* decode_ops: until the end-of-list bit *)
Fixpoint fs_ops (fuel : nat) (c : list N) (acc : list (N * N)) : res (list (N * N) * list N) :=
  match fuel with
  | O => Panic FUEL
  | S f =>
    '(bits, v, c) <- fs_op c ;;
    if N.testbit bits 7 then Ok (rev ((bits, v) :: acc), c) else fs_ops f c ((bits, v) :: acc)
  end.

(* FlowspecV4Component::decode / FlowspecV6Component::decode on the NLRI's own buffer *)
Definition fs_component (v6 : bool) (c : list N) : res (fcomp * list N) :=
  '(ty, c) <- rm (get8 c) ;;
  if (ty =? 1) || (ty =? 2) then
    '(bits, c) <- rm (get8 c) ;;
    if (if v6 then 128 else 32) <? bits then Fail MAL else
    if v6 then
      '(off, c) <- rm (get8 c) ;;
      '(a, c) <- rm (take (nat_of (ceil8 bits)) c) ;;
      Ok (FPrefix ty bits off (pad_to 16 a), c)
    else
      '(a, c) <- rm (take (nat_of (ceil8 bits)) c) ;;
      Ok (FPrefix ty bits 0 (pad_to 4 a), c)
  else if (3 <=? ty) && (ty <=? (if v6 then 13 else 12)) then
    '(ops, c) <- fs_ops (S (length c)) c [] ;; Ok (FOps ty ops, c)
  else Fail MAL.

(* while c.position() < nlri_len *)
Fixpoint fs_components (fuel : nat) (v6 : bool) (c : list N) (acc : list fcomp) : res (list fcomp) :=
  match c with
  | [] => Ok (rev acc)
  | _ =>
    match fuel with
    | O => Panic FUEL
    | S f => '(x, c') <- fs_component v6 c ;; fs_components f v6 c' (x :: acc)
    end
  end.

(* Flowspec{,Vpn}V{4,6}Nlri::decode: [n] is what remains of the NLRI field *)
Definition fs_decode (vpn v6 : bool) (c : list N) (n : N) : res (list N * list fcomp * list N) :=
  if n <? 1 then Fail MAL else
  '(first, c) <- rm (get8 c) ;;
  '(nlen, hdr, c) <-
     (if first <? 240 then Ok (first, 1, c)
      else '(second, c) <- rm (get8 c) ;; Ok ((first mod 16) * 256 + second, 2, c)) ;;
  if (n <? nlen + hdr) || (vpn && (nlen <? 8)) then Fail MAL else
  '(buf, c) <- rm (take (nat_of nlen) c) ;;
  if vpn then
    let rd := firstn 8 buf in
    if Nat.ltb (length rd) 8 then Panic 7 else              (* c.read_u8()? on the 8 RD octets: cannot fail *)
    if negb (rd_ok rd) then Fail MAL else
    comps <- fs_components (S (length buf)) v6 (skipn 8 buf) [] ;;
    Ok (rd, comps, c)
  else
    comps <- fs_components (S (length buf)) v6 buf [] ;;
    Ok ([], comps, c).

(* ---- the unrepaired label arithmetic (vpn.rs / labeled.rs before the fix):
     let label_bits = (labels.encoded_len() * 8) as u8;
     if total_bits < label_bits + VPN_RD_BITS { Err }          (u8 addition) *)
Definition label_bits_v0 (nlabels : N) : N := trunc 8 (nlabels * 24).
Definition vpn_bits_ok_v0 (p : profile) (total nlabels : N) : option bool :=
  match add_w 8 p (label_bits_v0 nlabels) 64 with
  | None => None                                         (* attempt to add with overflow *)
  | Some s => Some (negb (total <? s))
  end.

Section Nlri.
  (* decoder of the families not modelled: family, is_reach, cursor -> the
     cursor after one NLRI, or None for an error *)
  Variable other_nlri : N -> bool -> list N -> option (list N).

  (* Nlri::decode *)
  Definition nlri_decode (fam : N) (is_reach : bool) (c : list N) (n : N) : res (nlri * list N) :=
    if (fam =? F_IPV4) || (fam =? F_IPV4_MC) then
      '(m, a, c) <- prefix_decode 32 4 c n ;; Ok (NV4 m a, c)
    else if (fam =? F_IPV6) || (fam =? F_IPV6_MC) then
      '(m, a, c) <- prefix_decode 128 16 c n ;; Ok (NV6 m a, c)
    else if fam =? F_IPV4_VPN then
      '(ls, rd, m, a, c) <- vpn_decode 32 4 c n ;; Ok (NVpn4 ls rd m a, c)
    else if fam =? F_IPV6_VPN then
      '(ls, rd, m, a, c) <- vpn_decode 128 16 c n ;; Ok (NVpn6 ls rd m a, c)
    else if fam =? F_IPV4_MPLS then
      '(ls, m, a, c) <- labeled_decode 32 4 is_reach c n ;; Ok (NLab4 ls m a, c)
    else if fam =? F_IPV6_MPLS then
      '(ls, m, a, c) <- labeled_decode 128 16 is_reach c n ;; Ok (NLab6 ls m a, c)
    else if fam =? F_EVPN then
      '(e, c) <- evpn_decode c ;; Ok (NEvpn e, c)
    else if fam =? F_RTC then
      '(e, c) <- rtc_decode c ;; Ok (NRtc e, c)
    else if (fam =? F_IPV4_SRP) || (fam =? F_IPV6_SRP) then
      '(e, c) <- srp_decode c ;; Ok (NSrp e, c)
    else if fam =? F_IPV4_FS then
      '(rd, comps, c) <- fs_decode false false c n ;; Ok (NFlow 0 rd comps, c)
    else if fam =? F_IPV6_FS then
      '(rd, comps, c) <- fs_decode false true c n ;; Ok (NFlow 1 rd comps, c)
    else if fam =? F_IPV4_FSVPN then
      '(rd, comps, c) <- fs_decode true false c n ;; Ok (NFlow 2 rd comps, c)
    else if fam =? F_IPV6_FSVPN then
      '(rd, comps, c) <- fs_decode true true c n ;; Ok (NFlow 3 rd comps, c)
    else if is_other_family fam then
      match other_nlri fam is_reach c with
      | Some c' => Ok (NOther, c')
      | None => Fail MAL
      end
    else Fail MAL.

  (* PeerCodec::decode_nlri *)
  Definition path_nlri_decode (fam : N) (addpath is_reach : bool) (c : list N) : res (N * nlri * list N) :=
    let n := len c in
    if addpath then
      if n <? 4 then Fail MAL else
      '(id, c) <- rm (get32 c) ;;
      '(x, c) <- nlri_decode fam is_reach c (n - 4) ;;
      Ok (id, x, c)
    else
      '(x, c) <- nlri_decode fam is_reach c n ;; Ok (0, x, c).

  (* PeerCodec::decode_nlri_list: while reader.remaining_len() > 0 *)
  Fixpoint nlri_list_fuel (fuel : nat) (fam : N) (addpath is_reach : bool) (c : list N)
           (acc : list (N * nlri)) : res (list (N * nlri)) :=
    match c with
    | [] => Ok (rev acc)
    | _ =>
      match fuel with
      | O => Panic FUEL
      | S f =>
        '(id, x, c') <- path_nlri_decode fam addpath is_reach c ;;
        nlri_list_fuel f fam addpath is_reach c' ((id, x) :: acc)
      end
    end.

  Definition nlri_list (fam : N) (addpath is_reach : bool) (c : list N) : res (list (N * nlri)) :=
    nlri_list_fuel (S (length c)) fam addpath is_reach c [].
End Nlri.

(* ------------------------------------------------------------ observation *)
Definition v_nlri (x : nlri) : val :=
  match x with
  | NV4 m a => VL [VN 0; VN m; VNs a]
  | NV6 m a => VL [VN 1; VN m; VNs a]
  | NLab4 l m a => VL [VN 2; VNs l; VN m; VNs a]
  | NLab6 l m a => VL [VN 3; VNs l; VN m; VNs a]
  | NVpn4 l r m a => VL [VN 4; VNs l; VNs r; VN m; VNs a]
  | NVpn6 l r m a => VL [VN 5; VNs l; VNs r; VN m; VNs a]
  | NEvpn e => VL [VN 10; VNs e]
  | NRtc e => VL [VN 11; VNs e]
  | NSrp e => VL [VN 12; VNs e]
  | NFlow k rd comps =>
    VL [VN 13; VN k; VNs rd;
        VList (fun x => match x with
                        | FPrefix t b o a => VL [VN t; VN 0; VN b; VN o; VNs a]
                        | FOps t ops => VL [VN t; VN 1; VList VPairN ops]
                        end) comps]
  | NOther => VL [VN 9]
  end.

Definition v_entries (l : list (N * nlri)) : val :=
  VList (fun e => VL [VN (fst e); v_nlri (snd e)]) l.
