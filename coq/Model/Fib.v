(* Executable model of the kernel-FIB / next-hop-tracking side of
   daemon/src/table_manager.rs, over an ABSTRACT view of table/src/lib.rs.
   No proofs in this file.

   What is modelled (function for function):
     TableManager::insert_route, remove_route, drop_families / unregister_peer
     (drop and stale arms), drop_stale_families, mark_llgr_stale,
     drop_llgr_stale_families, update_nexthop_validity, soft_reset_in,
     nht_register, TableShard::distribute_update (kernel part), and of the
     table crate what these need: Table::insert / remove / drop / drop_stale /
     drop_llgr_stale / drop_no_llgr / restale / restale_llgr /
     update_nexthop_validity / lookup_nexthop / collect_adj_in_paths,
     NlriChange::ecmp_paths, Destination::alloc_path_id, Vrf::can_import;
     of kernel/src/lib.rs the request channel and the reference counts kept
     by run_service_loop (in Spec/FibSpec.v, as the replay).

   Abstraction: a path's attributes are (rank class a_pref, LLGR_STALE / NO_LLGR
   community bits, route targets); the comparator RibEntry::cmp is its projection
   on (llgr-stale, a_pref, iBGP, stale, CLUSTER_LIST length, originator / router id)
   -- the harness realises a_pref by LOCAL_PREF / AS_PATH length / ORIGIN.
   Arc identity (attribute block, Source) is a token.  Hash-map iteration order
   is not modelled: per-destination work is independent and the request stream
   is compared per key.  [variant] selects the behaviour of distribute_update
   before ([Legacy]) and after ([Fixed]) the fix commit of finding C20-1/C20-2. *)
From Coq Require Import List NArith Bool.
From RB Require Import Base.Val.
Import ListNotations.
Open Scope N_scope.

(* (kind, id): 0 IPv4 unicast, 1 VPNv4 (id = 10 * RD + inner prefix), 2 the
   VRF-local form of a VPNv4 prefix (id = inner prefix: the RD is stripped),
   3 IPv6 unicast, 4 VPNv6, 5 the VRF-local form of a VPNv6 prefix *)
Definition prefix := (N * N)%type.
Definition is_vpn (p : prefix) : bool := (fst p =? 1) || (fst p =? 4).
(* table::vpn_to_local_nlri *)
Definition local_pfx (p : prefix) : prefix := (fst p + 1, snd p mod 10).
Definition pfx_eqb (a b : prefix) : bool := (fst a =? fst b) && (snd a =? snd b).
Definition src_eqb (a b : N * N) : bool := (fst a =? fst b) && (snd a =? snd b).
Definition memN (x : N) (l : list N) : bool := existsb (N.eqb x) l.
Definition memsrc (x : N * N) (l : list (N * N)) : bool := existsb (src_eqb x) l.
Definition optN_eqb (a b : option N) : bool :=
  match a, b with
  | None, None => true
  | Some x, Some y => x =? y
  | _, _ => false
  end.

(* a next hop as stored with a path (bgp::Nexthop): IPv4, 16-byte IPv6, or 32-byte
   IPv6 global + link-local.  Next-hop tracking, the unreachable set and the FIB
   work on its address ([Nexthop::addr]: the global part).  Address ids below 100
   stand for IPv4 addresses, the others for IPv6 addresses. *)
Inductive nexthop := NhV4 (a : N) | NhV6 (a : N) | NhV6LL (a l : N).
Definition nh_addr (n : nexthop) : N := match n with NhV4 a | NhV6 a | NhV6LL a _ => a end.
Definition nh_eqb (x y : nexthop) : bool :=
  match x, y with
  | NhV4 a, NhV4 b | NhV6 a, NhV6 b => a =? b
  | NhV6LL a l, NhV6LL b m => (a =? b) && (l =? m)
  | _, _ => false
  end.
Definition optnh_eqb (x y : option nexthop) : bool :=
  match x, y with
  | None, None => true
  | Some a, Some b => nh_eqb a b
  | _, _ => false
  end.
Definition oaddr (o : option nexthop) : option N :=
  match o with Some n => Some (nh_addr n) | None => None end.
Definition nh_of_addr (a : N) : nexthop := if a <? 100 then NhV4 a else NhV6 a.

Record attr := { a_pref : N; a_llgrc : bool; a_nollgr : bool; a_rts : list N;
                 a_clen : N;                (* CLUSTER_LIST length *)
                 a_oid : option N           (* ORIGINATOR_ID *) }.

Record entry := {
  e_peer : N;                 (* 0 = Source::local() *)
  e_sess : N;                 (* which Arc<Source> of that peer *)
  e_pid : N;                  (* remote path id *)
  e_lpid : N;                 (* local path id *)
  e_nhv : option nexthop;
  e_tok : N;                  (* Arc identity of the attribute block *)
  e_attr : attr;
  e_filt : bool;              (* FLAG_FILTERED *)
  e_inv : bool                (* FLAG_NEXTHOP_INVALID *)
}.

(* the address of a path's next hop *)
Definition e_nh (e : entry) : option N := oaddr (e_nhv e).

Record dest := { d_l : list entry; d_next : N }.
Definition dest0 : dest := {| d_l := []; d_next := 1 |}.

Inductive action := AAccept | AReject | ASetNh (a : N).

Record cfg := {
  c_peers : list (N * (N * bool));      (* peer -> (router id, iBGP?) *)
  c_attrs : list (N * attr);            (* token -> content *)
  c_vrfs : list (N * list N);           (* (kernel table id, import route targets); id 0 = no table *)
  c_pols : list (list (N * action))     (* import policies: first statement matching the neighbour *)
}.

Inductive variant := Legacy | Fixed.

Record flags := { f_stale : list (N * N); f_llgr : list (N * N) }.

Inductive req :=
| Apply (tbl : option N) (p : prefix) (nhs : list N)
| Reg (a : N)
| Unreg (a : N).

Record change := { ch_bc : bool; ch_ac : bool; ch_cur : list entry }.

Inductive op :=
| Insert (peer sess : N) (p : prefix) (pid : N) (nh : option nexthop) (tok : N)
| InsertLim (peer sess : N) (p : prefix) (pid : N) (nh : option nexthop) (tok : N) (max cnt : N)
    (* insert_route with a prefix limit [max] and the session's counter at [cnt] *)
| StartDef (f : N)                     (* start_deferral_families: family = prefix kind *)
| EndDef (f : N)                       (* end_deferral_families *)
| Remove (peer sess : N) (p : prefix) (pid : N)
| DropPeer (peer : N)
| MarkStale (peer : N)
| DropStale (peer : N)
| MarkLlgr (peer : N)
| DropLlgr (peer : N)
| NhValidity (a : N) (reachable : bool)
| SetPolicy (k : N)
| SoftResetIn (peer : N).

Record st := {
  s_keys : list prefix;            (* prefixes ever inserted (no duplicates) *)
  s_get : prefix -> dest;          (* empty list = no Destination *)
  s_fl : flags;
  s_inv : list N;                  (* TableManager.nexthop_invalid *)
  s_pol : N;                       (* 0 = no import policy, k = policy k-1 *)
  s_def : list N                   (* families in restarting-speaker deferral (Rib.deferring) *)
}.

Definition st0 : st :=
  {| s_keys := []; s_get := fun _ => dest0; s_fl := {| f_stale := []; f_llgr := [] |};
     s_inv := []; s_pol := 0; s_def := [] |}.

(* lexicographic comparison of equally long number lists *)
Fixpoint lcmp (a b : list N) : comparison :=
  match a, b with
  | [], [] => Eq
  | [], _ => Lt
  | _, [] => Gt
  | x :: a', y :: b' => match x ?= y with Eq => lcmp a' b' | r => r end
  end.

Fixpoint leqb (a b : list N) : bool :=
  match a, b with
  | [], [] => true
  | x :: a', y :: b' => (x =? y) && leqb a' b'
  | _, _ => false
  end.

Definition b2n (b : bool) : N := if b then 1 else 0.

Section WithCfg.
Variable c : cfg.
Variable v : variant.

Definition peer_info (p : N) : N * bool :=
  if p =? 0 then (0, true)
  else match find (fun x => fst x =? p) (c_peers c) with
       | Some x => snd x
       | None => (p, false)
       end.

Definition attr_of (tok : N) : attr :=
  match find (fun x => fst x =? tok) (c_attrs c) with
  | Some x => snd x
  | None => {| a_pref := 0; a_llgrc := false; a_nollgr := false; a_rts := []; a_clen := 0; a_oid := None |}
  end.

Definition esrc (e : entry) : N * N := (e_peer e, e_sess e).
Definition e_stale (fl : flags) (e : entry) : bool := memsrc (esrc e) (f_stale fl).
Definition e_srcllgr (fl : flags) (e : entry) : bool := memsrc (esrc e) (f_llgr fl).
Definition e_llgr (fl : flags) (e : entry) : bool := e_srcllgr fl e || a_llgrc (e_attr e).

(* decision steps before the router-id step: the ECMP key of ecmp_paths *)
Definition skey (fl : flags) (e : entry) : list N :=
  [b2n (e_llgr fl e); a_pref (e_attr e); b2n (snd (peer_info (e_peer e))); b2n (e_stale fl e);
   a_clen (e_attr e)].
(* RibEntry::originator_id: the ORIGINATOR_ID attribute, else the source's router id *)
Definition orig_id (e : entry) : N :=
  match a_oid (e_attr e) with Some o => o | None => fst (peer_info (e_peer e)) end.
(* RibEntry::cmp *)
Definition fkey (fl : flags) (e : entry) : list N := skey fl e ++ [orig_id e].

(* entry.cmp(a).is_ge() *)
Definition ege (fl : flags) (e a : entry) : bool :=
  match lcmp (fkey fl e) (fkey fl a) with Lt => false | _ => true end.

(* dst.entry.insert(dst.entry.partition_point(|a| entry.cmp(a).is_ge()), entry)
   on a list partitioned by the predicate (it is sorted: Proofs/Fib.v). *)
Fixpoint insert_sorted (fl : flags) (e : entry) (l : list entry) : list entry :=
  match l with
  | [] => [e]
  | a :: t => if ege fl e a then a :: insert_sorted fl e t else e :: l
  end.

(* sort_unstable on these short lists is an insertion sort that leaves equal
   elements in place *)
Definition isort (fl : flags) (l : list entry) : list entry :=
  fold_left (fun acc x => insert_sorted fl x acc) l [].

Definition elig (e : entry) : bool := negb (e_filt e) && negb (e_inv e).
Definition eligs (l : list entry) : list entry := filter elig l.
Definition best (l : list entry) : option entry := hd_error (eligs l).

(* (Arc::as_ptr(source), Arc::as_ptr(attr), nexthop) *)
Definition bk_eqb (a b : entry) : bool :=
  src_eqb (esrc a) (esrc b) && (e_tok a =? e_tok b) && optnh_eqb (e_nhv a) (e_nhv b).
Definition obk_eqb (a b : option entry) : bool :=
  match a, b with
  | None, None => true
  | Some x, Some y => bk_eqb x y
  | _, _ => false
  end.
Definition olp_eqb (a b : option entry) : bool :=
  match a, b with
  | None, None => true
  | Some x, Some y => e_lpid x =? e_lpid y
  | _, _ => false
  end.

Fixpoint takewhile {A} (f : A -> bool) (l : list A) : list A :=
  match l with
  | [] => []
  | a :: t => if f a then a :: takewhile f t else []
  end.

(* NlriChange::ecmp_paths on current_paths *)
Definition ecmp_code (fl : flags) (cur : list entry) : list entry :=
  match cur with
  | [] => []
  | b :: _ => takewhile (fun p => leqb (skey fl p) (skey fl b)) cur
  end.

Fixpoint nhs_of (l : list entry) : list N :=
  match l with
  | [] => []
  | e :: t => match e_nh e with Some a => a :: nhs_of t | None => nhs_of t end
  end.

Definition can_import (imp : list N) (a : attr) : bool :=
  existsb (fun r => memN r imp) (a_rts a).

(* TableShard::distribute_update, kernel part *)
Definition distribute (fl : flags) (p : prefix) (ch : change) : list req :=
  let emit := match v with Legacy => ch_bc ch | Fixed => ch_bc ch || ch_ac ch end in
  if negb emit then [] else
  let nh := nhs_of (ecmp_code fl (ch_cur ch)) in
  Apply None p nh ::
  (if is_vpn p then
     flat_map (fun vr : N * list N =>
       if fst vr =? 0 then [] else
       let importable := match ch_cur ch with
                         | b :: _ => can_import (snd vr) (e_attr b)
                         | [] => false
                         end in
       match v with
       | Legacy => if (match nh with [] => true | _ => false end) || importable
                   then [Apply (Some (fst vr)) (local_pfx p) nh] else []
       | Fixed => [Apply (Some (fst vr)) (local_pfx p) (if importable then nh else [])]
       end) (c_vrfs c)
   else []).

Definition distribute_opt (fl : flags) (p : prefix) (ch : option change) : list req :=
  match ch with Some x => distribute fl p x | None => [] end.

(* Destination::alloc_path_id *)
Definition used_lpid (l : list entry) (id : N) : bool := existsb (fun e => e_lpid e =? id) l.
Fixpoint alloc_loop (fuel : nat) (l : list entry) (next : N) : N * N :=
  let id := next in
  let n1 := (next + 1) mod 4294967296 in
  let n2 := if n1 =? 0 then 1 else n1 in
  match fuel with
  | O => (id, n2)
  | S f => if used_lpid l id then alloc_loop f l n2 else (id, n2)
  end.
Definition alloc_path_id (l : list entry) (next : N) : N * N :=
  alloc_loop (S (length l)) l (match l with [] => 1 | _ => next end).

Definition same_path (peer pid : N) (e : entry) : bool := (e_peer e =? peer) && (e_pid e =? pid).
Fixpoint remove_first {A} (f : A -> bool) (l : list A) : list A :=
  match l with
  | [] => []
  | a :: t => if f a then t else a :: remove_first f t
  end.

(* Table::insert (no prefix limit, not deferring) *)
Definition do_insert (fl : flags) (d : dest) (src : N * N) (pid : N) (nh : option nexthop) (tok : N)
           (at_ : attr) (filtered inv : bool) : dest * option change :=
  let l := d_l d in
  let old := best l in
  let repl := find (same_path (fst src) pid) l in
  let l1 := remove_first (same_path (fst src) pid) l in
  let '(lpid, next') := match repl with
                        | Some r => (e_lpid r, d_next d)
                        | None => alloc_path_id l1 (d_next d)
                        end in
  let e := {| e_peer := fst src; e_sess := snd src; e_pid := pid; e_lpid := lpid; e_nhv := nh;
              e_tok := tok; e_attr := at_; e_filt := filtered; e_inv := inv |} in
  let l2 := insert_sorted fl e l1 in
  let bc := negb (obk_eqb old (best l2)) in
  let ac := negb filtered || match repl with Some r => negb (e_filt r) | None => false end in
  ({| d_l := l2; d_next := next' |},
   if bc || ac then Some {| ch_bc := bc; ch_ac := ac; ch_cur := eligs l2 |} else None).

(* Table::remove *)
Definition do_remove (d : dest) (peer pid : N) : dest * option change * option entry :=
  let l := d_l d in
  match find (same_path peer pid) l with
  | None => (d, None, None)
  | Some r =>
    let old := best l in
    let l1 := remove_first (same_path peer pid) l in
    match l1 with
    | [] => (dest0,
             if negb (e_filt r) then Some {| ch_bc := true; ch_ac := true; ch_cur := [] |} else None,
             Some r)
    | _ =>
      let bc := negb (obk_eqb old (best l1)) in
      let ac := negb (e_filt r) in
      ({| d_l := l1; d_next := d_next d |},
       if bc || ac then Some {| ch_bc := bc; ch_ac := ac; ch_cur := eligs l1 |} else None,
       Some r)
    end
  end.

(* Table::drop / drop_stale / drop_llgr_stale / drop_no_llgr for one destination:
   [sel] picks the paths to delete; also returns the next hops of the deleted paths *)
Definition do_purge (sel : entry -> bool) (d : dest) : dest * option change * list N :=
  let l := d_l d in
  let keep := filter (fun e => negb (sel e)) l in
  let old := best l in
  let any_elig := existsb (fun e => sel e && elig e) l in
  let ch := if negb any_elig then None
            else match keep with
                 | [] => Some {| ch_bc := true; ch_ac := true; ch_cur := [] |}
                 | _ => Some {| ch_bc := negb (olp_eqb old (best keep)); ch_ac := true;
                                ch_cur := eligs keep |}
                 end in
  (match keep with [] => dest0 | _ => {| d_l := keep; d_next := d_next d |} end,
   ch, nhs_of (filter sel l)).

(* Table::restale / restale_llgr for one destination, [fl'] = flags after marking *)
Definition do_restale (fl' : flags) (peer : N) (d : dest) : dest * option change :=
  let l := d_l d in
  if negb (existsb (fun e => e_peer e =? peer) l) then (d, None) else
  let old := best l in
  let any_unf := existsb (fun e => (e_peer e =? peer) && negb (e_filt e)) l in
  let l' := isort fl' l in
  let bc := negb (olp_eqb old (best l')) in
  ({| d_l := l'; d_next := d_next d |},
   if bc || any_unf then Some {| ch_bc := bc; ch_ac := any_unf; ch_cur := eligs l' |} else None).

(* Table::restale_llgr for one destination: one change per eligible path of the
   marked peer (each names one replaced path and carries the same path list), the
   first flagged best_changed when the best moved or is itself a marked path *)
Definition do_restale_llgr (fl' : flags) (peer : N) (d : dest) : dest * list change :=
  let l := d_l d in
  if negb (existsb (fun e => e_peer e =? peer) l) then (d, []) else
  let old := best l in
  let any_unf := existsb (fun e => (e_peer e =? peer) && negb (e_filt e)) l in
  let l' := isort fl' l in
  let marked := filter (fun e => e_peer e =? peer) (eligs l') in
  let best_marked := match best l', marked with
                     | Some b, m :: _ => e_lpid m =? e_lpid b
                     | _, _ => false
                     end in
  let bc := negb (olp_eqb old (best l')) || best_marked in
  ({| d_l := l'; d_next := d_next d |},
   if bc || any_unf then
     match marked with
     | [] => [{| ch_bc := bc; ch_ac := any_unf; ch_cur := eligs l' |}]
     | _ :: rest => {| ch_bc := bc; ch_ac := true; ch_cur := eligs l' |} ::
                    map (fun _ => {| ch_bc := false; ch_ac := true; ch_cur := eligs l' |}) rest
     end
   else []).

Definition nh_is (a : N) (e : entry) : bool := optN_eqb (e_nh e) (Some a).
Definition set_inv (b : bool) (e : entry) : entry :=
  {| e_peer := e_peer e; e_sess := e_sess e; e_pid := e_pid e; e_lpid := e_lpid e; e_nhv := e_nhv e;
     e_tok := e_tok e; e_attr := e_attr e; e_filt := e_filt e; e_inv := b |}.

(* Table::update_nexthop_validity for one destination *)
Definition do_validity (a : N) (reachable : bool) (d : dest) : dest * option change :=
  let l := d_l d in
  let old := best l in
  let changed := existsb (fun e => nh_is a e && negb (Bool.eqb (e_inv e) (negb reachable))) l in
  if negb changed then (d, None) else
  let l' := map (fun e => if nh_is a e then set_inv (negb reachable) e else e) l in
  ({| d_l := l'; d_next := d_next d |},
   Some {| ch_bc := negb (obk_eqb old (best l')); ch_ac := true; ch_cur := eligs l' |}).

(* import policy: first statement whose neighbour condition matches *)
Definition pol_act (pol : N) (peer : N) : action :=
  if pol =? 0 then AAccept else
  match nth_error (c_pols c) (N.to_nat (pol - 1)) with
  | None => AAccept
  | Some rules => match find (fun x => fst x =? peer) rules with
                  | Some x => snd x
                  | None => AAccept
                  end
  end.
Definition apply_import (pol peer : N) (nh : option nexthop) : bool * option nexthop :=
  match pol_act pol peer with
  | AAccept => (false, nh)
  | AReject => (true, nh)
  | ASetNh a => (false, Some (nh_of_addr a))
  end.

Definition opt_reg (o : option N) : list req := match o with Some a => [Reg a] | None => [] end.
Definition opt_unreg (o : option N) : list req := match o with Some a => [Unreg a] | None => [] end.

(* nht_register *)
Definition nht_register (peer : N) (new_nh old_nh : option N) : list req :=
  if peer =? 0 then [] else opt_reg new_nh ++ opt_unreg old_nh.

Definition lookup_nexthop (d : dest) (peer pid : N) : option N :=
  match find (same_path peer pid) (d_l d) with Some e => e_nh e | None => None end.

(* one path of TableShard::soft_reset_in *)
Definition reset_one (fl : flags) (inv : list N) (pol : N) (p : prefix) (acc : dest * list req) (e0 : entry)
  : dest * list req :=
  let d := fst acc in
  let peer := e_peer e0 in
  let old_nh := lookup_nexthop d peer (e_pid e0) in
  let '(filtered, nh) := apply_import pol peer (e_nhv e0) in
  let invf := match oaddr nh with Some a => memN a inv | None => false end in
  let nht := if negb (peer =? 0) && negb (optN_eqb old_nh (oaddr nh))
             then opt_reg (oaddr nh) ++ opt_unreg old_nh else [] in
  let '(d', ch) := do_insert fl d (esrc e0) (e_pid e0) nh (e_tok e0) (e_attr e0) filtered invf in
  (d', snd acc ++ nht ++ distribute_opt fl p ch).

Definition do_reset (fl : flags) (inv : list N) (pol : N) (peer : N) (p : prefix) (d : dest) : dest * list req :=
  let snap := filter (fun e => (e_peer e =? peer) && negb (e_stale fl e)) (d_l d) in
  fold_left (reset_one fl inv pol p) snap (d, []).

Definition upd (p : prefix) (d : dest) (g : prefix -> dest) : prefix -> dest :=
  fun q => if pfx_eqb q p then d else g q.
Definition add_key (p : prefix) (ks : list prefix) : list prefix :=
  if existsb (pfx_eqb p) ks then ks else p :: ks.

(* every Source of [peer] that has a path in the table *)
Definition srcs_of (s : st) (peer : N) : list (N * N) :=
  flat_map (fun p => map esrc (filter (fun e => e_peer e =? peer) (d_l (s_get s p)))) (s_keys s).

(* while a family is in deferral its table reports no change (Table::insert returns
   NoChange, the purges clear their change lists ...): no FIB request for its
   prefixes; next-hop registrations are not affected *)
Definition is_apply (r : req) : bool := match r with Apply _ _ _ => true | _ => false end.
Definition gate (def : list N) (p : prefix) (rq : list req) : list req :=
  if memN (fst p) def then filter (fun r => negb (is_apply r)) rq else rq.

(* a per-destination pass over the whole table *)
Definition sweep (s : st) (fl' : flags) (f : prefix -> dest -> dest * list req) : st * list req :=
  ({| s_keys := s_keys s; s_get := fun p => fst (f p (s_get s p)); s_fl := fl';
      s_inv := s_inv s; s_pol := s_pol s; s_def := s_def s |},
   flat_map (fun p => gate (s_def s) p (snd (f p (s_get s p)))) (s_keys s)).

Definition purge_pass (s : st) (sel : entry -> bool) : st * list req :=
  sweep s (s_fl s) (fun p d =>
    let '(d', ch, nhl) := do_purge sel d in
    (d', distribute_opt (s_fl s) p ch ++ map Unreg nhl)).

(* insert_route; [inv_seen] is the set of unreachable next hops it consults: since the
   fix of finding C20-4 the set is read inside the shard lock ([s_inv s]); before, it was
   read before the lock was taken, possibly before a reachability report that was
   applied to the shard first (run_race below) *)
Definition step_ins_with (s : st) (inv_seen : list N) (peer sess : N) (p : prefix) (pid : N) (nh0 : option nexthop) (tok : N) : st * list req :=
    let d := s_get s p in
    let old_nh := lookup_nexthop d peer pid in
    let '(filtered, nh) := apply_import (s_pol s) peer nh0 in
    let invf := match oaddr nh with Some a => memN a inv_seen | None => false end in
    let '(d', ch) := do_insert (s_fl s) d (peer, sess) pid nh tok (attr_of tok) filtered invf in
    ({| s_keys := add_key p (s_keys s); s_get := upd p d' (s_get s); s_fl := s_fl s;
        s_inv := s_inv s; s_pol := s_pol s; s_def := s_def s |},
     gate (s_def s) p (nht_register peer (oaddr nh) old_nh ++ distribute_opt (s_fl s) p ch)).

Definition step_ins (s : st) (peer sess : N) (p : prefix) (pid : N) (nh0 : option nexthop) (tok : N) : st * list req :=
  step_ins_with s (s_inv s) peer sess p pid nh0 tok.

(* Table::insert's prefix-limit test: a peer's first path for a prefix is refused
   (before anything is registered or installed) when its counter has reached the limit *)
Definition limit_refuses (s : st) (peer : N) (p : prefix) (max cnt : N) : bool :=
  negb (existsb (fun e => e_peer e =? peer) (d_l (s_get s p))) && (max <=? cnt).

Definition step (s : st) (o : op) : st * list req :=
  match o with
  | Insert peer sess p pid nh0 tok => step_ins s peer sess p pid nh0 tok
  | InsertLim peer sess p pid nh0 tok max cnt =>
    if limit_refuses s peer p max cnt then (s, []) else step_ins s peer sess p pid nh0 tok
  | StartDef f =>
    ({| s_keys := s_keys s; s_get := s_get s; s_fl := s_fl s; s_inv := s_inv s; s_pol := s_pol s;
        s_def := f :: s_def s |}, [])
  | EndDef f =>
    (* Table::end_deferral: every destination of the family is reported as changed *)
    ({| s_keys := s_keys s; s_get := s_get s; s_fl := s_fl s; s_inv := s_inv s; s_pol := s_pol s;
        s_def := filter (fun x => negb (x =? f)) (s_def s) |},
     flat_map (fun p => if (fst p =? f) && negb (match d_l (s_get s p) with [] => true | _ => false end)
                        then distribute (s_fl s) p {| ch_bc := true; ch_ac := true; ch_cur := eligs (d_l (s_get s p)) |}
                        else []) (s_keys s))
  | Remove peer sess p pid =>
    let '(d', ch, r) := do_remove (s_get s p) peer pid in
    ({| s_keys := s_keys s; s_get := upd p d' (s_get s); s_fl := s_fl s;
        s_inv := s_inv s; s_pol := s_pol s; s_def := s_def s |},
     gate (s_def s) p
       (distribute_opt (s_fl s) p ch ++
        match r with
        | Some e => if peer =? 0 then [] else opt_unreg (e_nh e)
        | None => []
        end))
  | DropPeer peer => purge_pass s (fun e => e_peer e =? peer)
  | DropStale peer => purge_pass s (fun e => (e_peer e =? peer) && e_stale (s_fl s) e)
  | DropLlgr peer => purge_pass s (fun e => (e_peer e =? peer) && e_srcllgr (s_fl s) e)
  | MarkStale peer =>
    let fl' := {| f_stale := srcs_of s peer ++ f_stale (s_fl s); f_llgr := f_llgr (s_fl s) |} in
    sweep s fl' (fun p d => let '(d', ch) := do_restale fl' peer d in (d', distribute_opt fl' p ch))
  | MarkLlgr peer =>
    let fl' := {| f_stale := f_stale (s_fl s); f_llgr := srcs_of s peer ++ f_llgr (s_fl s) |} in
    let '(s1, r1) := sweep s fl' (fun p d =>
                       let '(d', chs) := do_restale_llgr fl' peer d in
                       (d', flat_map (distribute fl' p) chs)) in
    let '(s2, r2) := purge_pass s1 (fun e => (e_peer e =? peer) && a_nollgr (e_attr e)) in
    (s2, r1 ++ r2)
  | NhValidity a reachable =>
    let inv' := if reachable then filter (fun x => negb (x =? a)) (s_inv s)
                else if memN a (s_inv s) then s_inv s else a :: s_inv s in
    let '(s1, r) := sweep s (s_fl s) (fun p d =>
                      let '(d', ch) := do_validity a reachable d in (d', distribute_opt (s_fl s) p ch)) in
    ({| s_keys := s_keys s1; s_get := s_get s1; s_fl := s_fl s1; s_inv := inv'; s_pol := s_pol s1; s_def := s_def s1 |}, r)
  | SetPolicy k =>
    ({| s_keys := s_keys s; s_get := s_get s; s_fl := s_fl s; s_inv := s_inv s; s_pol := k; s_def := s_def s |}, [])
  | SoftResetIn peer =>
    sweep s (s_fl s) (do_reset (s_fl s) (s_inv s) (s_pol s) peer)
  end.

Fixpoint run (s : st) (ops : list op) : st * list req :=
  match ops with
  | [] => (s, [])
  | o :: t => let '(s1, r1) := step s o in
              let '(s2, r2) := run s1 t in (s2, r1 ++ r2)
  end.

(* ---- printers *)
Definition v_pfx (p : prefix) : val := VL [VN (fst p); VN (snd p)].
Definition v_req (r : req) : val :=
  match r with
  | Apply t p nh => VL [VN 0; VOpt VN t; v_pfx p; VNs nh]
  | Reg a => VL [VN 1; VN a]
  | Unreg a => VL [VN 2; VN a]
  end.
Definition v_nh (n : nexthop) : val :=
  match n with
  | NhV4 a => VL [VN 0; VN a]
  | NhV6 a => VL [VN 1; VN a]
  | NhV6LL a l => VL [VN 2; VN a; VN l]
  end.
Definition v_entry (e : entry) : val :=
  VL [VN (e_peer e); VN (e_sess e); VN (e_pid e); VOpt v_nh (e_nhv e); VN (e_tok e); VB (negb (e_filt e))].
Definition v_elig (fl : flags) (e : entry) : val :=
  VL [VN (e_peer e); VN (e_sess e); VOpt v_nh (e_nhv e); VN (e_tok e); VB (e_stale fl e); VB (e_srcllgr fl e)].
Definition v_view (s : st) : val :=
  VL (flat_map (fun p =>
        match d_l (s_get s p) with
        | [] => []
        | l => [VL [v_pfx p; VList v_entry l; VList (v_elig (s_fl s)) (eligs l)]]
        end) (s_keys s)).

Fixpoint observe (s : st) (ops : list op) : list val :=
  match ops with
  | [] => []
  | o :: t => let '(s1, r) := step s o in
              VL [VList v_req r; v_view s1] :: observe s1 t
  end.

End WithCfg.

Definition run_case (v : variant) (c : cfg) (ops : list op) : val := VL (observe c v st0 ops).

(* an insert_route racing reachability reports: after the history [pre] the inserting
   thread runs up to its shard-lock acquisition, another thread performs [mids]
   completely, then the insert takes the lock.  [early = true] is the code before the
   fix of finding C20-4 (unreachable set loaded before the lock). *)
Definition run_race (early : bool) (c : cfg) (pre : list op)
           (peer sess : N) (p : prefix) (pid : N) (nh : option nexthop) (tok : N) (mids : list op) : val :=
  let '(s0, _) := run c Fixed st0 pre in
  let '(s1, r1) := run c Fixed s0 mids in
  let '(s2, r2) := step_ins_with c Fixed s1 (if early then s_inv s0 else s_inv s1) peer sess p pid nh tok in
  VL (observe c Fixed st0 pre ++ [VL [VList v_req (r1 ++ r2); v_view s2]]).

(* ---- kernel/src/lib.rs run_service_loop, the RegisterNexthop / UnregisterNexthop
   arms: [watched : HashMap<IpAddr, u32>] (an absent address counts 0) and the
   NexthopUpdate emitted by the registration that makes an address watched.
   (The u32 counter cannot overflow below 2^32 simultaneous registrations.) *)
Definition svc_step (acc : (N -> N) * list N) (r : req) : (N -> N) * list N :=
  let w := fst acc in
  match r with
  | Reg a => let n := w a + 1 in
             (fun b => if b =? a then n else w b, snd acc ++ (if n =? 1 then [a] else []))
  | Unreg a => (fun b => if b =? a then (if w a <=? 1 then 0 else w a - 1) else w b, snd acc)
  | Apply _ _ _ => acc
  end.
Definition svc_run (reqs : list req) : (N -> N) * list N := fold_left svc_step reqs (fun _ => 0, []).
Definition run_ref (reqs : list req) : val := VNs (snd (svc_run reqs)).
