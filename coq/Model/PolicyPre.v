(* The anchored code BEFORE the fix: commits recorded in known_findings.json
   (C14-2 .. C14-8): the functions of table/src/policy.rs and packet/src/bgp.rs
   as they stood at the base revision, transcribed the same way as
   Model/Policy.v.  Kept so that the findings stay machine-checked: the
   [_refuted] lemmas of Proofs/PolicyPre.v are about these definitions, and
   each witness was replayed on the real code before it was repaired.
   No proofs in this file. *)
From Coq Require Import List NArith ZArith Bool.
From RB Require Import Base.Val Model.Policy.
Import ListNotations.
Open Scope N_scope.

(* C14-2: Condition::Prefix used longest_match(addr) and tested only that
   entry's range *)
Definition longest (w addr : N) (l : list pent) : option pent :=
  fold_left (fun best e =>
               if key_matches w addr e then
                 match best with
                 | Some b => if pe_mask b <? pe_mask e then Some e else best
                 | None => Some e
                 end
               else best) l None.

Definition pents_match_pre (w addr m : N) (l : list pent) : bool :=
  match longest w addr l with
  | Some e => in_range (pe_min e) (pe_max e) m
  | None => false
  end.

Definition pset_matched_pre (p : pset) (n : nlri) : bool :=
  match n with
  | NV4 a m => zero_match (ps_zero p) m || pents_match_pre 32 a m (ps_v4 p)
  | NV6 a m => zero_match (ps_zero6 p) m || pents_match_pre 128 a m (ps_v6 p)
  end.

(* C14-3: SingleAsPathMatch::is_match indexed v[last][len-1] / v[0][0] *)
Definition single_match_pre (s : single) (segs : list (list N)) : res bool :=
  let a := sg_a s in
  let b := sg_b s in
  let last_as :=
    match rev segs with
    | [] => Ok None
    | lastseg :: _ => match rev lastseg with
                      | [] => Panic P_OVERFLOW          (* len() - 1 on an empty segment *)
                      | x :: _ => Ok (Some x)
                      end
    end in
  match sg_kind s with
  | 0 => Ok (existsb (fun x => x =? a) (concat segs))
  | 4 => Ok (existsb (in_rng a b) (concat segs))
  | 1 => Ok (match segs with (x :: _) :: _ => x =? a | _ => false end)
  | 5 => Ok (match segs with (x :: _) :: _ => in_rng a b x | _ => false end)
  | 2 => do o <- last_as; Ok (match o with Some x => x =? a | None => false end)
  | 6 => do o <- last_as; Ok (match o with Some x => in_rng a b x | None => false end)
  | 3 => Ok (match segs with [[x]] => x =? a | _ => false end)
  | 7 => Ok (match segs with [[x]] => in_rng a b x | _ => false end)
  | _ => Ok false
  end.

(* C14-4: Condition::AsPath returned (opt == Any) on the first match and
   (opt != Any) otherwise: ALL behaved as INVERT *)
Fixpoint any_single_pre (l : list single) (segs : list (list N)) : res bool :=
  match l with
  | [] => Ok false
  | s :: r => do b <- single_match_pre s segs; if b then Ok true else any_single_pre r segs
  end.

Definition cond_aspath_pre (o : mopt) (s : apset) (segs : list (list N)) : res bool :=
  do m <- any_single_pre (ap_single s) segs;
  Ok (match o with MAny => m | _ => negb m end).

(* C14-5: parse_community took the enum discriminant of a well-known name *)
Definition well_known_pre (idx : N) : N := idx.
Definition well_known_value (idx : N) : N :=
  match idx with
  | 0 => 4294901760 | 1 => 4294901761 | 2 => 4294901766 | 3 => 4294901767 | 4 => 4294902426
  | 5 => 4294967041 | 6 => 4294967042 | 7 => 4294967043 | _ => 4294967044
  end.

(* C14-6: the MED mod action added in i64 unchecked *)
Definition wrap_i64 (z : Z) : Z := ((z + 2 ^ 63) mod 2 ^ 64 - 2 ^ 63)%Z.
Definition med_mod_pre (pr : profile) (cur : N) (v : Z) : res N :=
  let s := (Z.of_N cur + v)%Z in
  if ((- 2 ^ 63 <=? s) && (s <=? 2 ^ 63 - 1))%Z then Ok (clamp_u32 s)
  else match pr with Debug => Panic P_OVERFLOW | Release => Ok (clamp_u32 (wrap_i64 s)) end.

(* C14-7: as_path_length hit unreachable!() / read_u8().unwrap(), and
   as_path_prepend indexed buf[1], on an AS_PATH only the API can produce *)
Fixpoint aslen_loop_pre (fuel : nat) (b : list N) (acc : N) : res N :=
  match fuel with
  | O => Ok acc
  | S f =>
      match b with
      | [] => Ok acc
      | _ :: [] => Panic P_READ_U8
      | t :: l :: r =>
          do acc' <- (if t =? SEG_SET then Ok (acc + 1)
                      else if t =? SEG_SEQ then Ok (acc + l)
                      else if (t =? SEG_CONFED_SEQ) || (t =? SEG_CONFED_SET) then Ok acc
                      else Panic P_UNREACHABLE);
          aslen_loop_pre f (skipn (N.to_nat (4 * l)) r) acc'
      end
  end.

Definition prepend_pre (seg : N) (b : list N) (asn : N) : res (list N) :=
  match b with
  | [] => Ok (seg :: 1 :: u32_bytes asn)
  | _ :: [] => Panic P_INDEX
  | b0 :: b1 :: r => if (b0 =? seg) && (b1 <? 255) then Ok (b0 :: (b1 + 1) :: u32_bytes asn ++ r)
                     else Ok (seg :: 1 :: u32_bytes asn ++ b)
  end.

(* C14-hops (repaired upstream of this unit): the hop count was accumulated in u8 *)
Fixpoint aslen_u8_pre (pr : profile) (fuel : nat) (b : list N) (acc : N) : res N :=
  match fuel with
  | O => Ok acc
  | S f =>
      match b with
      | t :: l :: r =>
          let add := if t =? SEG_SET then 1 else if t =? SEG_SEQ then l else 0 in
          do acc' <- (if acc + add <? 256 then Ok (acc + add)
                      else match pr with Debug => Panic P_OVERFLOW | Release => Ok ((acc + add) mod 256) end);
          aslen_u8_pre pr f (skipn (N.to_nat (4 * l)) r) acc'
      | _ => Ok acc
      end
  end.

(* C14-1: Condition::AsPath looked only at single_sets; the compiled general
   patterns (AsPathSet::sets) were never evaluated *)
Definition cond_aspath_noregex_pre (o : mopt) (s : apset) (segs : list (list N)) : bool :=
  match o with
  | MAny => existsb (fun m => single_match m segs) (ap_single s)
  | MAll => forallb (fun m => single_match m segs) (ap_single s)
  | MInvert => negb (existsb (fun m => single_match m segs) (ap_single s))
  end.
