(* C17  Model of the gRPC API boundary of daemon/src/convert.rs.

   What is modelled (function for function, panics as values):
     packet/src/bgp.rs   Attribute::{canonical_flags, new_with_value, new_with_bin,
                         new_opaque, value, binary, decode (four-octet-AS form),
                         as_path_length, encode}, the per-attribute admission
                         logic of the UPDATE arm of PeerCodec::parse_message,
                         IpNet::from_str / Nlri::from_str
     daemon/src/convert.rs  attr_to_api, attr_from_api (core kinds), read_extcom,
                         write_extcom, ensure_u8/u16, nlri_to_api / net_from_api
                         (Prefix, LabeledPrefix arms)
     table/src/lib.rs    PathAttribute::{attr_local_preference, attr_origin,
                         attr_originator_id, attr_cluster_list_length,
                         attr_as_path_length}, has_llgr_stale_community,
                         impl Ord for RibEntry (one comparison, as Table::insert
                         performs against a destination holding one path)
     daemon/src/event/grpc.rs  GrpcService::local_path (attribute assembly)
   Strings are lists of byte values.  Ipv4Addr Display/FromStr are modelled
   exactly; the Ipv6Addr textual form enters as the Section variables
   [v6_to_string]/[v6_of_string] (contract stated in Proofs/Api.v, exercised by the
   correspondence run with the instance at the end of this file).
   No proofs here. *)
From Coq Require Import List ZArith NArith Bool.
From RB Require Import Base.Val.
Import ListNotations.
Open Scope N_scope.

(* ------------------------------------------------------------------ *)
(* results: a Rust panic is a value                                    *)
Inductive res (A : Type) : Type :=
| Ok (a : A)
| Panic (tag : N).
Arguments Ok {A} a.
Arguments Panic {A} tag.

(* panic tags *)
Definition P_VALUE_UNWRAP : N := 1.   (* Attribute::value().unwrap() on Bin/Opaque *)
Definition P_BINARY_UNWRAP : N := 2.  (* Attribute::binary().unwrap() on Val *)
Definition P_READ_EOF : N := 3.       (* Cursor read_*().unwrap() past the end *)
Definition P_UNREACHABLE : N := 4.    (* unreachable!() *)
Definition P_ASSERT : N := 6.         (* assert_eq! *)
Definition P_FUEL : N := 99.          (* model artefact: loop fuel exhausted (proved impossible) *)

Definition bind {A B} (r : res A) (f : A -> res B) : res B :=
  match r with Ok a => f a | Panic t => Panic t end.
Notation "x <- r ;; k" := (bind r (fun x => k)) (at level 61, r at next level, right associativity).

(* ------------------------------------------------------------------ *)
(* the internal attribute (packet::bgp::Attribute)                     *)
Inductive adata : Type :=
| DVal (v : N)
| DBin (b : list N)
| DOpaque (b : list N).

Record attr : Type := mkAttr { a_code : N; a_flags : N; a_data : adata }.

Definition FLAG_EXTENDED : N := 16.
Definition FLAG_PARTIAL : N := 32.
Definition FLAG_TRANSITIVE : N := 64.
Definition FLAG_OPTIONAL : N := 128.

Definition ORIGIN : N := 1.
Definition AS_PATH : N := 2.
Definition NEXTHOP : N := 3.
Definition MULTI_EXIT_DESC : N := 4.
Definition LOCAL_PREF : N := 5.
Definition ATOMIC_AGGREGATE : N := 6.
Definition AGGREGATOR : N := 7.
Definition COMMUNITY : N := 8.
Definition ORIGINATOR_ID : N := 9.
Definition CLUSTER_LIST : N := 10.
Definition MP_REACH : N := 14.
Definition MP_UNREACH : N := 15.
Definition EXTENDED_COMMUNITY : N := 16.
Definition AS4_PATH : N := 17.
Definition AS4_AGGREGATOR : N := 18.
Definition TUNNEL_ENCAP : N := 23.
Definition AIGP : N := 26.
Definition LS : N := 29.
Definition LARGE_COMMUNITY : N := 32.
Definition PREFIX_SID : N := 40.

(* Attribute::canonical_flags (a table lookup: the match of the Rust source) *)
Definition canon_table : list (N * N) :=
  [(1, 64); (2, 64); (3, 64); (4, 128); (5, 64); (6, 64); (7, 192); (8, 192); (9, 128); (10, 128);
   (14, 128); (15, 128); (16, 192); (17, 192); (18, 192); (26, 128); (32, 192); (40, 192); (29, 128);
   (23, 192)].

Fixpoint assoc (c : N) (l : list (N * N)) : option N :=
  match l with
  | [] => None
  | (k, v) :: r => if c =? k then Some v else assoc c r
  end.

Definition canonical_flags (code : N) : option N := assoc code canon_table.

Definition new_with_value (code v : N) : option attr :=
  match canonical_flags code with
  | Some f => Some (mkAttr code f (DVal v))
  | None => None
  end.

Definition new_with_bin (code : N) (b : list N) : option attr :=
  match canonical_flags code with
  | Some f => Some (mkAttr code f (DBin b))
  | None => None
  end.

Definition new_opaque (code flags : N) (b : list N) : attr := mkAttr code flags (DOpaque b).

Definition value_unwrap (a : attr) : res N :=
  match a_data a with DVal v => Ok v | _ => Panic P_VALUE_UNWRAP end.

Definition binary_unwrap (a : attr) : res (list N) :=
  match a_data a with DVal _ => Panic P_BINARY_UNWRAP | DBin b | DOpaque b => Ok b end.

(* ------------------------------------------------------------------ *)
(* bytes                                                               *)
Definition be16 (v : N) : list N := [(v / 256) mod 256; v mod 256].
Definition be32 (v : N) : list N :=
  [(v / 16777216) mod 256; (v / 65536) mod 256; (v / 256) mod 256; v mod 256].
Definition of_be16 (a b : N) : N := a * 256 + b.
Definition of_be32 (a b c d : N) : N := a * 16777216 + b * 65536 + c * 256 + d.

Definition of_bytes (l : list N) : N := fold_left (fun acc b => acc * 256 + b) l 0.
Fixpoint to_bytes (k : nat) (v : N) : list N :=
  match k with
  | O => []
  | S k' => to_bytes k' (v / 256) ++ [v mod 256]
  end.

Definition read_u8 (l : list N) : res (N * list N) :=
  match l with b :: r => Ok (b, r) | [] => Panic P_READ_EOF end.
Definition read_u32 (l : list N) : res (N * list N) :=
  match l with a :: b :: c :: d :: r => Ok (of_be32 a b c d, r) | _ => Panic P_READ_EOF end.

Fixpoint read_n_u32 (n : nat) (l : list N) : res (list N * list N) :=
  match n with
  | O => Ok ([], l)
  | S k =>
      match read_u32 l with
      | Ok (v, r) =>
          match read_n_u32 k r with
          | Ok (vs, r') => Ok (v :: vs, r')
          | Panic t => Panic t
          end
      | Panic t => Panic t
      end
  end.

Fixpoint chunks (k : nat) (n : nat) (l : list N) : list (list N) :=
  match n with
  | O => []
  | S n' => firstn k l :: chunks k n' (skipn k l)
  end.

Fixpoint list_eqb (a b : list N) : bool :=
  match a, b with
  | [], [] => true
  | x :: a', y :: b' => (x =? y) && list_eqb a' b'
  | _, _ => false
  end.

(* ------------------------------------------------------------------ *)
(* Ipv4Addr: Display and FromStr (exact)                                *)
Definition digit (d : N) : N := 48 + d.
Definition dec_octet (o : N) : list N :=
  if o <? 10 then [digit o]
  else if o <? 100 then [digit (o / 10); digit (o mod 10)]
  else [digit (o / 100); digit ((o / 10) mod 10); digit (o mod 10)].

Definition DOT : N := 46.
Definition ip4_to_string (a : N) : list N :=
  dec_octet ((a / 16777216) mod 256) ++ DOT ::
  dec_octet ((a / 65536) mod 256) ++ DOT ::
  dec_octet ((a / 256) mod 256) ++ DOT ::
  dec_octet (a mod 256).

Fixpoint split_on (sep : N) (l : list N) : list (list N) :=
  match l with
  | [] => [[]]
  | c :: r =>
      if c =? sep then [] :: split_on sep r
      else match split_on sep r with
           | g :: gs => (c :: g) :: gs
           | [] => [[c]]
           end
  end.

Definition is_digit (c : N) : bool := (48 <=? c) && (c <=? 57).

(* one dotted-quad group: 1..3 decimal digits, no leading zero, <= 255 *)
Definition parse_octet (g : list N) : option N :=
  match g with
  | [a] => if is_digit a then Some (a - 48) else None
  | [a; b] =>
      if is_digit a && is_digit b && negb (a =? 48)
      then Some ((a - 48) * 10 + (b - 48)) else None
  | [a; b; c] =>
      if is_digit a && is_digit b && is_digit c && negb (a =? 48)
      then let v := (a - 48) * 100 + (b - 48) * 10 + (c - 48) in
           if v <=? 255 then Some v else None
      else None
  | _ => None
  end.

Definition ip4_of_string (s : list N) : option N :=
  match split_on DOT s with
  | [g1; g2; g3; g4] =>
      match parse_octet g1, parse_octet g2, parse_octet g3, parse_octet g4 with
      | Some a, Some b, Some c, Some d => Some (of_be32 a b c d)
      | _, _, _, _ => None
      end
  | _ => None
  end.

(* ------------------------------------------------------------------ *)
(* the API form (prost messages of api/proto/attribute.proto, extcom.proto) *)
Inductive api_extcom : Type :=
| XMissing                                   (* extcom oneof absent *)
| XTwoOctet (tr : bool) (sub asn la : N)
| XIpv4 (tr : bool) (sub : N) (addr : list N) (la : N)
| XFourOctet (tr : bool) (sub asn la : N)
| XMup (sub s2 s4 : N)
| XUnknown (ty : N) (value : list N)
| XTrafficRate (asn rate_bits : N)
| XTrafficAction (terminal sample : bool)
| XRedirect2 (asn la : N)
| XTrafficRemark (dscp : N)
| XRedirectIp4 (addr : list N) (la : N)
| XRedirect4 (asn la : N)
| XUnsupported.                              (* every other oneof variant *)

Inductive api_attr : Type :=
| AMissing                                   (* attr oneof absent *)
| AUnknown (flags ty : N) (value : list N)
| AOrigin (o : N)
| AAsPath (segs : list (Z * list N))          (* AsSegment.type is an i32 *)
| ANextHop (s : list N)
| AMed (v : N)
| ALocalPref (v : N)
| AAtomicAggregate
| AAggregator (asn : N) (addr : list N)
| ACommunities (l : list N)
| AOriginatorId (s : list N)
| AClusterList (ids : list (list N))
| AExtCommunities (l : list api_extcom)
| ALargeCommunities (l : list (N * N * N))
| AMpReach (fam : option (N * N)) (nhs : list (list N))   (* MpReachNLRIAttribute: family, next_hops (nlris are ignored) *)
| AOther.   (* mp_unreach, as4_path, as4_aggregator, pmsi_tunnel, ip6_extended_communities, aigp *)

Section WithV6.
  Variable v6_to_string : N -> list N.
  Variable v6_of_string : list N -> option N.

  (* ---------------------------------------------------------------- *)
  (* read_extcom: one 8-byte chunk                                     *)
  (* bit tests on u8 values are written arithmetically: x & 0x40 = 0 is
     (x / 64) mod 2 = 0, x & !0x40 is x - 64 when the bit is set, x & 0x3F is
     x mod 64.  The typed forms without an is_transitive field, and the traffic
     action / remark forms, are used only when they lose nothing (fix commit). *)
  Definition read_extcom (ch : list N) : res api_extcom :=
    match ch with
    | [t; s; b2; b3; b4; b5; b6; b7] =>
        let tr := (t / 64) mod 2 =? 0 in
        let cat := if tr then t else t - 64 in
        let unk := Ok (XUnknown t ch) in
        let reserved_zero := (b2 =? 0) && (b3 =? 0) && (b4 =? 0) && (b5 =? 0) && (b6 =? 0) in
        if cat =? 0 then Ok (XTwoOctet tr s (of_be16 b2 b3) (of_be32 b4 b5 b6 b7))
        else if cat =? 1 then Ok (XIpv4 tr s (ip4_to_string (of_be32 b2 b3 b4 b5)) (of_be16 b6 b7))
        else if cat =? 2 then Ok (XFourOctet tr s (of_be32 b2 b3 b4 b5) (of_be16 b6 b7))
        else if (cat =? 12) && tr then Ok (XMup s (of_be16 b2 b3) (of_be32 b4 b5 b6 b7))
        else if (cat =? 128) && tr then
          (if s =? 6 then Ok (XTrafficRate (of_be16 b2 b3) (of_be32 b4 b5 b6 b7))
           else if (s =? 7) && reserved_zero && (b7 <? 4)
                then Ok (XTrafficAction (negb (b7 mod 2 =? 0)) (negb ((b7 / 2) mod 2 =? 0)))
           else if s =? 8 then Ok (XRedirect2 (of_be16 b2 b3) (of_be32 b4 b5 b6 b7))
           else if (s =? 9) && reserved_zero && (b7 <? 64) then Ok (XTrafficRemark (b7 mod 64))
           else unk)
        else if (cat =? 129) && tr then
          (if s =? 8 then Ok (XRedirectIp4 (ip4_to_string (of_be32 b2 b3 b4 b5)) (of_be16 b6 b7)) else unk)
        else if (cat =? 130) && tr then
          (if s =? 8 then Ok (XRedirect4 (of_be32 b2 b3 b4 b5) (of_be16 b6 b7)) else unk)
        else unk
    | _ => Panic P_READ_EOF
    end.

  Fixpoint read_extcoms (l : list (list N)) : res (list api_extcom) :=
    match l with
    | [] => Ok []
    | ch :: r => x <- read_extcom ch ;; xs <- read_extcoms r ;; Ok (x :: xs)
    end.

  Definition ensure_u8 (v : N) : option N := if 255 <? v then None else Some v.
  Definition ensure_u16 (v : N) : option N := if 65535 <? v then None else Some v.
  Definition trbit (tr : bool) : N := if tr then 0 else 64.

  (* write_extcom: None = Err(InvalidArgument) *)
  Definition write_extcom (x : api_extcom) : option (list N) :=
    match x with
    | XMissing => None
    | XTwoOctet tr sub asn la =>
        match ensure_u8 sub, ensure_u16 asn with
        | Some s, Some a => Some (0 + trbit tr :: s :: be16 a ++ be32 la)
        | _, _ => None
        end
    | XIpv4 tr sub addr la =>
        match ensure_u8 sub, ip4_of_string addr, ensure_u16 la with
        | Some s, Some a, Some l => Some (1 + trbit tr :: s :: be32 a ++ be16 l)
        | _, _, _ => None
        end
    | XFourOctet tr sub asn la =>
        match ensure_u8 sub, ensure_u16 la with
        | Some s, Some l => Some (2 + trbit tr :: s :: be32 asn ++ be16 l)
        | _, _ => None
        end
    | XMup sub s2 s4 =>
        match ensure_u8 sub, ensure_u16 s2 with
        | Some s, Some a => Some (12 :: s :: be16 a ++ be32 s4)
        | _, _ => None
        end
    | XUnknown _ value => if Nat.eqb (length value) 8 then Some value else None
    | XTrafficRate asn bits =>
        match ensure_u16 asn with
        | Some a => Some (128 :: 6 :: be16 a ++ be32 bits)
        | None => None
        end
    | XTrafficAction terminal sample =>
        Some [128; 7; 0; 0; 0; 0; 0; (if terminal then 1 else 0) + (if sample then 2 else 0)]
    | XRedirect2 asn la =>
        match ensure_u16 asn with
        | Some a => Some (128 :: 8 :: be16 a ++ be32 la)
        | None => None
        end
    | XTrafficRemark dscp => Some [128; 9; 0; 0; 0; 0; 0; dscp mod 64]
    | XRedirectIp4 addr la =>
        match ip4_of_string addr, ensure_u16 la with
        | Some a, Some l => Some (129 :: 8 :: be32 a ++ be16 l)
        | _, _ => None
        end
    | XRedirect4 asn la =>
        match ensure_u16 la with
        | Some l => Some (130 :: 8 :: be32 asn ++ be16 l)
        | None => None
        end
    | XUnsupported => None
    end.

  Fixpoint write_extcoms (l : list api_extcom) : option (list N) :=
    match l with
    | [] => Some []
    | x :: r =>
        match write_extcom x, write_extcoms r with
        | Some b, Some bs => Some (b ++ bs)
        | _, _ => None
        end
    end.

  (* ---------------------------------------------------------------- *)
  (* attr_to_api                                                       *)
  (* AS_PATH: while position < len { code; n; n numbers } *)
  Fixpoint aspath_segs (fuel : nat) (l : list N) : res (list (Z * list N)) :=
    match l with
    | [] => Ok []
    | _ =>
        match fuel with
        | O => Panic P_FUEL
        | S f =>
            cr <- read_u8 l ;;
            nr <- read_u8 (snd cr) ;;
            ns <- read_n_u32 (N.to_nat (fst nr)) (snd nr) ;;
            rest <- aspath_segs f (snd ns) ;;
            Ok ((Z.of_N (fst cr), fst ns) :: rest)
        end
    end.

  Fixpoint triples (l : list N) : list (N * N * N) :=
    match l with
    | a :: b :: c :: r => (a, b, c) :: triples r
    | _ => []
    end.

  Definition core_code (c : N) : bool :=
    negb ((c =? TUNNEL_ENCAP) || (c =? LS) || (c =? PREFIX_SID)).

  (* for a code outside the core the model says nothing: [Ok AOther] is never
     compared (core_code guards every use) *)
  Definition to_api (a : attr) : res api_attr :=
    let c := a_code a in
    if c =? ORIGIN then v <- value_unwrap a ;; Ok (AOrigin v)
    else if c =? AS_PATH then
      b <- binary_unwrap a ;; s <- aspath_segs (S (length b)) b ;; Ok (AAsPath s)
    else if c =? NEXTHOP then
      b <- binary_unwrap a ;;
      (if Nat.eqb (length b) 16 then Ok (ANextHop (v6_to_string (of_bytes b)))
       else r <- read_u32 b ;; Ok (ANextHop (ip4_to_string (fst r))))
    else if c =? MULTI_EXIT_DESC then v <- value_unwrap a ;; Ok (AMed v)
    else if c =? LOCAL_PREF then v <- value_unwrap a ;; Ok (ALocalPref v)
    else if c =? ATOMIC_AGGREGATE then Ok AAtomicAggregate
    else if c =? AGGREGATOR then
      b <- binary_unwrap a ;;
      match b with
      | [a0; a1; i0; i1; i2; i3] => Ok (AAggregator (of_be16 a0 a1) (ip4_to_string (of_be32 i0 i1 i2 i3)))
      | [a0; a1; a2; a3; i0; i1; i2; i3] =>
          Ok (AAggregator (of_be32 a0 a1 a2 a3) (ip4_to_string (of_be32 i0 i1 i2 i3)))
      | _ => Panic P_UNREACHABLE
      end
    else if c =? COMMUNITY then
      b <- binary_unwrap a ;;
      r <- read_n_u32 (length b / 4) b ;; Ok (ACommunities (fst r))
    else if c =? ORIGINATOR_ID then v <- value_unwrap a ;; Ok (AOriginatorId (ip4_to_string v))
    else if c =? CLUSTER_LIST then
      b <- binary_unwrap a ;;
      r <- read_n_u32 (length b / 4) b ;; Ok (AClusterList (map ip4_to_string (fst r)))
    else if c =? LARGE_COMMUNITY then
      b <- binary_unwrap a ;;
      r <- read_n_u32 (3 * (length b / 12)) b ;; Ok (ALargeCommunities (triples (fst r)))
    else if c =? EXTENDED_COMMUNITY then
      b <- binary_unwrap a ;;
      xs <- read_extcoms (chunks 8 (length b / 8) b) ;; Ok (AExtCommunities xs)
    else if core_code c then
      b <- binary_unwrap a ;; Ok (AUnknown (a_flags a) c b)
    else Ok AOther.

  (* ---------------------------------------------------------------- *)
  (* Attribute::decode (four-octet AS form, len = length data)          *)
  Fixpoint aspath_valid (fuel : nat) (zero_ok : bool) (l : list N) : bool :=
    match l with
    | [] => true
    | _ =>
        match fuel with
        | O => false
        | S f =>
            match l with
            | t :: n :: r =>
                (1 <=? t) && (t <=? 4) && (zero_ok || negb (n =? 0))
                && (Nat.leb (4 * N.to_nat n) (length r))
                && aspath_valid f zero_ok (skipn (4 * N.to_nat n) r)
            | _ => false
            end
        end
    end.

  Definition decode_value (code flags : N) (d : list N) : option attr :=
    let len := length d in
    let bin := Some (mkAttr code flags (DBin d)) in
    if code =? ORIGIN then
      match d with
      | [v] => if 2 <? v then None else Some (mkAttr code flags (DVal v))
      | _ => None
      end
    else if (code =? MULTI_EXIT_DESC) || (code =? LOCAL_PREF) || (code =? ORIGINATOR_ID) then
      match d with
      | [a; b; c; e] => Some (mkAttr code flags (DVal (of_be32 a b c e)))
      | _ => None
      end
    else if code =? AS_PATH then
      (* RFC 7606 s7.2: a segment of zero ASes is malformed *)
      if aspath_valid (S len) false d then bin else None
    else if code =? NEXTHOP then
      (* RFC 4271 s5.1.3: a 4-octet IPv4 address *)
      if Nat.eqb len 4 then bin else None
    else if code =? ATOMIC_AGGREGATE then
      match d with [] => bin | _ => None end
    else if code =? AGGREGATOR then
      match d with
      | [a0; a1; i0; i1; i2; i3] => Some (mkAttr code flags (DBin (be32 (of_be16 a0 a1) ++ [i0; i1; i2; i3])))
      | [_; _; _; _; _; _; _; _] => bin
      | _ => None
      end
    else if (code =? COMMUNITY) || (code =? CLUSTER_LIST) then
      (* RFC 7606 s7.8, s7.10, s7.14, RFC 8092 s5: a non-zero multiple of the element size *)
      if negb (Nat.eqb len 0) && Nat.eqb (Nat.modulo len 4) 0 then bin else None
    else if code =? EXTENDED_COMMUNITY then
      if negb (Nat.eqb len 0) && Nat.eqb (Nat.modulo len 8) 0 then bin else None
    else if code =? LARGE_COMMUNITY then
      if negb (Nat.eqb len 0) && Nat.eqb (Nat.modulo len 12) 0 then bin else None
    else if code =? AS4_PATH then
      if Nat.eqb (Nat.modulo len 2) 0 && Nat.leb 6 len && aspath_valid (S len) false d then bin else None
    else if code =? AS4_AGGREGATOR then
      if Nat.eqb len 8 then bin else None
    else bin.

  (* The per-attribute admission of PeerCodec::parse_message (UPDATE arm) for a
     four-octet-AS session: [Some a] iff the attribute is pushed on [attrs].
     NEXTHOP, MP_REACH, MP_UNREACH are kept outside the list; AS4_PATH and
     AS4_AGGREGATOR from a NEW speaker are discarded. *)
  Definition wire_accept (flags code : N) (d : list N) : option attr :=
    match canonical_flags code with
    | Some expected =>
        if N.land (N.lxor flags expected) 192 =? 0 then
          match decode_value code flags d with
          | Some a =>
              if (code =? MP_REACH) || (code =? MP_UNREACH) || (code =? NEXTHOP)
                 || (code =? AS4_PATH) || (code =? AS4_AGGREGATOR)
              then None else Some a
          | None => None
          end
        else None
    | None =>
        if N.land flags 128 =? 0 then None
        else if negb (N.land flags 64 =? 0) then Some (new_opaque code flags d)
        else None
    end.

  (* ---------------------------------------------------------------- *)
  (* attr_from_api: Ok None = Err(InvalidArgument)                      *)
  Definition u8_of_Z (z : Z) : N := Z.to_N (z mod 256).

  Fixpoint emit_segs (segs : list (Z * list N)) : list N :=
    match segs with
    | [] => []
    | (t, nums) :: r =>
        u8_of_Z t :: (N.of_nat (length nums)) mod 256 :: flat_map be32 nums ++ emit_segs r
    end.

  Fixpoint parse_ids (ids : list (list N)) : option (list N) :=
    match ids with
    | [] => Some []
    | s :: r =>
        match ip4_of_string s, parse_ids r with
        | Some a, Some bs => Some (be32 a ++ bs)
        | _, _ => None
        end
    end.

  (* the four flowspec families (afi * 65536 + safi) *)
  Definition is_fs_family (fam : N) : bool :=
    (fam =? 65669) || (fam =? 131205) || (fam =? 65670) || (fam =? 131206).

  Definition seg_ok (s : Z * list N) : bool :=
    (1 <=? fst s)%Z && (fst s <=? 4)%Z && Nat.leb (length (snd s)) 255 && Nat.leb 1 (length (snd s)).

  (* a list attribute with no element is refused, as on the wire (RFC 7606) *)
  Definition nonempty_bin (code : N) (b : list N) : option attr :=
    match b with [] => None | _ => new_with_bin code b end.

  (* attr_from_api as it was before the fix commit (see known_findings.json,
     C17-1..C17-4): kept for the [_refuted] witnesses; it is no longer what the
     code does. *)
  Definition from_api_v0 (x : api_attr) : res (option attr) :=
    match x with
    | AMissing => Ok None
    | AUnknown flags ty value => Ok (new_with_bin (ty mod 256) value)
    | AOrigin o => Ok (new_with_value ORIGIN o)
    | AAsPath segs => Ok (new_with_bin AS_PATH (emit_segs segs))
    | ANextHop s =>
        match ip4_of_string s with
        | Some a => Ok (new_with_bin NEXTHOP (be32 a))
        | None =>
            match v6_of_string s with
            | Some a => Ok (new_with_bin NEXTHOP (to_bytes 16 a))
            | None => Ok (new_with_bin NEXTHOP [])
            end
        end
    | AMed v => Ok (new_with_value MULTI_EXIT_DESC v)
    | ALocalPref v => Ok (new_with_value LOCAL_PREF v)
    | AAtomicAggregate => Ok (new_with_bin ATOMIC_AGGREGATE [])
    | AAggregator asn addr =>
        match ip4_of_string addr with
        | Some a => Ok (new_with_bin AGGREGATOR (be32 asn ++ be32 a))
        | None => Ok None
        end
    | ACommunities l => Ok (new_with_bin COMMUNITY (flat_map be32 l))
    | AOriginatorId s =>
        match ip4_of_string s with
        | Some a => Ok (new_with_value ORIGINATOR_ID a)
        | None => Ok None
        end
    | AClusterList ids =>
        match parse_ids ids with
        | Some b => Ok (new_with_bin CLUSTER_LIST b)
        | None => Ok None
        end
    | AExtCommunities l =>
        match write_extcoms l with
        | Some b => Ok (new_with_bin EXTENDED_COMMUNITY b)
        | None => Ok None
        end
    | ALargeCommunities l =>
        Ok (new_with_bin LARGE_COMMUNITY
              (flat_map (fun t => be32 (fst (fst t)) ++ be32 (snd (fst t)) ++ be32 (snd t)) l))
    | AMpReach _ _ => Ok None   (* not part of the first model *)
    | AOther => Ok None
    end.

  (* the last step of attr_from_api: a value longer than an attribute can carry is refused *)
  Definition len_check (r : option attr) : res (option attr) :=
    match r with
    | Some a =>
        match a_data a with
        | DVal _ => Ok (Some a)
        | DBin b | DOpaque b => if 65535 <? N.of_nat (length b) then Ok None else Ok (Some a)
        end
    | None => Ok None
    end.

  Definition from_api_unchecked (x : api_attr) : res (option attr) :=
    match x with
    | AMissing => Ok None
    | AUnknown flags ty value =>
        if 255 <? ty then Ok None
        else
          match canonical_flags ty with
          | Some f =>
              if 65535 <? N.of_nat (length value) then Ok None   (* u16::try_from(value.len()) *)
              else if (ty =? NEXTHOP) && negb (Nat.eqb (length value) 4 || Nat.eqb (length value) 16)
              then Ok None
              else Ok (decode_value ty f value)
          | None =>
              if (N.land flags 192 =? 192) && (flags <? 256)
              then Ok (Some (new_opaque ty flags value)) else Ok None
          end
    | AOrigin o => if 2 <? o then Ok None else Ok (new_with_value ORIGIN o)
    | AAsPath segs =>
        if forallb seg_ok segs then Ok (new_with_bin AS_PATH (emit_segs segs)) else Ok None
    | ANextHop s =>
        match ip4_of_string s with
        | Some a => Ok (new_with_bin NEXTHOP (be32 a))
        | None =>
            match v6_of_string s with
            | Some a => Ok (new_with_bin NEXTHOP (to_bytes 16 a))
            | None => Ok None
            end
        end
    | AMed v => Ok (new_with_value MULTI_EXIT_DESC v)
    | ALocalPref v => Ok (new_with_value LOCAL_PREF v)
    | AAtomicAggregate => Ok (new_with_bin ATOMIC_AGGREGATE [])
    | AAggregator asn addr =>
        match ip4_of_string addr with
        | Some a => Ok (new_with_bin AGGREGATOR (be32 asn ++ be32 a))
        | None => Ok None
        end
    | ACommunities l => Ok (nonempty_bin COMMUNITY (flat_map be32 l))
    | AOriginatorId s =>
        match ip4_of_string s with
        | Some a => Ok (new_with_value ORIGINATOR_ID a)
        | None => Ok None
        end
    | AClusterList ids =>
        match parse_ids ids with
        | Some b => Ok (nonempty_bin CLUSTER_LIST b)
        | None => Ok None
        end
    | AExtCommunities l =>
        match write_extcoms l with
        | Some b => Ok (nonempty_bin EXTENDED_COMMUNITY b)
        | None => Ok None
        end
    | ALargeCommunities l =>
        Ok (nonempty_bin LARGE_COMMUNITY
              (flat_map (fun t => be32 (fst (fst t)) ++ be32 (snd (fst t)) ++ be32 (snd t)) l))
    | AMpReach fam nhs =>
        match fam with
        | None => Ok None
        | Some (afi, safi) =>
            if (65535 <? afi) || (255 <? safi) then Ok None else
            let a16 := afi mod 65536 in
            let s8 := safi mod 256 in
            if is_fs_family (a16 * 65536 + s8) && (match nhs with [] => true | _ => false end)
            then Ok (new_with_bin MP_REACH (be16 a16 ++ [s8; 0; 0]))
            else
              match nhs with
              | [] => Ok None
              | nh :: _ =>
                  let nhb := match ip4_of_string nh with
                             | Some a => Some (be32 a)
                             | None => match v6_of_string nh with Some a => Some (to_bytes 16 a) | None => None end
                             end in
                  match nhb with
                  | Some b => Ok (new_with_bin MP_REACH (be16 a16 ++ [s8; N.of_nat (length b)] ++ b ++ [0]))
                  | None => Ok None
                  end
              end
        end
    | AOther => Ok None
    end.

  Definition from_api (x : api_attr) : res (option attr) :=
    match from_api_unchecked x with
    | Ok r => len_check r
    | Panic t => Panic t
    end.

  (* the round trip the property speaks of *)
  Definition roundtrip (a : attr) : res (option attr) :=
    x <- to_api a ;; from_api x.
  Definition roundtrip_v0 (a : attr) : res (option attr) :=
    x <- to_api a ;; from_api_v0 x.

  (* ---------------------------------------------------------------- *)
  (* downstream consumers                                              *)
  Definition find_code (c : N) (l : list attr) : option attr :=
    find (fun a => a_code a =? c) l.

  Definition attr_local_preference (l : list attr) : res N :=
    match find_code LOCAL_PREF l with
    | Some a => value_unwrap a
    | None => Ok 100
    end.

  Definition attr_origin (l : list attr) : res N :=
    match find_code ORIGIN l with
    | Some a => v <- value_unwrap a ;; Ok (v mod 256)
    | None => Ok 2
    end.

  Definition attr_originator_id (l : list attr) : res (option N) :=
    match find_code ORIGINATOR_ID l with
    | Some a => v <- value_unwrap a ;; Ok (Some v)
    | None => Ok None
    end.

  Definition attr_cluster_list_length (l : list attr) : N :=
    match find_code CLUSTER_LIST l with
    | Some a =>
        match a_data a with
        | DVal _ => 0
        | DBin b | DOpaque b => N.of_nat (length b / 4)
        end
    | None => 0
    end.

  (* Attribute::as_path_length (usize accumulator; since the repair of the helpers it
     stops at a truncated segment header and ignores unknown segment types) *)
  Fixpoint aspl (fuel : nat) (l : list N) (acc : N) : res N :=
    match l with
    | [] => Ok acc
    | t :: r =>
        match fuel with
        | O => Panic P_FUEL
        | S f =>
            match r with
            | [] => Ok acc
            | n :: r' =>
                let rest := skipn (4 * N.to_nat n) r' in
                if t =? 1 then aspl f rest (acc + 1)
                else if t =? 2 then aspl f rest (acc + n)
                else aspl f rest acc
            end
        end
    end.

  Definition as_path_length (a : attr) : res N :=
    if a_code a =? AS_PATH then b <- binary_unwrap a ;; aspl (S (length b)) b 0
    else Panic P_ASSERT.

  Definition attr_as_path_length (l : list attr) : res N :=
    match find_code AS_PATH l with
    | Some a => as_path_length a
    | None => Ok 0
    end.

  Fixpoint has_u32 (x : N) (l : list N) : bool :=
    match l with
    | a :: b :: c :: d :: r => (of_be32 a b c d =? x) || has_u32 x r
    | _ => false
    end.

  Definition has_llgr_stale_community (l : list attr) : bool :=
    match find_code COMMUNITY l with
    | Some a =>
        match a_data a with
        | DVal _ => false
        | DBin b | DOpaque b => has_u32 4294901766 b
        end
    | None => false
    end.

  Definition cmpN (a b : N) : Z :=
    match N.compare a b with Lt => (-1)%Z | Eq => 0%Z | Gt => 1%Z end.
  Definition cmpB (a b : bool) : Z :=
    match a, b with false, true => (-1)%Z | true, false => 1%Z | _, _ => 0%Z end.

  (* impl Ord for RibEntry: self.cmp(other), both sources of one role, not
     stale, not LLGR-marked; router ids ra (self) and rb (other).  Lazy
     evaluation order as written ([then_with]). *)
  Definition rib_cmp (sa : list attr) (ra : N) (sb : list attr) (rb : N) : res Z :=
    let s1 := cmpB (has_llgr_stale_community sa) (has_llgr_stale_community sb) in
    if negb (s1 =? 0)%Z then Ok s1 else
    la <- attr_local_preference sa ;; lb <- attr_local_preference sb ;;
    if negb (cmpN la lb =? 0)%Z then Ok (- cmpN la lb)%Z else
    pa <- attr_as_path_length sa ;; pb <- attr_as_path_length sb ;;
    if negb (cmpN pa pb =? 0)%Z then Ok (cmpN pa pb) else
    oa <- attr_origin sa ;; ob <- attr_origin sb ;;
    if negb (cmpN oa ob =? 0)%Z then Ok (cmpN oa ob) else
    let c := cmpN (attr_cluster_list_length sa) (attr_cluster_list_length sb) in
    if negb (c =? 0)%Z then Ok c else
    ia <- attr_originator_id sa ;; ib <- attr_originator_id sb ;;
    Ok (cmpN (match ia with Some v => v | None => ra end)
             (match ib with Some v => v | None => rb end)).

  (* Attribute::encode (the bytes of one attribute) *)
  Definition encode_attr (a : attr) : res (list N) :=
    let c := a_code a in
    if c =? ORIGIN then
      v <- value_unwrap a ;; Ok [a_flags a; c; 1; v mod 256]
    else if (c =? MULTI_EXIT_DESC) || (c =? LOCAL_PREF) || (c =? ORIGINATOR_ID) then
      v <- value_unwrap a ;; Ok (a_flags a :: c :: 4 :: be32 v)
    else
      b <- binary_unwrap a ;;
      let len := N.of_nat (length b) in
      let flags := if 255 <? len then N.lor (a_flags a) FLAG_EXTENDED else a_flags a in
      if negb (N.land flags FLAG_EXTENDED =? 0)
      then Ok (flags :: c :: be16 (len mod 65536) ++ b)
      else Ok (flags :: c :: len mod 256 :: b).

  (* GrpcService::local_path, attribute assembly: the list handed to the table *)
  Definition local_path_keep (a : attr) : bool :=
    let c := a_code a in
    negb ((c =? MP_REACH) || (c =? NEXTHOP) || (c =? ORIGINATOR_ID) || (c =? CLUSTER_LIST) || (c =? MP_UNREACH)).

  Definition local_path_attrs (l : list attr) : list attr :=
    let kept := filter local_path_keep l in
    let k1 := if existsb (fun a => a_code a =? ORIGIN) kept then kept
              else kept ++ [mkAttr ORIGIN 64 (DVal 0)] in
    if existsb (fun a => a_code a =? AS_PATH) k1 then k1
    else k1 ++ [mkAttr AS_PATH 64 (DBin [])].

End WithV6.

(* ------------------------------------------------------------------ *)
(* TUNNEL_ENCAP, PREFIX_SID and the BGP-LS attribute: the wrapper of attr_to_api
   around the typed converters (fix commit "shows ... raw when the typed form loses
   data").  The typed converters themselves (tunnel_encap_tlv_to_api / _from_api,
   prefix_sid_to_api / _from_api, ls_tlvs_to_api / _from_api with the packet crate's
   TLV decoders and encoders) are NOT modelled: they enter as the two Section
   variables below, of which nothing is assumed; a typed message is represented by
   an uninterpreted byte string. *)
Inductive api_nc : Type :=
| NcTyped (code : N) (t : list N)                 (* TunnelEncap / PrefixSid / Ls message *)
| NcUnknown (flags code : N) (b : list N).        (* Unknown { flags, type, value } *)

Section Guarded.
  (* attr_to_api_typed on the value bytes: the typed message, or None for the
     Unknown form PREFIX_SID falls back to when its decoder fails *)
  Variable typed_of_bytes : N -> list N -> res (option (list N)).
  (* attr_from_api_unchecked on a typed message: the value bytes, or None = Err *)
  Variable bytes_of_typed : N -> list N -> res (option (list N)).

  Definition from_api_nc (x : api_nc) : res (option attr) :=
    match x with
    | NcTyped c t =>
        r <- bytes_of_typed c t ;;
        len_check (match r with Some b => new_with_bin c b | None => None end)
    | NcUnknown f c b => from_api (fun _ => None) (AUnknown f c b)
    end.

  Definition to_api_nc (a : attr) : res api_nc :=
    b <- binary_unwrap a ;;
    t <- typed_of_bytes (a_code a) b ;;
    match t with
    | None => Ok (NcUnknown (a_flags a) (a_code a) b)
    | Some t' =>
        r <- from_api_nc (NcTyped (a_code a) t') ;;
        match r with
        | Some a' =>
            match a_data a' with
            | DVal _ => Ok (NcUnknown (a_flags a) (a_code a) b)
            | DBin b' | DOpaque b' =>
                if list_eqb b' b then Ok (NcTyped (a_code a) t') else Ok (NcUnknown (a_flags a) (a_code a) b)
            end
        | None => Ok (NcUnknown (a_flags a) (a_code a) b)
        end
    end.
End Guarded.

(* ------------------------------------------------------------------ *)
(* printers                                                            *)
Definition v_bytes (l : list N) : val := VNs l.

(* a value of more than 1024 octets is printed as [-7, length, sum mod 2^32, first 4, last 4]
   (the harness prints the same digest) *)
Definition v_bytes_c (l : list N) : val :=
  let n := length l in
  if Nat.ltb 1024 n
  then VL [VI (-7); VN (N.of_nat n); VN (fold_left (fun acc b => (acc + b) mod 4294967296) l 0);
           VNs (firstn 4 l); VNs (skipn (n - 4) l)]
  else VNs l.

Definition v_attr (a : attr) : val :=
  match a_data a with
  | DVal v => VL [VN (a_code a); VN (a_flags a); VI 0; VL [VN v]]
  | DBin b => VL [VN (a_code a); VN (a_flags a); VI 1; v_bytes_c b]
  | DOpaque b => VL [VN (a_code a); VN (a_flags a); VI 2; v_bytes_c b]
  end.

Definition v_extcom (x : api_extcom) : val :=
  match x with
  | XMissing => VL [VI 0]
  | XTwoOctet tr s a l => VL [VI 1; VB tr; VN s; VN a; VN l]
  | XIpv4 tr s a l => VL [VI 2; VB tr; VN s; v_bytes a; VN l]
  | XFourOctet tr s a l => VL [VI 3; VB tr; VN s; VN a; VN l]
  | XMup s a b => VL [VI 4; VN s; VN a; VN b]
  | XUnknown t v => VL [VI 5; VN t; v_bytes v]
  | XTrafficRate a r => VL [VI 6; VN a; VN r]
  | XTrafficAction t s => VL [VI 7; VB t; VB s]
  | XRedirect2 a l => VL [VI 8; VN a; VN l]
  | XTrafficRemark d => VL [VI 9; VN d]
  | XRedirectIp4 a l => VL [VI 10; v_bytes a; VN l]
  | XRedirect4 a l => VL [VI 11; VN a; VN l]
  | XUnsupported => VL [VI 99]
  end.

Definition v_api (x : api_attr) : val :=
  match x with
  | AMissing => VL [VI 0]
  | AUnknown f t v => VL [VI 1; VN f; VN t; v_bytes v]
  | AOrigin o => VL [VI 2; VN o]
  | AAsPath segs => VL [VI 3; VList (fun s => VL [VI (fst s); VNs (snd s)]) segs]
  | ANextHop s => VL [VI 4; v_bytes s]
  | AMed v => VL [VI 5; VN v]
  | ALocalPref v => VL [VI 6; VN v]
  | AAtomicAggregate => VL [VI 7]
  | AAggregator a s => VL [VI 8; VN a; v_bytes s]
  | ACommunities l => VL [VI 9; VNs l]
  | AOriginatorId s => VL [VI 10; v_bytes s]
  | AClusterList ids => VL [VI 11; VList v_bytes ids]
  | AExtCommunities l => VL [VI 14; VList v_extcom l]
  | ALargeCommunities l =>
      VL [VI 21; VList (fun t => VL [VN (fst (fst t)); VN (snd (fst t)); VN (snd t)]) l]
  | AMpReach fam nhs => VL [VI 12; VOpt (fun f => VL [VN (fst f); VN (snd f)]) fam; VList v_bytes nhs]
  | AOther => VL [VI 99]
  end.

Definition v_res {A} (f : A -> val) (r : res A) : val :=
  match r with Ok a => f a | Panic _ => VL [VI (-1)] end.

Definition v_oattr (o : option attr) : val :=
  match o with Some a => VL [VI 1; v_attr a] | None => VL [VI 0] end.

(* ------------------------------------------------------------------ *)
(* entry points of the correspondence run.  The Ipv6 textual form is
   instantiated at the end of this file ([v6_print], [v6_parse]).       *)
Section Run.
  Variable v6p : N -> list N.
  Variable v6r : list N -> option N.

  (* kind 0: one attribute as it arrives on the wire (flags, code, value) *)
  Definition run_wire (flags code : N) (d : list N) : val :=
    match wire_accept flags code d with
    | None => VL [VI 0]
    | Some a =>
        VL [VI 1; v_attr a; v_res v_api (to_api v6p a); v_res v_oattr (roundtrip v6p v6r a)]
    end.

  (* the consumers run on an accepted attribute [a]: as_path_length, encode,
     to_api (listing), and Table::insert of local_path's list next to a
     competitor [ORIGIN igp; empty AS_PATH] *)
  Definition competitor : list attr := [mkAttr ORIGIN 64 (DVal 0); mkAttr AS_PATH 64 (DBin [])].

  Definition adata_eqb (x y : adata) : bool :=
    match x, y with
    | DVal v, DVal w => v =? w
    | DBin b, DBin c | DOpaque b, DOpaque c => list_eqb b c
    | _, _ => false
    end.
  Definition attr_eqb (x y : attr) : bool :=
    (a_code x =? a_code y) && (a_flags x =? a_flags y) && adata_eqb (a_data x) (a_data y).

  (* listing an accepted value and giving it back: 0 the same value, 1 another value, 2 refused *)
  Definition v_relist (a : attr) : val :=
    if core_code (a_code a) then
      match roundtrip v6p v6r a with
      | Ok (Some a') => VI (if attr_eqb a a' then 0 else 1)
      | Ok None => VI 2
      | Panic _ => VL [VI (-1)]
      end
    else VI 0.

  Definition v_downstream (a : attr) : val :=
    VL [ (if a_code a =? AS_PATH then v_res VN (as_path_length a) else VL [VI (-2)]);
         v_res (fun b => VN (N.of_nat (length b))) (encode_attr a);
         v_res (fun _ => VI 0) (to_api v6p a);
         v_res (fun z => VB (z <? 0)%Z) (rib_cmp (local_path_attrs [a]) 2 competitor 1);
         v_relist a ].

  (* kind 1: an API attribute message *)
  Definition run_api (x : api_attr) : val :=
    match from_api v6r x with
    | Panic _ => VL [VI (-1)]
    | Ok None => VL [VI 0]
    | Ok (Some a) => VL [VI 1; v_attr a; v_downstream a]
    end.
End Run.

(* ------------------------------------------------------------------ *)
(* Instance of the Ipv6Addr textual form used by the correspondence run: Display
   as in library/core/src/net/ip_addr.rs (IPv4-mapped form, longest run of two or
   more zero groups compressed, lower-case hex without leading zeros) and a
   FromStr that accepts hex groups, one "::" gap and a trailing dotted quad.
   Nothing is proved about these two functions; the theorems assume only
   [v6_contract] (Proofs/ApiRt.v), which the run exercises. *)
Definition hexd (d : N) : N := if d <? 10 then 48 + d else 87 + d.
Definition hex_group (g : N) : list N :=
  if g <? 16 then [hexd g]
  else if g <? 256 then [hexd (g / 16); hexd (g mod 16)]
  else if g <? 4096 then [hexd (g / 256); hexd ((g / 16) mod 16); hexd (g mod 16)]
  else [hexd (g / 4096); hexd ((g / 256) mod 16); hexd ((g / 16) mod 16); hexd (g mod 16)].

Fixpoint segments_of (k : nat) (a : N) : list N :=
  match k with
  | O => []
  | S k' => segments_of k' (a / 65536) ++ [a mod 65536]
  end.

Definition COLON : N := 58.
Fixpoint join_groups (l : list N) : list N :=
  match l with
  | [] => []
  | [g] => hex_group g
  | g :: r => hex_group g ++ COLON :: join_groups r
  end.

Fixpoint zero_span (i : nat) (l : list N) (cs cl bs bl : nat) : nat * nat :=
  match l with
  | [] => (bs, bl)
  | s :: r =>
      if s =? 0 then
        let cs' := if Nat.eqb cl 0 then i else cs in
        let cl' := S cl in
        if Nat.ltb bl cl' then zero_span (S i) r cs' cl' cs' cl' else zero_span (S i) r cs' cl' bs bl
      else zero_span (S i) r 0 0 bs bl
  end.

Definition v6_print (a : N) : list N :=
  let segs := segments_of 8 a in
  match segs with
  | [0; 0; 0; 0; 0; 65535; g6; g7] => [58; 58; 102; 102; 102; 102; 58] ++ ip4_to_string (g6 * 65536 + g7)
  | _ =>
      let '(st, len) := zero_span 0 segs 0 0 0 0 in
      if Nat.ltb 1 len then join_groups (firstn st segs) ++ [58; 58] ++ join_groups (skipn (st + len) segs)
      else join_groups segs
  end.

Definition hexval (c : N) : option N :=
  if (48 <=? c) && (c <=? 57) then Some (c - 48)
  else if (97 <=? c) && (c <=? 102) then Some (c - 87)
  else if (65 <=? c) && (c <=? 70) then Some (c - 55)
  else None.

Fixpoint hex_field (l : list N) (acc : N) : option N :=
  match l with
  | [] => Some acc
  | c :: r => match hexval c with Some d => hex_field r (acc * 16 + d) | None => None end
  end.

(* one colon-separated field: 1..4 hex digits *)
Definition v6_field (f : list N) : option N :=
  match f with
  | [] => None
  | _ => if Nat.leb (length f) 4 then hex_field f 0 else None
  end.

(* fields -> groups; the last field may be a dotted quad (two groups) *)
Fixpoint v6_groups (fs : list (list N)) : option (list N) :=
  match fs with
  | [] => Some []
  | [f] =>
      match v6_field f with
      | Some g => Some [g]
      | None => match ip4_of_string f with Some a => Some [a / 65536; a mod 65536] | None => None end
      end
  | f :: r =>
      match v6_field f, v6_groups r with
      | Some g, Some gs => Some (g :: gs)
      | _, _ => None
      end
  end.

Fixpoint split_gap (fs : list (list N)) : list (list N) * option (list (list N)) :=
  match fs with
  | [] => ([], None)
  | [] :: r => ([], Some r)
  | f :: r => let '(h, t) := split_gap r in (f :: h, t)
  end.

Definition groups_value (gs : list N) : N := fold_left (fun acc g => acc * 65536 + g) gs 0.

Definition v6_parse (s : list N) : option N :=
  let fs := split_on COLON s in
  (* a leading or trailing "::" shows as two empty fields: drop the outer one *)
  let fs1 := match fs with [] :: [] :: ((_ :: _) as r) => Some ([] :: r) | [] :: _ => None | _ => Some fs end in
  match fs1 with
  | None => None
  | Some fs1 =>
      let fs2 := match rev fs1 with
                 | [] :: [] :: r => Some (rev ([] :: r))
                 | [] :: _ :: _ => None
                 | _ => Some fs1
                 end in
      match fs2 with
      | None => None
      | Some fs2 =>
          match split_gap fs2 with
          | (h, None) =>
              match v6_groups h with
              | Some gs => if Nat.eqb (length gs) 8 then Some (groups_value gs) else None
              | None => None
              end
          | (h, Some t) =>
              (* the head may not end in a dotted quad *)
              match (match h with [] => Some [] | _ => match v6_groups h with Some gs => if Nat.eqb (length gs) (length h) then Some gs else None | None => None end end),
                    (match t with [] => Some [] | _ => v6_groups t end) with
              | Some hg, Some tg =>
                  if existsb (fun f => match f with [] => true | _ => false end) t then None
                  else if Nat.leb (length hg + length tg) 7
                  then Some (groups_value (hg ++ repeat 0 (8 - length hg - length tg) ++ tg))
                  else None
              | _, _ => None
              end
          end
      end
  end.

(* ------------------------------------------------------------------ *)
(* NLRI: IPv4 / IPv6 unicast prefixes and labeled prefixes               *)
Inductive profile : Type := Debug | Release.

(* rd::RouteDistinguisher and its API message *)
Inductive rd : Type :=
| RD2 (admin assigned : N)       (* TwoOctetAs { admin: u16, assigned: u32 } *)
| RDIp (admin assigned : N)      (* Ipv4 { admin: Ipv4Addr, assigned: u16 } *)
| RD4 (admin assigned : N).      (* FourOctetAs { admin: u32, assigned: u16 } *)

Inductive api_rd : Type :=
| ARdMissing
| ARd2 (admin assigned : N)
| ARdIp (admin : list N) (assigned : N)
| ARd4 (admin assigned : N).

Inductive nlri : Type :=
| NV4 (addr mask : N)
| NV6 (addr mask : N)
| NLab4 (labels : list N) (addr mask : N)
| NLab6 (labels : list N) (addr mask : N)
| NVpn4 (labels : list N) (d : rd) (addr mask : N)
| NVpn6 (labels : list N) (d : rd) (addr mask : N).

Inductive api_nlri : Type :=
| PMissing
| PPrefix (s : list N) (len : N)
| PLabeled (labels : list N) (s : list N) (len : N)
| PVpn (labels : list N) (d : api_rd) (s : list N) (len : N)
| POther.

Definition rd_to_api (d : rd) : api_rd :=
  match d with
  | RD2 a b => ARd2 a b
  | RDIp a b => ARdIp (ip4_to_string a) b
  | RD4 a b => ARd4 a b
  end.

Definition rd_from_api (d : api_rd) : option rd :=
  match d with
  | ARdMissing => None
  | ARd2 a b => if 65535 <? a then None else Some (RD2 a b)
  | ARdIp s b => match ip4_of_string s with
                 | Some a => if 65535 <? b then None else Some (RDIp a b)
                 | None => None
                 end
  | ARd4 a b => if 65535 <? b then None else Some (RD4 a b)
  end.

Definition rd_bytes (d : rd) : list N :=
  match d with
  | RD2 a b => [0; 0] ++ be16 a ++ be32 b
  | RDIp a b => [0; 1] ++ be32 a ++ be16 b
  | RD4 a b => [0; 2] ++ be32 a ++ be16 b
  end.

Section Nlri.
  Variable v6p : N -> list N.
  Variable v6r : list N -> option N.

  Definition nlri_to_api (n : nlri) : api_nlri :=
    match n with
    | NV4 a m => PPrefix (ip4_to_string a) m
    | NV6 a m => PPrefix (v6p a) m
    | NLab4 ls a m => PLabeled ls (ip4_to_string a) m
    | NLab6 ls a m => PLabeled ls (v6p a) m
    | NVpn4 ls d a m => PVpn ls (rd_to_api d) (ip4_to_string a) m
    | NVpn6 ls d a m => PVpn ls (rd_to_api d) (v6p a) m
    end.

  Definition SLASH : N := 47.

  (* prefix_octets_ok: the address octets after the ceil(len / 8) that travel are zero *)
  Definition octets_ok (width : N) (a len : N) : bool :=
    a mod (256 ^ (width - (len + 7) / 8)) =? 0.

  (* Prefix: Nlri::from_str(format!("{}/{}", prefix, prefix_len)).  The formatted
     string splits on '/' into exactly two parts iff the prefix holds no '/';
     the decimal u32 parses as a u8 iff it is <= 255.
     LabeledPrefix: address parsed alone; after the fix commit the length must be
     within the family's width and the label stack must fit the one-octet NLRI
     length (at least one label). *)
  Definition net_from_api (x : api_nlri) : option nlri :=
    match x with
    | PPrefix s len =>
        if existsb (fun c => c =? SLASH) s then None
        else match ip4_of_string s with
             | Some a => if 255 <? len then None else if 32 <? len then None else if octets_ok 4 a len then Some (NV4 a len) else None
             | None =>
                 match v6r s with
                 | Some a => if 255 <? len then None else if 128 <? len then None else if octets_ok 16 a len then Some (NV6 a len) else None
                 | None => None
                 end
             end
    | PLabeled ls s len =>
        match ip4_of_string s with
        | Some a =>
            if (32 <? len) || existsb (fun l => 1048575 <? l) ls || Nat.eqb (length ls) 0 || (255 <? 24 * N.of_nat (length ls) + len) || negb (octets_ok 4 a len) then None
            else Some (NLab4 ls a len)
        | None =>
            match v6r s with
            | Some a =>
                if (128 <? len) || existsb (fun l => 1048575 <? l) ls || Nat.eqb (length ls) 0 || (255 <? 24 * N.of_nat (length ls) + len) || negb (octets_ok 16 a len) then None
                else Some (NLab6 ls a len)
            | None => None
            end
        end
    | PVpn ls d s len =>
        match rd_from_api d with
        | None => None
        | Some d' =>
            match ip4_of_string s with
            | Some a =>
                if (32 <? len) || existsb (fun l => 1048575 <? l) ls || Nat.eqb (length ls) 0 || (255 <? 24 * N.of_nat (length ls) + 64 + len) || negb (octets_ok 4 a len) then None
                else Some (NVpn4 ls d' a len)
            | None =>
                match v6r s with
                | Some a =>
                    if (128 <? len) || existsb (fun l => 1048575 <? l) ls || Nat.eqb (length ls) 0 || (255 <? 24 * N.of_nat (length ls) + 64 + len) || negb (octets_ok 16 a len) then None
                    else Some (NVpn6 ls d' a len)
                | None => None
                end
            end
        end
    | PMissing | POther => None
    end.

  (* before the fix: the length was truncated to a u8 and nothing was checked *)
  Definition net_from_api_v0 (x : api_nlri) : option nlri :=
    match x with
    | PLabeled ls s len =>
        match ip4_of_string s with
        | Some a => Some (NLab4 (map (fun l => l mod 1048576) ls) a (len mod 256))
        | None =>
            match v6r s with
            | Some a => Some (NLab6 (map (fun l => l mod 1048576) ls) a (len mod 256))
            | None => None
            end
        end
    | _ => net_from_api x
    end.

  (* Ipv4Net::encode / Ipv6Net::encode / LabeledV4Nlri::encode: the bytes, or a panic
     (index past the address octets; u8 addition overflow in a debug build) *)
  Definition addr_bytes (width : nat) (a : N) (mask : N) : res (list N) :=
    let n := N.to_nat ((mask + 7) / 8) in
    if Nat.leb n width then Ok (firstn n (to_bytes width a)) else Panic 5.

  Fixpoint label_bytes (ls : list N) : list N :=
    match ls with
    | [] => []
    | [l] => to_bytes 3 (l * 16 + 1)
    | l :: r => to_bytes 3 (l * 16) ++ label_bytes r
    end.

  Definition encode_nlri (p : profile) (n : nlri) : res (list N) :=
    match n with
    | NV4 a m => b <- addr_bytes 4 a m ;; Ok (m :: b)
    | NV6 a m => b <- addr_bytes 16 a m ;; Ok (m :: b)
    | NLab4 ls a m | NLab6 ls a m =>
        let width := match n with NLab4 _ _ _ => 4%nat | _ => 16%nat end in
        let lb := (24 * N.of_nat (length ls)) mod 256 in
        if (255 <? lb + m) && (match p with Debug => true | Release => false end) then Panic 7
        else b <- addr_bytes width a m ;; Ok ((lb + m) mod 256 :: label_bytes ls ++ b)
    | NVpn4 ls d a m | NVpn6 ls d a m =>
        let width := match n with NVpn4 _ _ _ _ => 4%nat | _ => 16%nat end in
        let lb := (24 * N.of_nat (length ls)) mod 256 in
        if (255 <? lb + 64 + m) && (match p with Debug => true | Release => false end) then Panic 7
        else b <- addr_bytes width a m ;; Ok ((lb + 64 + m) mod 256 :: label_bytes ls ++ rd_bytes d ++ b)
    end.
End Nlri.

(* ------------------------------------------------------------------ *)
(* EVPN NLRI (packet/src/evpn.rs, evpn_nlri_to_api and the five Evpn* arms of
   net_from_api)                                                          *)
Inductive ipaddr : Type := IP4 (a : N) | IP6 (a : N).

Inductive evpn : Type :=
| EvAd (d : rd) (esi : list N) (etag label : N)
| EvMac (d : rd) (esi : list N) (etag : N) (mac : list N) (ip : option ipaddr) (label1 : N) (label2 : option N)
| EvImet (d : rd) (etag : N) (ip : ipaddr)
| EvEs (d : rd) (esi : list N) (ip : ipaddr)
| EvPfx (d : rd) (esi : list N) (etag : N) (pfx : ipaddr) (plen : N) (gw : ipaddr) (label : N).

(* api::EthernetSegmentIdentifier { type, value } or absent *)
Definition api_esi : Type := option (N * list N).

Inductive api_evpn : Type :=
| AEvAd (d : api_rd) (esi : api_esi) (etag label : N)
| AEvMac (d : api_rd) (esi : api_esi) (etag : N) (mac ip : list N) (labels : list N)
| AEvImet (d : api_rd) (etag : N) (ip : list N)
| AEvEs (d : api_rd) (esi : api_esi) (ip : list N)
| AEvPfx (d : api_rd) (esi : api_esi) (etag : N) (pfx : list N) (plen : N) (gw : list N) (label : N).

(* format!("{:02x}") and u8::from_str_radix(_, 16): optional '+', at least one hex
   digit, value within u8 *)
Definition hex2 (b : N) : list N := [hexd (b / 16); hexd (b mod 16)].

Fixpoint join_mac (l : list N) : list N :=
  match l with
  | [] => []
  | [b] => hex2 b
  | b :: r => hex2 b ++ COLON :: join_mac r
  end.

Fixpoint hex_u8 (l : list N) (acc : N) : option N :=
  match l with
  | [] => Some acc
  | c :: r =>
      match hexval c with
      | Some d => if 255 <? acc * 16 + d then None else hex_u8 r (acc * 16 + d)
      | None => None
      end
  end.

Definition parse_hex_u8 (p : list N) : option N :=
  let ds := match p with 43 :: r => r | _ => p end in
  match ds with [] => None | _ => hex_u8 ds 0 end.

Fixpoint parse_mac_parts (ps : list (list N)) : option (list N) :=
  match ps with
  | [] => Some []
  | p :: r =>
      match parse_hex_u8 p, parse_mac_parts r with
      | Some b, Some bs => Some (b :: bs)
      | _, _ => None
      end
  end.

Definition parse_mac (s : list N) : option (list N) :=
  let ps := split_on COLON s in
  if Nat.eqb (length ps) 6 then parse_mac_parts ps else None.

Section Evpn.
  Variable v6p : N -> list N.
  Variable v6r : list N -> option N.

  Definition ip_to_string (i : ipaddr) : list N :=
    match i with IP4 a => ip4_to_string a | IP6 a => v6p a end.

  (* str::parse::<IpAddr>: an IPv4 address, else an IPv6 address *)
  Definition ip_of_string (s : list N) : option ipaddr :=
    match ip4_of_string s with
    | Some a => Some (IP4 a)
    | None => match v6r s with Some a => Some (IP6 a) | None => None end
    end.

  Definition esi_to_api (e : list N) : api_esi :=
    match e with t :: v => Some (t, v) | [] => Some (0, []) end.

  (* after the fix commit: the type must fit the one octet it is stored in *)
  Definition esi_from_api (e : api_esi) : option (list N) :=
    match e with
    | None => None
    | Some (t, v) => if Nat.eqb (length v) 9 && (t <? 256) then Some (t :: v) else None
    end.

  Definition evpn_to_api (e : evpn) : api_evpn :=
    match e with
    | EvAd d esi etag label => AEvAd (rd_to_api d) (esi_to_api esi) etag label
    | EvMac d esi etag mac ip l1 l2 =>
        AEvMac (rd_to_api d) (esi_to_api esi) etag (join_mac mac)
               (match ip with Some i => ip_to_string i | None => [] end)
               (l1 :: match l2 with Some l => [l] | None => [] end)
    | EvImet d etag ip => AEvImet (rd_to_api d) etag (ip_to_string ip)
    | EvEs d esi ip => AEvEs (rd_to_api d) (esi_to_api esi) (ip_to_string ip)
    | EvPfx d esi etag pfx plen gw label =>
        AEvPfx (rd_to_api d) (esi_to_api esi) etag (ip_to_string pfx) plen (ip_to_string gw) label
    end.

  Definition label_ok (l : N) : bool := l <? 16777216.
  Definition same_family (a b : ipaddr) : bool :=
    match a, b with IP4 _, IP4 _ | IP6 _, IP6 _ => true | _, _ => false end.
  Definition ip_width (a : ipaddr) : N := match a with IP4 _ => 32 | IP6 _ => 128 end.

  (* the Evpn* arms of net_from_api after the fix commit: labels are 24-bit values,
     at most two of them, the prefix length is within the prefix's address width and
     the gateway is of the prefix's family *)
  Definition evpn_from_api (x : api_evpn) : option evpn :=
    match x with
    | AEvAd d esi etag label =>
        match rd_from_api d, esi_from_api esi with
        | Some d', Some e => if label_ok label then Some (EvAd d' e etag label) else None
        | _, _ => None
        end
    | AEvMac d esi etag mac ip labels =>
        match rd_from_api d, esi_from_api esi, parse_mac mac with
        | Some d', Some e, Some m =>
            let ipo := match ip with [] => Some None
                       | _ => match ip_of_string ip with Some i => Some (Some i) | None => None end end in
            match ipo, labels with
            | Some i, [l1] => if label_ok l1 then Some (EvMac d' e etag m i l1 None) else None
            | Some i, [l1; l2] => if label_ok l1 && label_ok l2 then Some (EvMac d' e etag m i l1 (Some l2)) else None
            | _, _ => None
            end
        | _, _, _ => None
        end
    | AEvImet d etag ip =>
        match rd_from_api d, ip_of_string ip with
        | Some d', Some i => Some (EvImet d' etag i)
        | _, _ => None
        end
    | AEvEs d esi ip =>
        match rd_from_api d, esi_from_api esi, ip_of_string ip with
        | Some d', Some e, Some i => Some (EvEs d' e i)
        | _, _, _ => None
        end
    | AEvPfx d esi etag pfx plen gw label =>
        match rd_from_api d, esi_from_api esi, ip_of_string pfx with
        | Some d', Some e, Some p =>
            if ip_width p <? plen then None
            else
              let gwo := match gw with
                         | [] => Some (match p with IP4 _ => IP4 0 | IP6 _ => IP6 0 end)
                         | _ => ip_of_string gw
                         end in
              match gwo with
              | Some g => if same_family p g && label_ok label then Some (EvPfx d' e etag p plen g label) else None
              | None => None
              end
        | _, _, _ => None
        end
    end.
End Evpn.

Definition v_ip (i : ipaddr) : val :=
  match i with IP4 a => VL [VI 4; VN a] | IP6 a => VL [VI 6; VNs (to_bytes 16 a)] end.

Definition v_evpn (e : evpn) : val :=
  match e with
  | EvAd d esi etag label => VL [VI 1; VNs (rd_bytes d); VNs esi; VN etag; VN label]
  | EvMac d esi etag mac ip l1 l2 =>
      VL [VI 2; VNs (rd_bytes d); VNs esi; VN etag; VNs mac; VOpt v_ip ip; VN l1; VOpt VN l2]
  | EvImet d etag ip => VL [VI 3; VNs (rd_bytes d); VN etag; v_ip ip]
  | EvEs d esi ip => VL [VI 4; VNs (rd_bytes d); VNs esi; v_ip ip]
  | EvPfx d esi etag pfx plen gw label =>
      VL [VI 5; VNs (rd_bytes d); VNs esi; VN etag; v_ip pfx; VN plen; v_ip gw; VN label]
  end.

Definition v_api_rd0 (d : api_rd) : val :=
  match d with
  | ARdMissing => VL [VI 0]
  | ARd2 a b => VL [VI 1; VN a; VN b]
  | ARdIp s b => VL [VI 2; VNs s; VN b]
  | ARd4 a b => VL [VI 3; VN a; VN b]
  end.

Definition v_api_esi (e : api_esi) : val :=
  match e with None => VL [] | Some (t, v) => VL [VN t; VNs v] end.

Definition v_api_evpn (x : api_evpn) : val :=
  match x with
  | AEvAd d esi etag label => VL [VI 1; v_api_rd0 d; v_api_esi esi; VN etag; VN label]
  | AEvMac d esi etag mac ip labels => VL [VI 2; v_api_rd0 d; v_api_esi esi; VN etag; VNs mac; VNs ip; VNs labels]
  | AEvImet d etag ip => VL [VI 3; v_api_rd0 d; VN etag; VNs ip]
  | AEvEs d esi ip => VL [VI 4; v_api_rd0 d; v_api_esi esi; VNs ip]
  | AEvPfx d esi etag pfx plen gw label =>
      VL [VI 5; v_api_rd0 d; v_api_esi esi; VN etag; VNs pfx; VN plen; VNs gw; VN label]
  end.

(* ------------------------------------------------------------------ *)
(* Flowspec NLRI (packet/src/flowspec.rs; flowspec_v4/v6_to_rules, rules_to_v4/v6_components,
   items_to_ops and the FlowSpec / VpnFlowSpec arms of net_from_api)                       *)
Inductive fs_comp : Type :=
| FsPfx (t addr mask off : N)          (* t = 1 destination, 2 source; off is the IPv6 offset (0 for IPv4) *)
| FsOps (t : N) (ops : list (N * N)).  (* numeric / bitmask component: operators (bits, value) *)

(* v6: the IPv6 families; d: the route distinguisher of the VPN families *)
Inductive fs_nlri : Type := FsN (v6 : bool) (d : option rd) (comps : list fs_comp).

Inductive api_fs_rule : Type :=
| FRMissing
| FRPrefix (t plen : N) (s : list N) (off : N)
| FRComp (t : N) (items : list (N * N))
| FRMac.

Inductive api_fs : Type :=
| AFs (rules : list api_fs_rule)
| AFsVpn (d : api_rd) (rules : list api_fs_rule).

(* Op::len_order: the value travels in 1, 2, 4 or 8 octets *)
Definition op_octets (v : N) : N :=
  if v <=? 255 then 1 else if v <=? 65535 then 2 else if v <=? 4294967295 then 4 else 8.

Definition fs_comp_len (v6 : bool) (c : fs_comp) : N :=
  match c with
  | FsPfx _ _ m _ => (if v6 then 3 else 2) + (m + 7) / 8
  | FsOps _ ops => 1 + fold_right (fun o acc => 1 + op_octets (snd o) + acc) 0 ops
  end.

Definition fs_body_len (n : fs_nlri) : N :=
  match n with
  | FsN v6 d comps => (match d with Some _ => 8 | None => 0 end) + fold_right (fun c acc => fs_comp_len v6 c + acc) 0 comps
  end.

(* the operator bits the decoder keeps: comparison bits 0..3 and AND (bit 6); bits 4,5
   (length) and 7 (end of list) are framing *)
Definition op_core_bits (b : N) : N := b mod 16 + ((b / 64) mod 2) * 64.

Fixpoint ops_from_items (items : list (N * N)) : option (list (N * N)) :=
  match items with
  | [] => Some []
  | (op, v) :: r =>
      if 255 <? op then None
      else match ops_from_items r with
           | Some ops => Some ((match r with [] => op_core_bits op + 128 | _ => op_core_bits op end, v) :: ops)
           | None => None
           end
  end.

Section Flowspec.
  Variable v6p : N -> list N.
  Variable v6r : list N -> option N.

  Definition fs_comp_to_api (v6 : bool) (c : fs_comp) : api_fs_rule :=
    match c with
    | FsPfx t a m off => FRPrefix t m (if v6 then v6p a else ip4_to_string a) (if v6 then off else 0)
    | FsOps t ops => FRComp t ops
    end.

  Definition fs_to_api (n : fs_nlri) : api_fs :=
    match n with
    | FsN v6 None comps => AFs (map (fs_comp_to_api v6) comps)
    | FsN v6 (Some d) comps => AFsVpn (rd_to_api d) (map (fs_comp_to_api v6) comps)
    end.

  Definition fs_rule_from_api (v6 : bool) (r : api_fs_rule) : option fs_comp :=
    match r with
    | FRMissing | FRMac => None
    | FRPrefix t plen s off =>
        match (if v6 then v6r s else ip4_of_string s) with
        | None => None
        | Some a =>
            let w := if v6 then 16 else 4 in
            if (8 * w <? plen) || negb (octets_ok w a plen) || (v6 && (255 <? off)) || negb ((t =? 1) || (t =? 2))
            then None else Some (FsPfx t a plen (if v6 then off else 0))
        end
    | FRComp t items =>
        match items with
        | [] => None
        | _ =>
            match ops_from_items items with
            | None => None
            | Some ops => if (3 <=? t) && (t <=? (if v6 then 13 else 12)) then Some (FsOps t ops) else None
            end
        end
    end.

  Fixpoint fs_rules_from_api (v6 : bool) (rs : list api_fs_rule) : option (list fs_comp) :=
    match rs with
    | [] => Some []
    | r :: rest =>
        match fs_rule_from_api v6 r, fs_rules_from_api v6 rest with
        | Some c, Some cs => Some (c :: cs)
        | _, _ => None
        end
    end.

  (* family = afi * 65536 + safi: 1/133, 2/133 plain; 1/134, 2/134 VPN *)
  Definition fs_from_api (family : N) (x : api_fs) : option fs_nlri :=
    let checked (n : fs_nlri) := if 4095 <? fs_body_len n then None else Some n in
    match x with
    | AFs rules =>
        if family =? 65669 then match fs_rules_from_api false rules with Some cs => checked (FsN false None cs) | None => None end
        else if family =? 131205 then match fs_rules_from_api true rules with Some cs => checked (FsN true None cs) | None => None end
        else None
    | AFsVpn d rules =>
        match rd_from_api d with
        | None => None
        | Some d' =>
            if family =? 65670 then match fs_rules_from_api false rules with Some cs => checked (FsN false (Some d') cs) | None => None end
            else if family =? 131206 then match fs_rules_from_api true rules with Some cs => checked (FsN true (Some d') cs) | None => None end
            else None
        end
    end.
End Flowspec.

(* ------------------------------------------------------------------ *)
(* SR Policy NLRI and Route Target Constraint NLRI                        *)
Inductive srp : Type := SrP (v6 : bool) (dist color endpoint : N).
Inductive api_srp : Type := ASrP (length dist color : N) (endpoint : list N).

Definition srp_to_api (n : srp) : api_srp :=
  match n with SrP v6 d c e => ASrP (if v6 then 192 else 96) d c (to_bytes (if v6 then 16 else 4) e) end.

Definition srp_from_api (x : api_srp) : option srp :=
  match x with
  | ASrP _ d c e =>
      if Nat.eqb (length e) 4 then Some (SrP false d c (of_bytes e))
      else if Nat.eqb (length e) 16 then Some (SrP true d c (of_bytes e))
      else None
  end.

Inductive rtc : Type := RtcWild | RtcAs (asn : N) | RtcExact (asn : N) (rt : list N).

Inductive api_rt : Type :=
| RtMissing                                  (* RouteTarget without its oneof *)
| Rt2 (tr : bool) (sub asn la : N)
| RtIp (tr : bool) (sub : N) (addr : list N) (la : N)
| Rt4 (tr : bool) (sub asn la : N).

Inductive api_rtc : Type := ARtc (asn : N) (rt : option api_rt).

Definition rt_to_api (rt : list N) : api_rt :=
  match rt with
  | [t; s; b2; b3; b4; b5; b6; b7] =>
      if t =? 0 then Rt2 true s (of_be16 b2 b3) (of_be32 b4 b5 b6 b7)
      else if t =? 1 then RtIp true s (ip4_to_string (of_be32 b2 b3 b4 b5)) (of_be16 b6 b7)
      else Rt4 true s (of_be32 b2 b3 b4 b5) (of_be16 b6 b7)
  | _ => RtMissing
  end.

Definition rt_from_api (x : api_rt) : option (list N) :=
  match x with
  | RtMissing => None
  | Rt2 _ sub asn la => if negb (sub =? 2) || (65535 <? asn) then None else Some (0 :: 2 :: be16 asn ++ be32 la)
  | RtIp _ sub addr la =>
      if negb (sub =? 2) || (65535 <? la) then None
      else match ip4_of_string addr with Some a => Some (1 :: 2 :: be32 a ++ be16 la) | None => None end
  | Rt4 _ sub asn la => if negb (sub =? 2) || (65535 <? la) then None else Some (2 :: 2 :: be32 asn ++ be16 la)
  end.

Definition rtc_to_api (n : rtc) : api_rtc :=
  match n with
  | RtcWild => ARtc 0 None
  | RtcAs a => ARtc a None
  | RtcExact a rt => ARtc a (Some (rt_to_api rt))
  end.

Definition rtc_from_api (x : api_rtc) : option rtc :=
  match x with
  | ARtc a None => Some (if a =? 0 then RtcWild else RtcAs a)
  | ARtc a (Some rt) => match rt_from_api rt with Some b => Some (RtcExact a b) | None => None end
  end.

Definition v_api_fs_rule (r : api_fs_rule) : val :=
  match r with
  | FRMissing => VL [VI 0]
  | FRPrefix t m s off => VL [VI 1; VN t; VN m; VNs s; VN off]
  | FRComp t items => VL [VI 2; VN t; VList (fun o => VL [VN (fst o); VN (snd o)]) items]
  | FRMac => VL [VI 3]
  end.

Definition v_api_fs (x : api_fs) : val :=
  match x with
  | AFs rules => VL [VI 10; VList v_api_fs_rule rules]
  | AFsVpn d rules => VL [VI 11; v_api_rd0 d; VList v_api_fs_rule rules]
  end.

Definition v_api_rt (x : option api_rt) : val :=
  match x with
  | None => VL []
  | Some RtMissing => VL [VI 0]
  | Some (Rt2 tr s a l) => VL [VI 1; VB tr; VN s; VN a; VN l]
  | Some (RtIp tr s a l) => VL [VI 2; VB tr; VN s; VNs a; VN l]
  | Some (Rt4 tr s a l) => VL [VI 3; VB tr; VN s; VN a; VN l]
  end.

(* wire encodings (Nlri::encode) of the three families *)
Definition fs_op_bytes (o : N * N) : list N :=
  let k := op_octets (snd o) in
  let order := if k =? 1 then 0 else if k =? 2 then 1 else if k =? 4 then 2 else 3 in
  (* bits | (order << 4): the length bits of [bits] are clear in every value the converters build *)
  (fst o + order * 16) :: to_bytes (N.to_nat k) (snd o).

Definition fs_comp_bytes (v6 : bool) (c : fs_comp) : list N :=
  match c with
  | FsPfx t a m off =>
      t :: m :: (if v6 then [off] else []) ++ firstn (N.to_nat ((m + 7) / 8)) (to_bytes (if v6 then 16 else 4) a)
  | FsOps t ops => t :: flat_map fs_op_bytes ops
  end.

Definition fs_encode (n : fs_nlri) : list N :=
  match n with
  | FsN v6 d comps =>
      let body := (match d with Some d' => rd_bytes d' | None => [] end) ++ flat_map (fs_comp_bytes v6) comps in
      let len := N.of_nat (length body) in
      (if len <? 240 then [len] else [240 + len / 256; len mod 256]) ++ body
  end.

Definition srp_encode (n : srp) : list N :=
  match n with SrP v6 d c e => (if v6 then 192 else 96) :: be32 d ++ be32 c ++ to_bytes (if v6 then 16 else 4) e end.

Definition rtc_encode (n : rtc) : list N :=
  match n with
  | RtcWild => [0]
  | RtcAs a => 32 :: be32 a
  | RtcExact a rt => 96 :: be32 a ++ rt
  end.

(* kind 8, modelled families.  The observation compared is [accepted; decodes back; relisted; API form
   listed for the accepted value] (what the harness prints in positions 0, 3, 4, 5). *)
Definition run_api_fs_case (family : N) (x : api_fs) : val :=
  match fs_from_api v6_parse family x with
  | None => VL [VI 0]
  | Some n =>
      let y := fs_to_api v6_print n in
      VL [VI 1; VNs (fs_encode n); VI 1; VI (match fs_from_api v6_parse family y with Some n' => 0 | None => 2 end); v_api_fs y]
  end.

Definition srp_family_ok (n : srp) (family : N) : bool :=
  match n with SrP v6 _ _ _ => family =? (if v6 then 131145 else 65609) end.

Definition run_api_srp_case (family : N) (x : api_srp) : val :=
  match srp_from_api x with
  | None => VL [VI 0]
  | Some n =>
      if negb (srp_family_ok n family) then VL [VI 0] else
      match srp_to_api n with
      | ASrP l d c e => VL [VI 1; VNs (srp_encode n); VI 1; VI 0; VL [VI 12; VN l; VN d; VN c; VNs e]]
      end
  end.

Definition run_api_rtc_case (family : N) (x : api_rtc) : val :=
  match rtc_from_api x with
  | None => VL [VI 0]
  | Some n =>
      if negb (family =? 65668) then VL [VI 0] else
      match rtc_to_api n with
      | ARtc a rt =>
          VL [VI 1; VNs (rtc_encode n); VI 1; VI (match rtc_from_api (rtc_to_api n) with Some n' => 0 | None => 2 end);
              VL [VI 13; VN a; v_api_rt rt]]
      end
  end.

(* kind 6: an API EVPN message (the last element: the accepted route survives its own
   wire encoding, which the harness checks by decoding Nlri::encode's bytes);
   kind 7: an internal EVPN route *)
Definition run_api_evpn_case (x : api_evpn) : val :=
  match evpn_from_api v6_parse x with
  | None => VL [VI 0]
  | Some e => VL [VI 1; v_evpn e; VI 1]
  end.

Definition run_evpn_case (e : evpn) : val :=
  let x := evpn_to_api v6_print e in
  VL [v_api_evpn x; match evpn_from_api v6_parse x with Some e' => VL [VI 1; v_evpn e'] | None => VL [VI 0] end].

Definition v_nlri (n : nlri) : val :=
  match n with
  | NV4 a m => VL [VI 4; VN a; VN m]
  | NV6 a m => VL [VI 6; VNs (to_bytes 16 a); VN m]
  | NLab4 ls a m => VL [VI 14; VNs ls; VN a; VN m]
  | NLab6 ls a m => VL [VI 16; VNs ls; VNs (to_bytes 16 a); VN m]
  | NVpn4 ls d a m => VL [VI 24; VNs ls; VNs (rd_bytes d); VN a; VN m]
  | NVpn6 ls d a m => VL [VI 26; VNs ls; VNs (rd_bytes d); VNs (to_bytes 16 a); VN m]
  end.

Definition v_api_rd (d : api_rd) : val :=
  match d with
  | ARdMissing => VL [VI 0]
  | ARd2 a b => VL [VI 1; VN a; VN b]
  | ARdIp s b => VL [VI 2; VNs s; VN b]
  | ARd4 a b => VL [VI 3; VN a; VN b]
  end.

Definition v_api_nlri (x : api_nlri) : val :=
  match x with
  | PMissing => VL [VI 0]
  | PPrefix s l => VL [VI 1; VNs s; VN l]
  | PLabeled ls s l => VL [VI 2; VNs ls; VNs s; VN l]
  | PVpn ls d s l => VL [VI 3; VNs ls; v_api_rd d; VNs s; VN l]
  | POther => VL [VI 99]
  end.

Definition v_onlri (o : option nlri) : val :=
  match o with Some n => VL [VI 1; v_nlri n] | None => VL [VI 0] end.

(* ------------------------------------------------------------------ *)
(* GrpcService::local_path: family, NLRI, then the attributes one by one      *)
(* convert::nlri_matches_family for the modelled NLRI kinds (family = afi * 65536 + safi) *)
Definition nlri_matches_family (n : nlri) (family : N) : bool :=
  match n with
  | NV4 _ _ => (family =? 65537) || (family =? 65538)
  | NV6 _ _ => (family =? 131073) || (family =? 131074)
  | NLab4 _ _ _ => family =? 65540
  | NLab6 _ _ _ => family =? 131076
  | NVpn4 _ _ _ _ => family =? 65664
  | NVpn6 _ _ _ _ => family =? 131200
  end.

Section LocalPath.
  Variable v6r : list N -> option N.

  (* bgp::Nexthop::from_bytes followed by to_bytes: the bytes the path keeps *)
  Definition nexthop_from_bytes (b : list N) : option (list N) :=
    if Nat.eqb (length b) 4 || Nat.eqb (length b) 16 then Some b
    else if Nat.eqb (length b) 32 then
      (if forallb (fun x => x =? 0) (skipn 16 b) then Some (firstn 16 b) else Some b)
    else None.

  Definition is_flowspec (fam : N) : bool :=
    (fam =? 65669) || (fam =? 131205) || (fam =? 65670) || (fam =? 131206).

  Fixpoint lp_loop (fam : N) (xs : list api_attr) (acc : list attr) (nh : option (list N))
    : option (list attr * option (list N)) :=
    match xs with
    | [] => Some (acc, nh)
    | x :: r =>
        match from_api v6r x with
        | Ok (Some a) =>
            let c := a_code a in
            if c =? MP_REACH then
              match a_data a with
              | DVal _ => None
              | DBin b | DOpaque b =>
                  let nh_len := nth 3 b 1 in
                  let nexthop :=
                    match nth_error b 3 with
                    | None => None
                    | Some len =>
                        if Nat.ltb (length b) (5 + N.to_nat len) then None
                        else nexthop_from_bytes (firstn (N.to_nat len) (skipn 4 b))
                    end in
                  match nexthop with
                  | None => if (nh_len =? 0) && is_flowspec fam then lp_loop fam r acc None else None
                  | Some _ => lp_loop fam r acc nexthop
                  end
              end
            else if c =? NEXTHOP then
              lp_loop fam r acc (match a_data a with DVal _ => None | DBin b | DOpaque b => nexthop_from_bytes b end)
            else if (c =? ORIGINATOR_ID) || (c =? CLUSTER_LIST) || (c =? MP_UNREACH) then lp_loop fam r acc nh
            else lp_loop fam r (acc ++ [a]) nh
        | _ => None
        end
    end.

  Definition with_defaults (k : list attr) : list attr :=
    let k1 := if existsb (fun a => a_code a =? ORIGIN) k then k else k ++ [mkAttr ORIGIN 64 (DVal 0)] in
    if existsb (fun a => a_code a =? AS_PATH) k1 then k1 else k1 ++ [mkAttr AS_PATH 64 (DBin [])].

  (* family: Some (afi * 65536 + safi) or absent (IPv4 unicast) *)
  Definition local_path (fam : option N) (n : api_nlri) (xs : list api_attr)
    : option (N * nlri * list attr * option (list N)) :=
    let family := match fam with Some f => f | None => 65537 end in
    if (65535 <? family / 65536) || (255 <? family mod 65536) then None else
    match net_from_api v6r n with
    | None => None
    | Some net =>
        if negb (nlri_matches_family net family) then None else
        match lp_loop family xs [] None with
        | None => None
        | Some (acc, nh) => Some (family, net, with_defaults acc, nh)
        end
    end.
End LocalPath.

Definition run_local_path_case (fam : option N) (n : api_nlri) (xs : list api_attr) (id : N) : val :=
  match local_path v6_parse fam n xs with
  | None => VL [VI 0]
  | Some (family, net, attrs, nh) =>
      VL [VI 1; VN family; v_nlri net; VN id; VList v_attr attrs;
          VNs (match nh with Some b => b | None => [] end);
          v_res (fun z => VB (z <? 0)%Z) (rib_cmp attrs 2 competitor 1)]
  end.

(* kind 2: an API NLRI message; kind 3: an internal NLRI value *)
Definition run_api_nlri_case (p : profile) (x : api_nlri) : val :=
  match net_from_api v6_parse x with
  | None => VL [VI 0]
  | Some n => VL [VI 1; v_nlri n; v_res (fun b => VNs b) (encode_nlri p n);
                  v_onlri (net_from_api v6_parse (nlri_to_api v6_print n))]
  end.

Definition run_nlri_case (n : nlri) : val :=
  let x := nlri_to_api v6_print n in
  VL [v_api_nlri x; v_onlri (net_from_api v6_parse x)].

Definition run_wire_case := run_wire v6_print v6_parse.
Definition run_api_case := run_api v6_print v6_parse.

(* ================================================================== *)
(* Typed messages of the attributes whose value is a TLV tree          *)
(* (daemon/src/convert.rs prefix_sid_from_api / prefix_sid_to_api,     *)
(*  tunnel_encap_tlv_from_api / tunnel_encap_tlv_to_api and the        *)
(*  encoders of packet/src/prefix_sid.rs, packet/src/tunnel_encap.rs)  *)

(* every element converts, or the whole list is refused (the `?` inside a for loop) *)
Fixpoint opt_all {A B} (f : A -> option B) (l : list A) : option (list B) :=
  match l with
  | [] => Some []
  | x :: r => match f x, opt_all f r with Some y, Some ys => Some (y :: ys) | _, _ => None end
  end.

(* [type][length: 2 octets][value]: `value.len() as u16` *)
Definition tlv16 (t : N) (v : list N) : list N := t :: be16 (N.of_nat (length v)) ++ v.
(* [type][length: 1 octet][value]: `body.len() as u8` *)
Definition tlv8 (t : N) (v : list N) : list N := t :: (N.of_nat (length v) mod 256) :: v.

(* ---- PREFIX_SID: SRv6 L3 / L2 service TLVs *)
Inductive psst : Type := PsSt (a b c d e f : N).                            (* SID structure sub-sub-TLV *)
Inductive ps_info : Type := PsInfo (sid : list N) (beh : N) (structs : list psst).
Inductive ps_tlv : Type := PsSvc (l2 : bool) (infos : list ps_info).
Definition psid : Type := list ps_tlv.

(* a prost map is given as the list of its entries in iteration order *)
Inductive api_psst : Type := APsStMissing | APsSt (a b c d e f : N).
Inductive api_ps_info : Type := APsInfoMissing | APsInfo (sid : list N) (beh : N) (subsub : list (N * list api_psst)).
Inductive api_ps_tlv : Type := APsMissing | APsSvc (l2 : bool) (subs : list (N * list api_ps_info)).

Definition psst_from_api (x : api_psst) : option psst :=
  match x with
  | APsStMissing => None
  | APsSt a b c d e f =>
      if (255 <? a) || (255 <? b) || (255 <? c) || (255 <? d) || (255 <? e) || (255 <? f) then None
      else Some (PsSt a b c d e f)
  end.

Definition ps_info_from_api (x : api_ps_info) : option ps_info :=
  match x with
  | APsInfoMissing => None
  | APsInfo sid beh ss =>
      if negb (Nat.eqb (length sid) 16) then None
      else if 65535 <? beh then None
      else match opt_all psst_from_api (flat_map snd ss) with
           | Some l => Some (PsInfo sid beh l)
           | None => None
           end
  end.

Definition ps_tlv_from_api (x : api_ps_tlv) : option ps_tlv :=
  match x with
  | APsMissing => None
  | APsSvc l2 subs =>
      match opt_all ps_info_from_api (flat_map snd subs) with
      | Some l => Some (PsSvc l2 l)
      | None => None
      end
  end.

Definition psid_from_api (x : list api_ps_tlv) : option psid := opt_all ps_tlv_from_api x.

Definition psst_bytes (s : psst) : list N := match s with PsSt a b c d e f => tlv16 1 [a; b; c; d; e; f] end.
Definition ps_info_value (i : ps_info) : list N :=
  match i with PsInfo sid beh ss => 0 :: sid ++ 0 :: be16 beh ++ 0 :: flat_map psst_bytes ss end.
Definition ps_info_bytes (i : ps_info) : list N := tlv16 1 (ps_info_value i).
Definition ps_tlv_value (t : ps_tlv) : list N := match t with PsSvc _ infos => 0 :: flat_map ps_info_bytes infos end.
Definition ps_tlv_bytes (t : ps_tlv) : list N :=
  tlv16 (match t with PsSvc l2 _ => if l2 then 6 else 5 end) (ps_tlv_value t).
Definition psid_encode (p : psid) : list N := flat_map ps_tlv_bytes p.

(* attr_from_api on a PrefixSid message *)
Definition from_api_psid (x : list api_ps_tlv) : res (option attr) :=
  match psid_from_api x with
  | Some p => len_check (new_with_bin PREFIX_SID (psid_encode p))
  | None => Ok None
  end.

Definition psst_to_api (s : psst) : api_psst := match s with PsSt a b c d e f => APsSt a b c d e f end.
Definition ps_info_to_api (i : ps_info) : api_ps_info :=
  match i with PsInfo sid beh ss => APsInfo sid beh (match ss with [] => [] | _ => [(1, map psst_to_api ss)] end) end.
Definition ps_tlv_to_api (t : ps_tlv) : api_ps_tlv :=
  match t with PsSvc l2 infos => APsSvc l2 (match infos with [] => [] | _ => [(1, map ps_info_to_api infos)] end) end.
Definition psid_to_api (p : psid) : list api_ps_tlv := map ps_tlv_to_api p.

(* ---- TUNNEL_ENCAP: SR Policy candidate path, raw value for the other tunnel types *)
Inductive ebs : Type := Ebs (beh bl nl fl al : N).
Inductive api_ebs : Type := AEbs (beh : Z) (bl nl fl al : N).          (* behavior is an int32 enumeration field *)

Definition ebs_from_api (e : api_ebs) : option ebs :=
  match e with
  | AEbs beh bl nl fl al =>
      if (beh <? 0)%Z || (65535 <? beh)%Z || (255 <? bl) || (255 <? nl) || (255 <? fl) || (255 <? al) then None
      else Some (Ebs (Z.to_N beh) bl nl fl al)
  end.
Definition ebs_to_api (e : ebs) : api_ebs := match e with Ebs beh bl nl fl al => AEbs (Z.of_N beh) bl nl fl al end.

Definition flag_bit (b : bool) (v : N) : N := if b then v else 0.
Definition segflags (f : option (bool * bool * bool * bool)) : N :=
  match f with
  | None => 0
  | Some (v, a, s, b) => flag_bit v 128 + flag_bit a 64 + flag_bit s 32 + flag_bit b 16
  end.
Definition bit_set (f v : N) : bool := negb ((f / v) mod 2 =? 0).

Inductive te_seg : Type := SegA (flags label : N) | SegB (flags : N) (sid : list N) (e : option ebs).
Inductive api_seg : Type :=
| ASegMissing
| ASegA (fl : option (bool * bool * bool * bool)) (label : N)
| ASegB (fl : option (bool * bool * bool * bool)) (sid : list N) (e : option api_ebs).

Definition seg_from_api (x : api_seg) : option te_seg :=
  match x with
  | ASegMissing => None
  | ASegA fl label => if 1048575 <? label then None else Some (SegA (segflags fl) label)
  | ASegB fl sid e =>
      if negb (Nat.eqb (length sid) 16) then None
      else match e with
           | None => Some (SegB (segflags fl) sid None)
           | Some e' => match ebs_from_api e' with Some e'' => Some (SegB (segflags fl) sid (Some e'')) | None => None end
           end
  end.

Inductive te_bsid : Type := BsMpls (flags label : N) | BsSrv6 (flags : N) (sid : list N).

Record te_cp : Type := mkCp {
  cp_pref : option (N * N);                          (* flags, preference *)
  cp_bsid : option te_bsid;                          (* sub-TLV 13 *)
  cp_bsid6 : option (N * list N * ebs);              (* sub-TLV 20: flags, SID, behaviour structure *)
  cp_enlp : option (N * N);
  cp_prio : option N;
  cp_segs : list (option (N * N) * list te_seg);     (* weight (flags, weight), segments *)
  cp_name : option (list N);
  cp_pname : option (list N)
}.
Definition cp_empty : te_cp := mkCp None None None None None [] None None.

Inductive te_tlv : Type := TeSr (cp : te_cp) | TeRaw (type : N) (v : list N).

Inductive api_te_sub : Type :=
| ATsMissing                                          (* the oneof is not set *)
| ATsOther                                            (* Encapsulation, Protocol, Color, EgressEndpoint, UdpDestPort *)
| ATsPref (flags pref : N)
| ATsBsidNone
| ATsBsidMpls (s i : bool) (sid : list N)
| ATsBsid6 (s i b : bool) (sid : list N) (e : option api_ebs)
| ATsEnlp (flags : N) (enlp : Z)
| ATsPrio (p : N)
| ATsName (n : list N)
| ATsSegList (w : option (N * N)) (segs : list api_seg)
| ATsUnknown (t : N) (v : list N).

(* std::str::from_utf8(..).is_ok() *)
Definition cont (b : N) : bool := (128 <=? b) && (b <=? 191).
Fixpoint utf8_valid (l : list N) : bool :=
  match l with
  | [] => true
  | b0 :: r =>
      if b0 <? 128 then utf8_valid r
      else if (194 <=? b0) && (b0 <=? 223) then
        match r with b1 :: r' => cont b1 && utf8_valid r' | _ => false end
      else if (224 <=? b0) && (b0 <=? 239) then
        match r with
        | b1 :: b2 :: r' =>
            (if b0 =? 224 then (160 <=? b1) && (b1 <=? 191)
             else if b0 =? 237 then (128 <=? b1) && (b1 <=? 159)
             else cont b1) && cont b2 && utf8_valid r'
        | _ => false
        end
      else if (240 <=? b0) && (b0 <=? 244) then
        match r with
        | b1 :: b2 :: b3 :: r' =>
            (if b0 =? 240 then (144 <=? b1) && (b1 <=? 191)
             else if b0 =? 244 then (128 <=? b1) && (b1 <=? 143)
             else cont b1) && cont b2 && cont b3 && utf8_valid r'
        | _ => false
        end
      else false
  end.

(* a sub-TLV that may appear once: a second one is refused *)
Definition once {A} (slot : option A) : bool := match slot with Some _ => false | None => true end.

Definition cp_step (cp : te_cp) (s : api_te_sub) : option te_cp :=
  match cp with
  | mkCp pref bsid bsid6 enlp prio segs name pname =>
      match s with
      | ATsMissing | ATsOther | ATsBsidNone => None
      | ATsPref f p =>
          if (255 <? f) || negb (once pref) then None else Some (mkCp (Some (f, p)) bsid bsid6 enlp prio segs name pname)
      | ATsBsidMpls sf i_ sid =>
          match sid with
          | [a; b; c; d] =>
              let entry := of_be32 a b c d in
              if negb (entry mod 4096 =? 0) || negb (once bsid) then None
              else Some (mkCp pref (Some (BsMpls (flag_bit sf 128 + flag_bit i_ 64) (entry / 4096))) bsid6 enlp prio segs name pname)
          | _ => None
          end
      | ATsBsid6 sf i_ bf sid e =>
          let flags := flag_bit sf 128 + flag_bit i_ 64 + flag_bit bf 32 in
          if negb (Nat.eqb (length sid) 16) then None
          else match e with
               | None => if once bsid then Some (mkCp pref (Some (BsSrv6 flags sid)) bsid6 enlp prio segs name pname) else None
               | Some e' =>
                   match ebs_from_api e' with
                   | Some e'' => if once bsid6 then Some (mkCp pref bsid (Some (flags, sid, e'')) enlp prio segs name pname) else None
                   | None => None
                   end
               end
      | ATsEnlp f e =>
          if (255 <? f) || (e <? 0)%Z || (255 <? e)%Z || negb (once enlp) then None
          else Some (mkCp pref bsid bsid6 (Some (f, Z.to_N e)) prio segs name pname)
      | ATsPrio p =>
          if (255 <? p) || negb (once prio) then None else Some (mkCp pref bsid bsid6 enlp (Some p) segs name pname)
      | ATsName n => if once name then Some (mkCp pref bsid bsid6 enlp prio segs (Some n) pname) else None
      | ATsSegList w gs =>
          if match w with Some (f, _) => 255 <? f | None => false end then None
          else match opt_all seg_from_api gs with
               | Some l => Some (mkCp pref bsid bsid6 enlp prio (segs ++ [(w, l)]) name pname)
               | None => None
               end
      | ATsUnknown t v =>
          if (t =? 130) && utf8_valid v && once pname then Some (mkCp pref bsid bsid6 enlp prio segs name (Some v)) else None
      end
  end.

Fixpoint cp_steps (cp : te_cp) (subs : list api_te_sub) : option te_cp :=
  match subs with
  | [] => Some cp
  | s :: r => match cp_step cp s with Some cp' => cp_steps cp' r | None => None end
  end.

Fixpoint raw_values (subs : list api_te_sub) : option (list N) :=
  match subs with
  | [] => Some []
  | ATsUnknown _ v :: r => match raw_values r with Some l => Some (v ++ l) | None => None end
  | _ => None
  end.

Definition SR_POLICY : N := 15.

Definition te_tlv_from_api (x : N * list api_te_sub) : option te_tlv :=
  let (t, subs) := x in
  if 65535 <? t then None
  else if t =? SR_POLICY then match cp_steps cp_empty subs with Some cp => Some (TeSr cp) | None => None end
  else match raw_values subs with Some v => Some (TeRaw t v) | None => None end.

Definition te_from_api (x : list (N * list api_te_sub)) : option (list te_tlv) := opt_all te_tlv_from_api x.

(* packet::tunnel_encap::encode *)
Definition ebs_seg_bytes (e : option ebs) : list N :=
  match e with Some (Ebs beh bl nl fl al) => be16 beh ++ [0; 0; bl; nl; fl; al] | None => [] end.
Definition seg_value (g : te_seg) : list N :=
  match g with
  | SegA f label => f :: 0 :: be32 (label * 4096)
  | SegB f sid e => f :: 0 :: sid ++ ebs_seg_bytes e
  end.
Definition seg_bytes (g : te_seg) : list N := tlv8 (match g with SegA _ _ => 1 | SegB _ _ _ => 13 end) (seg_value g).
Definition seglist_value (sl : option (N * N) * list te_seg) : list N :=
  0 :: (match fst sl with Some (f, w) => tlv8 9 (f :: 0 :: be32 w) | None => [] end) ++ flat_map seg_bytes (snd sl).
Definition opt_bytes {A B} (o : option A) (f : A -> list B) : list B := match o with Some x => f x | None => [] end.
Definition cp_bytes (cp : te_cp) : list N :=
  opt_bytes (cp_pref cp) (fun x => tlv8 12 (fst x :: 0 :: be32 (snd x)))
  ++ opt_bytes (cp_bsid cp) (fun x => match x with
                                      | BsMpls f l => tlv8 13 (f :: 0 :: be32 (l * 4096))
                                      | BsSrv6 f sid => tlv8 13 (f :: 0 :: sid)
                                      end)
  ++ opt_bytes (cp_bsid6 cp) (fun x => match x with
                                       | (f, sid, Ebs beh bl nl fl al) => tlv8 20 (f :: 0 :: sid ++ be16 beh ++ [bl; nl; fl; al])
                                       end)
  ++ opt_bytes (cp_enlp cp) (fun x => tlv8 14 [fst x; 0; snd x])
  ++ opt_bytes (cp_prio cp) (fun p => tlv8 15 [p; 0])
  ++ opt_bytes (cp_name cp) (fun n => tlv16 129 (0 :: n))
  ++ opt_bytes (cp_pname cp) (fun n => tlv16 130 (0 :: n))
  ++ flat_map (fun sl => tlv16 128 (seglist_value sl)) (cp_segs cp).

Definition te_tlv_value (t : te_tlv) : list N := match t with TeSr cp => cp_bytes cp | TeRaw _ v => v end.
Definition te_tlv_type (t : te_tlv) : N := match t with TeSr _ => SR_POLICY | TeRaw ty _ => ty end.
Definition te_tlv_bytes (t : te_tlv) : list N :=
  be16 (te_tlv_type t) ++ be16 (N.of_nat (length (te_tlv_value t))) ++ te_tlv_value t.
Definition te_encode (l : list te_tlv) : list N := flat_map te_tlv_bytes l.

(* attr_from_api on a TunnelEncap message *)
Definition from_api_te (x : list (N * list api_te_sub)) : res (option attr) :=
  match te_from_api x with
  | Some l => len_check (new_with_bin TUNNEL_ENCAP (te_encode l))
  | None => Ok None
  end.

(* tunnel_encap_tlv_to_api on the value as the decoder of packet/src/tunnel_encap.rs reads it: a type B
   segment's behaviour structure is read only under flag 0x40, a raw value has no typed sub-TLVs *)
Definition flags4 (f : N) : option (bool * bool * bool * bool) := Some (bit_set f 128, bit_set f 64, bit_set f 32, bit_set f 16).
Definition seg_to_api (g : te_seg) : api_seg :=
  match g with
  | SegA f label => ASegA (flags4 f) label
  | SegB f sid e => ASegB (flags4 f) sid (if bit_set f 64 then option_map ebs_to_api e else None)
  end.
Definition cp_to_api (cp : te_cp) : list api_te_sub :=
  opt_bytes (cp_pref cp) (fun x => [ATsPref (fst x) (snd x)])
  ++ opt_bytes (cp_bsid cp) (fun x => match x with
                                      | BsMpls f l => [ATsBsidMpls (bit_set f 128) (bit_set f 64) (be32 (l * 4096))]
                                      | BsSrv6 f sid => [ATsBsid6 (bit_set f 128) (bit_set f 64) false sid None]
                                      end)
  ++ opt_bytes (cp_bsid6 cp) (fun x => match x with
                                       | (f, sid, e) => [ATsBsid6 (bit_set f 128) (bit_set f 64) (bit_set f 32) sid (Some (ebs_to_api e))]
                                       end)
  ++ opt_bytes (cp_enlp cp) (fun x => [ATsEnlp (fst x) (Z.of_N (snd x))])
  ++ opt_bytes (cp_prio cp) (fun p => [ATsPrio p])
  ++ map (fun sl => ATsSegList (fst sl) (map seg_to_api (snd sl))) (cp_segs cp)
  ++ opt_bytes (cp_name cp) (fun n => [ATsName n])
  ++ opt_bytes (cp_pname cp) (fun n => [ATsUnknown 130 n]).
Definition te_tlv_to_api (t : te_tlv) : N * list api_te_sub :=
  match t with TeSr cp => (SR_POLICY, cp_to_api cp) | TeRaw ty _ => (ty, []) end.
Definition te_to_api (l : list te_tlv) : list (N * list api_te_sub) := map te_tlv_to_api l.

(* attr_to_api shows the typed message only when it gives the stored octets back *)
Definition te_lists_typed (l : list te_tlv) : bool :=
  match te_from_api (te_to_api l) with
  | Some l' => list_eqb (te_encode l') (te_encode l)
  | None => false
  end.

(* ---- kind 9: [accepted; value octets; the listing (typed message, or 99 for the raw form)] *)
Definition v_pair_list {A} (f : A -> val) (l : list A) : val := match l with [] => VL [] | _ => VL [VL [VI 1; VList f l]] end.
Definition v_psst (s : api_psst) : val :=
  match s with APsStMissing => VL [VI 0] | APsSt a b c d e f => VL [VI 1; VN a; VN b; VN c; VN d; VN e; VN f] end.
Definition v_ps_info (i : api_ps_info) : val :=
  match i with
  | APsInfoMissing => VL [VI 0]
  | APsInfo sid beh ss => VL [VI 1; VNs sid; VN beh; VList (fun e => VL [VN (fst e); VList v_psst (snd e)]) ss]
  end.
Definition v_ps_tlv (t : api_ps_tlv) : val :=
  match t with
  | APsMissing => VL [VI 0]
  | APsSvc l2 subs => VL [VI (if l2 then 4 else 3); VList (fun e => VL [VN (fst e); VList v_ps_info (snd e)]) subs]
  end.

Definition run_api_psid_case (x : list api_ps_tlv) : val :=
  match psid_from_api x with
  | None => VL [VI 0]
  | Some p =>
      let b := psid_encode p in
      if 65535 <? N.of_nat (length b) then VL [VI 0]
      else if Nat.ltb 1024 (length b) then VL [VI 1; v_bytes_c b; VL [VI (-7)]]     (* long value: the listing is not printed *)
      else VL [VI 1; v_bytes_c b; VList v_ps_tlv (psid_to_api p)]
  end.

Definition v_ebs (e : option api_ebs) : val :=
  match e with None => VL [] | Some (AEbs beh bl nl fl al) => VL [VI beh; VN bl; VN nl; VN fl; VN al] end.
Definition v_flags4 (f : option (bool * bool * bool * bool)) : val :=
  match f with None => VL [] | Some (v, a, s, b) => VL [VB v; VB a; VB s; VB b] end.
Definition v_seg (g : api_seg) : val :=
  match g with
  | ASegMissing => VL [VI 0]
  | ASegA fl label => VL [VI 1; v_flags4 fl; VN label]
  | ASegB fl sid e => VL [VI 2; v_flags4 fl; VNs sid; v_ebs e]
  end.
Definition v_te_sub (s : api_te_sub) : val :=
  match s with
  | ATsMissing => VL [VI 0]
  | ATsOther => VL [VI 8; VI 0]
  | ATsPref f p => VL [VI 1; VN f; VN p]
  | ATsBsidNone => VL [VI 2; VI 0]
  | ATsBsidMpls s i sid => VL [VI 2; VI 1; VB s; VB i; VNs sid]
  | ATsBsid6 s i b sid e => VL [VI 2; VI 2; VB s; VB i; VB b; VNs sid; v_ebs e]
  | ATsEnlp f e => VL [VI 3; VN f; VI e]
  | ATsPrio p => VL [VI 4; VN p]
  | ATsName n => VL [VI 5; VNs n]
  | ATsSegList w gs => VL [VI 6; match w with Some (f, x) => VL [VN f; VN x] | None => VL [] end; VList v_seg gs]
  | ATsUnknown t v => VL [VI 7; VN t; VNs v]
  end.

Definition run_api_te_case (x : list (N * list api_te_sub)) : val :=
  match te_from_api x with
  | None => VL [VI 0]
  | Some l =>
      let b := te_encode l in
      if 65535 <? N.of_nat (length b) then VL [VI 0]
      else if Nat.ltb 1024 (length b) then VL [VI 1; v_bytes_c b; VL [VI (-7)]]
      else VL [VI 1; v_bytes_c b;
               if te_lists_typed l then VList (fun t => VL [VN (fst t); VList v_te_sub (snd t)]) (te_to_api l) else VL [VI 99]]
  end.

(* ================================================================== *)
(* BGP-MUP NLRI (packet/src/mup.rs; convert.rs mup_nlri_to_api, the four Mup arms of      *)
(* net_from_api, parse_prefix)                                                              *)
Inductive mup : Type :=
| MupIsd (d : rd) (a : ipaddr) (len : N)
| MupDsd (d : rd) (a : ipaddr)
| MupT1 (d : rd) (a : ipaddr) (len teid qfi : N) (ep : ipaddr) (src : option ipaddr)
| MupT2 (d : rd) (ealen : N) (ep : ipaddr) (teid : N).

Inductive api_mup : Type :=
| AMupIsd (d : api_rd) (prefix : list N)
| AMupDsd (d : api_rd) (addr : list N)
| AMupT1 (d : api_rd) (prefix : list N) (teid qfi ealen : N) (ep : list N) (salen : N) (src : list N)
| AMupT2 (d : api_rd) (ealen : N) (ep : list N) (teid : N).

(* u8::from_str: an optional '+', at least one decimal digit, value at most 255 *)
Fixpoint dec_digits (l : list N) (acc : N) : option N :=
  match l with
  | [] => Some acc
  | c :: r => if is_digit c then dec_digits r (acc * 10 + (c - 48)) else None
  end.
Definition u8_of_string (s : list N) : option N :=
  let d := match s with 43 :: r => r | _ => s end in
  match d with
  | [] => None
  | _ => match dec_digits d 0 with Some v => if v <=? 255 then Some v else None | None => None end
  end.

(* str::rsplit_once('/') on the reversed string: (text before the last '/', text after it) *)
Fixpoint take_until (sep : N) (l acc : list N) : option (list N * list N) :=
  match l with
  | [] => None
  | c :: r => if c =? sep then Some (acc, r) else take_until sep r (c :: acc)
  end.
Definition rsplit_slash (s : list N) : option (list N * list N) :=
  match take_until 47 (rev s) [] with
  | Some (suffix, rev_prefix) => Some (rev rev_prefix, suffix)
  | None => None
  end.

Definition ip_is_v4 (i : ipaddr) : bool := match i with IP4 _ => true | IP6 _ => false end.
Definition ip_octets (i : ipaddr) : list N := match i with IP4 a => be32 a | IP6 a => to_bytes 16 a end.
Definition ip_value (i : ipaddr) : N := match i with IP4 a | IP6 a => a end.

Section Mup.
  Variable v6p : N -> list N.
  Variable v6r : list N -> option N.

  (* parse_prefix: "<address>/<length>", the length within the address, no address octets beyond it *)
  Definition parse_prefix (s : list N) : option (ipaddr * N) :=
    match rsplit_slash s with
    | None => None
    | Some (a, l) =>
        match ip_of_string v6r a, u8_of_string l with
        | Some i, Some len =>
            if ip_width i <? len then None
            else if octets_ok (if ip_is_v4 i then 4 else 16) (ip_value i) len then Some (i, len) else None
        | _, _ => None
        end
    end.

  Definition mup_from_api (x : api_mup) : option mup :=
    match x with
    | AMupIsd d p =>
        match rd_from_api d, parse_prefix p with
        | Some d', Some (a, len) => Some (MupIsd d' a len)
        | _, _ => None
        end
    | AMupDsd d s =>
        match rd_from_api d, ip_of_string v6r s with
        | Some d', Some a => Some (MupDsd d' a)
        | _, _ => None
        end
    | AMupT1 d p teid qfi _ ep salen src =>
        match rd_from_api d, parse_prefix p, ip_of_string v6r ep with
        | Some d', Some (a, len), Some e =>
            let source := if (salen =? 0) || Nat.eqb (length src) 0 then Some None
                          else match ip_of_string v6r src with Some s => Some (Some s) | None => None end in
            match source with
            | Some s => if 255 <? qfi then None else Some (MupT1 d' a len teid qfi e s)
            | None => None
            end
        | _, _, _ => None
        end
    | AMupT2 d ealen ep teid =>
        match rd_from_api d, ip_of_string v6r ep with
        | Some d', Some e =>
            let w := ip_width e in
            if (ealen <? w) || (w + 32 <? ealen) then None
            else let k := (ealen - w + 7) / 8 in
                 if (k <? 4) && negb ((teid * 256 ^ k) mod 4294967296 =? 0) then None
                 else Some (MupT2 d' ealen e teid)
        | _, _ => None
        end
    end.

  Definition prefix_text (a : ipaddr) (len : N) : list N := ip_to_string v6p a ++ 47 :: dec_octet len.

  Definition mup_to_api (n : mup) : api_mup :=
    match n with
    | MupIsd d a len => AMupIsd (rd_to_api d) (prefix_text a len)
    | MupDsd d a => AMupDsd (rd_to_api d) (ip_to_string v6p a)
    | MupT1 d a len teid qfi ep src =>
        AMupT1 (rd_to_api d) (prefix_text a len) teid qfi (ip_width ep) (ip_to_string v6p ep)
               (match src with Some s => ip_width s | None => 0 end)
               (match src with Some s => ip_to_string v6p s | None => [] end)
    | MupT2 d ealen ep teid => AMupT2 (rd_to_api d) ealen (ip_to_string v6p ep) teid
    end.
End Mup.

(* nlri_matches_family, MUP arm: every address of the route is of the family's IP version *)
Definition mup_family_ok (n : mup) (family : N) : bool :=
  let v4 := family =? 65621 in
  ((family =? 65621) || (family =? 131157)) &&
  match n with
  | MupIsd _ a _ => Bool.eqb (ip_is_v4 a) v4
  | MupDsd _ a => Bool.eqb (ip_is_v4 a) v4
  | MupT1 _ a _ _ _ ep src =>
      Bool.eqb (ip_is_v4 a) v4 && Bool.eqb (ip_is_v4 ep) v4 && match src with Some s => Bool.eqb (ip_is_v4 s) v4 | None => true end
  | MupT2 _ _ ep _ => Bool.eqb (ip_is_v4 ep) v4
  end.

(* MupNlri::encode: [architecture 1][route type: 2][length: 1][body] *)
Definition prefix_octets (a : ipaddr) (len : N) : list N := firstn (N.to_nat ((len + 7) / 8)) (ip_octets a).
Definition mup_body (n : mup) : list N :=
  match n with
  | MupIsd d a len => rd_bytes d ++ len :: prefix_octets a len
  | MupDsd d a => rd_bytes d ++ ip_octets a
  | MupT1 d a len teid qfi ep src =>
      rd_bytes d ++ len :: prefix_octets a len ++ be32 teid ++ qfi :: ip_width ep :: ip_octets ep
      ++ match src with Some s => ip_width s :: ip_octets s | None => [0] end
  | MupT2 d ealen ep teid =>
      rd_bytes d ++ ealen :: ip_octets ep ++ firstn (N.to_nat ((ealen - ip_width ep + 7) / 8)) (be32 teid)
  end.
Definition mup_route_type (n : mup) : N :=
  match n with MupIsd _ _ _ => 1 | MupDsd _ _ => 2 | MupT1 _ _ _ _ _ _ _ => 3 | MupT2 _ _ _ _ => 4 end.
Definition mup_encode (n : mup) : list N :=
  1 :: be16 (mup_route_type n) ++ (N.of_nat (length (mup_body n)) mod 256) :: mup_body n.

Definition v_api_mup (x : api_mup) : val :=
  match x with
  | AMupIsd d p => VL [VI 14; v_api_rd0 d; VNs p]
  | AMupDsd d a => VL [VI 15; v_api_rd0 d; VNs a]
  | AMupT1 d p teid qfi el ep sl src => VL [VI 16; v_api_rd0 d; VNs p; VN teid; VN qfi; VN el; VNs ep; VN sl; VNs src]
  | AMupT2 d el ep teid => VL [VI 17; v_api_rd0 d; VN el; VNs ep; VN teid]
  end.

(* kind 8, MUP: [accepted; wire octets; decodes back; relisted; API form listed] *)
Definition run_api_mup_case (family : N) (x : api_mup) : val :=
  match mup_from_api v6_parse x with
  | None => VL [VI 0]
  | Some n =>
      if negb (mup_family_ok n family) then VL [VI 0] else
      let y := mup_to_api v6_print n in
      VL [VI 1; VNs (mup_encode n); VI 1;
          VI (match mup_from_api v6_parse y with Some n' => 0 | None => 2 end); v_api_mup y]
  end.

(* ------------------------------------------------------------------ *)
(* The MUP decoder (packet/src/mup.rs MupNlri::decode and the four route decoders): the values a
   session can hold.  A prefix and a partial TEID are copied in WHOLE octets: bits of the last octet
   beyond the bit length are kept as received. *)
Definition rd_decode (b : list N) : option rd :=
  match b with
  | [t1; t2; a; b2; c; d; e; f] =>
      let t := of_be16 t1 t2 in
      if t =? 0 then Some (RD2 (of_be16 a b2) (of_be32 c d e f))
      else if t =? 1 then Some (RDIp (of_be32 a b2 c d) (of_be16 e f))
      else if t =? 2 then Some (RD4 (of_be32 a b2 c d) (of_be16 e f))
      else None
  | _ => None
  end.

Definition fam_octets (v6 : bool) : nat := if v6 then 16%nat else 4%nat.
Definition fam_bits (v6 : bool) : N := if v6 then 128 else 32.
Definition mk_ip (v6 : bool) (a : N) : ipaddr := if v6 then IP6 a else IP4 a.
Definition zeros (n : nat) : list N := repeat 0 n.

(* decode_ip: exactly the family's number of octets *)
Definition decode_ip (v6 : bool) (b : list N) : option ipaddr :=
  if Nat.eqb (length b) (fam_octets v6) then Some (mk_ip v6 (of_bytes b)) else None.

(* decode_prefix: ceil(bits / 8) octets copied into a zeroed address *)
Definition decode_prefix (v6 : bool) (bits : N) (b : list N) : option ipaddr :=
  let k := N.to_nat ((bits + 7) / 8) in
  if fam_bits v6 <? bits then None
  else if Nat.ltb (length b) k then None
  else Some (mk_ip v6 (of_bytes (firstn k b ++ zeros (fam_octets v6 - k)))).

Definition slice (from len : nat) (l : list N) : list N := firstn len (skipn from l).

Definition mup_decode_body (v6 : bool) (rt : N) (data : list N) : option mup :=
  let w := fam_octets v6 in
  if Nat.ltb (length data) 8 then None else
  match rd_decode (firstn 8 data) with
  | None => None
  | Some d =>
      if rt =? 1 then
        match skipn 8 data with
        | plen :: rest => match decode_prefix v6 plen rest with Some a => Some (MupIsd d a plen) | None => None end
        | [] => None
        end
      else if rt =? 2 then
        match decode_ip v6 (skipn 8 data) with Some a => Some (MupDsd d a) | None => None end
      else if rt =? 3 then
        match skipn 8 data with
        | plen :: rest =>
            let pb := N.to_nat ((plen + 7) / 8) in
            if Nat.ltb (length rest) (pb + 6) then None else
            match decode_prefix v6 plen rest with
            | None => None
            | Some a =>
                let teid := of_bytes (slice pb 4 rest) in
                let qfi := nth (pb + 4) rest 0 in
                let ea_len := nth (pb + 5) rest 0 in
                if negb (ea_len =? fam_bits v6) then None
                else if Nat.ltb (length rest) (pb + 6 + w + 1) then None
                else match decode_ip v6 (slice (pb + 6) w rest) with
                     | None => None
                     | Some ep =>
                         let sa_len := nth (pb + 6 + w) rest 0 in
                         if sa_len =? 0 then Some (MupT1 d a plen teid qfi ep None)
                         else if negb (sa_len =? fam_bits v6) then None
                         else if Nat.ltb (length rest) (pb + 6 + w + 1 + w) then None
                         else match decode_ip v6 (slice (pb + 6 + w + 1) w rest) with
                              | Some s => Some (MupT1 d a plen teid qfi ep (Some s))
                              | None => None
                              end
                     end
            end
        | [] => None
        end
      else if rt =? 4 then
        match skipn 8 data with
        | ea_len :: rest =>
            if (ea_len <? fam_bits v6) || (fam_bits v6 + 32 <? ea_len) then None
            else if Nat.ltb (length rest) w then None
            else match decode_ip v6 (firstn w rest) with
                 | None => None
                 | Some ep =>
                     let k := N.to_nat ((ea_len - fam_bits v6 + 7) / 8) in
                     if Nat.ltb (length rest) (w + k) then None
                     else Some (MupT2 d ea_len ep (of_bytes (slice w k rest ++ zeros (4 - k))))
                 end
        | [] => None
        end
      else None
  end.

(* MupNlri::decode: [architecture 1][route type: 2][length][body]; the NLRIs of an MP_REACH one after the other *)
Fixpoint mup_decode_all (fuel : nat) (v6 : bool) (l : list N) : option (list mup) :=
  match fuel with
  | O => None
  | S fuel' =>
      match l with
      | [] => Some []
      | arch :: t1 :: t2 :: len :: rest =>
          if negb (arch =? 1) then None
          else if Nat.ltb (length rest) (N.to_nat len) then None
          else match mup_decode_body v6 (of_be16 t1 t2) (firstn (N.to_nat len) rest),
                     mup_decode_all fuel' v6 (skipn (N.to_nat len) rest) with
               | Some n, Some ns => Some (n :: ns)
               | _, _ => None
               end
      | _ => None
      end
  end.

(* kind 10, MUP families: [decoded; [[Nlri::encode octets; API form listed; given back] ...]] *)
Definition run_held_mup_case (v6 : bool) (l : list N) : val :=
  match mup_decode_all (S (length l)) v6 l with
  | None | Some [] => VL [VI 0]
  | Some ns =>
      VL [VI 1; VList (fun n =>
                         let y := mup_to_api v6_print n in
                         VL [VNs (mup_encode n); v_api_mup y;
                             VI (match mup_from_api v6_parse y with
                                 | Some n' => if mup_family_ok n' (if v6 then 131157 else 65621) then 0 else 2
                                 | None => 2
                                 end)]) ns]
  end.
