(* The session glue around one address family of the RIB (daemon/src/event/mod.rs
   PeerSession::sync_prefix_counters): besides the operations of Model/Rib.v a
   history may set a session's prefix-limit counter to the number of prefixes
   the RIB holds from a peer (route_stats[addr][family].received summed over the
   shards), which is what a session does when it is established and after the
   purges of stale routes it runs.  No proofs in this file. *)
From Coq Require Import List NArith ZArith Bool.
From RB Require Import Base.Val Model.Rib.
Import ListNotations.
Open Scope N_scope.

Inductive sop :=
| Tbl (o : op)
| Sync (c addr : N).       (* counter c := prefixes received from addr *)

Definition set_ctr (t : table) (c v : N) : table :=
  {| t_deferring := t_deferring t; t_dests := t_dests t; t_used := t_used t; t_stats := t_stats t;
     t_flags := t_flags t; t_ctrs := aset c v (t_ctrs t); t_shard := t_shard t; t_bad := t_bad t |}.

Definition sstep (t : table) (o : sop) : table * list change * bool :=
  match o with
  | Tbl o => step t o
  | Sync c a => (set_ctr t c (fst (stats_of t a)), [], false)
  end.

Definition srun (t : table) (ops : list sop) : table :=
  fold_left (fun s o => fst (fst (sstep s o))) ops t.

Fixpoint sobserve (t : table) (addrs ctrs : list N) (ops : list sop) : list val :=
  match ops with
  | [] => []
  | o :: r =>
      let '(t', cs, lim) := sstep t o in
      VL [VList (v_change (t_flags t')) cs; VB lim; v_state t' addrs ctrs] :: sobserve t' addrs ctrs r
  end.

Definition run_scase (shard : N) (addrs ctrs : list N) (ops : list sop) : val :=
  VL (sobserve (empty_table shard) addrs ctrs ops).
