(* Executable model of the CRUD half of table/src/policy.rs: PolicyTable and
   its add / replace / delete operations on defined sets, statements, policies
   and the two global assignments, with their in-use checks; plus the
   operation-sequence entry point [run_case] used by the correspondence check.
   No proofs in this file.

   The six per-kind FnvHashMaps of defined sets are one association list keyed
   by (kind, name); statements and policies are lists keyed by their own name
   field.  Objects held by users (a set inside a condition, a statement inside
   a policy, a policy inside an assignment) are copies, as the Arc snapshots
   are in the code.  treebitmap::IpLookupTable is a list of entries keyed by
   (masked address, length); its panic on a prefix with host bits inside the
   nibble that contains the mask boundary is modelled ([insert_panics]); other
   non-canonical prefixes are outside the modelled domain. *)
From Coq Require Import List NArith ZArith Bool.
From RB Require Import Base.Val Model.Policy.
Import ListNotations.
Open Scope N_scope.

(* ------------------------------------------------------------------ *)
(* configurations as they arrive from the API                           *)

Inductive pfx_cfg := PfxBad | Pfx (v6 : bool) (addr mask lo hi : N).
Inductive net_cfg := NetBad | Net (n : ipnet).
Inductive ap_cfg := ApSingle (s : single) | ApRegex (id : N) | ApBad.
Inductive cm_cfg := CmExact (v : N) | CmRegex (id : N) | CmBad.
Inductive rx_cfg := RxOk (id : N) | RxBad.

Inductive set_cfg :=
| CfgPrefix (l : list pfx_cfg)
| CfgNeighbor (l : list net_cfg)
| CfgAsPath (l : list ap_cfg)
| CfgComm (l : list cm_cfg)
| CfgExt (l : list rx_cfg)
| CfgLarge (l : list rx_cfg).

Definition cfg_kind (c : set_cfg) : N :=
  match c with
  | CfgPrefix _ => 0 | CfgNeighbor _ => 1 | CfgAsPath _ => 2
  | CfgComm _ => 3 | CfgExt _ => 4 | CfgLarge _ => 5
  end.

(* a condition as configured: a set reference by (kind, name), or a condition
   that carries its own value (given directly as the [cond] it becomes) *)
Inductive cond_cfg :=
| KSet (kind name : N) (opt : mopt)
| KVal (c : cond).

(* condition kinds (std::mem::discriminant / condition_kind_matches):
   0..5 the set kinds; the value conditions 6.. in the order of the harness tags *)
Definition cond_kind (c : cond) : N :=
  match c with
  | CSet _ _ s => set_kind s
  | CAsPathLen _ _ => 6 | CNexthop _ => 7 | CRpki _ => 8 | CLocalPrefEq _ => 9
  | CMedEq _ => 10 | COriginEq _ => 11 | CRouteType _ => 12 | CCommCount _ _ => 13
  | CAfiSafiIn _ => 14
  end.

Definition ccfg_kind (c : cond_cfg) : N :=
  match c with KSet k _ _ => k | KVal c => cond_kind c end.

Record table := {
  t_sets : list (N * N * setv);
  t_stmts : list stmt;
  t_pols : list policy;
  t_imp : option assignment;
  t_exp : option assignment
}.

Definition empty_table : table :=
  {| t_sets := []; t_stmts := []; t_pols := []; t_imp := None; t_exp := None |}.

(* result codes: 0 Ok, 1 InvalidArgument, 2 StillInUse, 3 NotFound *)
Definition OK : N := 0.
Definition INVAL : N := 1.
Definition INUSE : N := 2.
Definition NOTFOUND : N := 3.

(* ------------------------------------------------------------------ *)
(* map helpers                                                          *)

Definition key_eqb (k n : N) (e : N * N * setv) : bool :=
  (fst (fst e) =? k) && (snd (fst e) =? n).

Definition lookup_set (k n : N) (l : list (N * N * setv)) : option setv :=
  match find (key_eqb k n) l with Some e => Some (snd e) | None => None end.
Definition remove_set (k n : N) (l : list (N * N * setv)) : list (N * N * setv) :=
  filter (fun e => negb (key_eqb k n e)) l.
Definition put_set (k n : N) (s : setv) (l : list (N * N * setv)) : list (N * N * setv) :=
  remove_set k n l ++ [(k, n, s)].

Definition lookup_stmt (n : N) (l : list stmt) : option stmt := find (fun s => st_name s =? n) l.
Definition remove_stmt (n : N) (l : list stmt) : list stmt := filter (fun s => negb (st_name s =? n)) l.
Definition put_stmt (s : stmt) (l : list stmt) : list stmt := remove_stmt (st_name s) l ++ [s].

Definition lookup_pol (n : N) (l : list policy) : option policy := find (fun p => p_name p =? n) l.
Definition remove_pol (n : N) (l : list policy) : list policy := filter (fun p => negb (p_name p =? n)) l.
Definition put_pol (p : policy) (l : list policy) : list policy := remove_pol (p_name p) l ++ [p].

Definition with_sets (t : table) (s : list (N * N * setv)) : table :=
  {| t_sets := s; t_stmts := t_stmts t; t_pols := t_pols t; t_imp := t_imp t; t_exp := t_exp t |}.
Definition with_stmts (t : table) (s : list stmt) : table :=
  {| t_sets := t_sets t; t_stmts := s; t_pols := t_pols t; t_imp := t_imp t; t_exp := t_exp t |}.
Definition with_pols (t : table) (p : list policy) : table :=
  {| t_sets := t_sets t; t_stmts := t_stmts t; t_pols := p; t_imp := t_imp t; t_exp := t_exp t |}.
Definition with_pols_stmts (t : table) (p : list policy) (s : list stmt) : table :=
  {| t_sets := t_sets t; t_stmts := s; t_pols := p; t_imp := t_imp t; t_exp := t_exp t |}.
Definition with_asg (t : table) (import : bool) (a : option assignment) : table :=
  if import
  then {| t_sets := t_sets t; t_stmts := t_stmts t; t_pols := t_pols t; t_imp := a; t_exp := t_exp t |}
  else {| t_sets := t_sets t; t_stmts := t_stmts t; t_pols := t_pols t; t_imp := t_imp t; t_exp := a |}.

(* ------------------------------------------------------------------ *)
(* in-use checks                                                        *)

(* some statement of the table has a condition on the set (kind, name) *)
Definition cond_refs (k n : N) (c : cond) : bool :=
  match c with CSet n' _ s => (set_kind s =? k) && (n' =? n) | _ => false end.
Definition set_in_use (t : table) (k n : N) : bool :=
  existsb (fun s => existsb (cond_refs k n) (st_conds s)) (t_stmts t).

(* some policy of the table lists a statement of that name *)
Definition stmt_in_use (pols : list policy) (n : N) : bool :=
  existsb (fun p => existsb (fun s => st_name s =? n) (p_stmts p)) pols.

(* policy_in_use_globally *)
Definition asg_has (a : option assignment) (n : N) : bool :=
  match a with Some a => existsb (fun p => p_name p =? n) (as_pols a) | None => false end.
Definition pol_in_use (t : table) (n : N) : bool := asg_has (t_imp t) n || asg_has (t_exp t) n.

(* ------------------------------------------------------------------ *)
(* defined sets                                                         *)

Fixpoint parse_all {A B} (f : A -> option B) (l : list A) : option (list B) :=
  match l with
  | [] => Some []
  | a :: r => match f a with
              | None => None
              | Some b => match parse_all f r with Some bs => Some (b :: bs) | None => None end
              end
  end.

Definition width (v6 : bool) : N := if v6 then 128 else 32.

(* IpNet::from_str + the range pair *)
Definition pfx_parse (c : pfx_cfg) : option (bool * N * N * N * N) :=
  match c with
  | PfxBad => None
  | Pfx v6 a m lo hi => if m <=? width v6 then Some (v6, a, m, lo, hi) else None
  end.
Definition net_parse (c : net_cfg) : option ipnet :=
  match c with
  | NetBad => None
  | Net n => if n_mask n <=? width (n_v6 n) then Some n else None
  end.
Definition ap_parse (c : ap_cfg) : option (single + N) :=
  match c with ApSingle s => Some (inl s) | ApRegex i => Some (inr i) | ApBad => None end.
Definition cm_parse (c : cm_cfg) : option cpat :=
  match c with CmExact v => Some (CExact v) | CmRegex i => Some (CRegex i) | CmBad => None end.
Definition rx_parse (c : rx_cfg) : option N :=
  match c with RxOk i => Some i | RxBad => None end.

(* treebitmap insert: the nibble containing the mask boundary must not have
   bits set to the right of the mask *)
Definition insert_panics (w a m : N) : bool :=
  let r := m mod 4 in
  if r =? 0 then false
  else negb ((a / 2 ^ (w - 4 * (m / 4) - 4)) mod 2 ^ (4 - r) =? 0).

Definition pent_same_key (e f : pent) : bool := (pe_key e =? pe_key f) && (pe_mask e =? pe_mask f).

(* IpLookupTable::insert: replace the value under an existing key, else add *)
Fixpoint pent_insert (e : pent) (l : list pent) : list pent :=
  match l with
  | [] => [e]
  | f :: r => if pent_same_key e f then e :: r else f :: pent_insert e r
  end.

Definition mk_pent (w a m lo hi : N) : pent :=
  {| pe_key := mask_to w a m; pe_mask := m; pe_raw := a; pe_min := lo; pe_max := hi |}.

Definition is_zero_pfx (a m : N) : bool := (a =? 0) && (m =? 0).

(* the first loop of the Prefix arm: zero / zero6 (last one wins) and the
   entries to insert, per family, in order *)
Fixpoint split_pfx (l : list (bool * N * N * N * N))
  : option (N * N) * option (N * N) * list (N * N * N * N) * list (N * N * N * N) :=
  match l with
  | [] => (None, None, [], [])
  | (v6, a, m, lo, hi) :: r =>
      let '(z, z6, l4, l6) := split_pfx r in
      if is_zero_pfx a m then
        if v6 then (z, match z6 with Some x => Some x | None => Some (lo, hi) end, l4, l6)
        else (match z with Some x => Some x | None => Some (lo, hi) end, z6, l4, l6)
      else if v6 then (z, z6, l4, (a, m, lo, hi) :: l6)
      else (z, z6, (a, m, lo, hi) :: l4, l6)
  end.

Fixpoint insert_all (w : N) (new : list (N * N * N * N)) (acc : list pent) : res (list pent) :=
  match new with
  | [] => Ok acc
  | (a, m, lo, hi) :: r =>
      if insert_panics w a m then Panic P_TREEBITMAP
      else insert_all w r (pent_insert (mk_pent w a m lo hi) acc)
  end.

Definition or_else {A} (a b : option A) : option A := match a with Some x => Some x | None => b end.

(* the value stored by add_defined_set: Ok (inl set) or Ok (inr error code) *)
Definition build_set (existing : option setv) (c : set_cfg) : res (setv + N) :=
  match c with
  | CfgPrefix l =>
      match parse_all pfx_parse l with
      | None => Ok (inr INVAL)
      | Some es =>
          let '(z, z6, l4, l6) := split_pfx es in
          match existing with
          | Some (SPrefix old) =>
              do v4 <- insert_all 32 l4 (ps_v4 old);
              do v6 <- insert_all 128 l6 (ps_v6 old);
              Ok (inl (SPrefix {| ps_v4 := v4; ps_v6 := v6;
                                  ps_zero := or_else z (ps_zero old);
                                  ps_zero6 := or_else z6 (ps_zero6 old) |}))
          | _ =>
              match l4, l6, z, z6 with
              | [], [], None, None => Ok (inr INVAL)
              | _, _, _, _ =>
                  do v4 <- insert_all 32 l4 [];
                  do v6 <- insert_all 128 l6 [];
                  Ok (inl (SPrefix {| ps_v4 := v4; ps_v6 := v6; ps_zero := z; ps_zero6 := z6 |}))
              end
          end
      end
  | CfgNeighbor l =>
      match parse_all net_parse l with
      | None => Ok (inr INVAL)
      | Some ns =>
          match existing with
          | Some (SNeighbor old) => Ok (inl (SNeighbor (old ++ ns)))
          | _ => match ns with [] => Ok (inr INVAL) | _ => Ok (inl (SNeighbor ns)) end
          end
      end
  | CfgAsPath l =>
      match parse_all ap_parse l with
      | None => Ok (inr INVAL)
      | Some ps =>
          let sg := flat_map (fun p => match p with inl s => [s] | inr _ => [] end) ps in
          let rg := flat_map (fun p => match p with inl _ => [] | inr i => [i] end) ps in
          match existing with
          | Some (SAsPath old) =>
              Ok (inl (SAsPath {| ap_single := ap_single old ++ sg; ap_regex := ap_regex old ++ rg |}))
          | _ => match ps with
                 | [] => Ok (inr INVAL)
                 | _ => Ok (inl (SAsPath {| ap_single := sg; ap_regex := rg |}))
                 end
          end
      end
  | CfgComm l =>
      match parse_all cm_parse l with
      | None => Ok (inr INVAL)
      | Some ps =>
          match existing with
          | Some (SComm old) => Ok (inl (SComm (old ++ ps)))
          | _ => match ps with [] => Ok (inr INVAL) | _ => Ok (inl (SComm ps)) end
          end
      end
  | CfgExt l =>
      match parse_all rx_parse l with
      | None => Ok (inr INVAL)
      | Some ps =>
          match existing with
          | Some (SExt old) => Ok (inl (SExt (old ++ ps)))
          | _ => match ps with [] => Ok (inr INVAL) | _ => Ok (inl (SExt ps)) end
          end
      end
  | CfgLarge l =>
      match parse_all rx_parse l with
      | None => Ok (inr INVAL)
      | Some ps =>
          match existing with
          | Some (SLarge old) => Ok (inl (SLarge (old ++ ps)))
          | _ => match ps with [] => Ok (inr INVAL) | _ => Ok (inl (SLarge ps)) end
          end
      end
  end.

(* is the configuration well-formed (every entry parses)?  The code parses
   before it looks at the table. *)
Definition cfg_parses (c : set_cfg) : bool :=
  match c with
  | CfgPrefix l => match parse_all pfx_parse l with Some _ => true | None => false end
  | CfgNeighbor l => match parse_all net_parse l with Some _ => true | None => false end
  | CfgAsPath l => match parse_all ap_parse l with Some _ => true | None => false end
  | CfgComm l => match parse_all cm_parse l with Some _ => true | None => false end
  | CfgExt l | CfgLarge l => match parse_all rx_parse l with Some _ => true | None => false end
  end.

(* PolicyTable::add_defined_set *)
Definition add_defined_set (t : table) (n : N) (c : set_cfg) : res (table * N) :=
  let k := cfg_kind c in
  if negb (cfg_parses c) then Ok (t, INVAL)
  else
    let existing := lookup_set k n (t_sets t) in
    match existing with
    | Some _ => if set_in_use t k n then Ok (t, INUSE)
                else do r <- build_set existing c;
                     match r with
                     | inl s => Ok (with_sets t (put_set k n s (t_sets t)), OK)
                     | inr e => Ok (t, e)
                     end
    | None => do r <- build_set None c;
              match r with
              | inl s => Ok (with_sets t (put_set k n s (t_sets t)), OK)
              | inr e => Ok (t, e)
              end
    end.

(* PolicyTable::replace_defined_set: in-use check, remove, then add (a failing
   add leaves the set removed) *)
Definition replace_defined_set (t : table) (n : N) (c : set_cfg) : res (table * N) :=
  let k := cfg_kind c in
  if set_in_use t k n then Ok (t, INUSE)
  else add_defined_set (with_sets t (remove_set k n (t_sets t))) n c.

Definition ipnet_eqb (a b : ipnet) : bool :=
  Bool.eqb (n_v6 a) (n_v6 b) && (n_addr a =? n_addr b) && (n_mask a =? n_mask b).
Definition single_eqb (a b : single) : bool :=
  (sg_kind a =? sg_kind b) && (sg_a a =? sg_a b) &&
  (if sg_kind a <? 4 then true else sg_b a =? sg_b b).
Definition cpat_eqb (a b : cpat) : bool :=
  match a, b with
  | CExact x, CExact y => x =? y
  | CRegex x, CRegex y => x =? y
  | _, _ => false
  end.

Definition opt_pair_eqb (o : option (N * N)) (lo hi : N) : bool :=
  match o with Some (a, b) => (a =? lo) && (b =? hi) | None => false end.

(* exact_match(addr, mask) == Some(&candidate) then remove *)
Definition pent_remove (w a m lo hi : N) (l : list pent) : list pent :=
  filter (fun e => negb ((pe_key e =? mask_to w a m) && (pe_mask e =? m) &&
                         (pe_raw e =? a) && (pe_min e =? lo) && (pe_max e =? hi))) l.

Fixpoint pset_remove (es : list (bool * N * N * N * N)) (p : pset) : pset :=
  match es with
  | [] => p
  | (v6, a, m, lo, hi) :: r =>
      let p' :=
        if is_zero_pfx a m then
          if v6 then
            {| ps_v4 := ps_v4 p; ps_v6 := ps_v6 p; ps_zero := ps_zero p;
               ps_zero6 := if opt_pair_eqb (ps_zero6 p) lo hi then None else ps_zero6 p |}
          else
            {| ps_v4 := ps_v4 p; ps_v6 := ps_v6 p;
               ps_zero := if opt_pair_eqb (ps_zero p) lo hi then None else ps_zero p;
               ps_zero6 := ps_zero6 p |}
        else if v6 then
          {| ps_v4 := ps_v4 p; ps_v6 := pent_remove 128 a m lo hi (ps_v6 p);
             ps_zero := ps_zero p; ps_zero6 := ps_zero6 p |}
        else
          {| ps_v4 := pent_remove 32 a m lo hi (ps_v4 p); ps_v6 := ps_v6 p;
             ps_zero := ps_zero p; ps_zero6 := ps_zero6 p |} in
      pset_remove r p'
  end.

(* the all=false branch of delete_defined_set on the existing set *)
Definition shrink_set (old : setv) (c : set_cfg) : setv + N :=
  match c, old with
  | CfgPrefix l, SPrefix p =>
      match parse_all pfx_parse l with
      | None => inr INVAL
      | Some es => inl (SPrefix (pset_remove es p))
      end
  | CfgNeighbor l, SNeighbor o =>
      match parse_all net_parse l with
      | None => inr INVAL
      | Some ns => inl (SNeighbor (filter (fun s => negb (existsb (ipnet_eqb s) ns)) o))
      end
  | CfgAsPath l, SAsPath o =>
      match parse_all ap_parse l with
      | None => inr INVAL
      | Some ps =>
          inl (SAsPath
                 {| ap_single := filter (fun s => negb (existsb (fun p => match p with inl m => single_eqb s m | inr _ => false end) ps)) (ap_single o);
                    ap_regex := filter (fun s => negb (existsb (fun p => match p with inl _ => false | inr i => s =? i end) ps)) (ap_regex o) |})
      end
  | CfgComm l, SComm o =>
      match parse_all cm_parse l with
      | None => inr INVAL
      | Some ps => inl (SComm (filter (fun s => negb (existsb (cpat_eqb s) ps)) o))
      end
  | CfgExt l, SExt o =>
      match parse_all rx_parse l with
      | None => inr INVAL
      | Some ps => inl (SExt (filter (fun s => negb (existsb (N.eqb s) ps)) o))
      end
  | CfgLarge l, SLarge o =>
      match parse_all rx_parse l with
      | None => inr INVAL
      | Some ps => inl (SLarge (filter (fun s => negb (existsb (N.eqb s) ps)) o))
      end
  | _, _ => inr NOTFOUND
  end.

(* PolicyTable::delete_defined_set *)
Definition delete_defined_set (t : table) (n : N) (c : set_cfg) (all : bool) : table * N :=
  let k := cfg_kind c in
  if set_in_use t k n then (t, INUSE)
  else
    match lookup_set k n (t_sets t) with
    | None => (t, NOTFOUND)
    | Some old =>
        if all then (with_sets t (remove_set k n (t_sets t)), OK)
        else match shrink_set old c with
             | inl s => (with_sets t (put_set k n s (t_sets t)), OK)
             | inr e => (t, e)
             end
    end.

(* ------------------------------------------------------------------ *)
(* statements                                                           *)

(* the resolution loop of add_statement: prefix / neighbor sets refuse ALL,
   a missing set is an error; first error wins *)
Fixpoint resolve_conds (t : table) (l : list cond_cfg) : option (list cond) :=
  match l with
  | [] => Some []
  | c :: r =>
      let this :=
        match c with
        | KVal v => match v with CSet _ _ _ => None | _ => Some v end   (* a ConditionConfig cannot carry a set *)
        | KSet k n o =>
            if ((k =? 0) || (k =? 1)) && (match o with MAll => true | _ => false end) then None
            else match lookup_set k n (t_sets t) with
                 | Some s => Some (CSet n o s)
                 | None => None
                 end
        end in
      match this with
      | None => None
      | Some v => match resolve_conds t r with Some vs => Some (v :: vs) | None => None end
      end
  end.

Definition has_kind (k : N) (l : list cond) : bool := existsb (fun c => cond_kind c =? k) l.

(* merge new conditions one by one; a kind already present is an error *)
Fixpoint merge_conds (old new : list cond) : option (list cond) :=
  match new with
  | [] => Some old
  | c :: r => if has_kind (cond_kind c) old then None else merge_conds (old ++ [c]) r
  end.

Definition merge_opt {A} (old new : option A) : option (option A) :=
  match new with
  | None => Some old
  | Some x => match old with Some _ => None | None => Some (Some x) end
  end.

Definition merge_actions (o n : actions) : option actions :=
  match merge_opt (ac_nexthop o) (ac_nexthop n), merge_opt (ac_comm o) (ac_comm n),
        merge_opt (ac_local_pref o) (ac_local_pref n), merge_opt (ac_med o) (ac_med n),
        merge_opt (ac_prepend o) (ac_prepend n), merge_opt (ac_ext o) (ac_ext n),
        merge_opt (ac_large o) (ac_large n), merge_opt (ac_origin o) (ac_origin n) with
  | Some a, Some b, Some c, Some d, Some e, Some f, Some g, Some h =>
      Some {| ac_nexthop := a; ac_comm := b; ac_local_pref := c; ac_med := d;
              ac_prepend := e; ac_ext := f; ac_large := g; ac_origin := h |}
  | _, _, _, _, _, _, _, _ => None
  end.

(* PolicyTable::add_statement *)
Definition add_statement (t : table) (n : N) (cs : list cond_cfg) (d : option disp) (a : actions)
  : table * N :=
  match resolve_conds t cs with
  | None => (t, INVAL)
  | Some v =>
      match lookup_stmt n (t_stmts t) with
      | None =>
          (with_stmts t (put_stmt {| st_name := n; st_conds := v; st_disp := d; st_act := a |} (t_stmts t)), OK)
      | Some old =>
          if stmt_in_use (t_pols t) n then (t, INUSE)
          else
            match merge_conds (st_conds old) v with
            | None => (t, INVAL)
            | Some conds =>
                match merge_opt (st_disp old) d with
                | None => (t, INVAL)
                | Some dd =>
                    match merge_actions (st_act old) a with
                    | None => (t, INVAL)
                    | Some aa =>
                        (with_stmts t (put_stmt {| st_name := n; st_conds := conds; st_disp := dd; st_act := aa |}
                                                (t_stmts t)), OK)
                    end
                end
            end
      end
  end.

(* remove the first condition of the given kind *)
Fixpoint remove_kind (k : N) (l : list cond) : option (list cond) :=
  match l with
  | [] => None
  | c :: r => if cond_kind c =? k then Some r
              else match remove_kind k r with Some r' => Some (c :: r') | None => None end
  end.

Fixpoint remove_kinds (ks : list N) (l : list cond) : option (list cond) :=
  match ks with
  | [] => Some l
  | k :: r => match remove_kind k l with Some l' => remove_kinds r l' | None => None end
  end.

Definition unset_opt {A B} (old : option A) (req : option B) : option (option A) :=
  match req with
  | None => Some old
  | Some _ => match old with Some _ => Some None | None => None end
  end.

Definition unset_actions (o n : actions) : option actions :=
  match unset_opt (ac_nexthop o) (ac_nexthop n), unset_opt (ac_comm o) (ac_comm n),
        unset_opt (ac_local_pref o) (ac_local_pref n), unset_opt (ac_med o) (ac_med n),
        unset_opt (ac_prepend o) (ac_prepend n), unset_opt (ac_ext o) (ac_ext n),
        unset_opt (ac_large o) (ac_large n), unset_opt (ac_origin o) (ac_origin n) with
  | Some a, Some b, Some c, Some d, Some e, Some f, Some g, Some h =>
      Some {| ac_nexthop := a; ac_comm := b; ac_local_pref := c; ac_med := d;
              ac_prepend := e; ac_ext := f; ac_large := g; ac_origin := h |}
  | _, _, _, _, _, _, _, _ => None
  end.

(* PolicyTable::delete_statement *)
Definition delete_statement (t : table) (n : N) (all : bool) (cs : list cond_cfg) (d : option disp)
           (a : actions) : table * N :=
  if stmt_in_use (t_pols t) n then (t, INUSE)
  else
    match lookup_stmt n (t_stmts t) with
    | None => (t, NOTFOUND)
    | Some old =>
        if all then (with_stmts t (remove_stmt n (t_stmts t)), OK)
        else
          match remove_kinds (map ccfg_kind cs) (st_conds old) with
          | None => (t, INVAL)
          | Some conds =>
              match unset_opt (st_disp old) d with
              | None => (t, INVAL)
              | Some dd =>
                  match unset_actions (st_act old) a with
                  | None => (t, INVAL)
                  | Some aa =>
                      (with_stmts t (put_stmt {| st_name := n; st_conds := conds; st_disp := dd; st_act := aa |}
                                              (t_stmts t)), OK)
                  end
              end
          end
    end.

(* ------------------------------------------------------------------ *)
(* policies                                                             *)

Definition resolve_stmts (t : table) (l : list N) : option (list stmt) :=
  parse_all (fun n => lookup_stmt n (t_stmts t)) l.

(* PolicyTable::add_policy *)
Definition add_policy (t : table) (n : N) (ss : list N) : table * N :=
  match resolve_stmts t ss with
  | None => (t, INVAL)
  | Some v =>
      match lookup_pol n (t_pols t) with
      | None => (with_pols t (put_pol {| p_name := n; p_stmts := v |} (t_pols t)), OK)
      | Some old =>
          if pol_in_use t n then (t, INUSE)
          else (with_pols t (put_pol {| p_name := n; p_stmts := p_stmts old ++ v |} (t_pols t)), OK)
      end
  end.

(* drop from the statement map the given statements no policy lists any more *)
Fixpoint drop_unused (pols : list policy) (cands : list stmt) (ss : list stmt) : list stmt :=
  match cands with
  | [] => ss
  | c :: r =>
      drop_unused pols r (if stmt_in_use pols (st_name c) then ss else remove_stmt (st_name c) ss)
  end.

(* PolicyTable::delete_policy *)
Definition delete_policy (t : table) (n : N) (preserve all : bool) (names : list N) : table * N :=
  if pol_in_use t n then (t, INUSE)
  else
    match lookup_pol n (t_pols t) with
    | None => (t, NOTFOUND)
    | Some old =>
        if all then
          let pols := remove_pol n (t_pols t) in
          (with_pols_stmts t pols (if preserve then t_stmts t else drop_unused pols (p_stmts old) (t_stmts t)), OK)
        else
          let named := fun s => existsb (N.eqb (st_name s)) names in
          let removed := filter named (p_stmts old) in
          let kept := filter (fun s => negb (named s)) (p_stmts old) in
          let pols := put_pol {| p_name := n; p_stmts := kept |} (t_pols t) in
          (with_pols_stmts t pols (if preserve then t_stmts t else drop_unused pols removed (t_stmts t)), OK)
    end.

(* ------------------------------------------------------------------ *)
(* assignments                                                          *)

Definition sets_nexthop (p : policy) : bool :=
  existsb (fun s => match ac_nexthop (st_act s) with Some _ => true | None => false end) (p_stmts p).

(* PolicyTable::build_assignment *)
Definition build_assignment (t : table) (existing : option assignment) (import : bool) (d : disp)
           (names : list N) : option assignment :=
  match parse_all (fun n => lookup_pol n (t_pols t)) names with
  | None => None
  | Some v =>
      if import && existsb sets_nexthop v then None
      else
        match existing with
        | None => Some {| as_disp := d; as_pols := v; as_needs_rpki := compute_needs_rpki v |}
        | Some old =>
            if existsb (fun p0 => existsb (fun p1 => p_name p0 =? p_name p1) v) (as_pols old) then None
            else Some {| as_disp := d; as_pols := v ++ as_pols old; as_needs_rpki := compute_needs_rpki (v ++ as_pols old) |}
        end
  end.

Definition slot (t : table) (import : bool) : option assignment :=
  if import then t_imp t else t_exp t.

(* add_assignment (accumulates) / set_policy_assignment (replaces) *)
Definition add_assignment (t : table) (set : bool) (import : bool) (d : disp) (names : list N) : table * N :=
  match build_assignment t (if set then None else slot t import) import d names with
  | None => (t, INVAL)
  | Some a => (with_asg t import (Some a), OK)
  end.

(* PolicyAssignment::without_policies: the flag is recomputed *)
Definition without_policies (old : assignment) (names : list N) : assignment :=
  let ps := filter (fun p => negb (existsb (N.eqb (p_name p)) names)) (as_pols old) in
  {| as_disp := as_disp old; as_pols := ps; as_needs_rpki := compute_needs_rpki ps |}.

(* delete_policy_assignment *)
Definition delete_assignment (t : table) (import : bool) (names : list N) (all : bool) : table * N :=
  if all then (with_asg t import None, OK)
  else
    match slot t import with
    | None => (t, NOTFOUND)
    | Some old =>
        (with_asg t import
           (Some (without_policies old names)), OK)
    end.

(* ------------------------------------------------------------------ *)
(* operations                                                           *)

Record route := {
  ro_src : source; ro_net : nlri; ro_attrs : list attr; ro_nh : option nexthop;
  ro_orig : option nexthop; ro_confed : bool; ro_local : ip; ro_peer : ip
}.

Inductive op :=
| OAddSet (replace : bool) (name : N) (c : set_cfg)
| ODelSet (all : bool) (name : N) (c : set_cfg)
| OAddStmt (name : N) (cs : list cond_cfg) (d : option disp) (a : actions)
| ODelStmt (name : N) (all : bool) (cs : list cond_cfg) (d : option disp) (a : actions)
| OAddPol (name : N) (ss : list N)
| ODelPol (name : N) (preserve all : bool) (ss : list N)
| OAddAsg (set import : bool) (d : disp) (names : list N)
| ODelAsg (import : bool) (names : list N) (all : bool)
| OEval (import : bool) (r : route)
| ODump
| OSetRpki                           (* the harness installs its RPKI table: evaluation from now on has one *)
| OProbe (n : nlri) (asn : N).       (* RpkiTable::validate probed for (prefix, origin AS) *)

Definition lift (r : table * N) : res (table * N) := Ok r.

(* the table-changing operations *)
Definition crud_step (t : table) (o : op) : res (table * N) :=
  match o with
  | OAddSet false n c => add_defined_set t n c
  | OAddSet true n c => replace_defined_set t n c
  | ODelSet all n c => lift (delete_defined_set t n c all)
  | OAddStmt n cs d a => lift (add_statement t n cs d a)
  | ODelStmt n all cs d a => lift (delete_statement t n all cs d a)
  | OAddPol n ss => lift (add_policy t n ss)
  | ODelPol n pr all ss => lift (delete_policy t n pr all ss)
  | OAddAsg st im d ns => lift (add_assignment t st im d ns)
  | ODelAsg im ns all => lift (delete_assignment t im ns all)
  | OEval _ _ | ODump | OSetRpki | OProbe _ _ => Ok (t, OK)
  end.

(* ------------------------------------------------------------------ *)
(* observations                                                         *)

Section Run.
  Variable rx_comm rx_ext rx_large : N -> N -> bool.
  Variable rx_aspath : N -> list N -> bool.
  Variable validate : nlri -> N -> option N.

  Definition eval_op (rpki_on : bool) (t : table) (import : bool) (r : route) : val :=
    let rpki := if rpki_on then Some validate else None in
    match slot t import with
    | None => VL [VI (-2)%Z]
    | Some a =>
        let rs := {| r_attrs := ro_attrs r; r_nh := ro_nh r |} in
        if import then
          match apply_import rx_comm rx_ext rx_large rx_aspath rpki a (ro_src r) (ro_net r) rs with
          | Panic _ => VL [VI (-1)%Z]
          | Ok (f, rs') => VL (VB f :: v_rstate rs')
          end
        else
          let x := {| x_src := ro_src r; x_net := ro_net r; x_orig_nh := ro_orig r;
                      x_confed := ro_confed r; x_local := ro_local r; x_peer := ro_peer r |} in
          match apply_export rx_comm rx_ext rx_large rx_aspath rpki a x rs with
          | Panic _ => VL [VI (-1)%Z]
          | Ok (d, rs') => VL (VN (disp_code d) :: v_rstate rs')
          end
    end.

  Definition v_opt_pair (o : option (N * N)) : val :=
    match o with Some (a, b) => VL [VL [VN a; VN b]] | None => VL [] end.

  Definition v_pent (v6 : bool) (e : pent) : val :=
    if v6 then VL [VN 6; VN (pe_key e / 2 ^ 64); VN (pe_key e mod 2 ^ 64); VN (pe_mask e); VN (pe_min e); VN (pe_max e)]
    else VL [VN 4; VN (pe_key e); VN (pe_mask e); VN (pe_min e); VN (pe_max e)].

  Definition v_setv (s : setv) : val :=
    match s with
    | SPrefix p => VL [VL (map (v_pent false) (ps_v4 p) ++ map (v_pent true) (ps_v6 p));
                       v_opt_pair (ps_zero p); v_opt_pair (ps_zero6 p)]
    | SNeighbor l => VL [VN (N.of_nat (length l))]
    | SAsPath s => VL [VN (N.of_nat (length (ap_single s))); VN (N.of_nat (length (ap_regex s)))]
    | SComm l => VL [VN (N.of_nat (length l))]
    | SExt l => VL [VN (N.of_nat (length l))]
    | SLarge l => VL [VN (N.of_nat (length l))]
    end.

  Definition mopt_code (o : mopt) : N := match o with MAny => 0 | MAll => 1 | MInvert => 2 end.

  (* the last field of a reference is "is the very object the table lists
     under that name": the model's prediction is the reference invariant
     (Proofs/PolicyTable.v), i.e. always 1 *)
  Definition v_cond (c : cond) : val :=
    match c with
    | CSet n o s => VL [VN (set_kind s); VN n; VN (mopt_code o); VN 1]
    | _ => VL [VN (cond_kind c)]
    end.

  Definition some_b {A} (o : option A) : val := VB (match o with Some _ => true | None => false end).

  Definition v_stmt (s : stmt) : val :=
    let a := st_act s in
    VL [VN (st_name s); VList v_cond (st_conds s);
        VOpt (fun d => VN (disp_code d)) (st_disp s);
        VL [some_b (ac_nexthop a); some_b (ac_comm a); some_b (ac_local_pref a); some_b (ac_med a);
            some_b (ac_prepend a); some_b (ac_ext a); some_b (ac_large a); some_b (ac_origin a)]].

  Definition v_pol (p : policy) : val :=
    VL [VN (p_name p); VList (fun s => VL [VN (st_name s); VN 1]) (p_stmts p)].

  Definition v_asg (a : option assignment) : val :=
    VOpt (fun a => VL [VN (disp_code (as_disp a));
                       VList (fun p => VL [VN (p_name p); VN 1]) (as_pols a);
                       VB (as_needs_rpki a)]) a.

  Definition dump (t : table) : val :=
    VL [VList (fun e => VL [VN (fst (fst e)); VN (snd (fst e)); v_setv (snd e)]) (t_sets t);
        VList v_stmt (t_stmts t); VList v_pol (t_pols t); v_asg (t_imp t); v_asg (t_exp t)].

  Fixpoint run_ops (rpki_on : bool) (t : table) (l : list op) : list val :=
    match l with
    | [] => []
    | o :: r =>
        match o with
        | OEval im ro =>
            let v := eval_op rpki_on t im ro in
            match v with
            | VL [VI (-1)%Z] => [v]
            | _ => v :: run_ops rpki_on t r
            end
        | ODump => dump t :: run_ops rpki_on t r
        | OSetRpki => VL [VN 0] :: run_ops true t r
        | OProbe n asn =>
            (if rpki_on then VOpt VN (validate n asn) else VL [VI (-2)%Z]) :: run_ops rpki_on t r
        | _ =>
            match crud_step t o with
            | Panic _ => [VL [VI (-1)%Z]]
            | Ok (t', c) => VL [VN c] :: run_ops rpki_on t' r
            end
        end
    end.
End Run.

(* oracle instance used by the correspondence run: a finite table
   (pattern id, list of matching subjects) supplied with the case *)
Definition rx_table (tb : list (N * list N)) (id s : N) : bool :=
  match find (fun e => fst e =? id) tb with
  | Some e => existsb (N.eqb s) (snd e)
  | None => false
  end.

(* as-path patterns: (pattern id, rendered paths it matches) *)
Fixpoint str_eqb (a b : list N) : bool :=
  match a, b with
  | [], [] => true
  | x :: a', y :: b' => (x =? y) && str_eqb a' b'
  | _, _ => false
  end.
Definition rx_str_table (tb : list (N * list (list N))) (id : N) (s : list N) : bool :=
  match find (fun e => fst e =? id) tb with
  | Some e => existsb (str_eqb s) (snd e)
  | None => false
  end.

Definition nlri_eqb (a b : nlri) : bool :=
  match a, b with
  | NV4 x m, NV4 y n => (x =? y) && (m =? n)
  | NV6 x m, NV6 y n => (x =? y) && (m =? n)
  | _, _ => false
  end.
(* the probed values of RpkiTable::validate: ((prefix, origin AS), result) *)
Definition validate_table (tb : list (nlri * N * option N)) (n : nlri) (asn : N) : option N :=
  match find (fun e => nlri_eqb (fst (fst e)) n && (snd (fst e) =? asn)) tb with
  | Some e => snd e
  | None => None
  end.

Definition run_case (tc te tl : list (N * list N)) (ta : list (N * list (list N)))
           (tv : list (nlri * N * option N)) (ops : list op) : val :=
  VL (run_ops (rx_table tc) (rx_table te) (rx_table tl) (rx_str_table ta) (validate_table tv)
              false empty_table ops).
