(* Executable model of the timer handling of the per-connection I/O driver,
   daemon/src/event/mod.rs: PeerSession::{session_loop, run_select,
   apply_outputs, rx_msg, flush_tx} and ConnArbiter::process, on top of the
   FSM model Model/Fsm.v.  No proofs in this file.

   Time is virtual: an [N] of seconds.  `tokio::time::sleep(d)` created at
   time t is a deadline t+d; the future may complete at any now >= t+d and a
   sleep of 0 s is complete at once.  The two `FuturesUnordered<Sleep>` fields
   hold at most one sleep:

     TNever  the sleep(Duration::new(u64::MAX,0)) installed by PeerSession::new
     TAt d   a pending sleep with deadline d
     TEmpty  the sleep has completed and was taken out; the next poll of
             `.next()` yields None once (the select arm is taken once more) ...
     TTerm   ... after which the stream is terminated and the arm is skipped.

   One [ESelect] event is one iteration of run_select.  Everything the
   `select_biased!` looks at is part of the state, so the iteration is a
   function: close channel, hold timer, keepalive timer, then the socket
   (read everything that has arrived, then flush if something is pending). *)
From Coq Require Import List NArith Bool.
From RB Require Import Base.Val Model.Caps Model.Fsm.
Import ListNotations.
Open Scope N_scope.

Inductive tslot := TNever | TAt (d : N) | TEmpty | TTerm.

(* Two readings of Set*Timer(secs):
   arm_sleep  `vec![tokio::time::sleep(Duration::from_secs(secs))]` for every
              secs, so Set*Timer(0) is a sleep that is complete at once;
   arm_stop0  the same for secs > 0, but secs = 0 stops the timer (the far
              future sleep PeerSession::new installs). *)
Definition arm_sleep (now n : N) : tslot := TAt (now + n).
Definition arm_stop0 (now n : N) : tslot := if n =? 0 then TNever else TAt (now + n).

(* The two places where the driver's reading of the FSM can be chosen:
   how Set*Timer(n) is armed, and whether an UPDATE that run_select drops
   because its AS_PATH contains the local AS is shown to the FSM first. *)
Record cfg := { c_arm : N -> N -> tslot; c_loop_to_fsm : bool }.

(* what the tree under verification does *)
Definition cur : cfg := {| c_arm := arm_stop0; c_loop_to_fsm := true |}.

Definition enabled (now : N) (s : tslot) : bool :=
  match s with
  | TAt d => d <=? now
  | TEmpty => true
  | TNever | TTerm => false
  end.

(* what remains in the FuturesUnordered after its `.next()` completed *)
Definition consumed (s : tslot) : tslot :=
  match s with
  | TAt _ => TEmpty
  | TEmpty => TTerm
  | _ => s
  end.

Inductive close_reason :=
| CRAdmin                     (* CloseReason::AdminShutdown *)
| CRSend (code sub : N)       (* CloseReason::SendMessage(NOTIFICATION) *)
| CRSilent.                   (* CloseReason::Silent *)

(* what the peer can put on the wire that survives parsing and validation *)
Inductive item :=
| IMsg (m : msg)
| ILoop                       (* an UPDATE announcing routes whose AS_PATH contains the local AS *)
| IParseErr (code sub : N).   (* a message the codec or validate_message rejects with this NOTIFICATION,
                                 e.g. an OPEN whose hold time is 1 or 2 (2/6) *)

Inductive ev :=
| ETick (dt : N)              (* time passes *)
| EArrive (its : list item)   (* bytes of these messages arrive in the socket buffer *)
| EFin                        (* the peer closes the connection *)
| ECloseReq (cr : close_reason)  (* an operator action takes this connection's close sender and uses it *)
| EPending                    (* a route change leaves an UPDATE to send in some PendingTx *)
| ESelect                     (* one iteration of run_select *)
| EOther (i : input).         (* the task of the other connection steps the shared FSM *)

Record drv := {
  d_p : pfsm;                 (* the PeerFsm inside the shared ConnArbiter *)
  d_role : role;
  d_now : N;
  d_hold : tslot;             (* holdtime_futures *)
  d_ka : tslot;               (* keepalive_futures *)
  d_live : bool;              (* session_loop has not left its loop *)
  d_rxq : list item;          (* received, not yet read from the socket *)
  d_eof : bool;
  d_close_tx : bool;          (* the arbiter still holds this connection's close sender *)
  d_close : option close_reason;  (* value waiting in the close channel *)
  d_pend : bool;              (* some PendingTx is non-empty *)
  d_ctrl : bool               (* ctrl_msgs is non-empty *)
}.

Definition drv_init (p : pfsm) (r : role) (now : N) : drv :=
  {| d_p := p; d_role := r; d_now := now; d_hold := TNever; d_ka := TNever; d_live := true;
     d_rxq := []; d_eof := false; d_close_tx := true; d_close := None; d_pend := false;
     d_ctrl := false |}.

Definition set_fsm (d : drv) (p : pfsm) (h k : tslot) (live : bool) : drv :=
  {| d_p := p; d_role := d_role d; d_now := d_now d; d_hold := h; d_ka := k; d_live := live;
     d_rxq := d_rxq d; d_eof := d_eof d; d_close_tx := d_close_tx d; d_close := d_close d;
     d_pend := d_pend d; d_ctrl := d_ctrl d |}.

Definition set_env (d : drv) (now : N) (rxq : list item) (eof tx : bool) (cl : option close_reason)
           (pend : bool) : drv :=
  {| d_p := d_p d; d_role := d_role d; d_now := now; d_hold := d_hold d; d_ka := d_ka d;
     d_live := d_live d; d_rxq := rxq; d_eof := eof; d_close_tx := tx; d_close := cl; d_pend := pend;
     d_ctrl := d_ctrl d |}.

Definition set_ctrl (d : drv) (b : bool) : drv :=
  {| d_p := d_p d; d_role := d_role d; d_now := d_now d; d_hold := d_hold d; d_ka := d_ka d;
     d_live := d_live d; d_rxq := d_rxq d; d_eof := d_eof d; d_close_tx := d_close_tx d;
     d_close := d_close d; d_pend := d_pend d; d_ctrl := b |}.

(* ConnArbiter::process: a SendMessage addressed to the other role is
   delivered through that connection's close channel, not returned. *)
Definition other_send (r : role) (o : pfo) : bool :=
  match o with
  | PConn r' (Send _) => negb (role_eqb r' r)
  | _ => false
  end.

Definition arb_process (p : pfsm) (r : role) (i : input) : pfsm * list pfo :=
  let '(p', outs) := peer_step p r i in
  (p', filter (fun o => negb (other_send r o)) outs).

(* the NOTIFICATION (code, subcode) the arbiter puts into the other
   connection's close channel, if any *)
Definition cease_for (r : role) (outs : list pfo) : option (N * N) :=
  match filter (other_send r) outs with
  | PConn _ (Send (MNotif c s)) :: _ => Some (c, s)
  | _ => None
  end.

(* accumulator of apply_outputs: both slots, down_reason, notification *)
Record acc := {
  a_hold : tslot; a_ka : tslot;
  a_down : option reason; a_notif : option (N * N)
}.

Definition apply_one (armf : N -> N -> tslot) (now : N) (a : acc) (o : pfo) : acc :=
  match o with
  | PConn _ (SetKa n) =>
      {| a_hold := a_hold a; a_ka := armf now n; a_down := a_down a; a_notif := a_notif a |}
  | PConn _ (SetHold n) =>
      {| a_hold := armf now n; a_ka := a_ka a; a_down := a_down a; a_notif := a_notif a |}
  | PConn _ (SessDown r n) =>
      {| a_hold := a_hold a; a_ka := a_ka a; a_down := Some r; a_notif := n |}
  | PClose =>
      {| a_hold := a_hold a; a_ka := a_ka a; a_down := Some RFsmError; a_notif := a_notif a |}
  | _ => a
  end.

(* Step::Continue / Step::Terminate{reason, notification} *)
Inductive sres := Cont | Term (r : reason) (n : option (N * N)).

Definition apply_outputs (armf : N -> N -> tslot) (now : N) (hold ka : tslot) (outs : list pfo)
  : tslot * tslot * sres :=
  let a := fold_left (apply_one armf now) outs
                     {| a_hold := hold; a_ka := ka; a_down := None; a_notif := None |} in
  (a_hold a, a_ka a, match a_down a with Some r => Term r (a_notif a) | None => Cont end).

(* what one step did, for the trace *)
Inductive act :=
| ADead                       (* the session task has already ended *)
| AEnv                        (* time, arrivals, requests: the task itself did nothing *)
| AIdle                       (* select stays pending *)
| AStart
| AClosed (cr : close_reason)
| AHoldFired
| AKaFired
| ARx (m : msg)
| ASkipLoop                   (* AS-loop UPDATE dropped before the FSM *)
| AParseErr                   (* try_parse / validate_message failed: Terminate without the FSM *)
| AEof
| AFlush.

Record lbl := {
  l_time : N;
  l_act : act;
  l_in : option input;        (* the input given to ConnArbiter::process, if any *)
  l_outs : list pfo;          (* what it returned *)
  l_res : sres
}.

Definition is_cont (r : sres) : bool := match r with Cont => true | _ => false end.

(* on_established (called by apply_outputs for SessionEstablished) queues an
   End-of-RIB in the PendingTx of every negotiated family, i.e. every family
   both sides listed in a MultiProtocol capability *)
Definition mp_fams (caps : list cap) : list N :=
  flat_map (fun c => match c with CMultiProtocol f => [f] | _ => [] end) caps.

Definition queues_eor (lcap : list cap) (o : pfo) : bool :=
  match o with
  | PConn _ (SessEstablished _ _ _ rcaps _) =>
      existsb (fun f => existsb (N.eqb f) (mp_fams rcaps)) (mp_fams lcap)
  | _ => false
  end.

(* apply_outputs pushes every SendMessage it is given to ctrl_msgs *)
Definition is_send (o : pfo) : bool :=
  match o with PConn _ (Send _) => true | _ => false end.

(* one input through the arbiter and apply_outputs *)
Definition feed (c : cfg) (d : drv) (a : act) (i : input) : drv * lbl :=
  let '(p', outs) := arb_process (d_p d) (d_role d) i in
  let '(h', k', res) := apply_outputs (c_arm c) (d_now d) (d_hold d) (d_ka d) outs in
  let d1 := set_fsm d p' h' k' (d_live d && is_cont res) in
  (set_ctrl (set_env d1 (d_now d) (d_rxq d) (d_eof d) (d_close_tx d) (d_close d)
                     (d_pend d || existsb (queues_eor (p_local_cap (d_p d))) outs))
            (d_ctrl d || existsb is_send outs),
   {| l_time := d_now d; l_act := a; l_in := Some i; l_outs := outs; l_res := res |}).

Definition quiet (d : drv) (a : act) (res : sres) : drv * lbl :=
  (set_fsm d (d_p d) (d_hold d) (d_ka d) (d_live d && is_cont res),
   {| l_time := d_now d; l_act := a; l_in := None; l_outs := []; l_res := res |}).

Definition is_setka (o : pfo) : bool :=
  match o with PConn _ (SetKa _) => true | _ => false end.

(* PeerSession::session_loop prologue: Connected through the arbiter; the
   Step returned by apply_outputs is dropped (`let (_, effects) = ...`). *)
Definition start (c : cfg) (d : drv) (restarting : bool) : drv * lbl :=
  let '(p', outs) := arb_process (d_p d) (d_role d) (Connected restarting) in
  let '(h', k', res) := apply_outputs (c_arm c) (d_now d) (d_hold d) (d_ka d) outs in
  (set_ctrl (set_fsm d p' h' k' (d_live d)) (d_ctrl d || existsb is_send outs),
   {| l_time := d_now d; l_act := AStart; l_in := Some (Connected restarting); l_outs := outs; l_res := res |}).

(* one element of the `loop { try_parse ... rx_msg }` of the readable branch *)
Definition rx_item (c : cfg) (d : drv) (it : item) : drv * lbl :=
  match it with
  | IMsg m => feed c d (ARx m) (Recv m)
  | ILoop => if c_loop_to_fsm c then feed c d (ARx MUpdate) (Recv MUpdate)
             else quiet d ASkipLoop Cont
  | IParseErr cd sb => quiet d AParseErr (Term (RLocalNotif cd sb) (Some (cd, sb)))
  end.

Fixpoint rx_loop (c : cfg) (d : drv) (its : list item) : drv * list lbl :=
  match its with
  | [] => (d, [])
  | it :: rest =>
      let '(d1, l) := rx_item c d it in
      if d_live d1 then let '(d2, ls) := rx_loop c d1 rest in (d2, l :: ls)
      else (d1, [l])
  end.

(* flush_tx when some PendingTx was non-empty: only the SetKeepaliveTimer
   outputs of UpdateSent are applied (the caller has emptied ctrl_msgs) *)
Definition flush (c : cfg) (d : drv) : drv * lbl :=
  let '(p', outs) := arb_process (d_p d) (d_role d) UpdateSent in
  let '(h', k', _) := apply_outputs (c_arm c) (d_now d) (d_hold d) (d_ka d) (filter is_setka outs) in
  (set_env (set_fsm d p' h' k' (d_live d)) (d_now d) (d_rxq d) (d_eof d) (d_close_tx d) (d_close d) false,
   {| l_time := d_now d; l_act := AFlush; l_in := Some UpdateSent; l_outs := outs; l_res := Cont |}).

Definition take_close (d : drv) : drv :=
  set_env d (d_now d) (d_rxq d) (d_eof d) (d_close_tx d) None (d_pend d).
Definition take_rxq (d : drv) : drv :=
  set_env d (d_now d) [] (d_eof d) (d_close_tx d) (d_close d) (d_pend d).
Definition fire_hold (d : drv) : drv := set_fsm d (d_p d) (consumed (d_hold d)) (d_ka d) (d_live d).
Definition fire_ka (d : drv) : drv := set_fsm d (d_p d) (d_hold d) (consumed (d_ka d)) (d_live d).

Definition one (x : drv * lbl) : drv * list lbl := (fst x, [snd x]).

Definition select (c : cfg) (d : drv) : drv * list lbl :=
  match d_close d with
  | Some CRAdmin => one (feed c (take_close d) (AClosed CRAdmin) AdminShutdown)
  | Some (CRSend cd s) => one (quiet (take_close d) (AClosed (CRSend cd s)) (Term RAdmin (Some (cd, s))))
  | Some CRSilent => one (quiet (take_close d) (AClosed CRSilent) (Term RAdmin None))
  | None =>
      if enabled (d_now d) (d_hold d) then one (feed c (fire_hold d) AHoldFired HoldExpired)
      else if enabled (d_now d) (d_ka d) then one (feed c (fire_ka d) AKaFired KaExpired)
      else
        let '(d1, ls) :=
          match d_rxq d with
          | [] => if d_eof d then one (feed c d AEof Disconnected) else (d, [])
          | its => rx_loop c (take_rxq d) its
          end in
        (* `interest` is computed before the select: WRITABLE only if a
           control message or an update was waiting then; flush_tx itself
           looks at the PendingTx again *)
        if d_live d1 && (d_ctrl d || d_pend d) then
          if d_pend d1 then
            let '(d2, l) := flush c (set_ctrl d1 false) in (d2, ls ++ [l])
          else
            match ls with
            | [] => one (quiet (set_ctrl d1 false) AIdle Cont)
            | _ => (set_ctrl d1 false, ls)
            end
        else
          match ls with
          | [] => one (quiet d1 AIdle Cont)
          | _ => (d1, ls)
          end
  end.

Definition env_lbl (d : drv) : list lbl :=
  [{| l_time := d_now d; l_act := AEnv; l_in := None; l_outs := []; l_res := Cont |}].

Definition step (c : cfg) (d : drv) (e : ev) : drv * list lbl :=
  if negb (d_live d) then
    (d, [{| l_time := d_now d; l_act := ADead; l_in := None; l_outs := []; l_res := Cont |}])
  else
    match e with
    | ETick dt => (set_env d (d_now d + dt) (d_rxq d) (d_eof d) (d_close_tx d) (d_close d) (d_pend d), env_lbl d)
    | EArrive its =>
        (* nothing arrives after the peer's FIN *)
        (if d_eof d then d
         else set_env d (d_now d) (d_rxq d ++ its) (d_eof d) (d_close_tx d) (d_close d) (d_pend d), env_lbl d)
    | EFin => (set_env d (d_now d) (d_rxq d) true (d_close_tx d) (d_close d) (d_pend d), env_lbl d)
    | ECloseReq cr =>
        (if d_close_tx d
         then set_env d (d_now d) (d_rxq d) (d_eof d) false (Some cr) (d_pend d)
         else d, env_lbl d)
    | EPending => (set_env d (d_now d) (d_rxq d) (d_eof d) (d_close_tx d) (d_close d) true, env_lbl d)
    | ESelect => select c d
    | EOther i =>
        let '(p', outs) := peer_step (d_p d) (other (d_role d)) i in
        let d1 := set_fsm d p' (d_hold d) (d_ka d) (d_live d) in
        (match cease_for (other (d_role d)) outs with
         | Some (cd, s) =>
             if d_close_tx d
             then set_env d1 (d_now d) (d_rxq d) (d_eof d) false (Some (CRSend cd s)) (d_pend d)
             else d1
         | None => d1
         end, env_lbl d)
    end.

Fixpoint run (c : cfg) (d : drv) (evs : list ev) : drv * list lbl :=
  match evs with
  | [] => (d, [])
  | e :: rest =>
      let '(d1, l) := step c d e in
      let '(d2, ls) := run c d1 rest in
      (d2, l ++ ls)
  end.

(* a whole connection task: PeerSession for role r created on peer state p at
   time t0, session_loop's prologue, then the events *)
Definition session (c : cfg) (p : pfsm) (r : role) (t0 : N) (restarting : bool)
           (evs : list ev) : drv * list lbl :=
  let '(d0, l0) := start c (drv_init p r t0) restarting in
  let '(d1, ls) := run c d0 evs in
  (d1, l0 :: ls).

(* ------------------------------------------------------------ observation *)

Definition v_slot (now : N) (s : tslot) : val :=
  match s with
  | TNever => VL [VN 0]
  | TAt d => if now <=? d then VL [VN 1; VN (d - now)] else VL [VN 2]
  | TEmpty => VL [VN 3]
  | TTerm => VL [VN 4]
  end.

Definition v_sres (r : sres) : val :=
  match r with
  | Cont => VL []
  | Term r n => VL [v_reason r; VOpt VPairN n]
  end.

Definition last_res (ls : list lbl) : sres :=
  match rev ls with l :: _ => l_res l | [] => Cont end.

Definition v_drv (d : drv) (res : sres) : val :=
  VL [v_slot (d_now d) (d_hold d); v_slot (d_now d) (d_ka d); v_sres res; VB (d_live d);
      VN (st_code (pstate (d_p d) RActive)); VN (st_code (pstate (d_p d) RPassive))].

(* Per event: both slots relative to now, the Step of the iteration, whether
   the task still runs, and the FSM state of both roles. *)
Fixpoint observe (c : cfg) (d : drv) (evs : list ev) : list val :=
  match evs with
  | [] => []
  | e :: rest =>
      let '(d1, ls) := step c d e in
      v_drv d1 (last_res ls) :: observe c d1 rest
  end.

Definition run_case (lid lasn : N) (lcap : list cap) (lhold exp : N) (r : role) (restarting : bool)
           (evs : list ev) : val :=
  let p := pfsm_new lid lasn lcap lhold exp [] in
  let '(d0, l0) := start cur (drv_init p r 0) restarting in
  (* first: the hold time the OPEN just queued advertises *)
  VL (VL [VN (open_hold lhold)] :: v_drv d0 Cont :: observe cur d0 evs).
