(* Byte strings and fixed-width machine arithmetic for the wire models
   (Model/Bfd.v, Rtr.v, Wire*.v).  Bytes are [N] (the harness only ever
   supplies 0..255); lengths and positions are [nat].  No proofs here. *)
From Coq Require Import List NArith Bool.
Import ListNotations.
Open Scope N_scope.

(* Rust build profile: arithmetic overflow panics in Debug and wraps in
   Release (overflow-checks off). *)
Inductive profile := Debug | Release.

(* Fixed-width operations; [None] is the overflow panic of a debug build. *)
Definition add_w (w : N) (p : profile) (a b : N) : option N :=
  if a + b <? 2 ^ w then Some (a + b)
  else match p with Debug => None | Release => Some ((a + b) mod 2 ^ w) end.

Definition sub_w (w : N) (p : profile) (a b : N) : option N :=
  if b <=? a then Some (a - b)
  else match p with Debug => None | Release => Some ((2 ^ w + a - b) mod 2 ^ w) end.

(* `x as uW` *)
Definition trunc (w x : N) : N := x mod 2 ^ w.

Definition be16 (a b : N) : N := a * 256 + b.
Definition be24 (a b c : N) : N := (a * 256 + b) * 256 + c.
Definition be32 (a b c d : N) : N := ((a * 256 + b) * 256 + c) * 256 + d.

Definition len (l : list N) : N := N.of_nat (length l).

(* big-endian bytes of a 32-bit value *)
Definition to_be32 (x : N) : list N :=
  [x / 16777216 mod 256; x / 65536 mod 256; x / 256 mod 256; x mod 256].

(* u8::div_ceil(8) *)
Definition ceil8 (bits : N) : N := (bits + 7) / 8.

(* pad/truncate to exactly n bytes (fixed-size address arrays filled from the front) *)
Fixpoint pad_to (n : nat) (l : list N) : list N :=
  match n with
  | O => []
  | S n' => match l with [] => 0 :: pad_to n' [] | b :: l' => b :: pad_to n' l' end
  end.
