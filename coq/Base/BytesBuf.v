(* Byte strings as lists of N, big-endian fixed-width integers (truncating, as
   the Rust `x as uK` + `put_uK` pair does), the option monad used by the
   structural readers, and the library lemmas about them. *)
From Coq Require Import List NArith Bool Lia ZifyBool ZifyNat ZifyN Arith.
Import ListNotations.
Open Scope N_scope.

Definition bytes := list N.

(* [be k n]: the k low-order bytes of n, most significant first
   (`put_u8/u16/u32/u64 (n as uK)`). *)
Fixpoint be (k : nat) (n : N) : bytes :=
  match k with
  | O => []
  | S k' => (n / 256 ^ N.of_nat k') mod 256 :: be k' n
  end.

(* big-endian value of a byte string *)
Definition be_dec (l : bytes) : N := fold_left (fun acc b => acc * 256 + b) l 0.

Definition byte_ok (b : N) : Prop := b < 256.
Definition bytes_ok (l : bytes) : Prop := Forall byte_ok l.
Definition bytes_okb (l : bytes) : bool := forallb (fun b => b <? 256) l.

(* buffer back-patching: overwrite [length v] bytes of [buf] at offset [off] *)
Definition patch (buf : bytes) (off : nat) (v : bytes) : bytes :=
  firstn off buf ++ v ++ skipn (off + length v) buf.

(* ---------------------------------------------------------------- readers *)

Definition bind {A B} (o : option A) (f : A -> option B) : option B :=
  match o with Some a => f a | None => None end.
Notation "'let?' x ':=' o 'in' k" := (bind o (fun x => k))
  (at level 200, x pattern, o at level 100, k at level 200, right associativity).

Definition guard (b : bool) : option unit := if b then Some tt else None.

(* split off the first n bytes *)
Definition take (n : nat) (bs : bytes) : option (bytes * bytes) :=
  if (n <=? length bs)%nat then Some (firstn n bs, skipn n bs) else None.

(* read a k-byte big-endian number *)
Definition rd (k : nat) (bs : bytes) : option (N * bytes) :=
  let? (h, t) := take k bs in Some (be_dec h, t).

(* ---------------------------------------------------------------- lemmas *)

Lemma be_length : forall k n, length (be k n) = k.
Proof. induction k as [|k IH]; intro n; cbn [be length]; [reflexivity| now rewrite IH]. Qed.

Lemma be_bytes_ok : forall k n, bytes_ok (be k n).
Proof.
  induction k as [|k IH]; intro n; cbn [be]; constructor.
  - unfold byte_ok. apply N.mod_lt. lia.
  - apply IH.
Qed.

Lemma be_dec_app : forall a b, be_dec (a ++ b) = be_dec a * 256 ^ N.of_nat (length b) + be_dec b.
Proof.
  intros a b. unfold be_dec. rewrite fold_left_app.
  generalize (fold_left (fun acc b0 => acc * 256 + b0) a 0) as x.
  induction b as [|y b IH]; intro x.
  - cbn. lia.
  - cbn [fold_left length]. rewrite IH. rewrite (IH (0 * 256 + y)).
    rewrite Nat2N.inj_succ, N.pow_succ_r'. lia.
Qed.

Lemma be_dec_cons : forall x l, be_dec (x :: l) = x * 256 ^ N.of_nat (length l) + be_dec l.
Proof. intros x l. change (x :: l) with ([x] ++ l). rewrite be_dec_app. cbn. lia. Qed.

Lemma be_dec_be_mod : forall k n, be_dec (be k n) = n mod 256 ^ N.of_nat k.
Proof.
  induction k as [|k IH]; intro n.
  - cbn. now rewrite N.mod_1_r.
  - cbn [be]. rewrite be_dec_cons, be_length, IH.
    rewrite Nat2N.inj_succ, N.pow_succ_r'.
    set (p := 256 ^ N.of_nat k). assert (Hp : p <> 0) by (apply N.pow_nonzero; lia).
    rewrite (N.mul_comm 256 p), N.mod_mul_r by lia. lia.
Qed.

Lemma be_dec_be : forall k n, n < 256 ^ N.of_nat k -> be_dec (be k n) = n.
Proof. intros k n H. rewrite be_dec_be_mod. now apply N.mod_small. Qed.

Lemma be_dec_lt : forall l, bytes_ok l -> be_dec l < 256 ^ N.of_nat (length l).
Proof.
  induction l as [|x l IH]; intro H.
  - cbn. lia.
  - inversion H as [|? ? Hx Hl]; subst. rewrite be_dec_cons. specialize (IH Hl).
    cbn [length]. rewrite Nat2N.inj_succ, N.pow_succ_r'. unfold byte_ok in Hx. nia.
Qed.

Lemma be_low : forall k a b, b < 256 ^ N.of_nat k -> be k (a * 256 ^ N.of_nat k + b) = be k b.
Proof.
  induction k as [|k IHk]; intros a b Hb; [reflexivity|].
  cbn [be]. f_equal.
  - rewrite Nat2N.inj_succ, N.pow_succ_r' in *.
    set (q := 256 ^ N.of_nat k) in *. assert (Hq : q <> 0) by (apply N.pow_nonzero; lia).
    replace (a * (256 * q) + b) with ((a * 256) * q + b) by lia.
    rewrite N.div_add_l by exact Hq. rewrite N.add_mod by lia.
    rewrite N.mod_mul by lia. rewrite N.add_0_l. rewrite N.mod_mod by lia. reflexivity.
  - rewrite Nat2N.inj_succ, N.pow_succ_r' in *.
    set (q := 256 ^ N.of_nat k) in *. assert (Hq : q <> 0) by (apply N.pow_nonzero; lia).
    replace (a * (256 * q) + b) with ((a * 256 + b / q) * q + b mod q).
    2:{ rewrite (N.div_mod b q Hq) at 3. lia. }
    rewrite IHk by (apply N.mod_lt; exact Hq).
    rewrite <- (IHk (b / q) (b mod q)) by (apply N.mod_lt; exact Hq).
    f_equal. rewrite (N.div_mod b q Hq) at 3. lia.
Qed.

Lemma be_be_dec : forall l, bytes_ok l -> be (length l) (be_dec l) = l.
Proof.
  induction l as [|x l IH]; intro H; [reflexivity|].
  inversion H as [|? ? Hx Hl]; subst. cbn [length be]. rewrite be_dec_cons.
  pose proof (be_dec_lt l Hl) as Hlt. set (p := 256 ^ N.of_nat (length l)) in *.
  assert (Hp : p <> 0) by (apply N.pow_nonzero; lia).
  f_equal.
  - rewrite N.div_add_l by exact Hp. rewrite (N.div_small _ _ Hlt), N.add_0_r.
    apply N.mod_small. exact Hx.
  - subst p. rewrite be_low by exact Hlt. apply IH. exact Hl.
Qed.

Lemma take_app : forall n a b, length a = n -> take n (a ++ b) = Some (a, b).
Proof.
  intros n a b H. unfold take. rewrite app_length.
  destruct (n <=? length a + length b)%nat eqn:E; [|lia].
  subst n. rewrite firstn_app, Nat.sub_diag, firstn_all, firstn_O, app_nil_r.
  rewrite skipn_app, Nat.sub_diag, skipn_all. reflexivity.
Qed.

Lemma take_all : forall n a, length a = n -> take n a = Some (a, []).
Proof. intros n a H. rewrite <- (app_nil_r a) at 1. now apply take_app. Qed.

Lemma take_some : forall n bs h t, take n bs = Some (h, t) -> bs = h ++ t /\ length h = n.
Proof.
  intros n bs h t H. unfold take in H. destruct (n <=? length bs)%nat eqn:E; [|discriminate].
  inversion H; subst. split; [symmetry; apply firstn_skipn|]. rewrite firstn_length. lia.
Qed.

Lemma rd_be : forall k n rest, n < 256 ^ N.of_nat k -> rd k (be k n ++ rest) = Some (n, rest).
Proof.
  intros k n rest H. unfold rd. rewrite take_app by apply be_length.
  cbn [bind]. now rewrite be_dec_be.
Qed.

Lemma rd_some : forall k bs n t, rd k bs = Some (n, t) ->
  exists h, bs = h ++ t /\ length h = k /\ n = be_dec h.
Proof.
  intros k bs n t H. unfold rd in H. destruct (take k bs) as [[h t']|] eqn:E; [|discriminate].
  cbn in H. inversion H; subst. apply take_some in E. destruct E. eauto.
Qed.

Lemma patch_mid : forall a old v c, length old = length v ->
  patch (a ++ old ++ c) (length a) v = a ++ v ++ c.
Proof.
  intros a old v c H. unfold patch.
  rewrite firstn_app, Nat.sub_diag, firstn_all, firstn_O, app_nil_r.
  f_equal. f_equal.
  rewrite skipn_app. rewrite skipn_all2 by lia. cbn [app].
  replace (length a + length v - length a)%nat with (length v) by lia.
  rewrite <- H. rewrite skipn_app, Nat.sub_diag, skipn_all. reflexivity.
Qed.

Lemma bytes_okb_ok : forall l, bytes_okb l = true <-> bytes_ok l.
Proof.
  intro l. unfold bytes_okb, bytes_ok, byte_ok. rewrite forallb_forall, Forall_forall.
  split; intros H x Hx; specialize (H x Hx); lia.
Qed.

Lemma bytes_ok_app : forall a b, bytes_ok (a ++ b) <-> bytes_ok a /\ bytes_ok b.
Proof. intros. unfold bytes_ok. apply Forall_app. Qed.
