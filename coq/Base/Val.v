(* Observation trees exchanged with the harness.

   Every model run prints a [val]; the Rust harness prints the same shape
   as nested integer arrays.  Nothing here is proved about: it is the
   printing layer of the correspondence check. *)
From Coq Require Import List ZArith NArith Bool.
Import ListNotations.

Inductive val : Type :=
| VI (z : Z)
| VL (l : list val).

Definition VN (n : N) : val := VI (Z.of_N n).
Definition VB (b : bool) : val := VI (if b then 1%Z else 0%Z).
Definition VNs (l : list N) : val := VL (map VN l).
Definition VOpt {A} (f : A -> val) (o : option A) : val :=
  match o with None => VL [] | Some a => VL [f a] end.
Definition VPairN (p : N * N) : val := VL [VN (fst p); VN (snd p)].
Definition VList {A} (f : A -> val) (l : list A) : val := VL (map f l).
