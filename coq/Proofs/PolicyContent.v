(* What a prefix set CONTAINS after the API calls that built it (property C14):
   - add_defined_set never panics on configurations whose prefixes have no host
     bits inside the nibble that holds the mask boundary (the treebitmap panic
     recorded as out of scope is exactly the complement);
   - the entries of a merged set are: of the entries given in this call, the
     last one per (masked address, length); and the old entries whose key is not
     restated; 0.0.0.0/0 and ::/0 each keep the new range if one is given, else
     the old one -- per family, never across families;
   - keys stay unique in every stored set along every history. *)
From Coq Require Import List NArith ZArith Bool Lia.
From RB Require Import Base.Val Model.Policy Model.PolicyTable Spec.PolicySpec Proofs.Policy Proofs.PolicyTable.
Import ListNotations.
Open Scope N_scope.

(* ------------------------------------------------------------------ *)
(* a per-set invariant carried along every history                      *)

Section SetInv.
  Variable P : setv -> Prop.
  Hypothesis P_build : forall ex c s, (forall o, ex = Some o -> P o) -> build_set ex c = Ok (inl s) -> P s.
  Hypothesis P_shrink : forall old c s, P old -> shrink_set old c = inl s -> P s.

  Definition sets_inv (sets : list (N * N * setv)) : Prop :=
    forall k n s, lookup_set k n sets = Some s -> P s.

  Lemma sets_inv_put sets k n s : sets_inv sets -> P s -> sets_inv (put_set k n s sets).
  Proof.
    intros H Hs k' n' s' L. rewrite lookup_put_set in L. destruct (same_key k' n' k n).
    - inversion L; subst. exact Hs.
    - apply (H k' n' s' L).
  Qed.

  Lemma sets_inv_remove sets k n : sets_inv sets -> sets_inv (remove_set k n sets).
  Proof.
    intros H k' n' s' L. rewrite lookup_remove_set in L. destruct (same_key k' n' k n); [discriminate|].
    apply (H k' n' s' L).
  Qed.

  Lemma add_defined_set_inv t n c t' code :
    sets_inv (t_sets t) -> add_defined_set t n c = Ok (t', code) -> sets_inv (t_sets t').
  Proof.
    intros Hw H. unfold add_defined_set in H.
    destruct (negb (cfg_parses c)); [inversion H; subst; exact Hw|].
    destruct (lookup_set (cfg_kind c) n (t_sets t)) as [old|] eqn:L.
    - destruct (set_in_use t (cfg_kind c) n); [inversion H; subst; exact Hw|].
      destruct (build_set (Some old) c) as [[s|e]|tag] eqn:B; cbn [bind] in H; inversion H; subst; [|exact Hw].
      cbn [with_sets t_sets]. apply sets_inv_put; [exact Hw|].
      apply (P_build (Some old) c s); [|exact B]. intros o E. inversion E; subst. apply (Hw _ _ _ L).
    - destruct (build_set None c) as [[s|e]|tag] eqn:B; cbn [bind] in H; inversion H; subst; [|exact Hw].
      cbn [with_sets t_sets]. apply sets_inv_put; [exact Hw|].
      apply (P_build None c s); [|exact B]. intros o E. discriminate.
  Qed.

  Lemma crud_step_sets_inv t o t' code :
    sets_inv (t_sets t) -> crud_step t o = Ok (t', code) -> sets_inv (t_sets t').
  Proof.
    intros Hw H. destruct o; cbn [crud_step lift] in H.
    - destruct replace.
      + unfold replace_defined_set in H. destruct (set_in_use t (cfg_kind c) name); [inversion H; subst; exact Hw|].
        apply (add_defined_set_inv _ name c t' code) in H; [exact H|]. cbn [with_sets t_sets]. apply sets_inv_remove; exact Hw.
      + apply (add_defined_set_inv t name c t' code Hw H).
    - inversion H as [E]. unfold delete_defined_set in E.
      destruct (set_in_use t (cfg_kind c) name); [inversion E; subst; exact Hw|].
      destruct (lookup_set (cfg_kind c) name (t_sets t)) as [old|] eqn:L; [|inversion E; subst; exact Hw].
      destruct all.
      + inversion E; subst. cbn [with_sets t_sets]. apply sets_inv_remove; exact Hw.
      + destruct (shrink_set old c) as [s|e] eqn:B; inversion E; subst; [|exact Hw].
        cbn [with_sets t_sets]. apply sets_inv_put; [exact Hw|]. apply (P_shrink old c s (Hw _ _ _ L) B).
    - inversion H as [E]. unfold add_statement in E.
      repeat match type of E with context [match ?x with _ => _ end] => destruct x end; inversion E; subst; exact Hw.
    - inversion H as [E]. unfold delete_statement in E.
      repeat match type of E with context [match ?x with _ => _ end] => destruct x end; inversion E; subst; exact Hw.
    - inversion H as [E]. unfold add_policy in E.
      repeat match type of E with context [match ?x with _ => _ end] => destruct x end; inversion E; subst; exact Hw.
    - inversion H as [E]. unfold delete_policy in E.
      repeat match type of E with context [match ?x with _ => _ end] => destruct x end; inversion E; subst; exact Hw.
    - inversion H as [E]. unfold add_assignment in E.
      destruct (build_assignment t _ import d names); inversion E; subst; [|exact Hw].
      unfold with_asg. destruct import; exact Hw.
    - inversion H as [E]. unfold delete_assignment in E. destruct all.
      + inversion E; subst. unfold with_asg. destruct import; exact Hw.
      + destruct (slot t import); inversion E; subst; [|exact Hw]. unfold with_asg. destruct import; exact Hw.
    - inversion H; subst. exact Hw.
    - inversion H; subst. exact Hw.
    - inversion H; subst. exact Hw.
    - inversion H; subst. exact Hw.
  Qed.

  Lemma history_sets_inv l : forall t, sets_inv (t_sets t) -> sets_inv (t_sets (run_history t l)).
  Proof.
    induction l as [|o l IH]; intros t Hw; cbn [run_history]; [exact Hw|].
    destruct (crud_step t o) as [[t' c]|tag] eqn:E; [|exact Hw].
    apply IH. apply (crud_step_sets_inv t o t' c Hw E).
  Qed.
End SetInv.

(* ------------------------------------------------------------------ *)
(* keys and the treebitmap insert                                       *)

Definition pkey (e : pent) : N * N := (pe_key e, pe_mask e).
Definition keys_unique (l : list pent) : Prop := NoDup (map pkey l).

Lemma same_key_iff e f : pent_same_key e f = true <-> pkey e = pkey f.
Proof.
  unfold pent_same_key, pkey. rewrite andb_true_iff, !N.eqb_eq. split.
  - intros [-> ->]. reflexivity.
  - intros H. inversion H. auto.
Qed.

Lemma same_key_sym e f : pent_same_key e f = pent_same_key f e.
Proof. unfold pent_same_key. rewrite (N.eqb_sym (pe_key e)), (N.eqb_sym (pe_mask e)). reflexivity. Qed.

Lemma same_key_false_iff e f : pent_same_key e f = false <-> pkey e <> pkey f.
Proof. rewrite <- not_true_iff_false, same_key_iff. tauto. Qed.

(* the value under an existing key is replaced, a new key is added; nothing else changes *)
Lemma in_pent_insert e l : keys_unique l -> forall f,
  In f (pent_insert e l) <-> f = e \/ (In f l /\ pent_same_key e f = false).
Proof.
  induction l as [|g r IH]; intros Hu f; cbn [pent_insert].
  - split; [intros [<-|[]]; left; reflexivity|intros [->|[[] _]]; left; reflexivity].
  - inversion Hu as [|? ? Hnot Hur]; subst. destruct (pent_same_key e g) eqn:K.
    + apply same_key_iff in K. split.
      * intros [<-|Hin]; [left; reflexivity|]. right. split; [right; exact Hin|].
        apply same_key_false_iff. intros E. apply Hnot. rewrite <- K, E. apply in_map. exact Hin.
      * intros [->|[[<-|Hin] Hk]]; [left; reflexivity| |right; exact Hin].
        apply same_key_false_iff in Hk. contradiction.
    + split.
      * intros [<-|Hin]; [right; split; [left; reflexivity|exact K]|].
        apply (IH Hur) in Hin. destruct Hin as [->|[Hin Hk]]; [left; reflexivity|right; split; [right; exact Hin|exact Hk]].
      * intros [->|[[<-|Hin] Hk]].
        { right. apply (IH Hur). left; reflexivity. }
        { left; reflexivity. }
        { right. apply (IH Hur). right. auto. }
Qed.

Lemma pent_insert_keys e l : keys_unique l -> keys_unique (pent_insert e l).
Proof.
  unfold keys_unique. induction l as [|g r IH]; intros Hu; cbn [pent_insert map].
  - constructor; [intros []|constructor].
  - inversion Hu as [|? ? Hnot Hur]; subst. destruct (pent_same_key e g) eqn:K.
    + apply same_key_iff in K. cbn [map]. rewrite K. constructor; assumption.
    + cbn [map]. constructor; [|apply IH; exact Hur].
      intros Hin. apply in_map_iff in Hin. destruct Hin as (f & Ef & Hf).
      assert (Hu' : keys_unique r) by exact Hur.
      apply (in_pent_insert e r Hu') in Hf. destruct Hf as [->|[Hf _]].
      * apply same_key_false_iff in K. apply K. exact Ef.
      * apply Hnot. rewrite <- Ef. apply in_map. exact Hf.
Qed.

(* insert_all without its panic check *)
Definition merged (w : N) (new : list (N * N * N * N)) (acc : list pent) : list pent :=
  fold_left (fun a x => match x with (ad, m, lo, hi) => pent_insert (mk_pent w ad m lo hi) a end) new acc.

Definition mk4 (w : N) (x : N * N * N * N) : pent := match x with (ad, m, lo, hi) => mk_pent w ad m lo hi end.

Lemma insert_all_merged w : forall new acc out, insert_all w new acc = Ok out -> out = merged w new acc.
Proof.
  induction new as [|[[[ad m] lo] hi] r IH]; intros acc out H; cbn [insert_all merged fold_left] in *.
  - inversion H; reflexivity.
  - destruct (insert_panics w ad m); [discriminate|]. apply (IH _ _ H).
Qed.

Lemma insert_all_total w : forall new acc,
  Forall (fun x => insert_panics w (fst (fst (fst x))) (snd (fst (fst x))) = false) new ->
  exists out, insert_all w new acc = Ok out.
Proof.
  induction new as [|[[[ad m] lo] hi] r IH]; intros acc Hc; cbn [insert_all]; [eauto|].
  inversion Hc as [|? ? Hx Hr]; subst. cbn [fst snd] in Hx. rewrite Hx. apply IH; exact Hr.
Qed.

(* of the entries given in one call, the last per key *)
Fixpoint last_per_key (l : list pent) : list pent :=
  match l with
  | [] => []
  | x :: r => if existsb (pent_same_key x) r then last_per_key r else x :: last_per_key r
  end.

Lemma merged_keys w : forall new acc, keys_unique acc -> keys_unique (merged w new acc).
Proof.
  induction new as [|[[[ad m] lo] hi] r IH]; intros acc Hu; cbn [merged fold_left]; [exact Hu|].
  apply IH. apply pent_insert_keys; exact Hu.
Qed.

(* THE MERGE: an entry is in the result iff it is the last given for its key in
   this call, or an old entry whose key this call does not restate *)
Lemma in_merged w : forall new acc, keys_unique acc -> forall f,
  In f (merged w new acc) <->
  In f (last_per_key (map (mk4 w) new)) \/ (In f acc /\ existsb (pent_same_key f) (map (mk4 w) new) = false).
Proof.
  induction new as [|[[[ad m] lo] hi] r IH]; intros acc Hu f; cbn [merged fold_left map last_per_key existsb mk4].
  - split; [intros H; right; auto|intros [[]|[H _]]; exact H].
  - fold (merged w r (pent_insert (mk_pent w ad m lo hi) acc)).
    set (x := mk_pent w ad m lo hi) in *. set (r' := map (mk4 w) r) in *.
    rewrite (IH (pent_insert x acc) (pent_insert_keys x acc Hu) f). fold r'.
    rewrite (in_pent_insert x acc Hu f).
    destruct (existsb (pent_same_key x) r') eqn:Ex.
    + split.
      * intros [H|[[->|[Hin Hk]] Hn]]; [left; exact H|rewrite Hn in Ex; discriminate|].
        right. split; [exact Hin|]. rewrite same_key_sym, Hk. exact Hn.
      * intros [H|[Hin Hn]]; [left; exact H|]. apply orb_false_iff in Hn. destruct Hn as [Hk Hn].
        right. split; [|exact Hn]. right. split; [exact Hin|]. rewrite same_key_sym. exact Hk.
    + split.
      * intros [H|[[->|[Hin Hk]] Hn]]; [left; right; exact H|left; left; reflexivity|].
        right. split; [exact Hin|]. rewrite same_key_sym, Hk. exact Hn.
      * intros [[<-|H]|[Hin Hn]]; [right; split; [left; reflexivity|exact Ex]|left; exact H|].
        apply orb_false_iff in Hn. destruct Hn as [Hk Hn].
        right. split; [|exact Hn]. right. split; [exact Hin|]. rewrite same_key_sym. exact Hk.
Qed.

(* ------------------------------------------------------------------ *)
(* keys stay unique in every stored set                                 *)

Definition set_ku (s : setv) : Prop :=
  match s with SPrefix p => keys_unique (ps_v4 p) /\ keys_unique (ps_v6 p) | _ => True end.

Lemma build_set_ku ex c s : (forall o, ex = Some o -> set_ku o) -> build_set ex c = Ok (inl s) -> set_ku s.
Proof.
  intros Hex H. destruct c as [l|l|l|l|l|l]; cbn [build_set] in H;
    try (match type of H with context [parse_all ?f ?l] => destruct (parse_all f l) as [ps|] end; [|discriminate];
         destruct ex as [[| | | | |]|]; try (destruct ps; try discriminate); inversion H; exact I).
  destruct (parse_all pfx_parse l) as [es|]; [|discriminate].
  destruct (split_pfx es) as [[[z z6] l4] l6].
  assert (Hnil : keys_unique []) by constructor.
  assert (Hgo : forall a4 a6 zz zz6,
             keys_unique a4 -> keys_unique a6 ->
             (do v4 <- insert_all 32 l4 a4; do v6 <- insert_all 128 l6 a6;
              Ok (inl (SPrefix {| ps_v4 := v4; ps_v6 := v6; ps_zero := zz; ps_zero6 := zz6 |}))) = Ok (inl s : setv + N) ->
             set_ku s).
  { intros a4 a6 zz zz6 K4 K6 H'.
    destruct (insert_all 32 l4 a4) as [v4|] eqn:I4; cbn [bind] in H'; [|discriminate].
    destruct (insert_all 128 l6 a6) as [v6|] eqn:I6; cbn [bind] in H'; [|discriminate].
    inversion H'; subst. apply insert_all_merged in I4, I6. subst. split; apply merged_keys; assumption. }
  destruct ex as [[old|o|o|o|o|o]|].
  - destruct (Hex _ eq_refl) as [U4 U6]. apply (Hgo _ _ _ _ U4 U6 H).
  - destruct l4, l6, z, z6; try discriminate; apply (Hgo _ _ _ _ Hnil Hnil H).
  - destruct l4, l6, z, z6; try discriminate; apply (Hgo _ _ _ _ Hnil Hnil H).
  - destruct l4, l6, z, z6; try discriminate; apply (Hgo _ _ _ _ Hnil Hnil H).
  - destruct l4, l6, z, z6; try discriminate; apply (Hgo _ _ _ _ Hnil Hnil H).
  - destruct l4, l6, z, z6; try discriminate; apply (Hgo _ _ _ _ Hnil Hnil H).
  - destruct l4, l6, z, z6; try discriminate; apply (Hgo _ _ _ _ Hnil Hnil H).
Qed.

Lemma filter_keys f l : keys_unique l -> keys_unique (filter f l).
Proof.
  unfold keys_unique. induction l as [|g r IH]; intros Hu; cbn [filter]; [constructor|].
  inversion Hu as [|? ? Hnot Hur]; subst. destruct (f g); [|apply IH; exact Hur].
  cbn [map]. constructor; [|apply IH; exact Hur].
  intros Hin. apply Hnot. apply in_map_iff in Hin. destruct Hin as (y & Ey & Hy). apply filter_In in Hy.
  rewrite <- Ey. apply in_map. tauto.
Qed.

Lemma pset_remove_ku es : forall p, set_ku (SPrefix p) -> set_ku (SPrefix (pset_remove es p)).
Proof.
  induction es as [|[[[[v6 a] m] lo] hi] r IH]; intros p Hp; cbn [pset_remove]; [exact Hp|].
  apply IH. destruct Hp as [H4 H6].
  destruct (is_zero_pfx a m); destruct v6; split; cbn [ps_v4 ps_v6]; try assumption;
    unfold pent_remove; apply filter_keys; assumption.
Qed.

Lemma shrink_set_ku old c s : set_ku old -> shrink_set old c = inl s -> set_ku s.
Proof.
  intros Ho H. destruct c as [l|l|l|l|l|l], old; cbn [shrink_set] in H; try discriminate;
    match type of H with context [parse_all ?f ?l] => destruct (parse_all f l) as [ps|] end; try discriminate;
    inversion H; subst; try exact I.
  apply pset_remove_ku. exact Ho.
Qed.

Lemma C14_history_keys_unique :
  forall l k n s, lookup_set k n (t_sets (run_history empty_table l)) = Some s -> set_ku s.
Proof.
  intros l. apply (history_sets_inv set_ku build_set_ku shrink_set_ku l empty_table).
  intros k n s L. discriminate.
Qed.

(* ------------------------------------------------------------------ *)
(* the content of a merged prefix set                                   *)

Lemma C14_prefix_merge_content :
  forall old l es z z6 l4 l6 s,
    set_ku (SPrefix old) ->
    parse_all pfx_parse l = Some es -> split_pfx es = (z, z6, l4, l6) ->
    build_set (Some (SPrefix old)) (CfgPrefix l) = Ok (inl s) ->
    exists p, s = SPrefix p /\
      ps_zero p = or_else z (ps_zero old) /\ ps_zero6 p = or_else z6 (ps_zero6 old) /\
      (forall f, In f (ps_v4 p) <->
         In f (last_per_key (map (mk4 32) l4)) \/ (In f (ps_v4 old) /\ existsb (pent_same_key f) (map (mk4 32) l4) = false)) /\
      (forall f, In f (ps_v6 p) <->
         In f (last_per_key (map (mk4 128) l6)) \/ (In f (ps_v6 old) /\ existsb (pent_same_key f) (map (mk4 128) l6) = false)).
Proof.
  intros old l es z z6 l4 l6 s [U4 U6] P S H. cbn [build_set] in H. rewrite P, S in H.
  destruct (insert_all 32 l4 (ps_v4 old)) as [v4|] eqn:I4; cbn [bind] in H; [|discriminate].
  destruct (insert_all 128 l6 (ps_v6 old)) as [v6|] eqn:I6; cbn [bind] in H; [|discriminate].
  inversion H; subst. eexists. split; [reflexivity|]. cbn [ps_zero ps_zero6 ps_v4 ps_v6].
  apply insert_all_merged in I4, I6. subst.
  split; [reflexivity|]. split; [reflexivity|]. split; intros f; apply in_merged; assumption.
Qed.

(* ------------------------------------------------------------------ *)
(* add_defined_set / every CRUD call returns on canonical prefixes       *)

Definition cfg_canonical (c : set_cfg) : Prop :=
  match c with
  | CfgPrefix l => Forall (fun e => match e with
                                    | Pfx v6 a m _ _ => insert_panics (width v6) a m = false
                                    | PfxBad => True
                                    end) l
  | _ => True
  end.

Definition op_canonical (o : op) : Prop :=
  match o with OAddSet _ _ c => cfg_canonical c | _ => True end.

Lemma parse_pfx_canon l es :
  cfg_canonical (CfgPrefix l) -> parse_all pfx_parse l = Some es ->
  Forall (fun x => match x with (v6, a, m, _, _) => insert_panics (width v6) a m = false end) es.
Proof.
  revert es. induction l as [|c l IH]; intros es Hc H; cbn [parse_all] in H.
  - inversion H; subst. constructor.
  - inversion Hc as [|? ? Hx Hl]; subst.
    destruct (pfx_parse c) as [[[[[v6 a] m] lo] hi]|] eqn:P; [|discriminate].
    destruct (parse_all pfx_parse l) as [bs|]; [|discriminate]. inversion H; subst.
    constructor; [|apply IH; [exact Hl|reflexivity]].
    unfold pfx_parse in P. destruct c as [|v a0 m0 lo0 hi0]; [discriminate|].
    destruct (m0 <=? width v); [|discriminate]. inversion P; subst. exact Hx.
Qed.

Lemma split_pfx_canon es z z6 l4 l6 :
  Forall (fun x => match x with (v6, a, m, _, _) => insert_panics (width v6) a m = false end) es ->
  split_pfx es = (z, z6, l4, l6) ->
  Forall (fun x => insert_panics 32 (fst (fst (fst x))) (snd (fst (fst x))) = false) l4 /\
  Forall (fun x => insert_panics 128 (fst (fst (fst x))) (snd (fst (fst x))) = false) l6.
Proof.
  revert z z6 l4 l6. induction es as [|[[[[v6 a] m] lo] hi] r IH]; intros z z6 l4 l6 Hb H; cbn [split_pfx] in H.
  - inversion H; subst. split; constructor.
  - inversion Hb as [|? ? Hm Hr]; subst.
    destruct (split_pfx r) as [[[z0 z60] l40] l60] eqn:S.
    destruct (IH z0 z60 l40 l60 Hr eq_refl) as [H4 H6].
    destruct (is_zero_pfx a m).
    + destruct v6; inversion H; subst; split; assumption.
    + destruct v6; inversion H; subst; (split; [|]); try assumption; constructor; try assumption; exact Hm.
Qed.

Lemma build_set_total exi c : cfg_canonical c -> exists r, build_set exi c = Ok r.
Proof.
  intros Hc. destruct c as [l|l|l|l|l|l]; cbn [build_set].
  2-6: (match goal with |- context [parse_all ?f ?l] => destruct (parse_all f l) as [ps|] end; [|eauto];
        destruct exi as [[| | | | |]|]; try (destruct ps); eauto).
  destruct (parse_all pfx_parse l) as [es|] eqn:P; [|eauto].
  destruct (split_pfx es) as [[[z z6] l4] l6] eqn:S.
  destruct (split_pfx_canon es z z6 l4 l6 (parse_pfx_canon l es Hc P) S) as [C4 C6].
  assert (T : forall a4 a6 zz zz6, exists r,
             (do v4 <- insert_all 32 l4 a4; do v6 <- insert_all 128 l6 a6;
              Ok (inl (SPrefix {| ps_v4 := v4; ps_v6 := v6; ps_zero := zz; ps_zero6 := zz6 |}))) = Ok (r : setv + N)).
  { intros a4 a6 zz zz6. destruct (insert_all_total 32 l4 a4 C4) as (v4 & ->).
    destruct (insert_all_total 128 l6 a6 C6) as (v6 & ->). cbn [bind]. eauto. }
  destruct exi as [ex0|]; [destruct ex0 as [old|o|o|o|o|o]|]; try (apply (T (ps_v4 old) (ps_v6 old)));
    destruct l4, l6, z, z6; first [apply (T [] []) | (eexists; reflexivity)].
Qed.

Lemma C14_crud_total_canonical :
  forall t o, op_canonical o -> exists t' code, crud_step t o = Ok (t', code).
Proof.
  intros t o Hc. destruct o; cbn [crud_step lift];
    try (match goal with |- exists t' code, Ok ?p = Ok (t', code) => destruct p as [t1 c1]; exists t1, c1; reflexivity end).
  assert (A : forall t0, exists t' code, add_defined_set t0 name c = Ok (t', code)).
  { intros t0. unfold add_defined_set. destruct (negb (cfg_parses c)); [eauto|].
    destruct (lookup_set (cfg_kind c) name (t_sets t0)) as [old|].
    - destruct (set_in_use t0 (cfg_kind c) name); [eauto|].
      destruct (build_set_total (Some old) c Hc) as ([s|e] & ->); cbn [bind]; eauto.
    - destruct (build_set_total None c Hc) as ([s|e] & ->); cbn [bind]; eauto. }
  destruct replace; [|apply A]. unfold replace_defined_set.
  destruct (set_in_use t (cfg_kind c) name); [eauto|apply A].
  all: unfold lift; match goal with |- exists t' code, Ok ?p = Ok (t', code) => destruct p as [t1 c1]; exists t1, c1; reflexivity end.
Qed.

(* non-vacuity / the complement: the recorded out-of-scope input *)
Example hostbits_panic :
  crud_step empty_table (OAddSet false 1 (CfgPrefix [Pfx false 167772160 6 8 32])) = Panic P_TREEBITMAP /\
  op_canonical (OAddSet false 1 (CfgPrefix [Pfx false 167772160 8 8 32; Pfx true 0 0 0 128])).
Proof. split; [vm_compute; reflexivity|]. repeat constructor. Qed.

Example merge_example :
  let old := {| ps_v4 := [mk_pent 32 167772160 8 8 32; mk_pent 32 167837696 16 16 16]; ps_v6 := [];
                ps_zero := Some (0, 8); ps_zero6 := None |} in
  set_ku (SPrefix old) /\
  build_set (Some (SPrefix old)) (CfgPrefix [Pfx false 167772160 8 24 24; Pfx false 3232235520 16 16 24]) =
  Ok (inl (SPrefix {| ps_v4 := [mk_pent 32 167772160 8 24 24; mk_pent 32 167837696 16 16 16; mk_pent 32 3232235520 16 16 24];
                      ps_v6 := []; ps_zero := Some (0, 8); ps_zero6 := None |})).
Proof.
  cbn zeta. split; [|vm_compute; reflexivity]. split; [|constructor].
  unfold keys_unique. vm_compute. repeat constructor; cbn; intuition congruence.
Qed.
