(* C20: invariants of Model/Fib.v over all histories and the final statements.
   Structure: every operation is a per-destination pass; for each
   per-destination function a small package of facts ([chg_ok], sortedness,
   emptiness) is proved, and generic lemmas lift them to the request stream. *)
From Coq Require Import List NArith Bool Lia ZifyBool ZifyN.
From RB Require Import Base.Val Model.Fib Spec.FibSpec Proofs.FibOrder.
Import ListNotations.
Open Scope N_scope.

Lemma pfx_eqb_refl p : pfx_eqb p p = true.
Proof. unfold pfx_eqb. rewrite !N.eqb_refl. auto. Qed.
Lemma pfx_eqb_eq p q : pfx_eqb p q = true <-> p = q.
Proof.
  unfold pfx_eqb. destruct p, q; cbn [fst snd]. rewrite andb_true_iff, !N.eqb_eq.
  split; [intros [-> ->]; auto | intro H; inversion H; auto].
Qed.
Lemma pfx_eqb_neq p q : p <> q -> pfx_eqb p q = false.
Proof. intro H. apply not_true_iff_false. rewrite pfx_eqb_eq. auto. Qed.
Lemma optN_eqb_refl o : optN_eqb o o = true.
Proof. destruct o; cbn; auto. apply N.eqb_refl. Qed.
Lemma optN_eqb_eq a b : optN_eqb a b = true <-> a = b.
Proof.
  destruct a, b; cbn; split; intro H; try discriminate; auto.
  - apply N.eqb_eq in H. subst; auto.
  - inversion H. apply N.eqb_refl.
Qed.

Lemma fold_fib_app k r1 r2 cur :
  fold_left (fib_step k) (r1 ++ r2) cur = fold_left (fib_step k) r2 (fold_left (fib_step k) r1 cur).
Proof. apply fold_left_app. Qed.

(* ---------------------------------------------------------------- *)
Section Fib.
Variable c : cfg.
Notation V := Fixed.

(* requests of a destination [p] only touch p's own keys *)
Definition own_key (p : prefix) (k : option N * prefix) : Prop :=
  k = (None, p) \/ (is_vpn p = true /\ exists id, k = (Some id, local_pfx p)).
Definition own_req (p : prefix) (r : req) : Prop :=
  match r with
  | Apply t q _ => own_key p (t, q)
  | _ => True
  end.

Lemma fold_fib_foreign k p rq cur :
  Forall (own_req p) rq -> ~ own_key p k -> fold_left (fib_step k) rq cur = cur.
Proof.
  revert cur. induction rq as [|r rq IH]; cbn [fold_left]; auto.
  intros cur H Hk. inversion H; subst. rewrite IH; auto.
  destruct r; cbn [fib_step]; auto.
  destruct (fkey_eqb (tbl, p0) k) eqn:E; auto.
  exfalso. apply Hk. unfold fkey_eqb in E. apply andb_true_iff in E. destruct E as [E1 E2].
  cbn [fst snd] in *. apply optN_eqb_eq in E1. apply pfx_eqb_eq in E2.
  destruct k as [kt kp]; cbn [fst snd] in *. subst. exact H2.
Qed.

Definition vrf_reqs (fl : flags) (p : prefix) (ch : change) (nh : list N) : list req :=
  flat_map (fun vr : N * list N =>
       if fst vr =? 0 then [] else
       let importable := match ch_cur ch with
                         | b :: _ => can_import (snd vr) (e_attr b)
                         | [] => false
                         end in
       [Apply (Some (fst vr)) (local_pfx p) (if importable then nh else [])]) (c_vrfs c).

Lemma distribute_fixed fl p ch :
  distribute c V fl p ch =
  if negb (ch_bc ch || ch_ac ch) then [] else
  let nh := nhs_of (ecmp_code c fl (ch_cur ch)) in
  Apply None p nh :: (if is_vpn p then vrf_reqs fl p ch nh else []).
Proof. reflexivity. Qed.

Lemma vrf_reqs_own fl p ch nh : is_vpn p = true -> Forall (own_req p) (vrf_reqs fl p ch nh).
Proof.
  intro Hp. unfold vrf_reqs. apply Forall_forall. intros r Hr.
  apply in_flat_map in Hr. destruct Hr as [vr [_ Hr]].
  destruct (fst vr =? 0); cbn in Hr; try tauto. destruct Hr as [<-|[]].
  cbn. right. split; auto. eexists; eauto.
Qed.

Lemma distribute_own fl p ch : Forall (own_req p) (distribute c V fl p ch).
Proof.
  rewrite distribute_fixed. destruct (negb (ch_bc ch || ch_ac ch)); auto.
  cbn zeta. constructor. cbn. left; auto.
  destruct (is_vpn p) eqn:E; auto. apply vrf_reqs_own. auto.
Qed.

Lemma distribute_opt_own fl p ch : Forall (own_req p) (distribute_opt c V fl p ch).
Proof. destruct ch; cbn; auto. apply distribute_own. Qed.

Lemma fkey_eqb_refl k : fkey_eqb k k = true.
Proof. unfold fkey_eqb. rewrite optN_eqb_refl, pfx_eqb_refl. auto. Qed.

Lemma vrf_reqs_main fl p ch nh cur :
  fold_left (fib_step (None, p)) (vrf_reqs fl p ch nh) cur = cur.
Proof.
  unfold vrf_reqs. revert cur. induction (c_vrfs c) as [|vr l IH]; cbn [flat_map fold_left]; auto.
  intro cur. rewrite fold_fib_app, IH. destruct (fst vr =? 0); cbn; auto.
Qed.

(* what a per-destination step must establish about its change *)
Definition chg_ok (fl fl' : flags) (d d' : dest) (ch : option change) : Prop :=
  match ch with
  | Some x => ch_cur x = eligs (d_l d') /\ ch_bc x || ch_ac x = true
  | None => eligs (d_l d') = eligs (d_l d) /\
            forall e, In e (eligs (d_l d)) -> skey c fl' e = skey c fl e
  end.

Definition code_nhs (fl : flags) (d : dest) : list N := nhs_of (ecmp_code c fl (eligs (d_l d))).

Lemma chg_ok_main fl fl' p d d' ch :
  chg_ok fl fl' d d' ch ->
  fold_left (fib_step (None, p)) (distribute_opt c V fl' p ch) (code_nhs fl d) = code_nhs fl' d'.
Proof.
  destruct ch as [x|]; cbn [chg_ok distribute_opt fold_left].
  - intros [H1 H2]. rewrite distribute_fixed, H2. cbn [negb fold_left fib_step].
    rewrite fkey_eqb_refl. destruct (is_vpn p); cbn [fold_left]; rewrite ?vrf_reqs_main;
      unfold code_nhs; rewrite H1; auto.
  - intros [H1 H2]. unfold code_nhs. rewrite H1. rewrite (ecmp_code_ext c fl fl'); auto.
Qed.


(* the VRF table entry the code maintains for destination [d] *)
Definition code_vrf (fl : flags) (imp : list N) (d : dest) : list N :=
  match eligs (d_l d) with
  | b :: _ => if can_import imp (e_attr b) then code_nhs fl d else []
  | [] => []
  end.

(* the FIB keys a destination is responsible for, with the value the code keeps there *)
Definition tracked (p : prefix) (k : option N * prefix) (valf : flags -> dest -> list N) : Prop :=
  (k = (None, p) /\ valf = code_nhs) \/
  (is_vpn p = true /\ NoDup (map fst (c_vrfs c)) /\
   exists id imp, In (id, imp) (c_vrfs c) /\ id <> 0 /\ k = (Some id, local_pfx p) /\
                  valf = fun fl d => code_vrf fl imp d).

Lemma tracked_own p k valf : tracked p k valf -> own_key p k.
Proof.
  intros [[-> _]|[Hp [_ [id [imp [_ [_ [-> _]]]]]]]]; [left; auto | right; split; auto; eexists; eauto].
Qed.

(* no other VPN prefix seen so far maps to the same VRF-local prefix (another RD) *)
Definition uniq (p : prefix) (ks : list prefix) : Prop :=
  forall q, In q ks -> is_vpn q = true -> local_pfx q = local_pfx p -> q = p.
Definition kcond (p : prefix) (k : option N * prefix) (ks : list prefix) : Prop :=
  k = (None, p) \/ uniq p ks.

Lemma tracked_inj p q k valf : tracked p k valf -> own_key q k ->
  (k = (None, p) \/ (is_vpn q = true -> local_pfx q = local_pfx p -> q = p)) -> q = p.
Proof.
  intros HT HO HC. destruct HO as [HO|[Hq [id' HO]]].
  - destruct HT as [[-> _]|[Hp [_ [id [imp [_ [_ [-> _]]]]]]]]; inversion HO; auto.
  - destruct HT as [[-> _]|[Hp [_ [id [imp [_ [_ [-> _]]]]]]]]; [discriminate|].
    destruct HC as [HC|HC]; [discriminate|]. apply HC; auto.
    assert (HL : forall a b : prefix, (Some id, a) = (Some id', b) -> b = a) by (intros a b HH; inversion HH; auto).
    apply HL. exact HO.
Qed.

Lemma vrf_fold_absent (F : N * list N -> list N) l id i cur :
  ~ In id (map fst l) ->
  fold_left (fib_step (Some id, i))
    (flat_map (fun vr : N * list N => if fst vr =? 0 then [] else [Apply (Some (fst vr)) i (F vr)]) l) cur = cur.
Proof.
  revert cur. induction l as [|vr l IH]; cbn [flat_map map In fold_left]; auto.
  intros cur Hn. rewrite fold_fib_app, IH by tauto.
  destruct (fst vr =? 0); cbn [fold_left fib_step]; auto.
  unfold fkey_eqb. cbn [fst snd optN_eqb].
  assert (fst vr =? id = false) as -> by (apply N.eqb_neq; intro; apply Hn; auto). auto.
Qed.

Lemma vrf_fold_present (F : N * list N -> list N) l id imp i cur :
  NoDup (map fst l) -> In (id, imp) l -> id <> 0 ->
  fold_left (fib_step (Some id, i))
    (flat_map (fun vr : N * list N => if fst vr =? 0 then [] else [Apply (Some (fst vr)) i (F vr)]) l) cur
  = F (id, imp).
Proof.
  revert cur. induction l as [|vr l IH]; cbn [flat_map map In fold_left]; try tauto.
  intros cur ND [->|HI] Hid; inversion ND; subst; rewrite fold_fib_app.
  - cbn [fst]. assert (id =? 0 = false) as -> by lia. cbn [fold_left fib_step].
    rewrite fkey_eqb_refl. apply vrf_fold_absent. auto.
  - apply IH; auto.
Qed.

Lemma chg_ok_tracked fl fl' p k valf d d' ch :
  tracked p k valf -> chg_ok fl fl' d d' ch ->
  fold_left (fib_step k) (distribute_opt c V fl' p ch) (valf fl d) = valf fl' d'.
Proof.
  intros [[-> ->]|[Hp [ND [id [imp [HI [Hid [-> ->]]]]]]]] HC.
  - apply chg_ok_main; auto.
  - destruct ch as [x|]; cbn [chg_ok distribute_opt fold_left] in *.
    + destruct HC as [H1 H2]. rewrite distribute_fixed, H2. cbn [negb fold_left fib_step].
      assert (fkey_eqb (None, p) (Some id, local_pfx p) = false) as -> by reflexivity.
      rewrite Hp.
      unfold vrf_reqs.
      rewrite (vrf_fold_present
                 (fun vr => if match ch_cur x with b :: _ => can_import (snd vr) (e_attr b) | [] => false end
                            then nhs_of (ecmp_code c fl' (ch_cur x)) else [])
                 (c_vrfs c) id imp (local_pfx p)); auto.
      cbn [snd]. unfold code_vrf, code_nhs. rewrite H1. destruct (eligs (d_l d')); auto.
    + destruct HC as [H1 H2]. unfold code_vrf, code_nhs. rewrite H1.
      destruct (eligs (d_l d)) eqn:E; auto. destruct (can_import imp (e_attr e)); auto.
      rewrite (ecmp_code_ext c fl fl'); auto.
Qed.

(* ---- list helpers *)
Lemma filter_insert_false fl (f : entry -> bool) e l :
  f e = false -> filter f (insert_sorted c fl e l) = filter f l.
Proof.
  intro He. induction l as [|a t IH]; cbn [insert_sorted filter].
  - rewrite He. auto.
  - destruct (ege c fl e a); cbn [filter]; rewrite ?He, ?IH; auto.
Qed.

Lemma remove_first_none {A} (P : A -> bool) l : find P l = None -> remove_first P l = l.
Proof.
  induction l as [|a t IH]; cbn [find remove_first]; auto.
  destruct (P a); try discriminate. intro H. f_equal. auto.
Qed.

Lemma filter_remove_first {A} (P f : A -> bool) l r :
  find P l = Some r -> f r = false -> filter f (remove_first P l) = filter f l.
Proof.
  induction l as [|a t IH]; cbn [find remove_first filter]; try discriminate.
  destruct (P a).
  - intros H Hr. inversion H; subst. rewrite Hr. auto.
  - intros H Hr. cbn [filter]. rewrite IH; auto.
Qed.

Lemma remove_first_in {A} (P : A -> bool) l x : In x (remove_first P l) -> In x l.
Proof.
  induction l as [|a t IH]; cbn [remove_first In]; auto.
  destruct (P a); cbn [In]; intuition.
Qed.

Lemma remove_first_sorted fl P l : ssorted c fl l -> ssorted c fl (remove_first P l).
Proof.
  induction l as [|a t IH]; cbn [remove_first ssorted]; auto.
  intros [H1 H2]. destruct (P a); auto. cbn [ssorted]. split; auto.
  rewrite Forall_forall in *. intros x Hx. apply H1. eapply remove_first_in; eauto.
Qed.

Lemma find_some_in {A} (P : A -> bool) l r : find P l = Some r -> In r l /\ P r = true.
Proof. apply find_some. Qed.

(* ---- Table::insert *)
Definition mk_entry (src : N * N) (pid lpid : N) (nh : option nexthop) (tok : N) (at_ : attr) (filtered inv : bool) : entry :=
  {| e_peer := fst src; e_sess := snd src; e_pid := pid; e_lpid := lpid; e_nhv := nh;
     e_tok := tok; e_attr := at_; e_filt := filtered; e_inv := inv |}.

Lemma do_insert_l fl d src pid nh tok at_ filtered inv :
  exists lpid,
    d_l (fst (do_insert c fl d src pid nh tok at_ filtered inv)) =
    insert_sorted c fl (mk_entry src pid lpid nh tok at_ filtered inv)
                  (remove_first (same_path (fst src) pid) (d_l d)).
Proof.
  unfold do_insert.
  destruct (find (same_path (fst src) pid) (d_l d)) as [r|].
  - exists (e_lpid r). reflexivity.
  - destruct (alloc_path_id (remove_first (same_path (fst src) pid) (d_l d)) (d_next d)) as [lp nx].
    exists lp. reflexivity.
Qed.

Lemma do_insert_sorted fl d src pid nh tok at_ filtered inv :
  ssorted c fl (d_l d) -> ssorted c fl (d_l (fst (do_insert c fl d src pid nh tok at_ filtered inv))).
Proof.
  intro H. destruct (do_insert_l fl d src pid nh tok at_ filtered inv) as [lp ->].
  apply insert_sorted_sorted. apply remove_first_sorted. auto.
Qed.

Lemma do_insert_ok fl d src pid nh tok at_ filtered inv :
  chg_ok fl fl d (fst (do_insert c fl d src pid nh tok at_ filtered inv))
               (snd (do_insert c fl d src pid nh tok at_ filtered inv)).
Proof.
  unfold do_insert.
  destruct (find (same_path (fst src) pid) (d_l d)) as [r|] eqn:EF.
  - cbn [fst snd]. match goal with |- context [if ?b then _ else _] => destruct b eqn:EB end.
    + cbn [chg_ok d_l ch_cur ch_bc ch_ac]. split; auto.
    + cbn [chg_ok d_l]. apply orb_false_iff in EB. destruct EB as [_ EB].
      apply orb_false_iff in EB. destruct EB as [E1 E2].
      apply negb_false_iff in E1. apply negb_false_iff in E2. subst filtered.
      split; auto. unfold eligs.
      rewrite filter_insert_false by (unfold elig; cbn; auto).
      eapply filter_remove_first; eauto. unfold elig. rewrite E2. auto.
  - destruct (alloc_path_id (remove_first (same_path (fst src) pid) (d_l d)) (d_next d)) as [lp nx].
    cbn [fst snd]. match goal with |- context [if ?b then _ else _] => destruct b eqn:EB end.
    + cbn [chg_ok d_l ch_cur ch_bc ch_ac]. split; auto.
    + cbn [chg_ok d_l]. apply orb_false_iff in EB. destruct EB as [_ EB].
      apply orb_false_iff in EB. destruct EB as [E1 _]. apply negb_false_iff in E1. subst filtered.
      split; auto. unfold eligs.
      rewrite filter_insert_false by (unfold elig; cbn; auto).
      rewrite remove_first_none; auto.
Qed.

(* ---- Table::remove *)
Lemma remove_first_nil_single {A} (P : A -> bool) l r :
  find P l = Some r -> remove_first P l = [] -> l = [r].
Proof.
  destruct l as [|a t]; cbn [find remove_first]; try discriminate.
  destruct (P a); intros H1 H2; try discriminate. inversion H1; subst; auto.
Qed.

Lemma do_remove_sorted fl d peer pid :
  ssorted c fl (d_l d) -> ssorted c fl (d_l (fst (fst (do_remove d peer pid)))).
Proof.
  intro H. unfold do_remove. destruct (find (same_path peer pid) (d_l d)); cbn [fst]; auto.
  pose proof (remove_first_sorted fl (same_path peer pid) (d_l d) H) as HS.
  destruct (remove_first (same_path peer pid) (d_l d)); cbn [fst d_l dest0]; auto.
Qed.

Lemma do_remove_ok fl d peer pid :
  chg_ok fl fl d (fst (fst (do_remove d peer pid))) (snd (fst (do_remove d peer pid))).
Proof.
  unfold do_remove. destruct (find (same_path peer pid) (d_l d)) as [r|] eqn:EF; cbn [fst snd].
  - destruct (remove_first (same_path peer pid) (d_l d)) as [|a t] eqn:ER; cbn [fst snd].
    + destruct (negb (e_filt r)) eqn:E; cbn [chg_ok dest0 d_l ch_cur ch_bc ch_ac]; auto.
      split; auto. rewrite (remove_first_nil_single _ _ _ EF ER). unfold eligs, elig. cbn [filter].
      apply negb_false_iff in E. rewrite E. auto.
    + match goal with |- context [if ?b then _ else _] => destruct b eqn:EB end;
        cbn [chg_ok d_l ch_cur ch_bc ch_ac]; auto.
      apply orb_false_iff in EB. destruct EB as [_ EB]. apply negb_false_iff in EB.
      split; auto. rewrite <- ER. unfold eligs. eapply filter_remove_first; eauto.
      unfold elig. rewrite EB. auto.
  - cbn [chg_ok]. auto.
Qed.

(* ---- purges *)
Lemma do_purge_l sel d : d_l (fst (fst (do_purge sel d))) = filter (fun e => negb (sel e)) (d_l d).
Proof. unfold do_purge. cbn [fst]. destruct (filter (fun e => negb (sel e)) (d_l d)); auto. Qed.

Lemma do_purge_sorted fl sel d :
  ssorted c fl (d_l d) -> ssorted c fl (d_l (fst (fst (do_purge sel d)))).
Proof. intro H. rewrite do_purge_l. apply ssorted_filter. auto. Qed.

Lemma filter_purge_elig sel l :
  existsb (fun e => sel e && elig e) l = false ->
  filter elig (filter (fun e => negb (sel e)) l) = filter elig l.
Proof.
  induction l as [|a t IH]; cbn [existsb filter]; auto.
  intro H. apply orb_false_iff in H. destruct H as [H1 H2].
  destruct (sel a) eqn:ES; cbn [negb filter].
  - cbn in H1. rewrite H1. auto.
  - rewrite IH; auto.
Qed.

Lemma do_purge_ok fl sel d :
  chg_ok fl fl d (fst (fst (do_purge sel d))) (snd (fst (do_purge sel d))).
Proof.
  pose proof (do_purge_l sel d) as HL. unfold do_purge in *. cbn [fst snd] in *.
  destruct (existsb (fun e => sel e && elig e) (d_l d)) eqn:EA; cbn [negb].
  - destruct (filter (fun e => negb (sel e)) (d_l d)) eqn:EK;
      cbn [chg_ok ch_cur ch_bc ch_ac]; rewrite HL; split; auto. apply orb_true_r.
  - cbn [chg_ok]. rewrite HL. split; auto. apply filter_purge_elig; auto.
Qed.

(* ---- update_nexthop_validity *)
Lemma do_validity_sorted fl a reachable d :
  ssorted c fl (d_l d) -> ssorted c fl (d_l (fst (do_validity a reachable d))).
Proof.
  intro H. unfold do_validity.
  destruct (negb (existsb _ (d_l d))); cbn [fst d_l]; auto.
  revert H. generalize (d_l d). induction l as [|x t IH]; cbn [map ssorted]; auto.
  intros [H1 H2]. split; auto.
  assert (HK : forall y, fkey c fl (if nh_is a y then set_inv (negb reachable) y else y) = fkey c fl y).
  { intro y. destruct (nh_is a y); auto. }
  rewrite Forall_forall in *. intros y Hy. apply in_map_iff in Hy. destruct Hy as [z [<- Hz]].
  unfold fle. rewrite !HK. apply H1; auto.
Qed.

Lemma do_validity_ok fl a reachable d :
  chg_ok fl fl d (fst (do_validity a reachable d)) (snd (do_validity a reachable d)).
Proof.
  unfold do_validity. destruct (negb (existsb _ (d_l d))); cbn [fst snd chg_ok ch_cur ch_bc ch_ac d_l]; auto.
  split; auto. apply orb_true_r.
Qed.

(* ---- restale / restale_llgr *)
Definition flags_off (peer : N) (fl fl' : flags) : Prop :=
  forall e, e_peer e <> peer -> e_stale fl' e = e_stale fl e /\ e_srcllgr fl' e = e_srcllgr fl e.

Lemma flags_off_skey peer fl fl' e : flags_off peer fl fl' -> e_peer e <> peer -> skey c fl' e = skey c fl e.
Proof. intros H He. destruct (H e He) as [H1 H2]. unfold skey, e_llgr. rewrite H1, H2. auto. Qed.

Lemma flags_off_fkey peer fl fl' e : flags_off peer fl fl' -> e_peer e <> peer -> fkey c fl' e = fkey c fl e.
Proof. intros H He. unfold fkey. erewrite flags_off_skey; eauto. Qed.

Lemma do_restale_sorted peer fl fl' d :
  flags_off peer fl fl' -> ssorted c fl (d_l d) -> ssorted c fl' (d_l (fst (do_restale c fl' peer d))).
Proof.
  intros HF H. unfold do_restale.
  destruct (existsb (fun e => e_peer e =? peer) (d_l d)) eqn:EX; cbn [negb fst d_l].
  - apply isort_sorted.
  - apply ssorted_ext with (fl := fl); [|auto]. intros e He. eapply flags_off_fkey; eauto.
    intro Hp. assert (existsb (fun e => e_peer e =? peer) (d_l d) = true).
    { apply existsb_exists. exists e. split; auto. apply N.eqb_eq. auto. }
    congruence.
Qed.

Lemma do_restale_ok peer fl fl' d :
  flags_off peer fl fl' -> ssorted c fl (d_l d) ->
  chg_ok fl fl' d (fst (do_restale c fl' peer d)) (snd (do_restale c fl' peer d)).
Proof.
  intros HF HS. unfold do_restale.
  destruct (existsb (fun e => e_peer e =? peer) (d_l d)) eqn:EX; cbn [negb fst snd].
  - match goal with |- context [if ?b then _ else _] => destruct b eqn:EB end;
      cbn [chg_ok d_l ch_cur ch_bc ch_ac]; auto.
    apply orb_false_iff in EB. destruct EB as [_ EB].
    assert (HN : forall e, In e (eligs (d_l d)) -> e_peer e <> peer).
    { intros e He Hp. unfold eligs in He. apply filter_In in He. destruct He as [He1 He2].
      assert (existsb (fun e => (e_peer e =? peer) && negb (e_filt e)) (d_l d) = true); try congruence.
      apply existsb_exists. exists e. split; auto. unfold elig in He2.
      apply andb_true_iff in He2. destruct He2 as [He2 _]. rewrite He2. apply andb_true_iff. split; auto.
      apply N.eqb_eq; auto. }
    split.
    + unfold eligs, isort. rewrite (filter_isort_acc c fl' elig (d_l d) []) by exact I.
      cbn [filter]. apply (isort_id c fl'). apply ssorted_ext with (fl := fl).
      * intros e He. eapply flags_off_fkey; eauto.
      * apply ssorted_filter. auto.
    + intros e He. eapply flags_off_skey; eauto.
  - cbn [chg_ok]. split; auto. intros e He. eapply flags_off_skey; eauto.
    intro Hp. unfold eligs in He. apply filter_In in He. destruct He as [He _].
    assert (existsb (fun e => e_peer e =? peer) (d_l d) = true); try congruence.
    apply existsb_exists. exists e. split; auto. apply N.eqb_eq. auto.
Qed.


(* ---- per-destination steps as (destination, requests) *)
Definition nht_only (rq : list req) : Prop :=
  Forall (fun r => match r with Apply _ _ _ => False | _ => True end) rq.

Lemma nht_only_own p rq : nht_only rq -> Forall (own_req p) rq.
Proof. apply Forall_impl. intros [] H; cbn in *; tauto. Qed.

Lemma nht_only_fib k rq cur : nht_only rq -> fold_left (fib_step k) rq cur = cur.
Proof.
  revert cur. induction rq as [|r rq IH]; cbn [fold_left]; auto.
  intros cur H. inversion H; subst. rewrite IH; auto. destruct r; cbn in *; tauto.
Qed.

Lemma nht_only_app a b : nht_only a -> nht_only b -> nht_only (a ++ b).
Proof. intros. apply Forall_app. auto. Qed.
Lemma nht_only_reg o : nht_only (opt_reg o).
Proof. destruct o; repeat constructor. Qed.
Lemma nht_only_unreg o : nht_only (opt_unreg o).
Proof. destruct o; repeat constructor. Qed.
Lemma nht_only_map_unreg l : nht_only (map Unreg l).
Proof. induction l; cbn; constructor; auto. Qed.

(* ---- deferral: the gate drops the FIB requests of a deferring family *)
Lemma gate_off df p rq : memN (fst p) df = false -> gate df p rq = rq.
Proof. unfold gate. intros ->. reflexivity. Qed.
Lemma gate_nil df p : gate df p [] = [].
Proof. unfold gate. destruct (memN (fst p) df); reflexivity. Qed.
Lemma gate_on_nht df p rq : memN (fst p) df = true -> nht_only (gate df p rq).
Proof.
  unfold gate, nht_only. intros ->. apply Forall_forall. intros r Hr. apply filter_In in Hr.
  destruct Hr as [_ Hr]. destruct r; cbn in *; auto; discriminate.
Qed.
Lemma gate_own df p q rq : Forall (own_req q) rq -> Forall (own_req q) (gate df p rq).
Proof.
  unfold gate. destruct (memN (fst p) df); auto. intro H. rewrite Forall_forall in *.
  intros r Hr. apply filter_In in Hr. apply H. tauto.
Qed.

Record dstep_ok (fl fl' : flags) (p : prefix) (d : dest) (res : dest * list req) : Prop := {
  ds_own : Forall (own_req p) (snd res);
  ds_sorted : ssorted c fl (d_l d) -> ssorted c fl' (d_l (fst res));
  ds_main : forall k valf, tracked p k valf -> ssorted c fl (d_l d) ->
            fold_left (fib_step k) (snd res) (valf fl d) = valf fl' (fst res)
}.

Lemma dstep_of_chg fl fl' p d d' ch pre post :
  (ssorted c fl (d_l d) -> chg_ok fl fl' d d' ch) ->
  (ssorted c fl (d_l d) -> ssorted c fl' (d_l d')) ->
  nht_only pre -> nht_only post ->
  dstep_ok fl fl' p d (d', pre ++ distribute_opt c V fl' p ch ++ post).
Proof.
  intros HC HS Hpre Hpost. constructor; cbn [fst snd]; auto.
  - apply Forall_app. split. apply nht_only_own; auto.
    apply Forall_app. split. apply distribute_opt_own. apply nht_only_own; auto.
  - intros k valf HT H. rewrite !fold_fib_app. rewrite (nht_only_fib _ pre) by auto.
    rewrite (nht_only_fib _ post) by auto. apply chg_ok_tracked; auto.
Qed.

Lemma dstep_compose fl fl' fl'' p d r1 r2 :
  dstep_ok fl fl' p d r1 -> dstep_ok fl' fl'' p (fst r1) r2 ->
  dstep_ok fl fl'' p d (fst r2, snd r1 ++ snd r2).
Proof.
  intros [A1 A2 A3] [B1 B2 B3]. constructor; cbn [fst snd]; auto.
  - apply Forall_app. auto.
  - intros k valf HT H. rewrite fold_fib_app, (A3 k valf) by auto. apply B3; auto.
Qed.

Lemma dstep_id fl p d : dstep_ok fl fl p d (d, []).
Proof. constructor; cbn; auto. Qed.

(* soft_reset_in: a fold of re-insertions *)
Lemma reset_one_ok fl inv pol p d0 acc e0 :
  dstep_ok fl fl p d0 acc -> dstep_ok fl fl p d0 (reset_one c V fl inv pol p acc e0).
Proof.
  intro HA. unfold reset_one.
  destruct (apply_import c pol (e_peer e0) (e_nhv e0)) as [filtered nh].
  set (invf := match oaddr nh with Some a => memN a inv | None => false end).
  set (nht := if negb (e_peer e0 =? 0) && negb (optN_eqb (lookup_nexthop (fst acc) (e_peer e0) (e_pid e0)) (oaddr nh))
              then opt_reg (oaddr nh) ++ opt_unreg (lookup_nexthop (fst acc) (e_peer e0) (e_pid e0)) else []).
  pose proof (do_insert_ok fl (fst acc) (esrc e0) (e_pid e0) nh (e_tok e0) (e_attr e0) filtered invf) as HO.
  pose proof (do_insert_sorted fl (fst acc) (esrc e0) (e_pid e0) nh (e_tok e0) (e_attr e0) filtered invf) as HS.
  destruct (do_insert c fl (fst acc) (esrc e0) (e_pid e0) nh (e_tok e0) (e_attr e0) filtered invf) as [d' ch].
  cbn [fst snd] in *.
  assert (HN : nht_only nht).
  { unfold nht. destruct (_ && _); [apply nht_only_app; [apply nht_only_reg | apply nht_only_unreg] | constructor]. }
  pose proof (dstep_of_chg fl fl p (fst acc) d' ch nht [] (fun _ => HO) HS HN (Forall_nil _)) as H2.
  rewrite app_nil_r in H2.
  apply (dstep_compose fl fl fl p d0 acc _ HA H2).
Qed.

Lemma do_reset_ok fl inv pol peer p d : dstep_ok fl fl p d (do_reset c V fl inv pol peer p d).
Proof.
  unfold do_reset. generalize (filter (fun e => (e_peer e =? peer) && negb (e_stale fl e)) (d_l d)) as snap.
  intro snap. assert (H : dstep_ok fl fl p d (d, [])) by apply dstep_id.
  revert H. generalize (d, @nil req) as acc. induction snap as [|e0 t IH]; cbn [fold_left]; auto.
  intros acc H. apply IH. apply reset_one_ok. auto.
Qed.


(* ---- state-level invariant *)
Record Inv' (ks : list prefix) (g : prefix -> dest) (fl : flags) (df : list N) (reqs : list req) : Prop := {
  inv_sorted : forall p, ssorted c fl (d_l (g p));
  inv_nodup : NoDup ks;
  inv_keys : forall p, ~ In p ks -> d_l (g p) = [];
  inv_main : forall p k valf, tracked p k valf -> kcond p k ks ->
             fib_replay reqs k = if memN (fst p) df then [] else valf fl (g p)
}.
Definition Inv (s : st) (reqs : list req) : Prop := Inv' (s_keys s) (s_get s) (s_fl s) (s_def s) reqs.

Lemma fold_flat_map_main (g : prefix -> list req) p k valf ks cur :
  tracked p k valf -> kcond p k ks ->
  NoDup ks -> (forall q, Forall (own_req q) (g q)) ->
  fold_left (fib_step k) (flat_map g ks) cur =
  if existsb (pfx_eqb p) ks then fold_left (fib_step k) (g p) cur else cur.
Proof.
  intros HT HK0 ND HO. revert cur. induction ks as [|q t IH]; cbn [flat_map existsb]; auto.
  intro cur. inversion ND; subst. rewrite fold_fib_app.
  assert (HKt : kcond p k t).
  { destruct HK0 as [HK0|HK0]; [left; auto|right]. intros x Hx. apply HK0. cbn; auto. }
  destruct (pfx_eqb p q) eqn:E; cbn [orb].
  - apply pfx_eqb_eq in E. subst q. rewrite IH by auto.
    assert (existsb (pfx_eqb p) t = false) as ->; auto.
    apply not_true_iff_false. intro HE. apply existsb_exists in HE. destruct HE as [x [Hx HE]].
    apply pfx_eqb_eq in HE. subst. auto.
  - rewrite (fold_fib_foreign k q (g q)); auto.
    intro HK. apply (tracked_inj p q k valf HT) in HK.
    + subst. rewrite pfx_eqb_refl in E. discriminate.
    + destruct HK0 as [HK0|HK0]; [left; auto|right]. intros; apply HK0; cbn; auto.
Qed.

Lemma valf_empty p k valf fl d : tracked p k valf -> d_l d = [] -> valf fl d = [].
Proof.
  intros [[_ ->]|[_ [_ [id [imp [_ [_ [_ ->]]]]]]]] H; unfold code_vrf, code_nhs; rewrite H; reflexivity.
Qed.

Lemma code_nhs_empty fl d : d_l d = [] -> code_nhs fl d = [].
Proof. unfold code_nhs. intros ->. reflexivity. Qed.

Lemma sweep_inv s reqs fl' f :
  Inv s reqs ->
  (forall q, dstep_ok (s_fl s) fl' q (s_get s q) (f q (s_get s q))) ->
  (forall q, d_l (s_get s q) = [] -> d_l (fst (f q (s_get s q))) = [] /\ snd (f q (s_get s q)) = []) ->
  Inv (fst (sweep s fl' f)) (reqs ++ snd (sweep s fl' f)).
Proof.
  intros [I1 I2 I3 I4] HD HE. unfold Inv, sweep. cbn [fst snd s_keys s_get s_fl s_def].
  constructor; auto.
  - intro p. apply (ds_sorted _ _ _ _ _ (HD p)). auto.
  - intros p Hp. apply HE. auto.
  - intros p k valf HT HK. unfold fib_replay. rewrite fold_fib_app. fold (fib_replay reqs k). rewrite (I4 p k valf HT HK).
    rewrite (fold_flat_map_main (fun q => gate (s_def s) q (snd (f q (s_get s q)))) p k valf (s_keys s)); auto.
    2:{ intro q. apply gate_own. apply (ds_own _ _ _ _ _ (HD q)). }
    destruct (existsb (pfx_eqb p) (s_keys s)) eqn:E.
    + destruct (memN (fst p) (s_def s)) eqn:M.
      * apply nht_only_fib. apply gate_on_nht; auto.
      * rewrite gate_off by auto. apply (ds_main _ _ _ _ _ (HD p)); auto.
    + assert (Hp : ~ In p (s_keys s)).
      { intro Hin. assert (existsb (pfx_eqb p) (s_keys s) = true); try congruence.
        apply existsb_exists. exists p. split; auto. apply pfx_eqb_refl. }
      rewrite !(valf_empty p k valf); auto. apply HE. auto.
Qed.

Lemma add_key_nodup p ks : NoDup ks -> NoDup (add_key p ks).
Proof.
  intro H. unfold add_key. destruct (existsb (pfx_eqb p) ks) eqn:E; auto.
  constructor; auto.
  intro Hx. assert (existsb (pfx_eqb p) ks = true); try congruence.
  apply existsb_exists. exists p. split; auto. apply pfx_eqb_refl.
Qed.

Lemma add_key_in p ks x : In x (add_key p ks) <-> x = p \/ In x ks.
Proof.
  unfold add_key. destruct (existsb (pfx_eqb p) ks) eqn:E.
  - split; auto. intros [->|H]; auto. apply existsb_exists in E. destruct E as [y [Hy E]].
    apply pfx_eqb_eq in E. subst; auto.
  - cbn. intuition.
Qed.

Lemma upd_inv ks g fl df reqs p0 d' rq ks' :
  Inv' ks g fl df reqs ->
  dstep_ok fl fl p0 (g p0) (d', rq) ->
  NoDup ks' -> (forall x, In x ks -> In x ks') ->
  (~ In p0 ks' -> d_l d' = []) -> (In p0 ks' \/ rq = []) ->
  Inv' ks' (upd p0 d' g) fl df (reqs ++ gate df p0 rq).
Proof.
  intros [I1 I2 I3 I4] [D1 D2 D3] HN HS HE HM. cbn [fst snd] in *.
  constructor; auto.
  - intro p. unfold upd. destruct (pfx_eqb p p0) eqn:E; auto.
  - intros p Hp. unfold upd. destruct (pfx_eqb p p0) eqn:E.
    + apply pfx_eqb_eq in E. subst. auto.
    + apply I3. auto.
  - intros p k valf HT HK.
    assert (HK' : kcond p k ks).
    { destruct HK as [HK|HK]; [left; auto|right]. intros x Hx. apply HK. auto. }
    unfold fib_replay. rewrite fold_fib_app. fold (fib_replay reqs k). rewrite (I4 p k valf HT HK').
    unfold upd. destruct (pfx_eqb p p0) eqn:E.
    + apply pfx_eqb_eq in E. subst. destruct (memN (fst p0) df) eqn:M.
      * apply nht_only_fib. apply gate_on_nht; auto.
      * rewrite gate_off by auto. auto.
    + destruct HM as [HM| ->]; [|rewrite gate_nil; reflexivity].
      apply (fold_fib_foreign k p0); auto. 1: apply gate_own; auto.
      intro HO. apply (tracked_inj p p0 k valf HT) in HO.
      * subst. rewrite pfx_eqb_refl in E. discriminate.
      * destruct HK as [HK|HK]; [left; auto|right]. apply HK. auto.
Qed.


(* ---- the per-destination functions of the sweeps *)
Lemma purge_dstep sel fl p d :
  dstep_ok fl fl p d (let '(d', ch, nhl) := do_purge sel d in
                      (d', distribute_opt c V fl p ch ++ map Unreg nhl)).
Proof.
  pose proof (do_purge_ok fl sel d) as H1. pose proof (do_purge_sorted fl sel d) as H2.
  destruct (do_purge sel d) as [[d' ch] nhl]. cbn [fst snd] in *.
  apply (dstep_of_chg fl fl p d d' ch [] (map Unreg nhl)); auto.
  constructor. apply nht_only_map_unreg.
Qed.

Lemma purge_empty sel fl p d : d_l d = [] ->
  d_l (fst (let '(d', ch, nhl) := do_purge sel d in
            (d', distribute_opt c V fl p ch ++ map Unreg nhl))) = [] /\
  snd (let '(d', ch, nhl) := do_purge sel d in
       (d', distribute_opt c V fl p ch ++ map Unreg nhl)) = [].
Proof. intro H. unfold do_purge. rewrite H. cbn. auto. Qed.

Lemma restale_dstep peer fl fl' p d : flags_off peer fl fl' ->
  dstep_ok fl fl' p d (let '(d', ch) := do_restale c fl' peer d in (d', distribute_opt c V fl' p ch)).
Proof.
  intro HF. pose proof (do_restale_ok peer fl fl' d HF) as H1.
  pose proof (do_restale_sorted peer fl fl' d HF) as H2.
  destruct (do_restale c fl' peer d) as [d' ch]. cbn [fst snd] in *.
  pose proof (dstep_of_chg fl fl' p d d' ch [] [] H1 H2 (Forall_nil _) (Forall_nil _)) as H.
  cbn [app] in H. rewrite app_nil_r in H. exact H.
Qed.

Lemma restale_empty peer fl' p d : d_l d = [] ->
  d_l (fst (let '(d', ch) := do_restale c fl' peer d in (d', distribute_opt c V fl' p ch))) = [] /\
  snd (let '(d', ch) := do_restale c fl' peer d in (d', distribute_opt c V fl' p ch)) = [].
Proof. intro H. unfold do_restale. rewrite H. cbn. auto. Qed.

(* restale_llgr: several changes for one destination, all carrying the same path
   list; the extra requests re-apply the same value *)
Definition llgr_f (fl' : flags) (peer : N) (p : prefix) (d : dest) : dest * list req :=
  let '(d', chs) := do_restale_llgr c fl' peer d in (d', flat_map (distribute c V fl' p) chs).

Definition chgs_ok (fl fl' : flags) (d d' : dest) (chs : list change) : Prop :=
  match chs with
  | [] => chg_ok fl fl' d d' None
  | _ => forall x, In x chs -> chg_ok fl fl' d d' (Some x)
  end.

Lemma chgs_same_tracked fl' p k valf d' chs :
  tracked p k valf -> (forall x, In x chs -> chg_ok fl' fl' d' d' (Some x)) ->
  fold_left (fib_step k) (flat_map (distribute c V fl' p) chs) (valf fl' d') = valf fl' d'.
Proof.
  intros HT. induction chs as [|x t IH]; intro H; cbn [flat_map fold_left]; auto.
  rewrite fold_fib_app. change (distribute c V fl' p x) with (distribute_opt c V fl' p (Some x)).
  rewrite (chg_ok_tracked fl' fl' p k valf d' d' (Some x) HT (H x (or_introl eq_refl))).
  apply IH. intros y Hy. apply H. right; auto.
Qed.

Lemma chgs_ok_tracked fl fl' p k valf d d' chs :
  tracked p k valf -> chgs_ok fl fl' d d' chs ->
  fold_left (fib_step k) (flat_map (distribute c V fl' p) chs) (valf fl d) = valf fl' d'.
Proof.
  intros HT HC. destruct chs as [|x t].
  - apply (chg_ok_tracked fl fl' p k valf d d' None HT HC).
  - cbn [flat_map]. rewrite fold_fib_app. change (distribute c V fl' p x) with (distribute_opt c V fl' p (Some x)).
    rewrite (chg_ok_tracked fl fl' p k valf d d' (Some x) HT (HC x (or_introl eq_refl))).
    apply chgs_same_tracked; auto. intros y Hy. apply (HC y). right; auto.
Qed.

Lemma dstep_of_chgs fl fl' p d d' chs :
  (ssorted c fl (d_l d) -> chgs_ok fl fl' d d' chs) ->
  (ssorted c fl (d_l d) -> ssorted c fl' (d_l d')) ->
  dstep_ok fl fl' p d (d', flat_map (distribute c V fl' p) chs).
Proof.
  intros HC HS. constructor; cbn [fst snd]; auto.
  - apply Forall_forall. intros r Hr. apply in_flat_map in Hr. destruct Hr as [x [_ Hr]].
    pose proof (distribute_own fl' p x) as HO. rewrite Forall_forall in HO. auto.
  - intros k valf HT H. apply chgs_ok_tracked; auto.
Qed.

Lemma do_restale_llgr_fst fl' peer d :
  fst (do_restale_llgr c fl' peer d) = fst (do_restale c fl' peer d).
Proof.
  unfold do_restale_llgr, do_restale.
  destruct (negb (existsb (fun e => e_peer e =? peer) (d_l d))); reflexivity.
Qed.

Lemma do_restale_llgr_ok peer fl fl' d :
  flags_off peer fl fl' -> ssorted c fl (d_l d) ->
  chgs_ok fl fl' d (fst (do_restale_llgr c fl' peer d)) (snd (do_restale_llgr c fl' peer d)).
Proof.
  intros HF HS. pose proof (do_restale_ok peer fl fl' d HF HS) as HO.
  rewrite <- do_restale_llgr_fst in HO.
  unfold do_restale_llgr, do_restale in *.
  destruct (existsb (fun e => e_peer e =? peer) (d_l d)) eqn:EX; cbn [negb fst snd] in *.
  2:{ exact HO. }
  set (l' := isort c fl' (d_l d)) in *.
  set (marked := filter (fun e => e_peer e =? peer) (eligs l')).
  set (bm := match best l', marked with Some b, m :: _ => e_lpid m =? e_lpid b | _, _ => false end).
  destruct (existsb (fun e => (e_peer e =? peer) && negb (e_filt e)) (d_l d)) eqn:EU.
  - (* some unfiltered path of the peer: changes are emitted *)
    rewrite orb_true_r. destruct marked as [|m0 rest]; cbn [chgs_ok].
    + intros x [<-|[]]. cbn [chg_ok ch_cur ch_bc ch_ac d_l]. split; auto. apply orb_true_r.
    + intros x [<-|Hx]; cbn [chg_ok ch_cur ch_bc ch_ac d_l].
      * split; auto. apply orb_true_r.
      * apply in_map_iff in Hx. destruct Hx as [y [<- _]]. cbn. split; auto.
  - rewrite orb_false_r in *.
    (* no unfiltered path of the peer: nothing is marked, the old criterion decides *)
    assert (HM : marked = []).
    { unfold marked. destruct (filter (fun e => e_peer e =? peer) (eligs l')) as [|m0 rest] eqn:EM; auto.
      exfalso. assert (HIn : In m0 (filter (fun e => e_peer e =? peer) (eligs l'))) by (rewrite EM; cbn; auto).
      apply filter_In in HIn. destruct HIn as [HIn Hp]. unfold eligs in HIn. apply filter_In in HIn.
      destruct HIn as [HIn He]. apply isort_in in HIn.
      assert (existsb (fun e => (e_peer e =? peer) && negb (e_filt e)) (d_l d) = true); try congruence.
      apply existsb_exists. exists m0. split; auto. rewrite Hp. unfold elig in He.
      apply andb_true_iff in He. destruct He as [He _]. rewrite He. auto. }
    assert (HB : bm = false).
    { unfold bm. rewrite HM. destruct (best l'); auto. }
    rewrite HB, orb_false_r, HM.
    destruct (negb (olp_eqb (best (d_l d)) (best l'))) eqn:EB; cbn [chgs_ok] in *.
    + intros x [<-|[]]. exact HO.
    + exact HO.
Qed.

Lemma llgr_dstep peer fl fl' p d : flags_off peer fl fl' -> dstep_ok fl fl' p d (llgr_f fl' peer p d).
Proof.
  intro HF. unfold llgr_f. pose proof (do_restale_llgr_ok peer fl fl' d HF) as H1.
  pose proof (do_restale_sorted peer fl fl' d HF) as H2. rewrite <- do_restale_llgr_fst in H2.
  destruct (do_restale_llgr c fl' peer d) as [d' chs]. cbn [fst snd] in *.
  apply dstep_of_chgs; auto.
Qed.

Lemma llgr_empty peer fl' p d : d_l d = [] ->
  d_l (fst (llgr_f fl' peer p d)) = [] /\ snd (llgr_f fl' peer p d) = [].
Proof. intro H. unfold llgr_f, do_restale_llgr. rewrite H. cbn. auto. Qed.

Lemma validity_dstep a r fl p d :
  dstep_ok fl fl p d (let '(d', ch) := do_validity a r d in (d', distribute_opt c V fl p ch)).
Proof.
  pose proof (do_validity_ok fl a r d) as H1. pose proof (do_validity_sorted fl a r d) as H2.
  destruct (do_validity a r d) as [d' ch]. cbn [fst snd] in *.
  pose proof (dstep_of_chg fl fl p d d' ch [] [] (fun _ => H1) H2 (Forall_nil _) (Forall_nil _)) as H.
  cbn [app] in H. rewrite app_nil_r in H. exact H.
Qed.

Lemma validity_empty a r fl p d : d_l d = [] ->
  d_l (fst (let '(d', ch) := do_validity a r d in (d', distribute_opt c V fl p ch))) = [] /\
  snd (let '(d', ch) := do_validity a r d in (d', distribute_opt c V fl p ch)) = [].
Proof. intro H. unfold do_validity. rewrite H. cbn. auto. Qed.

Lemma reset_empty fl inv pol peer p d : d_l d = [] ->
  d_l (fst (do_reset c V fl inv pol peer p d)) = [] /\ snd (do_reset c V fl inv pol peer p d) = [].
Proof. intro H. unfold do_reset. rewrite H. cbn. auto. Qed.

(* marking every Source of [peer] leaves the flags of the other peers alone *)
Lemma memsrc_app x a b : memsrc x (a ++ b) = memsrc x a || memsrc x b.
Proof. unfold memsrc. apply existsb_app. Qed.

Lemma srcs_of_peer s peer x : In x (srcs_of s peer) -> fst x = peer.
Proof.
  unfold srcs_of. intro H. apply in_flat_map in H. destruct H as [p [_ H]].
  apply in_map_iff in H. destruct H as [e [<- H]]. apply filter_In in H.
  destruct H as [_ H]. apply N.eqb_eq in H. auto.
Qed.

Lemma memsrc_srcs_of s peer e : e_peer e <> peer -> memsrc (esrc e) (srcs_of s peer) = false.
Proof.
  intro H. apply not_true_iff_false. intro HM. apply existsb_exists in HM.
  destruct HM as [x [Hx HM]]. apply srcs_of_peer in Hx. unfold src_eqb in HM.
  apply andb_true_iff in HM. destruct HM as [HM _]. apply N.eqb_eq in HM. cbn in HM. congruence.
Qed.

Lemma flags_off_stale s peer :
  flags_off peer (s_fl s) {| f_stale := srcs_of s peer ++ f_stale (s_fl s); f_llgr := f_llgr (s_fl s) |}.
Proof.
  intros e He. unfold e_stale, e_srcllgr. cbn [f_stale f_llgr]. split; auto.
  rewrite memsrc_app, memsrc_srcs_of; auto.
Qed.

Lemma flags_off_llgr s peer :
  flags_off peer (s_fl s) {| f_stale := f_stale (s_fl s); f_llgr := srcs_of s peer ++ f_llgr (s_fl s) |}.
Proof.
  intros e He. unfold e_stale, e_srcllgr. cbn [f_stale f_llgr]. split; auto.
  rewrite memsrc_app, memsrc_srcs_of; auto.
Qed.

Lemma Inv_purge s reqs sel :
  Inv s reqs -> Inv (fst (purge_pass c V s sel)) (reqs ++ snd (purge_pass c V s sel)).
Proof.
  intro H. unfold purge_pass. apply sweep_inv; auto.
  - intro q. apply purge_dstep.
  - intros q Hq. apply purge_empty; auto.
Qed.

Lemma chg_some_tracked fl' p k valf d' x cur :
  tracked p k valf -> ch_cur x = eligs (d_l d') -> ch_bc x || ch_ac x = true ->
  fold_left (fib_step k) (distribute c V fl' p x) cur = valf fl' d'.
Proof.
  intros [[-> ->]|[Hp [ND [id [imp [HI [Hid [-> ->]]]]]]]] H1 H2.
  - rewrite distribute_fixed, H2. cbn [negb fold_left fib_step].
    rewrite fkey_eqb_refl. destruct (is_vpn p); cbn [fold_left]; rewrite ?vrf_reqs_main;
      unfold code_nhs; rewrite H1; auto.
  - rewrite distribute_fixed, H2. cbn [negb fold_left fib_step].
    assert (fkey_eqb (None, p) (Some id, local_pfx p) = false) as -> by reflexivity.
    rewrite Hp.
    unfold vrf_reqs.
    rewrite (vrf_fold_present
               (fun vr => if match ch_cur x with b :: _ => can_import (snd vr) (e_attr b) | [] => false end
                          then nhs_of (ecmp_code c fl' (ch_cur x)) else [])
               (c_vrfs c) id imp (local_pfx p)); auto.
    cbn [snd]. unfold code_vrf, code_nhs. rewrite H1. destruct (eligs (d_l d')); auto.
Qed.

Lemma ins_inv s reqs peer sess p pid nh tok :
  Inv s reqs -> Inv (fst (step_ins c V s peer sess p pid nh tok)) (reqs ++ snd (step_ins c V s peer sess p pid nh tok)).
Proof.
  intro H. unfold step_ins, step_ins_with.
    destruct (apply_import c (s_pol s) peer nh) as [filtered nh'].
    pose proof (do_insert_ok (s_fl s) (s_get s p) (peer, sess) pid nh' tok (attr_of c tok) filtered
                  (match oaddr nh' with Some a => memN a (s_inv s) | None => false end)) as HO.
    pose proof (do_insert_sorted (s_fl s) (s_get s p) (peer, sess) pid nh' tok (attr_of c tok) filtered
                  (match oaddr nh' with Some a => memN a (s_inv s) | None => false end)) as HS.
    destruct (do_insert c (s_fl s) (s_get s p) (peer, sess) pid nh' tok (attr_of c tok) filtered _) as [d' ch].
    cbn [fst snd] in *. unfold Inv. cbn [s_keys s_get s_fl s_def].
    destruct H as [I1 I2 I3 I4].
    apply upd_inv with (ks := s_keys s); auto.
    + constructor; auto.
    + pose proof (dstep_of_chg (s_fl s) (s_fl s) p (s_get s p) d' ch
                    (nht_register peer (oaddr nh') (lookup_nexthop (s_get s p) peer pid)) []
                    (fun _ => HO) HS) as HD.
      rewrite app_nil_r in HD. apply HD; [|constructor].
      unfold nht_register. destruct (peer =? 0); [constructor|].
      apply nht_only_app; [apply nht_only_reg | apply nht_only_unreg].
    + apply add_key_nodup; auto.
    + intros x Hx. apply add_key_in. auto.
    + intro Hn. exfalso. apply Hn. apply add_key_in. auto.
    + left. apply add_key_in. auto.
Qed.

Lemma memN_filter_neq a x l : memN x (filter (fun y => negb (y =? a)) l) = negb (x =? a) && memN x l.
Proof.
  unfold memN. induction l as [|y l IH]; cbn [filter existsb].
  - rewrite andb_false_r. auto.
  - destruct (y =? a) eqn:E; cbn [negb existsb]; rewrite IH.
    + apply N.eqb_eq in E. subst. destruct (x =? a) eqn:E2; cbn; auto.
    + destruct (x =? y) eqn:E2; cbn; auto. apply N.eqb_eq in E2. subst. rewrite E. auto.
Qed.

Lemma enddef_inv s reqs f :
  Inv s reqs -> Inv (fst (step c V s (EndDef f))) (reqs ++ snd (step c V s (EndDef f))).
Proof.
  intros [I1 I2 I3 I4]. unfold Inv. cbn [step fst snd s_keys s_get s_fl s_def].
  constructor; auto.
  intros p k valf HT HK. unfold fib_replay. rewrite fold_fib_app. fold (fib_replay reqs k). rewrite (I4 p k valf HT HK).
  rewrite (fold_flat_map_main _ p k valf (s_keys s)); auto.
  2:{ intro q. destruct ((fst q =? f) && _); [apply distribute_own|constructor]. }
  rewrite memN_filter_neq.
  destruct (existsb (pfx_eqb p) (s_keys s)) eqn:E.
  - destruct (fst p =? f) eqn:EF; cbn [andb negb].
    + destruct (d_l (s_get s p)) eqn:EL; cbn [negb fold_left].
      * rewrite (valf_empty p k valf); auto. destruct (memN (fst p) (s_def s)); auto.
      * rewrite <- EL. apply chg_some_tracked; auto.
    + cbn [fold_left]. auto.
  - assert (Hp : ~ In p (s_keys s)).
    { intro Hin. assert (existsb (pfx_eqb p) (s_keys s) = true); try congruence.
      apply existsb_exists. exists p. split; auto. apply pfx_eqb_refl. }
    rewrite (valf_empty p k valf) by auto.
    destruct (memN (fst p) (s_def s)), (negb (fst p =? f)); auto.
Qed.

Lemma step_inv s reqs o :
  op_ok s o ->
  Inv s reqs -> Inv (fst (step c V s o)) (reqs ++ snd (step c V s o)).
Proof.
  intros HOK H. destruct o; cbn [step].
  - apply ins_inv; auto.
  - (* InsertLim *)
    destruct (limit_refuses s peer p max cnt); [cbn [fst snd]; rewrite app_nil_r; auto | apply ins_inv; auto].
  - (* StartDef *)
    cbn [fst snd]. rewrite app_nil_r. destruct H as [I1 I2 I3 I4]. unfold Inv. cbn [s_keys s_get s_fl s_def].
    constructor; auto. intros p k valf HT HK. rewrite (I4 p k valf HT HK).
    cbn [memN existsb]. fold (memN (fst p) (s_def s)). destruct (fst p =? f) eqn:E; cbn [orb]; auto.
    apply N.eqb_eq in E. rewrite (valf_empty p k valf); auto. destruct (memN (fst p) (s_def s)); auto.
  - apply enddef_inv; auto.
  - (* Remove *)
    pose proof (do_remove_ok (s_fl s) (s_get s p) peer pid) as HO.
    pose proof (do_remove_sorted (s_fl s) (s_get s p) peer pid) as HS.
    assert (HE : d_l (s_get s p) = [] -> d_l (fst (fst (do_remove (s_get s p) peer pid))) = [] /\
                 snd (fst (do_remove (s_get s p) peer pid)) = None /\ snd (do_remove (s_get s p) peer pid) = None).
    { intro HH. unfold do_remove. rewrite HH. cbn. auto. }
    destruct (do_remove (s_get s p) peer pid) as [[d' ch] r].
    cbn [fst snd] in *. unfold Inv. cbn [s_keys s_get s_fl s_def].
    destruct H as [I1 I2 I3 I4].
    apply upd_inv with (ks := s_keys s); auto.
    + constructor; auto.
    + apply (dstep_of_chg (s_fl s) (s_fl s) p (s_get s p) d' ch []); auto. constructor.
      destruct r; [|constructor]. destruct (peer =? 0); [constructor|apply nht_only_unreg].
    + intro Hn. apply HE. apply I3. auto.
    + assert (HIn : In p (s_keys s) \/ ~ In p (s_keys s)).
      { destruct (existsb (pfx_eqb p) (s_keys s)) eqn:E.
        - left. apply existsb_exists in E. destruct E as [x [Hx E]]. apply pfx_eqb_eq in E. subst; auto.
        - right. intro Hc. assert (existsb (pfx_eqb p) (s_keys s) = true); try congruence.
          apply existsb_exists. exists p. split; auto. apply pfx_eqb_refl. }
      destruct HIn as [HIn|HIn]; [left; auto|right].
      destruct (HE (I3 p HIn)) as [_ [-> ->]]. reflexivity.
  - apply Inv_purge; auto.
  - (* MarkStale *)
    apply sweep_inv; auto.
    + intro q. apply restale_dstep with (peer := peer). apply flags_off_stale.
    + intros q Hq. apply restale_empty; auto.
  - apply Inv_purge; auto.
  - (* MarkLlgr *)
    set (fl' := {| f_stale := f_stale (s_fl s); f_llgr := srcs_of s peer ++ f_llgr (s_fl s) |}).
    pose proof (sweep_inv s reqs fl' (llgr_f fl' peer) H) as H1.
    change (fun p d => let '(d', chs) := do_restale_llgr c fl' peer d in (d', flat_map (distribute c V fl' p) chs))
      with (llgr_f fl' peer).
    destruct (sweep s fl' (llgr_f fl' peer)) as [s1 r1]. cbn [fst snd] in H1.
    assert (HI1 : Inv s1 (reqs ++ r1)).
    { apply H1.
      - intro q. apply llgr_dstep with (peer := peer). apply flags_off_llgr.
      - intros q Hq. apply llgr_empty; auto. }
    pose proof (Inv_purge s1 (reqs ++ r1) (fun e => (e_peer e =? peer) && a_nollgr (e_attr e)) HI1) as H2.
    destruct (purge_pass c V s1 _) as [s2 r2]. cbn [fst snd] in *. rewrite app_assoc. auto.
  - apply Inv_purge; auto.
  - (* NhValidity *)
    pose proof (sweep_inv s reqs (s_fl s)
                  (fun p d => let '(d', ch) := do_validity a reachable d in (d', distribute_opt c V (s_fl s) p ch)) H) as H1.
    destruct (sweep s (s_fl s) _) as [s1 r1]. cbn [fst snd] in *.
    apply H1.
    + intro q. apply validity_dstep.
    + intros q Hq. apply validity_empty; auto.
  - (* SetPolicy *)
    cbn [fst snd]. rewrite app_nil_r. exact H.
  - (* SoftResetIn *)
    apply sweep_inv; auto.
    + intro q. apply do_reset_ok.
    + intros q Hq. apply reset_empty; auto.
Qed.

Lemma Inv0 : Inv st0 [].
Proof.
  constructor; cbn; auto. constructor.
  intros p k valf HT. symmetry. apply (valf_empty p k valf); auto.
Qed.

Lemma run_inv ops : forall s reqs, run_ok c V s ops -> Inv s reqs ->
  Inv (fst (run c V s ops)) (reqs ++ snd (run c V s ops)).
Proof.
  induction ops as [|o t IH]; intros s reqs HR H; cbn [run].
  - cbn. rewrite app_nil_r. auto.
  - destruct HR as [HR1 HR2].
    pose proof (step_inv s reqs o HR1 H) as H1. destruct (step c V s o) as [s1 r1].
    cbn [fst snd] in H1, HR2. specialize (IH s1 (reqs ++ r1) HR2 H1).
    destruct (run c V s1 t) as [s2 r2]. cbn [fst snd] in *. rewrite app_assoc. auto.
Qed.

(* C20 (1), main table: after any history the replayed FIB entry of every
   prefix is the next-hop list of the ECMP set demanded by the Spec *)
Theorem C20_fib_replay_eq_ecmp_of_best : forall (ops : list op) (p : prefix),
  run_ok c Fixed st0 ops ->
  let s := fst (run c Fixed st0 ops) in
  let reqs := snd (run c Fixed st0 ops) in
  fib_replay reqs (None, p) =
  if memN (fst p) (s_def s) then [] else fib_spec c (s_fl s) (d_l (s_get s p)).
Proof.
  intros ops p HR. cbn zeta. pose proof (run_inv ops st0 [] HR Inv0) as H. cbn [app] in H.
  destruct H as [I1 I2 I3 I4].
  rewrite (I4 p (None, p) code_nhs (or_introl (conj eq_refl eq_refl)) (or_introl eq_refl)).
  destruct (memN (fst p) (s_def (fst (run c V st0 ops)))); auto. unfold code_nhs, fib_spec.
  change (selectable (d_l (s_get (fst (run c V st0 ops)) p))) with (eligs (d_l (s_get (fst (run c V st0 ops)) p))).
  rewrite ecmp_code_spec; auto. apply ssorted_filter. auto.
Qed.


(* C20 (1), VRF tables: for a VPN prefix, every VRF with a kernel table holds the
   same next-hop list when its import targets match the best path, nothing otherwise;
   the best path used is a best path of the Spec (rank-first selectable path).
   Outside the known class C20-3: no other VPN prefix (another route distinguisher)
   with the same VRF-local prefix has been seen. *)
Definition Known_C20_3 (p : prefix) (ks : list prefix) : Prop := ~ uniq p ks.

Theorem C20_vrf_fib_replay_eq_ecmp_of_best_outside_known :
  forall (ops : list op) (p : prefix) (id : N) (imp : list N),
  is_vpn p = true ->
  NoDup (map fst (c_vrfs c)) -> In (id, imp) (c_vrfs c) -> id <> 0 ->
  run_ok c Fixed st0 ops ->
  let s := fst (run c Fixed st0 ops) in
  let reqs := snd (run c Fixed st0 ops) in
  let l := d_l (s_get s p) in
  ~ Known_C20_3 p (s_keys s) ->
  fib_replay reqs (Some id, local_pfx p) =
    (if memN (fst p) (s_def s) then [] else vrf_spec c (s_fl s) imp l (hd_error (selectable l))) /\
  (forall b, hd_error (selectable l) = Some b -> is_best c (s_fl s) l b).
Proof.
  intros ops p id imp Hv ND HI Hid HR. cbn zeta. intro HK.
  assert (HU : uniq p (s_keys (fst (run c V st0 ops)))).
  { intros q Hq Hvq HL. destruct (pfx_eqb q p) eqn:E.
    - apply pfx_eqb_eq; auto.
    - exfalso. apply HK. intro HU. specialize (HU q Hq Hvq HL). subst. rewrite pfx_eqb_refl in E. discriminate. }
  pose proof (run_inv ops st0 [] HR Inv0) as H. cbn [app] in H.
  destruct H as [I1 I2 I3 I4]. split.
  - rewrite (I4 p (Some id, local_pfx p) (fun fl d => code_vrf fl imp d)).
    2:{ right. split; auto. split; auto. exists id, imp. auto. }
    2:{ right. auto. }
    destruct (memN (fst p) (s_def (fst (run c V st0 ops)))); auto.
    unfold code_vrf, vrf_spec, fib_spec, code_nhs.
    change (selectable (d_l (s_get (fst (run c V st0 ops)) p)))
      with (eligs (d_l (s_get (fst (run c V st0 ops)) p))).
    destruct (eligs (d_l (s_get (fst (run c V st0 ops)) p))) as [|b t] eqn:E; auto.
    cbn [hd_error]. destruct (can_import imp (e_attr b)); auto.
    rewrite <- E. rewrite ecmp_code_spec; auto. apply ssorted_filter. auto.
  - intros b Hb. apply head_is_best; auto.
Qed.

(* ================================================================ *)
(* (3) next-hop-invalid flags follow the reachability reports        *)
Definition inv_ok (inv : list N) (e : entry) : Prop :=
  e_inv e = match e_nh e with Some a => memN a inv | None => false end.

Lemma do_insert_in fl d src pid nh tok at_ filtered inv x :
  In x (d_l (fst (do_insert c fl d src pid nh tok at_ filtered inv))) ->
  (exists lpid, x = mk_entry src pid lpid nh tok at_ filtered inv) \/ In x (d_l d).
Proof.
  destruct (do_insert_l fl d src pid nh tok at_ filtered inv) as [lp ->].
  intro H. apply insert_sorted_in in H. destruct H as [->|H]; [left; eauto | right].
  eapply remove_first_in; eauto.
Qed.

Lemma do_insert_invok fl d src pid nh tok at_ filtered inv :
  Forall (inv_ok inv) (d_l d) ->
  Forall (inv_ok inv) (d_l (fst (do_insert c fl d src pid nh tok at_ filtered
                                   (match oaddr nh with Some a => memN a inv | None => false end)))).
Proof.
  intro H. rewrite Forall_forall in *. intros x Hx. apply do_insert_in in Hx.
  destruct Hx as [[lp ->]|Hx]; auto. reflexivity.
Qed.

Lemma do_remove_in d peer pid x : In x (d_l (fst (fst (do_remove d peer pid)))) -> In x (d_l d).
Proof.
  unfold do_remove. destruct (find (same_path peer pid) (d_l d)); cbn [fst]; auto.
  destruct (remove_first (same_path peer pid) (d_l d)) eqn:E; cbn [fst d_l dest0].
  - intros [].
  - rewrite <- E. apply remove_first_in.
Qed.

Lemma reset_invok fl inv pol peer p d :
  Forall (inv_ok inv) (d_l d) -> Forall (inv_ok inv) (d_l (fst (do_reset c V fl inv pol peer p d))).
Proof.
  unfold do_reset. generalize (filter (fun e => (e_peer e =? peer) && negb (e_stale fl e)) (d_l d)) as snap.
  intros snap H. change (d_l d) with (d_l (fst (d, @nil req))) in H.
  revert H. generalize (d, @nil req) as acc. induction snap as [|e0 t IH]; cbn [fold_left]; auto.
  intros acc H. apply IH. unfold reset_one.
  destruct (apply_import c pol (e_peer e0) (e_nhv e0)) as [filtered nh].
  pose proof (do_insert_invok fl (fst acc) (esrc e0) (e_pid e0) nh (e_tok e0) (e_attr e0) filtered inv H) as HI.
  destruct (do_insert c fl (fst acc) (esrc e0) (e_pid e0) nh (e_tok e0) (e_attr e0) filtered _) as [d' ch].
  cbn [fst] in *. auto.
Qed.

Definition InvF (s : st) : Prop := forall p, Forall (inv_ok (s_inv s)) (d_l (s_get s p)).



Definition inv_after (inv : list N) (a : N) (reachable : bool) : list N :=
  if reachable then filter (fun x => negb (x =? a)) inv
  else if memN a inv then inv else a :: inv.

Lemma memN_inv_after inv a r x :
  memN x (inv_after inv a r) = if x =? a then negb r else memN x inv.
Proof.
  unfold inv_after. destruct r.
  - rewrite memN_filter_neq. destruct (x =? a); auto.
  - destruct (memN a inv) eqn:E.
    + destruct (x =? a) eqn:E2; auto. apply N.eqb_eq in E2. subst. auto.
    + unfold memN. cbn [existsb]. fold (memN x inv). destruct (x =? a); auto.
Qed.

Lemma e_nh_set_inv b y : e_nh (set_inv b y) = e_nh y.
Proof. reflexivity. Qed.

Lemma validity_invok a r inv d :
  Forall (inv_ok inv) (d_l d) ->
  Forall (inv_ok (inv_after inv a r)) (d_l (fst (do_validity a r d))).
Proof.
  intro H. unfold do_validity.
  destruct (existsb (fun e => nh_is a e && negb (Bool.eqb (e_inv e) (negb r))) (d_l d)) eqn:EX;
    cbn [negb fst d_l].
  - rewrite Forall_forall in *. intros x Hx. apply in_map_iff in Hx. destruct Hx as [y [<- Hy]].
    specialize (H y Hy). unfold inv_ok in *. destruct (nh_is a y) eqn:EN.
    + rewrite e_nh_set_inv. cbn [set_inv e_inv]. unfold nh_is in EN. apply optN_eqb_eq in EN. rewrite EN.
      rewrite memN_inv_after, N.eqb_refl. auto.
    + rewrite H. destruct (e_nh y) as [b|] eqn:EB; auto. rewrite memN_inv_after.
      unfold nh_is in EN. rewrite EB in EN. cbn in EN. rewrite EN. auto.
  - rewrite Forall_forall in *. intros y Hy. specialize (H y Hy). unfold inv_ok in *.
    destruct (nh_is a y) eqn:EN.
    + unfold nh_is in EN. pose proof EN as EN'. apply optN_eqb_eq in EN. rewrite EN.
      rewrite memN_inv_after, N.eqb_refl.
      assert (HF : nh_is a y && negb (Bool.eqb (e_inv y) (negb r)) = false).
      { destruct (nh_is a y && negb (Bool.eqb (e_inv y) (negb r))) eqn:EE; auto.
        assert (existsb (fun e => nh_is a e && negb (Bool.eqb (e_inv e) (negb r))) (d_l d) = true); try congruence.
        apply existsb_exists. exists y. auto. }
      unfold nh_is in HF. rewrite EN' in HF. cbn in HF. apply negb_false_iff in HF.
      apply Bool.eqb_prop in HF. auto.
    + rewrite H. destruct (e_nh y) as [b|] eqn:EB; auto. rewrite memN_inv_after.
      unfold nh_is in EN. rewrite EB in EN. cbn in EN. rewrite EN. auto.
Qed.

Lemma Forall_sub {A} (Q : A -> Prop) l l' : (forall x, In x l' -> In x l) -> Forall Q l -> Forall Q l'.
Proof. intros HS H. rewrite Forall_forall in *. auto. Qed.

Lemma InvF_purge s sel : InvF s -> InvF (fst (purge_pass c V s sel)).
Proof.
  intros H p. unfold purge_pass, sweep. cbn [fst s_get s_inv].
  pose proof (do_purge_l sel (s_get s p)) as HL.
  destruct (do_purge sel (s_get s p)) as [[d' ch] nhl]. cbn [fst] in *. rewrite HL.
  apply Forall_sub with (l := d_l (s_get s p)); [|apply H]. intros x Hx. apply filter_In in Hx. tauto.
Qed.

Lemma InvF_restale s fl' peer :
  InvF s ->
  InvF (fst (sweep s fl' (fun p d => let '(d', ch) := do_restale c fl' peer d in (d', distribute_opt c V fl' p ch)))).
Proof.
  intros H p. unfold sweep. cbn [fst s_get s_inv]. specialize (H p).
  unfold do_restale. destruct (negb (existsb (fun e => e_peer e =? peer) (d_l (s_get s p)))); cbn [fst d_l]; auto.
  apply Forall_sub with (l := d_l (s_get s p)); [|apply H]. intros x Hx. apply isort_in in Hx. auto.
Qed.

Lemma InvF_llgr s fl' peer : InvF s -> InvF (fst (sweep s fl' (llgr_f fl' peer))).
Proof.
  intros H p. unfold sweep. cbn [fst s_get s_inv]. specialize (H p). unfold llgr_f.
  pose proof (do_restale_llgr_fst fl' peer (s_get s p)) as HF.
  destruct (do_restale_llgr c fl' peer (s_get s p)) as [d' chs]. cbn [fst] in *. rewrite HF.
  unfold do_restale. destruct (negb (existsb (fun e => e_peer e =? peer) (d_l (s_get s p)))); cbn [fst d_l]; auto.
  apply Forall_sub with (l := d_l (s_get s p)); [|apply H]. intros x Hx. apply isort_in in Hx. auto.
Qed.

Lemma ins_invF s peer sess p pid nh tok : InvF s -> InvF (fst (step_ins c V s peer sess p pid nh tok)).
Proof.
  intro H. unfold step_ins, step_ins_with.
    destruct (apply_import c (s_pol s) peer nh) as [filtered nh'].
    pose proof (do_insert_invok (s_fl s) (s_get s p) (peer, sess) pid nh' tok (attr_of c tok) filtered (s_inv s) (H p)) as HI.
    destruct (do_insert c (s_fl s) (s_get s p) (peer, sess) pid nh' tok (attr_of c tok) filtered _) as [d' ch].
    cbn [fst] in *. intro q. cbn [s_get s_inv]. unfold upd. destruct (pfx_eqb q p); auto.
Qed.

Lemma step_invF s o : InvF s -> InvF (fst (step c V s o)).
Proof.
  intro H. destruct o; cbn [step].
  - apply ins_invF; auto.
  - destruct (limit_refuses s peer p max cnt); [exact H | apply ins_invF; auto].
  - exact H.
  - exact H.
  - pose proof (do_remove_in (s_get s p) peer pid) as HI.
    destruct (do_remove (s_get s p) peer pid) as [[d' ch] r]. cbn [fst] in *.
    intro q. cbn [s_get s_inv]. unfold upd. destruct (pfx_eqb q p); auto.
    apply Forall_sub with (l := d_l (s_get s p)); [|apply (H p)]. auto.
  - apply InvF_purge; auto.
  - apply InvF_restale; auto.
  - apply InvF_purge; auto.
  - set (fl' := {| f_stale := f_stale (s_fl s); f_llgr := srcs_of s peer ++ f_llgr (s_fl s) |}).
    pose proof (InvF_llgr s fl' peer H) as H1.
    change (fun p d => let '(d', chs) := do_restale_llgr c fl' peer d in (d', flat_map (distribute c V fl' p) chs))
      with (llgr_f fl' peer).
    destruct (sweep s fl' (llgr_f fl' peer)) as [s1 r1]. cbn [fst] in H1.
    pose proof (InvF_purge s1 (fun e => (e_peer e =? peer) && a_nollgr (e_attr e)) H1) as H2.
    destruct (purge_pass c V s1 _) as [s2 r2]. cbn [fst] in *. auto.
  - apply InvF_purge; auto.
  - unfold sweep. cbn [fst snd s_get s_inv s_keys s_fl s_pol]. intro p. cbn [s_get s_inv].
    pose proof (validity_invok a reachable (s_inv s) (s_get s p) (H p)) as HV.
    destruct (do_validity a reachable (s_get s p)) as [d' ch]. cbn [fst] in *. exact HV.
  - exact H.
  - intro p. unfold sweep. cbn [fst s_get s_inv]. apply reset_invok. auto.
Qed.

Lemma step_sinv s o a :
  memN a (s_inv (fst (step c V s o))) =
  match o with
  | NhValidity b r => if a =? b then negb r else memN a (s_inv s)
  | _ => memN a (s_inv s)
  end.
Proof.
  assert (HI : forall peer sess p pid nh tok, s_inv (fst (step_ins c V s peer sess p pid nh tok)) = s_inv s).
  { intros. unfold step_ins, step_ins_with. destruct (apply_import c (s_pol s) peer nh) as [filtered nh'].
    destruct (do_insert c _ _ _ _ _ _ _ _ _) as [d' ch]. reflexivity. }
  destruct o; cbn [step]; try reflexivity.
  - rewrite HI. reflexivity.
  - destruct (limit_refuses s peer p max cnt); [reflexivity | rewrite HI; reflexivity].
  - destruct (do_remove (s_get s p) peer pid) as [[d' ch] r]. reflexivity.
  - unfold sweep. cbn [fst s_inv]. apply (memN_inv_after (s_inv s) a0 reachable a).
Qed.

Lemma run_invF ops : forall s, InvF s -> InvF (fst (run c V s ops)).
Proof.
  induction ops as [|o t IH]; intros s H; cbn [run]; auto.
  pose proof (step_invF s o H) as H1. destruct (step c V s o) as [s1 r1]. cbn [fst] in H1.
  specialize (IH s1 H1). destruct (run c V s1 t) as [s2 r2]. auto.
Qed.

Lemma run_sinv ops a : forall s,
  memN a (s_inv (fst (run c V s ops))) = unreachable_after ops a (memN a (s_inv s)).
Proof.
  induction ops as [|o t IH]; intros s; cbn [run unreachable_after]; auto.
  pose proof (step_sinv s o a) as H1. destruct (step c V s o) as [s1 r1]. cbn [fst] in H1.
  specialize (IH s1). destruct (run c V s1 t) as [s2 r2]. cbn [fst] in *. rewrite IH, H1.
  destruct o; auto. rewrite (N.eqb_sym a0 a). auto.
Qed.

Theorem C20_unreachable_nexthop_excluded : forall (ops : list op) (p : prefix) (e : entry) (a : N),
  let s := fst (run c Fixed st0 ops) in
  let l := d_l (s_get s p) in
  In e l -> e_nh e = Some a ->
  (unreachable_after ops a false = true -> ~ In e (selectable l)) /\
  (unreachable_after ops a false = false -> e_filt e = false -> In e (selectable l)).
Proof.
  intros ops p e a. cbn zeta. intros He Hn.
  assert (HF : InvF (fst (run c V st0 ops))).
  { apply run_invF. intro q. cbn. constructor. }
  specialize (HF p). rewrite Forall_forall in HF. specialize (HF e He). unfold inv_ok in HF.
  rewrite Hn, (run_sinv ops a st0) in HF. cbn [st0 s_inv memN existsb] in HF.
  unfold selectable. split.
  - intros HU HI. apply filter_In in HI. destruct HI as [_ HI]. rewrite HF, HU in HI.
    rewrite andb_false_r in HI. discriminate.
  - intros HU Hf. apply filter_In. split; auto. rewrite HF, HU, Hf. auto.
Qed.

(* ================================================================ *)
(* (2) outstanding registrations = peer-learned paths using the address *)
Definition cnt (a : N) (l : list entry) : N := N.of_nat (length (filter (uses a) l)).
Definition ind (b : bool) : N := if b then 1 else 0.

Definition ref_fold (a : N) (rq : list req) (n : N) : N := fold_left (ref_step a) rq n.

Lemma ref_fold_app a r1 r2 n : ref_fold a (r1 ++ r2) n = ref_fold a r2 (ref_fold a r1 n).
Proof. apply fold_left_app. Qed.

Definition apply_only (rq : list req) : Prop :=
  Forall (fun r => match r with Apply _ _ _ => True | _ => False end) rq.

Lemma apply_only_ref a rq n : apply_only rq -> ref_fold a rq n = n.
Proof.
  revert n. induction rq as [|r rq IH]; cbn; auto. intros n H. inversion H; subst.
  destruct r; try tauto. cbn. apply IH; auto.
Qed.

Lemma distribute_opt_apply_only fl p ch : apply_only (distribute_opt c V fl p ch).
Proof.
  destruct ch as [x|]; cbn; [|constructor]. rewrite distribute_fixed.
  destruct (negb _); [constructor|]. cbn zeta. constructor; auto.
  destruct (is_vpn p); [|constructor]. unfold vrf_reqs. apply Forall_forall. intros r Hr.
  apply in_flat_map in Hr. destruct Hr as [vr [_ Hr]]. destruct (fst vr =? 0); cbn in Hr; try tauto.
  destruct Hr as [<-|[]]. exact I.
Qed.

Lemma cnt_cons a e l : cnt a (e :: l) = ind (uses a e) + cnt a l.
Proof. unfold cnt, ind. cbn [filter]. destruct (uses a e); cbn [length]; lia. Qed.

Lemma cnt_insert_sorted fl a e l : cnt a (insert_sorted c fl e l) = ind (uses a e) + cnt a l.
Proof.
  induction l as [|x t IH]; cbn [insert_sorted].
  - apply cnt_cons.
  - destruct (ege c fl e x); rewrite ?cnt_cons, ?IH; lia.
Qed.

Lemma cnt_remove_first a P l r :
  find P l = Some r -> cnt a l = ind (uses a r) + cnt a (remove_first P l).
Proof.
  induction l as [|x t IH]; cbn [find remove_first]; try discriminate.
  destruct (P x).
  - intro H. inversion H; subst. apply cnt_cons.
  - intro H. rewrite !cnt_cons, (IH H). lia.
Qed.

Lemma cnt_nil a : cnt a [] = 0.
Proof. reflexivity. Qed.

Lemma cnt_isort fl a l : cnt a (isort c fl l) = cnt a l.
Proof.
  unfold isort. assert (H : forall acc, cnt a (fold_left (fun acc x => insert_sorted c fl x acc) l acc) = cnt a l + cnt a acc).
  { induction l as [|x t IH]; intro acc; cbn [fold_left].
    - rewrite cnt_nil. lia.
    - rewrite IH, cnt_insert_sorted, cnt_cons. lia. }
  rewrite H, cnt_nil. lia.
Qed.

Lemma cnt_filter_split a sel l :
  cnt a l = cnt a (filter sel l) + cnt a (filter (fun e => negb (sel e)) l).
Proof.
  induction l as [|x t IH]; cbn [filter]. reflexivity.
  destruct (sel x); cbn [negb]; rewrite !cnt_cons, IH; lia.
Qed.

(* a per-destination step keeps the count in step *)
Lemma ref_fold_gate a df p rq n : ref_fold a (gate df p rq) n = ref_fold a rq n.
Proof.
  unfold gate. destruct (memN (fst p) df); auto. revert n.
  induction rq as [|r rq IH]; intro n; cbn [filter]; auto.
  destruct r; cbn [is_apply negb]; unfold ref_fold in *; cbn [fold_left]; rewrite IH; auto.
Qed.

Definition ref_ok (a : N) (d : dest) (res : dest * list req) : Prop :=
  forall n, cnt a (d_l d) <= n ->
    ref_fold a (snd res) n = n - cnt a (d_l d) + cnt a (d_l (fst res)).

Lemma ref_ok_id a d : ref_ok a d (d, []).
Proof. intros n H. cbn. lia. Qed.

Lemma ref_ok_compose a d r1 r2 :
  ref_ok a d r1 -> ref_ok a (fst r1) r2 -> ref_ok a d (fst r2, snd r1 ++ snd r2).
Proof.
  intros H1 H2 n Hn. cbn [fst snd]. rewrite ref_fold_app, (H1 n Hn), H2 by lia. lia.
Qed.

Lemma ref_unreg_nhs a (l : list entry) n :
  (forall e, In e l -> e_peer e <> 0) -> cnt a l <= n ->
  ref_fold a (map Unreg (nhs_of l)) n = n - cnt a l.
Proof.
  revert n. induction l as [|e t IH]; intros n HP Hn; cbn [nhs_of map].
  - rewrite cnt_nil. cbn. lia.
  - rewrite cnt_cons in *. assert (HE : e_peer e <> 0) by (apply HP; cbn; auto).
    assert (HT : forall e, In e t -> e_peer e <> 0) by (intros; apply HP; cbn; auto).
    specialize (fun n => IH n HT). clear HP HT.
    set (k := cnt a t) in *. clearbody k.
    unfold uses, nh_is in *. destruct (e_nh e) as [b|] eqn:EB; cbn [map optN_eqb] in *.
    + unfold ref_fold in *. cbn [fold_left ref_step].
      assert (e_peer e =? 0 = false) as HZ by lia. rewrite HZ in *. cbn [negb andb] in *.
      destruct (b =? a) eqn:E; cbn [ind] in *.
      * assert ((n <=? 1) = false \/ n = 1) as [HH| ->] by lia.
        -- rewrite HH. rewrite IH; lia.
        -- change (1 <=? 1) with true. cbv iota. rewrite IH; lia.
      * rewrite IH; lia.
    + rewrite andb_false_r in *. cbn [ind] in *. rewrite IH; lia.
Qed.

Ltac ref_crush :=
  unfold ref_fold, ind in *;
  repeat (cbn [fold_left ref_step app opt_reg opt_unreg optN_eqb negb andb] in *;
          match goal with
          | |- context [if ?b then _ else _] => destruct b eqn:?
          | H : context [if ?b then _ else _] |- _ => destruct b eqn:?
          end);
  cbn [fold_left ref_step app opt_reg opt_unreg optN_eqb negb andb] in *; try discriminate; try lia.

Lemma do_insert_ref fl d peer sess pid nh tok at_ filtered inv a :
  ref_ok a d (fst (do_insert c fl d (peer, sess) pid nh tok at_ filtered inv),
              if peer =? 0 then [] else
              if optN_eqb (lookup_nexthop d peer pid) (oaddr nh) then []
              else opt_reg (oaddr nh) ++ opt_unreg (lookup_nexthop d peer pid)) /\
  ref_ok a d (fst (do_insert c fl d (peer, sess) pid nh tok at_ filtered inv),
              nht_register peer (oaddr nh) (lookup_nexthop d peer pid)).
Proof.
  destruct (do_insert_l fl d (peer, sess) pid nh tok at_ filtered inv) as [lp HL].
  unfold ref_ok. cbn [fst snd]. rewrite HL, cnt_insert_sorted. unfold lookup_nexthop, nht_register.
  cbn [fst snd mk_entry].
  assert (HU : uses a (mk_entry (peer, sess) pid lp nh tok at_ filtered inv) = negb (peer =? 0) && optN_eqb (oaddr nh) (Some a))
    by reflexivity.
  rewrite HU. clear HU HL. set (onh := oaddr nh). clearbody onh.
  destruct (find (same_path peer pid) (d_l d)) as [r|] eqn:EF.
  - rewrite (cnt_remove_first a _ _ _ EF).
    apply find_some in EF. destruct EF as [_ EP]. unfold same_path in EP. apply andb_true_iff in EP.
    destruct EP as [EP _]. apply N.eqb_eq in EP. unfold uses, nh_is. rewrite EP.
    set (k := cnt a (remove_first (same_path peer pid) (d_l d))). clearbody k.
    destruct (peer =? 0) eqn:EZ; cbn [negb andb].
    + split; intros n Hn; ref_crush.
    + destruct onh as [x|], (e_nh r) as [y|]; split; intros n Hn; ref_crush.
  - rewrite (remove_first_none _ _ EF).
    set (k := cnt a (d_l d)). clearbody k.
    destruct (peer =? 0) eqn:EZ; cbn [negb andb].
    + split; intros n Hn; ref_crush.
    + destruct onh as [x|]; split; intros n Hn; ref_crush.
Qed.

Lemma ref_ok_apply_post a d d' rq post :
  ref_ok a d (d', rq) -> apply_only post -> ref_ok a d (d', rq ++ post).
Proof. intros H HA n Hn. cbn [fst snd] in *. rewrite ref_fold_app, apply_only_ref; auto. Qed.

Lemma ref_ok_apply_pre a d d' rq pre :
  ref_ok a d (d', rq) -> apply_only pre -> ref_ok a d (d', pre ++ rq).
Proof. intros H HA n Hn. cbn [fst snd] in *. rewrite ref_fold_app, (apply_only_ref a pre); auto. Qed.

Lemma do_remove_ref d peer pid a :
  ref_ok a d (fst (fst (do_remove d peer pid)),
              match snd (do_remove d peer pid) with
              | Some e => if peer =? 0 then [] else opt_unreg (e_nh e)
              | None => []
              end).
Proof.
  unfold do_remove. destruct (find (same_path peer pid) (d_l d)) as [r|] eqn:EF; cbn [fst snd].
  2:{ apply ref_ok_id. }
  pose proof (cnt_remove_first a _ _ _ EF) as HC.
  apply find_some in EF. destruct EF as [_ EP]. unfold same_path in EP. apply andb_true_iff in EP.
  destruct EP as [EP _]. apply N.eqb_eq in EP.
  assert (HD : d_l (fst (fst (match remove_first (same_path peer pid) (d_l d) with
              | [] => (dest0, if negb (e_filt r) then Some {| ch_bc := true; ch_ac := true; ch_cur := [] |} else None, Some r)
              | _ :: _ => ({| d_l := remove_first (same_path peer pid) (d_l d); d_next := d_next d |},
                  if negb (obk_eqb (best (d_l d)) (best (remove_first (same_path peer pid) (d_l d)))) || negb (e_filt r)
                  then Some {| ch_bc := negb (obk_eqb (best (d_l d)) (best (remove_first (same_path peer pid) (d_l d))));
                               ch_ac := negb (e_filt r); ch_cur := eligs (remove_first (same_path peer pid) (d_l d)) |}
                  else None, Some r) end))) = remove_first (same_path peer pid) (d_l d)).
  { destruct (remove_first (same_path peer pid) (d_l d)); reflexivity. }
  destruct (remove_first (same_path peer pid) (d_l d)) as [|x t] eqn:ER; cbn [fst snd] in *;
    intros n Hn; cbn [fst snd d_l dest0] in *; rewrite HC in *; unfold uses, nh_is in *; rewrite EP in *;
    set (k := cnt a _) in *; clearbody k; destruct (e_nh r) as [y|]; ref_crush.
Qed.

Lemma do_purge_ref sel d a :
  (forall e, sel e = true -> e_peer e <> 0) ->
  ref_ok a d (fst (fst (do_purge sel d)), map Unreg (snd (do_purge sel d))).
Proof.
  intros HW n Hn. cbn [fst snd]. rewrite do_purge_l. unfold do_purge. cbn [snd].
  rewrite (cnt_filter_split a sel (d_l d)) in *.
  rewrite ref_unreg_nhs; try lia.
  intros e He. apply filter_In in He. apply HW. tauto.
Qed.

Lemma do_restale_ref fl' peer d a : ref_ok a d (fst (do_restale c fl' peer d), []).
Proof.
  intros n Hn. cbn [fst snd]. unfold do_restale.
  destruct (negb (existsb (fun e => e_peer e =? peer) (d_l d))); cbn [fst d_l ref_fold fold_left].
  - lia.
  - rewrite cnt_isort. lia.
Qed.

Lemma cnt_map_set_inv a x r l :
  cnt a (map (fun e => if nh_is x e then set_inv r e else e) l) = cnt a l.
Proof.
  induction l as [|e t IH]; cbn [map]; auto. rewrite !cnt_cons, IH. f_equal.
  destruct (nh_is x e); auto.
Qed.

Lemma do_validity_ref x r d a : ref_ok a d (fst (do_validity x r d), []).
Proof.
  intros n Hn. cbn [fst snd]. unfold do_validity.
  destruct (negb (existsb _ (d_l d))); cbn [fst d_l ref_fold fold_left].
  - lia.
  - rewrite cnt_map_set_inv. lia.
Qed.

Lemma reset_one_ref fl inv pol p d0 acc e0 a :
  ref_ok a d0 acc -> ref_ok a d0 (reset_one c V fl inv pol p acc e0).
Proof.
  intro HA. unfold reset_one.
  destruct (apply_import c pol (e_peer e0) (e_nhv e0)) as [filtered nh].
  set (invf := match oaddr nh with Some a => memN a inv | None => false end).
  pose proof (do_insert_ref fl (fst acc) (e_peer e0) (e_sess e0) (e_pid e0) nh (e_tok e0) (e_attr e0) filtered invf a) as [HR _].
  unfold esrc.
  destruct (do_insert c fl (fst acc) (e_peer e0, e_sess e0) (e_pid e0) nh (e_tok e0) (e_attr e0) filtered invf) as [d' ch].
  cbn [fst snd] in *.
  assert (HE : (if negb (e_peer e0 =? 0) && negb (optN_eqb (lookup_nexthop (fst acc) (e_peer e0) (e_pid e0)) (oaddr nh))
                then opt_reg (oaddr nh) ++ opt_unreg (lookup_nexthop (fst acc) (e_peer e0) (e_pid e0)) else []) =
               (if e_peer e0 =? 0 then [] else
                if optN_eqb (lookup_nexthop (fst acc) (e_peer e0) (e_pid e0)) (oaddr nh) then []
                else opt_reg (oaddr nh) ++ opt_unreg (lookup_nexthop (fst acc) (e_peer e0) (e_pid e0)))).
  { destruct (e_peer e0 =? 0); cbn; auto. destruct (optN_eqb _ (oaddr nh)); auto. }
  rewrite HE.
  pose proof (ref_ok_apply_post a (fst acc) d' _ (distribute_opt c V fl p ch) HR (distribute_opt_apply_only fl p ch)) as H2.
  pose proof (ref_ok_compose a d0 acc _ HA H2) as H3. cbn [fst snd] in H3.
  exact H3.
Qed.

Lemma do_reset_ref fl inv pol peer p d a : ref_ok a d (do_reset c V fl inv pol peer p d).
Proof.
  unfold do_reset. generalize (filter (fun e => (e_peer e =? peer) && negb (e_stale fl e)) (d_l d)) as snap.
  intro snap. assert (H : ref_ok a d (d, [])) by apply ref_ok_id.
  revert H. generalize (d, @nil req) as acc. induction snap as [|e0 t IH]; cbn [fold_left]; auto.
  intros acc H. apply IH. apply reset_one_ref. auto.
Qed.

(* sums over the key list *)
Definition total (a : N) (g : prefix -> dest) (ks : list prefix) : N :=
  fold_right (fun p n => cnt a (d_l (g p)) + n) 0 ks.

Lemma paths_using_total s a : paths_using s a = total a (s_get s) (s_keys s).
Proof. reflexivity. Qed.

Lemma sweep_ref a (g : prefix -> dest) (f : prefix -> dest -> dest * list req) ks :
  (forall q, ref_ok a (g q) (f q (g q))) ->
  forall base,
  ref_fold a (flat_map (fun q => snd (f q (g q))) ks) (base + total a g ks) =
  base + total a (fun q => fst (f q (g q))) ks.
Proof.
  intro HR. induction ks as [|q t IH]; intro base; cbn [flat_map total fold_right].
  - reflexivity.
  - fold (total a g t). fold (total a (fun q => fst (f q (g q))) t).
    rewrite ref_fold_app, (HR q) by lia.
    replace (base + (cnt a (d_l (g q)) + total a g t) - cnt a (d_l (g q)) + cnt a (d_l (fst (f q (g q)))))
      with ((base + cnt a (d_l (fst (f q (g q))))) + total a g t) by lia.
    rewrite IH. lia.
Qed.

Lemma total_upd_notin a g p0 d' ks : ~ In p0 ks -> total a (upd p0 d' g) ks = total a g ks.
Proof.
  induction ks as [|q t IH]; cbn [total fold_right In]; auto. intro H.
  fold (total a (upd p0 d' g) t). fold (total a g t). rewrite IH by tauto.
  unfold upd at 1. rewrite pfx_eqb_neq; auto.
Qed.

Lemma total_upd_in a g p0 d' ks : NoDup ks -> In p0 ks ->
  total a (upd p0 d' g) ks + cnt a (d_l (g p0)) = total a g ks + cnt a (d_l d').
Proof.
  induction ks as [|q t IH]; cbn [total fold_right In]; try tauto. intros ND [->|HI]; inversion ND; subst.
  - fold (total a (upd p0 d' g) t). fold (total a g t). rewrite total_upd_notin by auto.
    unfold upd at 1. rewrite pfx_eqb_refl. lia.
  - fold (total a (upd p0 d' g) t). fold (total a g t). specialize (IH H2 HI).
    unfold upd at 1. rewrite pfx_eqb_neq by (intro; subst; auto). lia.
Qed.

Record InvR (s : st) (reqs : list req) : Prop := {
  ir_nodup : NoDup (s_keys s);
  ir_keys : forall p, ~ In p (s_keys s) -> d_l (s_get s p) = [];
  ir_ref : forall a, ref_replay reqs a = paths_using s a
}.

Lemma sweep_invR s reqs fl' f :
  InvR s reqs ->
  (forall a q, ref_ok a (s_get s q) (f q (s_get s q))) ->
  (forall q, d_l (s_get s q) = [] -> d_l (fst (f q (s_get s q))) = []) ->
  InvR (fst (sweep s fl' f)) (reqs ++ snd (sweep s fl' f)).
Proof.
  intros [R1 R2 R3] HR HE. unfold sweep. constructor; cbn [fst snd s_keys s_get]; auto.
  intro a. unfold ref_replay. rewrite fold_left_app. fold (ref_replay reqs a). rewrite R3.
  rewrite !paths_using_total. cbn [s_get s_keys].
  pose proof (sweep_ref a (s_get s) (fun q d => (fst (f q d), gate (s_def s) q (snd (f q d)))) (s_keys s)) as H.
  cbn [fst snd] in H. rewrite <- (N.add_0_l (total a (s_get s) (s_keys s))).
  change (fold_left (ref_step a)) with (ref_fold a). rewrite H.
  - rewrite N.add_0_l. reflexivity.
  - intros q n Hn. cbn [fst snd]. rewrite ref_fold_gate. apply HR; auto.
Qed.

Lemma in_dec_keys (p0 : prefix) (ks : list prefix) : In p0 ks \/ ~ In p0 ks.
Proof.
  destruct (existsb (pfx_eqb p0) ks) eqn:E.
  - left. apply existsb_exists in E. destruct E as [x [Hx E]]. apply pfx_eqb_eq in E. subst; auto.
  - right. intro H. assert (existsb (pfx_eqb p0) ks = true); try congruence.
    apply existsb_exists. exists p0. split; auto. apply pfx_eqb_refl.
Qed.

Lemma total_upd a g p0 d' ks : NoDup ks ->
  (~ In p0 ks -> cnt a (d_l d') = cnt a (d_l (g p0))) ->
  total a (upd p0 d' g) ks + cnt a (d_l (g p0)) = total a g ks + cnt a (d_l d').
Proof.
  intros ND HN. destruct (in_dec_keys p0 ks) as [HI|HI].
  - apply total_upd_in; auto.
  - rewrite total_upd_notin, HN; auto.
Qed.

Lemma total_add_key a g p0 d' ks : NoDup ks ->
  (~ In p0 ks -> d_l (g p0) = []) ->
  total a (upd p0 d' g) (add_key p0 ks) + cnt a (d_l (g p0)) = total a g ks + cnt a (d_l d').
Proof.
  intros ND HN. unfold add_key. destruct (existsb (pfx_eqb p0) ks) eqn:E.
  - apply total_upd_in; auto. apply existsb_exists in E. destruct E as [x [Hx E]].
    apply pfx_eqb_eq in E. subst; auto.
  - assert (HI : ~ In p0 ks).
    { intro H. assert (existsb (pfx_eqb p0) ks = true); try congruence.
      apply existsb_exists. exists p0. split; auto. apply pfx_eqb_refl. }
    cbn [total fold_right]. fold (total a (upd p0 d' g) ks). rewrite total_upd_notin by auto.
    unfold upd at 1. rewrite pfx_eqb_refl, (HN HI), cnt_nil. lia.
Qed.

Lemma total_ge a g p0 ks : In p0 ks -> cnt a (d_l (g p0)) <= total a g ks.
Proof.
  induction ks as [|q t IH]; cbn [total fold_right In]; try tauto. fold (total a g t).
  intros [->|H]; [lia | specialize (IH H); lia].
Qed.


Lemma cnt_le_total a (g : prefix -> dest) ks p :
  (forall q, ~ In q ks -> d_l (g q) = []) -> cnt a (d_l (g p)) <= total a g ks.
Proof.
  intro HK. destruct (in_dec_keys p ks) as [HI|HI].
  - apply total_ge; auto.
  - rewrite (HK p HI), cnt_nil. lia.
Qed.

Lemma purge_invR s reqs sel :
  (forall e, sel e = true -> e_peer e <> 0) ->
  InvR s reqs -> InvR (fst (purge_pass c V s sel)) (reqs ++ snd (purge_pass c V s sel)).
Proof.
  intros HW H. unfold purge_pass. apply sweep_invR; auto.
  - intros a q. pose proof (do_purge_ref sel (s_get s q) a HW) as HR.
    destruct (do_purge sel (s_get s q)) as [[d' ch] nhl]. cbn [fst snd] in *.
    apply ref_ok_apply_pre; auto. apply distribute_opt_apply_only.
  - intros q Hq. apply purge_empty; auto.
Qed.

Lemma restale_invR s reqs fl' peer :
  InvR s reqs ->
  InvR (fst (sweep s fl' (fun p d => let '(d', ch) := do_restale c fl' peer d in (d', distribute_opt c V fl' p ch))))
       (reqs ++ snd (sweep s fl' (fun p d => let '(d', ch) := do_restale c fl' peer d in (d', distribute_opt c V fl' p ch)))).
Proof.
  intro H. apply sweep_invR; auto.
  - intros a q. pose proof (do_restale_ref fl' peer (s_get s q) a) as HR.
    destruct (do_restale c fl' peer (s_get s q)) as [d' ch]. cbn [fst snd] in *.
    apply (ref_ok_apply_post a (s_get s q) d' [] _ HR). apply distribute_opt_apply_only.
  - intros q Hq. apply restale_empty; auto.
Qed.

Lemma distribute_list_apply_only fl p chs : apply_only (flat_map (distribute c V fl p) chs).
Proof.
  apply Forall_forall. intros r Hr. apply in_flat_map in Hr. destruct Hr as [x [_ Hr]].
  pose proof (distribute_opt_apply_only fl p (Some x)) as HA. unfold apply_only in HA.
  rewrite Forall_forall in HA. apply HA. exact Hr.
Qed.

Lemma llgr_invR s reqs fl' peer :
  InvR s reqs ->
  InvR (fst (sweep s fl' (llgr_f fl' peer))) (reqs ++ snd (sweep s fl' (llgr_f fl' peer))).
Proof.
  intro H. apply sweep_invR; auto.
  - intros a q. pose proof (do_restale_ref fl' peer (s_get s q) a) as HR.
    rewrite <- do_restale_llgr_fst in HR. unfold llgr_f.
    destruct (do_restale_llgr c fl' peer (s_get s q)) as [d' chs]. cbn [fst snd] in *.
    apply (ref_ok_apply_post a (s_get s q) d' [] _ HR). apply distribute_list_apply_only.
  - intros q Hq. apply llgr_empty; auto.
Qed.

Lemma ins_invR s reqs peer sess p pid nh tok :
  InvR s reqs -> InvR (fst (step_ins c V s peer sess p pid nh tok)) (reqs ++ snd (step_ins c V s peer sess p pid nh tok)).
Proof.
  intro H. unfold step_ins, step_ins_with.
    destruct (apply_import c (s_pol s) peer nh) as [filtered nh'].
    pose proof (fun a => proj2 (do_insert_ref (s_fl s) (s_get s p) peer sess pid nh' tok (attr_of c tok) filtered
                  (match oaddr nh' with Some a => memN a (s_inv s) | None => false end) a)) as HR.
    destruct (do_insert c (s_fl s) (s_get s p) (peer, sess) pid nh' tok (attr_of c tok) filtered _) as [d' ch].
    cbn [fst snd] in *. destruct H as [R1 R2 R3].
    constructor; cbn [s_keys s_get].
    + apply add_key_nodup; auto.
    + intros q Hq. unfold upd. destruct (pfx_eqb q p) eqn:E.
      * apply pfx_eqb_eq in E. subst. exfalso. apply Hq. apply add_key_in. auto.
      * apply R2. intro. apply Hq. apply add_key_in. auto.
    + intro a. unfold ref_replay. rewrite fold_left_app. fold (ref_replay reqs a). rewrite R3.
      change (fold_left (ref_step a)) with (ref_fold a). rewrite ref_fold_gate, !ref_fold_app.
      rewrite (apply_only_ref a (distribute_opt c V (s_fl s) p ch)) by apply distribute_opt_apply_only.
      rewrite !paths_using_total. cbn [s_keys s_get].
      pose proof (cnt_le_total a (s_get s) (s_keys s) p R2) as HL.
      specialize (HR a _ HL). cbn [fst snd] in HR. rewrite HR.
      pose proof (total_add_key a (s_get s) p d' (s_keys s) R1 (R2 p)) as HT. lia.
Qed.

Lemma step_invR s reqs o :
  wf_op o = true -> InvR s reqs -> InvR (fst (step c V s o)) (reqs ++ snd (step c V s o)).
Proof.
  intros HW H. destruct o; cbn [step wf_op] in *.
  - apply ins_invR; auto.
  - destruct (limit_refuses s peer p max _); [cbn [fst snd]; rewrite app_nil_r; auto | apply ins_invR; auto].
  - cbn [fst snd]. rewrite app_nil_r. destruct H as [R1 R2 R3]. constructor; auto.
  - destruct H as [R1 R2 R3]. constructor; cbn [fst snd s_keys s_get]; auto.
    intro a. unfold ref_replay. rewrite fold_left_app. fold (ref_replay reqs a). rewrite R3.
    change (fold_left (ref_step a)) with (ref_fold a). rewrite apply_only_ref; auto.
    apply Forall_forall. intros r Hr. apply in_flat_map in Hr. destruct Hr as [q [_ Hr]].
    destruct ((fst q =? f) && _); [|destruct Hr].
    pose proof (distribute_opt_apply_only (s_fl s) q (Some {| ch_bc := true; ch_ac := true; ch_cur := eligs (d_l (s_get s q)) |})) as HA.
    unfold apply_only in HA. rewrite Forall_forall in HA. apply HA. exact Hr.
  - (* Remove *)
    pose proof (fun a => do_remove_ref (s_get s p) peer pid a) as HR.
    assert (HE : d_l (s_get s p) = [] -> d_l (fst (fst (do_remove (s_get s p) peer pid))) = []).
    { intro HH. unfold do_remove. rewrite HH. cbn. auto. }
    destruct (do_remove (s_get s p) peer pid) as [[d' ch] r]. cbn [fst snd] in *.
    destruct H as [R1 R2 R3]. constructor; cbn [s_keys s_get]; auto.
    + intros q Hq. unfold upd. destruct (pfx_eqb q p) eqn:E; auto.
      apply pfx_eqb_eq in E. subst. auto.
    + intro a. unfold ref_replay. rewrite fold_left_app. fold (ref_replay reqs a). rewrite R3.
      change (fold_left (ref_step a)) with (ref_fold a). rewrite ref_fold_gate, !ref_fold_app.
      rewrite (apply_only_ref a (distribute_opt c V (s_fl s) p ch)) by apply distribute_opt_apply_only.
      rewrite !paths_using_total. cbn [s_keys s_get].
      pose proof (cnt_le_total a (s_get s) (s_keys s) p R2) as HL.
      specialize (HR a _ HL). cbn [fst snd] in HR. rewrite HR.
      pose proof (total_upd a (s_get s) p d' (s_keys s) R1) as HT.
      assert (HT' : total a (upd p d' (s_get s)) (s_keys s) + cnt a (d_l (s_get s p)) =
                    total a (s_get s) (s_keys s) + cnt a (d_l d')).
      { apply HT. intro Hn. rewrite (HE (R2 p Hn)), (R2 p Hn). auto. }
      lia.
  - apply purge_invR; auto. intros e He. lia.
  - apply restale_invR; auto.
  - apply purge_invR; auto. intros e He. lia.
  - set (fl' := {| f_stale := f_stale (s_fl s); f_llgr := srcs_of s peer ++ f_llgr (s_fl s) |}).
    pose proof (llgr_invR s reqs fl' peer H) as H1.
    change (fun p d => let '(d', chs) := do_restale_llgr c fl' peer d in (d', flat_map (distribute c V fl' p) chs))
      with (llgr_f fl' peer).
    destruct (sweep s fl' (llgr_f fl' peer)) as [s1 r1]. cbn [fst snd] in H1.
    assert (HWs : forall e, (e_peer e =? peer) && a_nollgr (e_attr e) = true -> e_peer e <> 0) by (intros e He; lia).
    pose proof (purge_invR s1 (reqs ++ r1) _ HWs H1) as H2.
    destruct (purge_pass c V s1 _) as [s2 r2]. cbn [fst snd] in *. rewrite app_assoc. auto.
  - apply purge_invR; auto. intros e He. lia.
  - (* NhValidity *)
    pose proof (sweep_invR s reqs (s_fl s)
                  (fun p d => let '(d', ch) := do_validity a reachable d in (d', distribute_opt c V (s_fl s) p ch)) H) as H1.
    destruct (sweep s (s_fl s) _) as [s1 r1]. cbn [fst snd] in *.
    assert (HI : InvR s1 (reqs ++ r1)).
    { apply H1.
      - intros a0 q. pose proof (do_validity_ref a reachable (s_get s q) a0) as HR.
        destruct (do_validity a reachable (s_get s q)) as [d' ch]. cbn [fst snd] in *.
        apply (ref_ok_apply_post a0 (s_get s q) d' [] _ HR). apply distribute_opt_apply_only.
      - intros q Hq. apply validity_empty; auto. }
    destruct HI as [R1 R2 R3]. constructor; auto.
  - cbn [fst snd]. rewrite app_nil_r. destruct H as [R1 R2 R3]. constructor; auto.
  - apply sweep_invR; auto.
    + intros a q. apply do_reset_ref.
    + intros q Hq. apply reset_empty; auto.
Qed.

Lemma run_invR ops : forall s reqs, forallb wf_op ops = true -> InvR s reqs ->
  InvR (fst (run c V s ops)) (reqs ++ snd (run c V s ops)).
Proof.
  induction ops as [|o t IH]; intros s reqs HW H; cbn [run].
  - cbn. rewrite app_nil_r. auto.
  - cbn [forallb] in HW. apply andb_true_iff in HW. destruct HW as [HW1 HW2].
    pose proof (step_invR s reqs o HW1 H) as H1. destruct (step c V s o) as [s1 r1].
    cbn [fst snd] in H1. specialize (IH s1 (reqs ++ r1) HW2 H1).
    destruct (run c V s1 t) as [s2 r2]. cbn [fst snd] in *. rewrite app_assoc. auto.
Qed.

Theorem C20_nht_refcount_eq_paths : forall (ops : list op) (a : N),
  forallb wf_op ops = true ->
  let s := fst (run c Fixed st0 ops) in
  let reqs := snd (run c Fixed st0 ops) in
  ref_replay reqs a = paths_using s a.
Proof.
  intros ops a HW. cbn zeta.
  assert (H0 : InvR st0 []).
  { constructor; cbn; auto. constructor. }
  pose proof (run_invR ops st0 [] HW H0) as H. cbn [app] in H. apply H.
Qed.

End Fib.

(* the reference counts kept by the kernel service task are the Spec's replay *)
Lemma svc_count_refines_spec : forall (reqs : list req) (a : N),
  fst (svc_run reqs) a = ref_replay reqs a.
Proof.
  intros reqs a. unfold svc_run, ref_replay.
  assert (H : forall acc n, fst acc a = n ->
              fst (fold_left svc_step reqs acc) a = fold_left (ref_step a) reqs n).
  { induction reqs as [|r t IH]; intros acc n Hn; cbn [fold_left]; auto.
    apply IH. destruct r; cbn [svc_step ref_step fst]; auto.
    - destruct (a =? a0) eqn:E; rewrite (N.eqb_sym a0 a), E; auto. apply N.eqb_eq in E. subst. auto.
    - destruct (a =? a0) eqn:E; rewrite (N.eqb_sym a0 a), E; auto. apply N.eqb_eq in E. subst. auto. }
  apply H. reflexivity.
Qed.

Example ex_svc : snd (svc_run [Reg 1; Reg 1; Unreg 1; Unreg 1; Reg 1; Unreg 2; Reg 2]) = [1; 1; 2].
Proof. reflexivity. Qed.

(* ================================================================ *)
(* Witnesses: the behaviour before the fix commits (variant Legacy) violates the
   statements; replayed on the unfixed code through the harness these were the
   findings C20-1 and C20-2 (corpus/C20/).  And non-vacuity examples. *)
Definition ex_attr (pref : N) (rts : list N) : attr :=
  {| a_pref := pref; a_llgrc := false; a_nollgr := false; a_rts := rts; a_clen := 0; a_oid := None |}.
Definition ex_cfg : cfg :=
  {| c_peers := [(1, (1, false)); (2, (2, false)); (3, (3, false))];
     c_attrs := [(0, ex_attr 1 [1]); (1, ex_attr 0 [2]); (2, ex_attr 1 [1])];
     c_vrfs := [(5, [1]); (6, [2])];
     c_pols := [[(1, AReject)]; [(2, ASetNh 3)]] |}.

(* C20-1: a path tied with the best is added: best_changed is false, no request *)
Definition ex_ops_tied : list op :=
  [Insert 1 0 (0, 1) 0 (Some (NhV4 1)) 0; Insert 2 0 (0, 1) 0 (Some (NhV4 2)) 2].

Lemma C20_fib_replay_eq_ecmp_of_best_legacy_refuted :
  exists (c : cfg) (ops : list op) (p : prefix),
    let s := fst (run c Legacy st0 ops) in
    fib_replay (snd (run c Legacy st0 ops)) (None, p) <> fib_spec c (s_fl s) (d_l (s_get s p)).
Proof. exists ex_cfg, ex_ops_tied, (0, 1). vm_compute. discriminate. Qed.

Example ex_tied_fixed :
  let s := fst (run ex_cfg Fixed st0 ex_ops_tied) in
  fib_replay (snd (run ex_cfg Fixed st0 ex_ops_tied)) (None, (0, 1)) = [1; 2] /\
  fib_spec ex_cfg (s_fl s) (d_l (s_get s (0, 1))) = [1; 2].
Proof. vm_compute. auto. Qed.

(* C20-2: the new best path of a VPN prefix is not importable into a VRF that
   holds the previous one: nothing is sent to that VRF *)
Definition ex_ops_vrf : list op :=
  [Insert 1 0 (1, 1) 0 (Some (NhV4 1)) 0; Insert 2 0 (1, 1) 0 (Some (NhV4 2)) 1].

Lemma C20_vrf_fib_replay_eq_ecmp_of_best_legacy_refuted :
  exists (c : cfg) (ops : list op) (i id : N) (imp : list N),
    NoDup (map fst (c_vrfs c)) /\ In (id, imp) (c_vrfs c) /\ id <> 0 /\
    let s := fst (run c Legacy st0 ops) in
    let l := d_l (s_get s (1, i)) in
    fib_replay (snd (run c Legacy st0 ops)) (Some id, (2, i)) <>
    vrf_spec c (s_fl s) imp l (hd_error (selectable l)).
Proof.
  exists ex_cfg, ex_ops_vrf, 1, 5, [1]. split; [|split; [|split]].
  - cbn. repeat constructor; cbn; intuition discriminate.
  - cbn. auto.
  - discriminate.
  - vm_compute. discriminate.
Qed.

Example ex_vrf_fixed :
  let s := fst (run ex_cfg Fixed st0 ex_ops_vrf) in
  let l := d_l (s_get s (1, 1)) in
  fib_replay (snd (run ex_cfg Fixed st0 ex_ops_vrf)) (Some 5, (2, 1)) = [] /\
  fib_replay (snd (run ex_cfg Fixed st0 ex_ops_vrf)) (Some 6, (2, 1)) = [2] /\
  vrf_spec ex_cfg (s_fl s) [2] l (hd_error (selectable l)) = [2].
Proof. vm_compute. auto. Qed.

(* C20-3 (open): the VRF table is keyed by the prefix with the route distinguisher
   stripped, so two VPN prefixes that differ only in the RD share one VRF entry;
   withdrawing one of them empties the entry although the other is still importable *)
Definition ex_ops_rd : list op :=
  [Insert 1 0 (1, 1) 0 (Some (NhV4 1)) 0; Insert 2 0 (1, 11) 0 (Some (NhV4 2)) 0; Remove 2 0 (1, 11) 0].

Lemma C20_vrf_fib_replay_eq_ecmp_of_best_refuted :
  exists (c : cfg) (ops : list op) (p : prefix) (id : N) (imp : list N),
    is_vpn p = true /\ NoDup (map fst (c_vrfs c)) /\ In (id, imp) (c_vrfs c) /\ id <> 0 /\
    run_ok c Fixed st0 ops /\
    let s := fst (run c Fixed st0 ops) in
    let l := d_l (s_get s p) in
    Known_C20_3 p (s_keys s) /\
    fib_replay (snd (run c Fixed st0 ops)) (Some id, local_pfx p) <>
    (if memN (fst p) (s_def s) then [] else vrf_spec c (s_fl s) imp l (hd_error (selectable l))).
Proof.
  exists ex_cfg, ex_ops_rd, (1, 1), 5, [1]. split; [reflexivity|]. split; [|split; [|split; [|split; [|split]]]].
  - cbn. repeat constructor; cbn; intuition discriminate.
  - cbn. auto.
  - discriminate.
  - cbn [ex_ops_rd run_ok op_ok]. tauto.
  - intro HU. specialize (HU (1, 11)). cbn in HU.
    assert (HH : (1, 11) = (1, 1)) by (apply HU; auto). discriminate HH.
  - vm_compute. discriminate.
Qed.

Example ex_rd_values :
  let s := fst (run ex_cfg Fixed st0 ex_ops_rd) in
  fib_replay (snd (run ex_cfg Fixed st0 ex_ops_rd)) (Some 5, (2, 1)) = [] /\
  vrf_spec ex_cfg (s_fl s) [1] (d_l (s_get s (1, 1))) (hd_error (selectable (d_l (s_get s (1, 1))))) = [1].
Proof. vm_compute. auto. Qed.

Example ex_uniq_nonvacuous :
  ~ Known_C20_3 (1, 1) (s_keys (fst (run ex_cfg Fixed st0 ex_ops_vrf))) /\
  ~ Known_C20_3 (4, 2) [(4, 2); (1, 2); (3, 2); (4, 3)].
Proof.
  split; intro H; apply H; intros q Hq Hv HL; cbn in Hq;
    repeat (destruct Hq as [<-|Hq]; [try reflexivity; try discriminate Hv; try discriminate HL|]); try tauto.
Qed.

(* non-vacuity of the hypotheses and of the interesting branches *)
Definition ex_ops_long : list op :=
  [Insert 1 0 (0, 1) 0 (Some (NhV4 1)) 0; Insert 2 0 (0, 1) 0 (Some (NhV4 2)) 2; Insert 3 0 (0, 1) 1 (Some (NhV4 1)) 0;
   NhValidity 2 false; MarkStale 1; Insert 1 1 (0, 1) 0 (Some (NhV4 3)) 0; DropStale 1;
   SetPolicy 2; SoftResetIn 2; NhValidity 2 true; Remove 3 0 (0, 1) 1].

Example ex_wf : forallb wf_op ex_ops_long = true.
Proof. reflexivity. Qed.

Example ex_long_values :
  let s := fst (run ex_cfg Fixed st0 ex_ops_long) in
  let reqs := snd (run ex_cfg Fixed st0 ex_ops_long) in
  fib_replay reqs (None, (0, 1)) = [3; 3] /\
  ref_replay reqs 3 = 2 /\ paths_using s 3 = 2 /\ ref_replay reqs 1 = 0 /\
  unreachable_after ex_ops_long 2 false = false.
Proof. vm_compute. auto. Qed.

Example ex_unreachable :
  let ops := [Insert 1 0 (0, 1) 0 (Some (NhV4 1)) 0; Insert 2 0 (0, 1) 0 (Some (NhV4 2)) 2; NhValidity 2 false] in
  let s := fst (run ex_cfg Fixed st0 ops) in
  unreachable_after ops 2 false = true /\
  length (d_l (s_get s (0, 1))) = 2%nat /\ length (selectable (d_l (s_get s (0, 1)))) = 1%nat /\
  fib_replay (snd (run ex_cfg Fixed st0 ops)) (None, (0, 1)) = [1].
Proof. vm_compute. auto. Qed.

(* the three next-hop forms share the tracked address: a report for the global
   address excludes the path received with the 32-byte global + link-local form *)
Example ex_unreachable_link_local :
  let ops := [Insert 3 0 (0, 1) 0 (Some (NhV6LL 101 2)) 0; Insert 2 0 (0, 1) 0 (Some (NhV6 102)) 2;
              Insert 1 0 (0, 1) 1 (Some (NhV4 1)) 0; NhValidity 101 false] in
  let s := fst (run ex_cfg Fixed st0 ops) in
  unreachable_after ops 101 false = true /\
  length (d_l (s_get s (0, 1))) = 3%nat /\ length (selectable (d_l (s_get s (0, 1)))) = 2%nat /\
  fib_replay (snd (run ex_cfg Fixed st0 ops)) (None, (0, 1)) = [1; 102] /\
  ref_replay (snd (run ex_cfg Fixed st0 ops)) 101 = 1.
Proof. vm_compute. auto. Qed.

Example ex_vrf_hyps : NoDup (map fst (c_vrfs ex_cfg)) /\ In (5, [1]) (c_vrfs ex_cfg).
Proof. split. cbn. repeat constructor; cbn; intuition discriminate. cbn. auto. Qed.

(* deferral: the hypothesis [run_ok] is met by histories that start the deferral of a
   family on an empty table; nothing is installed while it lasts, everything at its end *)
Definition ex_ops_def : list op :=
  [StartDef 0; Insert 1 0 (0, 1) 0 (Some (NhV4 1)) 0; Insert 2 0 (0, 1) 0 (Some (NhV4 2)) 2;
   Insert 1 0 (3, 1) 0 (Some (NhV6 101)) 0].
Example ex_def_run_ok : run_ok ex_cfg Fixed st0 (ex_ops_def ++ [EndDef 0]) /\ run_ok ex_cfg Fixed st0 ex_ops_long.
Proof.
  split.
  - split; [intros p _; reflexivity|]. cbn [ex_ops_def app run_ok op_ok]. tauto.
  - cbn [ex_ops_long run_ok op_ok]. tauto.
Qed.
Example ex_def_values :
  let r1 := run ex_cfg Fixed st0 ex_ops_def in
  let r2 := run ex_cfg Fixed st0 (ex_ops_def ++ [EndDef 0]) in
  s_def (fst r1) = [0] /\ fib_replay (snd r1) (None, (0, 1)) = [] /\ fib_replay (snd r1) (None, (3, 1)) = [101] /\
  ref_replay (snd r1) 1 = 1 /\
  s_def (fst r2) = [] /\ fib_replay (snd r2) (None, (0, 1)) = [1; 2].
Proof. vm_compute. repeat split; reflexivity. Qed.
(* the prefix-limit test: refused for a new prefix at the limit, accepted for a known one *)
Example ex_limit_values :
  let ops := [InsertLim 1 0 (0, 1) 0 (Some (NhV4 1)) 0 1 1; InsertLim 2 0 (0, 1) 0 (Some (NhV4 2)) 0 1 0;
              InsertLim 2 0 (0, 1) 0 (Some (NhV4 3)) 0 1 1] in
  let r := run ex_cfg Fixed st0 ops in
  length (d_l (s_get (fst r) (0, 1))) = 1%nat /\ fib_replay (snd r) (None, (0, 1)) = [3] /\
  ref_replay (snd r) 1 = 0 /\ ref_replay (snd r) 2 = 0 /\ ref_replay (snd r) 3 = 1.
Proof. vm_compute. repeat split; reflexivity. Qed.

(* ---- finding C20-4: insert_route racing a reachability report.  Since the fix the
   unreachable set is read inside the shard lock: an insert that takes the lock after
   the reports [mids] of another thread were applied is the insert of the sequential
   history [pre ++ mids ++ [Insert ...]], to which the theorems above apply. *)
Lemma C20_insert_race_is_sequential : forall (c : cfg) (pre mids : list op) peer sess p pid nh tok,
  let s1 := fst (run c Fixed st0 (pre ++ mids)) in
  step_ins_with c Fixed s1 (s_inv s1) peer sess p pid nh tok = step c Fixed s1 (Insert peer sess p pid nh tok).
Proof. reflexivity. Qed.

Lemma run_app c v ops1 : forall s ops2,
  run c v s (ops1 ++ ops2) =
  let '(s1, r1) := run c v s ops1 in let '(s2, r2) := run c v s1 ops2 in (s2, r1 ++ r2).
Proof.
  induction ops1 as [|o t IH]; intros s ops2; cbn [app run].
  - destruct (run c v s ops2). reflexivity.
  - destruct (step c v s o) as [s1 r1]. rewrite IH. destruct (run c v s1 t) as [s2 r2].
    destruct (run c v s2 ops2) as [s3 r3]. rewrite app_assoc. reflexivity.
Qed.

(* the observation the harness compares (Model run_race, late read) is the one of that history *)
Lemma C20_run_race_late_eq : forall (c : cfg) (pre mids : list op) peer sess p pid nh tok,
  run_race false c pre peer sess p pid nh tok mids =
  let '(s0, _) := run c Fixed st0 pre in
  let '(s2, r) := run c Fixed s0 (mids ++ [Insert peer sess p pid nh tok]) in
  VL (observe c Fixed st0 pre ++ [VL [VList v_req r; v_view s2]]).
Proof.
  intros. unfold run_race. destruct (run c Fixed st0 pre) as [s0 r0]. rewrite run_app.
  destruct (run c Fixed s0 mids) as [s1 r1]. cbn [run step]. unfold step_ins.
  destruct (step_ins_with c Fixed s1 (s_inv s1) peer sess p pid nh tok) as [s2 r2]. rewrite app_nil_r. reflexivity.
Qed.

(* with the early read (the code before the fix) clause (3) fails: the path inserted while
   the report was being applied stays selectable although its next hop is unreachable *)
Definition early_state (c : cfg) (pre mids : list op) peer sess p pid nh tok : st :=
  let s0 := fst (run c Fixed st0 pre) in
  let s1 := fst (run c Fixed s0 mids) in
  fst (step_ins_with c Fixed s1 (s_inv s0) peer sess p pid nh tok).
Lemma C20_unreachable_nexthop_excluded_early_read_refuted :
  exists (c : cfg) (pre mids : list op) peer sess p pid nh tok (e : entry) (a : N),
    let s := early_state c pre mids peer sess p pid nh tok in
    let l := d_l (s_get s p) in
    In e l /\ e_nh e = Some a /\
    unreachable_after (pre ++ mids ++ [Insert peer sess p pid nh tok]) a false = true /\ In e (selectable l).
Proof.
  exists ex_cfg, [], [NhValidity 1 false], 1, 0, (0, 1), 0, (Some (NhV4 1)), 0.
  eexists. exists 1. cbn zeta. vm_compute. split; [left; reflexivity|]. repeat split; auto.
Qed.
Example ex_race_late_excluded :
  let s := fst (run ex_cfg Fixed st0 ([NhValidity 1 false] ++ [Insert 1 0 (0, 1) 0 (Some (NhV4 1)) 0])) in
  length (d_l (s_get s (0, 1))) = 1%nat /\ selectable (d_l (s_get s (0, 1))) = [].
Proof. vm_compute. auto. Qed.
