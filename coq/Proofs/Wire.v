(* Lemmas about Model/Wire.v: cursor reads, the [res] monad, and
   Capability::decode (no panic, consumes at most the capability length). *)
From Coq Require Import List NArith ZArith Bool Lia ZifyBool ZifyNat ZifyN.
From RB Require Import Base.Val Base.Bytes Model.Caps Model.Wire.
Import ListNotations.
Open Scope N_scope.

(* lia on N.div / N.modulo by constants *)
Ltac Zify.zify_post_hook ::= Z.to_euclidean_division_equations.

Definition nopanic {A} (r : res A) : Prop := match r with Panic _ => False | _ => True end.

Lemma np_ok {A} (a : A) : nopanic (Ok a). Proof. exact I. Qed.
Lemma np_fail {A} e : nopanic (@Fail A e). Proof. exact I. Qed.
Lemma np_req {A} e (o : option A) : nopanic (req e o). Proof. destruct o; exact I. Qed.
Lemma np_must {A} t (o : option A) : o <> None -> nopanic (must t o).
Proof. destruct o; [intros; exact I|congruence]. Qed.
Lemma np_bind {A B} (e : res A) (k : A -> res B) :
  nopanic e -> (forall a, e = Ok a -> nopanic (k a)) -> nopanic (bind e k).
Proof. destruct e; cbn; auto. Qed.
Lemma np_if {A} (b : bool) (x y : res A) : (b = true -> nopanic x) -> (b = false -> nopanic y) -> nopanic (if b then x else y).
Proof. destruct b; auto. Qed.

Lemma bind_ok {A B} (e : res A) (k : A -> res B) b :
  bind e k = Ok b -> exists a, e = Ok a /\ k a = Ok b.
Proof. destruct e; cbn; intro H; try discriminate. eauto. Qed.

Lemma req_ok {A} e (o : option A) a : req e o = Ok a -> o = Some a.
Proof. destruct o; cbn; congruence. Qed.
Lemma must_ok {A} t (o : option A) a : must t o = Ok a -> o = Some a.
Proof. destruct o; cbn; congruence. Qed.

Lemma len_nil : len [] = 0. Proof. reflexivity. Qed.
Lemma len_cons a (l : list N) : len (a :: l) = len l + 1.
Proof. unfold len. cbn [length]. lia. Qed.
Lemma len_app (a b : list N) : len (a ++ b) = len a + len b.
Proof. unfold len. rewrite app_length. lia. Qed.
Lemma len_length (l : list N) : N.to_nat (len l) = length l.
Proof. unfold len. lia. Qed.
Lemma len_skipn n (l : list N) : len (skipn n l) = len l - N.of_nat n.
Proof. unfold len. rewrite skipn_length. lia. Qed.
Lemma len_firstn n (l : list N) : len (firstn n l) = N.min (N.of_nat n) (len l).
Proof. unfold len. rewrite firstn_length. lia. Qed.

(* ---- what a successful / failed read says about the cursor *)
Lemma get8_some c x c' : get8 c = Some (x, c') -> len c = len c' + 1.
Proof. destruct c; cbn [get8 get16 get24 get32]; intro H; [discriminate|]. injection H as <- <-. rewrite len_cons. reflexivity. Qed.
Lemma get8_none c : get8 c = None -> len c = 0.
Proof. destruct c; cbn [get8 get16 get24 get32]; [reflexivity|discriminate]. Qed.
Lemma get16_some c x c' : get16 c = Some (x, c') -> len c = len c' + 2.
Proof. destruct c as [|a [|b r]]; cbn [get8 get16 get24 get32]; intro H; try discriminate. injection H as <- <-. rewrite !len_cons. lia. Qed.
Lemma get16_none c : get16 c = None -> len c < 2.
Proof. destruct c as [|a [|b r]]; cbn [get8 get16 get24 get32]; intro H; try discriminate; rewrite ?len_cons, ?len_nil; lia. Qed.
Lemma get24_some c x c' : get24 c = Some (x, c') -> len c = len c' + 3.
Proof. destruct c as [|a [|b [|d r]]]; cbn [get8 get16 get24 get32]; intro H; try discriminate. injection H as <- <-. rewrite !len_cons. lia. Qed.
Lemma get32_some c x c' : get32 c = Some (x, c') -> len c = len c' + 4.
Proof. destruct c as [|a [|b [|d [|e r]]]]; cbn [get8 get16 get24 get32]; intro H; try discriminate. injection H as <- <-. rewrite !len_cons. lia. Qed.
Lemma take_some n c a c' : take n c = Some (a, c') -> len c = len c' + N.of_nat n /\ length a = n /\ a = firstn n c /\ c' = skipn n c.
Proof.
  unfold take. destruct (Nat.ltb (length c) n) eqn:E; intro H; [discriminate|].
  injection H as <- <-. apply PeanoNat.Nat.ltb_ge in E.
  rewrite len_skipn, firstn_length. unfold len. repeat split; lia.
Qed.
Lemma take_none n c : take n c = None -> (length c < n)%nat.
Proof. unfold take. destruct (Nat.ltb (length c) n) eqn:E; intro H; [|discriminate]. apply PeanoNat.Nat.ltb_lt in E. exact E. Qed.

(* ---- the four list-reading loops of Capability::decode: no panic, and a
   successful run moved the cursor by exactly n entries *)
Ltac rq_step H :=
  apply bind_ok in H; destruct H as ([? ?] & H0 & H); unfold rq in H0; apply req_ok in H0.

Lemma cap_extnh_spec n : forall c acc, nopanic (cap_extnh n c acc) /\
  forall l c', cap_extnh n c acc = Ok (l, c') -> len c = len c' + 6 * N.of_nat n.
Proof.
  induction n as [|n IH]; intros c acc; cbn [cap_extnh].
  - split; [exact I|]. intros l c' H. injection H as _ <-. lia.
  - split.
    + apply np_bind; [apply np_req|]. intros [fam c1] _. apply np_bind; [apply np_req|]. intros [afi c2] _.
      destruct (_ || _); apply IH.
    + intros l c' H. rq_step H. rename H0 into G1. rq_step H. rename H0 into G2.
      apply get32_some in G1. apply get16_some in G2.
      destruct (_ || _); apply IH in H; lia.
Qed.

Lemma cap_gr_fams_spec n : forall c acc, nopanic (cap_gr_fams n c acc) /\
  forall l c', cap_gr_fams n c acc = Ok (l, c') -> len c = len c' + 4 * N.of_nat n.
Proof.
  induction n as [|n IH]; intros c acc; cbn [cap_gr_fams].
  - split; [exact I|]. intros l c' H. injection H as _ <-. lia.
  - split.
    + repeat (apply np_bind; [apply np_req|]; intros [? ?] _). apply IH.
    + intros l c' H. rq_step H. rename H0 into G1. rq_step H. rename H0 into G2. rq_step H. rename H0 into G3.
      apply get16_some in G1. apply get8_some in G2. apply get8_some in G3. apply IH in H. lia.
Qed.

Lemma cap_addpath_spec n : forall c acc, nopanic (cap_addpath n c acc) /\
  forall l c', cap_addpath n c acc = Ok (l, c') -> len c = len c' + 4 * N.of_nat n.
Proof.
  induction n as [|n IH]; intros c acc; cbn [cap_addpath].
  - split; [exact I|]. intros l c' H. injection H as _ <-. lia.
  - split.
    + repeat (apply np_bind; [apply np_req|]; intros [? ?] _). destruct (_ || _); apply IH.
    + intros l c' H. rq_step H. rename H0 into G1. rq_step H. rename H0 into G2. rq_step H. rename H0 into G3.
      apply get16_some in G1. apply get8_some in G2. apply get8_some in G3.
      destruct (_ || _); apply IH in H; lia.
Qed.

Lemma cap_llgr_spec n : forall c acc, nopanic (cap_llgr n c acc) /\
  forall l c', cap_llgr n c acc = Ok (l, c') -> len c = len c' + 7 * N.of_nat n.
Proof.
  induction n as [|n IH]; intros c acc; cbn [cap_llgr].
  - split; [exact I|]. intros l c' H. injection H as _ <-. lia.
  - split.
    + repeat (apply np_bind; [apply np_req|]; intros [? ?] _). apply IH.
    + intros l c' H. rq_step H. rename H0 into G1. rq_step H. rename H0 into G2. rq_step H. rename H0 into G3.
      rq_step H. rename H0 into G4.
      apply get16_some in G1. apply get8_some in G2. apply get8_some in G3. apply get24_some in G4.
      apply IH in H. lia.
Qed.

Lemma sub_w_ok p a b : b <= a -> sub_w 8 p a b = Some (a - b).
Proof. intro H. unfold sub_w. destruct (b <=? a) eqn:E; [reflexivity|lia]. Qed.

(* Capability::decode never panics in either profile, and what it reads lies
   inside the capability: the cursor moves by at most [clen] bytes. *)
Lemma cap_decode_spec p code c clen :
  nopanic (cap_decode p code c clen) /\
  forall cp c', cap_decode p code c clen = Ok (cp, c') -> len c' <= len c /\ len c - len c' <= clen.
Proof.
  destruct (N.eq_dec code 1) as [->|N1].
  { unfold cap_decode.
    (* multiprotocol *)
    destruct (negb (clen =? 4)) eqn:E; [split; [exact I|discriminate]|]. split.
    + apply np_bind; [apply np_req|]. intros [? ?] _. exact I.
    + intros cp c' H. rq_step H. apply get32_some in H0. injection H as _ <-. lia. }
  destruct (N.eq_dec code 2) as [->|N2].
  { unfold cap_decode.
    destruct (negb (clen =? 0)); [split; [exact I|discriminate]|]. split; [exact I|].
    intros cp c' H. injection H as _ <-. lia. }
  destruct (N.eq_dec code 5) as [->|N5].
  { unfold cap_decode.
    (* extended next hop *)
    destruct (negb (clen mod 6 =? 0)) eqn:E; [split; [exact I|discriminate]|]. split.
    + apply np_bind; [apply cap_extnh_spec|]. intros [? ?] _. exact I.
    + intros cp c' H. apply bind_ok in H. destruct H as ([ll cc] & H0 & H). injection H as _ <-.
      apply cap_extnh_spec in H0. unfold nat_of in H0. lia. }
  destruct (N.eq_dec code 6) as [->|N6].
  { unfold cap_decode.
    destruct (negb (clen =? 0)); [split; [exact I|discriminate]|]. split; [exact I|].
    intros cp c' H. injection H as _ <-. lia. }
  destruct (N.eq_dec code 64) as [->|N64].
  { unfold cap_decode.
    (* graceful restart *)
    destruct (negb (clen mod 4 =? 2)) eqn:E; [split; [exact I|discriminate]|].
    assert (H2 : 2 <= clen) by lia.
    split.
    + apply np_bind; [apply np_req|]. intros [restart c1] _.
      rewrite (sub_w_ok p clen 2 H2). cbn [must bind].
      apply np_bind; [apply cap_gr_fams_spec|]. intros [? ?] _. exact I.
    + intros cp c' H. rq_step H. rename H0 into G1. apply get16_some in G1.
      rewrite (sub_w_ok p clen 2 H2) in H. cbn [must bind] in H.
      apply bind_ok in H. destruct H as ([ll cc] & H0 & H). injection H as _ <-.
      apply cap_gr_fams_spec in H0. unfold nat_of in H0. lia. }
  destruct (N.eq_dec code 65) as [->|N65].
  { unfold cap_decode.
    destruct (negb (clen =? 4)) eqn:E; [split; [exact I|discriminate]|]. split.
    + apply np_bind; [apply np_req|]. intros [? ?] _. exact I.
    + intros cp c' H. rq_step H. apply get32_some in H0. injection H as _ <-. lia. }
  destruct (N.eq_dec code 69) as [->|N69].
  { unfold cap_decode.
    (* add-path *)
    destruct (negb (clen mod 4 =? 0)) eqn:E; [split; [exact I|discriminate]|]. split.
    + apply np_bind; [apply cap_addpath_spec|]. intros [? ?] _. exact I.
    + intros cp c' H. apply bind_ok in H. destruct H as ([ll cc] & H0 & H). injection H as _ <-.
      apply cap_addpath_spec in H0. unfold nat_of in H0. lia. }
  destruct (N.eq_dec code 70) as [->|N70].
  { unfold cap_decode.
    destruct (negb (clen =? 0)); [split; [exact I|discriminate]|]. split; [exact I|].
    intros cp c' H. injection H as _ <-. lia. }
  destruct (N.eq_dec code 71) as [->|N71].
  { unfold cap_decode.
    (* long-lived graceful restart *)
    destruct (negb (clen mod 7 =? 0)) eqn:E; [split; [exact I|discriminate]|]. split.
    + apply np_bind; [apply cap_llgr_spec|]. intros [? ?] _. exact I.
    + intros cp c' H. apply bind_ok in H. destruct H as ([ll cc] & H0 & H). injection H as _ <-.
      apply cap_llgr_spec in H0. unfold nat_of in H0. lia. }
  destruct (N.eq_dec code 73) as [->|N73].
  { unfold cap_decode.
    (* FQDN *)
    destruct (clen <? 2) eqn:E; [split; [exact I|discriminate]|]. split.
    + apply np_bind; [apply np_req|]. intros [hl c1] _.
      destruct (clen <? hl + 2); [exact I|].
      apply np_bind; [apply np_req|]. intros [h c2] _.
      apply np_bind; [apply np_req|]. intros [dl c3] _.
      destruct (clen <? 2 + hl + dl); [exact I|].
      apply np_bind; [apply np_req|]. intros [d c4] _. exact I.
    + intros cp c' H. rq_step H. rename H0 into G1. apply get8_some in G1.
      destruct (clen <? n + 2) eqn:E1; [discriminate|].
      rq_step H. rename H0 into G2. apply take_some in G2.
      rq_step H. rename H0 into G3. apply get8_some in G3.
      destruct (clen <? 2 + n + n0) eqn:E2; [discriminate|].
      rq_step H. rename H0 into G4. apply take_some in G4.
      injection H as _ <-. unfold nat_of in *. lia. }
  (* unknown code: the default arm *)
    assert (Hd : cap_decode p code c clen =
                 ('(b, c) <- rq (take (nat_of clen) c) ;; Ok (CUnknown code b, c))).
    { unfold cap_decode.
      destruct code as [|q]; [reflexivity|].
      do 7 (destruct q as [q|q|]; try reflexivity; try congruence). }
    rewrite Hd. split.
    + apply np_bind; [apply np_req|]. intros [? ?] _. exact I.
    + intros cp c' H. rq_step H. apply take_some in H0. injection H as _ <-. unfold nat_of in *. lia.
Qed.
