(* Property C15: route counters and prefix limits match the RIB. *)
From Coq Require Import List NArith ZArith Bool Lia Sorting.Permutation Sorting.Sorted.
From RB Require Import Base.Val Model.Rib Spec.BestPath Spec.RibSpec
     Proofs.RibOrder Proofs.RibInv Proofs.RibAux Proofs.RibInv2 Proofs.RibC02.
Import ListNotations.
Open Scope N_scope.

(* ====================================================== no empty destination *)

Lemma C15_no_empty_destination :
  forall shard ops net d,
    In (net, d) (t_dests (run (empty_table shard) ops)) -> d_entries d <> [].
Proof.
  intros shard ops net d Hin.
  destruct (invE_run _ ops (invE_empty shard)) as [_ Hok]. destruct (Hok _ _ Hin) as [H _]. exact H.
Qed.

(* ============================================================ the recounts *)

Definition unf (a : N) (e : entry) : bool := from_addr a e && negb (e_filtered e).

(* per list of entries: does the peer have a path here / how many accepted *)
Definition hrl (a : N) (l : list entry) : N := if existsb (from_addr a) l then 1 else 0.
Definition hal (a : N) (l : list entry) : N := N.of_nat (length (filter (unf a) l)).
Definition hr (a : N) (d : dest) : N := hrl a (d_entries d).
Definition ha (a : N) (d : dest) : N := hal a (d_entries d).

Definition cr (a : N) (t : table) : N := sumd (hr a) (t_dests t).
Definition ca (a : N) (t : table) : N := sumd (ha a) (t_dests t).

Lemma recv_recount_cr t a : recv_recount t a = cr a t.
Proof.
  unfold recv_recount, cr, sumd, hr, hrl. rewrite <- sumN_count. reflexivity.
Qed.

Lemma acc_recount_ca t a : acc_recount t a = ca a t.
Proof.
  unfold acc_recount, all_entries, ca, sumd, ha, hal.
  rewrite <- (sumN_flat (fun nd => d_entries (snd nd)) (unf a)). reflexivity.
Qed.

(* ---- list facts *)

Lemma existsb_perm {A} (p : A -> bool) l1 l2 : Permutation l1 l2 -> existsb p l1 = existsb p l2.
Proof.
  induction 1 as [|x l l' _ IH|x y l|l l' l'' _ IH1 _ IH2]; cbn; [reflexivity| | |congruence].
  - rewrite IH. reflexivity.
  - destruct (p x), (p y); reflexivity.
Qed.

Lemma hrl_perm a l1 l2 : Permutation l1 l2 -> hrl a l1 = hrl a l2.
Proof. intro H. unfold hrl. rewrite (existsb_perm _ _ _ H). reflexivity. Qed.

Lemma hal_perm a l1 l2 : Permutation l1 l2 -> hal a l1 = hal a l2.
Proof. intro H. unfold hal. rewrite (Permutation_length (Permutation_filter' (unf a) _ _ H)). reflexivity. Qed.

Lemma hal_cons a e l : hal a (e :: l) = (if unf a e then 1 else 0) + hal a l.
Proof. unfold hal. cbn [filter]. destruct (unf a e); cbn [length]; lia. Qed.

Lemma hal_split a q l : hal a l = hal a (filter q l) + hal a (filter (fun e => negb (q e)) l).
Proof.
  unfold hal. induction l as [|e r IH]; cbn [filter]; [reflexivity|].
  destruct (q e); cbn [negb filter]; destruct (unf a e); cbn [length]; lia.
Qed.

Lemma hrl_zero_hal a l : hrl a l = 0 -> hal a l = 0.
Proof.
  unfold hrl, hal. destruct (existsb (from_addr a) l) eqn:E; [discriminate|]. intros _.
  assert (H : filter (unf a) l = []); [|rewrite H; reflexivity].
  induction l as [|e r IH]; cbn in *; [reflexivity|]. apply orb_false_iff in E as [E1 E2].
  unfold unf at 1. rewrite E1. cbn. apply IH, E2.
Qed.

Lemma hrl_le_one a l : hrl a l <= 1.
Proof. unfold hrl. destruct (existsb _ _); lia. Qed.

Lemma hal_ge_in a l e : In e l -> unf a e = true -> 1 <= hal a l.
Proof.
  intros Hin Hu. unfold hal. assert (H : In e (filter (unf a) l)) by (apply filter_In; split; assumption).
  destruct (filter (unf a) l); [destruct H|cbn [length]; lia].
Qed.

Lemma hrl_one_in a l e : In e l -> from_addr a e = true -> hrl a l = 1.
Proof.
  intros Hin Hf. unfold hrl.
  assert (H : existsb (from_addr a) l = true) by (apply existsb_exists; exists e; split; assumption).
  rewrite H. reflexivity.
Qed.

(* removing entries that are not the peer's changes nothing for the peer *)
Lemma hrl_filter_other a q l :
  (forall e, In e l -> q e = false -> from_addr a e = false) -> hrl a (filter q l) = hrl a l.
Proof.
  intro H. unfold hrl.
  assert (E : existsb (from_addr a) (filter q l) = existsb (from_addr a) l); [|rewrite E; reflexivity].
  induction l as [|e r IH]; cbn; [reflexivity|].
  assert (IH' := IH (fun x Hx => H x (or_intror Hx))).
  destruct (q e) eqn:Qe; cbn; rewrite IH'; [reflexivity|].
  rewrite (H e (or_introl eq_refl) Qe). reflexivity.
Qed.

Lemma hal_filter_other a q l :
  (forall e, In e l -> q e = false -> from_addr a e = false) -> hal a (filter q l) = hal a l.
Proof.
  intro H. unfold hal.
  assert (E : filter (unf a) (filter q l) = filter (unf a) l); [|rewrite E; reflexivity].
  induction l as [|e r IH]; cbn; [reflexivity|].
  assert (IH' := IH (fun x Hx => H x (or_intror Hx))).
  destruct (q e) eqn:Qe; cbn; rewrite IH'; [reflexivity|].
  unfold unf at 2. rewrite (H e (or_introl eq_refl) Qe). reflexivity.
Qed.

Lemma from_addr_other a a0 e : a <> a0 -> from_addr a0 e = true -> from_addr a e = false.
Proof. unfold from_addr. intros Hne H. apply N.eqb_eq in H. apply N.eqb_neq. congruence. Qed.

Lemma same_key_from s rpid e : same_key s rpid e = true -> from_addr (s_addr s) e = true.
Proof. unfold same_key. intro H. apply andb_true_iff in H. tauto. Qed.

Lemma filter_same_key s rpid l :
  NoDup (map ekey l) ->
  filter (same_key s rpid) l = match find (same_key s rpid) l with Some o => [o] | None => [] end.
Proof.
  induction l as [|e r IH]; cbn; intro Hnd; [reflexivity|].
  apply NoDup_cons_iff in Hnd as [Hn Hr]. destruct (same_key s rpid e) eqn:Ke; [|apply IH, Hr].
  f_equal. destruct (filter (same_key s rpid) r) as [|x xs] eqn:Ef; [reflexivity|]. exfalso.
  assert (Hx : In x (filter (same_key s rpid) r)) by (rewrite Ef; left; reflexivity).
  apply filter_In in Hx as [Hx Kx]. apply Hn. apply same_key_ekey in Ke, Kx. rewrite Ke, <- Kx.
  apply in_map, Hx.
Qed.

Lemma is_new_spec s rpid d0 :
  ins_is_new s rpid d0 = negb (existsb (from_addr (s_addr s)) (d_entries d0)).
Proof.
  unfold ins_is_new. destruct (find (same_key s rpid) (d_entries d0)) as [o|] eqn:Ef.
  - apply find_some in Ef as [Hin Hk]. symmetry. apply negb_false_iff, existsb_exists.
    exists o. split; [exact Hin|apply (same_key_from _ _ _ Hk)].
  - f_equal. pose proof (find_none _ _ Ef) as Hn. revert Hn. clear Ef. generalize (d_entries d0). intro l.
    induction l as [|e r IH]; intro Hn; cbn; [reflexivity|].
    rewrite (IH (fun x Hx => Hn x (or_intror Hx))).
    f_equal. specialize (Hn e (or_introl eq_refl)). unfold same_key in Hn.
    destruct (from_addr (s_addr s) e); cbn in *; [rewrite Hn; reflexivity|reflexivity].
Qed.

(* ================================================== the statistics invariant *)

Definition invS (t : table) : Prop :=
  (forall a, stats_of t a = (cr a t, ca a t)) /\ t_bad t = false.

Lemma invS_empty shard : invS (empty_table shard).
Proof. split; [intro a; reflexivity|reflexivity]. Qed.

Lemma stats_of_aset t a k v :
  match alookup a (aset k v (t_stats t)) with Some s => s | None => (0, 0) end
  = if a =? k then v else stats_of t a.
Proof. unfold stats_of. rewrite alookup_aset. destruct (a =? k); reflexivity. Qed.

Lemma gopt_ins_lookup g t net :
  g {| d_entries := []; d_next_pid := 1; d_id := dest_id (t_shard t) (alloc_id (t_used t)) |} = 0 ->
  gopt g (alookup net (t_dests t)) = g (fst (ins_lookup t net)).
Proof.
  intro H0. unfold ins_lookup. destruct (alookup net (t_dests t)); cbn [fst gopt]; [reflexivity|]. symmetry. exact H0.
Qed.

(* ------------------------------------------------------------------ insert *)

Lemma invS_insert t s net rpid nh a filt nhinv lim :
  invE t -> invS t -> invS (fst (insert t s net rpid nh a filt nhinv lim)).
Proof.
  intros Hinv [Hst Hbad]. destruct (ins_lookup_entries t net Hinv) as [Hl Hkk]. destruct Hinv as [Hk Hok].
  unfold insert. cbv zeta.
  destruct (ins_over t lim _); [split; assumption|].
  destruct (ins_pid _ _ _) as [pn|] eqn:Hp; [|split; assumption].
  cbn [fst].
  set (d0 := fst (ins_lookup t net)) in *.
  set (es0 := d_entries d0) in *.
  set (rest := filter (fun e => negb (same_key s rpid e)) es0) in *.
  set (e := {| e_lpid := fst pn; e_rpid := rpid; e_src := s; e_nh := nh; e_attr := a;
               e_filtered := filt; e_nhinv := nhinv |}).
  set (d2 := with_entries d0 (ins_sorted (cmp_for (t_flags t) net) e rest) (snd pn)).
  set (replaced := find (same_key s rpid) es0) in *.
  set (a0 := s_addr s) in *.
  assert (Hperm : Permutation (e :: rest) (d_entries d2)) by apply ins_sorted_perm.
  (* the sums move by the difference between the old and the new destination *)
  assert (Hsr : forall x, sumd (hr x) (aset net d2 (t_dests t)) + hr x d0 = cr x t + hr x d2).
  { intro x. pose proof (sumd_aset (hr x) net d2 (t_dests t)) as H.
    rewrite (gopt_ins_lookup (hr x) t net eq_refl) in H. exact H. }
  assert (Hsa : forall x, sumd (ha x) (aset net d2 (t_dests t)) + ha x d0 = ca x t + ha x d2).
  { intro x. pose proof (sumd_aset (ha x) net d2 (t_dests t)) as H.
    rewrite (gopt_ins_lookup (ha x) t net eq_refl) in H. exact H. }
  assert (Hother : forall x y, In y es0 -> negb (same_key s rpid y) = false -> x <> a0 -> from_addr x y = false).
  { intros x y _ Hy Hne. apply negb_false_iff in Hy. apply (from_addr_other x a0); [exact Hne|].
    apply (same_key_from _ _ _ Hy). }
  assert (He0 : from_addr a0 e = true) by (unfold from_addr, e, a0; cbn; apply N.eqb_refl).
  (* the replaced path is the only one with the key *)
  assert (Hold : hal a0 es0 = hal a0 rest
                 + match replaced with Some o => if e_filtered o then 0 else 1 | None => 0 end).
  { rewrite (hal_split a0 (same_key s rpid) es0). fold rest. rewrite (filter_same_key s rpid es0 Hkk). fold replaced.
    destruct replaced as [o|] eqn:Er; [|change (hal a0 []) with 0; lia].
    apply find_some in Er as [_ Ko]. rewrite hal_cons. unfold unf.
    pose proof (same_key_from _ _ _ Ko) as Hfo. fold a0 in Hfo. rewrite Hfo. cbn [andb]. change (hal a0 []) with 0. destruct (e_filtered o); cbn [negb]; lia. }
  assert (Hnew : existsb (from_addr a0) es0 = negb (ins_is_new s rpid d0)).
  { rewrite is_new_spec. fold a0 es0. rewrite negb_involutive. reflexivity. }
  assert (Hrepl : match replaced with Some _ => ins_is_new s rpid d0 = false | None => True end).
  { unfold ins_is_new. fold es0 replaced. destruct replaced; [reflexivity|exact Logic.I]. }
  pose proof (Hst a0) as Hs0. unfold stats_of in Hs0. fold (stats_of t a0) in Hs0.
  split; cbn [t_stats t_dests t_bad].
  - intro x. unfold stats_of, cr, ca. cbn [t_stats t_dests]. rewrite alookup_aset.
    destruct (x =? a0) eqn:Ex.
    + apply N.eqb_eq in Ex. subst x. specialize (Hsr a0). specialize (Hsa a0).
      assert (H2 : hr a0 d2 = 1).
      { unfold hr. rewrite <- (hrl_perm a0 _ _ Hperm). apply (hrl_one_in a0 _ e); [left; reflexivity|exact He0]. }
      assert (H0 : hr a0 d0 = if ins_is_new s rpid d0 then 0 else 1).
      { unfold hr, hrl. fold es0. rewrite Hnew. destruct (ins_is_new s rpid d0); reflexivity. }
      assert (Ha2 : ha a0 d2 = (if filt then 0 else 1) + hal a0 rest).
      { unfold ha. rewrite <- (hal_perm a0 _ _ Hperm), hal_cons. unfold unf. rewrite He0. cbn [andb e_filtered e].
        destruct filt; reflexivity. }
      unfold ha at 2 in Hsa. fold es0 in Hsa. rewrite Hold, Ha2 in Hsa. rewrite H2, H0 in Hsr.
      change (match alookup a0 (t_stats t) with | Some s0 => s0 | None => (0, 0) end) with (stats_of t a0).
      rewrite (Hst a0). unfold ins_stats. cbn [fst snd].
      unfold cr, ca in *.
      destruct replaced as [o|].
      * rewrite Hrepl in Hsr. destruct (e_filtered o), filt; cbn [fst snd dec_stat];
          try (f_equal; lia).
        unfold dec_stat. destruct (sumd (ha a0) (t_dests t) =? 0) eqn:Ez; [apply N.eqb_eq in Ez; lia|].
        cbn [fst]. f_equal; lia.
      * destruct (ins_is_new s rpid d0), filt; cbn [fst snd]; f_equal; lia.
    + apply N.eqb_neq in Ex. fold (stats_of t x). rewrite (Hst x).
      specialize (Hsr x). specialize (Hsa x).
      assert (Hex : from_addr x e = false) by (apply (from_addr_other x a0 e Ex He0)).
      assert (H2 : hr x d2 = hr x d0).
      { unfold hr. rewrite <- (hrl_perm x _ _ Hperm). fold es0. unfold hrl at 1. cbn [existsb]. rewrite Hex. cbn [orb].
        fold (hrl x rest). apply hrl_filter_other. intros y Hy Hq. apply (Hother x y Hy Hq Ex). }
      assert (Ha2 : ha x d2 = ha x d0).
      { unfold ha. rewrite <- (hal_perm x _ _ Hperm), hal_cons. fold es0. unfold unf at 1. rewrite Hex. cbn [andb].
        rewrite N.add_0_l. apply hal_filter_other. intros y Hy Hq. apply (Hother x y Hy Hq Ex). }
      unfold cr, ca in *. f_equal; lia.
  - rewrite Hbad. cbn [orb]. rewrite (Hst a0). unfold ins_stats. cbn [fst snd].
    destruct replaced as [o|] eqn:Er.
    + destruct (e_filtered o) eqn:Fo, filt; cbn [snd]; try reflexivity.
      unfold dec_stat. destruct (ca a0 t =? 0) eqn:Ez; [|reflexivity]. exfalso. apply N.eqb_eq in Ez.
      (* an unfiltered path of the peer is present *)
      apply find_some in Er as [Hin Ko]. pose proof (same_key_from _ _ _ Ko) as Hfo. fold a0 in Hfo.
      assert (Hin' : In (net, d0) (t_dests t)).
      { unfold d0, ins_lookup in *. destruct (alookup net (t_dests t)) as [d|] eqn:Hd; cbn [fst] in *.
        - apply alookup_in, Hd.
        - cbn in Hin. destruct Hin. }
      assert (1 <= ha a0 d0).
      { apply (hal_ge_in a0 _ o Hin). unfold unf. rewrite Hfo, Fo. reflexivity. }
      unfold ca, sumd in Ez. apply in_split in Hin' as (m1 & m2 & Em). rewrite Em, sumN_app in Ez. cbn in Ez. lia.
    + destruct (ins_is_new s rpid d0), filt; reflexivity.
Qed.

(* a table whose statistics entry for one peer was overwritten *)
Lemma invS_update t t' a0 r' c' :
  t_stats t' = aset a0 (r', c') (t_stats t) -> t_bad t' = false ->
  (forall x, x <> a0 -> cr x t' = cr x t /\ ca x t' = ca x t) ->
  r' = cr a0 t' -> c' = ca a0 t' ->
  invS t -> invS t'.
Proof.
  intros Es Eb Ho Er Ec [Hst _]. split; [|exact Eb]. intro x. unfold stats_of. rewrite Es, alookup_aset.
  destruct (x =? a0) eqn:Ex.
  - apply N.eqb_eq in Ex. subst x. congruence.
  - apply N.eqb_neq in Ex. destruct (Ho x Ex) as [-> ->]. apply Hst.
Qed.

(* ------------------------------------------------------------------ remove *)

Lemma hal_remove_first a g l r :
  find g l = Some r -> hal a l = hal a (remove_first g l) + (if unf a r then 1 else 0).
Proof.
  induction l as [|e l' IH]; cbn [find remove_first]; [discriminate|].
  destruct (g e).
  - intro H. injection H as ->. rewrite hal_cons. lia.
  - intro H. rewrite !hal_cons, (IH H). lia.
Qed.

Lemma hrl_remove_first_other a g l r :
  find g l = Some r -> from_addr a r = false -> hrl a (remove_first g l) = hrl a l.
Proof.
  intros Hf Hr. unfold hrl.
  assert (E : existsb (from_addr a) (remove_first g l) = existsb (from_addr a) l); [|rewrite E; reflexivity].
  revert Hf. induction l as [|e l' IH]; cbn [find remove_first existsb]; [discriminate|].
  destruct (g e).
  - intro H. injection H as ->. rewrite Hr. reflexivity.
  - intro H. cbn [existsb]. rewrite (IH H). reflexivity.
Qed.

Lemma dec_stat_pos x : 1 <= x -> dec_stat x = (x - 1, false).
Proof. intro H. unfold dec_stat. destruct (x =? 0) eqn:E; [apply N.eqb_eq in E; lia|reflexivity]. Qed.

Lemma sumd_ge_in g ds n d : In (n, d) ds -> g d <= sumd g ds.
Proof.
  intro Hin. apply in_split in Hin as (m1 & m2 & ->). unfold sumd. rewrite sumN_app. cbn. lia.
Qed.

Lemma invS_remove t s net rpid ctr : invE t -> invS t -> invS (fst (remove t s net rpid ctr)).
Proof.
  intros [Hk Hok] HS. unfold remove.
  destruct (alookup net (t_dests t)) as [d|] eqn:Hd; [|exact HS].
  destruct (find (same_key s rpid) (d_entries d)) as [removed|] eqn:Ef; [|exact HS]. cbv zeta.
  set (a0 := s_addr s).
  set (rest := remove_first (same_key s rpid) (d_entries d)).
  set (d' := with_entries d rest (d_next_pid d)).
  set (D' := match rest with [] => aremove net (t_dests t) | _ => aset net d' (t_dests t) end).
  pose proof (alookup_in _ _ _ Hd) as Hin.
  assert (Hsum : forall g, g d' = (match rest with [] => 0 | _ => g d' end) ->
                           sumd g D' + g d = sumd g (t_dests t) + g d').
  { intros g Hg. unfold D'. destruct rest as [|y ys] eqn:Er.
    - pose proof (sumd_aremove g net (t_dests t) Hk) as H. rewrite Hd in H. cbn [gopt] in H. rewrite Hg. lia.
    - pose proof (sumd_aset g net d' (t_dests t)) as H. rewrite Hd in H. cbn [gopt] in H. exact H. }
  assert (Hsr : forall x, sumd (hr x) D' + hr x d = cr x t + hrl x rest).
  { intro x. apply (Hsum (hr x)). unfold hr, d'. cbn [d_entries with_entries]. destruct rest; reflexivity. }
  assert (Hsa : forall x, sumd (ha x) D' + ha x d = ca x t + hal x rest).
  { intro x. apply (Hsum (ha x)). unfold ha, d'. cbn [d_entries with_entries]. destruct rest; reflexivity. }
  apply find_some in Ef as Hfs. destruct Hfs as [Hrin Hrk].
  pose proof (same_key_from _ _ _ Hrk) as Hr0. fold a0 in Hr0.
  assert (Hother : forall x, x <> a0 -> sumd (hr x) D' = cr x t /\ sumd (ha x) D' = ca x t).
  { intros x Hne. specialize (Hsr x). specialize (Hsa x).
    pose proof (from_addr_other x a0 removed Hne Hr0) as Hxo.
    assert (H1 : hrl x rest = hr x d) by (apply (hrl_remove_first_other x _ _ removed Ef Hxo)).
    assert (H2 : ha x d = hal x rest).
    { unfold ha. rewrite (hal_remove_first x _ _ removed Ef). unfold unf. rewrite Hxo. cbn [andb]. fold rest. lia. }
    split; lia. }
  assert (Hr1 : hr a0 d = 1) by (apply (hrl_one_in a0 _ removed Hrin Hr0)).
  assert (Ha1 : ha a0 d = hal a0 rest + (if negb (e_filtered removed) then 1 else 0)).
  { unfold ha. rewrite (hal_remove_first a0 _ _ removed Ef). unfold unf. rewrite Hr0. fold rest. reflexivity. }
  destruct HS as [Hst Hbad].
  assert (Hcr : 1 <= cr a0 t) by (rewrite <- Hr1; apply (sumd_ge_in (hr a0) _ net d Hin)).
  assert (Hca : ha a0 d <= ca a0 t) by (apply (sumd_ge_in (ha a0) _ net d Hin)).
  (* the new statistics of the peer *)
  assert (Hnew : rem_stats (stats_of t a0) (existsb (from_addr a0) rest) (negb (e_filtered removed))
                 = (sumd (hr a0) D', sumd (ha a0) D', false)).
  { rewrite (Hst a0). unfold rem_stats. cbn [fst snd]. specialize (Hsr a0). specialize (Hsa a0).
    unfold hrl in Hsr. rewrite Hr1 in Hsr. rewrite Ha1 in Hsa, Hca.
    destruct (existsb (from_addr a0) rest), (negb (e_filtered removed));
      rewrite ?dec_stat_pos by lia; cbn [fst snd orb]; f_equal; try f_equal; lia. }
  assert (Hfin : forall t', t_stats t' = aset a0 (fst (rem_stats (stats_of t a0) (existsb (from_addr a0) rest)
                                                                 (negb (e_filtered removed)))) (t_stats t) ->
                            t_bad t' = t_bad t || snd (rem_stats (stats_of t a0) (existsb (from_addr a0) rest)
                                                                 (negb (e_filtered removed))) ->
                            t_dests t' = D' -> invS t').
  { intros t' Es Eb Ed. rewrite Hnew in Es, Eb. cbn [fst snd] in Es, Eb. rewrite Hbad in Eb.
    apply (invS_update t t' a0 _ _ Es Eb); [| | |split; assumption].
    - intros x Hne. unfold cr, ca. rewrite Ed. apply Hother, Hne.
    - unfold cr. rewrite Ed. reflexivity.
    - unfold ca. rewrite Ed. reflexivity. }
  fold a0 rest d'. unfold D' in Hfin. destruct rest as [|y ys]; cbn [fst]; apply Hfin; reflexivity.
Qed.

(* ------------------------------------------------------------ drop / purges *)

Definition dg (t : table) (k : dropkind) (addr : N) (n : N) (d : dest) : option dest :=
  fst (fst (drop_dest (t_flags t) k addr n d)).

(* (remaining entries, removed entries) of one destination *)
Definition dpart (t : table) (k : dropkind) (addr : N) (nd : N * dest) : list entry * list entry :=
  (match dg t k addr (fst nd) (snd nd) with Some d' => d_entries d' | None => [] end,
   snd (drop_dest (t_flags t) k addr (fst nd) (snd nd))).

Lemma drop_op_stats t k addr ctr :
  let res := fold_left (drop_account addr) (map (dpart t k addr) (t_dests t))
                       (fst (stats_of t addr), snd (stats_of t addr), false) in
  t_stats (fst (drop_op t k addr ctr))
  = match k with
    | DKAll => aremove addr (t_stats t)
    | _ => match alookup addr (t_stats t) with
           | Some _ => aset addr (fst (fst res), snd (fst res)) (t_stats t)
           | None => t_stats t
           end
    end
  /\ t_bad (fst (drop_op t k addr ctr))
     = t_bad t || match k with
                  | DKAll => false
                  | _ => match alookup addr (t_stats t) with Some _ => snd res | None => false end
                  end.
Proof.
  cbv zeta. unfold drop_op. cbv zeta. rewrite map_map. unfold dpart, dg. cbn [fst snd].
  destruct (stats_of t addr) as [rcv acc]. cbn [fst snd].
  destruct (fold_left _ _ _) as [[rcv' acc'] bad']. cbn [fst snd t_stats t_bad].
  split; reflexivity.
Qed.

Lemma drop_sel_from fl k addr e : drop_sel fl k addr e = true -> from_addr addr e = true.
Proof. unfold drop_sel. intro H. apply andb_true_iff in H. tauto. Qed.

Lemma dpart_cases t k addr n d :
  let sel := drop_sel (t_flags t) k addr in
  let rest := filter (fun e => negb (sel e)) (d_entries d) in
  (existsb sel (d_entries d) = false /\ dg t k addr n d = Some d /\ dpart t k addr (n, d) = (d_entries d, []))
  \/ (existsb sel (d_entries d) = true
      /\ dpart t k addr (n, d) = (rest, filter sel (d_entries d))
      /\ forall g, g (with_entries d [] (d_next_pid d)) = 0 ->
                   gopt g (dg t k addr n d) = g (with_entries d rest (d_next_pid d))).
Proof.
  cbv zeta. unfold dpart, dg. cbn [fst snd].
  destruct (drop_dest_cases (t_flags t) k addr n d) as [[Hex E]|(Hex & E1 & E2 & _)]; cbv zeta in *.
  - left. rewrite E. cbn [fst snd]. split; [exact Hex|]. split; reflexivity.
  - right. split; [exact Hex|]. rewrite E1, E2.
    destruct (filter (fun e => negb (drop_sel (t_flags t) k addr e)) (d_entries d)) as [|y ys] eqn:Er.
    + split; [reflexivity|]. intros g Hg. cbn [gopt]. symmetry. exact Hg.
    + split; [reflexivity|]. intros g _. reflexivity.
Qed.

Lemma unf_fold (gone : list entry) (r0 acc : N) :
  N.of_nat (length (filter (fun e => negb (e_filtered e)) gone)) <= acc ->
  fold_left (fun '((r0, a, b) : N * N * bool) (e : entry) => if e_filtered e then (r0, a, b)
                                  else let '(a', b') := dec_stat a in (r0, a', b || b'))
            gone (r0, acc, false)
  = (r0, acc - N.of_nat (length (filter (fun e => negb (e_filtered e)) gone)), false).
Proof.
  revert acc. induction gone as [|e r IH]; intros acc Hle.
  - cbn. f_equal. f_equal. lia.
  - cbn [fold_left filter] in Hle |- *. destruct (e_filtered e) eqn:Fe; cbn [negb] in Hle |- *.
    + apply IH, Hle.
    + cbn [length] in Hle |- *. rewrite dec_stat_pos by lia. cbn [orb]. rewrite IH by lia.
      f_equal. f_equal. lia.
Qed.

Lemma hal_all_from a l :
  (forall e, In e l -> from_addr a e = true) ->
  hal a l = N.of_nat (length (filter (fun e => negb (e_filtered e)) l)).
Proof.
  intro H. unfold hal. f_equal. f_equal. induction l as [|e r IH]; cbn; [reflexivity|].
  unfold unf at 1. rewrite (H e (or_introl eq_refl)). cbn [andb].
  rewrite IH by (intros x Hx; apply H; right; exact Hx). reflexivity.
Qed.

Lemma drop_account_sel addr x y rest gone :
  gone <> [] -> 1 <= x -> N.of_nat (length (filter (fun e => negb (e_filtered e)) gone)) <= y ->
  drop_account addr (x, y, false) (rest, gone)
  = (if existsb (from_addr addr) rest then x else x - 1,
     y - N.of_nat (length (filter (fun e => negb (e_filtered e)) gone)), false).
Proof.
  intros Hne Hx Hy. unfold drop_account. destruct gone as [|g0 gs]; [contradiction|].
  destruct (existsb (from_addr addr) rest).
  - cbn [orb]. apply unf_fold, Hy.
  - rewrite dec_stat_pos by exact Hx. cbn [orb]. apply unf_fold, Hy.
Qed.

Lemma hrl_filter_le a q l : hrl a (filter q l) <= hrl a l.
Proof.
  unfold hrl. destruct (existsb (from_addr a) (filter q l)) eqn:E; [|destruct (existsb _ l); lia].
  apply existsb_exists in E as (x & Hx & Fx). apply filter_In in Hx as [Hx _].
  assert (H : existsb (from_addr a) l = true) by (apply existsb_exists; exists x; split; assumption).
  rewrite H. lia.
Qed.

Lemma hal_filter_le a q l : hal a (filter q l) <= hal a l.
Proof. rewrite (hal_split a q l). lia. Qed.

Section Drop.
Variables (t : table) (k : dropkind) (addr : N).
Let sel := drop_sel (t_flags t) k addr.

Lemma drop_fold ds p q :
  fold_left (drop_account addr) (map (dpart t k addr) ds) (sumd (hr addr) ds + p, sumd (ha addr) ds + q, false)
  = (sumN (fun nd => gopt (hr addr) (dg t k addr (fst nd) (snd nd))) ds + p,
     sumN (fun nd => gopt (ha addr) (dg t k addr (fst nd) (snd nd))) ds + q, false).
Proof.
  revert p q. induction ds as [|[n d] r IH]; intros p q; cbn [map fold_left]; [reflexivity|].
  unfold sumd. cbn [sumN fst snd]. fold (sumd (hr addr) r) (sumd (ha addr) r).
  destruct (dpart_cases t k addr n d) as [(Hex & Eg & Ep)|(Hex & Ep & Eg)]; cbv zeta in *; rewrite Ep.
  - rewrite Eg. cbn [gopt]. unfold drop_account at 2.
    replace (hr addr d + sumd (hr addr) r + p) with (sumd (hr addr) r + (hr addr d + p)) by lia.
    replace (ha addr d + sumd (ha addr) r + q) with (sumd (ha addr) r + (ha addr d + q)) by lia.
    rewrite IH. apply f_equal2; [apply f_equal2|reflexivity]; lia.
  - fold sel in Hex, Ep, Eg |- *. set (rest := filter (fun e => negb (sel e)) (d_entries d)) in *.
    set (gone := filter sel (d_entries d)) in *.
    assert (Hgone : forall e, In e gone -> from_addr addr e = true).
    { intros e He. apply filter_In in He as [_ He]. apply (drop_sel_from _ _ _ _ He). }
    assert (Hne : gone <> []).
    { apply existsb_exists in Hex as (x & Hx & Sx). intro E.
      assert (In x gone) by (apply filter_In; split; assumption). rewrite E in H. destruct H. }
    assert (Hr1 : hr addr d = 1).
    { apply existsb_exists in Hex as (x & Hx & Sx). apply (hrl_one_in addr _ x Hx). apply (drop_sel_from _ _ _ _ Sx). }
    assert (Ha1 : ha addr d = N.of_nat (length (filter (fun e => negb (e_filtered e)) gone)) + hal addr rest).
    { unfold ha. rewrite (hal_split addr sel (d_entries d)). fold gone rest. rewrite (hal_all_from addr gone Hgone). reflexivity. }
    rewrite drop_account_sel; [|exact Hne|lia|lia].
    rewrite (Eg (hr addr) eq_refl), (Eg (ha addr) eq_refl).
    change (hr addr (with_entries d rest (d_next_pid d))) with (hrl addr rest).
    change (ha addr (with_entries d rest (d_next_pid d))) with (hal addr rest).
    match goal with |- fold_left _ _ (?x, ?y, false) = _ =>
      replace x with (sumd (hr addr) r + (hrl addr rest + p));
      [replace y with (sumd (ha addr) r + (hal addr rest + q)) by lia|]
    end.
    + rewrite IH. apply f_equal2; [apply f_equal2|reflexivity]; lia.
    + unfold hrl at 1. destruct (existsb (from_addr addr) rest); lia.
Qed.

Lemma dg_other x n d : x <> addr -> gopt (hr x) (dg t k addr n d) = hr x d /\ gopt (ha x) (dg t k addr n d) = ha x d.
Proof.
  intro Hne. destruct (dpart_cases t k addr n d) as [(_ & Eg & _)|(_ & _ & Eg)]; cbv zeta in *.
  - rewrite Eg. split; reflexivity.
  - rewrite (Eg (hr x) eq_refl), (Eg (ha x) eq_refl). unfold hr, ha. cbn [d_entries with_entries].
    assert (Ho : forall e, In e (d_entries d) -> negb (drop_sel (t_flags t) k addr e) = false -> from_addr x e = false).
    { intros e _ He. apply negb_false_iff in He. apply (from_addr_other x addr e Hne (drop_sel_from _ _ _ _ He)). }
    split; [apply hrl_filter_other, Ho|apply hal_filter_other, Ho].
Qed.

Lemma dg_le x n d : gopt (hr x) (dg t k addr n d) <= hr x d /\ gopt (ha x) (dg t k addr n d) <= ha x d.
Proof.
  destruct (dpart_cases t k addr n d) as [(_ & Eg & _)|(_ & _ & Eg)]; cbv zeta in *.
  - rewrite Eg. cbn [gopt]. split; lia.
  - rewrite (Eg (hr x) eq_refl), (Eg (ha x) eq_refl). unfold hr, ha. cbn [d_entries with_entries].
    split; [apply hrl_filter_le|apply hal_filter_le].
Qed.

Lemma sumN_le {A} (g h : A -> N) l : (forall x, In x l -> g x <= h x) -> sumN g l <= sumN h l.
Proof.
  induction l as [|a r IH]; cbn; intro H; [lia|].
  specialize (H a (or_introl eq_refl)) as Ha. assert (sumN g r <= sumN h r) by (apply IH; intros x Hx; apply H; right; exact Hx). lia.
Qed.

End Drop.

Lemma invS_drop t k addr ctr : invS t -> invS (fst (drop_op t k addr ctr)).
Proof.
  intros [Hst Hbad]. destruct (drop_op_dests t k addr ctr) as [Ed _].
  destruct (drop_op_stats t k addr ctr) as [Es Eb]. cbv zeta in Es, Eb.
  set (t' := fst (drop_op t k addr ctr)) in *.
  assert (Ecr : forall x, cr x t' = sumN (fun nd => gopt (hr x) (dg t k addr (fst nd) (snd nd))) (t_dests t)).
  { intro x. unfold cr. rewrite Ed. apply sumd_fm. }
  assert (Eca : forall x, ca x t' = sumN (fun nd => gopt (ha x) (dg t k addr (fst nd) (snd nd))) (t_dests t)).
  { intro x. unfold ca. rewrite Ed. apply sumd_fm. }
  assert (Hother : forall x, x <> addr -> cr x t' = cr x t /\ ca x t' = ca x t).
  { intros x Hne. rewrite Ecr, Eca. unfold cr, ca, sumd.
    split; apply sumN_ext; intros [n d] _; cbn [fst snd]; apply (dg_other t k addr x n d Hne). }
  (* the fold computes the recount of what is left *)
  pose proof (drop_fold t k addr (t_dests t) 0 0) as Hfold. rewrite !N.add_0_r in Hfold.
  fold (cr addr t) (ca addr t) in Hfold. rewrite <- Ecr, <- Eca in Hfold.
  rewrite (Hst addr) in Es, Eb. cbn [fst snd] in Es, Eb. rewrite Hfold in Es, Eb. cbn [fst snd] in Es, Eb.
  assert (Hle : cr addr t' <= cr addr t /\ ca addr t' <= ca addr t).
  { rewrite Ecr, Eca. unfold cr, ca, sumd. split; apply sumN_le; intros [n d] _; cbn [fst snd]; apply dg_le. }
  assert (Hkeep : forall x, x <> addr -> stats_of t' x = (cr x t', ca x t') ->  True) by (intros; exact Logic.I).
  clear Hkeep.
  assert (Hgen : (match k with DKAll => False | _ => True end) -> invS t').
  { intro Hk. destruct (alookup addr (t_stats t)) as [s0|] eqn:Hlk.
    - apply (invS_update t t' addr (cr addr t') (ca addr t')); [| | exact Hother|reflexivity|reflexivity|split; assumption].
      + destruct k; [contradiction| | |]; exact Es.
      + rewrite Eb, Hbad. destruct k; reflexivity.
    - assert (Hz : stats_of t addr = (0, 0)) by (unfold stats_of; rewrite Hlk; reflexivity).
      rewrite (Hst addr) in Hz. injection Hz as Hz1 Hz2.
      assert (Es' : t_stats t' = t_stats t) by (destruct k; [contradiction| | |]; exact Es).
      split.
      + intro x. unfold stats_of. rewrite Es'. fold (stats_of t x). rewrite (Hst x).
        destruct (N.eq_dec x addr) as [->|Hne]; [f_equal; lia|]. destruct (Hother x Hne) as [-> ->]. reflexivity.
      + rewrite Eb, Hbad. destruct k; reflexivity. }
  destruct k; try (apply Hgen; exact Logic.I).
  (* Table::drop: the peer's statistics are forgotten and all its paths go *)
  split; [|rewrite Eb, Hbad; reflexivity].
  intro x. unfold stats_of. rewrite Es, alookup_aremove. destruct (x =? addr) eqn:Ex.
  - apply N.eqb_eq in Ex. subst x. rewrite Ecr, Eca.
    assert (Hz : forall n d, gopt (hr addr) (dg t DKAll addr n d) = 0 /\ gopt (ha addr) (dg t DKAll addr n d) = 0).
    { intros n d. destruct (dpart_cases t DKAll addr n d) as [(Hex & Eg & _)|(_ & _ & Eg)]; cbv zeta in *.
      - rewrite Eg. cbn [gopt]. unfold drop_sel in Hex.
        assert (Hex' : existsb (from_addr addr) (d_entries d) = false).
        { rewrite <- Hex. clear. induction (d_entries d) as [|e r IH]; cbn; [reflexivity|]. rewrite IH, andb_true_r. reflexivity. }
        assert (H0 : hr addr d = 0) by (unfold hr, hrl; rewrite Hex'; reflexivity).
        split; [exact H0|apply hrl_zero_hal, H0].
      - rewrite (Eg (hr addr) eq_refl), (Eg (ha addr) eq_refl). unfold hr, ha. cbn [d_entries with_entries].
        assert (H0 : hrl addr (filter (fun e => negb (drop_sel (t_flags t) DKAll addr e)) (d_entries d)) = 0).
        { unfold hrl. destruct (existsb _ _) eqn:E; [|reflexivity]. exfalso.
          apply existsb_exists in E as (x & Hx & Fx). apply filter_In in Hx as [_ Hx].
          unfold drop_sel in Hx. rewrite Fx in Hx. discriminate. }
        split; [exact H0|apply hrl_zero_hal, H0]. }
    f_equal.
    + symmetry. transitivity (sumN (fun _ : N * dest => 0) (t_dests t)).
      * apply sumN_ext. intros [n d] _. apply Hz.
      * clear. induction (t_dests t) as [|a r IH]; cbn; [reflexivity|]. rewrite IH. reflexivity.
    + symmetry. transitivity (sumN (fun _ : N * dest => 0) (t_dests t)).
      * apply sumN_ext. intros [n d] _. apply Hz.
      * clear. induction (t_dests t) as [|a r IH]; cbn; [reflexivity|]. rewrite IH. reflexivity.
  - apply N.eqb_neq in Ex. fold (stats_of t x). rewrite (Hst x). destruct (Hother x Ex) as [-> ->]. reflexivity.
Qed.

(* ------------------------------------- stale marking, next-hop validity *)

Lemma sumd_mp_same g h ds :
  (forall n d, g (h n d) = g d) -> sumd g (mp h ds) = sumd g ds.
Proof.
  intro H. rewrite sumd_mp. unfold sumd. apply sumN_ext. intros [n d] _. cbn [fst snd]. apply H.
Qed.

Lemma invS_same_counts t t' :
  t_stats t' = t_stats t -> t_bad t' = t_bad t ->
  (forall x, cr x t' = cr x t /\ ca x t' = ca x t) -> invS t -> invS t'.
Proof.
  intros Es Eb Hc [Hst Hbad]. split; [|congruence].
  intro x. unfold stats_of. rewrite Es. fold (stats_of t x). rewrite (Hst x). destruct (Hc x) as [-> ->]. reflexivity.
Qed.

Lemma invS_restale t llgr addr : invS t -> invS (fst (restale_op t llgr addr)).
Proof.
  destruct (restale_op_dests t llgr addr) as [Ed _]. cbv zeta in Ed.
  apply invS_same_counts; [reflexivity|reflexivity|].
  intro x. unfold cr, ca. rewrite Ed.
  split; apply sumd_mp_same; intros n d; destruct (restale_dest_entries (restale_flags llgr addr (t_dests t) (t_flags t)) llgr addr n d) as [_ Hp].
  - unfold hr. symmetry. apply hrl_perm, Hp.
  - unfold ha. symmetry. apply hal_perm, Hp.
Qed.

Lemma nhv_dest_counts nh r n d x :
  hr x (fst (nhv_dest nh r n d)) = hr x d /\ ha x (fst (nhv_dest nh r n d)) = ha x d.
Proof.
  destruct (nhv_dest_cases nh r n d) as [[_ E]|[_ E]]; cbv zeta in E; rewrite E; cbn [fst]; [split; reflexivity|].
  unfold hr, ha, hrl, hal. cbn [d_entries with_entries]. clear E.
  assert (Hf : forall e, from_addr x (nhv_e nh r e) = from_addr x e).
  { intro e. unfold from_addr. destruct (nhv_e_same nh r e) as (_ & _ & -> & _). reflexivity. }
  assert (Hu : forall e, unf x (nhv_e nh r e) = unf x e).
  { intro e. unfold unf. rewrite Hf. destruct (nhv_e_same nh r e) as (_ & _ & _ & _ & _ & ->). reflexivity. }
  assert (E1 : existsb (from_addr x) (map (nhv_e nh r) (d_entries d)) = existsb (from_addr x) (d_entries d)).
  { generalize (d_entries d). intro l0. induction l0 as [|e l IH]; cbn; [reflexivity|]. rewrite Hf, IH. reflexivity. }
  assert (E2 : length (filter (unf x) (map (nhv_e nh r) (d_entries d))) = length (filter (unf x) (d_entries d))).
  { generalize (d_entries d). intro l0. induction l0 as [|e l IH]; cbn; [reflexivity|]. rewrite Hu.
    destruct (unf x e); cbn; rewrite IH; reflexivity. }
  rewrite E1, E2. split; reflexivity.
Qed.

Lemma invS_nhv t nh r : invS t -> invS (fst (nhv_op t nh r)).
Proof.
  destruct (nhv_op_dests t nh r) as [Ed _].
  apply invS_same_counts; [reflexivity|reflexivity|].
  intro x. unfold cr, ca. rewrite Ed. split; apply sumd_mp_same; intros n d; apply nhv_dest_counts.
Qed.

Lemma invS_set_deferring t b : invS t -> invS (set_deferring t b).
Proof. intros [H1 H2]. split; assumption. Qed.

Lemma invS_step t o : invE t -> invS t -> invS (fst (fst (step t o))).
Proof.
  intros He Hi. destruct o as [s net rpid nh a filt nhinv lim|s net rpid ctr|k addr ctr|llgr addr|nh r| |];
    cbn [step].
  - pose proof (invS_insert t s net rpid nh a filt nhinv lim He Hi) as H.
    destruct (insert t s net rpid nh a filt nhinv lim) as [t' [| |c]]; exact H.
  - pose proof (invS_remove t s net rpid ctr He Hi) as H.
    destruct (remove t s net rpid ctr) as [t' [c|]]; exact H.
  - pose proof (invS_drop t k addr ctr Hi) as H. destruct (drop_op t k addr ctr) as [t' cs]. exact H.
  - pose proof (invS_restale t llgr addr Hi) as H. destruct (restale_op t llgr addr) as [t' cs]. exact H.
  - pose proof (invS_nhv t nh r Hi) as H. destruct (nhv_op t nh r) as [t' cs]. exact H.
  - apply invS_set_deferring, Hi.
  - apply invS_set_deferring, Hi.
Qed.

Lemma invS_run t ops : invE t -> invS t -> invS (run t ops).
Proof.
  revert t. induction ops as [|o r IH]; intros t He Hi; cbn; [exact Hi|].
  apply IH; [apply invE_step, He|apply invS_step; assumption].
Qed.

(* ----------------------------------------------------------- final statements *)

Lemma C15_stats_eq_recount :
  forall shard ops a,
    let t := run (empty_table shard) ops in
    match alookup a (t_stats t) with
    | Some (r, c) => r = recv_recount t a /\ c = acc_recount t a
    | None => recv_recount t a = 0 /\ acc_recount t a = 0
    end.
Proof.
  intros shard ops a t.
  destruct (invS_run _ ops (invE_empty shard) (invS_empty shard)) as [Hst _]. fold t in Hst.
  specialize (Hst a). unfold stats_of in Hst. rewrite recv_recount_cr, acc_recount_ca.
  destruct (alookup a (t_stats t)) as [[r c]|]; injection Hst as <- <-; split; reflexivity.
Qed.

Lemma C15_no_counter_underflow :
  forall shard ops, t_bad (run (empty_table shard) ops) = false.
Proof.
  intros shard ops. destruct (invS_run _ ops (invE_empty shard) (invS_empty shard)) as [_ H]. exact H.
Qed.

(* Table::state recounts the RIB: destinations, paths, accepted paths; the only
   thing to prove is that no empty destination inflates the first number *)
Lemma C15_table_totals_eq_recount :
  forall shard ops,
    let t := run (empty_table shard) ops in
    N.of_nat (length (t_dests t)) = N.of_nat (length (filter (fun nd => negb (match d_entries (snd nd) with [] => true | _ => false end)) (t_dests t))).
Proof.
  intros shard ops t. f_equal. f_equal.
  assert (H : forall net d, In (net, d) (t_dests t) -> d_entries d <> []) by (intros net d; apply C15_no_empty_destination).
  induction (t_dests t) as [|[n d] r IH]; cbn [filter snd]; [reflexivity|].
  pose proof (H n d (or_introl eq_refl)) as Hd. destruct (d_entries d); [contradiction|]. cbn [negb].
  f_equal. apply IH. intros net d0 Hin. apply (H net d0). right. exact Hin.
Qed.

(* ================================================ the per-session counter *)

(* corpus/C15/known-session-counter.json *)
Definition kf_attr : attrs :=
  {| a_tok := 100; a_lp := None; a_segs := Some [(2, 1)]; a_origin := Some 0; a_clen := None;
     a_oid := None; a_llgr := false; a_nollgr := false; a_mm := None; a_orig := 100 |}.
Definition kf_ops : list op :=
  [ Insert (ex_src 1 1 9 0) 1 0 (Some 1) kf_attr false false (Some (5, 1));
    Restale false 1;
    Insert (ex_src 11 1 9 0) 1 0 (Some 1) kf_attr false false (Some (5, 11));
    Remove (ex_src 11 1 9 0) 1 0 (Some 11) ].
Definition kf_f (tok : N) : N := if tok =? 11 then 1 else tok.

(* the faithful model of the unrepaired code: after a graceful-restart
   reconnect the new session's counter wraps below zero, and the next new
   prefix is rejected although the session holds no prefix at all *)
Lemma C15_limit_counter_refuted :
  exists shard ops f mx c,
    Forall (op_wf f) ops /\ Forall (ctr_disciplined f mx) ops /\ mx c < 4294967296
    /\ session_alive (f c) c false ops = true
    /\ Known_C15_session_touch c shard ops
    /\ ctr_of (run (empty_table shard) ops) c = 18446744073709551615
    /\ sess_recount (run (empty_table shard) ops) c = 0
    /\ snd (step (run (empty_table shard) ops)
                 (Insert (ex_src 11 1 9 0) 2 0 (Some 1) kf_attr false false (Some (mx c, c)))) = true.
Proof.
  exists 0, kf_ops, kf_f, (fun _ => 5), 11. repeat split.
  - repeat constructor.
  - repeat constructor.
Qed.
