(* C03, BGP part: the NLRI decoders never panic and each decoded NLRI takes at
   least one byte, so decode_nlri_list terminates within its fuel.  The
   decoders of the families that are not modelled enter through
   [other_nlri]; the contract assumed of them is [other_consumes]. *)
From Coq Require Import List NArith ZArith Bool Lia ZifyBool ZifyNat ZifyN.
From RB Require Import Base.Val Base.Bytes Model.Caps Model.Wire Model.WireNlri Proofs.Wire.
Import ListNotations.
Open Scope N_scope.

Ltac Zify.zify_post_hook ::= Z.to_euclidean_division_equations.

Ltac rm_step H :=
  apply bind_ok in H; destruct H as ([? ?] & H0 & H); unfold rm in H0; apply req_ok in H0.

Lemma prefix_decode_spec maxbits ab c n :
  nopanic (prefix_decode maxbits ab c n) /\
  forall m a c', prefix_decode maxbits ab c n = Ok (m, a, c') -> len c' < len c.
Proof.
  unfold prefix_decode. split.
  - apply np_bind; [apply np_req|]. intros [bits c1] _.
    destruct (_ || _); [exact I|]. apply np_bind; [apply np_req|]. intros [? ?] _. exact I.
  - intros m a c' H. rm_step H. rename H0 into G1. apply get8_some in G1.
    destruct (_ || _); [discriminate|]. rm_step H. apply take_some in H0. injection H as _ _ <-. lia.
Qed.

Lemma label_stack_spec : forall fuel c acc, (length c < fuel)%nat ->
  nopanic (label_stack fuel c acc) /\
  forall ls c', label_stack fuel c acc = Ok (ls, c') -> len c' + 3 <= len c.
Proof.
  induction fuel as [|f IH]; intros c acc Hf; [lia|].
  cbn [label_stack].
  destruct c as [|a [|b [|d r]]]; try (split; [exact I|discriminate]).
  destruct (N.testbit d 0).
  - split; [exact I|]. intros ls c' H. injection H as _ <-. rewrite !len_cons. lia.
  - cbn [length] in Hf. destruct (IH r (be24 a b d / 16 :: acc) ltac:(lia)) as [Np Hr].
    split; [exact Np|]. intros ls c' H. apply Hr in H. rewrite !len_cons. lia.
Qed.

Lemma labeled_tail_spec maxbits ab total lb c :
  nopanic (labeled_tail maxbits ab total lb c) /\
  forall m a c', labeled_tail maxbits ab total lb c = Ok (m, a, c') -> len c' <= len c.
Proof.
  unfold labeled_tail. split.
  - destruct (total <? lb); [exact I|]. destruct (maxbits <? _); [exact I|].
    apply np_bind; [apply np_req|]. intros [? ?] _. exact I.
  - intros m a c' H. destruct (total <? lb); [discriminate|]. destruct (maxbits <? _); [discriminate|].
    rm_step H. apply take_some in H0. injection H as _ _ <-. lia.
Qed.

Lemma labeled_decode_spec maxbits ab is_reach c n :
  nopanic (labeled_decode maxbits ab is_reach c n) /\
  forall ls m a c', labeled_decode maxbits ab is_reach c n = Ok (ls, m, a, c') -> len c' < len c.
Proof.
  unfold labeled_decode.
  destruct (n <? 4); [split; [exact I|discriminate]|].
  destruct (get8 c) as [[total c1]|] eqn:G1; cbn [rm req bind]; [|split; [exact I|discriminate]].
  apply get8_some in G1.
  destruct (total <? 24); [split; [exact I|discriminate]|].
  destruct is_reach.
  - destruct (label_stack_spec (S (length c1)) c1 [] ltac:(lia)) as [Np Hr].
    destruct (label_stack (S (length c1)) c1 []) as [[ls c2]| |] eqn:El; cbn [bind];
      [|split; [exact I|discriminate]|destruct Np].
    specialize (Hr _ _ eq_refl).
    destruct (labeled_tail_spec maxbits ab total (24 * len ls) c2) as [Np2 Hr2].
    destruct (labeled_tail maxbits ab total (24 * len ls) c2) as [[[m a] c3]| |] eqn:Et; cbn [bind];
      [|split; [exact I|discriminate]|destruct Np2].
    specialize (Hr2 _ _ _ eq_refl).
    split; [exact I|]. intros ? ? ? ? H. injection H as _ _ _ <-. lia.
  - destruct (take 3 c1) as [[x c2]|] eqn:Et3; cbn [rm req bind]; [|split; [exact I|discriminate]].
    apply take_some in Et3.
    destruct (labeled_tail_spec maxbits ab total 24 c2) as [Np2 Hr2].
    destruct (labeled_tail maxbits ab total 24 c2) as [[[m a] c3]| |] eqn:Et; cbn [bind];
      [|split; [exact I|discriminate]|destruct Np2].
    specialize (Hr2 _ _ _ eq_refl).
    split; [exact I|]. intros ? ? ? ? H. injection H as _ _ _ <-. lia.
Qed.

Lemma vpn_decode_spec maxbits ab c n :
  nopanic (vpn_decode maxbits ab c n) /\
  forall ls rd m a c', vpn_decode maxbits ab c n = Ok (ls, rd, m, a, c') -> len c' < len c.
Proof.
  unfold vpn_decode.
  destruct (n <? 12); [split; [exact I|discriminate]|].
  destruct (get8 c) as [[total c1]|] eqn:G1; cbn [rm req bind]; [|split; [exact I|discriminate]].
  apply get8_some in G1.
  destruct (total <? 88); [split; [exact I|discriminate]|].
  destruct (label_stack_spec (S (length c1)) c1 [] ltac:(lia)) as [Np Hr].
  destruct (label_stack (S (length c1)) c1 []) as [[ls c2]| |] eqn:El; cbn [bind];
    [|split; [exact I|discriminate]|destruct Np].
  specialize (Hr _ _ eq_refl).
  destruct (total <? 24 * len ls + 64); [split; [exact I|discriminate]|].
  destruct (maxbits <? _); [split; [exact I|discriminate]|].
  destruct (take 8 c2) as [[rd c3]|] eqn:Et; cbn [rm req bind]; [|split; [exact I|discriminate]].
  apply take_some in Et. destruct Et as (L3 & Lrd & _ & _).
  destruct rd as [|t1 [|t2 rd]]; try (cbn [length] in Lrd; lia).
  destruct (2 <? be16 t1 t2); [split; [exact I|discriminate]|].
  destruct (take _ c3) as [[a c4]|] eqn:Et2; cbn [rm req bind]; [|split; [exact I|discriminate]].
  apply take_some in Et2.
  split; [exact I|]. intros ? ? ? ? ? H. injection H as _ _ _ _ <-. lia.
Qed.

Section NlriFacts.
  Variable other_nlri : N -> bool -> list N -> option (list N).
  (* contract of the decoders that are not modelled: a decoded NLRI takes at
     least one byte (they cannot panic by construction: the result is an option) *)
  Hypothesis other_consumes : forall f r c c', other_nlri f r c = Some c' -> len c' < len c.

  Lemma nlri_decode_spec fam is_reach c n :
    nopanic (nlri_decode other_nlri fam is_reach c n) /\
    forall x c', nlri_decode other_nlri fam is_reach c n = Ok (x, c') -> len c' < len c.
  Proof.
    unfold nlri_decode.
    destruct (_ || _).
    { destruct (prefix_decode_spec 32 4%nat c n) as [Np Hr].
      destruct (prefix_decode 32 4 c n) as [[[m a] c1]| |]; cbn [bind]; [|split; [exact I|discriminate]|destruct Np].
      split; [exact I|]. intros ? ? H. injection H as _ <-. eapply Hr; reflexivity. }
    destruct (_ || _).
    { destruct (prefix_decode_spec 128 16%nat c n) as [Np Hr].
      destruct (prefix_decode 128 16 c n) as [[[m a] c1]| |]; cbn [bind]; [|split; [exact I|discriminate]|destruct Np].
      split; [exact I|]. intros ? ? H. injection H as _ <-. eapply Hr; reflexivity. }
    destruct (fam =? F_IPV4_VPN).
    { destruct (vpn_decode_spec 32 4%nat c n) as [Np Hr].
      destruct (vpn_decode 32 4 c n) as [[[[[ls rd] m] a] c1]| |]; cbn [bind]; [|split; [exact I|discriminate]|destruct Np].
      split; [exact I|]. intros ? ? H. injection H as _ <-. eapply Hr; reflexivity. }
    destruct (fam =? F_IPV6_VPN).
    { destruct (vpn_decode_spec 128 16%nat c n) as [Np Hr].
      destruct (vpn_decode 128 16 c n) as [[[[[ls rd] m] a] c1]| |]; cbn [bind]; [|split; [exact I|discriminate]|destruct Np].
      split; [exact I|]. intros ? ? H. injection H as _ <-. eapply Hr; reflexivity. }
    destruct (fam =? F_IPV4_MPLS).
    { destruct (labeled_decode_spec 32 4%nat is_reach c n) as [Np Hr].
      destruct (labeled_decode 32 4 is_reach c n) as [[[[ls m] a] c1]| |]; cbn [bind]; [|split; [exact I|discriminate]|destruct Np].
      split; [exact I|]. intros ? ? H. injection H as _ <-. eapply Hr; reflexivity. }
    destruct (fam =? F_IPV6_MPLS).
    { destruct (labeled_decode_spec 128 16%nat is_reach c n) as [Np Hr].
      destruct (labeled_decode 128 16 is_reach c n) as [[[[ls m] a] c1]| |]; cbn [bind]; [|split; [exact I|discriminate]|destruct Np].
      split; [exact I|]. intros ? ? H. injection H as _ <-. eapply Hr; reflexivity. }
    destruct (is_other_family fam); [|split; [exact I|discriminate]].
    destruct (other_nlri fam is_reach c) as [c1|] eqn:Eo; [|split; [exact I|discriminate]].
    split; [exact I|]. intros ? ? H. injection H as _ <-. eapply other_consumes; eassumption.
  Qed.

  Lemma path_nlri_decode_spec fam ap is_reach c :
    nopanic (path_nlri_decode other_nlri fam ap is_reach c) /\
    forall id x c', path_nlri_decode other_nlri fam ap is_reach c = Ok (id, x, c') -> len c' < len c.
  Proof.
    unfold path_nlri_decode. destruct ap.
    - destruct (len c <? 4); [split; [exact I|discriminate]|].
      destruct (get32 c) as [[id c1]|] eqn:G; cbn [rm req bind]; [|split; [exact I|discriminate]].
      apply get32_some in G.
      destruct (nlri_decode_spec fam is_reach c1 (len c - 4)) as [Np Hr].
      destruct (nlri_decode other_nlri fam is_reach c1 (len c - 4)) as [[x c2]| |]; cbn [bind];
        [|split; [exact I|discriminate]|destruct Np].
      specialize (Hr _ _ eq_refl).
      split; [exact I|]. intros ? ? ? H. injection H as _ _ <-. lia.
    - destruct (nlri_decode_spec fam is_reach c (len c)) as [Np Hr].
      destruct (nlri_decode other_nlri fam is_reach c (len c)) as [[x c2]| |]; cbn [bind];
        [|split; [exact I|discriminate]|destruct Np].
      specialize (Hr _ _ eq_refl).
      split; [exact I|]. intros ? ? ? H. injection H as _ _ <-. lia.
  Qed.

  Lemma nlri_list_fuel_nopanic : forall fuel fam ap is_reach c acc,
    (length c < fuel)%nat -> nopanic (nlri_list_fuel other_nlri fuel fam ap is_reach c acc).
  Proof.
    induction fuel as [|f IH]; intros fam ap is_reach c acc Hf; [lia|].
    destruct c as [|b r]; [exact I|].
    cbn [nlri_list_fuel].
    destruct (path_nlri_decode_spec fam ap is_reach (b :: r)) as [Np Hr].
    destruct (path_nlri_decode other_nlri fam ap is_reach (b :: r)) as [[[id x] c1]| |]; cbn [bind];
      [|exact I|destruct Np].
    specialize (Hr _ _ _ eq_refl).
    apply IH. pose proof (len_length c1). pose proof (len_length (b :: r)). lia.
  Qed.

  Lemma nlri_list_nopanic fam ap is_reach c : nopanic (nlri_list other_nlri fam ap is_reach c).
  Proof. unfold nlri_list. apply nlri_list_fuel_nopanic. lia. Qed.
End NlriFacts.

(* ---- the arithmetic of the unrepaired label decoders (before ce1a895) *)
Lemma C03_vpn_label_bits_v0_refuted :
  exists total nlabels, 88 <= total /\ total < 256 /\ vpn_bits_ok_v0 Debug total nlabels = None.
Proof. exists 255, 8. repeat split; try lia. Qed.

Lemma C03_label_bits_v0_wraps : label_bits_v0 11 = 8 /\ 8 < 24 * 11.
Proof. split; [reflexivity|lia]. Qed.
