(* C03, BGP part: the NLRI decoders never panic and each decoded NLRI takes at
   least one byte, so decode_nlri_list terminates within its fuel.  The
   decoders of the families that are not modelled enter through
   [other_nlri]; the contract assumed of them is [other_consumes]. *)
From Coq Require Import List NArith ZArith Bool Lia ZifyBool ZifyNat ZifyN.
From RB Require Import Base.Val Base.Bytes Model.Caps Model.Wire Model.WireNlri Proofs.Wire.
Import ListNotations.
Open Scope N_scope.

Ltac Zify.zify_post_hook ::= Z.to_euclidean_division_equations.

Ltac rm_step H :=
  apply bind_ok in H; destruct H as ([? ?] & H0 & H); unfold rm in H0; apply req_ok in H0.

Lemma prefix_decode_spec maxbits ab c n :
  nopanic (prefix_decode maxbits ab c n) /\
  forall m a c', prefix_decode maxbits ab c n = Ok (m, a, c') -> len c' < len c.
Proof.
  unfold prefix_decode. split.
  - apply np_bind; [apply np_req|]. intros [bits c1] _.
    destruct (_ || _); [exact I|]. apply np_bind; [apply np_req|]. intros [? ?] _. exact I.
  - intros m a c' H. rm_step H. rename H0 into G1. apply get8_some in G1.
    destruct (_ || _); [discriminate|]. rm_step H. apply take_some in H0. injection H as _ _ <-. lia.
Qed.

Lemma label_stack_spec : forall fuel c acc, (length c < fuel)%nat ->
  nopanic (label_stack fuel c acc) /\
  forall ls c', label_stack fuel c acc = Ok (ls, c') -> len c' + 3 <= len c.
Proof.
  induction fuel as [|f IH]; intros c acc Hf; [lia|].
  cbn [label_stack].
  destruct c as [|a [|b [|d r]]]; try (split; [exact I|discriminate]).
  destruct (N.testbit d 0).
  - split; [exact I|]. intros ls c' H. injection H as _ <-. rewrite !len_cons. lia.
  - cbn [length] in Hf. destruct (IH r (be24 a b d / 16 :: acc) ltac:(lia)) as [Np Hr].
    split; [exact Np|]. intros ls c' H. apply Hr in H. rewrite !len_cons. lia.
Qed.

Lemma labeled_tail_spec maxbits ab total lb c :
  nopanic (labeled_tail maxbits ab total lb c) /\
  forall m a c', labeled_tail maxbits ab total lb c = Ok (m, a, c') -> len c' <= len c.
Proof.
  unfold labeled_tail. split.
  - destruct (total <? lb); [exact I|]. destruct (maxbits <? _); [exact I|].
    apply np_bind; [apply np_req|]. intros [? ?] _. exact I.
  - intros m a c' H. destruct (total <? lb); [discriminate|]. destruct (maxbits <? _); [discriminate|].
    rm_step H. apply take_some in H0. injection H as _ _ <-. lia.
Qed.

Lemma labeled_decode_spec maxbits ab is_reach c n :
  nopanic (labeled_decode maxbits ab is_reach c n) /\
  forall ls m a c', labeled_decode maxbits ab is_reach c n = Ok (ls, m, a, c') -> len c' < len c.
Proof.
  unfold labeled_decode.
  destruct (n <? 4); [split; [exact I|discriminate]|].
  destruct (get8 c) as [[total c1]|] eqn:G1; cbn [rm req bind]; [|split; [exact I|discriminate]].
  apply get8_some in G1.
  destruct (total <? 24); [split; [exact I|discriminate]|].
  destruct is_reach.
  - destruct (label_stack_spec (S (length c1)) c1 [] ltac:(lia)) as [Np Hr].
    destruct (label_stack (S (length c1)) c1 []) as [[ls c2]| |] eqn:El; cbn [bind];
      [|split; [exact I|discriminate]|destruct Np].
    specialize (Hr _ _ eq_refl).
    destruct (labeled_tail_spec maxbits ab total (24 * len ls) c2) as [Np2 Hr2].
    destruct (labeled_tail maxbits ab total (24 * len ls) c2) as [[[m a] c3]| |] eqn:Et; cbn [bind];
      [|split; [exact I|discriminate]|destruct Np2].
    specialize (Hr2 _ _ _ eq_refl).
    split; [exact I|]. intros ? ? ? ? H. injection H as _ _ _ <-. lia.
  - destruct (take 3 c1) as [[x c2]|] eqn:Et3; cbn [rm req bind]; [|split; [exact I|discriminate]].
    apply take_some in Et3.
    destruct (labeled_tail_spec maxbits ab total 24 c2) as [Np2 Hr2].
    destruct (labeled_tail maxbits ab total 24 c2) as [[[m a] c3]| |] eqn:Et; cbn [bind];
      [|split; [exact I|discriminate]|destruct Np2].
    specialize (Hr2 _ _ _ eq_refl).
    split; [exact I|]. intros ? ? ? ? H. injection H as _ _ _ <-. lia.
Qed.

Lemma vpn_decode_spec maxbits ab c n :
  nopanic (vpn_decode maxbits ab c n) /\
  forall ls rd m a c', vpn_decode maxbits ab c n = Ok (ls, rd, m, a, c') -> len c' < len c.
Proof.
  unfold vpn_decode.
  destruct (n <? 12); [split; [exact I|discriminate]|].
  destruct (get8 c) as [[total c1]|] eqn:G1; cbn [rm req bind]; [|split; [exact I|discriminate]].
  apply get8_some in G1.
  destruct (total <? 88); [split; [exact I|discriminate]|].
  destruct (label_stack_spec (S (length c1)) c1 [] ltac:(lia)) as [Np Hr].
  destruct (label_stack (S (length c1)) c1 []) as [[ls c2]| |] eqn:El; cbn [bind];
    [|split; [exact I|discriminate]|destruct Np].
  specialize (Hr _ _ eq_refl).
  destruct (total <? 24 * len ls + 64); [split; [exact I|discriminate]|].
  destruct (maxbits <? _); [split; [exact I|discriminate]|].
  destruct (take 8 c2) as [[rd c3]|] eqn:Et; cbn [rm req bind]; [|split; [exact I|discriminate]].
  apply take_some in Et. destruct Et as (L3 & Lrd & _ & _).
  destruct rd as [|t1 [|t2 rd]]; try (cbn [length] in Lrd; lia).
  destruct (2 <? be16 t1 t2); [split; [exact I|discriminate]|].
  destruct (take _ c3) as [[a c4]|] eqn:Et2; cbn [rm req bind]; [|split; [exact I|discriminate]].
  apply take_some in Et2.
  split; [exact I|]. intros ? ? ? ? ? H. injection H as _ _ _ _ <-. lia.
Qed.


(* ---- EVPN, RTC, SR policy, flowspec: no panic, and a decoded NLRI takes at least one byte *)
Lemma evpn_route_spec rt rl c :
  nopanic (evpn_route rt rl c) /\ forall d c', evpn_route rt rl c = Ok (d, c') -> len c' <= len c.
Proof.
  unfold evpn_route.
  destruct (N.eq_dec rt 1) as [->|N1].
  { destruct (negb (rl =? 25)); [split; [exact I|discriminate]|].
    destruct (take 25 c) as [[d c1]|] eqn:Et; cbn [rm req bind]; [|split; [exact I|discriminate]].
    apply take_some in Et. destruct (rd_ok d); split; try exact I; try discriminate.
    intros ? ? H. injection H as _ <-. lia. }
  destruct (N.eq_dec rt 2) as [->|N2].
  { destruct (rl <? 33); [split; [exact I|discriminate]|].
    destruct (take 22 c) as [[h c1]|] eqn:E1; cbn [rm req bind]; [|split; [exact I|discriminate]]. apply take_some in E1.
    destruct (negb (rd_ok h)); [split; [exact I|discriminate]|].
    destruct (get8 c1) as [[ml c2]|] eqn:E2; cbn [rm req bind]; [|split; [exact I|discriminate]]. apply get8_some in E2.
    destruct (negb (ml =? 48)); [split; [exact I|discriminate]|].
    destruct (take 6 c2) as [[mac c3]|] eqn:E3; cbn [rm req bind]; [|split; [exact I|discriminate]]. apply take_some in E3.
    destruct (get8 c3) as [[il c4]|] eqn:E4; cbn [rm req bind]; [|split; [exact I|discriminate]]. apply get8_some in E4.
    destruct (evpn_ip_octets true il) as [ipb|]; [|split; [exact I|discriminate]].
    destruct (take ipb c4) as [[ip c5]|] eqn:E5; cbn [rm req bind]; [|split; [exact I|discriminate]]. apply take_some in E5.
    destruct (take 3 c5) as [[l1 c6]|] eqn:E6; cbn [rm req bind]; [|split; [exact I|discriminate]]. apply take_some in E6.
    destruct (rl =? _).
    - destruct (take 3 c6) as [[l2 c7]|] eqn:E7; cbn [rm req bind]; [|split; [exact I|discriminate]]. apply take_some in E7.
      split; [exact I|]. intros ? ? H. injection H as _ <-. lia.
    - split; [exact I|]. intros ? ? H. injection H as _ <-. lia. }
  assert (H34 : forall hn allow, nopanic (
      '(h, c) <- rm (take hn c) ;;
      if negb (rd_ok h) then Fail MAL else
      '(il, c) <- rm (get8 c) ;;
      match evpn_ip_octets allow il with
      | None => Fail MAL
      | Some ipb => '(ip, c) <- rm (take ipb c) ;; Ok (h ++ [il] ++ ip, c)
      end) /\ forall d c', (
      '(h, c) <- rm (take hn c) ;;
      if negb (rd_ok h) then Fail MAL else
      '(il, c) <- rm (get8 c) ;;
      match evpn_ip_octets allow il with
      | None => Fail MAL
      | Some ipb => '(ip, c) <- rm (take ipb c) ;; Ok (h ++ [il] ++ ip, c)
      end) = Ok (d, c') -> len c' <= len c).
  { intros hn allow.
    destruct (take hn c) as [[h c1]|] eqn:E1; cbn [rm req bind]; [|split; [exact I|discriminate]]. apply take_some in E1.
    destruct (negb (rd_ok h)); [split; [exact I|discriminate]|].
    destruct (get8 c1) as [[il c2]|] eqn:E2; cbn [rm req bind]; [|split; [exact I|discriminate]]. apply get8_some in E2.
    destruct (evpn_ip_octets allow il) as [ipb|]; [|split; [exact I|discriminate]].
    destruct (take ipb c2) as [[ip c3]|] eqn:E3; cbn [rm req bind]; [|split; [exact I|discriminate]]. apply take_some in E3.
    split; [exact I|]. intros ? ? H. injection H as _ <-. lia. }
  destruct (N.eq_dec rt 3) as [->|N3]; [destruct (rl <? 17); [split; [exact I|discriminate]|apply H34]|].
  destruct (N.eq_dec rt 4) as [->|N4]; [destruct (rl <? 23); [split; [exact I|discriminate]|apply H34]|].
  destruct (N.eq_dec rt 5) as [->|N5].
  { destruct (_ || _) eqn:Erl; [|split; [exact I|discriminate]].
    destruct (take (nat_of rl) c) as [[d c1]|] eqn:Et; cbn [rm req bind]; [|split; [exact I|discriminate]].
    apply take_some in Et. destruct Et as (L1 & Ld & _ & _).
    destruct (nth_error d 22) as [pl|] eqn:En.
    - destruct (_ && _); split; try exact I; try discriminate. intros ? ? H. injection H as _ <-. lia.
    - exfalso. apply nth_error_None in En. unfold nat_of in Ld. lia. }
  destruct rt as [|q]; [split; [exact I|discriminate]|].
  do 3 (destruct q as [q|q|]; try (split; [exact I|discriminate]); try congruence).
Qed.

Lemma evpn_decode_spec c :
  nopanic (evpn_decode c) /\ forall e c', evpn_decode c = Ok (e, c') -> len c' < len c.
Proof.
  unfold evpn_decode.
  destruct (get8 c) as [[rt c1]|] eqn:E1; cbn [rm req bind]; [|split; [exact I|discriminate]]. apply get8_some in E1.
  destruct (get8 c1) as [[rl c2]|] eqn:E2; cbn [rm req bind]; [|split; [exact I|discriminate]]. apply get8_some in E2.
  destruct (evpn_route_spec rt rl c2) as [Np Hr].
  destruct (evpn_route rt rl c2) as [[d c3]| |]; cbn [bind]; [|split; [exact I|discriminate]|destruct Np].
  specialize (Hr _ _ eq_refl). split; [exact I|]. intros ? ? H. injection H as _ <-. lia.
Qed.

Lemma rtc_decode_spec c :
  nopanic (rtc_decode c) /\ forall e c', rtc_decode c = Ok (e, c') -> len c' < len c.
Proof.
  unfold rtc_decode.
  destruct (get8 c) as [[b c1]|] eqn:E1; cbn [rm req bind]; [|split; [exact I|discriminate]]. apply get8_some in E1.
  destruct (b =? 0). { split; [exact I|]. intros ? ? H. injection H as _ <-. lia. }
  destruct (b =? 32).
  { destruct (take 4 c1) as [[d c2]|] eqn:Et; cbn [rm req bind]; [|split; [exact I|discriminate]]. apply take_some in Et.
    split; [exact I|]. intros ? ? H. injection H as _ <-. lia. }
  destruct (b =? 96); [|split; [exact I|discriminate]].
  destruct (take 12 c1) as [[d c2]|] eqn:Et; cbn [rm req bind]; [|split; [exact I|discriminate]]. apply take_some in Et.
  split; [exact I|]. intros ? ? H. injection H as _ <-. lia.
Qed.

Lemma srp_decode_spec c :
  nopanic (srp_decode c) /\ forall e c', srp_decode c = Ok (e, c') -> len c' < len c.
Proof.
  unfold srp_decode.
  destruct (get8 c) as [[b c1]|] eqn:E1; cbn [rm req bind]; [|split; [exact I|discriminate]]. apply get8_some in E1.
  destruct (take 8 c1) as [[dc c2]|] eqn:E2; cbn [rm req bind]; [|split; [exact I|discriminate]]. apply take_some in E2.
  destruct (b =? 96).
  { destruct (take 4 c2) as [[d c3]|] eqn:Et; cbn [rm req bind]; [|split; [exact I|discriminate]]. apply take_some in Et.
    split; [exact I|]. intros ? ? H. injection H as _ <-. lia. }
  destruct (b =? 192); [|split; [exact I|discriminate]].
  destruct (take 16 c2) as [[d c3]|] eqn:Et; cbn [rm req bind]; [|split; [exact I|discriminate]]. apply take_some in Et.
  split; [exact I|]. intros ? ? H. injection H as _ <-. lia.
Qed.



(* ---- BGP-LS *)
Lemma ls_first_ok tag n v : (n <= length v)%nat -> ls_first tag n v = Ok (firstn n v).
Proof. intro H. unfold ls_first. destruct (Nat.ltb (length v) n) eqn:E; [apply PeanoNat.Nat.ltb_lt in E; lia|reflexivity]. Qed.

Lemma ls_node_fold_nopanic : forall tl nd, nopanic (ls_node_fold tl nd).
Proof.
  induction tl as [|[t v] r IH]; intro nd; cbn [ls_node_fold]; [exact I|].
  destruct (Nat.ltb (length v) 4) eqn:E; cbn [negb].
  - rewrite !andb_false_r. destruct (t =? 515); apply IH.
  - apply PeanoNat.Nat.ltb_ge in E. rewrite !andb_true_r, (ls_first_ok 60 4 v E). cbn [bind].
    repeat match goal with |- nopanic (if ?b then _ else _) => destruct b end; apply IH.
Qed.

Lemma ls_link_tlvs_nopanic : forall tl, nopanic (ls_link_tlvs tl).
Proof.
  induction tl as [|[t v] r IH]; cbn [ls_link_tlvs]; [exact I|].
  apply np_bind; [|intros x _; apply np_bind; [exact IH|intros; exact I]].
  destruct ((t =? 258) && negb (Nat.ltb (length v) 8)) eqn:E1.
  { apply andb_true_iff in E1. destruct E1 as [_ E1]. apply negb_true_iff, PeanoNat.Nat.ltb_ge in E1.
    rewrite (ls_first_ok 61 4 v) by lia. cbn [bind]. rewrite (ls_first_ok 61 4 (skipn 4 v)) by (rewrite skipn_length; lia). exact I. }
  destruct (((t =? 259) || (t =? 260)) && negb (Nat.ltb (length v) 4)) eqn:E2.
  { apply andb_true_iff in E2. destruct E2 as [_ E2]. apply negb_true_iff, PeanoNat.Nat.ltb_ge in E2.
    rewrite (ls_first_ok 62 4 v) by lia. exact I. }
  destruct (((t =? 261) || (t =? 262)) && negb (Nat.ltb (length v) 16)) eqn:E3.
  { apply andb_true_iff in E3. destruct E3 as [_ E3]. apply negb_true_iff, PeanoNat.Nat.ltb_ge in E3.
    rewrite (ls_first_ok 63 16 v) by lia. exact I. }
  destruct (t =? 263); exact I.
Qed.

Lemma ls_prefix_tlvs_nopanic : forall tl, nopanic (ls_prefix_tlvs tl).
Proof.
  induction tl as [|[t v] r IH]; cbn [ls_prefix_tlvs]; [exact I|].
  apply np_bind; [|intros x _; apply np_bind; [exact IH|intros; exact I]].
  destruct (t =? 263); [exact I|]. destruct v as [|v0 vr]; [exact I|].
  destruct (t =? 264); [exact I|]. destruct (t =? 265); [|exact I].
  destruct (Nat.ltb (nat_of (ceil8 v0)) (length (v0 :: vr))) eqn:E; [|exact I].
  apply PeanoNat.Nat.ltb_lt in E. cbn [length] in E.
  destruct (Nat.ltb (length vr) (nat_of (ceil8 v0))) eqn:E2; [apply PeanoNat.Nat.ltb_lt in E2; lia|exact I].
Qed.

Lemma ls_srv6_tlvs_nopanic : forall tl sids mts, nopanic (ls_srv6_tlvs tl sids mts).
Proof.
  induction tl as [|[t v] r IH]; intros sids mts; cbn [ls_srv6_tlvs]; [exact I|].
  destruct ((t =? 518) && negb (Nat.ltb (length v) 20)) eqn:E1.
  { apply andb_true_iff in E1. destruct E1 as [_ E1]. apply negb_true_iff, PeanoNat.Nat.ltb_ge in E1.
    rewrite (ls_first_ok 65 2 v) by lia. cbn [bind].
    rewrite (ls_first_ok 65 16 (skipn 4 v)) by (rewrite skipn_length; lia). cbn [bind]. apply IH. }
  destruct (t =? 263); apply IH.
Qed.

Lemma ls_node_and_rest_nopanic d : nopanic (ls_node_and_rest d).
Proof.
  unfold ls_node_and_rest. destruct (ls_read_tlv d) as [[[t v] rest]|]; [|exact I].
  destruct (negb _); [exact I|]. apply np_bind; [apply ls_node_fold_nopanic|intros; exact I].
Qed.

Lemma ls_decode_spec c :
  nopanic (ls_decode c) /\ forall x c', ls_decode c = Ok (x, c') -> len c' < len c.
Proof.
  unfold ls_decode.
  destruct (get16 c) as [[ty c1]|] eqn:E1; cbn [rm req bind]; [|split; [exact I|discriminate]]. apply get16_some in E1.
  destruct (get16 c1) as [[ln c2]|] eqn:E2; cbn [rm req bind]; [|split; [exact I|discriminate]]. apply get16_some in E2.
  destruct (take (nat_of ln) c2) as [[body c3]|] eqn:E3; cbn [rm req bind]; [|split; [exact I|discriminate]].
  apply take_some in E3. destruct E3 as (L3 & _ & _ & _).
  assert (Hc : len c3 < len c) by lia.
  destruct (Nat.ltb (length body) 9) eqn:E9.
  { split; [exact I|]. intros ? ? H. injection H as _ <-. exact Hc. }
  apply PeanoNat.Nat.ltb_ge in E9.
  destruct body as [|p b]; [cbn [length] in E9; lia|]. cbn [length] in E9.
  rewrite (ls_first_ok 66 8 b) by lia. cbn [bind].
  assert (Hfin : forall A (r : res A) (k : A -> lsnlri), nopanic r ->
            nopanic (bind r (fun a => Ok (k a, c3))) /\
            forall x c', bind r (fun a => Ok (k a, c3)) = Ok (x, c') -> len c' < len c).
  { intros A r k Hr. destruct r as [a| |]; cbn [bind]; [|split; [exact I|discriminate]|destruct Hr].
    split; [exact I|]. intros ? ? H. injection H as _ <-. exact Hc. }
  destruct (ty =? 1).
  { pose proof (ls_node_and_rest_nopanic (skipn 8 b)) as Hn.
    destruct (ls_node_and_rest (skipn 8 b)) as [[nd r1]| |]; cbn [bind]; [|split; [exact I|discriminate]|destruct Hn].
    split; [exact I|]. intros ? ? H. injection H as _ <-. exact Hc. }
  destruct (ty =? 2).
  { pose proof (ls_node_and_rest_nopanic (skipn 8 b)) as Hn.
    destruct (ls_node_and_rest (skipn 8 b)) as [[l r1]| |]; cbn [bind]; [|split; [exact I|discriminate]|destruct Hn].
    pose proof (ls_node_and_rest_nopanic r1) as Hn2.
    destruct (ls_node_and_rest r1) as [[r r2]| |]; cbn [bind]; [|split; [exact I|discriminate]|destruct Hn2].
    apply (Hfin _ _ (fun tl => LsLink p (be_of (firstn 8 b)) l r tl)). apply ls_link_tlvs_nopanic. }
  destruct (_ || _).
  { pose proof (ls_node_and_rest_nopanic (skipn 8 b)) as Hn.
    destruct (ls_node_and_rest (skipn 8 b)) as [[nd r1]| |]; cbn [bind]; [|split; [exact I|discriminate]|destruct Hn].
    apply (Hfin _ _ (fun tl => LsPrefix (ty =? 4) p (be_of (firstn 8 b)) nd tl)). apply ls_prefix_tlvs_nopanic. }
  destruct (ty =? 6).
  { pose proof (ls_node_and_rest_nopanic (skipn 8 b)) as Hn.
    destruct (ls_node_and_rest (skipn 8 b)) as [[nd r1]| |]; cbn [bind]; [|split; [exact I|discriminate]|destruct Hn].
    pose proof (ls_srv6_tlvs_nopanic (ls_tlvs (S (length r1)) r1) [] []) as Hs.
    destruct (ls_srv6_tlvs _ [] []) as [[sids mts]| |]; cbn [bind]; [|split; [exact I|discriminate]|destruct Hs].
    split; [exact I|]. intros ? ? H. injection H as _ <-. exact Hc. }
  split; [exact I|]. intros ? ? H. injection H as _ <-. exact Hc.
Qed.

Lemma mup_decode_spec fam c n :
  nopanic (mup_decode fam c n) /\ forall e c', mup_decode fam c n = Ok (e, c') -> len c' < len c.
Proof.
  unfold mup_decode.
  destruct (n <? 4); [split; [exact I|discriminate]|].
  destruct (take 4 c) as [[h c1]|] eqn:E1; cbn [rm req bind]; [|split; [exact I|discriminate]].
  apply take_some in E1. destruct E1 as (L1 & Lh & _ & _).
  destruct h as [|arch [|t1 [|t2 [|blen [|x h]]]]]; try (cbn [length] in Lh; lia).
  destruct (_ || _); [split; [exact I|discriminate]|].
  destruct (take (nat_of blen) c1) as [[body c2]|] eqn:E2; cbn [rm req bind]; [|split; [exact I|discriminate]].
  apply take_some in E2.
  destruct (mup_body _ _ body); split; try exact I; try discriminate.
  intros ? ? H. injection H as _ <-. lia.
Qed.

Lemma fs_op_spec c :
  nopanic (fs_op c) /\ forall b v c', fs_op c = Ok (b, v, c') -> len c' + 2 <= len c.
Proof.
  unfold fs_op.
  destruct (get8 c) as [[raw c1]|] eqn:E1; cbn [rm req bind]; [|split; [exact I|discriminate]]. apply get8_some in E1.
  destruct (take _ c1) as [[v c2]|] eqn:E2; cbn [rm req bind]; [|split; [exact I|discriminate]]. apply take_some in E2.
  split; [exact I|]. intros ? ? ? H. injection H as _ _ <-.
  repeat match type of E2 with context [if ?b then _ else _] => destruct b end; lia.
Qed.

Lemma fs_ops_spec : forall fuel c acc, (length c < fuel)%nat ->
  nopanic (fs_ops fuel c acc) /\ forall l c', fs_ops fuel c acc = Ok (l, c') -> len c' + 2 <= len c.
Proof.
  induction fuel as [|f IH]; intros c acc Hf; [lia|]. cbn [fs_ops].
  destruct (fs_op_spec c) as [Np Hr].
  destruct (fs_op c) as [[[b v] c1]| |]; cbn [bind]; [|split; [exact I|discriminate]|destruct Np].
  specialize (Hr _ _ _ eq_refl).
  destruct (N.testbit b 7).
  - split; [exact I|]. intros ? ? H. injection H as _ <-. exact Hr.
  - destruct (IH c1 ((b, v) :: acc)) as [Np2 Hr2].
    { pose proof (len_length c). pose proof (len_length c1). lia. }
    split; [exact Np2|]. intros l c' H. specialize (Hr2 _ _ H). lia.
Qed.

Lemma fs_component_spec v6 c :
  nopanic (fs_component v6 c) /\ forall x c', fs_component v6 c = Ok (x, c') -> len c' < len c.
Proof.
  unfold fs_component.
  destruct (get8 c) as [[ty c1]|] eqn:E1; cbn [rm req bind]; [|split; [exact I|discriminate]]. apply get8_some in E1.
  destruct (_ || _).
  - destruct (get8 c1) as [[bits c2]|] eqn:E2; cbn [rm req bind]; [|split; [exact I|discriminate]]. apply get8_some in E2.
    destruct (_ <? bits); [split; [exact I|discriminate]|].
    destruct v6.
    + destruct (get8 c2) as [[off c3]|] eqn:E3; cbn [rm req bind]; [|split; [exact I|discriminate]]. apply get8_some in E3.
      destruct (take _ c3) as [[a c4]|] eqn:E4; cbn [rm req bind]; [|split; [exact I|discriminate]]. apply take_some in E4.
      split; [exact I|]. intros ? ? H. injection H as _ <-. lia.
    + destruct (take _ c2) as [[a c4]|] eqn:E4; cbn [rm req bind]; [|split; [exact I|discriminate]]. apply take_some in E4.
      split; [exact I|]. intros ? ? H. injection H as _ <-. lia.
  - destruct (_ && _); [|split; [exact I|discriminate]].
    destruct (fs_ops_spec (S (length c1)) c1 [] ltac:(lia)) as [Np Hr].
    destruct (fs_ops _ c1 []) as [[ops c2]| |]; cbn [bind]; [|split; [exact I|discriminate]|destruct Np].
    specialize (Hr _ _ eq_refl). split; [exact I|]. intros ? ? H. injection H as _ <-. lia.
Qed.

Lemma fs_components_nopanic : forall fuel v6 c acc, (length c < fuel)%nat -> nopanic (fs_components fuel v6 c acc).
Proof.
  induction fuel as [|f IH]; intros v6 c acc Hf; [lia|].
  destruct c as [|b r]; [exact I|]. cbn [fs_components].
  destruct (fs_component_spec v6 (b :: r)) as [Np Hr].
  destruct (fs_component v6 (b :: r)) as [[x c1]| |]; cbn [bind]; [|exact I|destruct Np].
  specialize (Hr _ _ eq_refl). apply IH.
  pose proof (len_length c1). pose proof (len_length (b :: r)). lia.
Qed.

Lemma fs_decode_spec vpn v6 c n :
  nopanic (fs_decode vpn v6 c n) /\ forall rd comps c', fs_decode vpn v6 c n = Ok (rd, comps, c') -> len c' < len c.
Proof.
  unfold fs_decode.
  destruct (n <? 1); [split; [exact I|discriminate]|].
  destruct (get8 c) as [[first c1]|] eqn:E1; cbn [rm req bind]; [|split; [exact I|discriminate]]. apply get8_some in E1.
  assert (Hh : nopanic (if first <? 240 then Ok (first, 1, c1)
                        else '(second, c) <- rm (get8 c1) ;; Ok ((first mod 16) * 256 + second, 2, c)) /\
               forall nlen hdr c2, (if first <? 240 then Ok (first, 1, c1)
                        else '(second, c) <- rm (get8 c1) ;; Ok ((first mod 16) * 256 + second, 2, c)) = Ok (nlen, hdr, c2) ->
               len c2 <= len c1).
  { destruct (first <? 240).
    - split; [exact I|]. intros ? ? ? H. injection H as _ _ <-. lia.
    - destruct (get8 c1) as [[second c2]|] eqn:E2; cbn [rm req bind]; [|split; [exact I|discriminate]]. apply get8_some in E2.
      split; [exact I|]. intros ? ? ? H. injection H as _ _ <-. lia. }
  destruct Hh as [Nph Hh].
  destruct (if first <? 240 then _ else _) as [[[nlen hdr] c2]| |]; cbn [bind]; [|split; [exact I|discriminate]|destruct Nph].
  specialize (Hh _ _ _ eq_refl).
  destruct ((n <? nlen + hdr) || (vpn && (nlen <? 8))) eqn:Ec; [split; [exact I|discriminate]|].
  destruct (take (nat_of nlen) c2) as [[buf c3]|] eqn:Et; cbn [rm req bind]; [|split; [exact I|discriminate]].
  apply take_some in Et. destruct Et as (L3 & Lb & Hb & _).
  destruct vpn.
  - destruct (Nat.ltb (length (firstn 8 buf)) 8) eqn:El.
    { exfalso. apply PeanoNat.Nat.ltb_lt in El. rewrite firstn_length in El. apply orb_false_iff in Ec.
      destruct Ec as [_ Ec]. cbn [andb] in Ec. unfold nat_of in *. lia. }
    destruct (negb (rd_ok _)); [split; [exact I|discriminate]|].
    assert (Npc : nopanic (fs_components (S (length buf)) v6 (skipn 8 buf) []))
      by (apply fs_components_nopanic; rewrite skipn_length; lia).
    destruct (fs_components _ v6 (skipn 8 buf) []) as [comps| |]; cbn [bind];
      [|split; [exact I|discriminate]|destruct Npc].
    split; [exact I|]. intros ? ? ? H. injection H as _ _ <-. lia.
  - pose proof (fs_components_nopanic (S (length buf)) v6 buf [] ltac:(lia)) as Npc.
    destruct (fs_components _ v6 buf []) as [comps| |]; cbn [bind]; [|split; [exact I|discriminate]|destruct Npc].
    split; [exact I|]. intros ? ? ? H. injection H as _ _ <-. lia.
Qed.

Section NlriFacts.
  Variable other_nlri : N -> bool -> list N -> option (list N).
  (* contract of the decoders that are not modelled: a decoded NLRI takes at
     least one byte (they cannot panic by construction: the result is an option) *)
  Hypothesis other_consumes : forall f r c c', other_nlri f r c = Some c' -> len c' < len c.

  Lemma nlri_decode_spec fam is_reach c n :
    nopanic (nlri_decode other_nlri fam is_reach c n) /\
    forall x c', nlri_decode other_nlri fam is_reach c n = Ok (x, c') -> len c' < len c.
  Proof.
    unfold nlri_decode.
    destruct (_ || _).
    { destruct (prefix_decode_spec 32 4%nat c n) as [Np Hr].
      destruct (prefix_decode 32 4 c n) as [[[m a] c1]| |]; cbn [bind]; [|split; [exact I|discriminate]|destruct Np].
      split; [exact I|]. intros ? ? H. injection H as _ <-. eapply Hr; reflexivity. }
    destruct (_ || _).
    { destruct (prefix_decode_spec 128 16%nat c n) as [Np Hr].
      destruct (prefix_decode 128 16 c n) as [[[m a] c1]| |]; cbn [bind]; [|split; [exact I|discriminate]|destruct Np].
      split; [exact I|]. intros ? ? H. injection H as _ <-. eapply Hr; reflexivity. }
    destruct (fam =? F_IPV4_VPN).
    { destruct (vpn_decode_spec 32 4%nat c n) as [Np Hr].
      destruct (vpn_decode 32 4 c n) as [[[[[ls rd] m] a] c1]| |]; cbn [bind]; [|split; [exact I|discriminate]|destruct Np].
      split; [exact I|]. intros ? ? H. injection H as _ <-. eapply Hr; reflexivity. }
    destruct (fam =? F_IPV6_VPN).
    { destruct (vpn_decode_spec 128 16%nat c n) as [Np Hr].
      destruct (vpn_decode 128 16 c n) as [[[[[ls rd] m] a] c1]| |]; cbn [bind]; [|split; [exact I|discriminate]|destruct Np].
      split; [exact I|]. intros ? ? H. injection H as _ <-. eapply Hr; reflexivity. }
    destruct (fam =? F_IPV4_MPLS).
    { destruct (labeled_decode_spec 32 4%nat is_reach c n) as [Np Hr].
      destruct (labeled_decode 32 4 is_reach c n) as [[[[ls m] a] c1]| |]; cbn [bind]; [|split; [exact I|discriminate]|destruct Np].
      split; [exact I|]. intros ? ? H. injection H as _ <-. eapply Hr; reflexivity. }
    destruct (fam =? F_IPV6_MPLS).
    { destruct (labeled_decode_spec 128 16%nat is_reach c n) as [Np Hr].
      destruct (labeled_decode 128 16 is_reach c n) as [[[[ls m] a] c1]| |]; cbn [bind]; [|split; [exact I|discriminate]|destruct Np].
      split; [exact I|]. intros ? ? H. injection H as _ <-. eapply Hr; reflexivity. }
    destruct (fam =? F_EVPN).
    { destruct (evpn_decode_spec c) as [Np Hr].
      destruct (evpn_decode c) as [[e c1]| |]; cbn [bind]; [|split; [exact I|discriminate]|destruct Np].
      split; [exact I|]. intros ? ? H. injection H as _ <-. eapply Hr; reflexivity. }
    destruct (fam =? F_RTC).
    { destruct (rtc_decode_spec c) as [Np Hr].
      destruct (rtc_decode c) as [[e c1]| |]; cbn [bind]; [|split; [exact I|discriminate]|destruct Np].
      split; [exact I|]. intros ? ? H. injection H as _ <-. eapply Hr; reflexivity. }
    destruct (_ || _).
    { destruct (srp_decode_spec c) as [Np Hr].
      destruct (srp_decode c) as [[e c1]| |]; cbn [bind]; [|split; [exact I|discriminate]|destruct Np].
      split; [exact I|]. intros ? ? H. injection H as _ <-. eapply Hr; reflexivity. }
    assert (Hfs : forall vpn v6 k, nopanic ('(rd, comps, c) <- fs_decode vpn v6 c n ;; Ok (NFlow k rd comps, c)) /\
              forall x c', ('(rd, comps, c) <- fs_decode vpn v6 c n ;; Ok (NFlow k rd comps, c)) = Ok (x, c') -> len c' < len c).
    { intros vpn v6 k. destruct (fs_decode_spec vpn v6 c n) as [Np Hr].
      destruct (fs_decode vpn v6 c n) as [[[rd comps] c1]| |]; cbn [bind]; [|split; [exact I|discriminate]|destruct Np].
      split; [exact I|]. intros ? ? H. injection H as _ <-. eapply Hr; reflexivity. }
    destruct (fam =? F_IPV4_FS); [apply Hfs|].
    destruct (fam =? F_IPV6_FS); [apply Hfs|].
    destruct (fam =? F_IPV4_FSVPN); [apply Hfs|].
    destruct (fam =? F_IPV6_FSVPN); [apply Hfs|].
    destruct (fam =? F_LS).
    { destruct (ls_decode_spec c) as [Np Hr].
      destruct (ls_decode c) as [[x c1]| |]; cbn [bind]; [|split; [exact I|discriminate]|destruct Np].
      split; [exact I|]. intros ? ? H. injection H as _ <-. eapply Hr; reflexivity. }
    destruct (_ || _).
    { destruct (mup_decode_spec fam c n) as [Np Hr].
      destruct (mup_decode fam c n) as [[e c1]| |]; cbn [bind]; [|split; [exact I|discriminate]|destruct Np].
      split; [exact I|]. intros ? ? H. injection H as _ <-. eapply Hr; reflexivity. }
    destruct (is_other_family fam); [|split; [exact I|discriminate]].
    destruct (other_nlri fam is_reach c) as [c1|] eqn:Eo; [|split; [exact I|discriminate]].
    split; [exact I|]. intros ? ? H. injection H as _ <-. eapply other_consumes; eassumption.
  Qed.

  Lemma path_nlri_decode_spec fam ap is_reach c :
    nopanic (path_nlri_decode other_nlri fam ap is_reach c) /\
    forall id x c', path_nlri_decode other_nlri fam ap is_reach c = Ok (id, x, c') -> len c' < len c.
  Proof.
    unfold path_nlri_decode. destruct ap.
    - destruct (len c <? 4); [split; [exact I|discriminate]|].
      destruct (get32 c) as [[id c1]|] eqn:G; cbn [rm req bind]; [|split; [exact I|discriminate]].
      apply get32_some in G.
      destruct (nlri_decode_spec fam is_reach c1 (len c - 4)) as [Np Hr].
      destruct (nlri_decode other_nlri fam is_reach c1 (len c - 4)) as [[x c2]| |]; cbn [bind];
        [|split; [exact I|discriminate]|destruct Np].
      specialize (Hr _ _ eq_refl).
      split; [exact I|]. intros ? ? ? H. injection H as _ _ <-. lia.
    - destruct (nlri_decode_spec fam is_reach c (len c)) as [Np Hr].
      destruct (nlri_decode other_nlri fam is_reach c (len c)) as [[x c2]| |]; cbn [bind];
        [|split; [exact I|discriminate]|destruct Np].
      specialize (Hr _ _ eq_refl).
      split; [exact I|]. intros ? ? ? H. injection H as _ _ <-. lia.
  Qed.

  Lemma nlri_list_fuel_nopanic : forall fuel fam ap is_reach c acc,
    (length c < fuel)%nat -> nopanic (nlri_list_fuel other_nlri fuel fam ap is_reach c acc).
  Proof.
    induction fuel as [|f IH]; intros fam ap is_reach c acc Hf; [lia|].
    destruct c as [|b r]; [exact I|].
    cbn [nlri_list_fuel].
    destruct (path_nlri_decode_spec fam ap is_reach (b :: r)) as [Np Hr].
    destruct (path_nlri_decode other_nlri fam ap is_reach (b :: r)) as [[[id x] c1]| |]; cbn [bind];
      [|exact I|destruct Np].
    specialize (Hr _ _ _ eq_refl).
    apply IH. pose proof (len_length c1). pose proof (len_length (b :: r)). lia.
  Qed.

  Lemma nlri_list_nopanic fam ap is_reach c : nopanic (nlri_list other_nlri fam ap is_reach c).
  Proof. unfold nlri_list. apply nlri_list_fuel_nopanic. lia. Qed.
End NlriFacts.

(* ---- the arithmetic of the unrepaired label decoders (before ce1a895) *)
Lemma C03_vpn_label_bits_v0_refuted :
  exists total nlabels, 88 <= total /\ total < 256 /\ vpn_bits_ok_v0 Debug total nlabels = None.
Proof. exists 255, 8. repeat split; try lia. Qed.

Lemma C03_label_bits_v0_wraps : label_bits_v0 11 = 8 /\ 8 < 24 * 11.
Proof. split; [reflexivity|lia]. Qed.
