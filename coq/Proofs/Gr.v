(* Proofs about Model/Gr.v against Spec/GrSpec.v (property C10). *)
From Coq Require Import List NArith Bool Lia ZifyBool ZifyNat ZifyN.
From RB Require Import Base.Val Model.Deferral Model.Gr Spec.GrSpec Proofs.Deferral.
Import ListNotations.
Open Scope N_scope.

Definition V4 : fam := 65537.
Definition V6 : fam := 131073.

(* ------------------------------------------------------------ the pure machine *)

(* helper mode is entered only together with arming a timer *)
Theorem C10_helper_mode_entry_arms_timer :
  forall (s : grinner) (i : grinput),
    is_peer_restarting s = false ->
    is_peer_restarting (fst (gr_step s i)) = true ->
    (exists d, In (GStartTimer d) (snd (gr_step s i))) \/
    (exists l, In (GStartLlgrTimers l) (snd (gr_step s i))).
Proof.
  intros s i Hs Hs'. destruct s; try discriminate.
  destruct i as [gr ll|g|f| |f]; cbn in Hs' |- *; try discriminate.
  destruct gr as [[fams rt]|].
  - left. exists rt. left. reflexivity.
  - destruct ll as [lp|]; [|discriminate]. right. exists lp. left. reflexivity.
Qed.

(* a session drop never ends helper mode; only expiry, End-of-RIB or
   re-establishment do *)
Theorem C10_drop_never_leaves_helper_mode :
  forall (s : grinner) gr ll,
    is_peer_restarting s = true ->
    is_peer_restarting (fst (gr_step s (GSessionDropped gr ll))) = true.
Proof.
  intros s gr ll Hs. destruct s as [|st lg|rem|p fl]; try discriminate;
    destruct gr as [[fams rt]|]; destruct ll as [lp|]; try reflexivity;
    try (destruct lg; reflexivity); try (destruct fl; reflexivity).
Qed.

(* ------------------------------------------------------------ one-step facts of the glue *)

Lemma filter_In_keep : forall (A : Type) (p : A -> bool) l x, In x l -> p x = true -> In x (filter p l).
Proof. intros A p l x Hi Hp. apply filter_In. split; assumption. Qed.

(* (a) a connection attempt that ends before Established leaves every pending
       timer, the helper phase and the routes as they were *)
Theorem C10_failed_reconnect_keeps_timer :
  forall (h : hstate),
    let h' := h_step h HFailedConnect in
    h_ltimers h' = h_ltimers h /\ h_rib h' = h_rib h /\ h_gr h' = h_gr h /\ h_sess h' = h_sess h
    /\ (is_peer_restarting (h_gr h) = true -> h_rtimer h' = h_rtimer h).
Proof.
  intros h. cbn. repeat split. intros ->. reflexivity.
Qed.

(* (b) NO_LLGR routes are gone when the LLGR period of their family starts *)
Lemma mark_llgr_no_llgr : forall rib fams r,
    In r (rib_mark_llgr rib fams) -> in_fams fams r = true -> r_no_llgr r = false.
Proof.
  intros rib fams r Hin Hf. unfold rib_mark_llgr in Hin. apply filter_In in Hin. destruct Hin as [_ Hn].
  rewrite Hf in Hn. cbn [andb] in Hn. destruct (r_no_llgr r); [discriminate | reflexivity].
Qed.

Lemma mark_llgr_marks : forall rib fams r,
    In r (rib_mark_llgr rib fams) -> in_fams fams r = true -> r_llgr r = true.
Proof.
  intros rib fams r Hin Hf. unfold rib_mark_llgr in Hin. apply filter_In in Hin. destruct Hin as [Hin _].
  apply in_map_iff in Hin. destruct Hin as [q [Hq _]].
  destruct (in_fams fams q) eqn:E; subst r; [reflexivity|]. congruence.
Qed.

Theorem C10_no_llgr_dropped_at_llgr_start :
  forall (h : hstate) (l : list (fam * N)),
    (* the restart timer expires and the LLGR period starts for the families of l *)
    h_rtimer h = true -> start_llgr (snd (gr_step (h_gr h) GTimerExpired)) = Some l ->
    let h' := h_step h HRestartTimer in
    (forall f, In f (map fst l) -> mem f (h_ltimers h') = true)
    /\ (forall r, In r (h_rib h') -> mem (r_fam r) (map fst l) = true -> r_no_llgr r = false /\ r_llgr r = true).
Proof.
  intros h l Hrt Hst h'. subst h'. cbn [h_step]. rewrite Hrt.
  destruct (gr_step (h_gr h) GTimerExpired) as [g' outs]. cbn [snd] in Hst. rewrite Hst. cbn [h_ltimers h_rib upd_h].
  split.
  - intros f Hf. unfold add_timers. rewrite mem_dedup. apply mem_In. apply in_or_app. right. exact Hf.
  - intros r Hin Hf. split; [eapply mark_llgr_no_llgr | eapply mark_llgr_marks]; eassumption.
Qed.

(* the same at a session drop that starts the LLGR period at once (LLGR only) *)
Theorem C10_no_llgr_dropped_at_llgr_only_drop :
  forall (h : hstate) gr ll (l : list (fam * N)),
    start_llgr (snd (gr_step (h_gr h) (GSessionDropped gr ll))) = Some l ->
    (gr <> None \/ ll <> None) ->
    let h' := apply_disconnect h gr ll in
    forall r, In r (h_rib h') -> mem (r_fam r) (map fst l) = true -> r_no_llgr r = false /\ r_llgr r = true.
Proof.
  intros h gr ll l Hst Hne h' r Hin Hf. subst h'. unfold apply_disconnect in Hin.
  destruct (gr_step (h_gr h) (GSessionDropped gr ll)) as [g' outs]. cbn [snd] in Hst.
  destruct gr as [g|]; [|destruct ll as [x|]; [|destruct Hne; congruence]];
    rewrite Hst in Hin; cbn [h_rib upd_h] in Hin;
    (split; [eapply mark_llgr_no_llgr | eapply mark_llgr_marks]; eassumption).
Qed.

(* (c) the stale purges never remove an unmarked route that does not carry the
       LLGR_STALE community: End-of-RIB and re-establishment only delete marked routes *)
Lemma drop_stale_keeps : forall rib fams r, In r rib -> r_stale r = false -> In r (rib_drop_stale rib fams).
Proof. intros rib fams r Hi Hs. apply filter_In_keep; [assumption|]. rewrite Hs, andb_false_r. reflexivity. Qed.

Lemma drop_llgr_stale_keeps : forall rib fams r,
    In r rib -> r_llgr r = false -> r_llgr_comm r = false -> In r (rib_drop_llgr_stale rib fams).
Proof.
  intros rib fams r Hi Hl Hc. apply filter_In_keep; [assumption|]. unfold is_llgr_stale.
  rewrite Hl, Hc, andb_false_r. reflexivity.
Qed.

Theorem C10_fresh_routes_survive_purge_outside_known :
  forall (h : hstate) (e : hevent) (r : route),
    (exists f, e = HEor f) \/ (exists fams gr ll, e = HUp fams gr ll) ->
    In r (h_rib h) -> r_stale r = false -> r_llgr r = false ->
    r_llgr_comm r = false ->                                   (* ~ Known_C10_6 for this route *)
    In r (h_rib (h_step h e)).
Proof.
  intros h e r He Hin Hs Hl Hc. destruct He as [[f ->]|[fams [gr [ll ->]]]]; cbn [h_step].
  - destruct (h_sess h) as [s|]; [|assumption]. destruct (s_gr s); [|assumption].
    destruct (gr_step (h_gr h) (GEorReceived f)) as [g' outs]. cbn [h_rib upd_h].
    apply drop_llgr_stale_keeps; [apply drop_stale_keeps|..]; assumption.
  - destruct (h_sess h) as [s|]; [assumption|].
    destruct (gr_step (h_gr h) _) as [g' outs]. cbn [h_rib].
    apply drop_llgr_stale_keeps; [apply drop_stale_keeps|..]; assumption.
Qed.

(* finding C10-6: with the community the fresh route is purged *)
Definition w6 : list hevent :=
  [HUp [V4] (Some ([V4], 120, false)) (Some [(V4, 3600)]); HAnnounce V4 0 false false; HDown RsTcp; HRestartTimer;
   HUp [V4] (Some ([V4], 120, false)) (Some [(V4, 3600)]); HAnnounce V4 1 false true].

Theorem C10_fresh_routes_survive_purge_refuted :
  exists (evs : list hevent) (f : fam) (r : route),
    Known_C10_6 evs = true /\
    let h := h_run h0 evs in
    In r (h_rib h) /\ retained h r = false /\ ~ In r (h_rib (h_step h (HEor f))).
Proof.
  exists w6, V4, {| r_fam := V4; r_id := 1; r_sess := 2; r_stale := false; r_llgr := false;
                   r_no_llgr := false; r_llgr_comm := true |}.
  split; [vm_compute; reflexivity|]. cbv zeta. split; [vm_compute; auto|]. split; [vm_compute; reflexivity|].
  vm_compute. intros [].
Qed.

(* (d) removal no later than the expiry / the End-of-RIB *)
Theorem C10_purged_by_expiry_or_eor :
  forall (h : hstate),
    (* End-of-RIB for a family awaited after a GR reconnect *)
    (forall f s g pending, h_sess h = Some s -> s_gr s = Some g -> h_gr h = GPeerReconnected pending false ->
        forall r, In r (h_rib (h_step h (HEor f))) -> r_fam r = f -> r_stale r = false)
    (* ... after an LLGR reconnect *)
    /\ (forall f s g pending, h_sess h = Some s -> s_gr s = Some g -> h_gr h = GPeerReconnected pending true ->
        forall r, In r (h_rib (h_step h (HEor f))) -> r_fam r = f -> is_llgr_stale r = false)
    (* restart timer expiry without LLGR: nothing of the stale families is left *)
    /\ (forall stale, h_rtimer h = true -> h_gr h = GPeerRestarting stale None ->
        forall r, In r (h_rib (h_step h HRestartTimer)) -> mem (r_fam r) stale = false)
    (* LLGR timer expiry *)
    /\ (forall f remaining, mem f (h_ltimers h) = true -> h_gr h = GLlgrStaling remaining ->
        forall r, In r (h_rib (h_step h (HLlgrTimer f))) -> r_fam r = f -> is_llgr_stale r = false).
Proof.
  intros h. repeat split.
  - intros f s g pending Hs Hg Hgr r Hin Hf. cbn [h_step] in Hin. rewrite Hs, Hg, Hgr in Hin.
    cbn in Hin. apply filter_In in Hin. destruct Hin as [Hin _]. apply filter_In in Hin. destruct Hin as [_ Hn].
    unfold in_fams, mem in Hn. cbn [existsb] in Hn. rewrite Hf, N.eqb_refl in Hn. cbn in Hn.
    destruct (r_stale r); [discriminate | reflexivity].
  - intros f s g pending Hs Hg Hgr r Hin Hf. cbn [h_step] in Hin. rewrite Hs, Hg, Hgr in Hin.
    cbn in Hin. apply filter_In in Hin. destruct Hin as [_ Hn].
    unfold in_fams, mem in Hn. cbn [existsb] in Hn. rewrite Hf, N.eqb_refl in Hn. cbn in Hn.
    destruct (is_llgr_stale r); [discriminate | reflexivity].
  - intros stale Hrt Hgr r Hin. cbn [h_step] in Hin. rewrite Hrt, Hgr in Hin. cbn in Hin.
    rewrite app_nil_r in Hin. apply filter_In in Hin. destruct Hin as [_ Hn]. unfold in_fams in Hn.
    destruct (mem (r_fam r) stale); [discriminate | reflexivity].
  - intros f remaining Hlt Hgr r Hin Hf. cbn [h_step] in Hin. rewrite Hlt, Hgr in Hin. cbn in Hin.
    apply filter_In in Hin. destruct Hin as [_ Hn].
    unfold in_fams, mem in Hn. cbn [existsb] in Hn. rewrite Hf, N.eqb_refl in Hn. cbn in Hn.
    destruct (is_llgr_stale r); [discriminate | reflexivity].
Qed.

(* (e) at a session drop the routes of every family that was not negotiated for
       GR or LLGR are removed at once (whatever the reason) *)
Lemma in_restale : forall rib fams r, In r (rib_restale rib fams) -> exists q, In q rib /\ r_fam q = r_fam r.
Proof.
  intros rib fams r Hin. unfold rib_restale in Hin. apply in_map_iff in Hin. destruct Hin as [q [Hq Hin]].
  exists q. split; [assumption|]. destruct (in_fams fams q); subst r; reflexivity.
Qed.

Lemma in_mark_llgr : forall rib fams r, In r (rib_mark_llgr rib fams) -> exists q, In q rib /\ r_fam q = r_fam r.
Proof.
  intros rib fams r Hin. unfold rib_mark_llgr in Hin. apply filter_In in Hin. destruct Hin as [Hin _].
  apply in_map_iff in Hin. destruct Hin as [q [Hq Hin]].
  exists q. split; [assumption|]. destruct (in_fams fams q); subst r; reflexivity.
Qed.

Lemma apply_disconnect_fams : forall h gr ll r,
    In r (h_rib (apply_disconnect h gr ll)) -> exists q, In q (h_rib h) /\ r_fam q = r_fam r.
Proof.
  intros h gr ll r Hin. unfold apply_disconnect in Hin.
  assert (forall g' outs,
             In r (h_rib match start_llgr outs with
                         | Some l => upd_h h g' (existsb (fun o => match o with GStartTimer _ => true | _ => false end) outs)
                                           (add_timers (h_ltimers h) (map fst l)) (rib_mark_llgr (h_rib h) (map fst l))
                         | None => upd_h h g' (existsb (fun o => match o with GStartTimer _ => true | _ => false end) outs)
                                         (h_ltimers h) (h_rib h)
                         end) -> exists q, In q (h_rib h) /\ r_fam q = r_fam r) as Hgen.
  { intros g' outs H. destruct (start_llgr outs); cbn [h_rib upd_h] in H;
      [apply in_mark_llgr in H; exact H | exists r; split; [assumption | reflexivity]]. }
  destruct gr as [g|]; [|destruct ll as [l|]].
  - destruct (gr_step (h_gr h) _) as [g' outs]. apply (Hgen g' outs). exact Hin.
  - destruct (gr_step (h_gr h) _) as [g' outs]. apply (Hgen g' outs). exact Hin.
  - cbn [h_rib upd_h] in Hin. exists r. split; [assumption | reflexivity].
Qed.

Theorem C10_non_negotiated_families_dropped_at_once :
  forall (h : hstate) (s : session) (rs : reason) (r : route),
    h_sess h = Some s ->
    In r (h_rib (h_step h (HDown rs))) ->
    mem (r_fam r) (s_fams s) = true ->
    mem (r_fam r) (fams_of_gr (s_gr s)) = true \/ mem (r_fam r) (fams_of_llgr (s_llgr s)) = true.
Proof.
  intros h s rs r Hs Hin Hf. cbn [h_step] in Hin. rewrite Hs in Hin.
  apply apply_disconnect_fams in Hin. destruct Hin as [q [Hq Hfq]]. cbn [h_rib] in Hq.
  apply in_restale in Hq. destruct Hq as [q' [Hq' Hfq']].
  unfold rib_drop in Hq'. apply filter_In in Hq'. destruct Hq' as [_ Hn].
  unfold in_fams in Hn. rewrite Hfq', Hfq in Hn.
  apply negb_true_iff in Hn. apply mem_false_In in Hn.
  destruct (mem (r_fam r) (fams_of_gr (s_gr s))) eqn:E1; [left; reflexivity|].
  destruct (mem (r_fam r) (fams_of_llgr (s_llgr s))) eqn:E2; [right; reflexivity|].
  exfalso. apply Hn. apply filter_In. split; [apply mem_In; assumption|].
  unfold fams_of_gr, fams_of_llgr in E1, E2. rewrite E1, E2. reflexivity.
Qed.

(* ------------------------------------------------------------ the open findings *)

Definition w2 : list hevent :=
  [HUp [V4] (Some ([V4], 120, true)) None; HAnnounce V4 0 false false; HDown RsRemoteHard].
Definition w3 : list hevent :=
  [HUp [V4; V6] (Some ([V4; V6], 120, false)) (Some [(V4, 3600); (V6, 3600)]); HAnnounce V6 0 false false;
   HDown RsTcp; HRestartTimer; HUp [V4; V6] (Some ([V4], 120, false)) None].
Definition w4 : list hevent :=
  [HUp [V4; V6] (Some ([V4; V6], 120, false)) (Some [(V4, 3600)]); HAnnounce V6 0 false false; HDown RsTcp; HRestartTimer].
Definition w5 : list hevent :=
  [HUp [V4; V6] (Some ([V4], 120, false)) (Some [(V4, 3600); (V6, 3600)]); HAnnounce V6 0 false false; HDown RsTcp;
   HUp [V4; V6] (Some ([V4], 120, false)) (Some [(V4, 3600); (V6, 3600)])].

(* the full-strength invariant is false of the faithful model: one witness per open finding *)
Theorem C10_stale_implies_timer_or_eor_refuted :
  (Known_C10_2 w2 = true /\ stale_ok (h_run h0 w2) = false)
  /\ (Known_C10_3 w3 = true /\ stale_ok (h_run h0 w3) = false)
  /\ (Known_C10_4 w4 = true /\ stale_ok (h_run h0 w4) = false)
  /\ (Known_C10_5 w5 = true /\ stale_ok (h_run h0 w5) = false).
Proof. vm_compute. repeat split; reflexivity. Qed.

(* a hard reset (finding C10-2) leaves the stale-marked routes in the table although helper mode is not entered *)
Theorem C10_non_gr_reasons_retain_nothing_refuted :
  exists evs, Known_C10_2 evs = true /\
              let h := h_run h0 evs in
              is_peer_restarting (h_gr h) = false /\ h_rtimer h = false /\ h_ltimers h = [] /\ h_rib h <> [].
Proof. exists w2. vm_compute. repeat split; try reflexivity. discriminate. Qed.

(* outside that class: a session that negotiated neither GR nor LLGR leaves nothing behind *)
Theorem C10_non_gr_reasons_retain_nothing_outside_known :
  forall (h : hstate) (s : session) (rs : reason) (r : route),
    h_sess h = Some s -> s_gr s = None -> s_llgr s = None ->
    In r (h_rib (h_step h (HDown rs))) -> mem (r_fam r) (s_fams s) = false.
Proof.
  intros h s rs r Hs Hg Hl Hin.
  destruct (mem (r_fam r) (s_fams s)) eqn:E; [|reflexivity].
  destruct (C10_non_negotiated_families_dropped_at_once h s rs r Hs Hin E) as [H|H];
    [rewrite Hg in H | rewrite Hl in H]; discriminate.
Qed.

(* ------------------------------------------------------------ bounded sweep
   [partial] the invariant "stale routes only while a timer is armed or an
   End-of-RIB is awaited", outside the known input classes, for every event
   sequence of length <= 4 over the alphabet below (two families; GR-only,
   GR+LLGR and plain sessions; every kind of event).  The unbounded statement
   (all histories, all families) is not proved. *)
Definition sweep_alphabet : list hevent :=
  [HUp [V4; V6] (Some ([V4; V6], 120, true)) None;
   HUp [V4; V6] (Some ([V4], 120, false)) (Some [(V4, 3600)]);
   HUp [V4; V6] None None;
   HUp [V4] None (Some [(V4, 3600)]);
   HAnnounce V4 0 false false; HAnnounce V4 1 true false; HAnnounce V6 0 false false;
   HEor V4; HEor V6;
   HDown RsTcp; HDown RsRemoteCease; HDown RsRemoteHard; HDown RsOther;
   HFailedConnect; HRestartTimer; HLlgrTimer V4; HLlgrTimer V6; HForceDown; HSetAdminDown true].

Fixpoint all_seqs (al : list hevent) (n : nat) : list (list hevent) :=
  match n with
  | O => [[]]
  | S k => flat_map (fun e => map (cons e) (all_seqs al k)) al
  end.

Definition sweep_ok (al : list hevent) (n : nat) : bool :=
  forallb (fun evs => known_any evs || stale_ok_along h0 evs) (all_seqs al n).

Lemma all_seqs_complete : forall al n evs,
    length evs = n -> Forall (fun e => In e al) evs -> In evs (all_seqs al n).
Proof.
  intros al n. induction n as [|k IH]; intros evs Hl Hf.
  - destruct evs; [left; reflexivity | discriminate].
  - destruct evs as [|e r]; [discriminate|]. cbn [all_seqs]. apply in_flat_map.
    inversion Hf; subst. exists e. split; [assumption|]. apply in_map. apply IH; [cbn in Hl; lia | assumption].
Qed.

Lemma sweep_4 : sweep_ok sweep_alphabet 4 = true.
Proof. vm_compute. reflexivity. Qed.

Theorem C10_stale_implies_timer_or_eor_partial :
  forall (evs : list hevent),
    length evs = 4%nat -> Forall (fun e => In e sweep_alphabet) evs ->
    known_any evs = false ->
    stale_ok_along h0 evs = true.
Proof.
  intros evs Hl Hf Hk. pose proof sweep_4 as H. unfold sweep_ok in H. rewrite forallb_forall in H.
  specialize (H evs (all_seqs_complete _ _ _ Hl Hf)). rewrite Hk in H. exact H.
Qed.

Example sweep_nonvacuous :
  let evs := [HUp [V4; V6] (Some ([V4], 120, false)) (Some [(V4, 3600)]); HAnnounce V4 0 false false; HDown RsTcp; HRestartTimer] in
  known_any evs = false /\ Forall (fun e => In e sweep_alphabet) evs
  /\ h_ltimers (h_run h0 evs) = [V4] /\ length (h_rib (h_run h0 evs)) = 1%nat.
Proof.
  cbv zeta. split; [vm_compute; reflexivity|]. split; [|vm_compute; split; reflexivity].
  repeat constructor; cbn; tauto.
Qed.

(* ------------------------------------------------------------ non-vacuity of the one-step statements *)
Definition ex_gr_llgr : list hevent :=
  [HUp [V4; V6] (Some ([V4; V6], 120, false)) (Some [(V4, 3600); (V6, 3600)]);
   HAnnounce V4 0 false false; HAnnounce V4 1 true false; HAnnounce V6 0 false false; HDown RsTcp].

Example ex_restarting_with_timer :
  let h := h_run h0 ex_gr_llgr in
  is_peer_restarting (h_gr h) = true /\ h_rtimer h = true /\ length (h_rib h) = 3%nat
  /\ h_rtimer (h_step h HFailedConnect) = true
  /\ start_llgr (snd (gr_step (h_gr h) GTimerExpired)) = Some [(V4, 3600); (V6, 3600)]
  /\ length (h_rib (h_step h HRestartTimer)) = 2%nat
  /\ h_ltimers (h_step h HRestartTimer) = [V4; V6].
Proof. vm_compute. repeat split; reflexivity. Qed.

Example ex_eor_purges_only_stale :
  let h := h_run h0 (ex_gr_llgr ++ [HUp [V4; V6] (Some ([V4; V6], 120, false)) None; HAnnounce V4 2 false false]) in
  h_gr h = GPeerReconnected [V4; V6] false /\ length (h_rib h) = 4%nat
  /\ map r_id (h_rib (h_step h (HEor V4))) = [0; 2] /\ map r_fam (h_rib (h_step h (HEor V4))) = [V6; V4]
  /\ stale_ok h = true /\ stale_ok (h_step h (HEor V4)) = true.
Proof. vm_compute. repeat split; reflexivity. Qed.

Example ex_plain_session_leaves_nothing :
  let h := h_run h0 [HUp [V4; V6] None None; HAnnounce V4 0 false false; HAnnounce V6 1 false false] in
  length (h_rib h) = 2%nat /\ h_rib (h_step h (HDown RsRemoteHard)) = [] /\ h_rib (h_step h (HDown RsTcp)) = [].
Proof. vm_compute. repeat split; reflexivity. Qed.

Example ex_helper_entry :
  is_peer_restarting (fst (gr_step GIdle (GSessionDropped (Some ([V4], 120)) None))) = true
  /\ is_peer_restarting (fst (gr_step GIdle (GSessionDropped None (Some [(V4, 3600)])))) = true
  /\ is_peer_restarting (fst (gr_step GIdle (GSessionDropped None None))) = false.
Proof. vm_compute. repeat split; reflexivity. Qed.
