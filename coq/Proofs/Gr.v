(* Proofs about Model/Gr.v against Spec/GrSpec.v (property C10). *)
From Coq Require Import List NArith Bool Lia ZifyBool ZifyNat ZifyN.
From RB Require Import Base.Val Model.Deferral Model.Gr Spec.GrSpec Proofs.Deferral.
Import ListNotations.
Open Scope N_scope.

Definition V4 : fam := 65537.
Definition V6 : fam := 131073.

(* ------------------------------------------------------------ the pure machine *)

(* helper mode is entered only together with arming a timer *)
Theorem C10_helper_mode_entry_arms_timer :
  forall (s : grinner) (i : grinput),
    is_peer_restarting s = false ->
    is_peer_restarting (fst (gr_step s i)) = true ->
    (exists d, In (GStartTimer d) (snd (gr_step s i))) \/
    (exists l, In (GStartLlgrTimers l) (snd (gr_step s i))).
Proof.
  intros s i Hs Hs'. destruct s; try discriminate.
  destruct i as [gr ll|g|f| |f]; cbn in Hs' |- *; try discriminate.
  destruct gr as [[fams rt]|].
  - left. exists rt. left. reflexivity.
  - destruct ll as [lp|]; [|discriminate]. right. exists lp. left. reflexivity.
Qed.

(* a session drop never ends helper mode; only expiry, End-of-RIB or
   re-establishment do *)
Theorem C10_drop_never_leaves_helper_mode :
  forall (s : grinner) gr ll,
    is_peer_restarting s = true ->
    is_peer_restarting (fst (gr_step s (GSessionDropped gr ll))) = true.
Proof.
  intros s gr ll Hs. destruct s as [|st lg|rem|p fl]; try discriminate;
    destruct gr as [[fams rt]|]; destruct ll as [lp|]; try reflexivity;
    try (destruct lg; reflexivity); try (destruct fl; reflexivity).
Qed.

(* ------------------------------------------------------------ rib operations *)

Lemma filter_all : forall (A : Type) (p : A -> bool) l, (forall x, In x l -> p x = true) -> filter p l = l.
Proof.
  intros A p l H. induction l as [|x r IH]; [reflexivity|]. cbn [filter].
  rewrite (H x (or_introl eq_refl)). f_equal. apply IH. intros y Hy. apply H. right; exact Hy.
Qed.

Lemma drop_nil : forall rib, rib_drop rib [] = rib.
Proof. intros rib. apply filter_all. intros; reflexivity. Qed.
Lemma drop_stale_nil : forall rib, rib_drop_stale rib [] = rib.
Proof. intros rib. apply filter_all. intros; reflexivity. Qed.
Lemma drop_llgr_stale_nil : forall rib, rib_drop_llgr_stale rib [] = rib.
Proof. intros rib. apply filter_all. intros; reflexivity. Qed.

Lemma in_drop : forall rib F r, In r (rib_drop rib F) <-> In r rib /\ mem (r_fam r) F = false.
Proof.
  intros rib F r. unfold rib_drop, in_fams. rewrite filter_In. split; intros [H1 H2]; (split; [exact H1|]);
    destruct (mem (r_fam r) F); cbn in *; congruence.
Qed.

Lemma in_drop_stale : forall rib F r,
    In r (rib_drop_stale rib F) <-> In r rib /\ (mem (r_fam r) F && r_stale r) = false.
Proof.
  intros rib F r. unfold rib_drop_stale, in_fams. rewrite filter_In. split; intros [H1 H2]; (split; [exact H1|]);
    destruct (mem (r_fam r) F && r_stale r); cbn in *; congruence.
Qed.

Lemma in_drop_llgr_stale : forall rib F r,
    In r (rib_drop_llgr_stale rib F) <-> In r rib /\ (mem (r_fam r) F && r_llgr r) = false.
Proof.
  intros rib F r. unfold rib_drop_llgr_stale, in_fams. rewrite filter_In. split; intros [H1 H2]; (split; [exact H1|]);
    destruct (mem (r_fam r) F && r_llgr r); cbn in *; congruence.
Qed.

Lemma in_restale : forall rib F r,
    In r (rib_restale rib F) ->
    exists q, In q rib /\ r_fam r = r_fam q /\ r_sess r = r_sess q /\ r_id r = r_id q /\ r_llgr r = r_llgr q
              /\ (mem (r_fam q) F = true -> r_stale r = true).
Proof.
  intros rib F r Hin. unfold rib_restale in Hin. apply in_map_iff in Hin. destruct Hin as [q [Hq Hin]].
  exists q. unfold in_fams in Hq. destruct (mem (r_fam q) F); subst r; cbn; repeat split; try reflexivity; try assumption.
  intros; discriminate.
Qed.

Lemma in_mark_llgr : forall rib F r,
    In r (rib_mark_llgr rib F) ->
    exists q, In q rib /\ r_fam r = r_fam q /\ r_sess r = r_sess q /\ r_stale r = r_stale q
              /\ (mem (r_fam q) F = true -> r_llgr r = true /\ r_no_llgr r = false).
Proof.
  intros rib F r Hin. unfold rib_mark_llgr in Hin. apply filter_In in Hin. destruct Hin as [Hin Hn].
  apply in_map_iff in Hin. destruct Hin as [q [Hq Hin]].
  exists q. unfold in_fams in *. destruct (mem (r_fam q) F) eqn:E; subst r; cbn in *; repeat split; try reflexivity; try assumption.
  - rewrite E in Hn. cbn in Hn. destruct (r_no_llgr q); [discriminate | reflexivity].
  - intros; discriminate.
  - intros; discriminate.
Qed.

Lemma in_insert : forall rib r q,
    In q (rib_insert rib r) -> q = r \/ In q rib.
Proof.
  intros rib r q H. unfold rib_insert in H. apply in_app_or in H. destruct H as [H|[H|[]]].
  - right. apply filter_In in H. tauto.
  - left. symmetry. exact H.
Qed.

Lemma mem_nil_list : forall (l : list N), (forall f, mem f l = false) -> l = [].
Proof.
  intros [|x r] H; [reflexivity|]. specialize (H x). unfold mem in H. cbn in H. rewrite N.eqb_refl in H. discriminate.
Qed.

Lemma mem_app : forall f a b, mem f (a ++ b) = mem f a || mem f b.
Proof. intros. unfold mem. apply existsb_app. Qed.

Lemma mem_filter : forall f p l, mem f (filter p l) = mem f l && p f.
Proof.
  intros f p l. destruct (mem f (filter p l)) eqn:E.
  - apply mem_In in E. apply filter_In in E. destruct E as [Hi Hp]. apply mem_In in Hi. rewrite Hi, Hp. reflexivity.
  - apply mem_false_In in E. destruct (mem f l) eqn:Hl; [|reflexivity]. destruct (p f) eqn:Hp; [|reflexivity].
    exfalso. apply E. apply filter_In. split; [apply mem_In; assumption | assumption].
Qed.

Lemma mem_cons : forall f x r, mem f (x :: r) = (f =? x) || mem f r.
Proof. reflexivity. Qed.

(* the stale-family list built at a GR drop: the GR families plus the LLGR families *)
Lemma mem_stale_fold : forall ll (acc : list fam) f,
    mem f (fold_left (fun acc f => if mem f acc then acc else acc ++ [f]) ll acc) = mem f acc || mem f ll.
Proof.
  induction ll as [|x r IH]; intros acc f; cbn [fold_left].
  - change (mem f []) with false. rewrite orb_false_r. reflexivity.
  - rewrite IH, mem_cons. destruct (mem x acc) eqn:E.
    + destruct (f =? x) eqn:Ef; [|reflexivity]. apply N.eqb_eq in Ef; subst. rewrite E. reflexivity.
    + rewrite mem_app, mem_cons. change (mem f []) with false. rewrite orb_false_r, orb_assoc. reflexivity.
Qed.

(* ------------------------------------------------------------ the invariant *)

(* facts that hold in every phase *)
Record ginv (h : hstate) : Prop := {
  gi_gen : forall r, In r (h_rib h) -> r_sess r <= h_gen h;
  gi_sess : forall s, h_sess h = Some s ->
      s_gen s = h_gen h /\ h_rtimer h = false /\ h_ltimers h = []
      /\ subset_b (fams_of_gr (s_gr s)) (s_fams s) = true
      /\ subset_b (fams_of_llgr (s_llgr s)) (s_fams s) = true
      /\ (forall r, In r (h_rib h) -> r_sess r = s_gen s ->
            r_stale r = false /\ r_llgr r = false /\ mem (r_fam r) (s_fams s) = true)
}.

(* facts per phase of GrState *)
Definition pinv (h : hstate) : Prop :=
  match h_gr h with
  | GIdle =>
      h_rtimer h = false /\ h_ltimers h = [] /\
      forall r, In r (h_rib h) -> retained h r = false
  | GPeerReconnected pending fl =>
      h_rtimer h = false /\ h_ltimers h = [] /\
      forall r, In r (h_rib h) -> retained h r = true ->
                mem (r_fam r) pending = true
                /\ (exists s, h_sess h = Some s /\ mem (r_fam r) (fams_of_gr (s_gr s)) = true)
                /\ (if fl then r_llgr r = true else r_stale r = true)
  | GPeerRestarting stale llgr =>
      h_sess h = None /\ h_rtimer h = true /\ h_ltimers h = [] /\
      forall r, In r (h_rib h) -> mem (r_fam r) stale = true /\ r_stale r = true
  | GLlgrStaling rem =>
      h_sess h = None /\ h_rtimer h = false /\ (forall f, mem f (h_ltimers h) = mem f rem) /\
      forall r, In r (h_rib h) -> mem (r_fam r) rem = true /\ r_llgr r = true
  end.

Definition inv (h : hstate) : Prop := ginv h /\ pinv h.

Lemma inv_stale_ok : forall h, inv h -> stale_ok h = true.
Proof.
  intros h [_ Hp]. unfold stale_ok. apply forallb_forall. intros r Hin. unfold pinv in Hp.
  destruct (retained h r) eqn:Er; [cbn [negb orb] | reflexivity].
  unfold covered, eor_awaited. destruct (h_gr h) as [|stale llgr|rem|pending fl] eqn:Eg.
  - destruct Hp as [_ [_ Hr]]. rewrite (Hr r Hin) in Er. discriminate.
  - destruct Hp as [_ [Hrt _]]. rewrite Hrt. reflexivity.
  - destruct Hp as [_ [_ [Hlt Hr]]]. rewrite Hlt. destruct (Hr r Hin) as [Hm _]. rewrite Hm. rewrite orb_true_r. reflexivity.
  - destruct Hp as [_ [_ Hr]]. destruct (Hr r Hin Er) as [Hm [[s [Hs _]] _]]. rewrite Hs, Hm. apply orb_true_r.
Qed.

Lemma inv_h0 : inv h0.
Proof.
  split.
  - constructor; cbn; [intros r [] | intros s H; discriminate].
  - cbn. repeat split. intros r [].
Qed.

(* with no session every route is retained *)
Lemma retained_no_session : forall h r, h_sess h = None -> retained h r = true.
Proof. intros h r H. unfold retained. rewrite H. reflexivity. Qed.

(* in phases that allow no retained route, no session means no route at all *)
Lemma idle_no_session_empty : forall h,
    pinv h -> h_gr h = GIdle -> h_sess h = None -> h_rib h = [].
Proof.
  intros h Hp Hg Hs. unfold pinv in Hp. rewrite Hg in Hp. destruct Hp as [_ [_ Hr]].
  destruct (h_rib h) as [|r rest]; [reflexivity|]. specialize (Hr r (or_introl eq_refl)).
  rewrite (retained_no_session h r Hs) in Hr. discriminate.
Qed.

Lemma reconnected_no_session_empty : forall h p fl,
    pinv h -> h_gr h = GPeerReconnected p fl -> h_sess h = None -> h_rib h = [].
Proof.
  intros h p fl Hp Hg Hs. unfold pinv in Hp. rewrite Hg in Hp. destruct Hp as [_ [_ Hr]].
  destruct (h_rib h) as [|r rest]; [reflexivity|].
  destruct (Hr r (or_introl eq_refl) (retained_no_session h r Hs)) as [_ [[s [Hs' _]] _]]. congruence.
Qed.

(* ------------------------------------------------------------ preservation, event by event *)

Ltac open_inv h Hinv :=
  let Hgen := fresh "Hgen" in let Hsess := fresh "Hsess" in let Hp := fresh "Hp" in
  destruct Hinv as [[Hgen Hsess] Hp]; unfold pinv in Hp;
  destruct h as [g rt lt rib S gen ad]; cbn [h_gr h_rtimer h_ltimers h_rib h_sess h_gen h_admin_down] in *.

Lemma inv_admin : forall h b, inv h -> inv (h_step h (HSetAdminDown b)).
Proof.
  intros h b Hinv. open_inv h Hinv. cbn [h_step h_gr h_rtimer h_ltimers h_rib h_sess h_gen].
  split; [constructor; assumption | exact Hp].
Qed.

(* the end of a connection that negotiated nothing (apply_disconnect, else branch) *)
Lemma inv_apply_none : forall h, inv h -> inv (apply_disconnect h None None).
Proof.
  intros h Hinv.
  open_inv h Hinv. cbn [apply_disconnect upd_h h_gr h_rtimer h_ltimers h_rib h_sess h_gen].
  split.
  - constructor; cbn [h_rib h_gen h_sess h_rtimer h_ltimers]; [assumption|].
    intros s Hs. destruct (Hsess s Hs) as [H1 [H2 [H3 [H4 [H5 H6]]]]]. subst rt.
    refine (conj H1 (conj _ (conj H3 (conj H4 (conj H5 H6))))). destruct (is_peer_restarting g); reflexivity.
  - unfold pinv. cbn [h_gr h_rtimer h_ltimers h_rib h_sess].
    destruct g as [|stale llgr|rem|p fl]; cbn [is_peer_restarting]; try exact Hp.
    destruct Hp as [H1 H2]. split; [reflexivity | exact H2].
Qed.

Lemma inv_fail : forall h, inv h -> inv (h_step h HFailedConnect).
Proof.
  intros h Hinv. cbn [h_step]. destruct (h_admin_down h); [exact Hinv|].
  destruct (h_sess h) eqn:Es0; [exact Hinv|]. apply inv_apply_none. exact Hinv.
Qed.

Lemma inv_announce : forall h f id nl lc, inv h -> inv (h_step h (HAnnounce f id nl lc)).
Proof.
  intros h f id nl lc Hinv. cbn [h_step]. destruct (h_sess h) as [s|] eqn:Es; [|exact Hinv].
  destruct (mem f (s_fams s)) eqn:Ef; [|exact Hinv].
  open_inv h Hinv. subst S. cbn [upd_h].
  destruct (Hsess s eq_refl) as [Hg [Hrt [Hlt [Hsg [Hsl Hcur]]]]].
  set (nr := {| r_fam := f; r_id := id; r_sess := s_gen s; r_stale := false; r_llgr := false;
                r_no_llgr := nl; r_llgr_comm := lc |}).
  assert (retained {| h_gr := g; h_rtimer := rt; h_ltimers := lt; h_rib := rib_insert rib nr;
                      h_sess := Some s; h_gen := gen; h_admin_down := ad |} nr = false) as Hnr
      by (unfold retained; cbn; rewrite N.eqb_refl; reflexivity).
  split.
  - constructor; cbn [h_rib h_gen h_sess h_rtimer h_ltimers].
    + intros r Hin. apply in_insert in Hin. destruct Hin as [->|Hin]; [cbn; lia | apply Hgen; exact Hin].
    + intros s' Hs'. inversion Hs'; subst s'. repeat split; try assumption;
        apply in_insert in H; destruct H as [->|Hin]; try reflexivity; try exact Ef; apply (Hcur r Hin H0).
  - unfold pinv. cbn [h_gr h_rtimer h_ltimers h_rib h_sess].
    destruct g as [|stale llgr|rem|p fl].
    + destruct Hp as [H1 [H2 H3]]. repeat split; try assumption. intros r Hin.
      apply in_insert in Hin. destruct Hin as [->|Hin]; [exact Hnr|].
      specialize (H3 r Hin). unfold retained in *. cbn in *. exact H3.
    + destruct Hp as [Hn _]. discriminate.
    + destruct Hp as [Hn _]. discriminate.
    + destruct Hp as [H1 [H2 H3]]. split; [exact H1|]. split; [exact H2|]. intros r Hin Hret.
      apply in_insert in Hin. destruct Hin as [->|Hin].
      * exfalso. unfold retained in Hret. cbn in Hret. rewrite N.eqb_refl in Hret. discriminate.
      * apply (H3 r Hin). unfold retained in *. cbn in *. exact Hret.
Qed.

Lemma retained_indep : forall g rt lt rib S gen ad g' rt' lt' rib' ad' r,
    retained {| h_gr := g; h_rtimer := rt; h_ltimers := lt; h_rib := rib; h_sess := S; h_gen := gen; h_admin_down := ad |} r =
    retained {| h_gr := g'; h_rtimer := rt'; h_ltimers := lt'; h_rib := rib'; h_sess := S; h_gen := gen; h_admin_down := ad' |} r.
Proof. reflexivity. Qed.

Lemma inv_eor : forall h f, inv h -> inv (h_step h (HEor f)).
Proof.
  intros h f Hinv. cbn [h_step]. destruct (h_sess h) as [s|] eqn:Es; [|exact Hinv].
  destruct (s_gr s) as [gg|] eqn:Egr; [|exact Hinv].
  open_inv h Hinv. subst S.
  destruct (Hsess s eq_refl) as [Hg [Hrt [Hlt [Hsg [Hsl Hcur]]]]].
  destruct g as [|stale llgr|rem|p fl].
  - (* Idle: nothing happens *)
    cbn [gr_step upd_h delete_fams delete_llgr_fams flat_map]. rewrite drop_stale_nil, drop_llgr_stale_nil.
    split; [constructor; assumption | exact Hp].
  - destruct Hp as [Hn _]. discriminate.
  - destruct Hp as [Hn _]. discriminate.
  - destruct Hp as [H1 [H2 H3]].
    (* the routes that survive the purge *)
    set (rib' := if fl then rib_drop_llgr_stale (rib_drop_stale rib []) [f]
                 else rib_drop_llgr_stale (rib_drop_stale rib [f]) []).
    assert (forall r, In r rib' -> In r rib /\ (r_fam r = f -> if fl then r_llgr r = false else r_stale r = false)) as Hsub.
    { intros r Hin. subst rib'. destruct fl.
      - rewrite drop_stale_nil in Hin. apply in_drop_llgr_stale in Hin. destruct Hin as [Hin Hn]. split; [exact Hin|].
        intros Hf. rewrite Hf, mem_cons, N.eqb_refl in Hn. cbn in Hn. exact Hn.
      - rewrite drop_llgr_stale_nil in Hin. apply in_drop_stale in Hin. destruct Hin as [Hin Hn]. split; [exact Hin|].
        intros Hf. rewrite Hf, mem_cons, N.eqb_refl in Hn. cbn in Hn. exact Hn. }
    assert (h_step_eq : 
               (let '(g0, outs) := gr_step (GPeerReconnected p fl) (GEorReceived f) in
                upd_h {| h_gr := GPeerReconnected p fl; h_rtimer := rt; h_ltimers := lt; h_rib := rib;
                         h_sess := Some s; h_gen := gen; h_admin_down := ad |} g0 rt lt
                      (rib_drop_llgr_stale (rib_drop_stale rib (delete_fams outs)) (delete_llgr_fams outs))) =
               {| h_gr := match fremove f p with [] => GIdle | _ => GPeerReconnected (fremove f p) fl end;
                  h_rtimer := rt; h_ltimers := lt; h_rib := rib'; h_sess := Some s; h_gen := gen; h_admin_down := ad |}).
    { subst rib'. destruct fl; cbn; destruct (fremove f p); reflexivity. }
    rewrite h_step_eq. clear h_step_eq.
    split.
    + constructor; cbn [h_rib h_gen h_sess h_rtimer h_ltimers].
      * intros r Hin. apply Hgen. apply Hsub. exact Hin.
      * intros s' Hs'. inversion Hs'; subst s'. repeat split; try assumption; apply (Hcur r); try assumption; apply Hsub; assumption.
    + assert (forall r, In r rib' ->
                retained {| h_gr := GIdle; h_rtimer := rt; h_ltimers := lt; h_rib := rib'; h_sess := Some s;
                            h_gen := gen; h_admin_down := ad |} r = true ->
                mem (r_fam r) (fremove f p) = true
                /\ (exists s0, Some s = Some s0 /\ mem (r_fam r) (fams_of_gr (s_gr s0)) = true)
                /\ (if fl then r_llgr r = true else r_stale r = true)) as Hkey.
      { intros r Hin Hret. destruct (Hsub r Hin) as [Hin0 Hf].
        destruct (H3 r Hin0 Hret) as [Ha [Hb Hc]]. split; [|split; assumption].
        rewrite mem_fremove, Ha. cbn [andb]. destruct (r_fam r =? f) eqn:E; [|reflexivity].
        apply N.eqb_eq in E. specialize (Hf E). destruct fl; congruence. }
      unfold pinv. cbn [h_gr h_rtimer h_ltimers h_rib h_sess].
      destruct (fremove f p) as [|x xs] eqn:Ep.
      * split; [exact H1|]. split; [exact H2|]. intros r Hin.
        match goal with |- ?X = false => destruct X eqn:Er; [|reflexivity] end.
        destruct (Hkey r Hin Er) as [Hm _]. discriminate.
      * split; [exact H1|]. split; [exact H2|]. intros r Hin Hret. apply (Hkey r Hin). exact Hret.
Qed.

Lemma delete_fams_expired : forall e lp,
    delete_fams (match e with [] => [] | _ :: _ => [GDeleteStaleRoutes e] end ++ [GStartLlgrTimers lp]) = e.
Proof. intros [|x r] lp; cbn; [reflexivity | rewrite app_nil_r; reflexivity]. Qed.

Lemma start_llgr_expired : forall e lp,
    start_llgr (match e with [] => [] | _ :: _ => [GDeleteStaleRoutes e] end ++ [GStartLlgrTimers lp]) = Some lp.
Proof. intros [|x r] lp; reflexivity. Qed.

(* the restart-timer handler run in phase PeerRestarting with no LLGR timer armed *)
Lemma restart_handler_inv : forall h stale llgr,
    inv h -> h_gr h = GPeerRestarting stale llgr -> inv (restart_handler h []).
Proof.
  intros h stale llgr Hinv Hg. open_inv h Hinv. subst g. destruct Hp as [HS [Hrt [Hlt Hr]]]. subst S rt lt.
  unfold restart_handler. cbn [h_gr h_rib].
  destruct llgr as [lp|].
  - cbn [gr_step]. rewrite delete_fams_expired, start_llgr_expired. cbn [upd_h].
    set (rem := dedup (map fst lp)).
    split.
    + constructor; cbn [h_rib h_gen h_sess]; [|intros s Hs; discriminate].
      intros r Hin. apply in_mark_llgr in Hin. destruct Hin as [q [Hq [_ [Hs _]]]]. rewrite Hs.
      apply Hgen. apply in_drop in Hq. tauto.
    + unfold pinv. cbn [h_gr h_rtimer h_ltimers h_rib h_sess].
      split; [reflexivity|]. split; [reflexivity|]. split; [intros f; reflexivity|].
      intros r Hin. apply in_mark_llgr in Hin. destruct Hin as [q [Hq [Hf [_ [_ Hm]]]]].
      apply in_drop in Hq. destruct Hq as [Hq Hne]. destruct (Hr q Hq) as [Hst _].
      rewrite mem_filter, Hst in Hne. cbn [andb] in Hne. apply negb_false_iff in Hne.
      split; [rewrite Hf; exact Hne|].
      subst rem. rewrite mem_dedup in Hne. apply Hm. exact Hne.
  - cbn [gr_step delete_fams start_llgr flat_map fold_right upd_h]. rewrite app_nil_r.
    assert (rib_drop rib stale = []) as ->.
    { destruct (rib_drop rib stale) as [|r rest] eqn:E; [reflexivity|]. exfalso.
      assert (In r (rib_drop rib stale)) as Hin by (rewrite E; left; reflexivity).
      apply in_drop in Hin. destruct Hin as [Hin Hn]. destruct (Hr r Hin) as [Hst _]. congruence. }
    split.
    + constructor; cbn [h_rib h_gen h_sess]; [intros r [] | intros s Hs; discriminate].
    + unfold pinv. cbn. repeat split. intros r [].
Qed.

Lemma inv_rtimer : forall h, inv h -> inv (h_step h HRestartTimer).
Proof.
  intros h Hinv. cbn [h_step]. destruct (h_rtimer h) eqn:Ert; [|exact Hinv].
  destruct Hinv as [Hg Hp]. pose proof Hp as Hp'. unfold pinv in Hp'.
  destruct (h_gr h) as [|stale llgr|rem|p fl] eqn:Eg.
  - destruct Hp' as [H _]. congruence.
  - destruct Hp' as [_ [_ [Hlt _]]]. rewrite Hlt. apply (restart_handler_inv h stale llgr); [split; assumption | exact Eg].
  - destruct Hp' as [_ [H _]]. congruence.
  - destruct Hp' as [H _]. congruence.
Qed.

(* one LLGR handler in phase LlgrStaling *)
Lemma llgr_step_eq : forall rem rt lt rib S gen ad f,
    llgr_handler {| h_gr := GLlgrStaling rem; h_rtimer := rt; h_ltimers := lt; h_rib := rib; h_sess := S;
                    h_gen := gen; h_admin_down := ad |} f =
    {| h_gr := match fremove f rem with [] => GIdle | _ => GLlgrStaling (fremove f rem) end;
       h_rtimer := rt; h_ltimers := lt; h_rib := rib_drop_llgr_stale rib [f]; h_sess := S;
       h_gen := gen; h_admin_down := ad |}.
Proof. intros. unfold llgr_handler. cbn. destruct (fremove f rem); reflexivity. Qed.

Lemma llgr_routes_after : forall rib rem f r,
    (forall q, In q rib -> mem (r_fam q) rem = true /\ r_llgr q = true) ->
    In r (rib_drop_llgr_stale rib [f]) ->
    In r rib /\ mem (r_fam r) (fremove f rem) = true /\ r_llgr r = true.
Proof.
  intros rib rem f r Hr Hin. apply in_drop_llgr_stale in Hin. destruct Hin as [Hin Hn].
  destruct (Hr r Hin) as [Hm Hl]. split; [exact Hin|]. split; [|exact Hl].
  rewrite Hl, andb_true_r, mem_cons in Hn. change (mem (r_fam r) []) with false in Hn. rewrite orb_false_r in Hn.
  rewrite mem_fremove, Hm, Hn. reflexivity.
Qed.

Lemma inv_ltimer : forall h f, inv h -> inv (h_step h (HLlgrTimer f)).
Proof.
  intros h f Hinv. cbn [h_step]. destruct (mem f (h_ltimers h)) eqn:Em; [|exact Hinv].
  open_inv h Hinv.
  destruct g as [|stale llgr|rem|p fl].
  - destruct Hp as [_ [H _]]. subst lt. discriminate.
  - destruct Hp as [_ [_ [H _]]]. subst lt. discriminate.
  - destruct Hp as [HS [Hrt [Hlt Hr]]]. subst S rt. unfold upd_h. cbn [h_gr h_rtimer h_ltimers h_rib h_sess h_gen h_admin_down]. rewrite llgr_step_eq.
    split.
    + constructor; cbn [h_rib h_gen h_sess]; [|intros s Hs; discriminate].
      intros r Hin. apply Hgen. apply (llgr_routes_after rib rem f r Hr Hin).
    + unfold pinv. cbn [h_gr h_rtimer h_ltimers h_rib h_sess].
      assert (forall x, mem x (fremove f lt) = mem x (fremove f rem)) as Hlt'
          by (intros x; rewrite !mem_fremove, Hlt; reflexivity).
      destruct (fremove f rem) as [|y ys] eqn:Er.
      * split; [reflexivity|]. split; [apply mem_nil_list; exact Hlt'|].
        intros r Hin. destruct (llgr_routes_after rib rem f r Hr Hin) as [_ [Hm _]]. rewrite Er in Hm. discriminate.
      * split; [reflexivity|]. split; [reflexivity|]. split; [exact Hlt'|].
        intros r Hin. destruct (llgr_routes_after rib rem f r Hr Hin) as [_ [Hm Hl]]. rewrite Er in Hm. tauto.
  - destruct Hp as [_ [H _]]. subst lt. discriminate.
Qed.

(* force_down in phase LlgrStaling: every armed LLGR timer runs its handler *)
Definition fq (rem0 : fset) (rib0 : list route) (gen : N) (P : list fam) (hh : hstate) : Prop :=
  h_rtimer hh = false /\ h_ltimers hh = [] /\ h_sess hh = None /\ h_gen hh = gen
  /\ (forall r, In r (h_rib hh) -> In r rib0)
  /\ match h_gr hh with
     | GIdle => h_rib hh = []
     | GLlgrStaling rem' =>
         (forall x, mem x rem' = true -> mem x rem0 = true /\ mem x P = false)
         /\ (forall r, In r (h_rib hh) -> mem (r_fam r) rem' = true /\ r_llgr r = true)
     | _ => False
     end.

Lemma fq_step : forall rem0 rib0 gen P hh f, fq rem0 rib0 gen P hh -> fq rem0 rib0 gen (f :: P) (llgr_handler hh f).
Proof.
  intros rem0 rib0 gen P hh f [H1 [H2 [H3 [H4 [H5 H6]]]]].
  destruct hh as [g rt lt rib S gn ad]. cbn [h_gr h_rtimer h_ltimers h_rib h_sess h_gen] in *.
  destruct g as [|stale llgr|rem'|p fl]; try contradiction.
  - unfold llgr_handler. cbn. subst rib. unfold fq. cbn. repeat split; try assumption; try (intros r []); try contradiction.
  - rewrite llgr_step_eq. destruct H6 as [Hx Hr]. unfold fq. cbn [h_gr h_rtimer h_ltimers h_rib h_sess h_gen].
    split; [exact H1|]. split; [exact H2|]. split; [exact H3|]. split; [exact H4|].
    split; [intros r Hin; apply H5; apply (llgr_routes_after rib rem' f r Hr Hin)|].
    destruct (fremove f rem') as [|y ys] eqn:Er.
    + destruct (rib_drop_llgr_stale rib [f]) as [|r rest] eqn:E; [reflexivity|]. exfalso.
      assert (In r (rib_drop_llgr_stale rib [f])) as Hin by (rewrite E; left; reflexivity).
      destruct (llgr_routes_after rib rem' f r Hr Hin) as [_ [Hm _]]. rewrite Er in Hm. discriminate.
    + rewrite <- Er. split.
      * intros x Hm. rewrite mem_fremove in Hm. apply andb_true_iff in Hm. destruct Hm as [Hm Hne].
        destruct (Hx x Hm) as [Ha Hb]. split; [exact Ha|]. rewrite mem_cons, Hb. apply negb_true_iff in Hne. rewrite Hne. reflexivity.
      * intros r Hin. destruct (llgr_routes_after rib rem' f r Hr Hin) as [_ Hc]. exact Hc.
Qed.

Lemma fq_fold : forall L rem0 rib0 gen P hh,
    fq rem0 rib0 gen P hh -> fq rem0 rib0 gen (rev L ++ P) (fold_left llgr_handler L hh).
Proof.
  induction L as [|f r IH]; intros rem0 rib0 gen P hh H; cbn [fold_left rev app]; [exact H|].
  rewrite <- app_assoc. cbn [app]. apply IH. apply fq_step. exact H.
Qed.

Lemma inv_force_timers : forall h, inv h -> inv (force_timers h).
Proof.
  intros h Hinv. unfold force_timers. cbv zeta. destruct (h_rtimer h) eqn:Ert.
  - (* the restart timer is armed: phase PeerRestarting, no LLGR timer *)
    destruct Hinv as [Hg Hp]. pose proof Hp as Hp'. unfold pinv in Hp'.
    destruct (h_gr h) as [|stale llgr|rem|p fl] eqn:Eg.
    + destruct Hp' as [H _]. congruence.
    + destruct Hp' as [_ [_ [Hlt _]]]. rewrite Hlt. cbn [fold_left].
      apply (restart_handler_inv h stale llgr); [split; assumption | exact Eg].
    + destruct Hp' as [_ [H _]]. congruence.
    + destruct Hp' as [H _]. congruence.
  - open_inv h Hinv. subst rt. unfold upd_h. cbn [h_gr h_rtimer h_ltimers h_rib h_sess h_gen h_admin_down].
    destruct g as [|stale llgr|rem|p fl].
    + destruct Hp as [_ [Hlt Hr]]. subst lt. cbn [fold_left]. split; [constructor; assumption|].
      unfold pinv. cbn [h_gr h_rtimer h_ltimers h_rib h_sess]. split; [reflexivity|]. split; [reflexivity|]. exact Hr.
    + destruct Hp as [_ [H _]]. discriminate.
    + destruct Hp as [HS [_ [Hlt Hr]]]. subst S.
      assert (fq rem rib gen []
                 {| h_gr := GLlgrStaling rem; h_rtimer := false; h_ltimers := []; h_rib := rib; h_sess := None;
                    h_gen := gen; h_admin_down := ad |}) as H0.
      { unfold fq. cbn. repeat split; try tauto; try apply Hr; assumption. }
      pose proof (fq_fold lt rem rib gen [] _ H0) as HF. rewrite app_nil_r in HF.
      set (hh := fold_left llgr_handler lt _) in *.
      destruct HF as [F1 [F2 [F3 [F4 [F5 F6]]]]].
      split.
      * constructor; [intros r Hin; rewrite F4; apply Hgen; apply F5; exact Hin | intros s Hs; congruence].
      * unfold pinv. destruct (h_gr hh) as [|stale llgr|rem'|p fl]; try contradiction.
        -- split; [exact F1|]. split; [exact F2|]. rewrite F6. intros r [].
        -- destruct F6 as [Hx Hr']. split; [exact F3|]. split; [exact F1|].
           assert (rem' = []) as ->.
           { apply mem_nil_list. intros x. destruct (mem x rem') eqn:E; [|reflexivity]. destruct (Hx x E) as [Ha Hb].
             rewrite <- Hlt in Ha. apply mem_In in Ha. apply in_rev in Ha. apply mem_In in Ha. pose proof (eq_trans (eq_sym Ha) Hb) as Hc. discriminate Hc. }
           split; [intros f; rewrite F2; reflexivity|]. exact Hr'.
    + destruct Hp as [_ [Hlt Hr]]. subst lt. cbn [fold_left]. split; [constructor; assumption|].
      unfold pinv. cbn [h_gr h_rtimer h_ltimers h_rib h_sess]. split; [reflexivity|]. split; [reflexivity|]. exact Hr.
Qed.

Lemma outs_restart_est : forall d,
    let outs := GStopTimer :: match d with [] => [] | _ :: _ => [GDeleteStaleRoutes d] end in
    delete_fams outs = d /\ delete_llgr_fams outs = [] /\ has_stop_llgr outs = false.
Proof. intros [|x r]; cbn; repeat split; rewrite ?app_nil_r; reflexivity. Qed.

Lemma outs_llgr_est : forall d,
    let outs := GStopLlgrTimers :: match d with [] => [] | _ :: _ => [GDeleteLlgrStaleRoutes d] end in
    delete_fams outs = [] /\ delete_llgr_fams outs = d /\ has_stop_llgr outs = true.
Proof. intros [|x r]; cbn; repeat split; rewrite ?app_nil_r; reflexivity. Qed.

Lemma gr_step_restart_est : forall stale llgr l,
    gr_step (GPeerRestarting stale llgr) (GSessionEstablished l) =
    (match dedup l with [] => GIdle | _ :: _ => GPeerReconnected (dedup l) false end,
     GStopTimer :: match filter (fun f => negb (mem f (dedup l))) stale with
                   | [] => []
                   | _ :: _ => [GDeleteStaleRoutes (filter (fun f => negb (mem f (dedup l))) stale)]
                   end).
Proof. intros stale [lp|] l; reflexivity. Qed.

Lemma gr_step_llgr_est : forall rem l,
    gr_step (GLlgrStaling rem) (GSessionEstablished l) =
    (match dedup l with [] => GIdle | _ :: _ => GPeerReconnected (dedup l) true end,
     GStopLlgrTimers :: match filter (fun f => negb (mem f (dedup l))) rem with
                        | [] => []
                        | _ :: _ => [GDeleteLlgrStaleRoutes (filter (fun f => negb (mem f (dedup l))) rem)]
                        end).
Proof. intros rem l; reflexivity. Qed.

(* [fam] and [N] are convertible but not syntactically equal inside [match] nodes, which
   defeats [rewrite]; the three projections of an output list are replaced by conversion *)
Ltac rw_outs E1 E2 E3 :=
  repeat match goal with
  | |- context [delete_fams ?o] =>
      lazymatch o with _ :: _ => idtac end;
      let t := type of E1 in
      match t with _ = ?d => replace (delete_fams o) with d by (symmetry; exact E1) end
  end;
  repeat match goal with
  | |- context [delete_llgr_fams ?o] =>
      lazymatch o with _ :: _ => idtac end;
      let t := type of E2 in
      match t with _ = ?d => replace (delete_llgr_fams o) with d by (symmetry; exact E2) end
  end;
  repeat match goal with
  | |- context [has_stop_llgr ?o] =>
      lazymatch o with _ :: _ => idtac end;
      let t := type of E3 in
      match t with _ = ?d => replace (has_stop_llgr o) with d by (symmetry; exact E3) end
  end.

Lemma norm_gr_subset : forall fams gr, subset_b (fams_of_gr (norm_gr fams gr)) fams = true.
Proof.
  intros fams [[[l rt] nb]|]; [|reflexivity]. unfold norm_gr.
  match goal with |- context [filter ?p l] => destruct (filter p l) as [|x xs] eqn:E end; [reflexivity|].
  cbn [fams_of_gr]. rewrite <- E. unfold subset_b. apply forallb_forall. intros f Hin. apply filter_In in Hin. tauto.
Qed.

Lemma norm_llgr_subset : forall fams ll, subset_b (fams_of_llgr (norm_llgr fams ll)) fams = true.
Proof.
  intros fams [l|]; [|reflexivity]. unfold norm_llgr.
  match goal with |- context [filter ?p l] => destruct (filter p l) as [|x xs] eqn:E end; [reflexivity|].
  cbn [fams_of_llgr]. rewrite <- E. unfold subset_b. apply forallb_forall. intros f Hin.
  apply in_map_iff in Hin. destruct Hin as [e [He Hin]]. apply filter_In in Hin. subst f. tauto.
Qed.

Lemma inv_up : forall h fams gr0 ll0, inv h -> inv (h_step h (HUp fams gr0 ll0)).
Proof.
  intros h fams gr0 ll0 Hinv. cbn [h_step]. cbv zeta.
  pose proof (norm_gr_subset fams gr0) as Hwg. pose proof (norm_llgr_subset fams ll0) as Hwl.
  set (gr := norm_gr fams gr0) in *. set (ll := norm_llgr fams ll0) in *. clearbody gr ll.
  destruct (h_sess h) as [s0|] eqn:Es; [exact Hinv|].
  destruct (h_admin_down h) eqn:Ead; [exact Hinv|].
  open_inv h Hinv. subst S. subst ad.
  change (match gr with Some (l, _, _) => l | None => [] end) with (fams_of_gr gr).
  (* the part of the invariant that does not depend on the phase *)
  assert (forall g' lt' rib',
             (forall r, In r rib' -> In r rib) -> lt' = [] ->
             ginv {| h_gr := g'; h_rtimer := false; h_ltimers := lt'; h_rib := rib';
                     h_sess := Some {| s_gen := gen + 1; s_fams := fams; s_gr := gr; s_llgr := ll |};
                     h_gen := gen + 1; h_admin_down := false |}) as Hginv.
  { intros g' lt' rib' Hsub Hlt'. constructor; cbn [h_rib h_gen h_sess h_rtimer h_ltimers].
    - intros r Hin. specialize (Hgen r (Hsub r Hin)). lia.
    - intros s Hs. inversion Hs; subst s. cbn [s_gen s_fams s_gr s_llgr].
      repeat split; try assumption; specialize (Hgen r (Hsub r H)); lia. }
  (* every old route is retained once the new session exists *)
  assert (forall g' rt' lt' rib' r, In r rib ->
             retained {| h_gr := g'; h_rtimer := rt'; h_ltimers := lt'; h_rib := rib';
                         h_sess := Some {| s_gen := gen + 1; s_fams := fams; s_gr := gr; s_llgr := ll |};
                         h_gen := gen + 1; h_admin_down := false |} r = true) as Hold.
  { intros g' rt' lt' rib' r Hin. unfold retained. cbn. specialize (Hgen r Hin).
    assert (r_sess r =? gen + 1 = false) as -> by lia. reflexivity. }
  destruct g as [|stale llgr|rem|p fl].
  - (* Idle: no route is left from before *)
    assert (rib = []) as -> by (apply (idle_no_session_empty
        {| h_gr := GIdle; h_rtimer := rt; h_ltimers := lt; h_rib := rib; h_sess := None; h_gen := gen; h_admin_down := false |});
        [exact Hp | reflexivity | reflexivity]).
    destruct Hp as [_ [Hlt _]]. subst lt. cbn.
    split; [apply Hginv; [intros r H; exact H | reflexivity]|].
    unfold pinv. cbn. repeat split. intros r [].
  - destruct Hp as [_ [_ [Hlt Hr]]]. subst lt. rewrite gr_step_restart_est.
    set (gr_set := dedup (fams_of_gr gr)).
    set (dropped := filter (fun f => negb (mem f gr_set)) stale).
    pose proof (outs_restart_est dropped) as E. cbv zeta in E. destruct E as [E1 [E2 E3]]. cbv beta iota zeta. rw_outs E1 E2 E3.
    rewrite drop_llgr_stale_nil.
    assert (forall r, In r (rib_drop_stale rib dropped) ->
                      In r rib /\ mem (r_fam r) gr_set = true /\ r_stale r = true) as Hkeep.
    { intros r Hin. apply in_drop_stale in Hin. destruct Hin as [Hin Hn]. destruct (Hr r Hin) as [Hst Hs].
      split; [exact Hin|]. split; [|exact Hs]. rewrite Hs, andb_true_r in Hn. subst dropped.
      rewrite mem_filter, Hst in Hn. cbn [andb] in Hn. apply negb_false_iff in Hn. exact Hn. }
    split; [apply Hginv; [intros r H; apply (Hkeep r H) | reflexivity]|].
    unfold pinv. cbn [h_gr h_rtimer h_ltimers h_rib h_sess].
    destruct gr_set as [|x xs] eqn:Egs.
    + split; [reflexivity|]. split; [reflexivity|]. intros r Hin.
      destruct (Hkeep r Hin) as [_ [Hm _]]. discriminate.
    + split; [reflexivity|]. split; [reflexivity|]. intros r Hin _.
      destruct (Hkeep r Hin) as [_ [Hm Hs]]. split; [exact Hm|]. split; [|exact Hs].
      eexists. split; [reflexivity|]. cbn [s_gr]. rewrite <- Egs in Hm. subst gr_set. rewrite mem_dedup in Hm. exact Hm.
  - destruct Hp as [_ [_ [Hlt Hr]]]. rewrite gr_step_llgr_est.
    set (gr_set := dedup (fams_of_gr gr)).
    set (dropped := filter (fun f => negb (mem f gr_set)) rem).
    pose proof (outs_llgr_est dropped) as E. cbv zeta in E. destruct E as [E1 [E2 E3]]. cbv beta iota zeta. rw_outs E1 E2 E3.
    rewrite drop_stale_nil.
    assert (forall r, In r (rib_drop_llgr_stale rib dropped) ->
                      In r rib /\ mem (r_fam r) gr_set = true /\ r_llgr r = true) as Hkeep.
    { intros r Hin. apply in_drop_llgr_stale in Hin. destruct Hin as [Hin Hn]. destruct (Hr r Hin) as [Hst Hs].
      split; [exact Hin|]. split; [|exact Hs]. rewrite Hs, andb_true_r in Hn. subst dropped.
      rewrite mem_filter, Hst in Hn. cbn [andb] in Hn. apply negb_false_iff in Hn. exact Hn. }
    split; [apply Hginv; [intros r H; apply (Hkeep r H) | reflexivity]|].
    unfold pinv. cbn [h_gr h_rtimer h_ltimers h_rib h_sess].
    destruct gr_set as [|x xs] eqn:Egs.
    + split; [reflexivity|]. split; [reflexivity|]. intros r Hin.
      destruct (Hkeep r Hin) as [_ [Hm _]]. discriminate.
    + split; [reflexivity|]. split; [reflexivity|]. intros r Hin _.
      destruct (Hkeep r Hin) as [_ [Hm Hs]]. split; [exact Hm|]. split; [|exact Hs].
      eexists. split; [reflexivity|]. cbn [s_gr]. rewrite <- Egs in Hm. subst gr_set. rewrite mem_dedup in Hm. exact Hm.
  - (* PeerReconnected left over from a non-eligible drop: nothing is retained *)
    assert (rib = []) as -> by (apply (reconnected_no_session_empty
        {| h_gr := GPeerReconnected p fl; h_rtimer := rt; h_ltimers := lt; h_rib := rib; h_sess := None;
           h_gen := gen; h_admin_down := false |} p fl); [exact Hp | reflexivity | reflexivity]).
    destruct Hp as [_ [Hlt _]]. subst lt.
    assert (gr_step (GPeerReconnected p fl) (GSessionEstablished (fams_of_gr gr)) = (GPeerReconnected p fl, [])) as ->
        by (destruct fl; reflexivity).
    cbn.
    split; [apply Hginv; [intros r H; exact H | reflexivity]|].
    unfold pinv. cbn [h_gr h_rtimer h_ltimers h_rib h_sess]. split; [reflexivity|]. split; [reflexivity|]. intros r [].
Qed.

Lemma gr_step_drop_gr : forall g l rtm ll,
    (g = GIdle \/ exists p fl, g = GPeerReconnected p fl) ->
    gr_step g (GSessionDropped (Some (l, rtm)) ll) =
    (GPeerRestarting (fold_left (fun acc f => if mem f acc then acc else acc ++ [f])
                                (match ll with Some lp => map fst lp | None => [] end) l) ll,
     [GStartTimer rtm]).
Proof. intros g l rtm ll [->|[p [fl ->]]]; [|destruct fl]; reflexivity. Qed.

Lemma gr_step_drop_llgr : forall g lp,
    (g = GIdle \/ exists p fl, g = GPeerReconnected p fl) ->
    gr_step g (GSessionDropped None (Some lp)) = (GLlgrStaling (dedup (map fst lp)), [GStartLlgrTimers lp]).
Proof. intros g lp [->|[p [fl ->]]]; [|destruct fl]; reflexivity. Qed.

Lemma subset_b_mem : forall a b f, subset_b a b = true -> mem f a = true -> mem f b = true.
Proof.
  intros a b f Hs Hm. unfold subset_b in Hs. rewrite forallb_forall in Hs. apply Hs. apply mem_In. exact Hm.
Qed.

(* the disconnect handling, for whatever the eligibility decision was *)
Lemma down_core : forall g rt lt rib s gen ad (gr2 : option (list fam * N)) (llgr2 : option (list (fam * N))),
    inv {| h_gr := g; h_rtimer := rt; h_ltimers := lt; h_rib := rib; h_sess := Some s; h_gen := gen; h_admin_down := ad |} ->
    let gr_fams := match gr2 with Some (l, _) => l | None => [] end in
    let llgr_fams := match llgr2 with Some l => map fst l | None => [] end in
    let drop_fams := filter (fun f => negb (mem f gr_fams) && negb (mem f llgr_fams)) (s_fams s) in
    inv (apply_disconnect
           {| h_gr := g; h_rtimer := rt; h_ltimers := lt;
              h_rib := rib_restale (rib_drop rib drop_fams) (gr_fams ++ llgr_fams);
              h_sess := None; h_gen := gen; h_admin_down := ad |} gr2 llgr2).
Proof.
  intros g rt lt rib s gen ad gr2 llgr2 Hinv gr_fams llgr_fams drop_fams.
  destruct Hinv as [[Hgen Hsess] Hp]. unfold pinv in Hp.
  cbn [h_gr h_rtimer h_ltimers h_rib h_sess h_gen h_admin_down] in *.
  destruct (Hsess s eq_refl) as [Hg [Hrt [Hlt [Hsg [Hsl Hcur]]]]]. subst rt lt.
  (* the session is up: the phase is Idle or PeerReconnected *)
  assert (g = GIdle \/ exists p fl, g = GPeerReconnected p fl) as Hphase.
  { destruct g as [|stale llgr|rem|p fl]; [left; reflexivity | | | right; exists p, fl; reflexivity];
      destruct Hp as [Hn _]; discriminate. }
  (* every route of the peer is in a family of the session *)
  assert (forall q, In q rib -> mem (r_fam q) (s_fams s) = true) as Hfam.
  { intros q Hin.
    destruct (retained {| h_gr := g; h_rtimer := false; h_ltimers := []; h_rib := rib; h_sess := Some s;
                          h_gen := gen; h_admin_down := ad |} q) eqn:Er.
    - destruct Hphase as [->|[p [fl ->]]].
      + destruct Hp as [_ [_ Hr]]. rewrite (Hr q Hin) in Er. discriminate.
      + destruct Hp as [_ [_ Hr]]. destruct (Hr q Hin Er) as [_ [[s0 [Hs0 Hm]] _]]. inversion Hs0; subst s0.
        apply (subset_b_mem _ _ _ Hsg Hm).
    - unfold retained in Er. cbn in Er. apply orb_false_iff in Er. destruct Er as [Er _].
      apply orb_false_iff in Er. destruct Er as [Er _]. apply negb_false_iff in Er. apply N.eqb_eq in Er.
      apply (Hcur q Hin Er). }
  (* what is left after the drop is in a kept family and marked stale *)
  set (rib1 := rib_restale (rib_drop rib drop_fams) (gr_fams ++ llgr_fams)).
  assert (forall r, In r rib1 ->
             r_sess r <= gen /\ (mem (r_fam r) gr_fams || mem (r_fam r) llgr_fams) = true /\ r_stale r = true) as Hrib1.
  { intros r Hin. subst rib1. apply in_restale in Hin. destruct Hin as [q [Hq [Hf [Hs [_ [_ Hst]]]]]].
    apply in_drop in Hq. destruct Hq as [Hq Hnd].
    subst drop_fams. rewrite mem_filter, (Hfam q Hq) in Hnd. cbn [andb] in Hnd.
    assert (mem (r_fam q) gr_fams || mem (r_fam q) llgr_fams = true) as Hk
        by (destruct (mem (r_fam q) gr_fams), (mem (r_fam q) llgr_fams); cbn in *; congruence).
    split; [rewrite Hs; apply Hgen; exact Hq|]. split; [rewrite Hf; exact Hk|].
    apply Hst. rewrite mem_app. exact Hk. }
  unfold apply_disconnect. cbn [h_gr h_rib h_ltimers h_rtimer].
  destruct gr2 as [[l rtm]|].
  - rewrite (gr_step_drop_gr g l rtm llgr2 Hphase). cbn [existsb start_llgr fold_right upd_h h_sess h_gen h_admin_down].
    split.
    + constructor; cbn [h_rib h_gen h_sess]; [intros r Hin; apply (Hrib1 r Hin) | intros s0 Hs0; discriminate].
    + unfold pinv. cbn [h_gr h_rtimer h_ltimers h_rib h_sess].
      split; [reflexivity|]. split; [reflexivity|]. split; [reflexivity|]. intros r Hin.
      destruct (Hrib1 r Hin) as [_ [Hk Hst]]. split; [|exact Hst]. rewrite mem_stale_fold. exact Hk.
  - destruct llgr2 as [lp|].
    + rewrite (gr_step_drop_llgr g lp Hphase). cbn [existsb start_llgr fold_right upd_h h_sess h_gen h_admin_down].
      split.
      * constructor; cbn [h_rib h_gen h_sess]; [|intros s0 Hs0; discriminate].
        intros r Hin. apply in_mark_llgr in Hin. destruct Hin as [q [Hq [_ [Hs _]]]]. rewrite Hs. apply (Hrib1 q Hq).
      * unfold pinv. cbn [h_gr h_rtimer h_ltimers h_rib h_sess].
        split; [reflexivity|]. split; [reflexivity|]. split; [intros f; reflexivity|]. intros r Hin.
        apply in_mark_llgr in Hin. destruct Hin as [q [Hq [Hf [_ [_ Hm]]]]].
        destruct (Hrib1 q Hq) as [_ [Hk _]]. subst gr_fams llgr_fams. cbn [mem existsb orb] in Hk.
        change (mem (r_fam q) []) with false in Hk. cbn [orb] in Hk.
        split; [rewrite mem_dedup, Hf; exact Hk | apply Hm; exact Hk].
    + (* not eligible: nothing is kept *)
      assert (rib1 = []) as ->.
      { destruct rib1 as [|r rest] eqn:E; [reflexivity|]. exfalso.
        destruct (Hrib1 r (or_introl eq_refl)) as [_ [Hk _]]. subst gr_fams llgr_fams. discriminate. }
      cbn [upd_h h_sess h_gen h_admin_down h_gr h_rtimer h_ltimers h_rib].
      split.
      * constructor; cbn [h_rib h_gen h_sess]; [intros r [] | intros s0 Hs0; discriminate].
      * unfold pinv. cbn [h_gr h_rtimer h_ltimers h_rib h_sess].
        destruct Hphase as [->|[p [fl ->]]]; cbn [is_peer_restarting];
          (split; [reflexivity|]); (split; [reflexivity|]); intros r [].
Qed.

Lemma inv_down_of : forall h s r, inv h -> h_sess h = Some s -> inv (down_of h s r).
Proof.
  intros h s r Hinv Es. unfold down_of.
  destruct h as [g rt lt rib S gen ad]. cbn [h_gr h_rtimer h_ltimers h_rib h_sess h_gen h_admin_down] in *. subst S.
  cbv zeta. apply down_core. exact Hinv.
Qed.

Lemma inv_down : forall h r, inv h -> inv (h_step h (HDown r)).
Proof.
  intros h r Hinv. cbn [h_step]. destruct (h_sess h) as [s|] eqn:Es; [|exact Hinv].
  apply inv_down_of; assumption.
Qed.

Lemma inv_force : forall h, inv h -> inv (h_step h HForceDown).
Proof.
  intros h Hinv. cbn [h_step]. cbv zeta. pose proof (inv_force_timers h Hinv) as H2.
  destruct (h_sess (force_timers h)) as [s|] eqn:Es; [apply inv_down_of; assumption | exact H2].
Qed.

Lemma inv_step : forall h e, inv h -> inv (h_step h e).
Proof.
  intros h e Hinv. destruct e as [fams gr ll|f id nl lc|f|r| | |f| |b].
  - apply inv_up; assumption.
  - apply inv_announce; assumption.
  - apply inv_eor; assumption.
  - apply inv_down; assumption.
  - apply inv_fail; assumption.
  - apply inv_rtimer; assumption.
  - apply inv_ltimer; assumption.
  - apply inv_force; assumption.
  - apply inv_admin; assumption.
Qed.

Lemma inv_run : forall evs h, inv h -> inv (h_run h evs).
Proof.
  induction evs as [|e r IH]; intros h Hinv; [exact Hinv|].
  unfold h_run. cbn [fold_left]. apply IH. apply inv_step. exact Hinv.
Qed.

(* ------------------------------------------------------------ the invariant, for all histories *)

Lemma stale_ok_along_inv : forall evs h, inv h -> stale_ok_along h evs = true.
Proof.
  induction evs as [|e r IH]; intros h Hinv; [reflexivity|]. cbn [stale_ok_along].
  pose proof (inv_step h e Hinv) as Hinv'. rewrite (inv_stale_ok _ Hinv'). cbn [andb]. apply IH; assumption.
Qed.

(* Stale routes exist only while a restart timer or an LLGR timer is armed or an
   End-of-RIB is awaited on the re-established session: after every step of every
   history (sessions up with any negotiated GR / LLGR sets, announcements,
   End-of-RIB markers, drops for every reason, failed connection attempts, timer
   expiries, forced peer-down, admin-down in any order). *)
Theorem C10_stale_implies_timer_or_eor :
  forall (evs : list hevent),
    stale_ok_along h0 evs = true /\ stale_ok (h_run h0 evs) = true.
Proof.
  intros evs. split.
  - apply stale_ok_along_inv. exact inv_h0.
  - apply inv_stale_ok. apply inv_run. exact inv_h0.
Qed.

(* ------------------------------------------------------------ two connections of one neighbour *)

Lemma inv_establish : forall h fams gr ll, inv h -> inv (establish h fams gr ll).
Proof.
  intros h fams gr ll Hinv. unfold establish. apply inv_step. apply inv_step. apply inv_step. exact Hinv.
Qed.

Lemma inv_c_step : forall c e, inv (c_h c) -> inv (c_h (c_step c e)).
Proof.
  intros c e Hinv. destruct e as [e| | |fams gr ll]; cbn [c_step].
  - destruct e; cbn [c_h]; try (apply inv_step; exact Hinv).
    destruct (c_sib c); [apply inv_apply_none|]; apply inv_step; exact Hinv.
  - destruct (h_admin_down (c_h c)); exact Hinv.
  - destruct (c_sib c); cbn [c_h]; [apply inv_apply_none|]; exact Hinv.
  - destruct (c_sib c); [|exact Hinv]. destruct (h_sess (c_h c)); cbn [c_h];
      [apply inv_apply_none | apply inv_establish]; exact Hinv.
Qed.

Lemma inv_c_run : forall evs c, inv (c_h c) -> inv (c_h (c_run c evs)).
Proof.
  induction evs as [|e r IH]; intros c Hinv; [exact Hinv|].
  unfold c_run. cbn [fold_left]. apply IH. apply inv_c_step. exact Hinv.
Qed.

Lemma stale_ok_along_c_inv : forall evs c, inv (c_h c) -> stale_ok_along_c c evs = true.
Proof.
  induction evs as [|e r IH]; intros c Hinv; [reflexivity|]. cbn [stale_ok_along_c].
  pose proof (inv_c_step c e Hinv) as Hinv'. rewrite (inv_stale_ok _ Hinv'). cbn [andb]. apply IH; assumption.
Qed.

(* The invariant over histories in which the neighbour has a second connection (either
   role) registered with the arbiter at any point: opened while the first session is up or
   down, ending in OpenSent / OpenConfirm before or after the session drops, losing the
   collision against the Established session, or becoming the next session (with any
   negotiated GR / LLGR sets), interleaved with every event of the one-connection histories. *)
Theorem C10_stale_implies_timer_or_eor_two_connections :
  forall (evs : list cevent),
    stale_ok_along_c c0 evs = true /\ stale_ok (c_h (c_run c0 evs)) = true.
Proof.
  intros evs. split.
  - apply stale_ok_along_c_inv. exact inv_h0.
  - apply inv_stale_ok. apply inv_c_run. exact inv_h0.
Qed.

Lemma apply_gr_arms : forall h l rt ll,
    (forall rem, h_gr h <> GLlgrStaling rem) ->
    h_rtimer (apply_disconnect h (Some (l, rt)) ll) = true
    /\ is_peer_restarting (h_gr (apply_disconnect h (Some (l, rt)) ll)) = true.
Proof.
  intros h l rt ll Hn. unfold apply_disconnect. destruct ll;
  destruct (h_gr h) as [|stale [x|]|rem|p [|]];
    try (exfalso; apply (Hn rem); reflexivity); cbn; split; reflexivity.
Qed.

(* A second connection being registered does not take the drop of the Established session
   out of helper mode: in every reachable state, whether or not a second connection exists,
   the eligible drop of a session that negotiated GR arms the restart timer and enters
   PeerRestarting; and the drop does to the peer state exactly what it does without one. *)
Theorem C10_second_connection_does_not_suppress_helper_mode :
  forall (evs : list cevent) (r : reason) (s : session) l rt nb,
    let c := c_run c0 evs in
    h_sess (c_h c) = Some s -> s_gr s = Some (l, rt, nb) ->
    gr_applies r nb = true -> h_admin_down (c_h c) = false ->
    let c' := c_step c (CBase (HDown r)) in
    c_h c' = h_step (c_h c) (HDown r)
    /\ h_rtimer (c_h c') = true /\ is_peer_restarting (h_gr (c_h c')) = true
    /\ c_sib c' = c_sib c.
Proof.
  intros evs r s l rt nb c Hs Hgr Hap Had c'.
  pose proof (inv_c_run evs c0 inv_h0) as [Hg Hp]. fold c in Hg, Hp.
  subst c'. cbn [c_step c_h c_sib]. split; [reflexivity|].
  assert (forall rem, h_gr (c_h c) <> GLlgrStaling rem) as Hn.
  { intros rem E. unfold pinv in Hp. rewrite E in Hp. destruct Hp as [Hp _]. congruence. }
  cbn [h_step]. rewrite Hs. unfold down_of. rewrite Hgr, Hap, Had. cbv zeta.
  match goal with |- h_rtimer (apply_disconnect ?h1 _ ?ll) = true /\ _ =>
    destruct (apply_gr_arms h1 l rt ll Hn) as [A B] end.
  split; [exact A | split; [exact B | reflexivity]].
Qed.


(* ------------------------------------------------------------ dead entries of the LLGR timer map *)

Lemma t_c_run : forall evs t, t_c (t_run t evs) = c_run (t_c t) evs.
Proof.
  induction evs as [|e r IH]; intros t; [reflexivity|].
  unfold t_run, c_run. cbn [fold_left]. fold (t_run (t_step t e) r). fold (c_run (c_step (t_c t) e) r).
  rewrite IH. reflexivity.
Qed.

Definition dead_sound (t : tstate) : Prop :=
  forall f, mem f (t_dead t) = true -> mem f (h_ltimers (c_h (t_c t))) = false.

Lemma dead_sound_step : forall t e, dead_sound (t_step t e).
Proof.
  intros t e f Hf. unfold t_step in *. cbn [t_dead t_c] in *. unfold dead_next in Hf.
  rewrite mem_dedup, mem_filter in Hf. apply andb_true_iff in Hf. destruct Hf as [_ Hn].
  apply negb_true_iff in Hn. exact Hn.
Qed.

Lemma dead_sound_run : forall evs t, dead_sound t -> dead_sound (t_run t evs).
Proof.
  induction evs as [|e r IH]; intros t Ht; [exact Ht|].
  unfold t_run. cbn [fold_left]. apply IH. apply dead_sound_step.
Qed.

(* The map llgr_family_timers of the code keeps the entry of an LLGR timer that ran out
   (Model/Gr.v t_dead).  Over every history, through any number of GR / LLGR cycles of the
   peer: the state is the one of the histories above (dead entries influence nothing, because
   storing a new timer overwrites the entry of its family), so stale routes exist only while
   a restart timer or an ARMED LLGR timer is pending or an End-of-RIB is awaited; and a family
   never has a dead entry and an armed timer at once. *)
Theorem C10_stale_implies_timer_or_eor_dead_timer_entries :
  forall (evs : list cevent),
    let t := t_run t0 evs in
    t_c t = c_run c0 evs
    /\ stale_ok (c_h (t_c t)) = true
    /\ (forall f, mem f (t_dead t) = true -> mem f (h_ltimers (c_h (t_c t))) = false).
Proof.
  intros evs t. subst t. split; [apply t_c_run|]. split.
  - rewrite t_c_run. apply inv_stale_ok. apply inv_c_run. exact inv_h0.
  - apply dead_sound_run. intros f Hf. discriminate.
Qed.

(* two full LLGR periods of one family: the entry of the first period's timer is dead when the
   second period starts, the second period's timer is armed over it and its expiry purges *)
Example ex_second_llgr_period :
  let up := CBase (HUp [V4] (Some ([V4], 120, false)) (Some [(V4, 3600)])) in
  let cyc := [up; CBase (HAnnounce V4 0 false false); CBase (HDown RsTcp); CBase HRestartTimer] in
  let t1 := t_run t0 (cyc ++ [CBase (HLlgrTimer V4)]) in
  let t2 := t_run t1 cyc in
  let t3 := t_step t2 (CBase (HLlgrTimer V4)) in
  t_dead t1 = [V4] /\ h_ltimers (c_h (t_c t1)) = [] /\ h_rib (c_h (t_c t1)) = []
  /\ t_dead t2 = [] /\ h_ltimers (c_h (t_c t2)) = [V4] /\ length (h_rib (c_h (t_c t2))) = 1%nat
  /\ t_dead t3 = [V4] /\ h_rib (c_h (t_c t3)) = [].
Proof. vm_compute. repeat split; reflexivity. Qed.

(* the phase / timer / route consistency behind it, as a usable corollary: in every
   reachable state a session that is up has no timer armed and its own routes are
   unmarked and in its families; the restart timer is armed exactly in phase
   PeerRestarting; LLGR timers are armed only in phase LlgrStaling, for the
   families still staling *)
Theorem C10_phase_timer_consistency :
  forall (evs : list hevent),
    let h := h_run h0 evs in
    (forall s, h_sess h = Some s ->
        h_rtimer h = false /\ h_ltimers h = [] /\
        forall r, In r (h_rib h) -> r_sess r = s_gen s ->
                  r_stale r = false /\ r_llgr r = false /\ mem (r_fam r) (s_fams s) = true)
    /\ (h_rtimer h = true <-> exists stale llgr, h_gr h = GPeerRestarting stale llgr)
    /\ (forall f, mem f (h_ltimers h) = true -> exists rem, h_gr h = GLlgrStaling rem /\ mem f rem = true).
Proof.
  intros evs h. pose proof (inv_run evs h0 inv_h0) as [Hg Hp]. fold h in Hg, Hp. unfold pinv in Hp.
  split; [|split].
  - intros s Hs. destruct (gi_sess h Hg s Hs) as [_ [A [B [_ [_ C]]]]]. repeat split; try assumption; apply (C r H H0).
  - destruct (h_gr h) as [|stale llgr|rem|p fl].
    + destruct Hp as [A _]. split; [congruence | intros [x [y Hx]]; discriminate].
    + destruct Hp as [_ [A _]]. split; [intros _; exists stale, llgr; reflexivity | intros _; exact A].
    + destruct Hp as [_ [A _]]. split; [congruence | intros [x [y Hx]]; discriminate].
    + destruct Hp as [A _]. split; [congruence | intros [x [y Hx]]; discriminate].
  - intros f Hf. destruct (h_gr h) as [|stale llgr|rem|p fl].
    + destruct Hp as [_ [A _]]. rewrite A in Hf. discriminate.
    + destruct Hp as [_ [_ [A _]]]. rewrite A in Hf. discriminate.
    + destruct Hp as [_ [_ [A _]]]. exists rem. split; [reflexivity | rewrite <- A; exact Hf].
    + destruct Hp as [_ [A _]]. rewrite A in Hf. discriminate.
Qed.

(* ------------------------------------------------------------ one-step facts of the glue *)

(* (a) a connection attempt that ends before Established leaves every pending
       timer, the helper phase and the routes as they were *)
Theorem C10_failed_reconnect_keeps_timer :
  forall (h : hstate),
    let h' := h_step h HFailedConnect in
    h_ltimers h' = h_ltimers h /\ h_rib h' = h_rib h /\ h_gr h' = h_gr h /\ h_sess h' = h_sess h
    /\ (is_peer_restarting (h_gr h) = true -> h_rtimer h' = h_rtimer h).
Proof.
  intros h. cbn [h_step]. cbv zeta. destruct (h_admin_down h); [repeat split; reflexivity|].
  destruct (h_sess h) eqn:E; [repeat split; try reflexivity; exact E|].
  cbn. repeat split; try assumption. intros ->. reflexivity.
Qed.

(* (b) NO_LLGR routes are gone when the LLGR period of their family starts *)
Theorem C10_no_llgr_dropped_at_llgr_start :
  forall (h : hstate) (l : list (fam * N)),
    h_rtimer h = true -> start_llgr (snd (gr_step (h_gr h) GTimerExpired)) = Some l ->
    let h' := h_step h HRestartTimer in
    (forall f, In f (map fst l) -> mem f (h_ltimers h') = true)
    /\ (forall r, In r (h_rib h') -> mem (r_fam r) (map fst l) = true -> r_no_llgr r = false /\ r_llgr r = true).
Proof.
  intros h l Hrt Hst h'. subst h'. cbn [h_step]. rewrite Hrt. unfold restart_handler.
  destruct (gr_step (h_gr h) GTimerExpired) as [g' outs]. cbn [snd] in Hst. rewrite Hst. cbn [h_ltimers h_rib upd_h].
  split.
  - intros f Hf. unfold add_timers. rewrite mem_dedup. apply mem_In. apply in_or_app. right. exact Hf.
  - intros r Hin Hf. apply in_mark_llgr in Hin. destruct Hin as [q [_ [Hfq [_ [_ Hm]]]]].
    rewrite Hfq in Hf. destruct (Hm Hf) as [A B]. split; assumption.
Qed.

Theorem C10_no_llgr_dropped_at_llgr_only_drop :
  forall (h : hstate) gr ll (l : list (fam * N)),
    start_llgr (snd (gr_step (h_gr h) (GSessionDropped gr ll))) = Some l ->
    (gr <> None \/ ll <> None) ->
    let h' := apply_disconnect h gr ll in
    forall r, In r (h_rib h') -> mem (r_fam r) (map fst l) = true -> r_no_llgr r = false /\ r_llgr r = true.
Proof.
  intros h gr ll l Hst Hne h' r Hin Hf. subst h'. unfold apply_disconnect in Hin.
  destruct (gr_step (h_gr h) (GSessionDropped gr ll)) as [g' outs]. cbn [snd] in Hst.
  destruct gr as [g|]; [|destruct ll as [x|]; [|destruct Hne; congruence]];
    rewrite Hst in Hin; cbn [h_rib upd_h] in Hin;
    (apply in_mark_llgr in Hin; destruct Hin as [q [_ [Hfq [_ [_ Hm]]]]]; rewrite Hfq in Hf;
     destruct (Hm Hf) as [A B]; split; assumption).
Qed.

(* (c) the stale purges (End-of-RIB, re-establishment) never remove an unmarked route;
       in particular not a route re-announced on the new session, whatever communities it carries *)
Theorem C10_fresh_routes_survive_purge :
  forall (h : hstate) (e : hevent) (r : route),
    (exists f, e = HEor f) \/ (exists fams gr ll, e = HUp fams gr ll) ->
    In r (h_rib h) -> r_stale r = false -> r_llgr r = false ->
    In r (h_rib (h_step h e)).
Proof.
  intros h e r He Hin Hs Hl. destruct He as [[f ->]|[fams [gr [ll ->]]]]; cbn [h_step].
  - destruct (h_sess h) as [s|]; [|assumption]. destruct (s_gr s); [|assumption].
    destruct (gr_step (h_gr h) (GEorReceived f)) as [g' outs]. cbn [h_rib upd_h].
    apply in_drop_llgr_stale. split; [apply in_drop_stale; split; [assumption|]|]; rewrite ?Hs, ?Hl; apply andb_false_r.
  - cbv zeta. destruct (h_sess h) as [s|]; [assumption|]. destruct (h_admin_down h); [assumption|].
    destruct (gr_step (h_gr h) _) as [g' outs]. cbn [h_rib].
    apply in_drop_llgr_stale. split; [apply in_drop_stale; split; [assumption|]|]; rewrite ?Hs, ?Hl; apply andb_false_r.
Qed.

(* ... and in every reachable state the routes of the live session are unmarked, so they
   survive the purge *)
Theorem C10_live_session_routes_survive_purge :
  forall (evs : list hevent) (e : hevent) (s : session) (r : route),
    let h := h_run h0 evs in
    h_sess h = Some s -> In r (h_rib h) -> r_sess r = s_gen s ->
    (exists f, e = HEor f) ->
    In r (h_rib (h_step h e)).
Proof.
  intros evs e s r h Hs Hin Hg He.
  pose proof (inv_run evs h0 inv_h0) as [[_ Hsess] _]. fold h in Hsess.
  destruct (Hsess s Hs) as [_ [_ [_ [_ [_ Hcur]]]]]. destruct (Hcur r Hin Hg) as [A [B _]].
  apply C10_fresh_routes_survive_purge; [left; exact He | assumption..].
Qed.

(* (d) removal no later than the expiry / the End-of-RIB *)
Theorem C10_purged_by_expiry_or_eor :
  forall (h : hstate),
    (forall f s g pending, h_sess h = Some s -> s_gr s = Some g -> h_gr h = GPeerReconnected pending false ->
        forall r, In r (h_rib (h_step h (HEor f))) -> r_fam r = f -> r_stale r = false)
    /\ (forall f s g pending, h_sess h = Some s -> s_gr s = Some g -> h_gr h = GPeerReconnected pending true ->
        forall r, In r (h_rib (h_step h (HEor f))) -> r_fam r = f -> r_llgr r = false)
    /\ (forall stale, h_rtimer h = true -> h_gr h = GPeerRestarting stale None ->
        forall r, In r (h_rib (h_step h HRestartTimer)) -> mem (r_fam r) stale = false)
    /\ (forall f remaining, mem f (h_ltimers h) = true -> h_gr h = GLlgrStaling remaining ->
        forall r, In r (h_rib (h_step h (HLlgrTimer f))) -> r_fam r = f -> r_llgr r = false).
Proof.
  intros h. split; [|split; [|split]].
  - intros f s g pending Hs Hg Hgr r Hin Hf. cbn [h_step] in Hin. rewrite Hs, Hg, Hgr in Hin.
    cbn in Hin. apply filter_In in Hin. destruct Hin as [Hin _]. apply filter_In in Hin. destruct Hin as [_ Hn].
    unfold in_fams, mem in Hn. cbn [existsb] in Hn. rewrite Hf, N.eqb_refl in Hn. cbn in Hn.
    destruct (r_stale r); [discriminate | reflexivity].
  - intros f s g pending Hs Hg Hgr r Hin Hf. cbn [h_step] in Hin. rewrite Hs, Hg, Hgr in Hin.
    cbn in Hin. apply filter_In in Hin. destruct Hin as [_ Hn].
    unfold in_fams, mem in Hn. cbn [existsb] in Hn. rewrite Hf, N.eqb_refl in Hn. cbn in Hn.
    destruct (r_llgr r); [discriminate | reflexivity].
  - intros stale Hrt Hgr r Hin. cbn [h_step] in Hin. rewrite Hrt in Hin. unfold restart_handler in Hin.
    rewrite Hgr in Hin. cbn in Hin.
    rewrite app_nil_r in Hin. apply filter_In in Hin. destruct Hin as [_ Hn]. unfold in_fams in Hn.
    destruct (mem (r_fam r) stale); [discriminate | reflexivity].
  - intros f remaining Hlt Hgr r Hin Hf. cbn [h_step] in Hin. rewrite Hlt in Hin. unfold llgr_handler, upd_h in Hin.
    cbn [h_gr h_rib h_rtimer h_ltimers] in Hin. rewrite Hgr in Hin. cbn in Hin.
    apply filter_In in Hin. destruct Hin as [_ Hn].
    unfold in_fams, mem in Hn. cbn [existsb] in Hn. rewrite Hf, N.eqb_refl in Hn. cbn in Hn.
    destruct (r_llgr r); [discriminate | reflexivity].
Qed.

(* (e) at a session drop only routes of families that were negotiated for GR or
       LLGR can remain: every other family is removed at once, whatever the reason *)
Lemma down_kept : forall h0' (sf : list fam) rib (gr2 : option (list fam * N)) (ll2 : option (list (fam * N))) r,
    let grf := match gr2 with Some (l, _) => l | None => [] end in
    let llf := match ll2 with Some l => map fst l | None => [] end in
    In r (h_rib (apply_disconnect
                   {| h_gr := h_gr h0'; h_rtimer := h_rtimer h0'; h_ltimers := h_ltimers h0';
                      h_rib := rib_restale (rib_drop rib (filter (fun f => negb (mem f grf) && negb (mem f llf)) sf)) (grf ++ llf);
                      h_sess := None; h_gen := h_gen h0'; h_admin_down := h_admin_down h0' |} gr2 ll2)) ->
    mem (r_fam r) sf = true ->
    mem (r_fam r) grf = true \/ mem (r_fam r) llf = true.
Proof.
  intros h0' sf rib gr2 ll2 r grf llf Hin Hf.
  assert (exists q, In q (rib_restale (rib_drop rib (filter (fun f => negb (mem f grf) && negb (mem f llf)) sf)) (grf ++ llf))
                    /\ r_fam q = r_fam r) as [q [Hq Hfq]].
  { unfold apply_disconnect in Hin. cbn [h_gr h_rib h_ltimers h_rtimer] in Hin.
    destruct gr2 as [g2|]; [|destruct ll2 as [l2|]].
    - destruct (gr_step (h_gr h0') _) as [g' outs]. destruct (start_llgr outs); cbn [h_rib upd_h] in Hin.
      + apply in_mark_llgr in Hin. destruct Hin as [q [Hq [Hf' _]]]. exists q. split; [exact Hq | symmetry; exact Hf'].
      + exists r. split; [exact Hin | reflexivity].
    - destruct (gr_step (h_gr h0') _) as [g' outs]. destruct (start_llgr outs); cbn [h_rib upd_h] in Hin.
      + apply in_mark_llgr in Hin. destruct Hin as [q [Hq [Hf' _]]]. exists q. split; [exact Hq | symmetry; exact Hf'].
      + exists r. split; [exact Hin | reflexivity].
    - cbn [h_rib upd_h] in Hin. exists r. split; [exact Hin | reflexivity]. }
  apply in_restale in Hq. destruct Hq as [q' [Hq' [Hf' _]]]. apply in_drop in Hq'. destruct Hq' as [_ Hnd].
  rewrite mem_filter in Hnd. rewrite <- Hf', Hfq, Hf in Hnd. cbn [andb] in Hnd.
  destruct (mem (r_fam r) grf) eqn:E1; [left; reflexivity|].
  destruct (mem (r_fam r) llf) eqn:E2; [right; reflexivity|]. discriminate.
Qed.

Theorem C10_non_negotiated_families_dropped_at_once :
  forall (h : hstate) (s : session) (rs : reason) (r : route),
    h_sess h = Some s ->
    In r (h_rib (h_step h (HDown rs))) ->
    mem (r_fam r) (s_fams s) = true ->
    mem (r_fam r) (fams_of_gr (s_gr s)) = true \/ mem (r_fam r) (fams_of_llgr (s_llgr s)) = true.
Proof.
  intros h s rs r Hs Hin Hf. cbn [h_step] in Hin. rewrite Hs in Hin. cbv zeta in Hin.
  apply down_kept in Hin; [|exact Hf].
  destruct (h_admin_down h); [destruct Hin; discriminate|].
  destruct Hin as [Hin|Hin].
  - left. destruct (s_gr s) as [[[l rt] nb]|]; [|discriminate]. destruct (gr_applies rs nb); [exact Hin | discriminate].
  - right. destruct (s_llgr s) as [lp|].
    + destruct (match s_gr s with Some (l, rt, nbit) => if gr_applies rs nbit then Some (l, rt) else None | None => None end);
        [exact Hin | destruct rs; try discriminate; exact Hin].
    + destruct (match s_gr s with Some (l, rt, nbit) => if gr_applies rs nbit then Some (l, rt) else None | None => None end);
        [discriminate | destruct rs; discriminate].
Qed.

(* the eligibility decision of the code is the one the property text states *)
Lemma gr_applies_spec : forall r nb, gr_applies r nb = spec_eligible r nb.
Proof. intros r nb. destruct r; reflexivity. Qed.

(* ... for every reason, and for every NOTIFICATION (code, subcode) in either direction: eligible
   exactly when the N bit is negotiated and it is a Cease other than Hard Reset *)
Theorem C10_eligibility_is_as_stated :
  (forall r nb, gr_applies r nb = spec_eligible r nb)
  /\ (forall (local : bool) (code sub : N) (nb : bool),
        gr_applies (reason_of_notification local code sub) nb = nb && (code =? 6) && negb (sub =? 9)).
Proof.
  split; [exact gr_applies_spec|]. intros local code sub nb. unfold reason_of_notification.
  destruct (code =? 6); [destruct (sub =? 9)|]; destruct local; destruct nb; reflexivity.
Qed.

(* (f) a hard reset, an admin shutdown, a non-Cease error (and a NOTIFICATION or hold-timer
       expiry without the N bit) never enters helper mode and retains nothing, in every
       reachable state *)
Theorem C10_non_gr_reasons_retain_nothing :
  forall (evs : list hevent) (s : session) (rs : reason),
    let h := h_run h0 evs in
    h_sess h = Some s -> not_eligible h s rs = true ->
    let h' := h_step h (HDown rs) in
    h_rib h' = [] /\ h_rtimer h' = false /\ h_ltimers h' = [] /\ h_sess h' = None /\ h_gr h' = h_gr h.
Proof.
  intros evs s rs h Hs Hne h'.
  pose proof (inv_run evs h0 inv_h0) as Hinv. fold h in Hinv.
  pose proof (inv_down h rs Hinv) as Hinv'. fold h' in Hinv'.
  (* nothing is negotiated as far as the disconnect handling is concerned *)
  assert (h_gr h' = h_gr h /\ h_sess h' = None) as [Hg' Hs'].
  { subst h'. cbn [h_step]. rewrite Hs. unfold down_of. cbv zeta. unfold not_eligible in Hne.
    destruct (h_admin_down h) eqn:Ea; [split; reflexivity|]. cbn [orb] in Hne.
    destruct (s_gr s) as [[[l rt] nb]|].
    - apply negb_true_iff in Hne. rewrite <- gr_applies_spec in Hne. rewrite Hne. destruct rs; cbn in Hne; try discriminate; split; reflexivity.
    - destruct rs; try discriminate; split; reflexivity. }
  destruct Hinv as [Hgi Hp]. destruct (gi_sess h Hgi s Hs) as [_ [Hrt [Hlt _]]].
  destruct Hinv' as [_ Hp']. unfold pinv in Hp, Hp'. rewrite Hg' in Hp'.
  destruct (h_gr h) as [|stale llgr|rem|p fl] eqn:Eg.
  - destruct Hp' as [A [B C]]. repeat split; try assumption.
    destruct (h_rib h') as [|q rest]; [reflexivity|]. specialize (C q (or_introl eq_refl)).
    rewrite (retained_no_session h' q Hs') in C. discriminate.
  - destruct Hp as [Hn _]. congruence.
  - destruct Hp as [Hn _]. congruence.
  - destruct Hp' as [A [B C]]. repeat split; try assumption.
    destruct (h_rib h') as [|q rest]; [reflexivity|].
    destruct (C q (or_introl eq_refl) (retained_no_session h' q Hs')) as [_ [[s0 [Hs0 _]] _]]. congruence.
Qed.

(* ------------------------------------------------------------ non-vacuity *)
Definition ex_gr_llgr : list hevent :=
  [HUp [V4; V6] (Some ([V4; V6], 120, false)) (Some [(V4, 3600); (V6, 3600)]);
   HAnnounce V4 0 false false; HAnnounce V4 1 true false; HAnnounce V6 0 false false; HDown RsTcp].

Example ex_restarting_with_timer :
  let h := h_run h0 ex_gr_llgr in
  is_peer_restarting (h_gr h) = true /\ h_rtimer h = true /\ length (h_rib h) = 3%nat
  /\ h_rtimer (h_step h HFailedConnect) = true
  /\ start_llgr (snd (gr_step (h_gr h) GTimerExpired)) = Some [(V4, 3600); (V6, 3600)]
  /\ length (h_rib (h_step h HRestartTimer)) = 2%nat
  /\ h_ltimers (h_step h HRestartTimer) = [V4; V6].
Proof. vm_compute. repeat split; reflexivity. Qed.

Example ex_eor_purges_only_stale :
  let evs := ex_gr_llgr ++ [HUp [V4; V6] (Some ([V4; V6], 120, false)) None; HAnnounce V4 2 false true] in
  let h := h_run h0 evs in
  h_gr h = GPeerReconnected [V4; V6] false /\ length (h_rib h) = 4%nat
  /\ map r_id (h_rib (h_step h (HEor V4))) = [0; 2] /\ map r_fam (h_rib (h_step h (HEor V4))) = [V6; V4]
  /\ stale_ok h = true /\ stale_ok (h_step h (HEor V4)) = true.
Proof. vm_compute. repeat split; reflexivity. Qed.

Example ex_hard_reset_retains_nothing :
  let evs := [HUp [V4; V6] (Some ([V4], 120, true)) (Some [(V4, 3600)]); HAnnounce V4 0 false false; HAnnounce V6 1 false false] in
  let h := h_run h0 evs in
  length (h_rib h) = 2%nat
  /\ (exists s, h_sess h = Some s /\ not_eligible h s RsRemoteHard = true /\ not_eligible h s RsTcp = false)
  /\ h_rib (h_step h (HDown RsRemoteHard)) = [] /\ length (h_rib (h_step h (HDown RsTcp))) = 1%nat.
Proof. vm_compute. repeat split; try reflexivity. eexists. repeat split; reflexivity. Qed.

Example ex_gr_family_without_llgr_expires :
  let evs := [HUp [V4; V6] (Some ([V4; V6], 120, false)) (Some [(V4, 3600)]); HAnnounce V6 0 false false;
              HAnnounce V4 0 false false; HDown RsTcp; HRestartTimer] in
  let h := h_run h0 evs in
  h_gr h = GLlgrStaling [V4] /\ map r_fam (h_rib h) = [V4] /\ h_ltimers h = [V4].
Proof. vm_compute. repeat split; reflexivity. Qed.

Example ex_helper_entry :
  is_peer_restarting (fst (gr_step GIdle (GSessionDropped (Some ([V4], 120)) None))) = true
  /\ is_peer_restarting (fst (gr_step GIdle (GSessionDropped None (Some [(V4, 3600)])))) = true
  /\ is_peer_restarting (fst (gr_step GIdle (GSessionDropped None None))) = false.
Proof. vm_compute. repeat split; reflexivity. Qed.

(* finding C10-7 (repaired): GR negotiated for a family outside the session is dropped from
   the negotiated set, the earlier session's stale routes of that family are purged when the
   peer comes back, and a later hard reset leaves nothing *)
Example ex_gr_family_outside_session :
  let evs := [HUp [V4; V6] (Some ([V4; V6], 120, true)) None; HAnnounce V6 0 false false; HDown RsTcp;
              HUp [V4] (Some ([V4; V6], 120, true)) None] in
  let h := h_run h0 evs in
  h_gr h = GPeerReconnected [V4] false /\ h_rib h = [] /\ h_rib (h_step h (HDown RsRemoteHard)) = [].
Proof. vm_compute. repeat split; reflexivity. Qed.
