(* Proofs about Model/Gr.v against Spec/GrSpec.v (property C10). *)
From Coq Require Import List NArith Bool Lia ZifyBool ZifyNat ZifyN.
From RB Require Import Base.Val Model.Deferral Model.Gr Spec.GrSpec Proofs.Deferral.
Import ListNotations.
Open Scope N_scope.

Definition V4 : fam := 65537.
Definition V6 : fam := 131073.

(* ------------------------------------------------------------ the pure machine *)

(* helper mode is entered only together with arming a timer *)
Theorem C10_helper_mode_entry_arms_timer :
  forall (s : grinner) (i : grinput),
    is_peer_restarting s = false ->
    is_peer_restarting (fst (gr_step s i)) = true ->
    (exists d, In (GStartTimer d) (snd (gr_step s i))) \/
    (exists l, In (GStartLlgrTimers l) (snd (gr_step s i))).
Proof.
  intros s i Hs Hs'. destruct s; try discriminate.
  destruct i as [gr ll|g|f| |f]; cbn in Hs' |- *; try discriminate.
  destruct gr as [[fams rt]|].
  - left. exists rt. left. reflexivity.
  - destruct ll as [lp|]; [|discriminate]. right. exists lp. left. reflexivity.
Qed.

(* a session drop never ends helper mode; only expiry, End-of-RIB or
   re-establishment do *)
Theorem C10_drop_never_leaves_helper_mode :
  forall (s : grinner) gr ll,
    is_peer_restarting s = true ->
    is_peer_restarting (fst (gr_step s (GSessionDropped gr ll))) = true.
Proof.
  intros s gr ll Hs. destruct s as [|st lg|rem|p fl]; try discriminate;
    destruct gr as [[fams rt]|]; destruct ll as [lp|]; try reflexivity;
    try (destruct lg; reflexivity); try (destruct fl; reflexivity).
Qed.

(* ------------------------------------------------------------ rib operations *)

Lemma filter_all : forall (A : Type) (p : A -> bool) l, (forall x, In x l -> p x = true) -> filter p l = l.
Proof.
  intros A p l H. induction l as [|x r IH]; [reflexivity|]. cbn [filter].
  rewrite (H x (or_introl eq_refl)). f_equal. apply IH. intros y Hy. apply H. right; exact Hy.
Qed.

Lemma drop_nil : forall rib, rib_drop rib [] = rib.
Proof. intros rib. apply filter_all. intros; reflexivity. Qed.
Lemma drop_stale_nil : forall rib, rib_drop_stale rib [] = rib.
Proof. intros rib. apply filter_all. intros; reflexivity. Qed.
Lemma drop_llgr_stale_nil : forall rib, rib_drop_llgr_stale rib [] = rib.
Proof. intros rib. apply filter_all. intros; reflexivity. Qed.

Lemma in_drop : forall rib F r, In r (rib_drop rib F) <-> In r rib /\ mem (r_fam r) F = false.
Proof.
  intros rib F r. unfold rib_drop, in_fams. rewrite filter_In. split; intros [H1 H2]; (split; [exact H1|]);
    destruct (mem (r_fam r) F); cbn in *; congruence.
Qed.

Lemma in_drop_stale : forall rib F r,
    In r (rib_drop_stale rib F) <-> In r rib /\ (mem (r_fam r) F && r_stale r) = false.
Proof.
  intros rib F r. unfold rib_drop_stale, in_fams. rewrite filter_In. split; intros [H1 H2]; (split; [exact H1|]);
    destruct (mem (r_fam r) F && r_stale r); cbn in *; congruence.
Qed.

Lemma in_drop_llgr_stale : forall rib F r,
    In r (rib_drop_llgr_stale rib F) <-> In r rib /\ (mem (r_fam r) F && r_llgr r) = false.
Proof.
  intros rib F r. unfold rib_drop_llgr_stale, in_fams. rewrite filter_In. split; intros [H1 H2]; (split; [exact H1|]);
    destruct (mem (r_fam r) F && r_llgr r); cbn in *; congruence.
Qed.

Lemma in_restale : forall rib F r,
    In r (rib_restale rib F) ->
    exists q, In q rib /\ r_fam r = r_fam q /\ r_sess r = r_sess q /\ r_id r = r_id q /\ r_llgr r = r_llgr q
              /\ (mem (r_fam q) F = true -> r_stale r = true).
Proof.
  intros rib F r Hin. unfold rib_restale in Hin. apply in_map_iff in Hin. destruct Hin as [q [Hq Hin]].
  exists q. unfold in_fams in Hq. destruct (mem (r_fam q) F); subst r; cbn; repeat split; try reflexivity; try assumption.
  intros; discriminate.
Qed.

Lemma in_mark_llgr : forall rib F r,
    In r (rib_mark_llgr rib F) ->
    exists q, In q rib /\ r_fam r = r_fam q /\ r_sess r = r_sess q /\ r_stale r = r_stale q
              /\ (mem (r_fam q) F = true -> r_llgr r = true /\ r_no_llgr r = false).
Proof.
  intros rib F r Hin. unfold rib_mark_llgr in Hin. apply filter_In in Hin. destruct Hin as [Hin Hn].
  apply in_map_iff in Hin. destruct Hin as [q [Hq Hin]].
  exists q. unfold in_fams in *. destruct (mem (r_fam q) F) eqn:E; subst r; cbn in *; repeat split; try reflexivity; try assumption.
  - rewrite E in Hn. cbn in Hn. destruct (r_no_llgr q); [discriminate | reflexivity].
  - intros; discriminate.
  - intros; discriminate.
Qed.

Lemma in_insert : forall rib r q,
    In q (rib_insert rib r) -> q = r \/ In q rib.
Proof.
  intros rib r q H. unfold rib_insert in H. apply in_app_or in H. destruct H as [H|[H|[]]].
  - right. apply filter_In in H. tauto.
  - left. symmetry. exact H.
Qed.

Lemma mem_nil_list : forall (l : list N), (forall f, mem f l = false) -> l = [].
Proof.
  intros [|x r] H; [reflexivity|]. specialize (H x). unfold mem in H. cbn in H. rewrite N.eqb_refl in H. discriminate.
Qed.

Lemma mem_app : forall f a b, mem f (a ++ b) = mem f a || mem f b.
Proof. intros. unfold mem. apply existsb_app. Qed.

Lemma mem_filter : forall f p l, mem f (filter p l) = mem f l && p f.
Proof.
  intros f p l. destruct (mem f (filter p l)) eqn:E.
  - apply mem_In in E. apply filter_In in E. destruct E as [Hi Hp]. apply mem_In in Hi. rewrite Hi, Hp. reflexivity.
  - apply mem_false_In in E. destruct (mem f l) eqn:Hl; [|reflexivity]. destruct (p f) eqn:Hp; [|reflexivity].
    exfalso. apply E. apply filter_In. split; [apply mem_In; assumption | assumption].
Qed.

Lemma mem_cons : forall f x r, mem f (x :: r) = (f =? x) || mem f r.
Proof. reflexivity. Qed.

(* the stale-family list built at a GR drop: the GR families plus the LLGR families *)
Lemma mem_stale_fold : forall ll (acc : list fam) f,
    mem f (fold_left (fun acc f => if mem f acc then acc else acc ++ [f]) ll acc) = mem f acc || mem f ll.
Proof.
  induction ll as [|x r IH]; intros acc f; cbn [fold_left].
  - change (mem f []) with false. rewrite orb_false_r. reflexivity.
  - rewrite IH, mem_cons. destruct (mem x acc) eqn:E.
    + destruct (f =? x) eqn:Ef; [|reflexivity]. apply N.eqb_eq in Ef; subst. rewrite E. reflexivity.
    + rewrite mem_app, mem_cons. change (mem f []) with false. rewrite orb_false_r, orb_assoc. reflexivity.
Qed.

(* ------------------------------------------------------------ the invariant *)

(* facts that hold in every phase *)
Record ginv (h : hstate) : Prop := {
  gi_gen : forall r, In r (h_rib h) -> r_sess r <= h_gen h;
  gi_sess : forall s, h_sess h = Some s ->
      s_gen s = h_gen h /\ h_rtimer h = false /\ h_ltimers h = []
      /\ subset_b (fams_of_gr (s_gr s)) (s_fams s) = true
      /\ subset_b (fams_of_llgr (s_llgr s)) (s_fams s) = true
      /\ (forall r, In r (h_rib h) -> r_sess r = s_gen s ->
            r_stale r = false /\ r_llgr r = false /\ mem (r_fam r) (s_fams s) = true)
}.

(* facts per phase of GrState *)
Definition pinv (h : hstate) : Prop :=
  match h_gr h with
  | GIdle =>
      h_rtimer h = false /\ h_ltimers h = [] /\
      forall r, In r (h_rib h) -> retained h r = false
  | GPeerReconnected pending fl =>
      h_rtimer h = false /\ h_ltimers h = [] /\
      forall r, In r (h_rib h) -> retained h r = true ->
                mem (r_fam r) pending = true
                /\ (exists s, h_sess h = Some s /\ mem (r_fam r) (fams_of_gr (s_gr s)) = true)
                /\ (if fl then r_llgr r = true else r_stale r = true)
  | GPeerRestarting stale llgr =>
      h_sess h = None /\ h_rtimer h = true /\ h_ltimers h = [] /\
      forall r, In r (h_rib h) -> mem (r_fam r) stale = true /\ r_stale r = true
  | GLlgrStaling rem =>
      h_sess h = None /\ h_rtimer h = false /\ (forall f, mem f (h_ltimers h) = mem f rem) /\
      forall r, In r (h_rib h) -> mem (r_fam r) rem = true /\ r_llgr r = true
  end.

Definition inv (h : hstate) : Prop := ginv h /\ pinv h.

Lemma inv_stale_ok : forall h, inv h -> stale_ok h = true.
Proof.
  intros h [_ Hp]. unfold stale_ok. apply forallb_forall. intros r Hin. unfold pinv in Hp.
  destruct (retained h r) eqn:Er; [cbn [negb orb] | reflexivity].
  unfold covered, eor_awaited. destruct (h_gr h) as [|stale llgr|rem|pending fl] eqn:Eg.
  - destruct Hp as [_ [_ Hr]]. rewrite (Hr r Hin) in Er. discriminate.
  - destruct Hp as [_ [Hrt _]]. rewrite Hrt. reflexivity.
  - destruct Hp as [_ [_ [Hlt Hr]]]. rewrite Hlt. destruct (Hr r Hin) as [Hm _]. rewrite Hm. rewrite orb_true_r. reflexivity.
  - destruct Hp as [_ [_ Hr]]. destruct (Hr r Hin Er) as [Hm [[s [Hs _]] _]]. rewrite Hs, Hm. apply orb_true_r.
Qed.

Lemma inv_h0 : inv h0.
Proof.
  split.
  - constructor; cbn; [intros r [] | intros s H; discriminate].
  - cbn. repeat split. intros r [].
Qed.

(* with no session every route is retained *)
Lemma retained_no_session : forall h r, h_sess h = None -> retained h r = true.
Proof. intros h r H. unfold retained. rewrite H. reflexivity. Qed.

(* in phases that allow no retained route, no session means no route at all *)
Lemma idle_no_session_empty : forall h,
    pinv h -> h_gr h = GIdle -> h_sess h = None -> h_rib h = [].
Proof.
  intros h Hp Hg Hs. unfold pinv in Hp. rewrite Hg in Hp. destruct Hp as [_ [_ Hr]].
  destruct (h_rib h) as [|r rest]; [reflexivity|]. specialize (Hr r (or_introl eq_refl)).
  rewrite (retained_no_session h r Hs) in Hr. discriminate.
Qed.

Lemma reconnected_no_session_empty : forall h p fl,
    pinv h -> h_gr h = GPeerReconnected p fl -> h_sess h = None -> h_rib h = [].
Proof.
  intros h p fl Hp Hg Hs. unfold pinv in Hp. rewrite Hg in Hp. destruct Hp as [_ [_ Hr]].
  destruct (h_rib h) as [|r rest]; [reflexivity|].
  destruct (Hr r (or_introl eq_refl) (retained_no_session h r Hs)) as [_ [[s [Hs' _]] _]]. congruence.
Qed.

(* ------------------------------------------------------------ preservation, event by event *)

Ltac open_inv h Hinv :=
  let Hgen := fresh "Hgen" in let Hsess := fresh "Hsess" in let Hp := fresh "Hp" in
  destruct Hinv as [[Hgen Hsess] Hp]; unfold pinv in Hp;
  destruct h as [g rt lt rib S gen ad]; cbn [h_gr h_rtimer h_ltimers h_rib h_sess h_gen h_admin_down] in *.

Lemma inv_admin : forall h b, inv h -> inv (h_step h (HSetAdminDown b)).
Proof.
  intros h b Hinv. open_inv h Hinv. cbn [h_step h_gr h_rtimer h_ltimers h_rib h_sess h_gen].
  split; [constructor; assumption | exact Hp].
Qed.

Lemma inv_fail : forall h, inv h -> inv (h_step h HFailedConnect).
Proof.
  intros h Hinv. open_inv h Hinv. cbn [h_step apply_disconnect upd_h h_gr h_rtimer h_ltimers h_rib h_sess h_gen].
  split.
  - constructor; cbn [h_rib h_gen h_sess h_rtimer h_ltimers]; [assumption|].
    intros s Hs. destruct (Hsess s Hs) as [H1 [H2 [H3 [H4 [H5 H6]]]]]. subst rt.
    refine (conj H1 (conj _ (conj H3 (conj H4 (conj H5 H6))))). destruct (is_peer_restarting g); reflexivity.
  - unfold pinv. cbn [h_gr h_rtimer h_ltimers h_rib h_sess].
    destruct g as [|stale llgr|rem|p fl]; cbn [is_peer_restarting]; try exact Hp.
    destruct Hp as [H1 H2]. split; [reflexivity | exact H2].
Qed.

Lemma inv_announce : forall h f id nl lc, inv h -> inv (h_step h (HAnnounce f id nl lc)).
Proof.
  intros h f id nl lc Hinv. cbn [h_step]. destruct (h_sess h) as [s|] eqn:Es; [|exact Hinv].
  destruct (mem f (s_fams s)) eqn:Ef; [|exact Hinv].
  open_inv h Hinv. subst S. cbn [upd_h].
  destruct (Hsess s eq_refl) as [Hg [Hrt [Hlt [Hsg [Hsl Hcur]]]]].
  set (nr := {| r_fam := f; r_id := id; r_sess := s_gen s; r_stale := false; r_llgr := false;
                r_no_llgr := nl; r_llgr_comm := lc |}).
  assert (retained {| h_gr := g; h_rtimer := rt; h_ltimers := lt; h_rib := rib_insert rib nr;
                      h_sess := Some s; h_gen := gen; h_admin_down := ad |} nr = false) as Hnr
      by (unfold retained; cbn; rewrite N.eqb_refl; reflexivity).
  split.
  - constructor; cbn [h_rib h_gen h_sess h_rtimer h_ltimers].
    + intros r Hin. apply in_insert in Hin. destruct Hin as [->|Hin]; [cbn; lia | apply Hgen; exact Hin].
    + intros s' Hs'. inversion Hs'; subst s'. repeat split; try assumption;
        apply in_insert in H; destruct H as [->|Hin]; try reflexivity; try exact Ef; apply (Hcur r Hin H0).
  - unfold pinv. cbn [h_gr h_rtimer h_ltimers h_rib h_sess].
    destruct g as [|stale llgr|rem|p fl].
    + destruct Hp as [H1 [H2 H3]]. repeat split; try assumption. intros r Hin.
      apply in_insert in Hin. destruct Hin as [->|Hin]; [exact Hnr|].
      specialize (H3 r Hin). unfold retained in *. cbn in *. exact H3.
    + destruct Hp as [Hn _]. discriminate.
    + destruct Hp as [Hn _]. discriminate.
    + destruct Hp as [H1 [H2 H3]]. split; [exact H1|]. split; [exact H2|]. intros r Hin Hret.
      apply in_insert in Hin. destruct Hin as [->|Hin].
      * exfalso. unfold retained in Hret. cbn in Hret. rewrite N.eqb_refl in Hret. discriminate.
      * apply (H3 r Hin). unfold retained in *. cbn in *. exact Hret.
Qed.

Lemma retained_indep : forall g rt lt rib S gen ad g' rt' lt' rib' ad' r,
    retained {| h_gr := g; h_rtimer := rt; h_ltimers := lt; h_rib := rib; h_sess := S; h_gen := gen; h_admin_down := ad |} r =
    retained {| h_gr := g'; h_rtimer := rt'; h_ltimers := lt'; h_rib := rib'; h_sess := S; h_gen := gen; h_admin_down := ad' |} r.
Proof. reflexivity. Qed.

Lemma inv_eor : forall h f, inv h -> inv (h_step h (HEor f)).
Proof.
  intros h f Hinv. cbn [h_step]. destruct (h_sess h) as [s|] eqn:Es; [|exact Hinv].
  destruct (s_gr s) as [gg|] eqn:Egr; [|exact Hinv].
  open_inv h Hinv. subst S.
  destruct (Hsess s eq_refl) as [Hg [Hrt [Hlt [Hsg [Hsl Hcur]]]]].
  destruct g as [|stale llgr|rem|p fl].
  - (* Idle: nothing happens *)
    cbn [gr_step upd_h delete_fams delete_llgr_fams flat_map]. rewrite drop_stale_nil, drop_llgr_stale_nil.
    split; [constructor; assumption | exact Hp].
  - destruct Hp as [Hn _]. discriminate.
  - destruct Hp as [Hn _]. discriminate.
  - destruct Hp as [H1 [H2 H3]].
    (* the routes that survive the purge *)
    set (rib' := if fl then rib_drop_llgr_stale (rib_drop_stale rib []) [f]
                 else rib_drop_llgr_stale (rib_drop_stale rib [f]) []).
    assert (forall r, In r rib' -> In r rib /\ (r_fam r = f -> if fl then r_llgr r = false else r_stale r = false)) as Hsub.
    { intros r Hin. subst rib'. destruct fl.
      - rewrite drop_stale_nil in Hin. apply in_drop_llgr_stale in Hin. destruct Hin as [Hin Hn]. split; [exact Hin|].
        intros Hf. rewrite Hf, mem_cons, N.eqb_refl in Hn. cbn in Hn. exact Hn.
      - rewrite drop_llgr_stale_nil in Hin. apply in_drop_stale in Hin. destruct Hin as [Hin Hn]. split; [exact Hin|].
        intros Hf. rewrite Hf, mem_cons, N.eqb_refl in Hn. cbn in Hn. exact Hn. }
    assert (h_step_eq : 
               (let '(g0, outs) := gr_step (GPeerReconnected p fl) (GEorReceived f) in
                upd_h {| h_gr := GPeerReconnected p fl; h_rtimer := rt; h_ltimers := lt; h_rib := rib;
                         h_sess := Some s; h_gen := gen; h_admin_down := ad |} g0 rt lt
                      (rib_drop_llgr_stale (rib_drop_stale rib (delete_fams outs)) (delete_llgr_fams outs))) =
               {| h_gr := match fremove f p with [] => GIdle | _ => GPeerReconnected (fremove f p) fl end;
                  h_rtimer := rt; h_ltimers := lt; h_rib := rib'; h_sess := Some s; h_gen := gen; h_admin_down := ad |}).
    { subst rib'. destruct fl; cbn; destruct (fremove f p); reflexivity. }
    rewrite h_step_eq. clear h_step_eq.
    split.
    + constructor; cbn [h_rib h_gen h_sess h_rtimer h_ltimers].
      * intros r Hin. apply Hgen. apply Hsub. exact Hin.
      * intros s' Hs'. inversion Hs'; subst s'. repeat split; try assumption; apply (Hcur r); try assumption; apply Hsub; assumption.
    + assert (forall r, In r rib' ->
                retained {| h_gr := GIdle; h_rtimer := rt; h_ltimers := lt; h_rib := rib'; h_sess := Some s;
                            h_gen := gen; h_admin_down := ad |} r = true ->
                mem (r_fam r) (fremove f p) = true
                /\ (exists s0, Some s = Some s0 /\ mem (r_fam r) (fams_of_gr (s_gr s0)) = true)
                /\ (if fl then r_llgr r = true else r_stale r = true)) as Hkey.
      { intros r Hin Hret. destruct (Hsub r Hin) as [Hin0 Hf].
        destruct (H3 r Hin0 Hret) as [Ha [Hb Hc]]. split; [|split; assumption].
        rewrite mem_fremove, Ha. cbn [andb]. destruct (r_fam r =? f) eqn:E; [|reflexivity].
        apply N.eqb_eq in E. specialize (Hf E). destruct fl; congruence. }
      unfold pinv. cbn [h_gr h_rtimer h_ltimers h_rib h_sess].
      destruct (fremove f p) as [|x xs] eqn:Ep.
      * split; [exact H1|]. split; [exact H2|]. intros r Hin.
        match goal with |- ?X = false => destruct X eqn:Er; [|reflexivity] end.
        destruct (Hkey r Hin Er) as [Hm _]. discriminate.
      * split; [exact H1|]. split; [exact H2|]. intros r Hin Hret. apply (Hkey r Hin). exact Hret.
Qed.

Lemma delete_fams_expired : forall e lp,
    delete_fams (match e with [] => [] | _ :: _ => [GDeleteStaleRoutes e] end ++ [GStartLlgrTimers lp]) = e.
Proof. intros [|x r] lp; cbn; [reflexivity | rewrite app_nil_r; reflexivity]. Qed.

Lemma start_llgr_expired : forall e lp,
    start_llgr (match e with [] => [] | _ :: _ => [GDeleteStaleRoutes e] end ++ [GStartLlgrTimers lp]) = Some lp.
Proof. intros [|x r] lp; reflexivity. Qed.

(* the restart-timer handler run in phase PeerRestarting with no LLGR timer armed *)
Lemma restart_handler_inv : forall h stale llgr,
    inv h -> h_gr h = GPeerRestarting stale llgr -> inv (restart_handler h []).
Proof.
  intros h stale llgr Hinv Hg. open_inv h Hinv. subst g. destruct Hp as [HS [Hrt [Hlt Hr]]]. subst S rt lt.
  unfold restart_handler. cbn [h_gr h_rib].
  destruct llgr as [lp|].
  - cbn [gr_step]. rewrite delete_fams_expired, start_llgr_expired. cbn [upd_h].
    set (rem := dedup (map fst lp)).
    split.
    + constructor; cbn [h_rib h_gen h_sess]; [|intros s Hs; discriminate].
      intros r Hin. apply in_mark_llgr in Hin. destruct Hin as [q [Hq [_ [Hs _]]]]. rewrite Hs.
      apply Hgen. apply in_drop in Hq. tauto.
    + unfold pinv. cbn [h_gr h_rtimer h_ltimers h_rib h_sess].
      split; [reflexivity|]. split; [reflexivity|]. split; [intros f; reflexivity|].
      intros r Hin. apply in_mark_llgr in Hin. destruct Hin as [q [Hq [Hf [_ [_ Hm]]]]].
      apply in_drop in Hq. destruct Hq as [Hq Hne]. destruct (Hr q Hq) as [Hst _].
      rewrite mem_filter, Hst in Hne. cbn [andb] in Hne. apply negb_false_iff in Hne.
      split; [rewrite Hf; exact Hne|].
      subst rem. rewrite mem_dedup in Hne. apply Hm. exact Hne.
  - cbn [gr_step delete_fams start_llgr flat_map fold_right upd_h]. rewrite app_nil_r.
    assert (rib_drop rib stale = []) as ->.
    { destruct (rib_drop rib stale) as [|r rest] eqn:E; [reflexivity|]. exfalso.
      assert (In r (rib_drop rib stale)) as Hin by (rewrite E; left; reflexivity).
      apply in_drop in Hin. destruct Hin as [Hin Hn]. destruct (Hr r Hin) as [Hst _]. congruence. }
    split.
    + constructor; cbn [h_rib h_gen h_sess]; [intros r [] | intros s Hs; discriminate].
    + unfold pinv. cbn. repeat split. intros r [].
Qed.

Lemma inv_rtimer : forall h, inv h -> inv (h_step h HRestartTimer).
Proof.
  intros h Hinv. cbn [h_step]. destruct (h_rtimer h) eqn:Ert; [|exact Hinv].
  destruct Hinv as [Hg Hp]. pose proof Hp as Hp'. unfold pinv in Hp'.
  destruct (h_gr h) as [|stale llgr|rem|p fl] eqn:Eg.
  - destruct Hp' as [H _]. congruence.
  - destruct Hp' as [_ [_ [Hlt _]]]. rewrite Hlt. apply (restart_handler_inv h stale llgr); [split; assumption | exact Eg].
  - destruct Hp' as [_ [H _]]. congruence.
  - destruct Hp' as [H _]. congruence.
Qed.

(* one LLGR handler in phase LlgrStaling *)
Lemma llgr_step_eq : forall rem rt lt rib S gen ad f,
    llgr_handler {| h_gr := GLlgrStaling rem; h_rtimer := rt; h_ltimers := lt; h_rib := rib; h_sess := S;
                    h_gen := gen; h_admin_down := ad |} f =
    {| h_gr := match fremove f rem with [] => GIdle | _ => GLlgrStaling (fremove f rem) end;
       h_rtimer := rt; h_ltimers := lt; h_rib := rib_drop_llgr_stale rib [f]; h_sess := S;
       h_gen := gen; h_admin_down := ad |}.
Proof. intros. unfold llgr_handler. cbn. destruct (fremove f rem); reflexivity. Qed.

Lemma llgr_routes_after : forall rib rem f r,
    (forall q, In q rib -> mem (r_fam q) rem = true /\ r_llgr q = true) ->
    In r (rib_drop_llgr_stale rib [f]) ->
    In r rib /\ mem (r_fam r) (fremove f rem) = true /\ r_llgr r = true.
Proof.
  intros rib rem f r Hr Hin. apply in_drop_llgr_stale in Hin. destruct Hin as [Hin Hn].
  destruct (Hr r Hin) as [Hm Hl]. split; [exact Hin|]. split; [|exact Hl].
  rewrite Hl, andb_true_r, mem_cons in Hn. change (mem (r_fam r) []) with false in Hn. rewrite orb_false_r in Hn.
  rewrite mem_fremove, Hm, Hn. reflexivity.
Qed.

Lemma inv_ltimer : forall h f, inv h -> inv (h_step h (HLlgrTimer f)).
Proof.
  intros h f Hinv. cbn [h_step]. destruct (mem f (h_ltimers h)) eqn:Em; [|exact Hinv].
  open_inv h Hinv.
  destruct g as [|stale llgr|rem|p fl].
  - destruct Hp as [_ [H _]]. subst lt. discriminate.
  - destruct Hp as [_ [_ [H _]]]. subst lt. discriminate.
  - destruct Hp as [HS [Hrt [Hlt Hr]]]. subst S rt. unfold upd_h. cbn [h_gr h_rtimer h_ltimers h_rib h_sess h_gen h_admin_down]. rewrite llgr_step_eq.
    split.
    + constructor; cbn [h_rib h_gen h_sess]; [|intros s Hs; discriminate].
      intros r Hin. apply Hgen. apply (llgr_routes_after rib rem f r Hr Hin).
    + unfold pinv. cbn [h_gr h_rtimer h_ltimers h_rib h_sess].
      assert (forall x, mem x (fremove f lt) = mem x (fremove f rem)) as Hlt'
          by (intros x; rewrite !mem_fremove, Hlt; reflexivity).
      destruct (fremove f rem) as [|y ys] eqn:Er.
      * split; [reflexivity|]. split; [apply mem_nil_list; exact Hlt'|].
        intros r Hin. destruct (llgr_routes_after rib rem f r Hr Hin) as [_ [Hm _]]. rewrite Er in Hm. discriminate.
      * split; [reflexivity|]. split; [reflexivity|]. split; [exact Hlt'|].
        intros r Hin. destruct (llgr_routes_after rib rem f r Hr Hin) as [_ [Hm Hl]]. rewrite Er in Hm. tauto.
  - destruct Hp as [_ [H _]]. subst lt. discriminate.
Qed.

(* force_down in phase LlgrStaling: every armed LLGR timer runs its handler *)
Definition fq (rem0 : fset) (rib0 : list route) (gen : N) (P : list fam) (hh : hstate) : Prop :=
  h_rtimer hh = false /\ h_ltimers hh = [] /\ h_sess hh = None /\ h_gen hh = gen
  /\ (forall r, In r (h_rib hh) -> In r rib0)
  /\ match h_gr hh with
     | GIdle => h_rib hh = []
     | GLlgrStaling rem' =>
         (forall x, mem x rem' = true -> mem x rem0 = true /\ mem x P = false)
         /\ (forall r, In r (h_rib hh) -> mem (r_fam r) rem' = true /\ r_llgr r = true)
     | _ => False
     end.

Lemma fq_step : forall rem0 rib0 gen P hh f, fq rem0 rib0 gen P hh -> fq rem0 rib0 gen (f :: P) (llgr_handler hh f).
Proof.
  intros rem0 rib0 gen P hh f [H1 [H2 [H3 [H4 [H5 H6]]]]].
  destruct hh as [g rt lt rib S gn ad]. cbn [h_gr h_rtimer h_ltimers h_rib h_sess h_gen] in *.
  destruct g as [|stale llgr|rem'|p fl]; try contradiction.
  - unfold llgr_handler. cbn. subst rib. unfold fq. cbn. repeat split; try assumption; try (intros r []); try contradiction.
  - rewrite llgr_step_eq. destruct H6 as [Hx Hr]. unfold fq. cbn [h_gr h_rtimer h_ltimers h_rib h_sess h_gen].
    split; [exact H1|]. split; [exact H2|]. split; [exact H3|]. split; [exact H4|].
    split; [intros r Hin; apply H5; apply (llgr_routes_after rib rem' f r Hr Hin)|].
    destruct (fremove f rem') as [|y ys] eqn:Er.
    + destruct (rib_drop_llgr_stale rib [f]) as [|r rest] eqn:E; [reflexivity|]. exfalso.
      assert (In r (rib_drop_llgr_stale rib [f])) as Hin by (rewrite E; left; reflexivity).
      destruct (llgr_routes_after rib rem' f r Hr Hin) as [_ [Hm _]]. rewrite Er in Hm. discriminate.
    + rewrite <- Er. split.
      * intros x Hm. rewrite mem_fremove in Hm. apply andb_true_iff in Hm. destruct Hm as [Hm Hne].
        destruct (Hx x Hm) as [Ha Hb]. split; [exact Ha|]. rewrite mem_cons, Hb. apply negb_true_iff in Hne. rewrite Hne. reflexivity.
      * intros r Hin. destruct (llgr_routes_after rib rem' f r Hr Hin) as [_ Hc]. exact Hc.
Qed.

Lemma fq_fold : forall L rem0 rib0 gen P hh,
    fq rem0 rib0 gen P hh -> fq rem0 rib0 gen (rev L ++ P) (fold_left llgr_handler L hh).
Proof.
  induction L as [|f r IH]; intros rem0 rib0 gen P hh H; cbn [fold_left rev app]; [exact H|].
  rewrite <- app_assoc. cbn [app]. apply IH. apply fq_step. exact H.
Qed.

Lemma inv_force : forall h, inv h -> inv (h_step h HForceDown).
Proof.
  intros h Hinv. cbn [h_step]. destruct (h_rtimer h) eqn:Ert.
  - (* the restart timer is armed: phase PeerRestarting, no LLGR timer *)
    destruct Hinv as [Hg Hp]. pose proof Hp as Hp'. unfold pinv in Hp'.
    destruct (h_gr h) as [|stale llgr|rem|p fl] eqn:Eg.
    + destruct Hp' as [H _]. congruence.
    + destruct Hp' as [_ [_ [Hlt _]]]. rewrite Hlt. cbn [fold_left].
      apply (restart_handler_inv h stale llgr); [split; assumption | exact Eg].
    + destruct Hp' as [_ [H _]]. congruence.
    + destruct Hp' as [H _]. congruence.
  - open_inv h Hinv. subst rt. unfold upd_h. cbn [h_gr h_rtimer h_ltimers h_rib h_sess h_gen h_admin_down].
    destruct g as [|stale llgr|rem|p fl].
    + destruct Hp as [_ [Hlt Hr]]. subst lt. cbn [fold_left]. split; [constructor; assumption|].
      unfold pinv. cbn [h_gr h_rtimer h_ltimers h_rib h_sess]. split; [reflexivity|]. split; [reflexivity|]. exact Hr.
    + destruct Hp as [_ [H _]]. discriminate.
    + destruct Hp as [HS [_ [Hlt Hr]]]. subst S.
      assert (fq rem rib gen []
                 {| h_gr := GLlgrStaling rem; h_rtimer := false; h_ltimers := []; h_rib := rib; h_sess := None;
                    h_gen := gen; h_admin_down := ad |}) as H0.
      { unfold fq. cbn. repeat split; try tauto; try apply Hr; assumption. }
      pose proof (fq_fold lt rem rib gen [] _ H0) as HF. rewrite app_nil_r in HF.
      set (hh := fold_left llgr_handler lt _) in *.
      destruct HF as [F1 [F2 [F3 [F4 [F5 F6]]]]].
      split.
      * constructor; [intros r Hin; rewrite F4; apply Hgen; apply F5; exact Hin | intros s Hs; congruence].
      * unfold pinv. destruct (h_gr hh) as [|stale llgr|rem'|p fl]; try contradiction.
        -- split; [exact F1|]. split; [exact F2|]. rewrite F6. intros r [].
        -- destruct F6 as [Hx Hr']. split; [exact F3|]. split; [exact F1|].
           assert (rem' = []) as ->.
           { apply mem_nil_list. intros x. destruct (mem x rem') eqn:E; [|reflexivity]. destruct (Hx x E) as [Ha Hb].
             rewrite <- Hlt in Ha. apply mem_In in Ha. apply in_rev in Ha. apply mem_In in Ha. pose proof (eq_trans (eq_sym Ha) Hb) as Hc. discriminate Hc. }
           split; [intros f; rewrite F2; reflexivity|]. exact Hr'.
    + destruct Hp as [_ [Hlt Hr]]. subst lt. cbn [fold_left]. split; [constructor; assumption|].
      unfold pinv. cbn [h_gr h_rtimer h_ltimers h_rib h_sess]. split; [reflexivity|]. split; [reflexivity|]. exact Hr.
Qed.
