(* C18: for every interleaving of the atomic steps of Model/Subscribe.v (variant
   Fixed) the subscriber's fold equals the RIB once every thread has finished.
   The proof is an invariant over single steps, stated per key. *)
From Coq Require Import List NArith Bool Lia ZifyBool ZifyN PeanoNat.
From RB Require Import Base.Val Model.Subscribe Spec.SubscribeSpec.
Import ListNotations.
Open Scope N_scope.

Lemma key_eqb_eq a b : key_eqb a b = true <-> a = b.
Proof.
  unfold key_eqb. destruct a, b; cbn.
  rewrite !andb_true_iff, !N.eqb_eq. split.
  - intros [[[-> ->] ->] ->]; auto.
  - intro H; inversion H; auto.
Qed.
Lemma key_eqb_refl a : key_eqb a a = true.
Proof. apply key_eqb_eq; auto. Qed.
Lemma key_eqb_neq a b : a <> b -> key_eqb a b = false.
Proof. intro H. apply not_true_iff_false. rewrite key_eqb_eq. auto. Qed.

(* ---- the subscriber's fold, uniformly in the kind *)
Definition apply_b (b : bool) : fmap -> ev -> fmap := if b then apply_post else apply_pre.
Definition fold_b (b : bool) (evs : list ev) : fmap := fold_left (apply_b b) evs (fun _ => None).

Lemma fold_b_pre evs : fold_b false evs = fold_pre evs.
Proof. reflexivity. Qed.
Lemma fold_b_post evs : fold_b true evs = fold_post evs.
Proof. reflexivity. Qed.

Lemma fold_b_app b e1 e2 : fold_b b (e1 ++ e2) = fold_left (apply_b b) e2 (fold_b b e1).
Proof. unfold fold_b. apply fold_left_app. Qed.

Lemma apply_evk b b' m k x q :
  apply_b b m (evk b' k x) q = if Bool.eqb b b' && key_eqb q k then x else m q.
Proof. destruct b, b'; cbn; unfold fupd; destruct (key_eqb q k); auto. Qed.

Lemma apply_down b m p q : apply_b b m (EvDown p) q = if k_peer q =? p then None else m q.
Proof. destruct b; reflexivity. Qed.

Lemma fold_left_ext_point b l : forall m1 m2 (q : key), m1 q = m2 q ->
  fold_left (apply_b b) l m1 q = fold_left (apply_b b) l m2 q.
Proof.
  induction l as [|e l IH]; cbn [fold_left]; auto.
  intros m1 m2 q H. apply IH.
  destruct b, e; cbn; unfold fupd, fclear; auto; try (destruct (key_eqb q k); auto);
    try (destruct (k_peer q =? p); auto).
Qed.

(* events produced key by key: the value for key q depends on q only *)
Lemma fold_flat b b' (F : key -> option (option N)) ks : forall m q,
  fold_left (apply_b b)
    (flat_map (fun k => match F k with Some x => [evk b' k x] | None => [] end) ks) m q =
  if Bool.eqb b b' && existsb (key_eqb q) ks
  then match F q with Some x => x | None => m q end
  else m q.
Proof.
  induction ks as [|k t IH]; intros m q; cbn [flat_map existsb].
  - rewrite andb_false_r. auto.
  - rewrite fold_left_app, IH.
    assert (HK : key_eqb q k = false ->
                 fold_left (apply_b b) match F k with Some x => [evk b' k x] | None => [] end m q = m q).
    { intro EK. destruct (F k); cbn [fold_left]; auto. rewrite apply_evk, EK, andb_false_r. auto. }
    destruct (Bool.eqb b b') eqn:EB; cbn [andb].
    2:{ destruct (F k); cbn [fold_left]; auto. rewrite apply_evk, EB; auto. }
    destruct (key_eqb q k) eqn:EK; cbn [orb].
    + apply key_eqb_eq in EK. subst k.
      destruct (F q) as [x|] eqn:EF; cbn [fold_left].
      * destruct (existsb (key_eqb q) t); auto. rewrite apply_evk, EB, key_eqb_refl. auto.
      * destruct (existsb (key_eqb q) t); auto.
    + rewrite HK by auto. destruct (existsb (key_eqb q) t); auto.
Qed.

(* ---- threads *)
Definition steps (t : thread) : list mstep := t_cur t ++ flat_map expand (t_ops t).
Definition valid_cur (l : list mstep) : Prop := exists o pre, expand o = pre ++ l.

Lemma expand_nonempty o : expand o <> [].
Proof. destruct o; discriminate. Qed.

Lemma next_step_some t m t1 : valid_cur (t_cur t) -> next_step t = Some (m, t1) ->
  steps t = m :: steps t1 /\ valid_cur (t_cur t1) /\
  (t_cur t = m :: t_cur t1 \/ (t_cur t = [] /\ exists o, expand o = m :: t_cur t1)).
Proof.
  intro HV. unfold next_step, steps. destruct (t_cur t) as [|m0 r] eqn:EC.
  - destruct (t_ops t) as [|o os] eqn:EO; try discriminate.
    destruct (expand o) as [|m1 r1] eqn:EE; try discriminate.
    intro H. inversion H; subst. cbn [t_cur t_ops flat_map app]. rewrite EE. split; auto.
    split. exists o, [m]. rewrite EE. auto. right. split; auto. exists o. auto.
  - intro H. inversion H; subst. cbn [t_cur t_ops app]. split; auto. split; auto.
    destruct HV as [o [pre HV]]. exists o, (pre ++ [m]). rewrite <- app_assoc. auto.
Qed.

Lemma next_step_none t : next_step t = None -> steps t = [].
Proof.
  unfold next_step, steps. destruct (t_cur t); try discriminate.
  destruct (t_ops t) as [|o os]; auto. pose proof (expand_nonempty o). destruct (expand o); congruence.
Qed.

Section Inv.
Variable c : cfg.
Notation V := Fixed.

Lemma exec_thread g t m :
  t_cur (snd (exec c V g t m)) = t_cur t /\ t_ops (snd (exec c V g t m)) = t_ops t.
Proof. destruct m; cbn; auto. Qed.

Lemma exec_steps g t m : steps (snd (exec c V g t m)) = steps t.
Proof. unfold steps. destruct (exec_thread g t m) as [-> ->]. auto. Qed.

(* a walk of subscription [j] is only ever executed after its registration *)
Fixpoint wok (j : nat) (reg : bool) (l : list mstep) : bool :=
  match l with
  | [] => true
  | MSubReg i :: t => wok j (reg || Nat.eqb i j) t
  | MWalk i :: t => (negb (Nat.eqb i j) || reg) && wok j reg t
  | _ :: t => wok j reg t
  end.

Lemma wok_mono j l : forall b, wok j b l = true -> wok j true l = true.
Proof.
  induction l as [|m t IH]; intros b H; auto.
  destruct m; cbn [wok] in *; try (eapply IH; eassumption).
  apply andb_true_iff in H. destruct H as [_ H]. rewrite orb_true_r. cbn [andb]. eauto.
Qed.

Lemma wok_app j b l1 l2 : wok j b l1 = true -> (forall b', wok j b' l2 = true) -> wok j b (l1 ++ l2) = true.
Proof.
  revert b. induction l1 as [|m t IH]; intros b H1 H2; cbn [app]; auto.
  destruct m; cbn [wok] in *; auto.
  apply andb_true_iff in H1. destruct H1 as [-> H1]. cbn. auto.
Qed.

Lemma wok_expand j o b : wok j b (expand o) = true.
Proof.
  destruct o; cbn [expand wok]; auto.
  destruct (Nat.eqb j0 j); cbn; rewrite ?orb_true_r; auto.
Qed.

Lemma wok_flat j ops : forall b, wok j b (flat_map expand ops) = true.
Proof.
  induction ops as [|o t IH]; intro b; auto. cbn [flat_map].
  apply wok_app; auto. apply wok_expand.
Qed.

(* ownership of peers by threads *)
Definition owns (p : N) (m : mstep) : Prop :=
  match m with
  | MInsPrep k _ | MInsLocked k _ | MRemPrep k | MRemLocked k => k_peer k = p
  | MUp q | MUnregPrep q | MUnregShard q _ | MPeerDown q | MStaleShard q _ | MPeerDownGr q => q = p
  | _ => False
  end.
Definition owns_any (p : N) (l : list mstep) : Prop := exists m, In m l /\ owns p m.

Definition staleK (g : glob) (k : key) : Prop := g_rib g k <> None /\ is_stale g k = true.

(* the per-key relation between what a subscription holds and the RIB *)
Definition A (w : N) (phi rho : option N) (st : Prop) (sh : N) : Prop :=
  phi = rho \/ (w <= sh /\ phi = None) \/ (st /\ phi = None).

Record Inv (s : sys) : Prop := {
  i_pre : forall j, g_ph (s_g s) j = 0 ->
          (forall b k, fold_b b (g_evs (s_g s) j) k = None) /\ g_walk (s_g s) j = 0;
  i_wok : forall i j, wok j (negb (g_ph (s_g s) j =? 0)) (steps (s_thr s i)) = true;
  i_dom : forall k, g_rib (s_g s) k <> None -> In k (g_keys (s_g s));
  i_key : forall j b k, g_ph (s_g s) j = 1 ->
          A (g_walk (s_g s) j) (fold_b b (g_evs (s_g s) j) k) (ribv b (g_rib (s_g s)) k)
            (staleK (s_g s) k) (shard_of k);
  i_drop : forall i p,
      (t_cur (s_thr s i) = [MUnregShard p 1; MPeerDown p] ->
       forall k, k_peer k = p -> shard_of k = 0 -> g_rib (s_g s) k = None) /\
      (t_cur (s_thr s i) = [MPeerDown p] -> forall k, k_peer k = p -> g_rib (s_g s) k = None) /\
      (t_cur (s_thr s i) = [MStaleShard p 1; MPeerDownGr p] ->
       forall k, k_peer k = p -> shard_of k = 0 -> g_rib (s_g s) k <> None -> is_stale (s_g s) k = true) /\
      (t_cur (s_thr s i) = [MPeerDownGr p] ->
       forall k, k_peer k = p -> g_rib (s_g s) k <> None -> is_stale (s_g s) k = true);
  i_own : forall i j p, i <> j -> owns_any p (steps (s_thr s i)) -> owns_any p (steps (s_thr s j)) -> False;
  i_cur : forall i, valid_cur (t_cur (s_thr s i))
}.

(* ---- what one atomic step does to the shared state, per key and per subscription *)
Definition F (g : glob) (j : nat) (b : bool) (k : key) : option N := fold_b b (g_evs g j) k.

Definition inkeys (g : glob) (k : key) : bool := existsb (key_eqb k) (g_keys g).

(* nothing but the listed components changes *)
Definition frame (g g' : glob) : Prop :=
  g_ph g' = g_ph g /\ g_walk g' = g_walk g /\ g_stale g' = g_stale g /\ g_ssn g' = g_ssn g.

Definition effect (g : glob) (t : thread) (m : mstep) (g' : glob) : Prop :=
  match m with
  | MSubReg j0 =>
    g_ph g' = (if g_ph g j0 =? 0 then upd_nat j0 1 (g_ph g) else g_ph g) /\ g_walk g' = g_walk g /\ g_stale g' = g_stale g /\ g_ssn g' = g_ssn g /\
    g_keys g' = g_keys g /\ g_rib g' = g_rib g /\ g_evs g' = g_evs g
  | MUnsub j0 =>
    g_ph g' = upd_nat j0 2 (g_ph g) /\ g_walk g' = g_walk g /\ g_stale g' = g_stale g /\ g_ssn g' = g_ssn g /\
    g_keys g' = g_keys g /\ g_rib g' = g_rib g /\ g_evs g' = g_evs g
  | MWalk j0 =>
    g_ph g' = g_ph g /\ g_walk g' = upd_nat j0 (g_walk g j0 + 1) (g_walk g) /\
    g_stale g' = g_stale g /\ g_ssn g' = g_ssn g /\ g_keys g' = g_keys g /\ g_rib g' = g_rib g /\
    forall j b k, F g' j b k =
                  if Nat.eqb j j0 && in_shard (g_walk g j0) k && inkeys g k && nonnone (ribv b (g_rib g) k)
                  then ribv b (g_rib g) k else F g j b k
  | MInsLocked k0 tok =>
    g_ph g' = g_ph g /\ g_walk g' = g_walk g /\ g_stale g' = g_stale g /\
    (forall k, k <> k0 -> g_ssn g' k = g_ssn g k) /\
    (forall k, In k (g_keys g) -> In k (g_keys g')) /\
    (g_rib g' k0 <> None -> In k0 (g_keys g')) /\
    (forall k, k <> k0 -> g_rib g' k = g_rib g k) /\
    (g_rib g' k0 = None -> g_rib g k0 = None) /\
    forall j b k, F g' j b k = if live g j && key_eqb k k0 then ribv b (g_rib g') k0 else F g j b k
  | MRemLocked k0 =>
    frame g g' /\ g_keys g' = g_keys g /\
    (forall k, g_rib g' k = if key_eqb k k0 then None else g_rib g k) /\
    forall j b k, F g' j b k = if live g j && key_eqb k k0 then None else F g j b k
  | MUnregShard p s =>
    frame g g' /\ g_keys g' = g_keys g /\
    (forall k, g_rib g' k = if purge_sel g PAll p s k then None else g_rib g k) /\
    forall j b k, F g' j b k =
                  if live g j && purge_sel g PAll p s k && nonnone (g_rib g k) && inkeys g k then None else F g j b k
  | MPurgeShard all p s =>
    frame g g' /\ g_keys g' = g_keys g /\
    (forall k, g_rib g' k = if purge_sel g all p s k then None else g_rib g k) /\
    forall j b k, F g' j b k =
                  if live g j && purge_sel g all p s k && nonnone (g_rib g k) && inkeys g k then None else F g j b k
  | MPeerDown p | MPeerDownGr p =>
    frame g g' /\ g_keys g' = g_keys g /\ g_rib g' = g_rib g /\
    forall j b k, F g' j b k = if live g j && (k_peer k =? p) then None else F g j b k
  | MStaleShard p s =>
    g_ph g' = g_ph g /\ g_walk g' = g_walk g /\ g_ssn g' = g_ssn g /\
    g_keys g' = g_keys g /\ g_rib g' = g_rib g /\ g_evs g' = g_evs g /\
    (forall k, is_stale g k = true -> is_stale g' k = true) /\
    (forall k, k_peer k = p -> in_shard s k = true -> g_rib g k <> None -> inkeys g k = true -> is_stale g' k = true)
  | MResetShard p s =>
    frame g g' /\ g_keys g' = g_keys g /\
    (forall k, g_rib g' k = reset_rib g (rejects c (t_pol t) p) p s k) /\
    forall j b k, F g' j b k =
                  if live g j && b && reset_sel g p s k && inkeys g k && nonnone (g_rib g k)
                  then ribv b (g_rib g') k else F g j b k
  | _ =>
    frame g g' /\ g_keys g' = g_keys g /\ g_rib g' = g_rib g /\ forall j b k, F g' j b k = F g j b k
  end.

Lemma existsb_filter_key q (f : key -> bool) ks :
  existsb (key_eqb q) (filter f ks) = f q && existsb (key_eqb q) ks.
Proof.
  induction ks as [|k t IH]; cbn [filter existsb]. rewrite andb_false_r. auto.
  destruct (f k) eqn:EF; cbn [existsb]; rewrite IH.
  - destruct (key_eqb q k) eqn:EK; cbn [orb].
    + apply key_eqb_eq in EK. subst. rewrite EF. auto.
    + auto.
  - destruct (key_eqb q k) eqn:EK; cbn [orb]; auto.
    apply key_eqb_eq in EK. subst. rewrite EF. auto.
Qed.

Lemma bcast_fold b (subs : nat -> bool) evs l j k :
  fold_b b (bcast subs evs l j) k =
  if subs j then fold_left (apply_b b) l (fold_b b (evs j)) k else fold_b b (evs j) k.
Proof. unfold bcast. destruct (subs j). apply (f_equal (fun f => f k)), fold_b_app. rewrite app_nil_r. auto. Qed.

Lemma walk_fold b b' r ks m q :
  fold_left (apply_b b) (walk_evs b' r ks) m q =
  if Bool.eqb b b' && existsb (key_eqb q) ks && nonnone (ribv b' r q) then ribv b' r q else m q.
Proof.
  unfold walk_evs.
  rewrite (flat_map_ext _ (fun k => match (match ribv b' r k with Some tok => Some (Some tok) | None => None end)
                                    with Some x => [evk b' k x] | None => [] end)).
  2:{ intro k. destruct (ribv b' r k); auto. }
  rewrite fold_flat. destruct (Bool.eqb b b' && existsb (key_eqb q) ks); cbn [andb]; auto.
  destruct (ribv b' r q); cbn; auto.
Qed.

Lemma withdraw_fold b ks : forall m q,
  fold_left (apply_b b) (flat_map (fun k => [evk false k None; evk true k None]) ks) m q =
  if existsb (key_eqb q) ks then None else m q.
Proof.
  induction ks as [|k t IH]; intros m q; cbn [flat_map existsb app fold_left]; auto.
  rewrite IH. destruct (existsb (key_eqb q) t); [destruct (key_eqb q k); auto|].
  rewrite !apply_evk. destruct b; cbn [Bool.eqb andb]; destruct (key_eqb q k); auto.
Qed.

Lemma same_prefix_refl k : same_prefix k k = true.
Proof. unfold same_prefix. rewrite !N.eqb_refl. auto. Qed.

Lemma add_key_in k0 ks k : In k (add_key k0 ks) <-> k = k0 \/ In k ks.
Proof.
  unfold add_key. destruct (existsb (key_eqb k0) ks) eqn:E.
  - split; auto. intros [->|H]; auto. apply existsb_exists in E. destruct E as [x [Hx E]].
    apply key_eqb_eq in E. subst. auto.
  - cbn. intuition.
Qed.

Lemma upd_rib_same k0 x r : upd_rib k0 x r k0 = x.
Proof. unfold upd_rib. rewrite key_eqb_refl. auto. Qed.
Lemma upd_rib_other k0 x r k : k <> k0 -> upd_rib k0 x r k = r k.
Proof. intro H. unfold upd_rib. rewrite key_eqb_neq; auto. Qed.

Lemma fold_two b k0 x y m k :
  fold_left (apply_b b) [evk false k0 x; evk true k0 y] m k =
  if key_eqb k k0 then (if b then y else x) else m k.
Proof.
  cbn [fold_left]. rewrite !apply_evk. destruct b; cbn [Bool.eqb andb]; destruct (key_eqb k k0); auto.
Qed.

Definition dom_ok (g : glob) : Prop := forall k, g_rib g k <> None -> In k (g_keys g).

Lemma is_new_none g k0 : dom_ok g -> peer_has_prefix g k0 = false -> g_rib g k0 = None.
Proof.
  intros HD HN. destruct (g_rib g k0) eqn:E; auto. exfalso.
  assert (In k0 (g_keys g)) by (apply HD; congruence).
  assert (peer_has_prefix g k0 = true); try congruence.
  unfold peer_has_prefix. apply existsb_exists. exists k0. split; auto.
  rewrite same_prefix_refl, E. auto.
Qed.

Lemma ins_accept_effect g k0 tok filtered ctr :
  let g' := with_rib g (live g) [evk false k0 (Some tok); evk true k0 (post_val tok filtered)]
                     (add_key k0 (g_keys g)) (upd_rib k0 (Some (tok, filtered)) (g_rib g))
                     (fun q => if key_eqb q k0 then g_sess g (k_peer k0) else g_ssn g q) ctr in
  effect g {| t_cur := []; t_ops := []; t_pol := 0; t_subs := fun _ => false |} (MInsLocked k0 tok) g'.
Proof.
  cbn [effect with_rib g_ph g_walk g_stale g_ssn g_keys g_rib]. repeat split; auto.
  - intros k H. rewrite key_eqb_neq; auto.
  - intros k H. apply add_key_in. auto.
  - intros _. apply add_key_in. auto.
  - intros k H. apply upd_rib_other. auto.
  - rewrite upd_rib_same. discriminate.
  - intros j b k. unfold F. cbn [g_evs with_rib with_evs]. rewrite bcast_fold. destruct (live g j); cbn [andb]; auto.
    rewrite fold_two. unfold ribv. rewrite upd_rib_same. destruct (key_eqb k k0); auto.
    destruct b, filtered; reflexivity.
Qed.

Lemma exec_effect g t m : dom_ok g -> effect g t m (fst (exec c V g t m)).
Proof.
  intro HD. destruct m; cbn [exec fst effect].
  - (* MSubReg *) destruct (g_ph g j =? 0); cbn; repeat split; auto.
  - (* MWalk *)
    unfold walk_shard. cbn [g_ph g_keys g_rib g_walk g_evs g_stale g_ssn]. repeat (split; auto).
    intros j0 b k. unfold F. cbn [g_evs with_rib with_evs]. unfold upd_nat.
    destruct (Nat.eqb j0 j) eqn:EJ; cbn [andb]; auto.
    apply Nat.eqb_eq in EJ. subst j0.
    rewrite fold_b_app, !fold_left_app.
    assert (HE : forall m0, fold_left (apply_b b) (if g_walk g j + 1 =? 2 then [EvEnd] else []) m0 k = m0 k).
    { intro m0. destruct (g_walk g j + 1 =? 2); cbn; auto. destruct b; reflexivity. }
    rewrite HE, !walk_fold, !existsb_filter_key. unfold inkeys.
    destruct b; cbn [Bool.eqb andb].
    + destruct (in_shard (g_walk g j) k && existsb (key_eqb k) (g_keys g)); cbn [andb]; auto.
    + destruct (in_shard (g_walk g j) k && existsb (key_eqb k) (g_keys g)); cbn [andb]; auto.
  - (* MUnsub *) cbn. repeat split; auto.
  - unfold frame. cbn. auto.
  - (* MInsLocked *)
    unfold ins_locked. destruct (limit_of c (k_peer k)) as [mx|].
    + destruct (negb (peer_has_prefix g k) && (mx <=? g_ctr g (k_peer k))) eqn:ER.
      * apply andb_true_iff in ER. destruct ER as [ER _]. apply negb_true_iff in ER.
        pose proof (is_new_none g k HD ER) as HN.
        cbn [with_rib g_ph g_walk g_stale g_ssn g_keys g_rib]. repeat split; auto; try congruence.
        intros j b q. unfold F. cbn [g_evs with_rib with_evs]. rewrite bcast_fold. destruct (live g j); cbn [andb]; auto.
        rewrite fold_left_app, !fold_two. unfold ribv. rewrite HN. destruct (key_eqb q k); auto. destruct b; auto.
      * apply (ins_accept_effect g k tok).
    + apply (ins_accept_effect g k tok).
  - unfold frame. cbn. auto.
  - (* MRemLocked *)
    assert (HR : forall g', (g' = with_rib g (live g) [evk false k None; evk true k None] (g_keys g)
                                   (upd_rib k None (g_rib g)) (g_ssn g) (g_ctr g) \/
                             g' = with_rib g (live g) [evk false k None; evk true k None] (g_keys g)
                                   (upd_rib k None (g_rib g)) (g_ssn g) (set_ctr (k_peer k) (ctr_dec (g_ctr g (k_peer k))) (g_ctr g))) ->
                 effect g t (MRemLocked k) g').
    { intros g' [-> | ->]; cbn [effect]; unfold frame; cbn [with_rib g_ph g_walk g_stale g_ssn g_keys g_rib]; repeat split; auto;
        intros j b q; unfold F; cbn [g_evs with_rib]; rewrite bcast_fold; destruct (live g j); cbn [andb]; auto;
        rewrite fold_two; destruct (key_eqb q k); auto; destruct b; auto. }
    apply HR. unfold rem_locked.
    destruct (g_rib g k); auto. destruct (limit_of c (k_peer k)); auto.
    destruct (peer_has_prefix _ k); auto.
  - (* MUp *)
    unfold frame. cbn [with_evs with_rib g_ph g_walk g_stale g_ssn g_keys g_rib]. repeat split; auto.
    intros j b q. unfold F. cbn [g_evs with_rib with_evs]. rewrite bcast_fold. destruct (live g j); auto. destruct b; reflexivity.
  - unfold frame. cbn. auto.
  - (* MUnregShard *)
    unfold purge_shard, frame. cbn [with_rib g_ph g_walk g_stale g_ssn g_keys g_rib]. repeat split; auto.
    intros j b q. unfold F. cbn [g_evs with_rib with_evs]. rewrite bcast_fold. destruct (live g j); cbn [andb]; auto.
    rewrite withdraw_fold, existsb_filter_key. unfold inkeys. auto.
  - (* MPeerDown *)
    unfold frame. cbn [with_rib g_ph g_walk g_stale g_ssn g_keys g_rib]. repeat split; auto.
    intros j b q. unfold F. cbn [g_evs with_rib with_evs]. rewrite bcast_fold. destruct (live g j); cbn [andb fold_left]; auto.
    rewrite apply_down. auto.
  - (* MStaleShard *)
    unfold stale_shard. cbn [g_ph g_walk g_stale g_ssn g_keys g_rib g_evs]. repeat split; auto.
    + intros q H. unfold is_stale in *. cbn [g_stale g_ssn]. rewrite existsb_app, H. apply orb_true_r.
    + intros q Hp Hs Hr Hk. unfold is_stale. cbn [g_stale g_ssn]. rewrite existsb_app.
      apply orb_true_iff. left. apply existsb_exists. exists (p, g_ssn g q). split.
      * apply in_map_iff. exists q. split; auto. apply filter_In. split.
        -- unfold inkeys in Hk. apply existsb_exists in Hk. destruct Hk as [x [Hx Hk]].
           apply key_eqb_eq in Hk. subst. auto.
        -- rewrite Hs. assert (k_peer q =? p = true) as -> by (apply N.eqb_eq; auto).
           destruct (g_rib g q); [auto|congruence].
      * cbn [fst snd]. rewrite Hp, !N.eqb_refl. auto.
  - (* MPeerDownGr *)
    unfold frame. cbn [with_rib g_ph g_walk g_stale g_ssn g_keys g_rib]. repeat split; auto.
    intros j b q. unfold F. cbn [g_evs with_rib with_evs]. rewrite bcast_fold. destruct (live g j); cbn [andb fold_left]; auto.
    rewrite apply_down. auto.
  - unfold frame. cbn. auto.
  - (* MPurgeShard *)
    unfold purge_shard, frame. destruct all; cbn [set_llgr with_rib g_ph g_walk g_stale g_ssn g_keys g_rib]; repeat split; auto;
    intros j b q; unfold F; cbn [set_llgr g_evs with_rib with_evs]; rewrite bcast_fold; destruct (live g j); cbn [andb]; auto;
    rewrite withdraw_fold, existsb_filter_key; unfold inkeys; auto.
  - unfold frame. cbn. auto.
  - (* MResetShard *)
    unfold reset_shard, frame. cbn [with_rib g_ph g_walk g_stale g_ssn g_keys g_rib]. repeat split; auto.
    intros j b q. unfold F. cbn [g_evs with_rib with_evs]. rewrite bcast_fold.
    destruct (live g j); cbn [andb]; auto.
    rewrite (flat_map_ext _ (fun k => match (if nonnone (g_rib g k)
                                             then Some (ribv true (reset_rib g (rejects c (t_pol t) p) p s) k)
                                             else None)
                                      with Some x => [evk true k x] | None => [] end)).
    2:{ intro k. destruct (g_rib g k); auto. }
    rewrite fold_flat, existsb_filter_key. unfold inkeys.
    destruct b; cbn [Bool.eqb andb]; auto.
    destruct (reset_sel g p s q); cbn [andb]; auto.
    destruct (existsb (key_eqb q) (g_keys g)); cbn [andb]; auto.
    destruct (nonnone (g_rib g q)); auto.
  - unfold frame. cbn. auto.
  - unfold frame. cbn. auto.
  - unfold frame. cbn. auto.
Qed.

(* ---- generic consequences of an effect *)
Definition ph_after (g : glob) (m : mstep) : nat -> N :=
  match m with
  | MSubReg j0 => if g_ph g j0 =? 0 then upd_nat j0 1 (g_ph g) else g_ph g
  | MUnsub j0 => upd_nat j0 2 (g_ph g)
  | _ => g_ph g
  end.
Lemma eff_ph g t m g' : effect g t m g' -> g_ph g' = ph_after g m.
Proof. intro H. destruct m; cbn [effect ph_after] in *; unfold frame in *; intuition. Qed.

Lemma eff_walk g t m g' : effect g t m g' ->
  g_walk g' = match m with MWalk j0 => upd_nat j0 (g_walk g j0 + 1) (g_walk g) | _ => g_walk g end.
Proof. intro H. destruct m; cbn [effect] in *; unfold frame in *; intuition. Qed.

Lemma eff_F_dead g t m g' j : effect g t m g' -> live g j = false -> m <> MWalk j ->
  forall b k, F g' j b k = F g j b k.
Proof.
  intros H HL Hm b k.
  destruct m; cbn [effect] in H; unfold frame in H;
    try (unfold F; assert (HV : g_evs g' = g_evs g) by intuition; rewrite HV; reflexivity);
    try (assert (HH : forall j b k, F g' j b k = F g j b k) by intuition; apply HH).
  - destruct H as [_ [_ [_ [_ [_ [_ H]]]]]]. rewrite H.
    destruct (Nat.eqb j j0) eqn:E; cbn [andb]; auto. apply Nat.eqb_eq in E. subst. congruence.
  - destruct H as [_ [_ [_ [_ [_ [_ [_ [_ H]]]]]]]]. rewrite H, HL. auto.
  - destruct H as [_ [_ [_ H]]]. rewrite H, HL. auto.
  - destruct H as [_ [_ [_ H]]]. rewrite H, HL. auto.
  - destruct H as [_ [_ [_ H]]]. rewrite H, HL. auto.
  - destruct H as [_ [_ [_ H]]]. rewrite H, HL. auto.
  - destruct H as [_ [_ [_ H]]]. rewrite H, HL. auto.
  - destruct H as [_ [_ [_ H]]]. rewrite H, HL. auto.
Qed.

Lemma eff_keys g t m g' k : effect g t m g' -> In k (g_keys g) -> In k (g_keys g').
Proof.
  intros H Hk. destruct m; cbn [effect] in *; unfold frame in *;
    try (assert (HK : g_keys g' = g_keys g) by intuition; rewrite HK; exact Hk).
  destruct H as [_ [_ [_ [_ [H _]]]]]. auto.
Qed.

(* the rib entry of a key can only appear through an insert of that key *)
Lemma eff_rib_some g t m g' k : effect g t m g' -> g_rib g' k <> None ->
  g_rib g k <> None \/ exists tok, m = MInsLocked k tok.
Proof.
  intros H Hk. destruct m; cbn [effect] in *; unfold frame in *;
    try (assert (HR : g_rib g' = g_rib g) by intuition; rewrite HR in Hk; left; exact Hk).
  - destruct H as [_ [_ [_ [_ [_ [_ [H7 _]]]]]]].
    destruct (key_eqb k k0) eqn:E.
    + apply key_eqb_eq in E. subst. right. eauto.
    + left. rewrite <- H7; auto. intro; subst. rewrite key_eqb_refl in E. discriminate.
  - destruct H as [_ [_ [H _]]]. rewrite H in Hk. destruct (key_eqb k k0); [congruence|auto].
  - destruct H as [_ [_ [H _]]]. rewrite H in Hk. destruct (purge_sel g PAll p s k); [congruence|auto].
  - destruct H as [_ [_ [H _]]]. rewrite H in Hk. destruct (purge_sel g all p s k); [congruence|auto].
  - destruct H as [_ [_ [H _]]]. rewrite H in Hk. unfold reset_rib in Hk.
    destruct (reset_sel g p s k); auto. destruct (g_rib g k); [left; congruence|congruence].
Qed.

Lemma eff_rib_none g t m g' k : effect g t m g' -> g_rib g k = None ->
  (forall tok, m <> MInsLocked k tok) -> g_rib g' k = None.
Proof.
  intros H Hk Hm. destruct (g_rib g' k) eqn:E; auto. exfalso.
  assert (HN : g_rib g' k <> None) by congruence.
  destruct (eff_rib_some g t m g' k H HN) as [HH|[tok HH]]; [congruence | exact (Hm tok HH)].
Qed.

Lemma eff_stale g t m g' k : effect g t m g' -> (forall tok, m <> MInsLocked k tok) ->
  is_stale g k = true -> is_stale g' k = true.
Proof.
  intros H Hm Hs.
  assert (HF : g_stale g' = g_stale g -> g_ssn g' k = g_ssn g k -> is_stale g' k = true).
  { intros H1 H2. unfold is_stale in *. rewrite H1, H2. auto. }
  destruct m; cbn [effect] in *; unfold frame in *; try (apply HF; intuition congruence).
  - destruct H as [_ [_ [H3 [H4 _]]]]. apply HF; auto. apply H4. intro; subst. eapply Hm; eauto.
  - destruct H as [_ [_ [_ [_ [_ [_ [H _]]]]]]]. auto.
Qed.

Lemma eff_stale_back g t m g' k : effect g t m g' -> (forall p s, m <> MStaleShard p s) ->
  (forall tok, m <> MInsLocked k tok) -> is_stale g' k = is_stale g k.
Proof.
  intros H Hm Hi.
  assert (HF : g_stale g' = g_stale g -> g_ssn g' k = g_ssn g k -> is_stale g' k = is_stale g k).
  { intros H1 H2. unfold is_stale. rewrite H1, H2. auto. }
  destruct m; cbn [effect] in *; unfold frame in *; try (apply HF; intuition congruence).
  - destruct H as [_ [_ [H3 [H4 _]]]]. apply HF; auto. apply H4. intro; subst. eapply Hi; eauto.
  - exfalso. eapply Hm; eauto.
Qed.

(* ---- shapes of the operation in progress *)
Ltac shape_tac H pre :=
  repeat (destruct pre as [|? pre]; cbn [app] in H; try discriminate H; try (inversion H; subst; cbn; auto; fail)).
Lemma shape_unreg1 o pre m p : expand o = pre ++ m :: [MUnregShard p 1; MPeerDown p] -> m = MUnregShard p 0.
Proof. destruct o; cbn [expand]; intro H; shape_tac H pre. Qed.
Lemma shape_pd o pre m p : expand o = pre ++ m :: [MPeerDown p] -> m = MUnregShard p 1.
Proof. destruct o; cbn [expand]; intro H; shape_tac H pre. Qed.
Lemma shape_stale1 o pre m p : expand o = pre ++ m :: [MStaleShard p 1; MPeerDownGr p] -> m = MStaleShard p 0.
Proof. destruct o; cbn [expand]; intro H; shape_tac H pre. Qed.
Lemma shape_pdgr o pre m p : expand o = pre ++ m :: [MPeerDownGr p] -> m = MStaleShard p 1.
Proof. destruct o; cbn [expand]; intro H; shape_tac H pre. Qed.
Lemma shape_pd_last o pre p r : expand o = pre ++ MPeerDown p :: r -> r = [].
Proof. destruct o; cbn [expand]; intro H; shape_tac H pre. Qed.
Lemma shape_pdgr_last o pre p r : expand o = pre ++ MPeerDownGr p :: r -> r = [].
Proof. destruct o; cbn [expand]; intro H; shape_tac H pre. Qed.
Lemma no_expand_pd o p r : expand o = MPeerDown p :: r -> False.
Proof. destruct o; discriminate. Qed.
Lemma no_expand_pdgr o p r : expand o = MPeerDownGr p :: r -> False.
Proof. destruct o; discriminate. Qed.

Record ctx (s : sys) (i : nat) (m : mstep) (t1 t2 : thread) (g' : glob) : Prop := {
  c_inv : Inv s;
  c_steps : steps (s_thr s i) = m :: steps t1;
  c_t2 : steps t2 = steps t1;
  c_cur : t_cur t2 = t_cur t1;
  c_valid : valid_cur (t_cur t1);
  c_shape : exists o pre, expand o = pre ++ m :: t_cur t1;
  c_before : t_cur (s_thr s i) = m :: t_cur t1 \/
             (t_cur (s_thr s i) = [] /\ exists o, expand o = m :: t_cur t1);
  c_eff : effect (s_g s) t1 m g'
}.

Definition after (s : sys) (i : nat) (t2 : thread) (g' : glob) : sys :=
  {| s_g := g'; s_thr := upd_thr i t2 (s_thr s) |}.

Section Step.
Variables (s : sys) (i : nat) (m : mstep) (t1 t2 : thread) (g' : glob).
Hypothesis C : ctx s i m t1 t2 g'.
Let s' := after s i t2 g'.

Lemma steps' j : steps (s_thr s' j) = if Nat.eqb j i then steps t1 else steps (s_thr s j).
Proof. cbn. unfold upd_thr. destruct (Nat.eqb j i); auto. apply (c_t2 _ _ _ _ _ _ C). Qed.

Lemma steps_sub j x : In x (steps (s_thr s' j)) -> In x (steps (s_thr s j)).
Proof.
  rewrite steps'. destruct (Nat.eqb j i) eqn:E; auto.
  apply Nat.eqb_eq in E. subst. rewrite (c_steps _ _ _ _ _ _ C). cbn. auto.
Qed.

Lemma own' : forall a b p, a <> b -> owns_any p (steps (s_thr s' a)) -> owns_any p (steps (s_thr s' b)) -> False.
Proof.
  intros a b p Hab [x [Hx Ox]] [y [Hy Oy]]. apply (i_own s (c_inv _ _ _ _ _ _ C) a b p Hab).
  - exists x. split; auto. apply steps_sub; auto.
  - exists y. split; auto. apply steps_sub; auto.
Qed.

Lemma cur' j : valid_cur (t_cur (s_thr s' j)).
Proof.
  cbn. unfold upd_thr. destruct (Nat.eqb j i).
  - rewrite (c_cur _ _ _ _ _ _ C). apply (c_valid _ _ _ _ _ _ C).
  - apply (i_cur s (c_inv _ _ _ _ _ _ C)).
Qed.
End Step.

Lemma ph_after_zero g m j : ph_after g m j = 0 -> g_ph g j = 0 /\ m <> MSubReg j.
Proof.
  destruct m; cbn [ph_after]; intro H; try (split; [exact H|discriminate]).
  - destruct (g_ph g j0 =? 0) eqn:E.
    + unfold upd_nat in H. destruct (Nat.eqb j j0) eqn:EJ; [discriminate|].
      split; auto. intro HH. inversion HH. subst. rewrite Nat.eqb_refl in EJ. discriminate.
    + split; auto. intro HH. inversion HH. subst. rewrite H in E. discriminate.
  - unfold upd_nat in H. destruct (Nat.eqb j j0); [discriminate|]. split; auto. discriminate.
Qed.

Lemma reg_mono g m j : negb (g_ph g j =? 0) = true -> negb (ph_after g m j =? 0) = true.
Proof.
  intro H. destruct (ph_after g m j =? 0) eqn:E; auto. apply N.eqb_eq in E.
  apply ph_after_zero in E. destruct E as [E _]. rewrite E in H. discriminate.
Qed.

Lemma wok' s i m t1 t2 g' i' j : ctx s i m t1 t2 g' ->
  wok j (negb (g_ph g' j =? 0)) (steps (s_thr (after s i t2 g') i')) = true.
Proof.
  intro C. rewrite (eff_ph _ _ _ _ (c_eff _ _ _ _ _ _ C)), (steps' _ _ _ _ _ _ C).
  pose proof (i_wok s (c_inv _ _ _ _ _ _ C)) as HW.
  assert (HG : forall l, wok j (negb (g_ph (s_g s) j =? 0)) l = true ->
                         wok j (negb (ph_after (s_g s) m j =? 0)) l = true).
  { intros l Hl. destruct (negb (g_ph (s_g s) j =? 0)) eqn:ER.
    - rewrite reg_mono; auto.
    - destruct (negb (ph_after (s_g s) m j =? 0)); auto. eapply wok_mono; eauto. }
  destruct (Nat.eqb i' i) eqn:E.
  - specialize (HW i j). rewrite (c_steps _ _ _ _ _ _ C) in HW.
    destruct m; cbn [wok] in HW; try (apply HG; exact HW).
    + (* MSubReg j0 *)
      cbn [ph_after]. destruct (Nat.eqb j0 j) eqn:EJ.
      * apply Nat.eqb_eq in EJ. subst j0. rewrite orb_true_r in HW.
        destruct (g_ph (s_g s) j =? 0) eqn:EP.
        -- unfold upd_nat. rewrite Nat.eqb_refl. cbn. exact HW.
        -- rewrite EP. cbn. exact HW.
      * rewrite orb_false_r in HW.
        assert (HE : (if g_ph (s_g s) j0 =? 0 then upd_nat j0 1 (g_ph (s_g s)) else g_ph (s_g s)) j = g_ph (s_g s) j).
        { destruct (g_ph (s_g s) j0 =? 0); auto. unfold upd_nat. rewrite Nat.eqb_sym, EJ. auto. }
        rewrite HE. exact HW.
    + (* MWalk *) apply andb_true_iff in HW. apply HG. tauto.
  - apply HG. apply HW.
Qed.

Lemma walk_needs_reg s i j t1 t2 g' : ctx s i (MWalk j) t1 t2 g' -> g_ph (s_g s) j <> 0.
Proof.
  intro C. pose proof (i_wok s (c_inv _ _ _ _ _ _ C) i j) as HW.
  rewrite (c_steps _ _ _ _ _ _ C) in HW. cbn [wok] in HW. rewrite Nat.eqb_refl in HW. cbn [negb orb] in HW.
  apply andb_true_iff in HW. destruct HW as [HW _]. intro H. rewrite H in HW. discriminate.
Qed.

Lemma live_false g j : g_ph g j = 0 -> live g j = false.
Proof. unfold live. intros ->. reflexivity. Qed.

Lemma pre' s i m t1 t2 g' : ctx s i m t1 t2 g' -> forall j,
  g_ph g' j = 0 -> (forall b k, fold_b b (g_evs g' j) k = None) /\ g_walk g' j = 0.
Proof.
  intros C j. rewrite (eff_ph _ _ _ _ (c_eff _ _ _ _ _ _ C)). intro H0.
  apply ph_after_zero in H0. destruct H0 as [H0 Hm].
  destruct (i_pre s (c_inv _ _ _ _ _ _ C) j H0) as [He Hw].
  pose proof (c_eff _ _ _ _ _ _ C) as HE.
  assert (HN : m <> MWalk j).
  { intro HH. subst m. apply (walk_needs_reg _ _ _ _ _ _ C). exact H0. }
  split.
  - intros b k. change (F g' j b k = None). rewrite (eff_F_dead _ _ _ _ j HE (live_false _ _ H0) HN). apply He.
  - rewrite (eff_walk _ _ _ _ HE). destruct m; auto.
    unfold upd_nat. destruct (Nat.eqb j j0) eqn:EJ; auto. apply Nat.eqb_eq in EJ. subst. congruence.
Qed.

Lemma dom' s i m t1 t2 g' : ctx s i m t1 t2 g' -> forall k, g_rib g' k <> None -> In k (g_keys g').
Proof.
  intros C k Hk. pose proof (c_eff _ _ _ _ _ _ C) as HE.
  destruct (eff_rib_some _ _ _ _ k HE Hk) as [H|[tok H]].
  - eapply eff_keys; eauto. apply (i_dom s (c_inv _ _ _ _ _ _ C)). auto.
  - subst m. cbn [effect] in HE. destruct HE as [_ [_ [_ [_ [_ [H6 _]]]]]]. auto.
Qed.

Lemma A_keep w phi rho (st : Prop) sh phi' rho' (st' : Prop) :
  phi' = phi -> rho' = rho -> (st -> st') -> A w phi rho st sh -> A w phi' rho' st' sh.
Proof. intros -> -> H1 [H|[H|[H3 H4]]]; [left|right; left|right; right]; auto. Qed.

Lemma ribv_ext b (r r' : key -> option (N * bool)) k : r' k = r k -> ribv b r' k = ribv b r k.
Proof. unfold ribv. intros ->. auto. Qed.

Lemma ribv_none b (r : key -> option (N * bool)) k : r k = None -> ribv b r k = None.
Proof. unfold ribv. intros ->. auto. Qed.

Lemma in_shard_eq x k : in_shard x k = true <-> shard_of k = x.
Proof. unfold in_shard. apply N.eqb_eq. Qed.

Lemma inkeys_in g k : In k (g_keys g) -> inkeys g k = true.
Proof. intro H. apply existsb_exists. exists k. split; auto. apply key_eqb_refl. Qed.

Lemma live_iff g j : live g j = true <-> g_ph g j = 1.
Proof. unfold live. apply N.eqb_eq. Qed.

Lemma staleK_keep g t m g' k : effect g t m g' ->
  (forall tok, m <> MInsLocked k tok) -> g_rib g' k = g_rib g k -> staleK g k -> staleK g' k.
Proof. intros HE Hm Hr [H1 H2]. split. congruence. eapply eff_stale; eauto. Qed.

Lemma staleK_frame g g' k :
  g_rib g' = g_rib g -> g_stale g' = g_stale g -> g_ssn g' = g_ssn g -> staleK g k -> staleK g' k.
Proof. intros H1 H2 H3 [X Y]. split. congruence. unfold is_stale in *. rewrite H2, H3. auto. Qed.

Lemma key' s i m t1 t2 g' : ctx s i m t1 t2 g' -> forall j b k, g_ph g' j = 1 ->
  A (g_walk g' j) (fold_b b (g_evs g' j) k) (ribv b (g_rib g') k) (staleK g' k) (shard_of k).
Proof.
  intros C j b k HP. pose proof (c_inv _ _ _ _ _ _ C) as HI. pose proof (c_eff _ _ _ _ _ _ C) as HE.
  change (fold_b b (g_evs g' j) k) with (F g' j b k).
  (* a subscription that has just registered holds nothing and has walked nothing *)
  destruct (N.eq_dec (g_ph (s_g s) j) 1) as [HL|HL].
  2:{ rewrite (eff_ph _ _ _ _ HE) in HP.
      assert (H0 : g_ph (s_g s) j = 0 /\ m = MSubReg j).
      { destruct m; cbn [ph_after] in HP; try congruence.
        - destruct (g_ph (s_g s) j0 =? 0) eqn:E; try congruence. unfold upd_nat in HP.
          destruct (Nat.eqb j j0) eqn:EJ; try congruence. apply Nat.eqb_eq in EJ. subst.
          apply N.eqb_eq in E. auto.
        - unfold upd_nat in HP. destruct (Nat.eqb j j0); congruence. }
      destruct H0 as [H0 ->]. destruct (i_pre s HI j H0) as [HF HW].
      cbn [effect] in HE. destruct HE as [_ [H2 [_ [_ [_ [_ H7]]]]]].
      right; left. unfold F. rewrite H2, H7, HW, HF. split; auto. lia. }
  pose proof (i_key s HI j b k HL) as HA. change (fold_b b (g_evs (s_g s) j) k) with (F (s_g s) j b k) in HA.
  assert (HLv : live (s_g s) j = true) by (apply live_iff; auto).
  destruct m; cbn [effect] in HE; unfold frame in HE.
  - (* MSubReg *)
    destruct HE as [_ [H2 [H3 [H4 [_ [H6 H7]]]]]]. unfold F. rewrite H2, H6, H7.
    eapply A_keep; try exact HA; auto. apply staleK_frame; auto.
  - (* MWalk j0 *)
    destruct HE as [_ [H2 [H3 [H4 [_ [H6 H7]]]]]]. rewrite H2, H6, H7.
    assert (HS : staleK (s_g s) k -> staleK g' k).
    { intros [X Y]. split. congruence. unfold is_stale in *. rewrite H3, H4. auto. }
    unfold upd_nat. destruct (Nat.eqb j j0) eqn:EJ; cbn [andb].
    2:{ eapply A_keep; try exact HA; auto. }
    apply Nat.eqb_eq in EJ. subst j0.
    destruct (in_shard (g_walk (s_g s) j) k) eqn:ES; cbn [andb].
    + apply in_shard_eq in ES.
      destruct (ribv b (g_rib (s_g s)) k) as [x|] eqn:ER.
      * assert (In k (g_keys (s_g s))).
        { apply (i_dom s HI). unfold ribv in ER. destruct (g_rib (s_g s) k); congruence. }
        rewrite inkeys_in by auto. cbn. left. auto.
      * rewrite andb_false_r. destruct HA as [HA|[[_ HA]|[H1 H2']]].
        -- left. auto.
        -- left. auto.
        -- right; right. auto.
    + destruct HA as [HA|[[HA1 HA2]|[H1 H2']]].
      * left; auto.
      * right; left. split; auto. apply N.eqb_neq in ES. unfold in_shard in ES. lia.
      * right; right; auto.
  - (* MUnsub *)
    destruct HE as [_ [H2 [H3 [H4 [_ [H6 H7]]]]]]. unfold F. rewrite H2, H6, H7.
    eapply A_keep; try exact HA; auto. apply staleK_frame; auto.
  - (* MInsPrep *)
    destruct HE as [[_ [H2 [H3 H4]]] [_ [H6 H7]]]. rewrite H2, H6, H7.
    eapply A_keep; try exact HA; auto. apply staleK_frame; auto.
  - (* MInsLocked *)
    destruct HE as [_ [H2 [H3 [H4 [_ [_ [H7 [_ H9]]]]]]]]. rewrite H2, H9, HLv. cbn [andb].
    destruct (key_eqb k k0) eqn:EK.
    + apply key_eqb_eq in EK. subst k0. left. auto.
    + assert (HN : k <> k0) by (intro; subst; rewrite key_eqb_refl in EK; discriminate).
      eapply A_keep; try exact HA; auto.
      * apply ribv_ext. auto.
      * intros [X Y]. split. rewrite H7; auto. unfold is_stale in *. rewrite H3, H4; auto.
  - (* MRemPrep *)
    destruct HE as [[_ [H2 [H3 H4]]] [_ [H6 H7]]]. rewrite H2, H6, H7.
    eapply A_keep; try exact HA; auto. apply staleK_frame; auto.
  - (* MRemLocked *)
    destruct HE as [[_ [H2 [H3 H4]]] [_ [H6 H7]]]. rewrite H2, H7, HLv. cbn [andb].
    destruct (key_eqb k k0) eqn:EK.
    + left. rewrite ribv_none; auto. rewrite H6, EK. auto.
    + eapply A_keep; try exact HA; auto.
      * apply ribv_ext. rewrite H6, EK. auto.
      * intros [X Y]. split. rewrite H6, EK. auto. unfold is_stale in *. rewrite H3, H4. auto.
  - (* MUp *)
    destruct HE as [[_ [H2 [H3 H4]]] [_ [H6 H7]]]. rewrite H2, H6, H7.
    eapply A_keep; try exact HA; auto. apply staleK_frame; auto.
  - (* MUnregPrep *)
    destruct HE as [[_ [H2 [H3 H4]]] [_ [H6 H7]]]. rewrite H2, H6, H7.
    eapply A_keep; try exact HA; auto. apply staleK_frame; auto.
  - (* MUnregShard *)
    destruct HE as [[_ [H2 [H3 H4]]] [_ [H6 H7]]]. rewrite H2, H7, HLv. cbn [andb].
    destruct (purge_sel (s_g s) PAll p s0 k) eqn:EA; cbn [andb].
    + destruct (g_rib (s_g s) k) eqn:ER; cbn [nonnone andb].
      * rewrite inkeys_in by (apply (i_dom s HI); congruence). left. rewrite ribv_none; auto. rewrite H6, EA. auto.
      * eapply A_keep; try exact HA; auto.
        -- apply ribv_ext. rewrite H6, EA. auto.
        -- intros [X Y]. congruence.
    + eapply A_keep; try exact HA; auto.
      * apply ribv_ext. rewrite H6, EA. auto.
      * intros [X Y]. split. rewrite H6, EA. auto. unfold is_stale in *. rewrite H3, H4. auto.
  - (* MPeerDown *)
    destruct HE as [[_ [H2 [H3 H4]]] [_ [H6 H7]]]. rewrite H2, H6, H7, HLv. cbn [andb].
    destruct (k_peer k =? p) eqn:EP.
    + apply N.eqb_eq in EP.
      assert (HR : g_rib (s_g s) k = None).
      { destruct (c_before _ _ _ _ _ _ C) as [HB|[_ [o HB]]].
        - destruct (c_shape _ _ _ _ _ _ C) as [o [pre HS]]. apply shape_pd_last in HS.
          rewrite HS in HB. destruct (i_drop s HI i p) as [_ [HD _]]. apply (HD HB). auto.
        - exfalso. eapply no_expand_pd; eauto. }
      left. rewrite (ribv_none b _ k HR). auto.
    + eapply A_keep; try exact HA; auto. apply staleK_frame; auto.
  - (* MStaleShard *)
    destruct HE as [_ [H2 [H3 [_ [H5 [H6 [H7 _]]]]]]]. unfold F. rewrite H2, H5, H6.
    eapply A_keep; try exact HA; auto. intros [X Y]. split; [congruence | auto].
  - (* MPeerDownGr *)
    destruct HE as [[_ [H2 [H3 H4]]] [_ [H6 H7]]]. rewrite H2, H6, H7, HLv. cbn [andb].
    assert (HST : forall q, is_stale g' q = is_stale (s_g s) q) by (intro q; unfold is_stale; rewrite H3, H4; auto).
    destruct (k_peer k =? p) eqn:EP.
    + apply N.eqb_eq in EP.
      destruct (g_rib (s_g s) k) eqn:ER.
      * right; right. split; auto. split. congruence. rewrite HST.
        destruct (c_before _ _ _ _ _ _ C) as [HB|[_ [o HB]]].
        -- destruct (c_shape _ _ _ _ _ _ C) as [o [pre HS]]. apply shape_pdgr_last in HS.
           rewrite HS in HB. destruct (i_drop s HI i p) as [_ [_ [_ HD]]]. apply (HD HB); auto. congruence.
        -- exfalso. eapply no_expand_pdgr; eauto.
      * left. rewrite (ribv_none b _ k ER). auto.
    + eapply A_keep; try exact HA; auto. intros [X Y]. split; [congruence | rewrite HST; auto].
  - (* MPurgePrep *)
    destruct HE as [[_ [H2 [H3 H4]]] [_ [H6 H7]]]. rewrite H2, H6, H7.
    eapply A_keep; try exact HA; auto. apply staleK_frame; auto.
  - (* MPurgeShard *)
    destruct HE as [[_ [H2 [H3 H4]]] [_ [H6 H7]]]. rewrite H2, H7, HLv. cbn [andb].
    destruct (purge_sel (s_g s) all p s0 k) eqn:EA; cbn [andb].
    + destruct (g_rib (s_g s) k) eqn:ER; cbn [nonnone andb].
      * rewrite inkeys_in by (apply (i_dom s HI); congruence). left. rewrite ribv_none; auto. rewrite H6, EA. auto.
      * eapply A_keep; try exact HA; auto.
        -- apply ribv_ext. rewrite H6, EA. auto.
        -- intros [X Y]. congruence.
    + eapply A_keep; try exact HA; auto.
      * apply ribv_ext. rewrite H6, EA. auto.
      * intros [X Y]. split. rewrite H6, EA. auto. unfold is_stale in *. rewrite H3, H4. auto.
  - (* MResetPrep *)
    destruct HE as [[_ [H2 [H3 H4]]] [_ [H6 H7]]]. rewrite H2, H6, H7.
    eapply A_keep; try exact HA; auto. apply staleK_frame; auto.
  - (* MResetShard *)
    destruct HE as [[_ [H2 [H3 H4]]] [_ [H6 H7]]]. rewrite H2, H7, HLv. cbn [andb].
    assert (HST : forall q, is_stale g' q = is_stale (s_g s) q) by (intro q; unfold is_stale; rewrite H3, H4; auto).
    assert (HN : g_rib g' k = None <-> g_rib (s_g s) k = None).
    { rewrite H6. unfold reset_rib. destruct (reset_sel (s_g s) p s0 k); [|tauto].
      destruct (g_rib (s_g s) k) as [[? ?]|]; split; congruence. }
    assert (HSK : staleK (s_g s) k -> staleK g' k).
    { intros [X Y]. split. rewrite HN. auto. rewrite HST. auto. }
    destruct (b && reset_sel (s_g s) p s0 k && nonnone (g_rib (s_g s) k)) eqn:EA.
    + apply andb_true_iff in EA. destruct EA as [EA E4]. apply andb_true_iff in EA. destruct EA as [E1 E2]. subst b.
      assert (In k (g_keys (s_g s))).
      { apply (i_dom s HI). destruct (g_rib (s_g s) k); [congruence|discriminate]. }
      rewrite E2, E4, inkeys_in by auto. cbn [andb]. left. auto.
    + assert (HF : (if b && reset_sel (s_g s) p s0 k && inkeys (s_g s) k && nonnone (g_rib (s_g s) k)
                    then ribv b (g_rib g') k else F (s_g s) j b k) = F (s_g s) j b k).
      { destruct b; cbn [andb] in *; auto.
        destruct (reset_sel (s_g s) p s0 k); cbn [andb] in *; auto.
        rewrite EA, andb_false_r. auto. }
      rewrite HF. eapply A_keep; try exact HA; auto.
      unfold ribv. rewrite H6. unfold reset_rib.
      destruct (reset_sel (s_g s) p s0 k) eqn:E23; auto.
      destruct (g_rib (s_g s) k) as [[tok f]|] eqn:ER; auto.
      destruct b; cbn [andb] in *; auto. discriminate.
  - (* MSetPol *)
    destruct HE as [[_ [H2 [H3 H4]]] [_ [H6 H7]]]. rewrite H2, H6, H7.
    eapply A_keep; try exact HA; auto. apply staleK_frame; auto.
  - (* MNhvPrep *)
    destruct HE as [[_ [H2 [H3 H4]]] [_ [H6 H7]]]. rewrite H2, H6, H7.
    eapply A_keep; try exact HA; auto. apply staleK_frame; auto.
  - (* MNhvShard *)
    destruct HE as [[_ [H2 [H3 H4]]] [_ [H6 H7]]]. rewrite H2, H6, H7.
    eapply A_keep; try exact HA; auto. apply staleK_frame; auto.
Qed.

Lemma drop' s i m t1 t2 g' : ctx s i m t1 t2 g' -> forall j p,
  (t_cur (s_thr (after s i t2 g') j) = [MUnregShard p 1; MPeerDown p] ->
   forall k, k_peer k = p -> shard_of k = 0 -> g_rib g' k = None) /\
  (t_cur (s_thr (after s i t2 g') j) = [MPeerDown p] -> forall k, k_peer k = p -> g_rib g' k = None) /\
  (t_cur (s_thr (after s i t2 g') j) = [MStaleShard p 1; MPeerDownGr p] ->
   forall k, k_peer k = p -> shard_of k = 0 -> g_rib g' k <> None -> is_stale g' k = true) /\
  (t_cur (s_thr (after s i t2 g') j) = [MPeerDownGr p] ->
   forall k, k_peer k = p -> g_rib g' k <> None -> is_stale g' k = true).
Proof.
  intros C j p. pose proof (c_inv _ _ _ _ _ _ C) as HI. pose proof (c_eff _ _ _ _ _ _ C) as HE.
  destruct (c_shape _ _ _ _ _ _ C) as [o [pre HS]].
  cbn [after s_thr s_g]. unfold upd_thr. destruct (Nat.eqb j i) eqn:EJ.
  - (* the stepping thread *)
    rewrite (c_cur _ _ _ _ _ _ C). repeat split; intros HC k Hp.
    + rewrite HC in HS. apply shape_unreg1 in HS. subst m. cbn [effect] in HE.
      destruct HE as [_ [_ [H5 _]]]. intro Hs. rewrite H5. unfold purge_sel.
      assert (k_peer k =? p = true) as -> by (apply N.eqb_eq; auto).
      assert (in_shard 0 k = true) as -> by (apply in_shard_eq; auto). auto.
    + rewrite HC in HS. pose proof HS as HS'. apply shape_pd in HS. subst m. cbn [effect] in HE.
      destruct HE as [_ [_ [H5 _]]]. rewrite H5. unfold purge_sel.
      assert (k_peer k =? p = true) as -> by (apply N.eqb_eq; auto). cbn [andb orb].
      destruct (in_shard 1 k) eqn:ES; auto. rewrite andb_false_l.
      assert (shard_of k = 0).
      { unfold in_shard, shard_of in *. destruct (k_sh k =? 0); auto. discriminate. }
      destruct (c_before _ _ _ _ _ _ C) as [HB|[_ [o' HB]]].
      * rewrite HC in HB. destruct (i_drop s HI i p) as [HD _]. apply (HD HB); auto.
      * exfalso. destruct o'; discriminate.
    + intros Hs Hr. rewrite HC in HS. apply shape_stale1 in HS. subst m. cbn [effect] in HE.
      destruct HE as [_ [_ [_ [_ [H5 [_ [_ H8]]]]]]]. apply H8; auto.
      * apply in_shard_eq. auto.
      * congruence.
      * apply inkeys_in. apply (i_dom s HI). congruence.
    + intros Hr. rewrite HC in HS. pose proof HS as HS'. apply shape_pdgr in HS. subst m. cbn [effect] in HE.
      destruct HE as [_ [_ [_ [_ [H5 [_ [H7 H8]]]]]]].
      destruct (in_shard 1 k) eqn:ES.
      * apply H8; auto. congruence. apply inkeys_in. apply (i_dom s HI). congruence.
      * assert (shard_of k = 0).
        { unfold in_shard, shard_of in *. destruct (k_sh k =? 0); auto. discriminate. }
        apply H7. destruct (c_before _ _ _ _ _ _ C) as [HB|[_ [o' HB]]].
        -- rewrite HC in HB. destruct (i_drop s HI i p) as [_ [_ [HD _]]]. apply (HD HB); auto. congruence.
        -- exfalso. destruct o'; discriminate.
  - (* another thread: only its own peer's insert could break it *)
    assert (HNI : forall k x, k_peer k = p -> In x (t_cur (s_thr s j)) -> owns p x -> forall tok, m <> MInsLocked k tok).
    { intros k x Hp Hin Hown tok Hm. subst m.
      apply (i_own s HI i j (k_peer k)).
      - intro. subst. rewrite Nat.eqb_refl in EJ. discriminate.
      - exists (MInsLocked k tok). split. rewrite (c_steps _ _ _ _ _ _ C). cbn; auto. cbn. auto.
      - exists x. split. unfold steps. apply in_or_app. auto. rewrite Hp. auto. }
    repeat split; intros HC k Hp.
    + intro Hs. eapply eff_rib_none; eauto.
      * destruct (i_drop s HI j p) as [HD _]. apply (HD HC); auto.
      * apply (HNI k (MPeerDown p)); auto. rewrite HC. cbn; auto. cbn. auto.
    + eapply eff_rib_none; eauto.
      * destruct (i_drop s HI j p) as [_ [HD _]]. apply (HD HC); auto.
      * apply (HNI k (MPeerDown p)); auto. rewrite HC. cbn; auto. cbn. auto.
    + intros Hs Hr.
      assert (HN : forall tok, m <> MInsLocked k tok).
      { apply (HNI k (MPeerDownGr p)); auto. rewrite HC. cbn; auto. cbn. auto. }
      destruct (eff_rib_some _ _ _ _ k HE Hr) as [Hr0|[tok Hm]]; [|exfalso; eapply HN; eauto].
      eapply eff_stale; eauto. destruct (i_drop s HI j p) as [_ [_ [HD _]]]. apply (HD HC); auto.
    + intros Hr.
      assert (HN : forall tok, m <> MInsLocked k tok).
      { apply (HNI k (MPeerDownGr p)); auto. rewrite HC. cbn; auto. cbn. auto. }
      destruct (eff_rib_some _ _ _ _ k HE Hr) as [Hr0|[tok Hm]]; [|exfalso; eapply HN; eauto].
      eapply eff_stale; eauto. destruct (i_drop s HI j p) as [_ [_ [_ HD]]]. apply (HD HC); auto.
Qed.

Lemma ctx_inv s i m t1 t2 g' : ctx s i m t1 t2 g' -> Inv (after s i t2 g').
Proof.
  intro C. constructor; cbn [after s_g].
  - apply (pre' _ _ _ _ _ _ C).
  - intros i' j. apply (wok' _ _ _ _ _ _ i' j C).
  - apply (dom' _ _ _ _ _ _ C).
  - apply (key' _ _ _ _ _ _ C).
  - apply (drop' _ _ _ _ _ _ C).
  - apply (own' _ _ _ _ _ _ C).
  - apply (cur' _ _ _ _ _ _ C).
Qed.

Lemma step_inv s i : Inv s -> Inv (sys_step c V s i).
Proof.
  intro HI. unfold sys_step.
  destruct (next_step (s_thr s i)) as [[m t1]|] eqn:EN; auto.
  destruct (next_step_some _ _ _ (i_cur s HI i) EN) as [HS [HV HC]].
  pose proof (exec_effect (s_g s) t1 m (i_dom s HI)) as HE.
  pose proof (exec_steps (s_g s) t1 m) as HT. pose proof (exec_thread (s_g s) t1 m) as [HT1 _].
  destruct (exec c V (s_g s) t1 m) as [g' t2]. cbn [fst snd] in *.
  apply (ctx_inv s i m t1 t2 g'). constructor; auto.
  destruct HC as [HC|[HC [o HO]]].
  - destruct (i_cur s HI i) as [o [pre HP]]. exists o, pre. rewrite HC in HP. auto.
  - exists o, []. auto.
Qed.

Lemma run_inv sched : forall s, Inv s -> Inv (run_sched c V s sched).
Proof.
  induction sched as [|i t IH]; intros s H; cbn [run_sched fold_left]; auto.
  apply IH. apply step_inv. auto.
Qed.

(* ---- the initial state *)
Lemma expand_owner p o m : In m (expand o) -> owns p m -> op_owner p o.
Proof.
  destruct o; cbn [expand In]; intros H Ho;
    repeat (destruct H as [H|H]; [subst m; cbn in *; auto; try tauto|]); try tauto.
Qed.

Lemma owns_any_flat p ops : owns_any p (flat_map expand ops) -> exists o, In o ops /\ op_owner p o.
Proof.
  intros [m [Hm Ho]]. apply in_flat_map in Hm. destruct Hm as [o [Hi Hm]].
  exists o. split; auto. eapply expand_owner; eauto.
Qed.

Lemma Inv_init progs : wf_progs progs -> Inv (init progs).
Proof.
  intro HW. constructor; cbn [init s_g s_thr glob0 g_ph g_evs g_walk g_rib g_keys].
  - auto.
  - intros i j. unfold steps. cbn [t_cur t_ops app]. apply wok_flat.
  - intros k H. congruence.
  - intros j b k H. discriminate.
  - intros i p. cbn [t_cur]. repeat split; discriminate.
  - intros i j p Hij H1 H2. unfold steps in *. cbn [t_cur t_ops app] in *.
    apply owns_any_flat in H1. apply owns_any_flat in H2.
    destruct H1 as [o1 [I1 O1]]. destruct H2 as [o2 [I2 O2]]. eapply HW; eauto.
  - intro i. cbn [t_cur]. exists (Subscribe 0), (expand (Subscribe 0)). rewrite app_nil_r. auto.
Qed.

(* a thread whose program contains Subscribe j ends with both shards snapshotted by j *)
Fixpoint count_walk (j : nat) (l : list mstep) : N :=
  match l with
  | [] => 0
  | MWalk i :: t => (if Nat.eqb i j then 1 else 0) + count_walk j t
  | _ :: t => count_walk j t
  end.

Lemma count_walk_app j a b : count_walk j (a ++ b) = count_walk j a + count_walk j b.
Proof. induction a as [|m t IH]; cbn [app count_walk]; auto. destruct m; rewrite ?IH; lia. Qed.

Lemma count_walk_flat j ops : In (Subscribe j) ops -> 2 <= count_walk j (flat_map expand ops).
Proof.
  induction ops as [|o t IH]; cbn [In flat_map]; try tauto.
  intros [->|H]; rewrite count_walk_app.
  - cbn [expand count_walk]. rewrite Nat.eqb_refl. lia.
  - specialize (IH H). lia.
Qed.

Lemma walk_progress s i i' j : Inv s ->
  g_walk (s_g s) j + count_walk j (steps (s_thr s i')) <=
  g_walk (s_g (sys_step c V s i)) j + count_walk j (steps (s_thr (sys_step c V s i) i')).
Proof.
  intro HI. unfold sys_step.
  destruct (next_step (s_thr s i)) as [[m t1]|] eqn:EN; try lia.
  pose proof (exec_steps (s_g s) t1 m) as HT.
  pose proof (eff_walk _ _ _ _ (exec_effect (s_g s) t1 m (i_dom s HI))) as HW.
  destruct (exec c V (s_g s) t1 m) as [g' t2] eqn:E. cbn [s_g s_thr fst snd] in *.
  assert (HWj : g_walk (s_g s) j <= g_walk g' j).
  { rewrite HW. destruct m; try lia. unfold upd_nat. destruct (Nat.eqb j j0) eqn:EJ; try lia.
    apply Nat.eqb_eq in EJ. subst. lia. }
  unfold upd_thr. destruct (Nat.eqb i' i) eqn:EJ; try lia.
  apply Nat.eqb_eq in EJ. subst i'.
  destruct (next_step_some _ _ _ (i_cur s HI i) EN) as [HS _]. rewrite HS, HT.
  destruct m; cbn [count_walk]; try lia.
  rewrite HW. unfold upd_nat. rewrite (Nat.eqb_sym j0 j). destruct (Nat.eqb j j0) eqn:EJ; try lia.
  apply Nat.eqb_eq in EJ. subst. lia.
Qed.

Lemma run_walk sched : forall s i' j, Inv s ->
  g_walk (s_g s) j + count_walk j (steps (s_thr s i')) <=
  g_walk (s_g (run_sched c V s sched)) j + count_walk j (steps (s_thr (run_sched c V s sched) i')).
Proof.
  induction sched as [|i t IH]; intros s i' j HI; cbn [run_sched fold_left]; try lia.
  pose proof (walk_progress s i i' j HI) as H1.
  pose proof (IH (sys_step c V s i) i' j (step_inv s i HI)) as H2. unfold run_sched in *. lia.
Qed.

Lemma subscribed_walked progs sched i j :
  wf_progs progs -> In (Subscribe j) (nth i progs []) ->
  all_done (run_sched c V (init progs) sched) ->
  2 <= g_walk (s_g (run_sched c V (init progs) sched)) j.
Proof.
  intros HW HS HD.
  pose proof (run_walk sched (init progs) i j (Inv_init progs HW)) as H.
  rewrite (next_step_none _ (HD i)) in H. cbn [count_walk] in H.
  unfold steps in H at 1. cbn [init s_thr s_g t_cur t_ops app glob0 g_walk] in H.
  pose proof (count_walk_flat j _ HS). lia.
Qed.

End Inv.

(* ================================================================ *)
(* Final statements *)
Lemma shard_lt2 k : shard_of k < 2.
Proof. unfold shard_of. destruct (k_sh k =? 0); lia. Qed.

Theorem C18_subscriber_fold_eq_rib :
  forall (c : cfg) (progs : list (list op)) (sched : list nat) (i j : nat),
    wf_progs progs -> In (Subscribe j) (nth i progs []) ->
    let s := run_sched c Fixed (init progs) sched in
    all_done s -> g_ph (s_g s) j = 1 ->
    forall k, holds_exactly (s_g s) j false k /\ holds_exactly (s_g s) j true k.
Proof.
  intros c progs sched i j HW HS s HD HP k.
  assert (HI : Inv s) by (apply run_inv; apply Inv_init; auto).
  pose proof (subscribed_walked c progs sched i j HW HS HD) as H2. fold s in H2.
  assert (HK : forall b, holds_exactly (s_g s) j b k).
  { intro b. unfold holds_exactly. cbn zeta.
    assert (HF : (if b then fold_post else fold_pre) (g_evs (s_g s) j) k = fold_b b (g_evs (s_g s) j) k)
      by (destruct b; reflexivity).
    rewrite HF. destruct (i_key s HI j b k HP) as [H|[[H _]|[H H']]].
    - left; auto.
    - pose proof (shard_lt2 k). lia.
    - right. split; auto. }
  split; apply HK.
Qed.

(* when no path is retained stale the subscriber holds the two Adj-RIB-In views exactly *)
Theorem C18_subscriber_fold_eq_rib_no_stale :
  forall (c : cfg) (progs : list (list op)) (sched : list nat) (i j : nat),
    wf_progs progs -> In (Subscribe j) (nth i progs []) ->
    let s := run_sched c Fixed (init progs) sched in
    all_done s -> g_ph (s_g s) j = 1 -> (forall k, ~ stale_retained (s_g s) k) ->
    forall k, fold_pre (g_evs (s_g s) j) k = rib_pre (s_g s) k /\
              fold_post (g_evs (s_g s) j) k = rib_post (s_g s) k.
Proof.
  intros c progs sched i j HW HS s HD HP HN k.
  destruct (C18_subscriber_fold_eq_rib c progs sched i j HW HS HD HP k) as [[H1|[H1 _]] [H2|[H2 _]]];
    try (exfalso; eapply HN; eauto; fail).
  split; auto.
Qed.

(* the fold is determined by the last event that concerns the key *)
Lemma apply_concerns b m e k :
  apply_b b m e k = match concerns b k e with Some x => x | None => m k end.
Proof.
  destruct e; cbn [concerns].
  - destruct b; cbn; unfold fupd; auto. destruct (key_eqb k k0) eqn:E.
    + apply key_eqb_eq in E. subst. rewrite key_eqb_refl. auto.
    + rewrite key_eqb_neq; auto. intro; subst. rewrite key_eqb_refl in E. discriminate.
  - destruct b; cbn; unfold fupd; auto. destruct (key_eqb k k0) eqn:E.
    + apply key_eqb_eq in E. subst. rewrite key_eqb_refl. auto.
    + rewrite key_eqb_neq; auto. intro; subst. rewrite key_eqb_refl in E. discriminate.
  - destruct b; reflexivity.
  - rewrite apply_down. destruct (k_peer k =? p); auto.
  - destruct b; reflexivity.
Qed.

Lemma fold_last_touch b k evs :
  fold_b b evs k = match last_touch b k evs with Some x => x | None => None end.
Proof.
  unfold last_touch. induction evs as [|e evs IH] using rev_ind.
  - reflexivity.
  - rewrite rev_app_distr. cbn [rev app last_touch_rev]. rewrite fold_b_app. cbn [fold_left].
    rewrite apply_concerns. destruct (concerns b k e); auto.
Qed.

Theorem C18_last_event_is_current :
  forall (c : cfg) (progs : list (list op)) (sched : list nat) (i j : nat),
    wf_progs progs -> In (Subscribe j) (nth i progs []) ->
    let s := run_sched c Fixed (init progs) sched in
    all_done s -> g_ph (s_g s) j = 1 ->
    forall b k,
      (forall x, last_touch b k (g_evs (s_g s) j) = Some x ->
                 ribv b (g_rib (s_g s)) k = x \/ (stale_retained (s_g s) k /\ x = None)) /\
      (last_touch b k (g_evs (s_g s) j) = None ->
                 ribv b (g_rib (s_g s)) k = None \/ stale_retained (s_g s) k).
Proof.
  intros c progs sched i j HW HS s HD HP b k.
  assert (HH : holds_exactly (s_g s) j b k).
  { destruct (C18_subscriber_fold_eq_rib c progs sched i j HW HS HD HP k) as [H1 H2]. destruct b; auto. }
  unfold holds_exactly in HH. cbn zeta in HH.
  assert (HF : (if b then fold_post else fold_pre) (g_evs (s_g s) j) k = fold_b b (g_evs (s_g s) j) k)
    by (destruct b; reflexivity).
  rewrite HF, fold_last_touch in HH. split.
  - intros x Hx. rewrite Hx in HH. destruct HH as [HH|[H1 H2]]; auto.
  - intro Hx. rewrite Hx in HH. destruct HH as [HH|[H1 H2]]; auto.
Qed.

(* track_peer_up / track_peer_down: a PeerDown is forwarded only for a peer whose
   PeerUp was forwarded (or was up when the snapshot ended: [sent]) and not yet taken down *)
Lemma forward_paired evs : forall sent up, (forall q, In q sent -> In q up) -> paired up (forward sent evs).
Proof.
  induction evs as [|e t IH]; intros sent up HS; cbn [forward paired]; auto.
  destruct e; auto.
  - cbn [paired]. apply IH. intros q Hq. destruct (existsb (N.eqb p) sent); cbn in *; auto.
    destruct Hq; auto.
  - destruct (existsb (N.eqb p) sent) eqn:E; auto. cbn [paired]. split.
    + apply existsb_exists in E. destruct E as [x [Hx E]]. apply N.eqb_eq in E. subst. auto.
    + apply IH. intros q Hq. apply filter_In in Hq. apply filter_In. split; try tauto. apply HS. tauto.
Qed.

Theorem C18_peer_down_only_after_up :
  forall (sent : list N) (evs : list ev), paired sent (forward sent evs).
Proof. intros. apply forward_paired. auto. Qed.

(* ================================================================ *)
(* Witnesses against the behaviour before the fix commits (variant Legacy),
   replayed on the unfixed code through the harness (corpus/C18/), and
   non-vacuity examples. *)
Definition K (p sh ix pid : N) : key := {| k_peer := p; k_sh := sh; k_ix := ix; k_pid := pid |}.
Definition ex_cfg : cfg := {| c_pols := [[1; 2]; [3]]; c_lims := [] |}.

Ltac wf_tac :=
  let i := fresh "i" in let j := fresh "j" in
  intros i j p o1 o2 Hij H1 H2 O1 O2;
  destruct i as [|[|[|i]]], j as [|[|[|j]]]; cbn in H1, H2; try tauto;
  repeat (destruct H1 as [H1|H1]; [subst o1|]); repeat (destruct H2 as [H2|H2]; [subst o2|]);
  cbn in *; try tauto; try (destruct i; tauto); try (destruct j; tauto).

(* C18-2: soft_reset_in loaded the subscriber list before the shard loop; the
   subscriber registers and snapshots shard 0 in between *)
Definition ex_progs_reset : list (list op) :=
  [[Subscribe 0]; [Ins (K 1 0 0 0) 1; Ins (K 1 1 0 0) 2]; [SetPol 1; SoftReset 1]].
Definition ex_sched_reset : list nat := [1; 2; 2; 1; 0; 0; 1; 2; 2; 0; 1]%nat.

Lemma ex_wf_reset : wf_progs ex_progs_reset.
Proof. wf_tac. Qed.

Lemma ex_done_reset v : all_done (run_sched ex_cfg v (init ex_progs_reset) ex_sched_reset).
Proof. intro i. destruct i as [|[|[|[|i]]]]; destruct v; reflexivity. Qed.

Lemma C18_subscriber_fold_eq_rib_legacy_refuted :
  exists (c : cfg) (progs : list (list op)) (sched : list nat) (i j : nat) (k : key),
    wf_progs progs /\ In (Subscribe j) (nth i progs []) /\
    let s := run_sched c Legacy (init progs) sched in
    all_done s /\ g_ph (s_g s) j = 1 /\ ~ holds_exactly (s_g s) j true k.
Proof.
  exists ex_cfg, ex_progs_reset, ex_sched_reset, 0%nat, 0%nat, (K 1 0 0 0).
  split. apply ex_wf_reset. split. cbn; auto. split. apply ex_done_reset. split. reflexivity.
  intros [H|[_ H]]; vm_compute in H; congruence.
Qed.

Example ex_reset_fixed :
  let s := run_sched ex_cfg Fixed (init ex_progs_reset) ex_sched_reset in
  g_walk (s_g s) 0%nat = 2 /\ fold_post (g_evs (s_g s) 0%nat) (K 1 0 0 0) = None /\ rib_post (s_g s) (K 1 0 0 0) = None /\
  fold_pre (g_evs (s_g s) 0%nat) (K 1 0 0 0) = Some 1 /\ rib_pre (s_g s) (K 1 0 0 0) = Some 1.
Proof. vm_compute. auto. Qed.

(* C18-1: an insert refused by the prefix limit had already been announced *)
Definition ex_cfg_lim : cfg := {| c_pols := []; c_lims := [(1, 1)] |}.
Definition ex_progs_lim : list (list op) := [[Subscribe 0]; [Ins (K 1 0 0 0) 1; Ins (K 1 1 0 0) 2]].
Definition ex_sched_lim : list nat := [0; 0; 0; 1; 1; 1; 1]%nat.

Lemma ex_wf_lim : wf_progs ex_progs_lim.
Proof. wf_tac. Qed.

Lemma C18_subscriber_fold_eq_rib_legacy_limit_refuted :
  exists (c : cfg) (progs : list (list op)) (sched : list nat) (i j : nat) (k : key),
    wf_progs progs /\ In (Subscribe j) (nth i progs []) /\
    let s := run_sched c Legacy (init progs) sched in
    all_done s /\ g_ph (s_g s) j = 1 /\ ~ holds_exactly (s_g s) j false k.
Proof.
  exists ex_cfg_lim, ex_progs_lim, ex_sched_lim, 0%nat, 0%nat, (K 1 1 0 0).
  split. apply ex_wf_lim. split. cbn; auto. split.
  - intro i. destruct i as [|[|[|i]]]; reflexivity.
  - split. reflexivity. intros [H|[_ H]]; vm_compute in H; congruence.
Qed.

Example ex_lim_fixed :
  let s := run_sched ex_cfg_lim Fixed (init ex_progs_lim) ex_sched_lim in
  fold_pre (g_evs (s_g s) 0%nat) (K 1 1 0 0) = None /\ rib_pre (s_g s) (K 1 1 0 0) = None /\
  last_touch false (K 1 1 0 0) (g_evs (s_g s) 0%nat) = Some None.
Proof. vm_compute. auto. Qed.

(* C18-3: the stale purge removed retained paths without any Adj-RIB-In event; a
   subscriber that registered during the graceful-restart window keeps them *)
Definition ex_progs_purge : list (list op) :=
  [[Subscribe 0]; [Ins (K 1 0 0 0) 1; GrDown 1; DropStale 1]].
Definition ex_sched_purge : list nat := [1; 1; 1; 1; 1; 1; 0; 0; 0; 1; 1; 1]%nat.

Lemma ex_wf_purge : wf_progs ex_progs_purge.
Proof. wf_tac. Qed.

Lemma C18_subscriber_fold_eq_rib_legacy_purge_refuted :
  exists (c : cfg) (progs : list (list op)) (sched : list nat) (i j : nat) (k : key),
    wf_progs progs /\ In (Subscribe j) (nth i progs []) /\
    let s := run_sched c Legacy (init progs) sched in
    all_done s /\ g_ph (s_g s) j = 1 /\ ~ holds_exactly (s_g s) j false k.
Proof.
  exists ex_cfg, ex_progs_purge, ex_sched_purge, 0%nat, 0%nat, (K 1 0 0 0).
  split. apply ex_wf_purge. split. cbn; auto. split.
  - intro i. destruct i as [|[|[|i]]]; reflexivity.
  - split. reflexivity. intros [H|[_ H]]; vm_compute in H; congruence.
Qed.

Example ex_purge_fixed :
  let s := run_sched ex_cfg Fixed (init ex_progs_purge) ex_sched_purge in
  fold_pre (g_evs (s_g s) 0%nat) (K 1 0 0 0) = None /\ rib_pre (s_g s) (K 1 0 0 0) = None /\
  length (g_evs (s_g s) 0%nat) = 5%nat.
Proof. vm_compute. auto. Qed.

(* the stale-retained disjunct is inhabited: a subscriber that saw the PeerDown of a
   graceful-restart session has forgotten a path the RIB still keeps *)
Example ex_stale_retained :
  let progs := [[Subscribe 0]; [Ins (K 1 0 0 0) 1; GrDown 1]] in
  let s := run_sched ex_cfg Fixed (init progs) [0; 0; 0; 1; 1; 1; 1; 1; 1]%nat in
  rib_pre (s_g s) (K 1 0 0 0) = Some 1 /\ fold_pre (g_evs (s_g s) 0%nat) (K 1 0 0 0) = None /\
  is_stale (s_g s) (K 1 0 0 0) = true.
Proof. vm_compute. auto. Qed.

(* a non-trivial run satisfying the hypotheses of the theorems: two subscriptions, an
   unsubscribe, two sessions, a session going down, live events after the snapshot *)
Definition ex_progs_busy : list (list op) :=
  [[Subscribe 0; Unsubscribe 0; Subscribe 1];
   [Up 1; Ins (K 1 0 0 0) 1; Ins (K 1 1 1 0) 2; Rem (K 1 0 0 0); Down 1];
   [Ins (K 2 1 0 1) 3; SetPol 2; SoftReset 2; Ins (K 2 0 0 0) 0; Subscribe 2]].
Definition ex_sched_busy : list nat :=
  [1; 2; 2; 1; 1; 0; 2; 1; 0; 1; 2; 2; 1; 0; 1; 2; 2; 2; 1; 1; 1; 1; 2; 0; 0; 0; 0; 2; 2; 2]%nat.

Example ex_busy :
  let s := run_sched ex_cfg Fixed (init ex_progs_busy) ex_sched_busy in
  g_ph (s_g s) 0%nat = 2 /\ g_ph (s_g s) 1%nat = 1 /\ g_ph (s_g s) 2%nat = 1 /\
  g_walk (s_g s) 1%nat = 2 /\ rib_pre (s_g s) (K 2 0 0 0) = Some 0 /\ rib_pre (s_g s) (K 1 1 1 0) = None /\
  fold_pre (g_evs (s_g s) 1%nat) (K 2 0 0 0) = Some 0 /\ fold_pre (g_evs (s_g s) 2%nat) (K 2 0 0 0) = Some 0.
Proof. vm_compute. repeat split; reflexivity. Qed.

Example ex_paired_nontrivial : paired [] [EvUp 1; EvDown 1; EvUp 2] /\ ~ paired [] [EvDown 1].
Proof. split. cbn. auto. cbn. tauto. Qed.
