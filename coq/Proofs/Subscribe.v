(* C18: for every interleaving of the atomic steps of Model/Subscribe.v (variant
   Fixed) the subscriber's fold equals the RIB once every thread has finished.
   The proof is an invariant over single steps, stated per key. *)
From Coq Require Import List NArith Bool Lia ZifyBool ZifyN PeanoNat.
From RB Require Import Base.Val Model.Subscribe Spec.SubscribeSpec.
Import ListNotations.
Open Scope N_scope.

Lemma key_eqb_eq a b : key_eqb a b = true <-> a = b.
Proof.
  unfold key_eqb. destruct a, b; cbn.
  rewrite !andb_true_iff, !N.eqb_eq. split.
  - intros [[[-> ->] ->] ->]; auto.
  - intro H; inversion H; auto.
Qed.
Lemma key_eqb_refl a : key_eqb a a = true.
Proof. apply key_eqb_eq; auto. Qed.
Lemma key_eqb_neq a b : a <> b -> key_eqb a b = false.
Proof. intro H. apply not_true_iff_false. rewrite key_eqb_eq. auto. Qed.

(* ---- the subscriber's fold, uniformly in the kind *)
Definition apply_b (b : bool) : fmap -> ev -> fmap := if b then apply_post else apply_pre.
Definition fold_b (b : bool) (evs : list ev) : fmap := fold_left (apply_b b) evs (fun _ => None).

Lemma fold_b_pre evs : fold_b false evs = fold_pre evs.
Proof. reflexivity. Qed.
Lemma fold_b_post evs : fold_b true evs = fold_post evs.
Proof. reflexivity. Qed.

Lemma fold_b_app b e1 e2 : fold_b b (e1 ++ e2) = fold_left (apply_b b) e2 (fold_b b e1).
Proof. unfold fold_b. apply fold_left_app. Qed.

Lemma apply_evk b b' m k x q :
  apply_b b m (evk b' k x) q = if Bool.eqb b b' && key_eqb q k then x else m q.
Proof. destruct b, b'; cbn; unfold fupd; destruct (key_eqb q k); auto. Qed.

Lemma apply_down b m p q : apply_b b m (EvDown p) q = if k_peer q =? p then None else m q.
Proof. destruct b; reflexivity. Qed.

Lemma fold_left_ext_point b l : forall m1 m2 (q : key), m1 q = m2 q ->
  fold_left (apply_b b) l m1 q = fold_left (apply_b b) l m2 q.
Proof.
  induction l as [|e l IH]; cbn [fold_left]; auto.
  intros m1 m2 q H. apply IH.
  destruct b, e; cbn; unfold fupd, fclear; auto; try (destruct (key_eqb q k); auto);
    try (destruct (k_peer q =? p); auto).
Qed.

(* events produced key by key: the value for key q depends on q only *)
Lemma fold_flat b b' (F : key -> option (option N)) ks : forall m q,
  fold_left (apply_b b)
    (flat_map (fun k => match F k with Some x => [evk b' k x] | None => [] end) ks) m q =
  if Bool.eqb b b' && existsb (key_eqb q) ks
  then match F q with Some x => x | None => m q end
  else m q.
Proof.
  induction ks as [|k t IH]; intros m q; cbn [flat_map existsb].
  - rewrite andb_false_r. auto.
  - rewrite fold_left_app, IH.
    assert (HK : key_eqb q k = false ->
                 fold_left (apply_b b) match F k with Some x => [evk b' k x] | None => [] end m q = m q).
    { intro EK. destruct (F k); cbn [fold_left]; auto. rewrite apply_evk, EK, andb_false_r. auto. }
    destruct (Bool.eqb b b') eqn:EB; cbn [andb].
    2:{ destruct (F k); cbn [fold_left]; auto. rewrite apply_evk, EB; auto. }
    destruct (key_eqb q k) eqn:EK; cbn [orb].
    + apply key_eqb_eq in EK. subst k.
      destruct (F q) as [x|] eqn:EF; cbn [fold_left].
      * destruct (existsb (key_eqb q) t); auto. rewrite apply_evk, EB, key_eqb_refl. auto.
      * destruct (existsb (key_eqb q) t); auto.
    + rewrite HK by auto. destruct (existsb (key_eqb q) t); auto.
Qed.

(* ---- threads *)
Definition steps (t : thread) : list mstep := t_cur t ++ flat_map expand (t_ops t).
Definition valid_cur (l : list mstep) : Prop := exists o pre, expand o = pre ++ l.

Lemma expand_nonempty o : expand o <> [].
Proof. destruct o; discriminate. Qed.

Lemma next_step_some t m t1 : valid_cur (t_cur t) -> next_step t = Some (m, t1) ->
  steps t = m :: steps t1 /\ valid_cur (t_cur t1) /\
  (t_cur t = m :: t_cur t1 \/ (t_cur t = [] /\ exists o, expand o = m :: t_cur t1)).
Proof.
  intro HV. unfold next_step, steps. destruct (t_cur t) as [|m0 r] eqn:EC.
  - destruct (t_ops t) as [|o os] eqn:EO; try discriminate.
    destruct (expand o) as [|m1 r1] eqn:EE; try discriminate.
    intro H. inversion H; subst. cbn [t_cur t_ops flat_map app]. rewrite EE. split; auto.
    split. exists o, [m]. rewrite EE. auto. right. split; auto. exists o. auto.
  - intro H. inversion H; subst. cbn [t_cur t_ops app]. split; auto. split; auto.
    destruct HV as [o [pre HV]]. exists o, (pre ++ [m]). rewrite <- app_assoc. auto.
Qed.

Lemma next_step_none t : next_step t = None -> steps t = [].
Proof.
  unfold next_step, steps. destruct (t_cur t); try discriminate.
  destruct (t_ops t) as [|o os]; auto. pose proof (expand_nonempty o). destruct (expand o); congruence.
Qed.

Section Inv.
Variable c : cfg.
Notation V := Fixed.

Lemma exec_thread g t m :
  t_cur (snd (exec c V g t m)) = t_cur t /\ t_ops (snd (exec c V g t m)) = t_ops t.
Proof. destruct m; cbn; auto. Qed.

Lemma exec_steps g t m : steps (snd (exec c V g t m)) = steps t.
Proof. unfold steps. destruct (exec_thread g t m) as [-> ->]. auto. Qed.

(* a walk is only ever executed after the registration *)
Fixpoint wok (subs : bool) (l : list mstep) : bool :=
  match l with
  | [] => true
  | MSubReg :: t => wok true t
  | MWalk :: t => subs && wok subs t
  | _ :: t => wok subs t
  end.

Lemma wok_mono l : forall b, wok b l = true -> wok true l = true.
Proof.
  induction l as [|m t IH]; intros b H; auto. destruct m; cbn [wok] in *; auto.
  - apply andb_true_iff in H. destruct H as [_ H]. rewrite (IH _ H). auto.
  - eauto. - eauto. - eauto. - eauto. - eauto. - eauto. - eauto. - eauto. - eauto. - eauto. - eauto.
Qed.

Lemma wok_app b l1 l2 : wok b l1 = true -> (forall b', wok b' l2 = true) -> wok b (l1 ++ l2) = true.
Proof.
  revert b. induction l1 as [|m t IH]; intros b H1 H2; cbn [app]; auto.
  destruct m; cbn [wok] in *; auto.
  apply andb_true_iff in H1. destruct H1 as [-> H1]. cbn. auto.
Qed.

Lemma wok_expand o b : wok b (expand o) = true.
Proof. destruct o; reflexivity. Qed.

Lemma wok_flat ops : forall b, wok b (flat_map expand ops) = true.
Proof.
  induction ops as [|o t IH]; intro b; auto. cbn [flat_map].
  apply wok_app; auto. apply wok_expand.
Qed.

(* ownership of peers by threads *)
Definition owns (p : N) (m : mstep) : Prop :=
  match m with
  | MInsPrep k _ | MInsLocked k _ | MRemPrep k | MRemLocked k => k_peer k = p
  | MUp q | MUnregPrep q | MUnregShard q _ | MPeerDown q => q = p
  | _ => False
  end.
Definition owns_any (p : N) (l : list mstep) : Prop := exists m, In m l /\ owns p m.

Definition exempt (s : sys) (p : N) : Prop := exists i, In (MPeerDown p) (steps (s_thr s i)).

(* the per-key relation between what the subscriber holds and the RIB *)
Definition A (w : N) (phi rho : option N) (rnone ex : Prop) (sh : N) : Prop :=
  phi = rho \/ (w <= sh /\ phi = None) \/ (rnone /\ ex).

Record Inv (s : sys) : Prop := {
  i_pre : g_subs (s_g s) = false ->
          (forall b k, fold_b b (g_evs (s_g s)) k = None) /\ g_walk (s_g s) = 0;
  i_wok : forall i, wok (g_subs (s_g s)) (steps (s_thr s i)) = true;
  i_dom : forall k, g_rib (s_g s) k <> None -> In k (g_keys (s_g s));
  i_key : forall b k, A (g_walk (s_g s)) (fold_b b (g_evs (s_g s)) k) (ribv b (g_rib (s_g s)) k)
                        (g_rib (s_g s) k = None) (exempt s (k_peer k)) (shard_of k);
  i_drop : forall i p,
      (t_cur (s_thr s i) = [MUnregShard p 1; MPeerDown p] ->
       forall k, k_peer k = p -> shard_of k = 0 -> g_rib (s_g s) k = None) /\
      (t_cur (s_thr s i) = [MPeerDown p] -> forall k, k_peer k = p -> g_rib (s_g s) k = None);
  i_own : forall i j p, i <> j -> owns_any p (steps (s_thr s i)) -> owns_any p (steps (s_thr s j)) -> False;
  i_cur : forall i, valid_cur (t_cur (s_thr s i))
}.

(* ---- what one atomic step does to the shared state, per key *)
Definition nonnone {A} (o : option A) : bool := match o with Some _ => true | None => false end.

Definition effect (g : glob) (t : thread) (m : mstep) (g' : glob) : Prop :=
  match m with
  | MSubReg => g_subs g' = true /\ g_keys g' = g_keys g /\ g_rib g' = g_rib g /\
               g_walk g' = g_walk g /\ g_evs g' = g_evs g
  | MWalk => g_subs g' = g_subs g /\ g_keys g' = g_keys g /\ g_rib g' = g_rib g /\
             g_walk g' = g_walk g + 1 /\
             forall b k, fold_b b (g_evs g') k =
                         if in_shard (g_walk g) k && existsb (key_eqb k) (g_keys g) && nonnone (ribv b (g_rib g) k)
                         then ribv b (g_rib g) k else fold_b b (g_evs g) k
  | MInsLocked k0 tok =>
    g_subs g' = g_subs g /\ g_walk g' = g_walk g /\
    (forall k, In k (g_keys g) -> In k (g_keys g')) /\
    (g_rib g' k0 <> None -> In k0 (g_keys g')) /\
    (forall k, k <> k0 -> g_rib g' k = g_rib g k) /\
    (g_rib g' k0 = None -> g_rib g k0 = None) /\
    forall b k, fold_b b (g_evs g') k =
                if g_subs g && key_eqb k k0 then ribv b (g_rib g') k0 else fold_b b (g_evs g) k
  | MRemLocked k0 =>
    g_subs g' = g_subs g /\ g_walk g' = g_walk g /\ g_keys g' = g_keys g /\
    (forall k, g_rib g' k = if key_eqb k k0 then None else g_rib g k) /\
    forall b k, fold_b b (g_evs g') k =
                if g_subs g && key_eqb k k0 then None else fold_b b (g_evs g) k
  | MUnregShard p s =>
    g_subs g' = g_subs g /\ g_walk g' = g_walk g /\ g_keys g' = g_keys g /\ g_evs g' = g_evs g /\
    (forall k, g_rib g' k = if (k_peer k =? p) && in_shard s k then None else g_rib g k)
  | MPeerDown p =>
    g_subs g' = g_subs g /\ g_walk g' = g_walk g /\ g_keys g' = g_keys g /\ g_rib g' = g_rib g /\
    forall b k, fold_b b (g_evs g') k =
                if g_subs g && (k_peer k =? p) then None else fold_b b (g_evs g) k
  | MResetShard p s =>
    g_subs g' = g_subs g /\ g_walk g' = g_walk g /\ g_keys g' = g_keys g /\
    (forall k, g_rib g' k = reset_rib (g_rib g) (rejects c (t_pol t) p) p s k) /\
    forall b k, fold_b b (g_evs g') k =
                if g_subs g && b && (k_peer k =? p) && in_shard s k && existsb (key_eqb k) (g_keys g) && nonnone (g_rib g k)
                then ribv b (g_rib g') k else fold_b b (g_evs g) k
  | _ =>
    g_subs g' = g_subs g /\ g_walk g' = g_walk g /\ g_keys g' = g_keys g /\ g_rib g' = g_rib g /\
    forall b k, fold_b b (g_evs g') k = fold_b b (g_evs g) k
  end.

Lemma existsb_filter_key q (f : key -> bool) ks :
  existsb (key_eqb q) (filter f ks) = f q && existsb (key_eqb q) ks.
Proof.
  induction ks as [|k t IH]; cbn [filter existsb]. rewrite andb_false_r. auto.
  destruct (f k) eqn:EF; cbn [existsb]; rewrite IH.
  - destruct (key_eqb q k) eqn:EK; cbn [orb].
    + apply key_eqb_eq in EK. subst. rewrite EF. auto.
    + auto.
  - destruct (key_eqb q k) eqn:EK; cbn [orb]; auto.
    apply key_eqb_eq in EK. subst. rewrite EF. auto.
Qed.

Lemma send_fold b subs l m k :
  fold_left (apply_b b) (send subs l) m k = if subs then fold_left (apply_b b) l m k else m k.
Proof. destruct subs; reflexivity. Qed.

Lemma walk_fold b b' r ks m q :
  fold_left (apply_b b) (walk_evs b' r ks) m q =
  if Bool.eqb b b' && existsb (key_eqb q) ks && nonnone (ribv b' r q) then ribv b' r q else m q.
Proof.
  unfold walk_evs.
  rewrite (flat_map_ext _ (fun k => match (match ribv b' r k with Some tok => Some (Some tok) | None => None end)
                                    with Some x => [evk b' k x] | None => [] end)).
  2:{ intro k. destruct (ribv b' r k); auto. }
  rewrite fold_flat. destruct (Bool.eqb b b' && existsb (key_eqb q) ks); cbn [andb]; auto.
  destruct (ribv b' r q); cbn; auto.
Qed.

Lemma same_prefix_refl k : same_prefix k k = true.
Proof. unfold same_prefix. rewrite !N.eqb_refl. auto. Qed.

Lemma add_key_in k0 ks k : In k (add_key k0 ks) <-> k = k0 \/ In k ks.
Proof.
  unfold add_key. destruct (existsb (key_eqb k0) ks) eqn:E.
  - split; auto. intros [->|H]; auto. apply existsb_exists in E. destruct E as [x [Hx E]].
    apply key_eqb_eq in E. subst. auto.
  - cbn. intuition.
Qed.

Lemma upd_rib_same k0 x r : upd_rib k0 x r k0 = x.
Proof. unfold upd_rib. rewrite key_eqb_refl. auto. Qed.
Lemma upd_rib_other k0 x r k : k <> k0 -> upd_rib k0 x r k = r k.
Proof. intro H. unfold upd_rib. rewrite key_eqb_neq; auto. Qed.

Lemma fold_two b subs k0 x y m k :
  fold_left (apply_b b) (send subs [evk false k0 x; evk true k0 y]) m k =
  if subs && key_eqb k k0 then (if b then y else x) else m k.
Proof.
  rewrite send_fold. destruct subs; cbn [andb fold_left]; auto.
  rewrite !apply_evk. destruct b; cbn [Bool.eqb andb]; destruct (key_eqb k k0); auto.
Qed.

Definition dom_ok (g : glob) : Prop := forall k, g_rib g k <> None -> In k (g_keys g).

Lemma is_new_none g k0 : dom_ok g -> peer_has_prefix g k0 = false -> g_rib g k0 = None.
Proof.
  intros HD HN. destruct (g_rib g k0) eqn:E; auto. exfalso.
  assert (In k0 (g_keys g)) by (apply HD; congruence).
  assert (peer_has_prefix g k0 = true); try congruence.
  unfold peer_has_prefix. apply existsb_exists. exists k0. split; auto.
  rewrite same_prefix_refl, E. auto.
Qed.

Lemma ins_accept_effect g k0 tok filtered ctr :
  let g' := set_evs_rib g (send (g_subs g) [evk false k0 (Some tok); evk true k0 (post_val tok filtered)])
                        (add_key k0 (g_keys g)) (upd_rib k0 (Some (tok, filtered)) (g_rib g)) ctr in
  g_subs g' = g_subs g /\ g_walk g' = g_walk g /\
  (forall k, In k (g_keys g) -> In k (g_keys g')) /\
  (g_rib g' k0 <> None -> In k0 (g_keys g')) /\
  (forall k, k <> k0 -> g_rib g' k = g_rib g k) /\
  (g_rib g' k0 = None -> g_rib g k0 = None) /\
  forall b k, fold_b b (g_evs g') k =
              if g_subs g && key_eqb k k0 then ribv b (g_rib g') k0 else fold_b b (g_evs g) k.
Proof.
  cbn [set_evs_rib g_subs g_walk g_keys g_rib g_evs]. repeat split; auto.
  - intros k H. apply add_key_in. auto.
  - intros _. apply add_key_in. auto.
  - intros k H. apply upd_rib_other. auto.
  - rewrite upd_rib_same. discriminate.
  - intros b k. rewrite fold_b_app, fold_two. unfold ribv. rewrite upd_rib_same.
    destruct b, filtered; reflexivity.
Qed.

Lemma exec_effect g t m : dom_ok g -> effect g t m (fst (exec c V g t m)).
Proof.
  intro HD. destruct m; cbn [exec fst effect].
  - (* MSubReg *) cbn. auto.
  - (* MWalk *)
    unfold walk_shard. cbn [g_subs g_keys g_rib g_walk g_evs]. repeat (split; auto).
    intros b k. rewrite fold_b_app, !fold_left_app.
    assert (HE : forall m0, fold_left (apply_b b) (if g_walk g + 1 =? 2 then [EvEnd] else []) m0 k = m0 k).
    { intro m0. destruct (g_walk g + 1 =? 2); cbn; auto. destruct b; reflexivity. }
    rewrite HE, !walk_fold, !existsb_filter_key.
    destruct b; cbn [Bool.eqb andb].
    + destruct (in_shard (g_walk g) k && existsb (key_eqb k) (g_keys g)); cbn [andb]; auto.
    + destruct (in_shard (g_walk g) k && existsb (key_eqb k) (g_keys g)); cbn [andb]; auto.
  - cbn. auto.
  - (* MInsLocked *)
    unfold ins_locked. destruct (limit_of c (k_peer k)) as [mx|].
    + destruct (negb (peer_has_prefix g k) && (mx <=? g_ctr g (k_peer k))) eqn:ER.
      * apply andb_true_iff in ER. destruct ER as [ER _]. apply negb_true_iff in ER.
        pose proof (is_new_none g k HD ER) as HN.
        cbn [set_evs_rib g_subs g_walk g_keys g_rib g_evs]. repeat split; auto; try congruence.
        intros b q. rewrite fold_b_app, fold_left_app, !fold_two. unfold ribv. rewrite HN.
           destruct (g_subs g && key_eqb q k); auto. destruct b; auto.
      * apply ins_accept_effect.
    + apply ins_accept_effect.
  - cbn. auto.
  - (* MRemLocked *)
    assert (HR : forall g', (g' = set_evs_rib g (send (g_subs g) [evk false k None; evk true k None]) (g_keys g)
                                   (upd_rib k None (g_rib g)) (g_ctr g) \/
                             g' = set_evs_rib g (send (g_subs g) [evk false k None; evk true k None]) (g_keys g)
                                   (upd_rib k None (g_rib g)) (set_ctr (k_peer k) (g_ctr g (k_peer k) - 1) (g_ctr g))) ->
                 g_subs g' = g_subs g /\ g_walk g' = g_walk g /\ g_keys g' = g_keys g /\
                 (forall q, g_rib g' q = if key_eqb q k then None else g_rib g q) /\
                 forall b q, fold_b b (g_evs g') q = if g_subs g && key_eqb q k then None else fold_b b (g_evs g) q).
    { intros g' [-> | ->]; cbn [set_evs_rib g_subs g_walk g_keys g_rib g_evs]; repeat split; auto;
        intros b q; rewrite fold_b_app, fold_two; destruct b; auto. }
    apply HR. unfold rem_locked.
    destruct (g_rib g k); auto. destruct (limit_of c (k_peer k)); auto.
    destruct (peer_has_prefix _ k); auto.
  - (* MUp *)
    cbn [with_evs set_evs_rib g_subs g_walk g_keys g_rib g_evs]. repeat split; auto.
    intros b q. rewrite fold_b_app, send_fold. destruct (g_subs g); auto. destruct b; reflexivity.
  - cbn. auto.
  - (* MUnregShard *) unfold unreg_shard. cbn. rewrite app_nil_r. repeat (split; auto).
  - (* MPeerDown *)
    cbn [set_evs_rib g_subs g_walk g_keys g_rib g_evs]. repeat split; auto.
    intros b q. rewrite fold_b_app, send_fold. destruct (g_subs g); cbn [andb fold_left]; auto.
    rewrite apply_down. auto.
  - cbn. auto.
  - (* MResetShard *)
    unfold reset_shard. cbn [set_evs_rib g_subs g_walk g_keys g_rib g_evs]. repeat split; auto.
    intros b q. rewrite fold_b_app, send_fold.
    destruct (g_subs g); cbn [andb]; auto.
    rewrite (flat_map_ext _ (fun k => match (if nonnone (g_rib g k)
                                             then Some (ribv true (reset_rib (g_rib g) (rejects c (t_pol t) p) p s) k)
                                             else None)
                                      with Some x => [evk true k x] | None => [] end)).
    2:{ intro k. destruct (g_rib g k); auto. }
    rewrite fold_flat, existsb_filter_key.
    destruct b; cbn [Bool.eqb andb]; auto.
    destruct ((k_peer q =? p) && in_shard s q); cbn [andb]; auto.
    destruct (existsb (key_eqb q) (g_keys g)); cbn [andb]; auto.
    destruct (nonnone (g_rib g q)); auto.
  - cbn. auto.
Qed.

(* ---- one step preserves the invariant *)
Lemma shape_unreg1 o pre m p : expand o = pre ++ m :: [MUnregShard p 1; MPeerDown p] -> m = MUnregShard p 0.
Proof.
  destruct o; cbn [expand]; intro H;
    repeat (destruct pre as [|? pre]; cbn [app] in H; try discriminate H; try (inversion H; subst; auto; fail)).
Qed.
Lemma shape_pd o pre m p : expand o = pre ++ m :: [MPeerDown p] -> m = MUnregShard p 1.
Proof.
  destruct o; cbn [expand]; intro H;
    repeat (destruct pre as [|? pre]; cbn [app] in H; try discriminate H; try (inversion H; subst; auto; fail)).
Qed.

Record ctx (s : sys) (i : nat) (m : mstep) (t1 t2 : thread) (g' : glob) : Prop := {
  c_inv : Inv s;
  c_steps : steps (s_thr s i) = m :: steps t1;
  c_t2 : steps t2 = steps t1;
  c_cur : t_cur t2 = t_cur t1;
  c_valid : valid_cur (t_cur t1);
  c_shape : exists o pre, expand o = pre ++ m :: t_cur t1;
  c_before : t_cur (s_thr s i) = m :: t_cur t1 \/
             (t_cur (s_thr s i) = [] /\ exists o, expand o = m :: t_cur t1);
  c_eff : effect (s_g s) t1 m g'
}.

Definition after (s : sys) (i : nat) (t2 : thread) (g' : glob) : sys :=
  {| s_g := g'; s_thr := upd_thr i t2 (s_thr s) |}.

Section Step.
Variables (s : sys) (i : nat) (m : mstep) (t1 t2 : thread) (g' : glob).
Hypothesis C : ctx s i m t1 t2 g'.
Let s' := after s i t2 g'.

Lemma steps' j : steps (s_thr s' j) = if Nat.eqb j i then steps t1 else steps (s_thr s j).
Proof. cbn. unfold upd_thr. destruct (Nat.eqb j i); auto. apply (c_t2 _ _ _ _ _ _ C). Qed.

Lemma steps_sub j x : In x (steps (s_thr s' j)) -> In x (steps (s_thr s j)).
Proof.
  rewrite steps'. destruct (Nat.eqb j i) eqn:E; auto.
  apply Nat.eqb_eq in E. subst. rewrite (c_steps _ _ _ _ _ _ C). cbn. auto.
Qed.

Lemma ex_mono p : exempt s' p -> exempt s p.
Proof. intros [j H]. exists j. apply steps_sub. auto. Qed.

Lemma ex_keep p : exempt s p -> m <> MPeerDown p -> exempt s' p.
Proof.
  intros [j H] Hm. exists j. rewrite steps'. destruct (Nat.eqb j i) eqn:E; auto.
  apply Nat.eqb_eq in E. subst. rewrite (c_steps _ _ _ _ _ _ C) in H. destruct H as [H|H]; auto. congruence.
Qed.

Lemma own' : forall a b p, a <> b -> owns_any p (steps (s_thr s' a)) -> owns_any p (steps (s_thr s' b)) -> False.
Proof.
  intros a b p Hab [x [Hx Ox]] [y [Hy Oy]]. apply (i_own s (c_inv _ _ _ _ _ _ C) a b p Hab).
  - exists x. split; auto. apply steps_sub; auto.
  - exists y. split; auto. apply steps_sub; auto.
Qed.

Lemma cur' j : valid_cur (t_cur (s_thr s' j)).
Proof.
  cbn. unfold upd_thr. destruct (Nat.eqb j i).
  - rewrite (c_cur _ _ _ _ _ _ C). apply (c_valid _ _ _ _ _ _ C).
  - apply (i_cur s (c_inv _ _ _ _ _ _ C)).
Qed.
End Step.

Definition subs_after (s : sys) (m : mstep) : bool := match m with MSubReg => true | _ => g_subs (s_g s) end.

Lemma subs'_eq s i m t1 t2 g' : ctx s i m t1 t2 g' -> g_subs g' = subs_after s m.
Proof. intros [_ _ _ _ _ _ _ HE]. unfold subs_after. destruct m; cbn [effect] in HE; intuition. Qed.

Lemma wok' s i m t1 t2 g' j : ctx s i m t1 t2 g' ->
  wok (g_subs g') (steps (s_thr (after s i t2 g') j)) = true.
Proof.
  intro C. rewrite (subs'_eq _ _ _ _ _ _ C), (steps' _ _ _ _ _ _ C).
  pose proof (i_wok s (c_inv _ _ _ _ _ _ C)) as HW.
  destruct (Nat.eqb j i) eqn:E.
  - specialize (HW i). rewrite (c_steps _ _ _ _ _ _ C) in HW. unfold subs_after.
    destruct m; cbn [wok] in HW; auto. apply andb_true_iff in HW. tauto.
  - specialize (HW j). unfold subs_after. destruct m; auto. eapply wok_mono; eauto.
Qed.

Lemma walk_needs_subs s i t1 t2 g' : ctx s i MWalk t1 t2 g' -> g_subs (s_g s) = true.
Proof.
  intro C. pose proof (i_wok s (c_inv _ _ _ _ _ _ C) i) as HW.
  rewrite (c_steps _ _ _ _ _ _ C) in HW. cbn [wok] in HW. apply andb_true_iff in HW. tauto.
Qed.

Lemma pre' s i m t1 t2 g' : ctx s i m t1 t2 g' ->
  g_subs g' = false -> (forall b k, fold_b b (g_evs g') k = None) /\ g_walk g' = 0.
Proof.
  intros C. rewrite (subs'_eq _ _ _ _ _ _ C). unfold subs_after. intro Hs.
  assert (Hs0 : g_subs (s_g s) = false) by (destruct m; auto; discriminate).
  destruct (i_pre s (c_inv _ _ _ _ _ _ C) Hs0) as [He Hw].
  pose proof (c_eff _ _ _ _ _ _ C) as HE.
  destruct m; cbn [effect] in HE; try discriminate.
  - rewrite (walk_needs_subs _ _ _ _ _ C) in Hs0. discriminate.
  - destruct HE as [_ [H2 [_ [_ H5]]]]. split; [|congruence]. intros b q. rewrite H5. auto.
  - destruct HE as [_ [H2 [_ [_ [_ [_ H5]]]]]]. split; [|congruence]. intros b q. rewrite H5, Hs0; cbn [andb]; auto.
  - destruct HE as [_ [H2 [_ [_ H5]]]]. split; [|congruence]. intros b q. rewrite H5. auto.
  - destruct HE as [_ [H2 [_ [_ H5]]]]. split; [|congruence]. intros b q. rewrite H5, Hs0; cbn [andb]; auto.
  - destruct HE as [_ [H2 [_ [_ H5]]]]. split; [|congruence]. intros b q. rewrite H5. auto.
  - destruct HE as [_ [H2 [_ [_ H5]]]]. split; [|congruence]. intros b q. rewrite H5. auto.
  - destruct HE as [_ [H2 [_ [H4 _]]]]. split; [|congruence]. intros b q. rewrite H4. auto.
  - destruct HE as [_ [H2 [_ [_ H5]]]]. split; [|congruence]. intros b q. rewrite H5, Hs0; cbn [andb]; auto.
  - destruct HE as [_ [H2 [_ [_ H5]]]]. split; [|congruence]. intros b q. rewrite H5. auto.
  - destruct HE as [_ [H2 [_ [_ H5]]]]. split; [|congruence]. intros b q. rewrite H5, Hs0; cbn [andb]; auto.
  - destruct HE as [_ [H2 [_ [_ H5]]]]. split; [|congruence]. intros b q. rewrite H5. auto.
Qed.


Lemma dom' s i m t1 t2 g' : ctx s i m t1 t2 g' -> forall k, g_rib g' k <> None -> In k (g_keys g').
Proof.
  intros C k Hk. pose proof (i_dom s (c_inv _ _ _ _ _ _ C)) as HD.
  pose proof (c_eff _ _ _ _ _ _ C) as HE.
  destruct m; cbn [effect] in HE.
  - destruct HE as [_ [H2 [H3 _]]]. rewrite H2. apply HD. congruence.
  - destruct HE as [_ [H2 [H3 _]]]. rewrite H2. apply HD. congruence.
  - destruct HE as [_ [_ [H2 [H3 _]]]]. rewrite H2. apply HD. congruence.
  - destruct HE as [_ [_ [H3 [H4 [H5 _]]]]].
    destruct (key_eqb k k0) eqn:E.
    + apply key_eqb_eq in E. subst. auto.
    + apply H3. apply HD. rewrite <- H5; auto. intro HH. subst. rewrite key_eqb_refl in E. discriminate.
  - destruct HE as [_ [_ [H2 [H3 _]]]]. rewrite H2. apply HD. congruence.
  - destruct HE as [_ [_ [H2 [H3 _]]]]. rewrite H2. apply HD. rewrite H3 in Hk.
    destruct (key_eqb k k0); congruence.
  - destruct HE as [_ [_ [H2 [H3 _]]]]. rewrite H2. apply HD. congruence.
  - destruct HE as [_ [_ [H2 [H3 _]]]]. rewrite H2. apply HD. congruence.
  - destruct HE as [_ [_ [H2 [_ H3]]]]. rewrite H2. apply HD. rewrite H3 in Hk.
    destruct ((k_peer k =? p) && in_shard s0 k); congruence.
  - destruct HE as [_ [_ [H2 [H3 _]]]]. rewrite H2. apply HD. congruence.
  - destruct HE as [_ [_ [H2 [H3 _]]]]. rewrite H2. apply HD. congruence.
  - destruct HE as [_ [_ [H2 [H3 _]]]]. rewrite H2. apply HD. rewrite H3 in Hk. unfold reset_rib in Hk.
    destruct ((k_peer k =? p) && in_shard s0 k); auto. destruct (g_rib (s_g s) k); congruence.
  - destruct HE as [_ [_ [H2 [H3 _]]]]. rewrite H2. apply HD. congruence.
Qed.

Lemma A_keep w phi rho (rn ex : Prop) sh phi' rho' (rn' ex' : Prop) :
  phi' = phi -> rho' = rho -> (rn -> rn') -> (ex -> ex') ->
  A w phi rho rn ex sh -> A w phi' rho' rn' ex' sh.
Proof. intros -> -> H1 H2 [H|[H|[H3 H4]]]; [left|right; left|right; right]; auto. Qed.

Lemma ribv_ext b (r r' : key -> option (N * bool)) k : r' k = r k -> ribv b r' k = ribv b r k.
Proof. unfold ribv. intros ->. auto. Qed.

Lemma ribv_none b (r : key -> option (N * bool)) k : r k = None -> ribv b r k = None.
Proof. unfold ribv. intros ->. auto. Qed.

Lemma shape_unreg_pd o pre p x r : expand o = pre ++ MUnregShard p x :: r -> In (MPeerDown p) r.
Proof.
  destruct o; cbn [expand]; intro H;
    repeat (destruct pre as [|? pre]; cbn [app] in H; try discriminate H;
            try (inversion H; subst; cbn; auto; fail)).
Qed.

Lemma shape_pd_last o pre p r : expand o = pre ++ MPeerDown p :: r -> r = [].
Proof.
  destruct o; cbn [expand]; intro H;
    repeat (destruct pre as [|? pre]; cbn [app] in H; try discriminate H;
            try (inversion H; subst; cbn; auto; fail)).
Qed.

Lemma no_expand_pd o p r : expand o = MPeerDown p :: r -> False.
Proof. destruct o; discriminate. Qed.

Lemma in_shard_eq x k : in_shard x k = true <-> shard_of k = x.
Proof. unfold in_shard. apply N.eqb_eq. Qed.

Lemma existsb_key_in k ks : In k ks -> existsb (key_eqb k) ks = true.
Proof. intro H. apply existsb_exists. exists k. split; auto. apply key_eqb_refl. Qed.

Lemma key' s i m t1 t2 g' : ctx s i m t1 t2 g' -> forall b k,
  A (g_walk g') (fold_b b (g_evs g') k) (ribv b (g_rib g') k) (g_rib g' k = None)
    (exempt (after s i t2 g') (k_peer k)) (shard_of k).
Proof.
  intros C b k. pose proof (c_inv _ _ _ _ _ _ C) as HI.
  pose proof (i_key s HI b k) as HA. pose proof (c_eff _ _ _ _ _ _ C) as HE.
  pose proof (ex_keep _ _ _ _ _ _ C (k_peer k)) as HX.
  destruct m; cbn [effect] in HE.
  - (* MSubReg *)
    destruct HE as [_ [_ [H3 [H4 H5]]]]. rewrite H3, H4, H5.
    eapply A_keep; try exact HA; auto; try (intro; apply HX; auto; discriminate).
  - (* MWalk *)
    destruct HE as [_ [_ [H3 [H4 H5]]]]. rewrite H3, H4, H5.
    assert (HX' : exempt s (k_peer k) -> exempt (after s i t2 g') (k_peer k)) by (intro; apply HX; auto; discriminate).
    destruct (in_shard (g_walk (s_g s)) k) eqn:ES; cbn [andb].
    + apply in_shard_eq in ES.
      destruct (ribv b (g_rib (s_g s)) k) as [x|] eqn:ER.
      * assert (In k (g_keys (s_g s))).
        { apply (i_dom s HI). unfold ribv in ER. destruct (g_rib (s_g s) k); congruence. }
        rewrite existsb_key_in by auto. cbn. left. auto.
      * rewrite andb_false_r. destruct HA as [HA|[[_ HA]|[H1 H2]]].
        -- left. auto.
        -- left. auto.
        -- right; right. auto.
    + destruct HA as [HA|[[HA1 HA2]|[H1 H2]]].
      * left; auto.
      * right; left. split; auto. apply N.eqb_neq in ES. unfold in_shard in ES. lia.
      * right; right; auto.
  - (* MInsPrep *)
    destruct HE as [_ [H2 [_ [H4 H5]]]]. rewrite H2, H4, H5.
    eapply A_keep; try exact HA; auto; try (intro; apply HX; auto; discriminate).
  - (* MInsLocked *)
    destruct HE as [_ [H2 [_ [_ [H5 [H6 H7]]]]]]. rewrite H2, H7.
    destruct (key_eqb k k0) eqn:EK.
    + apply key_eqb_eq in EK. subst k0.
      destruct (g_subs (s_g s)) eqn:ESub; cbn [andb].
      * left. auto.
      * destruct (i_pre s HI ESub) as [HF HW]. right; left. rewrite HF, HW. split; auto. lia.
    + rewrite andb_false_r.
      assert (HN : k <> k0) by (intro; subst; rewrite key_eqb_refl in EK; discriminate).
      eapply A_keep; try exact HA; auto.
      * apply ribv_ext. auto.
      * rewrite H5; auto.
      * intro; apply HX; auto; discriminate.
  - (* MRemPrep *)
    destruct HE as [_ [H2 [_ [H4 H5]]]]. rewrite H2, H4, H5.
    eapply A_keep; try exact HA; auto; try (intro; apply HX; auto; discriminate).
  - (* MRemLocked *)
    destruct HE as [_ [H2 [_ [H4 H5]]]]. rewrite H2, H5.
    destruct (key_eqb k k0) eqn:EK.
    + destruct (g_subs (s_g s)) eqn:ESub; cbn [andb].
      * left. rewrite ribv_none; auto. rewrite H4, EK. auto.
      * destruct (i_pre s HI ESub) as [HF HW]. right; left. rewrite HF, HW. split; auto. lia.
    + rewrite andb_false_r. eapply A_keep; try exact HA; auto.
      * apply ribv_ext. rewrite H4, EK. auto.
      * rewrite H4, EK. auto.
      * intro; apply HX; auto; discriminate.
  - (* MUp *)
    destruct HE as [_ [H2 [_ [H4 H5]]]]. rewrite H2, H4, H5.
    eapply A_keep; try exact HA; auto; try (intro; apply HX; auto; discriminate).
  - (* MUnregPrep *)
    destruct HE as [_ [H2 [_ [H4 H5]]]]. rewrite H2, H4, H5.
    eapply A_keep; try exact HA; auto; try (intro; apply HX; auto; discriminate).
  - (* MUnregShard *)
    destruct HE as [_ [H2 [_ [H4 H5]]]]. rewrite H2, H4.
    destruct ((k_peer k =? p) && in_shard s0 k) eqn:EA.
    + right; right. split. rewrite H5, EA. auto.
      apply andb_true_iff in EA. destruct EA as [EA _]. apply N.eqb_eq in EA. rewrite EA.
      exists i. rewrite (steps' _ _ _ _ _ _ C), Nat.eqb_refl. unfold steps. apply in_or_app. left.
      destruct (c_shape _ _ _ _ _ _ C) as [o [pre HS]]. eapply shape_unreg_pd; eauto.
    + eapply A_keep; try exact HA; auto.
      * apply ribv_ext. rewrite H5, EA. auto.
      * rewrite H5, EA. auto.
      * intro; apply HX; auto; discriminate.
  - (* MPeerDown *)
    destruct HE as [_ [H2 [_ [H4 H5]]]]. rewrite H2, H4, H5.
    destruct (k_peer k =? p) eqn:EP.
    + apply N.eqb_eq in EP.
      assert (HR : g_rib (s_g s) k = None).
      { destruct (c_before _ _ _ _ _ _ C) as [HB|[_ [o HB]]].
        - destruct (c_shape _ _ _ _ _ _ C) as [o [pre HS]]. apply shape_pd_last in HS.
          rewrite HS in HB. apply (proj2 (i_drop s HI i p) HB). auto.
        - exfalso. eapply no_expand_pd; eauto. }
      left. rewrite (ribv_none b _ k HR).
      destruct (g_subs (s_g s)) eqn:ESub; cbn [andb]; auto.
      destruct (i_pre s HI ESub) as [HF _]. auto.
    + rewrite andb_false_r. eapply A_keep; try exact HA; auto.
      intro; apply HX; auto. intro HH. inversion HH. subst. rewrite N.eqb_refl in EP. discriminate.
  - (* MResetPrep *)
    destruct HE as [_ [H2 [_ [H4 H5]]]]. rewrite H2, H4, H5.
    eapply A_keep; try exact HA; auto; try (intro; apply HX; auto; discriminate).
  - (* MResetShard *)
    destruct HE as [_ [H2 [_ [H4 H5]]]]. rewrite H2, H5.
    assert (HX' : exempt s (k_peer k) -> exempt (after s i t2 g') (k_peer k)) by (intro; apply HX; auto; discriminate).
    assert (HN : g_rib g' k = None <-> g_rib (s_g s) k = None).
    { rewrite H4. unfold reset_rib. destruct ((k_peer k =? p) && in_shard s0 k); [|tauto].
      destruct (g_rib (s_g s) k) as [[? ?]|]; split; congruence. }
    destruct (b && (k_peer k =? p) && in_shard s0 k && nonnone (g_rib (s_g s) k)) eqn:EA.
    + apply andb_true_iff in EA. destruct EA as [EA E4]. apply andb_true_iff in EA. destruct EA as [EA E3].
      apply andb_true_iff in EA. destruct EA as [E1 E2]. subst b.
      assert (In k (g_keys (s_g s))).
      { apply (i_dom s HI). destruct (g_rib (s_g s) k); [congruence|discriminate]. }
      rewrite E2, E3, E4, existsb_key_in by auto.
      destruct (g_subs (s_g s)) eqn:ESub; cbn [andb].
      * left. auto.
      * destruct (i_pre s HI ESub) as [HF HW]. right; left. rewrite HF, HW. split; auto. lia.
    + assert (HF : (if g_subs (s_g s) && b && (k_peer k =? p) && in_shard s0 k &&
                       existsb (key_eqb k) (g_keys (s_g s)) && nonnone (g_rib (s_g s) k)
                    then ribv b (g_rib g') k else fold_b b (g_evs (s_g s)) k) = fold_b b (g_evs (s_g s)) k).
      { destruct (g_subs (s_g s)); cbn [andb]; auto.
        destruct b; cbn [andb] in *; auto.
        destruct (k_peer k =? p); cbn [andb] in *; auto.
        destruct (in_shard s0 k); cbn [andb] in *; auto.
        rewrite EA, andb_false_r. auto. }
      rewrite HF. eapply A_keep; try exact HA; auto; try tauto.
      unfold ribv. rewrite H4. unfold reset_rib.
      destruct ((k_peer k =? p) && in_shard s0 k) eqn:E23; auto.
      destruct (g_rib (s_g s) k) as [[tok f]|] eqn:ER; auto.
      destruct b; cbn [andb] in *; auto.
      apply andb_true_iff in E23. destruct E23 as [E2 E3]. rewrite E2, E3 in EA. cbn in EA. discriminate.
  - (* MSetPol *)
    destruct HE as [_ [H2 [_ [H4 H5]]]]. rewrite H2, H4, H5.
    eapply A_keep; try exact HA; auto; try (intro; apply HX; auto; discriminate).
Qed.

Lemma rib_none_pres g t m g' k :
  effect g t m g' -> g_rib g k = None ->
  (forall k0 tok, m = MInsLocked k0 tok -> k <> k0) -> g_rib g' k = None.
Proof.
  intros HE HN HK. destruct m; cbn [effect] in HE.
  - destruct HE as [_ [_ [H3 _]]]. congruence.
  - destruct HE as [_ [_ [H3 _]]]. congruence.
  - destruct HE as [_ [_ [_ [H3 _]]]]. congruence.
  - destruct HE as [_ [_ [_ [_ [H5 _]]]]]. rewrite H5; auto. eapply HK; eauto.
  - destruct HE as [_ [_ [_ [H3 _]]]]. congruence.
  - destruct HE as [_ [_ [_ [H3 _]]]]. rewrite H3. destruct (key_eqb k k0); auto.
  - destruct HE as [_ [_ [_ [H3 _]]]]. congruence.
  - destruct HE as [_ [_ [_ [H3 _]]]]. congruence.
  - destruct HE as [_ [_ [_ [_ H3]]]]. rewrite H3. destruct (_ && _); auto.
  - destruct HE as [_ [_ [_ [H3 _]]]]. congruence.
  - destruct HE as [_ [_ [_ [H3 _]]]]. congruence.
  - destruct HE as [_ [_ [_ [H3 _]]]]. rewrite H3. unfold reset_rib. rewrite HN. destruct (_ && _); auto.
  - destruct HE as [_ [_ [_ [H3 _]]]]. congruence.
Qed.

Lemma drop' s i m t1 t2 g' : ctx s i m t1 t2 g' -> forall j p,
  (t_cur (s_thr (after s i t2 g') j) = [MUnregShard p 1; MPeerDown p] ->
   forall k, k_peer k = p -> shard_of k = 0 -> g_rib g' k = None) /\
  (t_cur (s_thr (after s i t2 g') j) = [MPeerDown p] -> forall k, k_peer k = p -> g_rib g' k = None).
Proof.
  intros C j p. pose proof (c_inv _ _ _ _ _ _ C) as HI. pose proof (c_eff _ _ _ _ _ _ C) as HE.
  destruct (c_shape _ _ _ _ _ _ C) as [o [pre HS]].
  cbn [after s_thr s_g]. unfold upd_thr. destruct (Nat.eqb j i) eqn:EJ.
  - (* the stepping thread *)
    rewrite (c_cur _ _ _ _ _ _ C). split; intros HC k Hp.
    + rewrite HC in HS. apply shape_unreg1 in HS. subst m. cbn [effect] in HE.
      destruct HE as [_ [_ [_ [_ H5]]]]. intro Hs. rewrite H5.
      assert (k_peer k =? p = true) as -> by (apply N.eqb_eq; auto).
      assert (in_shard 0 k = true) as -> by (apply in_shard_eq; auto). auto.
    + rewrite HC in HS. pose proof HS as HS'. apply shape_pd in HS. subst m. cbn [effect] in HE.
      destruct HE as [_ [_ [_ [_ H5]]]]. rewrite H5.
      assert (k_peer k =? p = true) as -> by (apply N.eqb_eq; auto). cbn [andb].
      destruct (in_shard 1 k) eqn:ES; auto.
      assert (shard_of k = 0).
      { unfold in_shard, shard_of in *. destruct (k_sh k =? 0); auto. discriminate. }
      destruct (c_before _ _ _ _ _ _ C) as [HB|[_ [o' HB]]].
      * rewrite HC in HB. apply (proj1 (i_drop s HI i p) HB); auto.
      * exfalso. destruct o'; discriminate.
  - (* another thread: only its own peer's insert could break it *)
    assert (HNP : forall k, k_peer k = p -> In (MPeerDown p) (t_cur (s_thr s j)) ->
                  g_rib (s_g s) k = None -> g_rib g' k = None).
    { intros k Hp Hin HN. eapply rib_none_pres; eauto. intros k0 tok Hm Hk. subst.
      apply (i_own s HI i j (k_peer k0)).
      - intro. subst. rewrite Nat.eqb_refl in EJ. discriminate.
      - exists (MInsLocked k0 tok). split. rewrite (c_steps _ _ _ _ _ _ C). cbn; auto. cbn. auto.
      - exists (MPeerDown (k_peer k0)). split. unfold steps. apply in_or_app. auto. cbn. auto. }
    split; intros HC k Hp.
    + intro Hs. apply HNP; auto. rewrite HC. cbn; auto.
      apply (proj1 (i_drop s HI j p) HC); auto.
    + apply HNP; auto. rewrite HC. cbn; auto.
      apply (proj2 (i_drop s HI j p) HC); auto.
Qed.

Lemma ctx_inv s i m t1 t2 g' : ctx s i m t1 t2 g' -> Inv (after s i t2 g').
Proof.
  intro C. constructor; cbn [after s_g].
  - apply (pre' _ _ _ _ _ _ C).
  - intro j. apply (wok' _ _ _ _ _ _ j C).
  - apply (dom' _ _ _ _ _ _ C).
  - apply (key' _ _ _ _ _ _ C).
  - apply (drop' _ _ _ _ _ _ C).
  - apply (own' _ _ _ _ _ _ C).
  - apply (cur' _ _ _ _ _ _ C).
Qed.

Lemma step_inv s i : Inv s -> Inv (sys_step c V s i).
Proof.
  intro HI. unfold sys_step.
  destruct (next_step (s_thr s i)) as [[m t1]|] eqn:EN; auto.
  destruct (next_step_some _ _ _ (i_cur s HI i) EN) as [HS [HV HC]].
  pose proof (exec_effect (s_g s) t1 m (i_dom s HI)) as HE.
  pose proof (exec_steps (s_g s) t1 m) as HT. pose proof (exec_thread (s_g s) t1 m) as [HT1 _].
  destruct (exec c V (s_g s) t1 m) as [g' t2]. cbn [fst snd] in *.
  apply (ctx_inv s i m t1 t2 g'). constructor; auto.
  destruct HC as [HC|[HC [o HO]]].
  - destruct (i_cur s HI i) as [o [pre HP]]. exists o, pre. rewrite HC in HP. auto.
  - exists o, []. auto.
Qed.

Lemma run_inv sched : forall s, Inv s -> Inv (run_sched c V s sched).
Proof.
  induction sched as [|i t IH]; intros s H; cbn [run_sched fold_left]; auto.
  apply IH. apply step_inv. auto.
Qed.

(* ---- the initial state *)
Lemma expand_owner p o m : In m (expand o) -> owns p m -> op_owner p o.
Proof.
  destruct o; cbn [expand In]; intros H Ho;
    repeat (destruct H as [H|H]; [subst m; cbn in *; auto; try tauto|]); try tauto.
Qed.

Lemma owns_any_flat p ops : owns_any p (flat_map expand ops) -> exists o, In o ops /\ op_owner p o.
Proof.
  intros [m [Hm Ho]]. apply in_flat_map in Hm. destruct Hm as [o [Hi Hm]].
  exists o. split; auto. eapply expand_owner; eauto.
Qed.

Lemma Inv_init progs : wf_progs progs -> Inv (init progs).
Proof.
  intro HW. constructor; cbn [init s_g s_thr glob0 g_subs g_evs g_walk g_rib g_keys].
  - auto.
  - intro i. unfold steps. cbn [t_cur t_ops app]. apply wok_flat.
  - intros k H. congruence.
  - intros b k. left. reflexivity.
  - intros i p. cbn [t_cur]. split; discriminate.
  - intros i j p Hij H1 H2. unfold steps in *. cbn [t_cur t_ops app] in *.
    apply owns_any_flat in H1. apply owns_any_flat in H2.
    destruct H1 as [o1 [I1 O1]]. destruct H2 as [o2 [I2 O2]]. eapply HW; eauto.
  - intro i. cbn [t_cur]. exists Subscribe, (expand Subscribe). rewrite app_nil_r. auto.
Qed.

End Inv.

(* ================================================================ *)
(* Final statements *)
Lemma all_done_no_exempt s p : all_done s -> ~ exempt s p.
Proof. intros HD [i H]. rewrite (next_step_none _ (HD i)) in H. destruct H. Qed.

Lemma shard_lt2 k : shard_of k < 2.
Proof. unfold shard_of. destruct (k_sh k =? 0); lia. Qed.

Theorem C18_subscriber_fold_eq_rib :
  forall (c : cfg) (progs : list (list op)) (sched : list nat),
    wf_progs progs ->
    let s := run_sched c Fixed (init progs) sched in
    all_done s -> 2 <= g_walk (s_g s) ->
    forall k, fold_pre (g_evs (s_g s)) k = rib_pre (s_g s) k /\
              fold_post (g_evs (s_g s)) k = rib_post (s_g s) k.
Proof.
  intros c progs sched HW s HD H2 k.
  assert (HI : Inv s) by (apply run_inv; apply Inv_init; auto).
  assert (HK : forall b, fold_b b (g_evs (s_g s)) k = ribv b (g_rib (s_g s)) k).
  { intro b. destruct (i_key s HI b k) as [H|[[H _]|[_ H]]]; auto.
    - pose proof (shard_lt2 k). lia.
    - exfalso. eapply all_done_no_exempt; eauto. }
  split. apply (HK false). apply (HK true).
Qed.

(* a thread whose program contains Subscribe ends with both shards snapshotted *)
Fixpoint count_walk (l : list mstep) : N :=
  match l with
  | [] => 0
  | MWalk :: t => 1 + count_walk t
  | _ :: t => count_walk t
  end.

Lemma count_walk_app a b : count_walk (a ++ b) = count_walk a + count_walk b.
Proof. induction a as [|m t IH]; cbn [app count_walk]; auto. destruct m; rewrite ?IH; lia. Qed.

Lemma count_walk_flat ops : In Subscribe ops -> 2 <= count_walk (flat_map expand ops).
Proof.
  induction ops as [|o t IH]; cbn [In flat_map]; try tauto.
  intros [->|H]; rewrite count_walk_app.
  - cbn [expand count_walk]. lia.
  - specialize (IH H). lia.
Qed.

Lemma effect_walk c g t m g' : effect c g t m g' ->
  g_walk g' = match m with MWalk => g_walk g + 1 | _ => g_walk g end.
Proof. intro H. destruct m; cbn [effect] in H; intuition. Qed.

Lemma walk_progress c s i j : Inv s ->
  g_walk (s_g s) + count_walk (steps (s_thr s j)) <=
  g_walk (s_g (sys_step c Fixed s i)) + count_walk (steps (s_thr (sys_step c Fixed s i) j)).
Proof.
  intro HI. unfold sys_step.
  destruct (next_step (s_thr s i)) as [[m t1]|] eqn:EN; try lia.
  pose proof (exec_steps c (s_g s) t1 m) as HT.
  pose proof (effect_walk c _ _ _ _ (exec_effect c (s_g s) t1 m (i_dom s HI))) as HW.
  destruct (exec c Fixed (s_g s) t1 m) as [g' t2] eqn:E. cbn [s_g s_thr fst snd] in *.
  unfold upd_thr. destruct (Nat.eqb j i) eqn:EJ.
  - apply Nat.eqb_eq in EJ. subst j.
    destruct (next_step_some _ _ _ (i_cur s HI i) EN) as [HS _]. rewrite HS, HT, HW.
    destruct m; cbn [count_walk]; lia.
  - rewrite HW. destruct m; lia.
Qed.

Lemma run_walk c sched : forall s j, Inv s ->
  g_walk (s_g s) + count_walk (steps (s_thr s j)) <=
  g_walk (s_g (run_sched c Fixed s sched)) + count_walk (steps (s_thr (run_sched c Fixed s sched) j)).
Proof.
  induction sched as [|i t IH]; intros s j HI; cbn [run_sched fold_left]; try lia.
  pose proof (walk_progress c s i j HI) as H1.
  pose proof (IH (sys_step c Fixed s i) j (step_inv c s i HI)) as H2. unfold run_sched in *. lia.
Qed.

Lemma subscribed_walked c progs sched i :
  wf_progs progs -> In Subscribe (nth i progs []) ->
  all_done (run_sched c Fixed (init progs) sched) ->
  2 <= g_walk (s_g (run_sched c Fixed (init progs) sched)).
Proof.
  intros HW HS HD.
  pose proof (run_walk c sched (init progs) i (Inv_init progs HW)) as H.
  rewrite (next_step_none _ (HD i)) in H. cbn [count_walk] in H.
  unfold steps in H at 1. cbn [init s_thr s_g t_cur t_ops app glob0 g_walk] in H.
  pose proof (count_walk_flat _ HS). lia.
Qed.

(* the fold is determined by the last event that concerns the key *)
Lemma apply_concerns b m e k :
  apply_b b m e k = match concerns b k e with Some x => x | None => m k end.
Proof.
  destruct e; cbn [concerns].
  - destruct b; cbn; unfold fupd; auto. destruct (key_eqb k k0) eqn:E.
    + apply key_eqb_eq in E. subst. rewrite key_eqb_refl. auto.
    + rewrite key_eqb_neq; auto. intro; subst. rewrite key_eqb_refl in E. discriminate.
  - destruct b; cbn; unfold fupd; auto. destruct (key_eqb k k0) eqn:E.
    + apply key_eqb_eq in E. subst. rewrite key_eqb_refl. auto.
    + rewrite key_eqb_neq; auto. intro; subst. rewrite key_eqb_refl in E. discriminate.
  - destruct b; reflexivity.
  - rewrite apply_down. destruct (k_peer k =? p); auto.
  - destruct b; reflexivity.
Qed.

Lemma fold_last_touch b k evs :
  fold_b b evs k = match last_touch b k evs with Some x => x | None => None end.
Proof.
  unfold last_touch. induction evs as [|e evs IH] using rev_ind.
  - reflexivity.
  - rewrite rev_app_distr. cbn [rev app last_touch_rev]. rewrite fold_b_app. cbn [fold_left].
    rewrite apply_concerns. destruct (concerns b k e); auto.
Qed.

Theorem C18_last_event_is_current :
  forall (c : cfg) (progs : list (list op)) (sched : list nat),
    wf_progs progs ->
    let s := run_sched c Fixed (init progs) sched in
    all_done s -> 2 <= g_walk (s_g s) ->
    forall k,
      (forall x, last_touch false k (g_evs (s_g s)) = Some x -> rib_pre (s_g s) k = x) /\
      (last_touch false k (g_evs (s_g s)) = None -> rib_pre (s_g s) k = None) /\
      (forall x, last_touch true k (g_evs (s_g s)) = Some x -> rib_post (s_g s) k = x) /\
      (last_touch true k (g_evs (s_g s)) = None -> rib_post (s_g s) k = None).
Proof.
  intros c progs sched HW s HD H2 k.
  destruct (C18_subscriber_fold_eq_rib c progs sched HW HD H2 k) as [H3 H4].
  fold s in H3, H4. rewrite <- fold_b_pre, fold_last_touch in H3. rewrite <- fold_b_post, fold_last_touch in H4.
  repeat split.
  - intros x Hx. rewrite Hx in H3. auto.
  - intro Hx. rewrite Hx in H3. auto.
  - intros x Hx. rewrite Hx in H4. auto.
  - intro Hx. rewrite Hx in H4. auto.
Qed.

(* the statements with "some thread subscribes" instead of "the snapshot is complete" *)
Theorem C18_subscriber_fold_eq_rib_sub :
  forall (c : cfg) (progs : list (list op)) (sched : list nat) (i : nat),
    wf_progs progs -> In Subscribe (nth i progs []) ->
    let s := run_sched c Fixed (init progs) sched in
    all_done s ->
    forall k, fold_pre (g_evs (s_g s)) k = rib_pre (s_g s) k /\
              fold_post (g_evs (s_g s)) k = rib_post (s_g s) k.
Proof.
  intros c progs sched i HW HS s HD. apply C18_subscriber_fold_eq_rib; auto.
  eapply subscribed_walked; eauto.
Qed.

Theorem C18_last_event_is_current_sub :
  forall (c : cfg) (progs : list (list op)) (sched : list nat) (i : nat),
    wf_progs progs -> In Subscribe (nth i progs []) ->
    let s := run_sched c Fixed (init progs) sched in
    all_done s ->
    forall k,
      (forall x, last_touch false k (g_evs (s_g s)) = Some x -> rib_pre (s_g s) k = x) /\
      (last_touch false k (g_evs (s_g s)) = None -> rib_pre (s_g s) k = None) /\
      (forall x, last_touch true k (g_evs (s_g s)) = Some x -> rib_post (s_g s) k = x) /\
      (last_touch true k (g_evs (s_g s)) = None -> rib_post (s_g s) k = None).
Proof.
  intros c progs sched i HW HS s HD. apply C18_last_event_is_current; auto.
  eapply subscribed_walked; eauto.
Qed.

(* track_peer_up / track_peer_down: a PeerDown is forwarded only for a peer whose
   PeerUp was forwarded (or was up when the snapshot ended: [sent]) and not yet taken down *)
Lemma forward_paired evs : forall sent up, (forall q, In q sent -> In q up) -> paired up (forward sent evs).
Proof.
  induction evs as [|e t IH]; intros sent up HS; cbn [forward paired]; auto.
  destruct e; auto.
  - cbn [paired]. apply IH. intros q Hq. destruct (existsb (N.eqb p) sent); cbn in *; auto.
    destruct Hq; auto.
  - destruct (existsb (N.eqb p) sent) eqn:E; auto. cbn [paired]. split.
    + apply existsb_exists in E. destruct E as [x [Hx E]]. apply N.eqb_eq in E. subst. auto.
    + apply IH. intros q Hq. apply filter_In in Hq. apply filter_In. split; try tauto. apply HS. tauto.
Qed.

Theorem C18_peer_down_only_after_up :
  forall (sent : list N) (evs : list ev), paired sent (forward sent evs).
Proof. intros. apply forward_paired. auto. Qed.


(* ================================================================ *)
(* Witnesses against the behaviour before the fix commits (variant Legacy),
   replayed on the unfixed code through the harness (corpus/C18/), and
   non-vacuity examples. *)
Definition K (p sh ix pid : N) : key := {| k_peer := p; k_sh := sh; k_ix := ix; k_pid := pid |}.
Definition ex_cfg : cfg := {| c_pols := [[1; 2]; [3]]; c_lims := [] |}.

(* C18-2: soft_reset_in loaded the subscriber list before the shard loop; the
   subscriber registers and snapshots shard 0 in between *)
Definition ex_progs_reset : list (list op) :=
  [[Subscribe]; [Ins (K 1 0 0 0) 1; Ins (K 1 1 0 0) 2]; [SetPol 1; SoftReset 1]].
Definition ex_sched_reset : list nat := [1; 2; 2; 1; 0; 0; 1; 2; 2; 0; 1]%nat.

Lemma ex_wf_reset : wf_progs ex_progs_reset.
Proof.
  intros i j p o1 o2 Hij H1 H2 O1 O2.
  destruct i as [|[|[|i]]], j as [|[|[|j]]]; cbn in H1, H2; try tauto;
    repeat (destruct H1 as [H1|H1]; [subst o1|]); repeat (destruct H2 as [H2|H2]; [subst o2|]);
    cbn in *; try tauto; try (destruct i; tauto); try (destruct j; tauto).
Qed.

Lemma ex_done_reset v : all_done (run_sched ex_cfg v (init ex_progs_reset) ex_sched_reset).
Proof. intro i. destruct i as [|[|[|[|i]]]]; destruct v; reflexivity. Qed.

Lemma C18_subscriber_fold_eq_rib_legacy_refuted :
  exists (c : cfg) (progs : list (list op)) (sched : list nat) (k : key),
    wf_progs progs /\
    let s := run_sched c Legacy (init progs) sched in
    all_done s /\ 2 <= g_walk (s_g s) /\
    fold_post (g_evs (s_g s)) k <> rib_post (s_g s) k.
Proof.
  exists ex_cfg, ex_progs_reset, ex_sched_reset, (K 1 0 0 0).
  split. apply ex_wf_reset. split. apply ex_done_reset. split.
  - vm_compute. discriminate.
  - vm_compute. discriminate.
Qed.

Example ex_reset_fixed :
  let s := run_sched ex_cfg Fixed (init ex_progs_reset) ex_sched_reset in
  g_walk (s_g s) = 2 /\ fold_post (g_evs (s_g s)) (K 1 0 0 0) = None /\ rib_post (s_g s) (K 1 0 0 0) = None /\
  fold_pre (g_evs (s_g s)) (K 1 0 0 0) = Some 1 /\ rib_pre (s_g s) (K 1 0 0 0) = Some 1.
Proof. vm_compute. auto. Qed.

(* C18-1: an insert refused by the prefix limit had already been announced *)
Definition ex_cfg_lim : cfg := {| c_pols := []; c_lims := [(1, 1)] |}.
Definition ex_progs_lim : list (list op) := [[Subscribe]; [Ins (K 1 0 0 0) 1; Ins (K 1 1 0 0) 2]].
Definition ex_sched_lim : list nat := [0; 0; 0; 1; 1; 1; 1]%nat.

Lemma ex_wf_lim : wf_progs ex_progs_lim.
Proof.
  intros i j p o1 o2 Hij H1 H2 O1 O2.
  destruct i as [|[|i]], j as [|[|j]]; cbn in H1, H2; try tauto;
    repeat (destruct H1 as [H1|H1]; [subst o1|]); repeat (destruct H2 as [H2|H2]; [subst o2|]);
    cbn in *; try tauto; try (destruct i; tauto); try (destruct j; tauto).
Qed.

Lemma C18_subscriber_fold_eq_rib_legacy_limit_refuted :
  exists (c : cfg) (progs : list (list op)) (sched : list nat) (k : key),
    wf_progs progs /\
    let s := run_sched c Legacy (init progs) sched in
    all_done s /\ 2 <= g_walk (s_g s) /\
    fold_pre (g_evs (s_g s)) k <> rib_pre (s_g s) k.
Proof.
  exists ex_cfg_lim, ex_progs_lim, ex_sched_lim, (K 1 1 0 0).
  split. apply ex_wf_lim. split.
  - intro i. destruct i as [|[|[|i]]]; reflexivity.
  - split; vm_compute; discriminate.
Qed.

Example ex_lim_fixed :
  let s := run_sched ex_cfg_lim Fixed (init ex_progs_lim) ex_sched_lim in
  fold_pre (g_evs (s_g s)) (K 1 1 0 0) = None /\ rib_pre (s_g s) (K 1 1 0 0) = None /\
  last_touch false (K 1 1 0 0) (g_evs (s_g s)) = Some None.
Proof. vm_compute. auto. Qed.

(* a non-trivial run satisfying the hypotheses of the theorems: two sessions, a
   session going down, live events after the snapshot *)
Definition ex_progs_busy : list (list op) :=
  [[Subscribe]; [Up 1; Ins (K 1 0 0 0) 1; Ins (K 1 1 1 0) 2; Rem (K 1 0 0 0); Down 1];
   [Ins (K 2 1 0 1) 3; SetPol 2; SoftReset 2; Ins (K 2 0 0 0) 0]].
Definition ex_sched_busy : list nat :=
  [1; 2; 2; 1; 1; 0; 2; 1; 0; 1; 2; 2; 1; 0; 1; 2; 2; 2; 1; 1; 1; 1; 2]%nat.

Example ex_busy :
  let s := run_sched ex_cfg Fixed (init ex_progs_busy) ex_sched_busy in
  g_walk (s_g s) = 2 /\ rib_pre (s_g s) (K 2 0 0 0) = Some 0 /\ rib_pre (s_g s) (K 1 1 1 0) = None /\
  length (g_evs (s_g s)) = 15%nat /\
  (* the PeerUp preceded the registration: the PeerDown is delivered but not forwarded *)
  In (EvDown 1) (g_evs (s_g s)) /\ forward [] (g_evs (s_g s)) = [].
Proof. vm_compute. intuition. Qed.

Example ex_paired_nontrivial : paired [] [EvUp 1; EvDown 1; EvUp 2] /\ ~ paired [] [EvDown 1].
Proof. split. cbn. auto. cbn. tauto. Qed.
