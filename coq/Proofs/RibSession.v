(* Property C15, the repaired caller discipline of the prefix-limit counter:
   for every history in which a session's counter is created by a
   synchronisation with the RIB and used as Spec/RibSpec.v [session_disciplined]
   says, the counter equals the number of prefixes for which the peer's address
   holds a path (stale ones included), and stays within the maximum. *)
From Coq Require Import List NArith ZArith Bool Lia Sorting.Permutation Sorting.Sorted.
From RB Require Import Base.Val Model.Rib Model.RibSession Spec.BestPath Spec.RibSpec
     Proofs.RibOrder Proofs.RibInv Proofs.RibAux Proofs.RibInv2 Proofs.RibC02 Proofs.RibC15 Proofs.RibC15L.
Import ListNotations.
Open Scope N_scope.

(* ---- the invariants of Model/Rib.v survive a synchronisation *)

Lemma invE_set_ctr t c v : invE t -> invE (set_ctr t c v).
Proof. intros [H1 H2]. split; assumption. Qed.

Lemma invS_set_ctr t c v : invS t -> invS (set_ctr t c v).
Proof. intros [H1 H2]. split; assumption. Qed.

Lemma invE_sstep t o : invE t -> invE (fst (fst (sstep t o))).
Proof. destruct o as [o|c a]; cbn [sstep fst]; [apply invE_step|apply invE_set_ctr]. Qed.

Lemma invS_sstep t o : invE t -> invS t -> invS (fst (fst (sstep t o))).
Proof. destruct o as [o|c a]; cbn [sstep fst]; [apply invS_step|intros _; apply invS_set_ctr]. Qed.

Lemma invE_srun t ops : invE t -> invE (srun t ops).
Proof. revert t. induction ops as [|o r IH]; intros t H; cbn; [exact H|]. apply IH, invE_sstep, H. Qed.

Lemma invS_srun t ops : invE t -> invS t -> invS (srun t ops).
Proof.
  revert t. induction ops as [|o r IH]; intros t He H; cbn; [exact H|].
  apply IH; [apply invE_sstep, He|apply invS_sstep; assumption].
Qed.

Lemma srun_app t l1 l2 : srun t (l1 ++ l2) = srun (srun t l1) l2.
Proof. unfold srun. apply fold_left_app. Qed.

(* ---- what each operation does to one counter and to one peer's statistics *)

Definition rcv (t : table) (a : N) : N := fst (stats_of t a).

Lemma ctr_of_ctrl t c : ctr_of t c = ctrl (t_ctrs t) c.
Proof. reflexivity. Qed.

Lemma rcv_cr t a : invS t -> rcv t a = cr a t.
Proof. intros [H _]. unfold rcv. rewrite (H a). reflexivity. Qed.

Lemma stats_of_aset_other t t' k v a :
  t_stats t' = aset k v (t_stats t) -> a <> k -> stats_of t' a = stats_of t a.
Proof.
  intros E Hn. unfold stats_of. rewrite E, alookup_aset.
  apply N.eqb_neq in Hn. rewrite Hn. reflexivity.
Qed.

Lemma stats_of_aset_same t t' k v :
  t_stats t' = aset k v (t_stats t) -> stats_of t' k = v.
Proof. intros E. unfold stats_of. rewrite E, alookup_aset, N.eqb_refl. reflexivity. Qed.

Lemma is_new_no_replaced s rpid d0 :
  ins_is_new s rpid d0 = true -> find (same_key s rpid) (d_entries d0) = None.
Proof. unfold ins_is_new. destruct (find (same_key s rpid) (d_entries d0)); [discriminate|reflexivity]. Qed.

Section Session.
Variables (a c mx : N).
Hypothesis Hmx : mx < 4294967296.

(* the counter equals the peer's received count unless a purge is pending *)
Definition J (t : table) (pending : bool) : Prop := pending = false -> ctr_of t c = rcv t a.
Definition B (t : table) : Prop := rcv t a <= mx.

(* insert *)
Lemma J_insert_mine t s net rpid nh at' filt nhinv :
  invS t -> s_addr s = a -> J t false ->
  let t' := fst (insert t s net rpid nh at' filt nhinv (Some (mx, c))) in
  J t' false /\ (B t -> B t').
Proof.
  intros HS Ha HJ. specialize (HJ eq_refl). cbv zeta. unfold insert. cbv zeta.
  set (d0 := fst (ins_lookup t net)).
  destruct (ins_over t (Some (mx, c)) (ins_is_new s rpid d0)) eqn:Hover; cbn [fst]; [split; [intros _; exact HJ|tauto]|].
  destruct (ins_pid _ _ _) as [pn|]; cbn [fst]; [|split; [intros _; exact HJ|tauto]].
  unfold J, B, rcv, ctr_of. cbn [t_ctrs t_stats].
  match goal with |- context [aset (s_addr s) ?v (t_stats t)] => set (st := v) end.
  assert (Hst : stats_of {| t_deferring := t_deferring t; t_dests := t_dests t; t_used := t_used t;
                            t_stats := aset (s_addr s) st (t_stats t); t_flags := t_flags t; t_ctrs := t_ctrs t;
                            t_shard := t_shard t; t_bad := t_bad t |} a = st).
  { rewrite Ha. unfold stats_of. cbn [t_stats]. rewrite alookup_aset, N.eqb_refl. reflexivity. }
  unfold stats_of in Hst |- *. cbn [t_stats] in Hst |- *. rewrite Hst.
  unfold st, ins_stats, ins_ctrs. rewrite Ha. fold (rcv t a). cbn [fst snd].
  unfold ins_over in Hover.
  destruct (ins_is_new s rpid d0) eqn:Hnew.
  - rewrite (is_new_no_replaced _ _ _ Hnew). cbn [andb] in Hover. apply N.leb_gt in Hover.
    fold (ctrl (aset c (wrap_inc (ctr_of t c)) (t_ctrs t)) c). rewrite ctrl_aset, N.eqb_refl.
    unfold wrap_inc, u64. rewrite N.mod_small by lia. cbn [fst].
    destruct filt; cbn [fst]; (split; [intros _; lia|intros _; lia]).
  - fold (ctrl (t_ctrs t) c). rewrite <- ctr_of_ctrl.
    destruct (find (same_key s rpid) (d_entries d0)) as [old|].
    + destruct (e_filtered old), filt; cbn [fst]; (split; [intros _; exact HJ|unfold B, rcv; tauto]).
    + destruct filt; cbn [fst]; (split; [intros _; exact HJ|unfold B, rcv; tauto]).
Qed.

Lemma J_insert_other t s net rpid nh at' filt nhinv lim p :
  s_addr s <> a -> lim_uses lim c = false -> J t p ->
  let t' := fst (insert t s net rpid nh at' filt nhinv lim) in
  J t' p /\ (B t -> B t').
Proof.
  intros Ha Hl HJ. cbv zeta. unfold insert. cbv zeta.
  destruct (ins_over t lim _); cbn [fst]; [split; [exact HJ|tauto]|].
  destruct (ins_pid _ _ _) as [pn|]; cbn [fst]; [|split; [exact HJ|tauto]].
  match goal with |- J ?t1 p /\ _ => set (t' := t1) end.
  assert (Es : stats_of t' a = stats_of t a).
  { unfold t'. eapply stats_of_aset_other; [reflexivity|]. congruence. }
  assert (Ec : ctr_of t' c = ctr_of t c).
  { unfold t', ctr_of. cbn [t_ctrs]. unfold ins_ctrs. destruct lim as [[m c']|]; [|reflexivity].
    cbn [lim_uses] in Hl. destruct (ins_is_new _ _ _); [|reflexivity].
    fold (ctrl (aset c' (wrap_inc (ctr_of t c')) (t_ctrs t)) c). rewrite ctrl_aset.
    rewrite N.eqb_sym, Hl. reflexivity. }
  unfold J, B, rcv. rewrite Es, Ec. split; [exact HJ|tauto].
Qed.

(* remove *)
Lemma J_remove_mine t s net rpid :
  invE t -> invS t -> s_addr s = a -> J t false ->
  let t' := fst (remove t s net rpid (Some c)) in
  J t' false /\ (B t -> B t').
Proof.
  intros [Hk Hok] HS Ha HJ. specialize (HJ eq_refl). cbv zeta. unfold remove.
  destruct (alookup net (t_dests t)) as [d|] eqn:Hd; cbn [fst]; [|split; [intros _; exact HJ|tauto]].
  destruct (find (same_key s rpid) (d_entries d)) as [removed|] eqn:Ef; cbn [fst]; [|split; [intros _; exact HJ|tauto]].
  cbv zeta.
  set (rest := remove_first (same_key s rpid) (d_entries d)).
  set (still := existsb (from_addr (s_addr s)) rest).
  (* the peer has a path here, so its received count is positive *)
  assert (Hpos : 1 <= rcv t a).
  { rewrite (rcv_cr t a HS). apply find_some in Ef as [Hin Hkey].
    pose proof (same_key_from _ _ _ Hkey) as Hf. rewrite Ha in Hf.
    assert (H1 : hr a d = 1) by (apply (hrl_one_in a _ removed Hin Hf)).
    rewrite <- H1. apply (sumd_ge_in (hr a) _ net d (alookup_in _ _ _ Hd)). }
  assert (Hfin : forall t', t_ctrs t' = rem_ctrs t (Some c) still ->
                            t_stats t' = aset (s_addr s) (fst (rem_stats (stats_of t (s_addr s)) still (negb (e_filtered removed)))) (t_stats t) ->
                            J t' false /\ (B t -> B t')).
  { intros t' Ec Es. unfold J, B, rcv, ctr_of. rewrite Ec.
    rewrite Ha in Es. rewrite (stats_of_aset_same t t' a _ Es).
    unfold rem_stats, rem_ctrs. cbn [fst snd]. fold (rcv t a).
    destruct still.
    - fold (ctrl (t_ctrs t) c). rewrite <- ctr_of_ctrl. cbn [fst]. split; [intros _; exact HJ|unfold B; tauto].
    - fold (ctrl (aset c (wrap_dec (ctr_of t c)) (t_ctrs t)) c). rewrite ctrl_aset, N.eqb_refl.
      rewrite dec_stat_pos by exact Hpos. cbn [fst]. unfold wrap_dec.
      destruct (ctr_of t c =? 0) eqn:Ez; [apply N.eqb_eq in Ez; lia|].
      split; [intros _; lia|unfold B; lia]. }
  fold rest still. destruct rest as [|y ys]; cbn [fst]; apply Hfin; reflexivity.
Qed.

Lemma J_remove_other t s net rpid ctr p :
  s_addr s <> a -> ctr_is ctr c = false -> J t p ->
  let t' := fst (remove t s net rpid ctr) in
  J t' p /\ (B t -> B t').
Proof.
  intros Ha Hl HJ. cbv zeta. unfold remove.
  destruct (alookup net (t_dests t)) as [d|]; cbn [fst]; [|split; [exact HJ|tauto]].
  destruct (find (same_key s rpid) (d_entries d)) as [removed|]; cbn [fst]; [|split; [exact HJ|tauto]].
  cbv zeta.
  set (rest := remove_first (same_key s rpid) (d_entries d)).
  set (still := existsb (from_addr (s_addr s)) rest).
  assert (Hfin : forall t' v, t_ctrs t' = rem_ctrs t ctr still -> t_stats t' = aset (s_addr s) v (t_stats t) ->
                              J t' p /\ (B t -> B t')).
  { intros t' v Ec Es.
    assert (E1 : stats_of t' a = stats_of t a) by (apply (stats_of_aset_other t t' _ _ a Es); congruence).
    assert (E2 : ctr_of t' c = ctr_of t c).
    { unfold ctr_of. rewrite Ec. unfold rem_ctrs. destruct ctr as [c'|]; [|reflexivity]. cbn [ctr_is] in Hl.
      destruct still; [reflexivity|]. fold (ctrl (aset c' (wrap_dec (ctr_of t c')) (t_ctrs t)) c).
      rewrite ctrl_aset, N.eqb_sym, Hl. reflexivity. }
    unfold J, B, rcv. rewrite E1, E2. split; [exact HJ|tauto]. }
  fold rest still. destruct rest as [|y ys]; cbn [fst]; eapply Hfin; reflexivity.
Qed.

(* purges *)
Lemma cdec_addr t k addr ds :
  N.of_nat (cdec_of t k addr ds) + sumN (fun nd => gopt (hr addr) (dg t k addr (fst nd) (snd nd))) ds
  = sumd (hr addr) ds.
Proof.
  unfold cdec_of. induction ds as [|[n d] r IH]; [reflexivity|].
  unfold sumd in *. cbn [map filter sumN fst snd].
  destruct (dpart_cases t k addr n d) as [(_ & Eg & Ep)|(Hex & Ep & Eg)]; cbv zeta in *; rewrite Ep; cbn [fst snd].
  - rewrite Eg. cbn [gopt]. lia.
  - set (sel := drop_sel (t_flags t) k addr) in *.
    set (rest := filter (fun e => negb (sel e)) (d_entries d)) in *.
    assert (Hd1 : hr addr d = 1).
    { apply existsb_exists in Hex as (x & Hx & Sx). apply (hrl_one_in addr _ x Hx), (drop_sel_from _ _ _ _ Sx). }
    rewrite (Eg (hr addr) eq_refl), Hd1. unfold hr at 1, hrl. cbn [d_entries with_entries].
    destruct (filter sel (d_entries d)) as [|g0 gs] eqn:Eg0.
    + exfalso. apply existsb_exists in Hex as (x & Hx & Sx).
      assert (Hxx : In x (filter sel (d_entries d))) by (apply filter_In; split; assumption). rewrite Eg0 in Hxx. destruct Hxx.
    + destruct (existsb (from_addr addr) rest); cbn [negb length]; lia.
Qed.

Lemma cr_drop t k addr ctr x :
  cr x (fst (drop_op t k addr ctr)) = sumN (fun nd => gopt (hr x) (dg t k addr (fst nd) (snd nd))) (t_dests t).
Proof. destruct (drop_op_dests t k addr ctr) as [Ed _]. unfold cr. rewrite Ed. apply sumd_fm. Qed.

Lemma cr_drop_le t k addr ctr x : cr x (fst (drop_op t k addr ctr)) <= cr x t.
Proof.
  rewrite cr_drop. unfold cr, sumd. apply sumN_le. intros [n d] _. cbn [fst snd]. apply dg_le.
Qed.

Lemma J_drop_mine_counted t k :
  invS t -> k <> DKAll -> J t false ->
  let t' := fst (drop_op t k a (Some c)) in
  J t' false /\ (B t -> B t').
Proof.
  intros HS Hk HJ. specialize (HJ eq_refl). cbv zeta.
  pose proof (invS_drop t k a (Some c) HS) as HS'.
  pose proof (cdec_addr t k a (t_dests t)) as Hc. rewrite <- (cr_drop t k a (Some c) a) in Hc. fold (cr a t) in Hc.
  unfold J, B. rewrite (rcv_cr _ a HS'). rewrite (rcv_cr t a HS) in *.
  unfold ctr_of. rewrite drop_op_ctrs.
  assert (E : match k with DKAll => t_ctrs t | _ => aset c (iter_n (cdec_of t k a (t_dests t)) wrap_dec (ctr_of t c)) (t_ctrs t) end
              = aset c (iter_n (cdec_of t k a (t_dests t)) wrap_dec (ctr_of t c)) (t_ctrs t))
    by (destruct k; [contradiction| | |]; reflexivity).
  replace (match k with
           | DKAll => t_ctrs t
           | _ => aset c (iter_n (cdec_of t k a (t_dests t)) wrap_dec (ctr_of t c)) (t_ctrs t)
           end) with (aset c (iter_n (cdec_of t k a (t_dests t)) wrap_dec (ctr_of t c)) (t_ctrs t)).
  fold (ctrl (aset c (iter_n (cdec_of t k a (t_dests t)) wrap_dec (ctr_of t c)) (t_ctrs t)) c).
  rewrite ctrl_aset, N.eqb_refl, iter_wrap_dec by lia. split; [intros _; lia|lia].
Qed.

Lemma J_drop_mine_uncounted t k :
  invS t -> k <> DKAll -> J (fst (drop_op t k a None)) true /\ (B t -> B (fst (drop_op t k a None))).
Proof.
  intros HS Hk. split; [intro H; discriminate H|].
  unfold B. rewrite (rcv_cr _ a (invS_drop t k a None HS)), (rcv_cr t a HS).
  pose proof (cr_drop_le t k a None a). lia.
Qed.

Lemma J_drop_other t k addr ctr p :
  addr <> a -> ctr_is ctr c = false -> J t p ->
  let t' := fst (drop_op t k addr ctr) in
  J t' p /\ (B t -> B t').
Proof.
  intros Ha Hl HJ. cbv zeta.
  destruct (drop_op_stats t k addr ctr) as [Es _]. cbv zeta in Es.
  assert (E1 : stats_of (fst (drop_op t k addr ctr)) a = stats_of t a).
  { unfold stats_of. rewrite Es. assert (Hne : (a =? addr) = false) by (apply N.eqb_neq; congruence).
    destruct k; try (rewrite alookup_aremove, Hne; reflexivity);
      (destruct (alookup addr (t_stats t)); [rewrite alookup_aset, Hne|]; reflexivity). }
  assert (E2 : ctr_of (fst (drop_op t k addr ctr)) c = ctr_of t c).
  { unfold ctr_of. rewrite drop_op_ctrs. destruct ctr as [c'|]; [|destruct k; reflexivity]. cbn [ctr_is] in Hl.
    destruct k; try reflexivity;
      (match goal with |- context [aset c' ?v (t_ctrs t)] => fold (ctrl (aset c' v (t_ctrs t)) c) end;
       rewrite ctrl_aset, N.eqb_sym, Hl; reflexivity). }
  unfold J, B, rcv. rewrite E1, E2. split; [exact HJ|tauto].
Qed.

(* operations that neither touch the counters nor the statistics *)
Lemma J_same t t' p : t_ctrs t' = t_ctrs t -> t_stats t' = t_stats t -> J t p -> J t' p /\ (B t -> B t').
Proof.
  intros Ec Es HJ. unfold J, B, rcv, ctr_of, stats_of. rewrite Ec, Es. split; [exact HJ|tauto].
Qed.

Lemma head_step t o p p' :
  invE t -> invS t -> disc_head a c mx p o = Some p' -> J t p ->
  J (fst (fst (sstep t o))) p' /\ (B t -> B (fst (fst (sstep t o)))).
Proof.
  intros He HS Hh HJ. destruct o as [o|c' a']; cbn [sstep disc_head] in *.
  2:{ cbn [fst]. destruct (c' =? c) eqn:Ec.
      - destruct (a' =? a) eqn:Ea; [|discriminate]. injection Hh as <-. apply N.eqb_eq in Ec, Ea. subst c' a'.
        split; [|unfold B, rcv; tauto]. intros _. unfold ctr_of, set_ctr. cbn [t_ctrs].
        fold (ctrl (aset c (fst (stats_of t a)) (t_ctrs t)) c). rewrite ctrl_aset, N.eqb_refl. reflexivity.
      - injection Hh as <-. split; [|unfold B, rcv; tauto]. intro Hp. specialize (HJ Hp).
        unfold ctr_of, set_ctr. cbn [t_ctrs]. fold (ctrl (aset c' (fst (stats_of t a')) (t_ctrs t)) c).
        rewrite ctrl_aset, N.eqb_sym, Ec. exact HJ. }
  destruct o as [s net rpid nh at' filt nhinv lim|s net rpid ctr|k addr ctr|llgr addr|nh r| |]; cbn [step].
  - destruct (s_addr s =? a) eqn:Ea.
    + apply N.eqb_eq in Ea. destruct (negb p && lim_is lim mx c) eqn:Hc; [|discriminate]. injection Hh as <-.
      apply andb_true_iff in Hc as [Hp Hl]. apply negb_true_iff in Hp. subst p.
      destruct lim as [[m c'']|]; [|discriminate]. cbn [lim_is] in Hl. apply andb_true_iff in Hl as [Hm Hcc].
      apply N.eqb_eq in Hm, Hcc. subst m c''.
      pose proof (J_insert_mine t s net rpid nh at' filt nhinv HS Ea HJ) as H. cbv zeta in H.
      destruct (insert t s net rpid nh at' filt nhinv (Some (mx, c))) as [t' [| |c0]]; exact H.
    + apply N.eqb_neq in Ea. destruct (lim_uses lim c) eqn:Hl; [discriminate|]. injection Hh as <-.
      pose proof (J_insert_other t s net rpid nh at' filt nhinv lim p Ea Hl HJ) as H. cbv zeta in H.
      destruct (insert t s net rpid nh at' filt nhinv lim) as [t' [| |c0]]; exact H.
  - destruct (s_addr s =? a) eqn:Ea.
    + apply N.eqb_eq in Ea. destruct (negb p && ctr_is ctr c) eqn:Hc; [|discriminate]. injection Hh as <-.
      apply andb_true_iff in Hc as [Hp Hl]. apply negb_true_iff in Hp. subst p.
      destruct ctr as [c''|]; [|discriminate]. cbn [ctr_is] in Hl. apply N.eqb_eq in Hl. subst c''.
      pose proof (J_remove_mine t s net rpid He HS Ea HJ) as H. cbv zeta in H.
      destruct (remove t s net rpid (Some c)) as [t' [c0|]]; exact H.
    + apply N.eqb_neq in Ea. destruct (ctr_is ctr c) eqn:Hl; [discriminate|]. injection Hh as <-.
      pose proof (J_remove_other t s net rpid ctr p Ea Hl HJ) as H. cbv zeta in H.
      destruct (remove t s net rpid ctr) as [t' [c0|]]; exact H.
  - assert (Hgen : forall p1, J (fst (drop_op t k addr ctr)) p1 /\ (B t -> B (fst (drop_op t k addr ctr))) ->
                              J (fst (fst (let '(t', cs) := drop_op t k addr ctr in (t', quiet t cs, false)))) p1
                              /\ (B t -> B (fst (fst (let '(t', cs) := drop_op t k addr ctr in (t', quiet t cs, false)))))).
    { intros p1 H. destruct (drop_op t k addr ctr) as [t' cs]. exact H. }
    destruct (match k with DKAll => true | _ => false end) eqn:Ek.
    + destruct k; try discriminate. destruct (addr =? a) eqn:Ea; [discriminate|]. injection Hh as <-.
      apply N.eqb_neq in Ea. apply Hgen.
      destruct ctr as [c''|].
      * (* Table::drop ignores the counter *)
        pose proof (J_drop_other t DKAll addr None p Ea eq_refl HJ) as H. cbv zeta in H.
        assert (E : fst (drop_op t DKAll addr (Some c'')) = fst (drop_op t DKAll addr None)).
        { unfold drop_op. cbv zeta. destruct (stats_of t addr). destruct (fold_left _ _ _) as [[? ?] ?]. reflexivity. }
        rewrite E. exact H.
      * apply (J_drop_other t DKAll addr None p Ea eq_refl HJ).
    + assert (Hk : k <> DKAll) by (intros ->; discriminate).
      assert (Hh' : (if addr =? a
                     then match ctr with
                          | Some c' => if (c' =? c) && negb p then Some false else None
                          | None => Some true
                          end
                     else if ctr_is ctr c then None else Some p) = Some p') by (destruct k; [discriminate| | |]; exact Hh).
      clear Hh. destruct (addr =? a) eqn:Ea.
      * apply N.eqb_eq in Ea. subst addr. destruct ctr as [c''|].
        -- destruct ((c'' =? c) && negb p) eqn:Hc; [|discriminate]. injection Hh' as <-.
           apply andb_true_iff in Hc as [Hcc Hp]. apply N.eqb_eq in Hcc. apply negb_true_iff in Hp. subst c'' p.
           apply Hgen, (J_drop_mine_counted t k HS Hk HJ).
        -- injection Hh' as <-. apply Hgen, (J_drop_mine_uncounted t k HS Hk).
      * apply N.eqb_neq in Ea. destruct (ctr_is ctr c) eqn:Hl; [discriminate|]. injection Hh' as <-.
        apply Hgen, (J_drop_other t k addr ctr p Ea Hl HJ).
  - injection Hh as <-. destruct (restale_op t llgr addr) as [t' cs] eqn:E. cbn [fst].
    assert (E1 : t' = fst (restale_op t llgr addr)) by (rewrite E; reflexivity). subst t'.
    apply J_same; [reflexivity|reflexivity|exact HJ].
  - injection Hh as <-. destruct (nhv_op t nh r) as [t' cs] eqn:E. cbn [fst].
    assert (E1 : t' = fst (nhv_op t nh r)) by (rewrite E; reflexivity). subst t'.
    apply J_same; [reflexivity|reflexivity|exact HJ].
  - injection Hh as <-. cbn [fst]. apply J_same; [reflexivity|reflexivity|exact HJ].
  - injection Hh as <-. cbn [fst]. apply J_same; [reflexivity|reflexivity|exact HJ].
Qed.

Lemma disciplined_run ops : forall t p,
  invE t -> invS t -> session_disciplined a c mx p ops = true -> J t p ->
  J (srun t ops) false /\ (B t -> B (srun t ops)).
Proof.
  induction ops as [|o r IH]; intros t p He HS Hd HJ; cbn [session_disciplined srun fold_left] in *.
  - apply negb_true_iff in Hd. subst p. split; [exact HJ|tauto].
  - destruct (disc_head a c mx p o) as [p'|] eqn:Hh; [|discriminate].
    destruct (head_step t o p p' He HS Hh HJ) as [HJ' HB'].
    destruct (IH _ p' (invE_sstep t o He) (invS_sstep t o He HS) Hd HJ') as [H1 H2].
    split; [exact H1|]. intro Hb. apply H2, HB', Hb.
Qed.

End Session.

Lemma cr_le_len a t : cr a t <= N.of_nat (length (t_dests t)).
Proof.
  unfold cr, sumd. induction (t_dests t) as [|nd l IH]; [cbn; lia|].
  cbn [sumN length]. rewrite Nat2N.inj_succ. pose proof (hrl_le_one a (d_entries (snd nd))) as H.
  unfold hr in *. lia.
Qed.

(* ----------------------------------------------------------- final statements *)

(* From its creation by a synchronisation onwards, through every disciplined
   continuation and whatever happened before, a session's prefix-limit counter
   equals the number of prefixes for which its peer's address holds at least one
   path in the RIB (retained stale paths included): in particular it never
   underflows. *)
Lemma C15_limit_counter_eq_recount :
  forall shard pre ops a c mx,
    mx < 4294967296 ->
    session_disciplined a c mx false ops = true ->
    let t := srun (empty_table shard) (pre ++ Sync c a :: ops) in
    ctr_of t c = recv_recount t a /\ ctr_of t c <= N.of_nat (length (t_dests t)).
Proof.
  intros shard pre ops a c mx Hmx Hd t.
  set (t0 := srun (empty_table shard) pre).
  assert (He0 : invE t0) by (apply invE_srun, invE_empty).
  assert (HS0 : invS t0) by (apply invS_srun; [apply invE_empty|apply invS_empty]).
  assert (Et : t = srun (fst (fst (sstep t0 (Sync c a)))) ops).
  { unfold t. rewrite srun_app. reflexivity. }
  set (t1 := fst (fst (sstep t0 (Sync c a)))) in *.
  assert (HJ1 : J a c t1 false).
  { intros _. unfold t1. cbn [sstep fst]. unfold ctr_of, set_ctr. cbn [t_ctrs].
    fold (ctrl (aset c (fst (stats_of t0 a)) (t_ctrs t0)) c). rewrite ctrl_aset, N.eqb_refl. reflexivity. }
  destruct (disciplined_run a c mx Hmx ops t1 false (invE_sstep t0 _ He0) (invS_sstep t0 _ He0 HS0) Hd HJ1) as [HJ _].
  rewrite <- Et in HJ. specialize (HJ eq_refl).
  assert (HSt : invS t) by (rewrite Et; apply invS_srun; [apply (invE_sstep t0 _ He0)|apply (invS_sstep t0 _ He0 HS0)]).
  rewrite HJ, (rcv_cr t a HSt), recv_recount_cr. split; [reflexivity|].
  apply cr_le_len.
Qed.

(* ... and if the peer held no more than the maximum when the session was created,
   it never holds more: a new prefix beyond the maximum is refused *)
Lemma C15_limit_respected :
  forall shard pre ops a c mx,
    mx < 4294967296 ->
    session_disciplined a c mx false ops = true ->
    recv_recount (srun (empty_table shard) pre) a <= mx ->
    recv_recount (srun (empty_table shard) (pre ++ Sync c a :: ops)) a <= mx.
Proof.
  intros shard pre ops a c mx Hmx Hd H0.
  set (t0 := srun (empty_table shard) pre) in *.
  assert (He0 : invE t0) by (apply invE_srun, invE_empty).
  assert (HS0 : invS t0) by (apply invS_srun; [apply invE_empty|apply invS_empty]).
  rewrite srun_app. fold t0. cbn [srun fold_left]. fold (srun (fst (fst (sstep t0 (Sync c a)))) ops).
  set (t1 := fst (fst (sstep t0 (Sync c a)))).
  assert (HJ1 : J a c t1 false).
  { intros _. unfold t1. cbn [sstep fst]. unfold ctr_of, set_ctr. cbn [t_ctrs].
    fold (ctrl (aset c (fst (stats_of t0 a)) (t_ctrs t0)) c). rewrite ctrl_aset, N.eqb_refl. reflexivity. }
  destruct (disciplined_run a c mx Hmx ops t1 false (invE_sstep t0 _ He0) (invS_sstep t0 _ He0 HS0) Hd HJ1) as [_ HB].
  assert (HSt : invS (srun t1 ops)) by (apply invS_srun; [apply (invE_sstep t0 _ He0)|apply (invS_sstep t0 _ He0 HS0)]).
  rewrite recv_recount_cr, <- (rcv_cr _ a HSt). apply HB.
  unfold B. unfold t1. cbn [sstep fst]. change (rcv (set_ctr t0 c (fst (stats_of t0 a))) a) with (rcv t0 a).
  rewrite (rcv_cr t0 a HS0), <- recv_recount_cr. exact H0.
Qed.

(* the pre-repair discipline (a new session starts at 0, the End-of-RIB purge
   carries no counter and nothing follows it) is refuted by the same history as
   before; under the repaired discipline that history keeps the counter exact *)
Definition kf_sops_old : list sop := map Tbl kf_ops.
Definition kf_sops_new : list sop :=
  [ Tbl (Insert (ex_src 1 1 9 0) 1 0 (Some 1) kf_attr false false (Some (5, 1)));
    Tbl (Restale false 1);
    Sync 11 1;
    Tbl (Insert (ex_src 11 1 9 0) 1 0 (Some 1) kf_attr false false (Some (5, 11)));
    Tbl (Drop DKStale 1 None);
    Sync 11 1;
    Tbl (Remove (ex_src 11 1 9 0) 1 0 (Some 11)) ].

Lemma C15_old_discipline_refuted :
  ctr_of (srun (empty_table 0) kf_sops_old) 11 = 18446744073709551615
  /\ recv_recount (srun (empty_table 0) kf_sops_old) 1 = 0
  /\ session_disciplined 1 11 5 false (skipn 3 kf_sops_new) = true
  /\ ctr_of (srun (empty_table 0) kf_sops_new) 11 = 0
  /\ ctr_of (srun (empty_table 0) (firstn 4 kf_sops_new)) 11 = 1.
Proof. vm_compute. repeat split. Qed.
