(* C19, BMP half: the encoder of Model/Bmp.v read back by the RFC 7854 reader of
   Spec/BmpRead.v. *)
From Coq Require Import List NArith Bool Arith Lia ZifyBool ZifyNat ZifyN.
From RB Require Import Base.Val Base.BytesBuf Model.Bmp Spec.BmpRead.
Import ListNotations.
Open Scope N_scope.

(* ------------------------------------------------------------ closed form *)

(* one BMP message on the wire: (message type, bytes after the common header) *)
Definition enc_one (w : N * bytes) : bytes :=
  [VERSION] ++ be 4 (N.of_nat (6 + length (snd w))) ++ be 1 (fst w) ++ snd w.

(* the messages one call of BmpCodec::encode appends *)
Definition wire_msgs (m : bmp_msg) : list (N * bytes) :=
  match m with
  | RouteMonitoring h blob =>
      map (fun p => (msg_code m, pph_encode h ++ p)) (split_pdus (length blob) blob)
  | _ => [(msg_code m, body_encode m)]
  end.

Lemma enc_one_length : forall w, length (enc_one w) = (6 + length (snd w))%nat.
Proof. intro w. unfold enc_one. rewrite !app_length, !be_length. cbn [length]. lia. Qed.

(* begin ... body ... finish: the back-patched buffer is the old buffer followed
   by a header that carries the final length *)
Lemma finish_begin : forall pre code body,
  finish (begin pre code ++ body) (length pre) = pre ++ enc_one (code, body).
Proof.
  intros pre code body. unfold finish, begin, enc_one. cbn [fst snd].
  replace ((pre ++ [VERSION] ++ be 4 0 ++ be 1 code) ++ body)
    with ((pre ++ [VERSION]) ++ be 4 0 ++ (be 1 code ++ body))
    by (rewrite <- !app_assoc; reflexivity).
  replace (length pre + 1)%nat with (length (pre ++ [VERSION])) by (rewrite app_length; reflexivity).
  rewrite patch_mid by (rewrite !be_length; reflexivity).
  rewrite <- !app_assoc. do 2 f_equal. f_equal. f_equal.
  rewrite !app_length, !be_length. cbn [length]. lia.
Qed.

Lemma rm_loop_closed : forall h code pdus pre, pdus <> [] ->
  finish (fst (rm_loop h code (begin pre code) (length pre) pdus))
         (snd (rm_loop h code (begin pre code) (length pre) pdus))
  = pre ++ concat (map (fun p => enc_one (code, pph_encode h ++ p)) pdus).
Proof.
  intros h code pdus. induction pdus as [|p pdus IH]; intros pre Hne; [congruence|].
  destruct pdus as [|q pdus].
  - cbn [rm_loop fst snd map concat]. rewrite finish_begin, app_nil_r. reflexivity.
  - change (rm_loop h code (begin pre code) (length pre) (p :: q :: pdus))
      with (let c1 := finish (begin pre code ++ pph_encode h ++ p) (length pre) in
            rm_loop h code (begin c1 code) (length c1) (q :: pdus)).
    cbv zeta. rewrite finish_begin.
    rewrite IH by discriminate.
    cbn [map concat]. rewrite <- app_assoc. reflexivity.
Qed.

Lemma split_pdus_nonempty : forall fuel b, split_pdus fuel b <> [].
Proof. intros fuel b. destruct fuel; cbn [split_pdus]; destruct (skipn (pdu_len b) b); discriminate. Qed.

Lemma bmp_encode_closed : forall c m, bmp_encode c m = c ++ concat (map enc_one (wire_msgs m)).
Proof.
  intros c m. unfold bmp_encode.
  destruct m as [h blob| |h r|h la lp rp lo ro|tlvs| |];
    try (cbn [wire_msgs map concat]; rewrite finish_begin, app_nil_r; reflexivity).
  pose proof (rm_loop_closed h (msg_code (RouteMonitoring h blob))
                (split_pdus (length blob) blob) c (split_pdus_nonempty _ _)) as H.
  destruct (rm_loop h (msg_code (RouteMonitoring h blob)) (begin c (msg_code (RouteMonitoring h blob)))
              (length c) (split_pdus (length blob) blob)) as [c1 pf].
  cbn [fst snd] in H. rewrite H. unfold wire_msgs. rewrite map_map. reflexivity.
Qed.

Lemma bmp_encode_all_closed : forall ms c,
  bmp_encode_all c ms = c ++ concat (map (fun m => concat (map enc_one (wire_msgs m))) ms).
Proof.
  unfold bmp_encode_all. induction ms as [|m ms IH]; intro c; cbn [fold_left map concat].
  - now rewrite app_nil_r.
  - rewrite IH, bmp_encode_closed, <- app_assoc. reflexivity.
Qed.

(* the pieces cut by the Route Monitoring loop are the whole blob, in order *)
Lemma split_pdus_concat : forall fuel b, concat (split_pdus fuel b) = b.
Proof.
  induction fuel as [|fuel IH]; intro b; cbn [split_pdus].
  - destruct (skipn (pdu_len b) b) eqn:E; cbn [concat].
    + rewrite app_nil_r. transitivity (firstn (pdu_len b) b ++ skipn (pdu_len b) b);
        [rewrite E, app_nil_r; reflexivity | apply firstn_skipn].
    + rewrite app_nil_r, <- E. apply firstn_skipn.
  - destruct (skipn (pdu_len b) b) eqn:E; cbn [concat].
    + rewrite app_nil_r. transitivity (firstn (pdu_len b) b ++ skipn (pdu_len b) b);
        [rewrite E, app_nil_r; reflexivity | apply firstn_skipn].
    + rewrite IH, <- E. apply firstn_skipn.
Qed.

(* ----------------------------------------------------------- reader steps *)

Lemma take_prefix : forall n a b bs, bs = a ++ b -> length a = n -> take n bs = Some (a, b).
Proof. intros; subst bs; now apply take_app. Qed.

Lemma rd_prefix : forall k n rest bs, bs = be k n ++ rest -> n < 256 ^ N.of_nat k ->
  rd k bs = Some (n, rest).
Proof. intros; subst bs; now apply rd_be. Qed.

Lemma marker_length : length marker = 16%nat.
Proof. reflexivity. Qed.

Lemma read_pdu_ok : forall ty f rest, frame_ok ty f -> ty < 256 ->
  read_pdu ty (f ++ rest) = Some (f, rest).
Proof.
  intros ty f rest [r' [Hf Hlen]] Hty.
  remember (length f) as L eqn:HL.
  assert (E : f ++ rest = marker ++ (be 2 (N.of_nat L) ++ [ty] ++ r' ++ rest)).
  { rewrite Hf at 1. rewrite <- !app_assoc. reflexivity. }
  assert (HL19 : (19 <= L)%nat).
  { rewrite HL, Hf. rewrite !app_length, be_length, marker_length. cbn [length]. lia. }
  unfold read_pdu.
  rewrite (take_prefix 16 marker _ _ E marker_length). cbn [bind].
  destruct (list_eq_dec N.eq_dec marker marker) as [_|n]; [|congruence]. cbn [guard bind].
  rewrite rd_be by (change (256 ^ N.of_nat 2) with 65536; lia). cbn [bind].
  replace (19 <=? N.of_nat L) with true by lia. cbn [guard bind].
  rewrite Nat2N.id. rewrite (take_app L f rest) by (symmetry; exact HL). cbn [bind].
  change ([ty] ++ r' ++ rest) with (be 0 0 ++ ty :: r' ++ rest).
  unfold rd. cbn [take length Nat.leb firstn skipn bind app be].
  unfold be_dec. cbn [fold_left]. rewrite N.eqb_refl. reflexivity.
Qed.

Lemma encode_ip_length : forall a, wf_ip a -> length (encode_ip a) = 16%nat.
Proof.
  intros [b|b] H; cbn [encode_ip wf_ip] in *.
  - rewrite app_length, repeat_length. lia.
  - exact H.
Qed.

Lemma lor_v_lt : forall f (b : bool), f < 256 -> N.lor f (if b then 128 else 0) < 256.
Proof.
  intros f b H. destruct b.
  - change 256 with (2 ^ 8). destruct (N.eq_dec (N.lor f 128) 0) as [E|E]; [rewrite E; reflexivity|].
    apply N.log2_lt_pow2; [lia|]. rewrite N.log2_lor.
    destruct (N.eq_dec f 0) as [->|Hf]; [cbn; lia|].
    assert (N.log2 f < 8) by (apply N.log2_lt_pow2; [lia|exact H]).
    change (N.log2 128) with 7. lia.
  - now rewrite N.lor_0_r.
Qed.

Lemma read_peer_ok : forall h rest, wf_pph h ->
  read_peer (pph_encode h ++ rest) = Some (view_pph h, rest).
Proof.
  intros h rest (Ht & Hf & Has & Hid & Hd & Hip & Hts).
  unfold read_peer, pph_encode. rewrite <- !app_assoc.
  rewrite rd_be by exact Ht. cbn [bind].
  rewrite rd_be by (apply lor_v_lt; exact Hf). cbn [bind].
  rewrite rd_be by exact Hd. cbn [bind].
  rewrite take_app by (apply encode_ip_length; exact Hip). cbn [bind].
  rewrite rd_be by exact Has. cbn [bind].
  rewrite take_app by exact Hid. cbn [bind].
  rewrite rd_be by exact Hts. cbn [bind].
  rewrite rd_be by (cbn; lia). cbn [bind].
  reflexivity.
Qed.

Lemma read_tlvs_ok : forall tlvs fuel, Forall wf_tlv tlvs ->
  (length (concat (map tlv_encode tlvs)) <= fuel)%nat ->
  read_tlvs fuel (concat (map tlv_encode tlvs)) = Some tlvs.
Proof.
  induction tlvs as [|[t v] tlvs IH]; intros fuel Hwf Hfuel.
  - destruct fuel; reflexivity.
  - inversion Hwf as [|? ? [Ht Hv] Hrest]; subst. cbn [fst snd] in *.
    cbn [map concat] in *. unfold tlv_encode at 1 in Hfuel. unfold tlv_encode at 1.
    cbn [fst snd] in *. rewrite <- !app_assoc in *.
    rewrite !app_length, !be_length in Hfuel.
    destruct fuel as [|fuel]; [lia|].
    cbn [read_tlvs].
    destruct (be 2 t ++ be 2 (N.of_nat (length v)) ++ v ++ concat (map tlv_encode tlvs)) eqn:E.
    { apply (f_equal (@length N)) in E. rewrite !app_length, !be_length in E. cbn in E. lia. }
    rewrite <- E. clear E.
    rewrite rd_be by exact Ht. cbn [bind].
    rewrite rd_be by exact Hv. cbn [bind].
    rewrite Nat2N.id, take_app by reflexivity. cbn [bind].
    rewrite IH by (try exact Hrest; lia). reflexivity.
Qed.

Lemma nil_guard : forall (A : Type), (match @nil A with [] => true | _ => false end) = true.
Proof. reflexivity. Qed.

(* the body of every message written in one piece reads back to the intended view *)
Lemma read_body_ok : forall m v, wf_msg m -> view_of m = Some v ->
  read_body (msg_code m) (body_encode m) = Some v.
Proof.
  intros m v Hwf Hv. destruct m as [h blob| |h r|h la lp rp lo ro|tlvs| |];
    cbn [wf_msg] in Hwf; try contradiction; cbn [view_of] in Hv; inversion Hv; subst v; clear Hv;
    cbn [msg_code body_encode read_body].
  - destruct Hwf as [Hh Hr].
    rewrite read_peer_ok by exact Hh. cbn [bind].
    unfold reason_encode.
    rewrite rd_be by (destruct r; cbv; reflexivity). cbn [bind].
    destruct r as [b|c|b| |]; cbn [reason_code N.eqb Pos.eqb orb].
    + rewrite <- (app_nil_r b) at 1.
      rewrite read_pdu_ok by (try exact Hr; cbv; reflexivity). cbn [bind guard]. reflexivity.
    + rewrite <- (app_nil_r (be 2 c)). rewrite rd_be by exact Hr. cbn [bind guard]. reflexivity.
    + rewrite <- (app_nil_r b) at 1.
      rewrite read_pdu_ok by (try exact Hr; cbv; reflexivity). cbn [bind guard]. reflexivity.
    + reflexivity.
    + reflexivity.
  - destruct Hwf as (Hh & Hla & Hlp & Hrp & Hlo & Hro).
    rewrite read_peer_ok by exact Hh. cbn [bind].
    rewrite take_app by (apply encode_ip_length; exact Hla). cbn [bind].
    rewrite rd_be by exact Hlp. cbn [bind].
    rewrite rd_be by exact Hrp. cbn [bind].
    rewrite read_pdu_ok by (try exact Hlo; cbv; reflexivity). cbn [bind].
    rewrite <- (app_nil_r ro) at 1.
    rewrite read_pdu_ok by (try exact Hro; cbv; reflexivity). cbn [bind length read_tlvs].
    reflexivity.
  - rewrite read_tlvs_ok by (try exact Hwf; lia). reflexivity.
Qed.

(* one Route Monitoring message holding one frame *)
Lemma read_body_rm_ok : forall h f, wf_pph h -> frame_ok BGP_UPDATE f ->
  read_body 0 (pph_encode h ++ f) = Some (VRouteMonitoring (view_pph h) f).
Proof.
  intros h f Hh Hf. cbn [read_body].
  rewrite read_peer_ok by exact Hh. cbn [bind].
  rewrite <- (app_nil_r f) at 1.
  rewrite read_pdu_ok by (try exact Hf; cbv; reflexivity). cbn [bind guard]. reflexivity.
Qed.

Lemma read_bmp_one : forall code body v rest,
  code < 256 -> N.of_nat (6 + length body) < 2 ^ 32 -> read_body code body = Some v ->
  read_bmp (enc_one (code, body) ++ rest) = Some (N.of_nat (length (enc_one (code, body))), v, rest).
Proof.
  intros code body v rest Hc Hlen Hv. rewrite enc_one_length. unfold read_bmp, enc_one.
  cbn [fst snd]. rewrite <- !app_assoc.
  change ([VERSION] ++ ?x) with (be 1 3 ++ x).
  rewrite rd_be by (cbv; reflexivity). cbn [bind N.eqb Pos.eqb guard].
  rewrite rd_be by exact Hlen. cbn [bind].
  rewrite rd_be by exact Hc. cbn [bind].
  replace (6 <=? N.of_nat (6 + length body)) with true by lia. cbn [guard bind].
  rewrite Nat2N.id.
  replace (6 + length body - 6)%nat with (length body) by lia.
  rewrite take_app by reflexivity. cbn [bind].
  rewrite Hv. cbn [bind]. reflexivity.
Qed.

(* ------------------------------------------ the loop cuts at frame boundaries *)

Lemma frame_ok_length : forall ty f, frame_ok ty f -> (19 <= length f)%nat.
Proof.
  intros ty f [r [Hf _]]. rewrite Hf. rewrite !app_length, be_length, marker_length.
  cbn [length]. lia.
Qed.

Lemma pdu_len_frame : forall ty f rest, frame_ok ty f -> pdu_len (f ++ rest) = length f.
Proof.
  intros ty f rest Hf. pose proof (frame_ok_length ty f Hf) as H19.
  destruct Hf as [r [Hf Hlen]].
  unfold pdu_len. rewrite app_length.
  destruct (length f + length rest <? 19)%nat eqn:E; [apply Nat.ltb_lt in E; lia|].
  assert (E2 : firstn 2 (skipn 16 (f ++ rest)) = be 2 (N.of_nat (length f))).
  { remember (length f) as L. rewrite Hf. reflexivity. }
  rewrite E2, be_dec_be by (change (256 ^ N.of_nat 2) with 65536; lia).
  rewrite Nat2N.id.
  destruct ((length f <? 19)%nat || (length f + length rest <? length f)%nat) eqn:E3; [|reflexivity].
  apply orb_true_iff in E3. destruct E3 as [E3|E3]; apply Nat.ltb_lt in E3; lia.
Qed.

Lemma frames_ok_concat : forall ty fs blob, frames_ok ty fs blob -> blob = concat fs.
Proof. intros ty fs blob H. induction H; cbn [concat]; [reflexivity|now f_equal]. Qed.

Lemma split_pdus_frames : forall ty fs blob, frames_ok ty fs blob -> fs <> [] ->
  forall fuel, (length blob <= fuel)%nat -> split_pdus fuel blob = fs.
Proof.
  intros ty fs blob H. induction H as [|f fs rest Hf Hfs IH]; intros Hne fuel Hfuel; [congruence|].
  pose proof (frame_ok_length ty f Hf) as H19.
  rewrite app_length in Hfuel.
  destruct fuel as [|fuel]; [lia|].
  cbn [split_pdus]. rewrite (pdu_len_frame ty f rest Hf).
  rewrite firstn_app, Nat.sub_diag, firstn_all, firstn_O, app_nil_r.
  rewrite skipn_app, Nat.sub_diag, skipn_all. cbn [app skipn].
  destruct fs as [|g fs].
  - inversion Hfs; subst. reflexivity.
  - destruct rest as [|x rest'] eqn:Er.
    + inversion Hfs as [|? ? ? Hg ? Hcat]; subst.
      pose proof (frame_ok_length ty g Hg) as Hg19. destruct g; cbn in *; [lia|discriminate].
    + rewrite <- Er in *. rewrite IH by (try discriminate; lia). reflexivity.
Qed.

(* ------------------------------------------------------- final statements *)

Lemma msg_code_lt : forall m, msg_code m < 256.
Proof. destruct m; cbv; reflexivity. Qed.

Lemma wire_msgs_sizes : forall m w, In w (wire_msgs m) ->
  (length (snd w) <= length (body_encode m))%nat.
Proof.
  intros m w Hin. destruct m as [h blob| |h r|h la lp rp lo ro|tlvs| |];
    try (cbn [wire_msgs In] in Hin; destruct Hin as [<-|[]]; cbn [snd]; lia).
  unfold wire_msgs in Hin. apply in_map_iff in Hin. destruct Hin as [p [<- Hp]].
  cbn [snd body_encode]. rewrite !app_length.
  assert (Hle : (length p <= length (concat (split_pdus (length blob) blob)))%nat).
  { clear -Hp. induction (split_pdus (length blob) blob) as [|q l IH]; [contradiction|].
    cbn [concat]. rewrite app_length. destruct Hp as [->|Hp]; [lia|specialize (IH Hp); lia]. }
  rewrite split_pdus_concat in Hle. lia.
Qed.

(* Every call appends a sequence of messages each of whose Message Length field
   equals its own size (header included), whatever the content, as long as that
   size fits the 32-bit field; the earlier buffer is untouched. *)
Theorem C19_bmp_length_exact : forall c m, msg_len_ok m ->
  firstn (length c) (bmp_encode c m) = c /\
  exists parts, skipn (length c) (bmp_encode c m) = concat parts
                /\ parts <> []
                /\ Forall common_length_exact parts.
Proof.
  intros c m Hlen. rewrite bmp_encode_closed.
  rewrite firstn_app, Nat.sub_diag, firstn_all, firstn_O, app_nil_r.
  rewrite skipn_app, Nat.sub_diag, skipn_all. cbn [app skipn].
  split; [reflexivity|].
  exists (map enc_one (wire_msgs m)). split; [reflexivity|]. split.
  { destruct m; cbn [wire_msgs]; try discriminate.
    pose proof (split_pdus_nonempty (length blob) blob) as Hn.
    destruct (split_pdus (length blob) blob); [congruence|discriminate]. }
  apply Forall_map. apply Forall_forall. intros [code body] Hin.
  pose proof (wire_msgs_sizes m _ Hin) as Hsz. cbn [snd] in Hsz. unfold msg_len_ok in Hlen.
  assert (Hw : N.of_nat (6 + length body) < 2 ^ 32) by lia.
  assert (Hc : exists code', be 1 code = [code']).
  { exists ((code / 256 ^ N.of_nat 0) mod 256). reflexivity. }
  destruct Hc as [code' Hc].
  exists VERSION, (N.of_nat (6 + length body)), code', body.
  split; [|split].
  - unfold enc_one. cbn [fst snd]. rewrite Hc. reflexivity.
  - exact Hw.
  - now rewrite enc_one_length.
Qed.

(* ----------------------------------------------------------- stream reading *)

Lemma read_bmp_stream_mono : forall f bs vs, read_bmp_stream f bs = Some vs ->
  forall f', (f <= f')%nat -> read_bmp_stream f' bs = Some vs.
Proof.
  induction f as [|f IH]; intros bs vs H f' Hle.
  - destruct bs; [|discriminate]. destruct f'; exact H.
  - destruct bs as [|x bs]; [destruct f'; exact H|].
    destruct f' as [|f']; [lia|].
    cbn [read_bmp_stream] in *.
    destruct (read_bmp (x :: bs)) as [[[len v] rest]|]; [|discriminate]. cbn [bind] in *.
    destruct (read_bmp_stream f rest) as [more|] eqn:E; [|discriminate].
    rewrite (IH rest more E f') by lia. exact H.
Qed.

Definition wire_reads (w : N * bytes) (v : bmp_view) : Prop :=
  fst w < 256 /\ N.of_nat (6 + length (snd w)) < 2 ^ 32 /\ read_body (fst w) (snd w) = Some v.

Lemma read_stream_wires : forall ws vs, Forall2 wire_reads ws vs ->
  forall tail tv fuel, read_bmp_stream fuel tail = Some tv ->
  read_bmp_stream (length ws + fuel) (concat (map enc_one ws) ++ tail) = Some (vs ++ tv).
Proof.
  intros ws vs H. induction H as [|[code body] v ws vs (Hc & Hl & Hr) Hrest IH]; intros tail tv fuel Ht.
  - exact Ht.
  - cbn [map concat length Nat.add app]. rewrite <- app_assoc.
    cbn [fst snd] in *.
    destruct (enc_one (code, body) ++ concat (map enc_one ws) ++ tail) eqn:E.
    { apply (f_equal (@length N)) in E. rewrite app_length, enc_one_length in E. cbn in E. lia. }
    cbn [read_bmp_stream]. rewrite <- E.
    rewrite (read_bmp_one code body v _ Hc Hl Hr). cbn [bind].
    rewrite (IH tail tv fuel Ht). reflexivity.
Qed.

Lemma frames_ok_Forall : forall ty fs blob, frames_ok ty fs blob -> Forall (frame_ok ty) fs.
Proof. intros ty fs blob H. induction H; constructor; assumption. Qed.

(* the wire messages of one item read back to its intended views *)
Lemma item_wires : forall m vs, wf_msg m -> msg_len_ok m -> views m vs ->
  Forall2 wire_reads (wire_msgs m) vs.
Proof.
  intros m vs Hwf Hlen Hv.
  assert (Hsz : forall w, In w (wire_msgs m) -> N.of_nat (6 + length (snd w)) < 2 ^ 32).
  { intros w Hin. pose proof (wire_msgs_sizes m w Hin). unfold msg_len_ok in Hlen. lia. }
  inversion Hv as [h blob fs Hne Hfs|m' v Hview]; subst.
  - cbn [wf_msg] in Hwf.
    unfold wire_msgs in *. rewrite (split_pdus_frames _ _ _ Hfs Hne (length blob)) in * by lia.
    pose proof (frames_ok_Forall _ _ _ Hfs) as Hall. clear Hfs Hne Hv.
    induction fs as [|f fs IH]; cbn [map]; constructor.
    + inversion Hall; subst. split; [cbv; reflexivity|]. split.
      * apply Hsz. left. reflexivity.
      * cbn [fst snd]. apply read_body_rm_ok; assumption.
    + inversion Hall; subst. apply IH; [|assumption].
      intros w Hin. apply Hsz. right. exact Hin.
  - assert (Hw : wire_msgs m = [(msg_code m, body_encode m)]).
    { destruct m; cbn [view_of] in Hview; try discriminate; reflexivity. }
    rewrite Hw in *. constructor; [|constructor].
    split; [apply msg_code_lt|]. split.
    + apply Hsz. left. reflexivity.
    + cbn [fst snd]. apply read_body_ok; assumption.
Qed.

Lemma wires_count : forall ws, (length ws <= length (concat (map enc_one ws)))%nat.
Proof.
  induction ws as [|w ws IH]; cbn [map concat length]; [lia|].
  rewrite app_length, enc_one_length. lia.
Qed.

(* Reading back what one call of the encoder appended to an empty buffer gives
   exactly the intended views: one message per item, or one Route Monitoring
   message per frame of the monitored UPDATE; nothing is left over. *)
Theorem C19_bmp_readback : forall m vs, wf_msg m -> msg_len_ok m -> views m vs ->
  forall fuel, (length (bmp_encode [] m) <= fuel)%nat ->
  read_bmp_stream fuel (bmp_encode [] m) = Some vs.
Proof.
  intros m vs Hwf Hlen Hv fuel Hfuel. rewrite bmp_encode_closed in *. cbn [app] in *.
  pose proof (read_stream_wires _ _ (item_wires m vs Hwf Hlen Hv) [] [] 0 eq_refl) as H.
  rewrite !app_nil_r in H.
  apply (read_bmp_stream_mono _ _ _ H). pose proof (wires_count (wire_msgs m)). lia.
Qed.

(* ... and for a whole session through one codec and one buffer *)
Theorem C19_bmp_stream_readback : forall ms vss,
  Forall (fun m => wf_msg m /\ msg_len_ok m) ms -> Forall2 views ms vss ->
  forall fuel, (length (bmp_encode_all [] ms) <= fuel)%nat ->
  read_bmp_stream fuel (bmp_encode_all [] ms) = Some (concat vss).
Proof.
  intros ms vss Hall Hv fuel Hfuel. rewrite bmp_encode_all_closed in *. cbn [app] in *.
  assert (G : Forall2 wire_reads (concat (map wire_msgs ms)) (concat vss)).
  { clear Hfuel. revert Hall. induction Hv as [|m vs ms vss Hm Hrest IH]; intro Hall;
      cbn [map concat]; [constructor|].
    inversion Hall as [|? ? [Hwf Hlen] Hall']; subst.
    apply Forall2_app; [apply item_wires; assumption|apply IH; assumption]. }
  assert (E : concat (map (fun m => concat (map enc_one (wire_msgs m))) ms)
              = concat (map enc_one (concat (map wire_msgs ms)))).
  { clear. induction ms as [|m ms IH]; cbn [map concat]; [reflexivity|].
    rewrite map_app, concat_app, IH. reflexivity. }
  rewrite E in *.
  pose proof (read_stream_wires _ _ G [] [] 0 eq_refl) as H. rewrite !app_nil_r in H.
  apply (read_bmp_stream_mono _ _ _ H). pose proof (wires_count (concat (map wire_msgs ms))). lia.
Qed.

(* V flag <=> IPv6 peer address, and the header denotes exactly the monitored
   address (for headers whose caller-supplied flags leave the V bit alone, which
   is the case for every header daemon/src/bmp.rs builds). *)
Theorem C19_bmp_vflag_iff_v6 : forall h, wf_pph h -> flags_no_v h ->
  let pv := view_pph h in
  v_flag pv = is_v6 (p_addr h)
  /\ peer_addr_consistent pv
  /\ peer_addr_denoted pv = (is_v6 (p_addr h), ip_octets (p_addr h)).
Proof.
  intros h Hwf Hnv pv. unfold flags_no_v in Hnv.
  assert (Hv : v_flag pv = is_v6 (p_addr h)).
  { unfold v_flag, pv, view_pph. cbn [pv_flags]. rewrite N.lor_spec, Hnv.
    destruct (is_v6 (p_addr h)); reflexivity. }
  split; [exact Hv|]. split.
  - unfold peer_addr_consistent. rewrite Hv. unfold pv, view_pph. cbn [pv_addr].
    destruct (p_addr h) as [b|b]; cbn [is_v6 encode_ip]; [|discriminate].
    intros _. reflexivity.
  - unfold peer_addr_denoted. rewrite Hv. unfold pv, view_pph. cbn [pv_addr].
    destruct (p_addr h) as [b|b]; cbn [is_v6 encode_ip ip_octets]; reflexivity.
Qed.

(* The caller-flag hypothesis cannot be dropped: a header built with flags 0x80
   and an IPv4 address carries the V flag on an IPv4 peer (PerPeerHeader::new is
   public; daemon/src/bmp.rs never passes that bit). *)
Lemma C19_bmp_vflag_caller_flags_refuted :
  exists h, wf_pph h /\ is_v6 (p_addr h) = false /\ v_flag (view_pph h) = true.
Proof.
  exists {| p_type := 0; p_flags := 128; p_asn := 1; p_id := [1;1;1;1]; p_dist := 0;
            p_addr := IP4 [10;0;0;1]; p_ts := 0 |}.
  split; [|split]; [|reflexivity|reflexivity].
  repeat split; try (cbv; reflexivity).
Qed.

(* `bin.len() as u16`: an Information TLV value of 65536 bytes is announced with
   length 0, and the stream no longer reads back (wf_tlv cannot be dropped). *)
Lemma C19_bmp_tlv_truncation_refuted :
  exists tlvs, read_bmp_stream 1 (bmp_encode [] (Initiation tlvs)) = None.
Proof.
  exists [(1, repeat 65 (N.to_nat 65536))]. vm_compute. reflexivity.
Qed.

(* ------------------------------------------------------------ non-vacuity *)

Definition open0 : bytes := marker ++ [0; 29; 1; 4; 253; 233; 0; 90; 10; 0; 0; 1; 0].
Definition upd0 : bytes := marker ++ [0; 23; 2; 0; 0; 0; 0].
Definition notif0 : bytes := marker ++ [0; 21; 3; 6; 2].

Lemma frame_open0 : frame_ok BGP_OPEN open0.
Proof. exists [4; 253; 233; 0; 90; 10; 0; 0; 1; 0]. split; [reflexivity|cbv; reflexivity]. Qed.
Lemma frame_upd0 : frame_ok BGP_UPDATE upd0.
Proof. exists [0;0;0;0]. split; [reflexivity|cbv; reflexivity]. Qed.
Lemma frame_notif0 : frame_ok BGP_NOTIFICATION notif0.
Proof. exists [6; 2]. split; [reflexivity|cbv; reflexivity]. Qed.

Definition hdr0 : pph :=
  {| p_type := 0; p_flags := 0; p_asn := 65001; p_id := [10;0;0;1]; p_dist := 0;
     p_addr := IP4 [192;0;2;1]; p_ts := 7 |}.
Definition hdr6 : pph :=
  {| p_type := 0; p_flags := 64; p_asn := 4200000000; p_id := [10;0;0;2]; p_dist := 0;
     p_addr := IP6 [32;1;13;184;0;0;0;0;0;0;0;0;0;0;0;1]; p_ts := 1700000000 |}.

Lemma wf_hdr0 : wf_pph hdr0. Proof. repeat split; cbv; reflexivity. Qed.
Lemma wf_hdr6 : wf_pph hdr6. Proof. repeat split; cbv; reflexivity. Qed.

Definition ex_session : list bmp_msg :=
  [Initiation [(1, [82; 117]); (2, [])];
   PeerUp hdr6 (IP6 [32;1;13;184;0;0;0;0;0;0;0;0;0;0;0;2]) 179 40000 open0 open0;
   RouteMonitoring hdr0 (upd0 ++ upd0 ++ []);
   PeerDown hdr0 (LocalNotification notif0);
   PeerDown hdr6 (LocalFsm 0);
   PeerDown hdr6 RemoteUnexpected].

Example ex_msgs_wf : Forall (fun m => wf_msg m /\ msg_len_ok m) ex_session.
Proof.
  repeat constructor; cbn [wf_msg]; repeat split;
    try apply wf_hdr0; try apply wf_hdr6; try apply frame_open0; try apply frame_upd0;
    try apply frame_notif0; try (cbv; reflexivity).
Qed.

(* a monitored UPDATE rendered as two frames is two Route Monitoring messages *)
Example ex_views : exists vss, Forall2 views ex_session vss /\ length (concat vss) = 7%nat.
Proof.
  eexists. split.
  - repeat (apply Forall2_cons); try apply Forall2_nil;
      try (apply views_one; reflexivity).
    apply (views_rm hdr0 _ [upd0; upd0]); [discriminate|].
    repeat constructor; apply frame_upd0.
  - reflexivity.
Qed.

Example ex_readback_two_frames :
  read_bmp_stream 200 (bmp_encode [] (RouteMonitoring hdr0 (upd0 ++ upd0)))
  = Some [VRouteMonitoring (view_pph hdr0) upd0; VRouteMonitoring (view_pph hdr0) upd0].
Proof. vm_compute. reflexivity. Qed.

Example ex_vflag_hyps : wf_pph hdr6 /\ flags_no_v hdr6 /\ wf_pph hdr0 /\ flags_no_v hdr0.
Proof. repeat split; cbv; reflexivity. Qed.

(* the class of the open finding C19-3 is decidable *)
Lemma Known_C19_3_dec : forall f nh, known_c19_3b f nh = true <-> Known_C19_3 f nh.
Proof.
  intros f nh. unfold known_c19_3b, Known_C19_3. split.
  - intro H. apply andb_true_iff in H. destruct H as [Hf Hn]. apply N.eqb_eq in Hf.
    split; [exact Hf|]. destruct nh as [b|]; [|discriminate]. exists b. split; [reflexivity|].
    apply orb_true_iff in Hn. destruct Hn as [Hn|Hn]; apply Nat.eqb_eq in Hn; [left|right]; exact Hn.
  - intros [Hf (b & Hb & Hl)]. subst. rewrite N.eqb_refl. cbn [andb].
    destruct Hl as [->| ->]; reflexivity.
Qed.

Example ex_known_c19_3 : Known_C19_3 65537 (Some (repeat 0 16)) /\ ~ Known_C19_3 65537 (Some [10;0;0;1]).
Proof.
  split; [apply Known_C19_3_dec; reflexivity|].
  intro H. apply Known_C19_3_dec in H. discriminate.
Qed.

(* The three message kinds BmpCodec::encode accepts but daemon/src/bmp.rs never sends are
   written as a bare common header: none of them is a well-formed message of its type
   (RFC 7854 4.8: per-peer header and Stats Count; 4.5: at least one TLV; 4.7: per-peer
   header).  [wf_msg] excludes them for this reason. *)
Lemma C19_bmp_unused_kinds_refuted :
  read_bmp_stream 1 (bmp_encode [] StatsReports) = None
  /\ read_bmp_stream 1 (bmp_encode [] Termination) = None
  /\ read_bmp_stream 1 (bmp_encode [] RouteMirroring) = None.
Proof. repeat split; vm_compute; reflexivity. Qed.
