(* C19, BMP half: the encoder of Model/Bmp.v read back by the RFC 7854 reader of
   Spec/BmpRead.v. *)
From Coq Require Import List NArith Bool Arith Lia ZifyBool ZifyNat ZifyN.
From RB Require Import Base.Val Base.Bytes Model.Bmp Spec.BmpRead.
Import ListNotations.
Open Scope N_scope.

(* ------------------------------------------------------------ closed form *)

(* the bytes one call of BmpCodec::encode appends *)
Definition enc_msg (m : bmp_msg) : bytes :=
  [VERSION] ++ be 4 (N.of_nat (6 + length (body_encode m))) ++ be 1 (msg_code m) ++ body_encode m.

(* The back-patched buffer is the old buffer followed by a header that carries
   the final length. *)
Lemma bmp_encode_closed : forall c m, bmp_encode c m = c ++ enc_msg m.
Proof.
  intros c m. unfold bmp_encode, enc_msg.
  replace (length (c ++ [VERSION])) with (length (c ++ [VERSION]) + 0)%nat by lia.
  rewrite <- !app_assoc.
  replace (c ++ [VERSION] ++ be 4 0 ++ be 1 (msg_code m) ++ body_encode m)
    with ((c ++ [VERSION]) ++ be 4 0 ++ (be 1 (msg_code m) ++ body_encode m))
    by (rewrite <- !app_assoc; reflexivity).
  rewrite Nat.add_0_r.
  rewrite patch_mid by (rewrite !be_length; reflexivity).
  rewrite <- !app_assoc. do 2 f_equal. f_equal. f_equal.
  rewrite !app_length, !be_length. cbn [length]. lia.
Qed.

Lemma bmp_encode_all_closed : forall ms c, bmp_encode_all c ms = c ++ concat (map enc_msg ms).
Proof.
  unfold bmp_encode_all. induction ms as [|m ms IH]; intro c; cbn [fold_left map concat].
  - now rewrite app_nil_r.
  - rewrite IH, bmp_encode_closed, <- app_assoc. reflexivity.
Qed.

Lemma enc_msg_length : forall m, length (enc_msg m) = (6 + length (body_encode m))%nat.
Proof. intro m. unfold enc_msg. rewrite !app_length, !be_length. cbn [length]. lia. Qed.

(* ----------------------------------------------------------- reader steps *)

Lemma take_prefix : forall n a b bs, bs = a ++ b -> length a = n -> take n bs = Some (a, b).
Proof. intros; subst bs; now apply take_app. Qed.

Lemma rd_prefix : forall k n rest bs, bs = be k n ++ rest -> n < 256 ^ N.of_nat k ->
  rd k bs = Some (n, rest).
Proof. intros; subst bs; now apply rd_be. Qed.

Lemma marker_length : length marker = 16%nat.
Proof. reflexivity. Qed.

Lemma read_pdu_ok : forall ty f rest, frame_ok ty f -> ty < 256 ->
  read_pdu ty (f ++ rest) = Some (f, rest).
Proof.
  intros ty f rest [r' [Hf Hlen]] Hty.
  remember (length f) as L eqn:HL.
  assert (E : f ++ rest = marker ++ (be 2 (N.of_nat L) ++ [ty] ++ r' ++ rest)).
  { rewrite Hf at 1. rewrite <- !app_assoc. reflexivity. }
  assert (HL19 : (19 <= L)%nat).
  { rewrite HL, Hf. rewrite !app_length, be_length, marker_length. cbn [length]. lia. }
  unfold read_pdu.
  rewrite (take_prefix 16 marker _ _ E marker_length). cbn [bind].
  destruct (list_eq_dec N.eq_dec marker marker) as [_|n]; [|congruence]. cbn [guard bind].
  rewrite rd_be by (change (256 ^ N.of_nat 2) with 65536; lia). cbn [bind].
  replace (19 <=? N.of_nat L) with true by lia. cbn [guard bind].
  rewrite Nat2N.id. rewrite (take_app L f rest) by (symmetry; exact HL). cbn [bind].
  change ([ty] ++ r' ++ rest) with (be 0 0 ++ ty :: r' ++ rest).
  unfold rd. cbn [take length Nat.leb firstn skipn bind app be].
  unfold be_dec. cbn [fold_left]. rewrite N.eqb_refl. reflexivity.
Qed.

Lemma encode_ip_length : forall a, wf_ip a -> length (encode_ip a) = 16%nat.
Proof.
  intros [b|b] H; cbn [encode_ip wf_ip] in *.
  - rewrite app_length, repeat_length. lia.
  - exact H.
Qed.

Lemma lor_v_lt : forall f (b : bool), f < 256 -> N.lor f (if b then 128 else 0) < 256.
Proof.
  intros f b H. destruct b.
  - change 256 with (2 ^ 8). destruct (N.eq_dec (N.lor f 128) 0) as [E|E]; [rewrite E; reflexivity|].
    apply N.log2_lt_pow2; [lia|]. rewrite N.log2_lor.
    destruct (N.eq_dec f 0) as [->|Hf]; [cbn; lia|].
    assert (N.log2 f < 8) by (apply N.log2_lt_pow2; [lia|exact H]).
    change (N.log2 128) with 7. lia.
  - now rewrite N.lor_0_r.
Qed.

Lemma read_peer_ok : forall h rest, wf_pph h ->
  read_peer (pph_encode h ++ rest) = Some (view_pph h, rest).
Proof.
  intros h rest (Ht & Hf & Has & Hid & Hd & Hip & Hts).
  unfold read_peer, pph_encode. rewrite <- !app_assoc.
  rewrite rd_be by exact Ht. cbn [bind].
  rewrite rd_be by (apply lor_v_lt; exact Hf). cbn [bind].
  rewrite rd_be by exact Hd. cbn [bind].
  rewrite take_app by (apply encode_ip_length; exact Hip). cbn [bind].
  rewrite rd_be by exact Has. cbn [bind].
  rewrite take_app by exact Hid. cbn [bind].
  rewrite rd_be by exact Hts. cbn [bind].
  rewrite rd_be by (cbn; lia). cbn [bind].
  reflexivity.
Qed.

Lemma read_tlvs_ok : forall tlvs fuel, Forall wf_tlv tlvs ->
  (length (concat (map tlv_encode tlvs)) <= fuel)%nat ->
  read_tlvs fuel (concat (map tlv_encode tlvs)) = Some tlvs.
Proof.
  induction tlvs as [|[t v] tlvs IH]; intros fuel Hwf Hfuel.
  - destruct fuel; reflexivity.
  - inversion Hwf as [|? ? [Ht Hv] Hrest]; subst. cbn [fst snd] in *.
    cbn [map concat] in *. unfold tlv_encode at 1 in Hfuel. unfold tlv_encode at 1.
    cbn [fst snd] in *. rewrite <- !app_assoc in *.
    rewrite !app_length, !be_length in Hfuel.
    destruct fuel as [|fuel]; [lia|].
    cbn [read_tlvs].
    destruct (be 2 t ++ be 2 (N.of_nat (length v)) ++ v ++ concat (map tlv_encode tlvs)) eqn:E.
    { apply (f_equal (@length N)) in E. rewrite !app_length, !be_length in E. cbn in E. lia. }
    rewrite <- E. clear E.
    rewrite rd_be by exact Ht. cbn [bind].
    rewrite rd_be by exact Hv. cbn [bind].
    rewrite Nat2N.id, take_app by reflexivity. cbn [bind].
    rewrite IH by (try exact Hrest; lia). reflexivity.
Qed.

Lemma nil_guard : forall (A : Type), (match @nil A with [] => true | _ => false end) = true.
Proof. reflexivity. Qed.

(* the body of every daemon-emitted message reads back to the intended view *)
Lemma read_body_ok : forall m v, wf_msg m -> view_of m = Some v ->
  read_body (msg_code m) (body_encode m) = Some v.
Proof.
  intros m v Hwf Hv. destruct m as [h blob| |h r|h la lp rp lo ro|tlvs| |];
    cbn [wf_msg] in Hwf; try contradiction; cbn [view_of] in Hv; inversion Hv; subst v; clear Hv;
    cbn [msg_code body_encode read_body].
  - destruct Hwf as [Hh Hb].
    rewrite read_peer_ok by exact Hh. cbn [bind].
    rewrite <- (app_nil_r blob) at 1.
    rewrite read_pdu_ok by (try exact Hb; cbv; reflexivity). cbn [bind guard]. reflexivity.
  - destruct Hwf as [Hh Hr].
    rewrite read_peer_ok by exact Hh. cbn [bind].
    unfold reason_encode.
    rewrite rd_be by (destruct r; cbv; reflexivity). cbn [bind].
    destruct r as [b|c|b| |]; cbn [reason_code N.eqb Pos.eqb orb].
    + rewrite <- (app_nil_r b) at 1.
      rewrite read_pdu_ok by (try exact Hr; cbv; reflexivity). cbn [bind guard]. reflexivity.
    + rewrite <- (app_nil_r (be 2 c)). rewrite rd_be by exact Hr. cbn [bind guard]. reflexivity.
    + rewrite <- (app_nil_r b) at 1.
      rewrite read_pdu_ok by (try exact Hr; cbv; reflexivity). cbn [bind guard]. reflexivity.
    + reflexivity.
    + reflexivity.
  - destruct Hwf as (Hh & Hla & Hlp & Hrp & Hlo & Hro).
    rewrite read_peer_ok by exact Hh. cbn [bind].
    rewrite take_app by (apply encode_ip_length; exact Hla). cbn [bind].
    rewrite rd_be by exact Hlp. cbn [bind].
    rewrite rd_be by exact Hrp. cbn [bind].
    rewrite read_pdu_ok by (try exact Hlo; cbv; reflexivity). cbn [bind].
    rewrite <- (app_nil_r ro) at 1.
    rewrite read_pdu_ok by (try exact Hro; cbv; reflexivity). cbn [bind length read_tlvs].
    reflexivity.
  - rewrite read_tlvs_ok by (try exact Hwf; lia). reflexivity.
Qed.

Lemma msg_code_lt : forall m, msg_code m < 256.
Proof. destruct m; cbv; reflexivity. Qed.

Lemma read_bmp_ok : forall m v rest, wf_msg m -> msg_len_ok m -> view_of m = Some v ->
  read_bmp (enc_msg m ++ rest)
  = Some (N.of_nat (length (enc_msg m)), v, rest).
Proof.
  intros m v rest Hwf Hlen Hv. rewrite enc_msg_length. unfold read_bmp, enc_msg. rewrite <- !app_assoc.
  change ([VERSION] ++ ?x) with (be 1 3 ++ x).
  rewrite rd_be by (cbv; reflexivity). cbn [bind N.eqb Pos.eqb guard].
  unfold msg_len_ok in Hlen.
  rewrite rd_be by exact Hlen. cbn [bind].
  rewrite rd_be by apply msg_code_lt. cbn [bind].
  replace (6 <=? N.of_nat (6 + length (body_encode m))) with true by lia. cbn [guard bind].
  rewrite Nat2N.id.
  replace (6 + length (body_encode m) - 6)%nat with (length (body_encode m)) by lia.
  rewrite take_app by reflexivity. cbn [bind].
  rewrite (read_body_ok m v Hwf Hv). cbn [bind]. reflexivity.
Qed.

(* ------------------------------------------------------- final statements *)

(* Every message appended by the encoder has a Message Length field equal to
   the number of bytes appended (header included), whatever the content, as
   long as that number fits the 32-bit field; the earlier buffer is untouched. *)
Theorem C19_bmp_length_exact : forall c m, msg_len_ok m ->
  firstn (length c) (bmp_encode c m) = c /\
  common_length_exact (skipn (length c) (bmp_encode c m)).
Proof.
  intros c m Hlen. rewrite bmp_encode_closed.
  rewrite firstn_app, Nat.sub_diag, firstn_all, firstn_O, app_nil_r.
  rewrite skipn_app, Nat.sub_diag, skipn_all. cbn [app skipn].
  split; [reflexivity|].
  exists VERSION, (N.of_nat (6 + length (body_encode m))), (msg_code m), (body_encode m).
  split; [|split].
  - unfold enc_msg. replace (be 1 (msg_code m)) with [msg_code m] by (destruct m; reflexivity).
    reflexivity.
  - exact Hlen.
  - now rewrite enc_msg_length.
Qed.

(* Reading back what the encoder appended to an empty buffer gives exactly the
   intended view, the length field equal to the message size, nothing left. *)
Theorem C19_bmp_readback : forall m v, wf_msg m -> msg_len_ok m -> view_of m = Some v ->
  read_bmp (bmp_encode [] m) = Some (N.of_nat (length (bmp_encode [] m)), v, []).
Proof.
  intros m v Hwf Hlen Hv. rewrite bmp_encode_closed. cbn [app].
  rewrite <- (app_nil_r (enc_msg m)) at 1. now apply read_bmp_ok.
Qed.

(* ... and for a whole session through one codec and one buffer *)
Theorem C19_bmp_stream_readback : forall ms,
  Forall (fun m => wf_msg m /\ msg_len_ok m) ms ->
  forall fuel, (length (bmp_encode_all [] ms) <= fuel)%nat ->
  exists vs, Forall2 (fun m v => view_of m = Some v) ms vs /\
             read_bmp_stream fuel (bmp_encode_all [] ms) = Some vs.
Proof.
  intros ms H. rewrite bmp_encode_all_closed. cbn [app].
  induction H as [|m ms [Hwf Hlen] Hrest IH]; intros fuel Hfuel.
  - exists []. split; [constructor|]. destruct fuel; reflexivity.
  - cbn [map concat] in *. rewrite app_length, enc_msg_length in Hfuel.
    destruct fuel as [|fuel]; [lia|].
    destruct (IH fuel ltac:(lia)) as [vs [Hvs Hrd]].
    assert (Hv : exists v, view_of m = Some v).
    { destruct m; cbn [wf_msg] in Hwf; try contradiction; cbn [view_of]; eauto. }
    destruct Hv as [v Hv]. exists (v :: vs). split; [constructor; assumption|].
    cbn [read_bmp_stream].
    destruct (enc_msg m ++ concat (map enc_msg ms)) eqn:E.
    { apply (f_equal (@length N)) in E. rewrite app_length, enc_msg_length in E. cbn in E. lia. }
    rewrite <- E. rewrite (read_bmp_ok m v _ Hwf Hlen Hv). cbn [bind]. rewrite Hrd. reflexivity.
Qed.

(* V flag <=> IPv6 peer address, and the header denotes exactly the monitored
   address (for headers whose caller-supplied flags leave the V bit alone, which
   is the case for every header daemon/src/bmp.rs builds). *)
Theorem C19_bmp_vflag_iff_v6 : forall h, wf_pph h -> flags_no_v h ->
  let pv := view_pph h in
  v_flag pv = is_v6 (p_addr h)
  /\ peer_addr_consistent pv
  /\ peer_addr_denoted pv = (is_v6 (p_addr h), ip_octets (p_addr h)).
Proof.
  intros h Hwf Hnv pv. unfold flags_no_v in Hnv.
  assert (Hv : v_flag pv = is_v6 (p_addr h)).
  { unfold v_flag, pv, view_pph. cbn [pv_flags]. rewrite N.lor_spec, Hnv.
    destruct (is_v6 (p_addr h)); reflexivity. }
  split; [exact Hv|]. split.
  - unfold peer_addr_consistent. rewrite Hv. unfold pv, view_pph. cbn [pv_addr].
    destruct (p_addr h) as [b|b]; cbn [is_v6 encode_ip]; [|discriminate].
    intros _. reflexivity.
  - unfold peer_addr_denoted. rewrite Hv. unfold pv, view_pph. cbn [pv_addr].
    destruct (p_addr h) as [b|b]; cbn [is_v6 encode_ip ip_octets]; [|reflexivity].
    reflexivity.
Qed.

(* The caller-flag hypothesis cannot be dropped: a header built with flags 0x80
   and an IPv4 address carries the V flag on an IPv4 peer. *)
Lemma C19_bmp_vflag_caller_flags_refuted :
  exists h, wf_pph h /\ is_v6 (p_addr h) = false /\ v_flag (view_pph h) = true.
Proof.
  exists {| p_type := 0; p_flags := 128; p_asn := 1; p_id := [1;1;1;1]; p_dist := 0;
            p_addr := IP4 [10;0;0;1]; p_ts := 0 |}.
  split; [|split]; [|reflexivity|reflexivity].
  repeat split; try (cbv; reflexivity).
Qed.

(* ------------------------------------------------ several PDUs in one record *)

(* RFC 7854 §4.6: one BGP Update PDU per Route Monitoring message.  When the BGP
   encoder splits an UPDATE into two frames, the encoder puts both into one
   message, which the reader rejects. *)
Definition two_frames : bytes :=
  (marker ++ [0; 23; 2; 0; 0; 0; 0]) ++ (marker ++ [0; 23; 2; 0; 0; 0; 0]).

Definition hdr0 : pph :=
  {| p_type := 0; p_flags := 0; p_asn := 65001; p_id := [10;0;0;1]; p_dist := 0;
     p_addr := IP4 [192;0;2;1]; p_ts := 7 |}.

Lemma C19_bmp_readback_refuted :
  exists h blob, wf_pph h /\ frames_ok BGP_UPDATE [firstn 23 blob; skipn 23 blob] blob /\
                 read_bmp (bmp_encode [] (RouteMonitoring h blob)) = None.
Proof.
  exists hdr0, two_frames. split; [|split].
  - repeat split; try (cbv; reflexivity).
  - change two_frames with (firstn 23 two_frames ++ (skipn 23 two_frames ++ [])).
    assert (F : frame_ok BGP_UPDATE (marker ++ [0; 23; 2; 0; 0; 0; 0])).
    { exists [0;0;0;0]. split; [reflexivity|cbv; reflexivity]. }
    constructor; [exact F|]. constructor; [exact F|constructor].
  - vm_compute. reflexivity.
Qed.

(* ------------------------------------------------------------ non-vacuity *)

Definition open0 : bytes := marker ++ [0; 29; 1; 4; 253; 233; 0; 90; 10; 0; 0; 1; 0].
Definition upd0 : bytes := marker ++ [0; 23; 2; 0; 0; 0; 0].
Definition notif0 : bytes := marker ++ [0; 21; 3; 6; 2].

Lemma frame_open0 : frame_ok BGP_OPEN open0.
Proof. exists [4; 253; 233; 0; 90; 10; 0; 0; 1; 0]. split; [reflexivity|cbv; reflexivity]. Qed.
Lemma frame_upd0 : frame_ok BGP_UPDATE upd0.
Proof. exists [0;0;0;0]. split; [reflexivity|cbv; reflexivity]. Qed.
Lemma frame_notif0 : frame_ok BGP_NOTIFICATION notif0.
Proof. exists [6; 2]. split; [reflexivity|cbv; reflexivity]. Qed.

Definition hdr6 : pph :=
  {| p_type := 0; p_flags := 64; p_asn := 4200000000; p_id := [10;0;0;2]; p_dist := 0;
     p_addr := IP6 [32;1;13;184;0;0;0;0;0;0;0;0;0;0;0;1]; p_ts := 1700000000 |}.

Lemma wf_hdr0 : wf_pph hdr0. Proof. repeat split; cbv; reflexivity. Qed.
Lemma wf_hdr6 : wf_pph hdr6. Proof. repeat split; cbv; reflexivity. Qed.

Example ex_msgs_wf :
  Forall (fun m => wf_msg m /\ msg_len_ok m)
    [Initiation [(1, [82; 117]); (2, [])];
     PeerUp hdr6 (IP6 [32;1;13;184;0;0;0;0;0;0;0;0;0;0;0;2]) 179 40000 open0 open0;
     RouteMonitoring hdr0 upd0;
     PeerDown hdr0 (LocalNotification notif0);
     PeerDown hdr6 (LocalFsm 0);
     PeerDown hdr6 RemoteUnexpected].
Proof.
  repeat constructor; cbn [wf_msg]; repeat split;
    try apply wf_hdr0; try apply wf_hdr6; try apply frame_open0; try apply frame_upd0;
    try apply frame_notif0; try (cbv; reflexivity).
Qed.

Example ex_vflag_hyps : wf_pph hdr6 /\ flags_no_v hdr6 /\ wf_pph hdr0 /\ flags_no_v hdr0.
Proof. repeat split; cbv; reflexivity. Qed.
