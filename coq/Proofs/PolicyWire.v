(* The byte-level AS_PATH functions of the model against the wire format
   (property C14): on an AS_PATH the wire decoder accepts -- a list of segments
   (type 1..4, at most 255 four-octet AS numbers each, any count including 0)
   encoded as type, count, numbers -- AsPathIter yields exactly the segments'
   AS numbers and as_path_length is the RFC hop count (AS_SET 1, AS_SEQUENCE
   its length, confederation segments 0), unbounded.  This is what gives the
   [route_segs] / [aslen_loop] occurrences in Spec/PolicySpec.v their
   wire-level meaning. *)
From Coq Require Import List NArith ZArith Bool Lia.
From RB Require Import Base.Val Model.Policy Spec.PolicySpec.
Import ListNotations.
Open Scope N_scope.

Lemma be32_u32 v :
  v < 2 ^ 32 -> be32 ((v / 16777216) mod 256) ((v / 65536) mod 256) ((v / 256) mod 256) (v mod 256) = v.
Proof.
  intros H. change (2 ^ 32) with 4294967296 in H. unfold be32.
  assert (E1 : v / 65536 = v / 256 / 256) by (rewrite N.div_div by lia; reflexivity).
  assert (E2 : v / 16777216 = v / 256 / 256 / 256) by (rewrite !N.div_div by lia; reflexivity).
  rewrite E1, E2.
  pose proof (N.div_mod v 256 ltac:(lia)) as D0.
  pose proof (N.div_mod (v / 256) 256 ltac:(lia)) as D1.
  pose proof (N.div_mod (v / 256 / 256) 256 ltac:(lia)) as D2.
  pose proof (N.mod_lt v 256 ltac:(lia)) as M0.
  pose proof (N.mod_lt (v / 256) 256 ltac:(lia)) as M1.
  pose proof (N.mod_lt (v / 256 / 256) 256 ltac:(lia)) as M2.
  assert (Hs : v / 256 / 256 / 256 < 256).
  { apply N.div_lt_upper_bound; [lia|]. apply N.div_lt_upper_bound; [lia|]. apply N.div_lt_upper_bound; lia. }
  rewrite (N.mod_small (v / 256 / 256 / 256) 256) by exact Hs. lia.
Qed.

Lemma take_u32s_enc l rest :
  Forall (fun a => a < 2 ^ 32) l ->
  take_u32s (length l) (flat_map u32_bytes l ++ rest) = Some (l, rest).
Proof.
  induction l as [|a l IH]; intros H; [reflexivity|].
  inversion H as [|? ? Ha Hl]; subst. cbn [length flat_map u32_bytes app take_u32s].
  rewrite (IH Hl). rewrite (be32_u32 a Ha). reflexivity.
Qed.

Lemma length_u32s l : length (flat_map u32_bytes l) = (4 * length l)%nat.
Proof. induction l as [|a l IH]; [reflexivity|]. cbn [flat_map u32_bytes app length]. rewrite IH. lia. Qed.

Lemma skipn_app_exact {A} (l r : list A) : skipn (length l) (l ++ r) = r.
Proof. induction l as [|a l IH]; [reflexivity|exact IH]. Qed.

Lemma enc_path_cons s r :
  enc_path (s :: r) = fst s :: N.of_nat (length (snd s)) :: flat_map u32_bytes (snd s) ++ enc_path r.
Proof. reflexivity. Qed.

(* AsPathIter on a wire AS_PATH: exactly the segments *)
Lemma aspath_segs_enc segs : wire_path segs -> forall fuel,
  (length segs <= fuel)%nat -> aspath_segs fuel (enc_path segs) = map snd segs.
Proof.
  induction segs as [|s r IH]; intros Hw fuel Hf.
  - destruct fuel; reflexivity.
  - inversion Hw as [|? ? Hs Hr]; subst. destruct Hs as (_ & _ & Hn).
    destruct fuel as [|f]; [cbn in Hf; lia|].
    rewrite enc_path_cons. cbn [aspath_segs]. rewrite Nat2N.id.
    rewrite (take_u32s_enc (snd s) (enc_path r) Hn). cbn [map].
    rewrite (IH Hr f); [reflexivity|]. cbn [length] in Hf. lia.
Qed.

Lemma enc_path_length segs : (length segs <= length (enc_path segs))%nat.
Proof.
  induction segs as [|s r IH]; [apply le_n|]. rewrite enc_path_cons. cbn [length].
  rewrite app_length. lia.
Qed.

(* as_path_length on a wire AS_PATH: the hop count *)
Lemma aslen_enc segs : wire_path segs -> forall fuel acc,
  (length segs <= fuel)%nat -> aslen_loop fuel (enc_path segs) acc = acc + hops segs.
Proof.
  induction segs as [|s r IH]; intros Hw fuel acc Hf.
  - destruct fuel; cbn; lia.
  - inversion Hw as [|? ? Hs Hr]; subst.
    destruct fuel as [|f]; [cbn in Hf; lia|].
    rewrite enc_path_cons. cbn [aslen_loop].
    assert (Hk : N.to_nat (4 * N.of_nat (length (snd s))) = length (flat_map u32_bytes (snd s))).
    { rewrite length_u32s. lia. }
    rewrite Hk, skipn_app_exact. rewrite (IH Hr f); [|cbn [length] in Hf; lia].
    cbn [hops fold_right]. fold (hops r). unfold SEG_SET, SEG_SEQ.
    destruct (fst s =? 1); [lia|]. destruct (fst s =? 2); lia.
Qed.

Lemma C14_wire_aspath_decoded :
  forall segs a, wire_path segs -> a_data a = DBin (enc_path segs) ->
    aspath_iter a = Ok (map snd segs) /\ as_path_length a = Ok (hops segs).
Proof.
  intros segs a Hw E. unfold aspath_iter, as_path_length, attr_binary. rewrite E. split.
  - rewrite (aspath_segs_enc segs Hw); [reflexivity|apply enc_path_length].
  - rewrite (aslen_enc segs Hw); [reflexivity|apply enc_path_length].
Qed.

(* non-vacuity: a path with an empty segment, an AS_SET and confederation segments *)
Example wire_path_example :
  let segs := [(3, [64512]); (2, []); (2, [65001; 65002]); (1, [65003; 65004]); (4, [7])] in
  wire_path segs /\ hops segs = 3 /\ path_asns segs = [64512; 65001; 65002; 65003; 65004; 7].
Proof. cbn. split; [|split; reflexivity]. repeat constructor; cbn; lia. Qed.

(* ------------------------------------------------------------------ *)
(* the rendered path and the origin AS on a wire AS_PATH                *)

Lemma render_segs_enc segs : wire_path segs -> forall fuel,
  (length segs <= fuel)%nat ->
  render_segs fuel (enc_path segs) = map (fun s => seg_string (fst s) (snd s)) segs.
Proof.
  induction segs as [|s r IH]; intros Hw fuel Hf.
  - destruct fuel; reflexivity.
  - inversion Hw as [|? ? Hs Hr]; subst. destruct Hs as (_ & _ & Hn).
    destruct fuel as [|f]; [cbn in Hf; lia|].
    rewrite enc_path_cons. cbn [render_segs]. rewrite Nat2N.id.
    rewrite (take_u32s_enc (snd s) (enc_path r) Hn). cbn [map].
    rewrite (IH Hr f); [reflexivity|]. cbn [length] in Hf. lia.
Qed.

Lemma last_nonempty_default {A} (l : list A) : forall x d d', last (x :: l) d = last (x :: l) d'.
Proof. induction l as [|y l IH]; intros x d d'; [reflexivity|]. cbn [last] in *. apply (IH y d d'). Qed.

Lemma last_cons {A} (s : A) r d : last (s :: r) d = last r s.
Proof. destruct r as [|x r]; [reflexivity|]. cbn [last]. apply last_nonempty_default. Qed.

Lemma origin_loop_enc segs : wire_path segs -> forall fuel l0,
  (length segs <= fuel)%nat -> origin_loop fuel (enc_path segs) l0 = last segs l0.
Proof.
  induction segs as [|s r IH]; intros Hw fuel l0 Hf.
  - destruct fuel; reflexivity.
  - inversion Hw as [|? ? Hs Hr]; subst. destruct Hs as (_ & _ & Hn).
    destruct fuel as [|f]; [cbn in Hf; lia|].
    rewrite enc_path_cons. cbn [origin_loop]. rewrite Nat2N.id.
    rewrite (take_u32s_enc (snd s) (enc_path r) Hn).
    rewrite (IH Hr f); [|cbn [length] in Hf; lia].
    rewrite last_cons. destruct s; reflexivity.
Qed.

(* the text a general as-path pattern is matched against: the segments printed
   GoBGP style and separated by a space; the origin AS: the last AS of the last
   segment when that is a non-empty AS_SEQUENCE *)
Lemma C14_wire_aspath_rendered :
  forall segs a, wire_path segs -> a_data a = DBin (enc_path segs) ->
    render_path (enc_path segs) = join [32] (map (fun s => seg_string (fst s) (snd s)) segs) /\
    as_path_origin a = Ok (let '(t, v) := last segs (0, []) in
                           if t =? 2 then match rev v with x :: _ => Some x | [] => None end else None).
Proof.
  intros segs a Hw E. split.
  - unfold render_path. rewrite (render_segs_enc segs Hw); [reflexivity|apply enc_path_length].
  - unfold as_path_origin, attr_binary. rewrite E.
    rewrite (origin_loop_enc segs Hw); [|apply enc_path_length]. destruct (last segs (0, [])); reflexivity.
Qed.

Example render_example :
  render_path (enc_path [(3, [64512]); (2, [65001; 65002]); (1, [65003; 4200000000]); (4, [7]); (2, [])])
  = [40; 54; 52; 53; 49; 50; 41; 32; 54; 53; 48; 48; 49; 32; 54; 53; 48; 48; 50; 32; 123; 54; 53; 48; 48; 51; 44;
     52; 50; 48; 48; 48; 48; 48; 48; 48; 48; 125; 32; 91; 55; 93; 32].
Proof. vm_compute. reflexivity. Qed.
