(* C04: proofs about the encoder model (Model/WireEnc.v) against the structural
   reader (Spec/WireRead.v). *)
From Coq Require Import List ZArith NArith Bool Lia.
From RB Require Import Base.Val Model.Caps Model.WireEnc Spec.WireRead Spec.WireEncSpec.
Import ListNotations.
Open Scope N_scope.

(* ------------------------------------------------------------------ basics *)
Lemma bind_ok {A B} (r : res A) (f : A -> res B) (b : B) :
  bind r f = Ok b -> exists a, r = Ok a /\ f a = Ok b.
Proof. destruct r; cbn; intros H; try discriminate. eauto. Qed.

Lemma Ok_inj {A} (a b : A) : Ok a = Ok b -> a = b.
Proof. intros H. inversion H. reflexivity. Qed.

Lemma len_app {A} (a b : list A) : len (a ++ b) = len a + len b.
Proof. unfold len. rewrite app_length. lia. Qed.
Lemma len_cons {A} (x : A) (l : list A) : len (x :: l) = 1 + len l.
Proof. unfold len. cbn [length]. lia. Qed.
Lemma len_nil {A} : len (@nil A) = 0.
Proof. reflexivity. Qed.
Lemma len_blen (l : list N) : len l = blen l.
Proof. reflexivity. Qed.
Lemma len_marker : len marker = 16.
Proof. reflexivity. Qed.
Lemma len_be16 n : len (be16 n) = 2.
Proof. reflexivity. Qed.
Lemma len_be32 n : len (be32 n) = 4.
Proof. reflexivity. Qed.

Lemma len_frame_of body : len (frame_of body) = 18 + len body.
Proof. unfold frame_of. rewrite !len_app, len_marker, len_be16. lia. Qed.

Lemma max_len_le c : max_len c <= 65535.
Proof. unfold max_len. destruct (ext_len c); lia. Qed.

(* ------------------------------------------------------------------ every frame starts with a type octet *)
Definition nonempty_body (fr : list N) : Prop := exists ty body, fr = frame_of (ty :: body).

Lemma mp_reach_shape p c cur f es nh b l n :
  mp_reach p c cur f es nh = Ok (b, l, n) -> exists t, b = 144 :: 14 :: t.
Proof.
  unfold mp_reach. intros H.
  apply bind_ok in H as [r [_ H]]. apply bind_ok in H as [v [_ H]].
  inversion H; subst. eexists. reflexivity.
Qed.

Lemma do_encode_nonempty p c m es fr n :
  do_encode p c m es = Ok (fr, n) -> nonempty_body fr.
Proof.
  unfold do_encode, nonempty_body. intros H.
  destruct m as [asn hold rid caps | f nh attrs es0 | f es0 | f | code sub data | | f].
  - destruct caps.
    + inversion H; subst. cbn [app]. eauto.
    + apply bind_ok in H as [r [_ H]].
      destruct (255 <? snd r + 2); [discriminate|]. inversion H; subst. cbn [app]. eauto.
  - apply bind_ok in H as [r [_ H]].
    destruct ((f =? F_IPV4) && negb (ext_nh c)).
    + apply bind_ok in H as [r2 [_ H]]. apply bind_ok in H as [n0 [_ H]].
      inversion H; subst. cbn [app]. eauto.
    + apply bind_ok in H as [[[mpb mpl] cnt] [_ H]]. inversion H; subst. cbn [app]. eauto.
  - destruct ((f =? F_IPV4) && negb (ext_nh c)).
    + apply bind_ok in H as [n0 [_ H]]. inversion H; subst. cbn [app]. eauto.
    + apply bind_ok in H as [[[mpb mpl] cnt] [_ H]]. inversion H; subst. cbn [app]. eauto.
  - destruct (f =? F_IPV4).
    + inversion H; subst. eauto.
    + apply bind_ok in H as [[[mpb mpl] cnt] [_ H]]. apply bind_ok in H as [al [_ H]].
      inversion H; subst. cbn [app]. eauto.
  - destruct (notif_norm code sub data) as [[c' s'] d']. inversion H; subst. cbn [app]. eauto.
  - inversion H; subst. eauto.
  - inversion H; subst. cbn [app]. eauto.
Qed.

(* ------------------------------------------------------------------ the loop of encode_to *)
Lemma enc_loop_frames fuel p c m es frames :
  enc_loop fuel p c m es = Ok frames ->
  Forall (fun fr => nonempty_body fr /\ len fr <= max_len c) frames.
Proof.
  revert es frames. induction fuel as [|k IH]; intros es frames H; cbn [enc_loop] in H.
  - inversion H. constructor.
  - apply bind_ok in H as [[fr n] [Hd H]]. cbn [fst snd] in H.
    destruct (max_len c <? len fr) eqn:Hlt; [discriminate|].
    apply N.ltb_ge in Hlt.
    pose proof (do_encode_nonempty _ _ _ _ _ _ Hd) as Hne.
    destruct (skipn n es) as [|e rest] eqn:Hs.
    + inversion H; subst. constructor; [split; assumption | constructor].
    + destruct n as [|n']; [discriminate|].
      apply bind_ok in H as [tl [Hl H]]. inversion H; subst.
      constructor; [split; assumption | eapply IH; eassumption].
Qed.

(* C04 (1): every emitted frame is a complete BGP message of 19 .. max octets. *)
Theorem C04_frames_within_limit :
  forall (p : profile) (c : codec) (m : msg) (frames : list (list N)),
    encode_to p c m = Ok frames ->
    Forall (fun fr => 19 <= blen fr /\ blen fr <= max_len c) frames.
Proof.
  intros p c m frames H. unfold encode_to in H.
  apply enc_loop_frames in H. eapply Forall_impl; [|exact H].
  intros fr [[ty [body ->]] Hle]. rewrite <- !len_blen in *.
  rewrite len_frame_of, len_cons in *. split; lia.
Qed.

(* ------------------------------------------------------------------ big-endian fields *)
Lemma be16_rd16 n : n < 65536 -> (n / 256) mod 256 * 256 + n mod 256 = n.
Proof.
  intros H. rewrite (N.mod_small (n / 256)).
  - rewrite N.mul_comm. symmetry. apply N.div_mod. lia.
  - apply N.div_lt_upper_bound; lia.
Qed.

Lemma trunc16_small n : n < 65536 -> trunc16 n = n.
Proof. intros. unfold trunc16. apply N.mod_small. assumption. Qed.
Lemma trunc8_small n : n < 256 -> trunc8 n = n.
Proof. intros. unfold trunc8. apply N.mod_small. assumption. Qed.

Lemma take_app (a b : list N) : take (blen a) (a ++ b) = Some (a, b).
Proof.
  unfold take, blen. rewrite app_length.
  replace (N.of_nat (length a) <=? N.of_nat (length a + length b)) with true
    by (symmetry; apply N.leb_le; lia).
  rewrite Nnat.Nat2N.id, firstn_app, skipn_app, Nat.sub_diag, firstn_all, skipn_all. cbn.
  now rewrite app_nil_r.
Qed.

Lemma take_app' n (a b : list N) : n = blen a -> take n (a ++ b) = Some (a, b).
Proof. intros ->. apply take_app. Qed.

Lemma all_ones_marker l : all_ones 16 (marker ++ l) = Some l.
Proof. reflexivity. Qed.

(* reading the header of a frame built by frame_of *)
Lemma read_frame_of max ty body :
  18 + len (ty :: body) <= max -> max <= 65535 ->
  read_frame max (frame_of (ty :: body)) = Some (ty, body).
Proof.
  intros Hle Hmax. unfold read_frame, frame_of.
  rewrite all_ones_marker.
  assert (Hs : 18 + len (ty :: body) < 65536) by lia.
  rewrite (trunc16_small _ Hs). unfold be16. cbn [app].
  rewrite be16_rd16 by exact Hs.
  change (blen (marker ++ ?x)) with (len (marker ++ x)).
  rewrite len_app, len_marker, !len_cons.
  rewrite len_cons in Hle, Hs.
  replace (18 + (1 + len body) =? 16 + (1 + (1 + (1 + len body)))) with true by (symmetry; apply N.eqb_eq; lia).
  replace (19 <=? 18 + (1 + len body)) with true by (symmetry; apply N.leb_le; lia).
  replace (18 + (1 + len body) <=? max) with true by (symmetry; apply N.leb_le; lia).
  reflexivity.
Qed.

(* ------------------------------------------------------------------ attribute TLVs *)
Lemma blen_app (a b : list N) : blen (a ++ b) = blen a + blen b.
Proof. apply (@len_app N). Qed.
Lemma blen_cons (x : N) l : blen (x :: l) = 1 + blen l.
Proof. apply (@len_cons N). Qed.

Lemma length_le_blen (a b : list N) : (length a <= length b)%nat <-> blen a <= blen b.
Proof. unfold blen. lia. Qed.

Lemma read_attrs_nil fuel : read_attrs fuel [] = Some [].
Proof. destruct fuel; reflexivity. Qed.

Lemma read_attrs_cons t rest fuel :
  tlv_ok t -> (length (tlv_bytes t ++ rest) <= fuel)%nat ->
  read_attrs fuel (tlv_bytes t ++ rest) =
  match read_attrs (pred fuel) rest with Some r => Some (t :: r) | None => None end.
Proof.
  destruct t as [[fl code] v]. unfold tlv_ok, tlv_bytes. intros Hok Hfuel.
  destruct fuel as [|k]; [cbn in Hfuel; lia|]. cbn [pred].
  cbn [app read_attrs].
  destruct (N.testbit fl 4) eqn:Hext.
  - unfold be16. cbn [app].
    rewrite be16_rd16 by exact Hok. rewrite take_app. reflexivity.
  - cbn [app]. rewrite take_app. reflexivity.
Qed.

Lemma tlv_bytes_length t : (3 <= length (tlv_bytes t))%nat.
Proof.
  destruct t as [[fl code] v]. unfold tlv_bytes. destruct (N.testbit fl 4); cbn; lia.
Qed.

Lemma read_attrs_concat ts : forall fuel,
  Forall tlv_ok ts -> (length (concat (map tlv_bytes ts)) <= fuel)%nat ->
  read_attrs fuel (concat (map tlv_bytes ts)) = Some ts.
Proof.
  induction ts as [|t ts IH]; intros fuel Hok Hfuel; cbn [map concat].
  - apply read_attrs_nil.
  - inversion Hok as [|? ? Ht Hts]; subst. cbn [map concat] in Hfuel.
    rewrite read_attrs_cons by assumption.
    rewrite IH; [reflexivity | assumption |].
    rewrite app_length in Hfuel. pose proof (tlv_bytes_length t). lia.
Qed.

(* what Attribute::encode writes is the TLV the attribute denotes *)
Lemma enc_attr_tlv a bs :
  enc_attr a = Ok bs -> attr_wf a -> len bs <= 65535 ->
  bs = tlv_bytes (attr_tlv a) /\ tlv_ok (attr_tlv a).
Proof.
  unfold enc_attr, attr_wf, attr_tlv, a_value, a_binary. intros H Hwf Hlen.
  destruct (a_code a =? 1) eqn:H1.
  - destruct (a_data a) as [v | b | b]; try discriminate.
    inversion H; subst. apply N.eqb_eq in H1. rewrite H1. cbn [tlv_bytes tlv_ok].
    rewrite Hwf. split; [reflexivity | cbn; lia].
  - destruct ((a_code a =? 4) || (a_code a =? 5) || (a_code a =? 9)) eqn:H4.
    + destruct (a_data a) as [v | b | b]; try discriminate.
      inversion H; subst. cbn [tlv_bytes tlv_ok]. rewrite Hwf. split; [reflexivity | cbn; lia].
    + assert (Hb : forall b, Ok ([if 255 <? len b then N.lor (a_flags a) FLAG_EXT else a_flags a; a_code a] ++
                     (if N.testbit (if 255 <? len b then N.lor (a_flags a) FLAG_EXT else a_flags a) 4
                      then be16 (trunc16 (len b)) else [trunc8 (len b)]) ++ b) = Ok bs ->
                  bs = tlv_bytes (if 255 <? blen b then N.lor (a_flags a) 16 else a_flags a, a_code a, b) /\
                  tlv_ok (if 255 <? blen b then N.lor (a_flags a) 16 else a_flags a, a_code a, b)).
      { intros b Hb. inversion Hb as [Hbs]. clear Hb. unfold FLAG_EXT in *. change (len b) with (blen b) in *.
        set (fl := if 255 <? blen b then N.lor (a_flags a) 16 else a_flags a) in *.
        assert (Hbl : blen b <= 65535).
        { subst bs. repeat (rewrite len_app in Hlen || rewrite len_cons in Hlen). change (len b) with (blen b) in Hlen. lia. }
        cbn [tlv_bytes tlv_ok].
        destruct (N.testbit fl 4) eqn:Hext.
        - rewrite trunc16_small by lia. split; [reflexivity | lia].
        - assert (Hsmall : blen b <= 255).
          { destruct (255 <? blen b) eqn:Hgt; [|apply N.ltb_ge in Hgt; exact Hgt].
            subst fl. rewrite N.lor_spec in Hext. cbn in Hext. rewrite orb_true_r in Hext. discriminate. }
          rewrite trunc8_small by lia. split; [reflexivity | lia]. }
      destruct (a_data a) as [v | b | b]; try discriminate; apply Hb; exact H.
Qed.

Lemma enc_attr_list_spec l : forall acc bytes acc',
  enc_attr_list acc l = Ok (bytes, acc') -> Forall attr_wf l -> len bytes <= 65535 ->
  bytes = concat (map tlv_bytes (map attr_tlv l)) /\ Forall tlv_ok (map attr_tlv l) /\ acc' = acc + len bytes.
Proof.
  induction l as [|a l IH]; intros acc bytes acc' H Hwf Hlen; cbn [enc_attr_list] in H.
  - inversion H; subst. cbn [map concat]. split; [reflexivity|]. split; [constructor|]. rewrite len_nil. lia.
  - apply bind_ok in H as [b [Hb H]]. apply bind_ok in H as [[rb racc] [Hr H]].
    cbn [fst snd] in H. inversion H; subst. clear H.
    inversion Hwf as [|? ? Ha Hl]; subst.
    rewrite len_app in Hlen.
    assert (Hb65 : len b <= 65535) by lia.
    destruct (enc_attr_tlv _ _ Hb Ha Hb65) as [Hbs Hok].
    destruct (IH _ _ _ Hr Hl ltac:(lia)) as [Hrb [Hoks Hacc]].
    cbn [map concat]. split; [rewrite <- Hbs, <- Hrb; reflexivity|].
    split; [constructor; assumption|].
    rewrite Hacc, len_app. rewrite trunc16_small by lia. lia.
Qed.

Lemma enc_attr_list_app w : forall r acc bytes acc',
  enc_attr_list acc (w ++ r) = Ok (bytes, acc') <->
  exists b1 a1 b2, enc_attr_list acc w = Ok (b1, a1) /\ enc_attr_list a1 r = Ok (b2, acc') /\ bytes = b1 ++ b2.
Proof.
  induction w as [|a w IH]; intros r acc bytes acc'; cbn [app enc_attr_list].
  - split.
    + intros H. exists [], acc, bytes. repeat split; assumption.
    + intros [b1 [a1 [b2 [H1 [H2 ->]]]]]. inversion H1; subst. exact H2.
  - split.
    + intros H. apply bind_ok in H as [b [Hb H]]. apply bind_ok in H as [[rb racc] [Hr H]].
      cbn [fst snd] in H. inversion H; subst. clear H.
      apply IH in Hr as [b1 [a1 [b2 [H1 [H2 ->]]]]].
      exists (b ++ b1), a1, b2. rewrite Hb. cbn [bind]. rewrite H1. cbn [bind fst snd].
      repeat split; [assumption | now rewrite app_assoc].
    + intros [b1 [a1 [b2 [H1 [H2 ->]]]]].
      apply bind_ok in H1 as [b [Hb H1]]. apply bind_ok in H1 as [[rb racc] [Hr H1]].
      cbn [fst snd] in H1. inversion H1; subst. clear H1.
      rewrite Hb. cbn [bind].
      assert (Hx : enc_attr_list (acc + trunc16 (len b)) (w ++ r) = Ok (rb ++ b2, acc')).
      { apply IH. exists rb, a1, b2. repeat split; assumption. }
      rewrite Hx. cbn [bind fst snd]. now rewrite app_assoc.
Qed.

Lemma enc_attrs_wire two l : forall acc bytes acc',
  enc_attrs two acc l = Ok (bytes, acc') ->
  exists ws, wire_attrs two l = Ok ws /\ enc_attr_list acc ws = Ok (bytes, acc').
Proof.
  induction l as [|a l IH]; intros acc bytes acc' H; cbn [enc_attrs wire_attrs] in *.
  - inversion H; subst. exists []. split; reflexivity.
  - apply bind_ok in H as [w [Hw H]]. apply bind_ok in H as [[b1 a1] [H1 H]].
    apply bind_ok in H as [[b2 a2] [H2 H]]. cbn [fst snd] in *. inversion H; subst. clear H.
    apply IH in H2 as [ws [Hws H2]].
    exists (w ++ ws). rewrite Hw, Hws. cbn [bind]. split; [reflexivity|].
    apply enc_attr_list_app. exists b1, a1, b2. repeat split; assumption.
Qed.

Lemma mk_bin_wf code b : attr_wf (mk_bin code b).
Proof. exact I. Qed.

Lemma attrs_2byte_wf a w : attrs_2byte a = Ok w -> attr_wf a -> Forall attr_wf w.
Proof.
  unfold attrs_2byte. intros H Ha.
  destruct (a_code a =? 2).
  - destruct (a_binary a); [|discriminate]. apply bind_ok in H as [segs [_ H]].
    destruct (existsb seg_wide segs && _); inversion H; subst; repeat constructor.
  - destruct (a_code a =? 7).
    + destruct (a_binary a); [|discriminate]. destruct (len l <? 8); [discriminate|].
      destruct (65535 <? rd32 (firstn 4 l)); inversion H; subst; repeat constructor.
    + inversion H; subst. constructor; [assumption | constructor].
Qed.

Lemma wire_attrs_wf two l : forall ws, wire_attrs two l = Ok ws -> Forall attr_wf l -> Forall attr_wf ws.
Proof.
  induction l as [|a l IH]; intros ws H Hwf; cbn [wire_attrs] in H.
  - inversion H; subst. constructor.
  - apply bind_ok in H as [w [Hw H]]. apply bind_ok in H as [r [Hr H]]. inversion H; subst.
    inversion Hwf; subst. apply Forall_app. split.
    + destruct two; [eapply attrs_2byte_wf; eassumption|]. inversion Hw; subst. constructor; [assumption|constructor].
    + apply IH; assumption.
Qed.

(* ------------------------------------------------------------------ the entry loop *)
Lemma put_entries_spec p limit ap wd es : forall cur bytes n,
  put_entries p limit ap wd cur es = Ok (bytes, n) ->
  exists bs, Forall2 (fun e b => enc_pnlri p ap wd e = Ok b) (firstn n es) bs /\
             bytes = concat bs /\ (n <= length es)%nat /\ (n <> O -> cur + len bytes <= limit).
Proof.
  induction es as [|e es IH]; intros cur bytes n H; cbn [put_entries] in H.
  - inversion H; subst. exists []. cbn. repeat split; [constructor | lia | congruence].
  - apply bind_ok in H as [b [Hb H]].
    destruct (cur + len b <=? limit) eqn:Hfit.
    + apply bind_ok in H as [[rb rn] [Hr H]]. cbn [fst snd] in H. inversion H; subst. clear H.
      apply IH in Hr as [bs [HF [-> [Hn Hlim]]]].
      exists (b :: bs). cbn [firstn concat length]. repeat split.
      * constructor; assumption.
      * lia.
      * intros _. rewrite len_app. apply N.leb_le in Hfit.
        destruct rn as [|rn'].
        -- cbn in HF. inversion HF; subst. cbn [concat]. rewrite len_nil. lia.
        -- specialize (Hlim ltac:(congruence)). lia.
    + inversion H; subst. exists []. cbn. repeat split; [constructor | lia | congruence].
Qed.

(* ------------------------------------------------------------------ reading back an UPDATE body *)
Lemma take_zero l : take 0 l = Some ([], l).
Proof. unfold take. destruct (blen l); reflexivity. Qed.

Lemma read_update_built wd ts nl :
  blen wd < 65536 -> Forall tlv_ok ts -> blen (concat (map tlv_bytes ts)) < 65536 ->
  read_update (be16 (blen wd) ++ wd ++ be16 (blen (concat (map tlv_bytes ts))) ++ concat (map tlv_bytes ts) ++ nl)
  = Some {| u_withdrawn := wd; u_attrs := ts; u_nlri := nl |}.
Proof.
  intros Hwd Hok Hab. unfold read_update, be16. cbn [app].
  rewrite be16_rd16 by exact Hwd. rewrite take_app. cbn [app].
  rewrite be16_rd16 by exact Hab. rewrite take_app.
  rewrite read_attrs_concat; [reflexivity | assumption | lia].
Qed.

(* ------------------------------------------------------------------ the loop of encode_to, frame by frame *)
Lemma enc_loop_inv p c m (Inv : list pnlri -> Prop) (Q : list N -> list pnlri -> Prop) :
  (forall es n, Inv es -> skipn n es <> [] -> Inv (skipn n es)) ->
  (forall es fr n, Inv es -> do_encode p c m es = Ok (fr, n) -> len fr <= max_len c -> Q fr (firstn n es)) ->
  forall fuel es frames, Inv es -> (length es < fuel)%nat -> enc_loop fuel p c m es = Ok frames ->
  exists chunks, concat chunks = es /\ Forall2 Q frames chunks.
Proof.
  intros Hinv HQ. induction fuel as [|k IH]; intros es frames Htop Hfuel H; [lia|].
  cbn [enc_loop] in H.
  apply bind_ok in H as [[fr n] [Hd H]]. cbn [fst snd] in H.
  destruct (max_len c <? len fr) eqn:Hlt; [discriminate|]. apply N.ltb_ge in Hlt.
  pose proof (HQ _ _ _ Htop Hd Hlt) as Hq.
  destruct (skipn n es) as [|e rest] eqn:Hs.
  - inversion H; subst. exists [firstn n es]. split.
    + cbn [concat]. rewrite app_nil_r. rewrite <- (firstn_skipn n es) at 2. rewrite Hs, app_nil_r. reflexivity.
    + constructor; [assumption | constructor].
  - destruct n as [|n']; [discriminate|].
    apply bind_ok in H as [tl [Hl H]]. inversion H; subst.
    assert (Hlen : (length (e :: rest) < k)%nat).
    { rewrite <- Hs, skipn_length. destruct es; [cbn in Hs; discriminate|]. cbn [length] in *. lia. }
    assert (Hi : Inv (e :: rest)).
    { rewrite <- Hs. apply Hinv; [assumption | rewrite Hs; discriminate]. }
    destruct (IH (e :: rest) tl Hi Hlen Hl) as [chunks [Hc HF]].
    exists (firstn (S n') es :: chunks). split.
    + cbn [concat]. rewrite Hc, <- Hs. apply firstn_skipn.
    + constructor; assumption.
Qed.

Lemma Forall_skipn {A} (P : A -> Prop) n (l : list A) : Forall P l -> Forall P (skipn n l).
Proof.
  revert l. induction n as [|n IH]; intros l H; [exact H|].
  destruct l; [constructor|]. inversion H; subst. cbn [skipn]. apply IH; assumption.
Qed.

(* ------------------------------------------------------------------ shape of one Reach frame, legacy IPv4 form *)
Definition nh_attr (es : list pnlri) (nh : option (list N)) : list attr :=
  match es, nh with
  | _ :: _, Some b => if len b =? 4 then [mk_bin 3 b] else []
  | _, _ => []
  end.

Lemma reach_legacy_shape p c f nh attrs es0 es fr n :
  legacy c f = true ->
  do_encode p c (MReach f nh attrs es0) es = Ok (fr, n) ->
  Forall attr_wf attrs -> len fr <= 65535 ->
  exists ws bs,
    wire_attrs (two_byte c) attrs = Ok ws /\
    Forall2 (fun e b => enc_pnlri p (addpath_for c f) false e = Ok b) (firstn n es) bs /\
    Forall tlv_ok (map attr_tlv (ws ++ nh_attr es nh)) /\
    blen (concat (map tlv_bytes (map attr_tlv (ws ++ nh_attr es nh)))) < 65536 /\
    fr = frame_of (2 :: be16 0 ++ [] ++
                   be16 (blen (concat (map tlv_bytes (map attr_tlv (ws ++ nh_attr es nh))))) ++
                   concat (map tlv_bytes (map attr_tlv (ws ++ nh_attr es nh))) ++ concat bs).
Proof.
  intros Hleg H Hwf Hlen. unfold legacy in Hleg. cbn [do_encode] in H.
  apply bind_ok in H as [[ab acc] [Ha H]]. rewrite Hleg in H. cbn [fst snd] in H.
  apply bind_ok in H as [[nb nacc] [Hn H]]. cbn [fst snd] in H.
  apply bind_ok in H as [[eb en] [He H]]. cbn [fst snd] in H.
  inversion H; subst fr n. clear H.
  apply enc_attrs_wire in Ha as [ws [Hws Ha]].
  assert (Hnh : enc_attr_list acc (nh_attr es nh) = Ok (nb, nacc)).
  { unfold nh_attr. destruct es; [exact Hn|]. destruct nh; [|exact Hn]. destruct (len l =? 4); exact Hn. }
  assert (Hall : enc_attr_list 0 (ws ++ nh_attr es nh) = Ok (ab ++ nb, nacc)).
  { apply enc_attr_list_app. exists ab, acc, nb. repeat split; assumption. }
  rewrite len_frame_of in Hlen. repeat (rewrite len_app in Hlen || rewrite len_cons in Hlen).
  assert (Hwf' : Forall attr_wf (ws ++ nh_attr es nh)).
  { apply Forall_app. split; [eapply wire_attrs_wf; eassumption|].
    unfold nh_attr. destruct es; [constructor|]. destruct nh; [|constructor].
    destruct (len l =? 4); repeat constructor. }
  destruct (enc_attr_list_spec _ _ _ _ Hall Hwf') as [Hbytes [Hoks Hacc]].
  { rewrite len_app. lia. }
  apply put_entries_spec in He as [bs [HF [-> [_ _]]]].
  exists ws, bs. split; [assumption|]. split; [assumption|]. split; [assumption|].
  rewrite <- Hbytes. change (blen (ab ++ nb)) with (len (ab ++ nb)). rewrite len_app.
  split; [lia|].
  rewrite Hacc, N.add_0_l, len_app. rewrite trunc16_small by lia.
  unfold frame_of. cbn [app be16]. rewrite <- !app_assoc. reflexivity.
Qed.

(* ------------------------------------------------------------------ prefixes *)
Lemma be32_rd32 n : n < 4294967296 ->
  (((n / 16777216) mod 256 * 256 + (n / 65536) mod 256) * 256 + (n / 256) mod 256) * 256 + n mod 256 = n.
Proof.
  intros H.
  rewrite (N.mod_small (n / 16777216)) by (apply N.div_lt_upper_bound; lia).
  pose proof (N.div_mod n 256 ltac:(lia)) as H0.
  pose proof (N.div_mod (n / 256) 256 ltac:(lia)) as H1.
  pose proof (N.div_mod (n / 65536) 256 ltac:(lia)) as H2.
  replace (n / 256 / 256) with (n / 65536) in H1 by (rewrite N.div_div by lia; reflexivity).
  replace (n / 65536 / 256) with (n / 16777216) in H2 by (rewrite N.div_div by lia; reflexivity).
  lia.
Qed.

Definition prefix_bytes (ap : bool) (x : prefix) : list N :=
  let '(pid, m, o) := x in (if ap then be32 pid else []) ++ m :: o.

Definition prefix_ok (ap : bool) (maxbits : N) (x : prefix) : Prop :=
  let '(pid, m, o) := x in
  m <= maxbits /\ blen o = (m + 7) / 8 /\ (if ap then pid < 4294967296 else pid = 0).

Lemma read_prefixes_nil fuel ap mb : read_prefixes fuel ap mb [] = Some [].
Proof. destruct fuel; reflexivity. Qed.

Lemma read_prefixes_cons ap mb x rest fuel :
  prefix_ok ap mb x -> (length (prefix_bytes ap x ++ rest) <= fuel)%nat ->
  read_prefixes fuel ap mb (prefix_bytes ap x ++ rest) =
  match read_prefixes (pred fuel) ap mb rest with Some t => Some (x :: t) | None => None end.
Proof.
  destruct x as [[pid m] o]. unfold prefix_ok, prefix_bytes. intros [Hm [Ho Hp]] Hfuel.
  destruct fuel as [|k]; [destruct ap; cbn in Hfuel; lia|]. cbn [pred].
  destruct ap.
  - unfold be32. cbn [app read_prefixes].
    rewrite be32_rd32 by exact Hp.
    replace (m <=? mb) with true by (symmetry; apply N.leb_le; exact Hm).
    rewrite <- Ho, take_app. reflexivity.
  - subst pid. cbn [app read_prefixes].
    replace (m <=? mb) with true by (symmetry; apply N.leb_le; exact Hm).
    rewrite <- Ho, take_app. reflexivity.
Qed.

Lemma prefix_bytes_length ap x : (1 <= length (prefix_bytes ap x))%nat.
Proof. destruct x as [[pid m] o]. unfold prefix_bytes. rewrite app_length. cbn. lia. Qed.

Lemma read_prefixes_concat ap mb xs : forall fuel,
  Forall (prefix_ok ap mb) xs -> (length (concat (map (prefix_bytes ap) xs)) <= fuel)%nat ->
  read_prefixes fuel ap mb (concat (map (prefix_bytes ap) xs)) = Some xs.
Proof.
  induction xs as [|x xs IH]; intros fuel Hok Hfuel; cbn [map concat].
  - apply read_prefixes_nil.
  - inversion Hok; subst. cbn [map concat] in Hfuel.
    rewrite read_prefixes_cons by assumption.
    rewrite IH; [reflexivity | assumption |].
    rewrite app_length in Hfuel. pose proof (prefix_bytes_length ap x). lia.
Qed.

(* a plain entry is written as the prefix it denotes *)
Lemma sig_octets_blen m a : (m + 7) / 8 <= blen a -> blen (sig_octets m a) = (m + 7) / 8.
Proof.
  intros H. unfold sig_octets, blen in *. rewrite firstn_length. lia.
Qed.

Lemma enc_plain p ap wd mb e b :
  plain mb e -> enc_pnlri p ap wd e = Ok b ->
  b = prefix_bytes ap (canon_prefix ap e) /\ prefix_ok ap mb (canon_prefix ap e).
Proof.
  destruct e as [pid n]. unfold plain, enc_pnlri, canon_prefix. cbn [fst snd].
  intros [Hpid Hn] H.
  assert (Hcase : forall m a, m <= mb /\ m < 256 /\ (m + 7) / 8 <= blen a ->
            (b0 <- (o <- prefix_octets m a;; Ok (m :: o));; Ok ((if ap then be32 pid else []) ++ b0)) = Ok b ->
            b = prefix_bytes ap (if ap then pid else 0, m, sig_octets m a) /\
            prefix_ok ap mb (if ap then pid else 0, m, sig_octets m a)).
  { intros m a [Hm [Hm8 Ha]] Hb. unfold prefix_octets, div_ceil8 in Hb. change (len a) with (blen a) in Hb.
    replace ((m + 7) / 8 <=? blen a) with true in Hb by (symmetry; apply N.leb_le; exact Ha).
    cbn [bind] in Hb. apply Ok_inj in Hb. subst b. unfold prefix_bytes, prefix_ok. split; [destruct ap; reflexivity|].
    split; [assumption|]. split; [apply sig_octets_blen; assumption|]. destruct ap; [assumption|reflexivity]. }
  destruct n; try contradiction; destruct wd; cbn [enc_nlri enc_nlri_withdraw] in H; apply Hcase; assumption.
Qed.

Lemma enc_plain_all p ap wd mb es : forall bs,
  Forall (plain mb) es -> Forall2 (fun e b => enc_pnlri p ap wd e = Ok b) es bs ->
  concat bs = concat (map (prefix_bytes ap) (map (canon_prefix ap) es)) /\
  Forall (prefix_ok ap mb) (map (canon_prefix ap) es).
Proof.
  induction es as [|e es IH]; intros bs Hp HF; inversion HF as [|? y ? l' He Hes]; subst.
  - split; [reflexivity | constructor].
  - inversion Hp as [|? ? Hpe Hpes]; subst. destruct (enc_plain _ _ _ _ _ _ Hpe He) as [-> Hok].
    destruct (IH _ Hpes Hes) as [Hc Hoks]. cbn [map concat]. rewrite Hc. split; [reflexivity|].
    constructor; assumption.
Qed.

(* ------------------------------------------------------------------ reading back a legacy Reach frame *)
Lemma read_reach_legacy_built max ts nl :
  max <= 65535 ->
  len (frame_of (2 :: be16 0 ++ [] ++ be16 (blen (concat (map tlv_bytes ts))) ++ concat (map tlv_bytes ts) ++ nl)) <= max ->
  Forall tlv_ok ts -> blen (concat (map tlv_bytes ts)) < 65536 ->
  read_reach max true
    (frame_of (2 :: be16 0 ++ [] ++ be16 (blen (concat (map tlv_bytes ts))) ++ concat (map tlv_bytes ts) ++ nl))
  = Some {| rv_family := F_IPV4;
            rv_nexthop := match find_attr 3 ts with Some t => snd t | None => [] end;
            rv_attrs := filter (fun t => negb (is_code 3 t)) ts;
            rv_nlri := nl |}.
Proof.
  intros Hmax Hlen Hok Hab. unfold read_reach.
  rewrite read_frame_of; [| rewrite len_frame_of in Hlen; exact Hlen | exact Hmax].
  change (be16 0) with (be16 (blen [])) at 1.
  rewrite read_update_built; [reflexivity | cbn; lia | assumption | assumption].
Qed.

Lemma filter_no_code (cd : N) (l : list attr) :
  Forall (fun a => a_code a <> cd) l ->
  filter (fun t => negb (is_code cd t)) (map attr_tlv l) = map attr_tlv l /\ find_attr cd (map attr_tlv l) = None.
Proof.
  induction l as [|a l IH]; intros H; [split; reflexivity|].
  inversion H as [|? ? Ha Hl]; subst. destruct (IH Hl) as [IH1 IH2].
  assert (Hc : snd (fst (attr_tlv a)) = a_code a).
  { unfold attr_tlv. destruct (a_data a); reflexivity. }
  cbn [map filter find_attr]. unfold is_code at 1. rewrite Hc.
  replace (a_code a =? cd) with false by (symmetry; apply N.eqb_neq; exact Ha).
  cbn [negb]. rewrite IH1, IH2. split; reflexivity.
Qed.

Lemma find_attr_app_none cd l1 l2 : find_attr cd l1 = None -> find_attr cd (l1 ++ l2) = find_attr cd l2.
Proof.
  induction l1 as [|t l1 IH]; intros H; [reflexivity|]. cbn [app find_attr] in *.
  destruct (snd (fst t) =? cd); [discriminate | apply IH; exact H].
Qed.

(* attributes written on the wire keep the codes of the message, plus AS4_PATH (17) and
   AS4_AGGREGATOR (18) on a two-octet-AS session *)
Lemma attrs_2byte_codes (P : N -> Prop) a w :
  attrs_2byte a = Ok w -> P (a_code a) -> P 17 -> P 18 -> Forall (fun x => P (a_code x)) w.
Proof.
  unfold attrs_2byte. intros H Ha H17 H18.
  destruct (a_code a =? 2) eqn:E2.
  - apply N.eqb_eq in E2. rewrite E2 in Ha.
    destruct (a_binary a); [|discriminate]. apply bind_ok in H as [segs [_ H]].
    destruct (existsb seg_wide segs && _); inversion H; subst; repeat constructor; assumption.
  - destruct (a_code a =? 7) eqn:E7.
    + apply N.eqb_eq in E7. rewrite E7 in Ha.
      destruct (a_binary a); [|discriminate]. destruct (len l <? 8); [discriminate|].
      destruct (65535 <? rd32 (firstn 4 l)); inversion H; subst; repeat constructor; assumption.
    + inversion H; subst. repeat constructor. assumption.
Qed.

Lemma wire_attrs_codes (P : N -> Prop) two l : forall ws,
  wire_attrs two l = Ok ws -> Forall (fun a => P (a_code a)) l -> P 17 -> P 18 ->
  Forall (fun a => P (a_code a)) ws.
Proof.
  induction l as [|a l IH]; intros ws H Hl H17 H18; cbn [wire_attrs] in H.
  - inversion H; subst. constructor.
  - apply bind_ok in H as [w [Hw H]]. apply bind_ok in H as [r [Hr H]]. inversion H; subst.
    inversion Hl; subst. apply Forall_app. split.
    + destruct two; [eapply attrs_2byte_codes; eassumption|]. inversion Hw; subst. repeat constructor. assumption.
    + apply IH; assumption.
Qed.

Lemma Forall_firstn {A} (P : A -> Prop) n (l : list A) : Forall P l -> Forall P (firstn n l).
Proof.
  revert l. induction n as [|n IH]; intros l H; [constructor|].
  destruct l; [constructor|]. inversion H; subst. cbn [firstn]. constructor; [assumption | apply IH; assumption].
Qed.


(* one frame of a Reach in the legacy IPv4 form, read back *)
Lemma reach_legacy_frame p c f nh attrs es0 es fr n :
  legacy c f = true ->
  do_encode p c (MReach f nh attrs es0) es = Ok (fr, n) -> len fr <= max_len c ->
  Forall attr_wf attrs -> code_not 3 attrs ->
  exists ws v,
    wire_attrs (two_byte c) attrs = Ok ws /\
    read_reach (max_len c) true fr = Some v /\
    rv_family v = F_IPV4 /\ rv_attrs v = map attr_tlv ws /\
    (forall b, es <> [] -> nh = Some b -> blen b = 4 -> rv_nexthop v = b) /\
    exists bs, Forall2 (fun e b => enc_pnlri p (addpath_for c f) false e = Ok b) (firstn n es) bs /\
               rv_nlri v = concat bs.
Proof.
  intros Hleg Hd Hlen Hwf H3.
  pose proof (max_len_le c) as Hmax.
  destruct (reach_legacy_shape _ _ _ _ _ _ _ _ _ Hleg Hd Hwf ltac:(lia)) as [ws [bs [Hws [HF [Hoks [Hab Hfr]]]]]].
  subst fr.
  exists ws. eexists. split; [exact Hws|].
  rewrite map_app in *.
  split; [apply read_reach_legacy_built; assumption|].
  cbn [rv_family rv_attrs rv_nexthop rv_nlri].
  assert (Hws3 : code_not 3 ws).
  { unfold code_not. apply (wire_attrs_codes (fun cd => cd <> 3) _ _ _ Hws H3); lia. }
  destruct (filter_no_code 3 ws Hws3) as [Hfil Hfind].
  split; [reflexivity|].
  split.
  { rewrite filter_app, Hfil. unfold nh_attr. destruct es; [now rewrite app_nil_r|].
    destruct nh as [b|]; [|now rewrite app_nil_r]. destruct (len b =? 4) eqn:E; [|now rewrite app_nil_r].
    cbn. now rewrite app_nil_r. }
  split.
  { intros b Hne Hnh Hb. rewrite find_attr_app_none by exact Hfind. unfold nh_attr.
    destruct es; [congruence|]. rewrite Hnh. change (len b) with (blen b). rewrite Hb. cbn [N.eqb Pos.eqb].
    cbn [map find_attr]. unfold attr_tlv, mk_bin. cbn [a_data a_code a_flags canonical_flags].
    cbn. reflexivity. }
  exists bs. split; [exact HF | reflexivity].
Qed.

(* ------------------------------------------------------------------ MP_REACH_NLRI *)
Lemma blen_zeros n : blen (zeros n) = N.of_nat n.
Proof. unfold blen, zeros. now rewrite repeat_length. Qed.

Lemma mp_nexthop_shape f nh :
  match nh with Some b => blen b < 248 | None => True end ->
  exists bytes, mp_nexthop f nh = blen bytes :: bytes /\ blen bytes < 256.
Proof.
  intros Hnh. unfold mp_nexthop.
  set (b := match nh with Some b => b | None => [] end).
  assert (Hb : blen b < 248) by (subst b; destruct nh; [assumption | cbn; lia]).
  change (len b) with (blen b).
  destruct (is_flowspec f); [exists []; split; [reflexivity | cbn; lia]|].
  destruct (is_vpn f) eqn:Hv; cbn [andb].
  - destruct (blen b =? 32) eqn:E32.
    + apply N.eqb_eq in E32.
      assert (Hl : blen (zeros 8 ++ firstn 16 b ++ zeros 8 ++ skipn 16 b) = 48).
      { rewrite !blen_app, !blen_zeros. unfold blen in *. rewrite firstn_length, skipn_length. lia. }
      eexists. split; [rewrite Hl; reflexivity | lia].
    + assert (Hl : blen (zeros 8 ++ b) = 8 + blen b) by (rewrite blen_app, blen_zeros; lia).
      eexists. split; [|rewrite Hl; lia]. f_equal. rewrite Hl.
      rewrite (trunc8_small (blen b)) by lia. rewrite trunc8_small by lia. reflexivity.
  - destruct ((blen b <? 16) && ((blen b =? 0) || (afi f =? 2)) && negb (nh_as_is f)) eqn:Hpad.
    + apply andb_prop in Hpad as [Hpad _]. apply andb_prop in Hpad as [Hlt _]. apply N.ltb_lt in Hlt.
      destruct (blen b =? 4) eqn:E4.
      * apply N.eqb_eq in E4.
        assert (Hl : blen (zeros 10 ++ [255; 255] ++ b) = 16).
        { rewrite !blen_app, blen_zeros. change (blen [255; 255]) with 2. lia. }
        eexists. split; [rewrite Hl; reflexivity | lia].
      * assert (Hl : blen (b ++ zeros (16 - length b)) = 16).
        { rewrite blen_app, blen_zeros. unfold blen in *. lia. }
        eexists. split; [rewrite Hl; reflexivity | lia].
    + eexists. split; [f_equal; apply trunc8_small; lia | lia].
Qed.

Lemma afi_lt f : afi f < 65536.
Proof. unfold afi. apply N.mod_lt. lia. Qed.
Lemma safi_lt f : safi f < 256.
Proof. unfold safi. apply N.mod_lt. lia. Qed.

Lemma read_mp_reach_built f bytes body :
  fam_ok f -> blen bytes < 256 ->
  read_mp_reach (be16 (afi f) ++ [safi f] ++ (blen bytes :: bytes) ++ [0] ++ body) = Some (f, bytes, body).
Proof.
  intros [Hf _] Hb. unfold read_mp_reach, be16. cbn [app].
  rewrite take_app. cbn [app]. rewrite be16_rd16 by apply afi_lt.
  unfold fam in Hf. rewrite <- Hf. reflexivity.
Qed.

Lemma len_2 {A} (x y : A) l : len (x :: y :: l) = 2 + len l.
Proof. rewrite !len_cons. lia. Qed.

Lemma mp_reach_spec p c cur f es nh mpb mp_len cnt :
  mp_reach p c cur f es nh = Ok (mpb, mp_len, cnt) -> len mpb <= 65535 ->
  exists bs,
    Forall2 (fun e b => enc_pnlri p (addpath_for c f) false e = Ok b) (firstn cnt es) bs /\
    mpb = tlv_bytes (144, 14, be16 (afi f) ++ [safi f] ++ mp_nexthop f nh ++ [0] ++ concat bs) /\
    mp_len = len mpb.
Proof.
  unfold mp_reach. intros H Hlen.
  apply bind_ok in H as [[eb en] [He H]]. cbn [fst snd] in H.
  apply bind_ok in H as [v [Hv H]].
  set (head := be16 (afi f) ++ [safi f] ++ mp_nexthop f nh ++ [0]) in *.
  assert (Hm : mpb = [144; 14] ++ be16 v ++ head ++ eb) by (inversion H; reflexivity).
  assert (Hml : mp_len = trunc16 (4 + len head + len eb)) by (inversion H; reflexivity).
  assert (Hc : cnt = en) by (inversion H; reflexivity).
  clear H. subst cnt.
  apply put_entries_spec in He as [bs [HF [Heb [_ _]]]].
  exists bs. split; [assumption|].
  assert (Hl : len mpb = 4 + len head + len eb).
  { rewrite Hm, !len_app, len_be16. change (len [144; 14]) with 2. lia. }
  assert (Hsm : 4 + len head + len eb < 65536) by lia.
  rewrite trunc16_small in Hv by exact Hsm. rewrite trunc16_small in Hml by exact Hsm.
  unfold sub16 in Hv. replace (4 <=? 4 + len head + len eb) with true in Hv by (symmetry; apply N.leb_le; lia).
  cbv iota in Hv. apply Ok_inj in Hv. assert (Hvv : v = len head + len eb) by lia. clear Hv.
  split; [|lia].
  rewrite Hm, Hvv. unfold tlv_bytes. change (N.testbit 144 4) with true. cbn iota.
  replace (blen (be16 (afi f) ++ [safi f] ++ mp_nexthop f nh ++ [0] ++ concat bs)) with (len head + len eb).
  - subst head eb. rewrite <- !app_assoc. reflexivity.
  - subst head eb. change blen with (@len N). rewrite !len_app. lia.
Qed.

Lemma read_reach_mp_built max ts f bytes body :
  max <= 65535 -> fam_ok f -> blen bytes < 256 ->
  let value := be16 (afi f) ++ [safi f] ++ (blen bytes :: bytes) ++ [0] ++ body in
  let all := ts ++ [(144, 14, value)] in
  len (frame_of (2 :: be16 0 ++ [] ++ be16 (blen (concat (map tlv_bytes all))) ++ concat (map tlv_bytes all) ++ [])) <= max ->
  Forall tlv_ok all -> blen (concat (map tlv_bytes all)) < 65536 ->
  find_attr 14 ts = None -> filter (fun t => negb (is_code 14 t)) ts = ts ->
  read_reach max false
    (frame_of (2 :: be16 0 ++ [] ++ be16 (blen (concat (map tlv_bytes all))) ++ concat (map tlv_bytes all) ++ []))
  = Some {| rv_family := f; rv_nexthop := bytes; rv_attrs := ts; rv_nlri := body |}.
Proof.
  intros Hmax Hf Hb value all Hlen Hok Hab Hfind Hfil. unfold read_reach.
  rewrite read_frame_of; [| rewrite len_frame_of in Hlen; exact Hlen | exact Hmax].
  change (be16 0) with (be16 (blen [])) at 1.
  rewrite read_update_built; [| cbn; lia | assumption | assumption].
  cbn [u_withdrawn u_nlri u_attrs]. subst all.
  rewrite find_attr_app_none by exact Hfind. cbn [find_attr fst snd]. cbn [N.eqb Pos.eqb].
  change (snd (144, 14, value)) with value. subst value. rewrite read_mp_reach_built by assumption.
  rewrite filter_app. do 2 f_equal. rewrite <- (app_nil_r ts) at 2. f_equal. exact Hfil.
Qed.

Lemma reach_mp_frame p c f nh attrs es0 es fr n :
  legacy c f = false ->
  do_encode p c (MReach f nh attrs es0) es = Ok (fr, n) -> len fr <= max_len c ->
  Forall attr_wf attrs -> code_not 14 attrs -> fam_ok f ->
  match nh with Some b => blen b < 248 | None => True end ->
  exists ws v bytes,
    wire_attrs (two_byte c) attrs = Ok ws /\
    read_reach (max_len c) false fr = Some v /\
    rv_family v = f /\ rv_attrs v = map attr_tlv ws /\
    mp_nexthop f nh = blen bytes :: bytes /\ rv_nexthop v = bytes /\
    exists bs, Forall2 (fun e b => enc_pnlri p (addpath_for c f) false e = Ok b) (firstn n es) bs /\
               rv_nlri v = concat bs.
Proof.
  intros Hleg Hd Hlen Hwf H14 Hfam Hnh.
  pose proof (max_len_le c) as Hmax.
  unfold legacy in Hleg. cbn [do_encode] in Hd.
  apply bind_ok in Hd as [[ab acc] [Ha Hd]]. rewrite Hleg in Hd. cbn [fst snd] in Hd.
  apply bind_ok in Hd as [[[mpb mp_len] cnt] [Hmp Hd]].
  assert (Hfr : fr = frame_of ([2; 0; 0] ++ be16 (trunc16 (acc + mp_len)) ++ ab ++ mpb)) by (inversion Hd; reflexivity).
  assert (Hn : n = cnt) by (inversion Hd; reflexivity). clear Hd. subst n.
  apply enc_attrs_wire in Ha as [ws [Hws Ha]].
  assert (Hl : len fr = 18 + (5 + len ab + len mpb)).
  { rewrite Hfr, len_frame_of, !len_app, len_be16. change (len [2; 0; 0]) with 3. lia. }
  destruct (mp_reach_spec _ _ _ _ _ _ _ _ _ Hmp ltac:(lia)) as [bs [HF [Hmpb Hmpl]]].
  destruct (enc_attr_list_spec _ _ _ _ Ha (wire_attrs_wf _ _ _ Hws Hwf) ltac:(lia)) as [Hab [Hoks Hacc]].
  destruct (mp_nexthop_shape f nh Hnh) as [bytes [Hbytes Hbl]].
  exists ws. eexists. exists bytes. split; [exact Hws|].
  set (value := be16 (afi f) ++ [safi f] ++ (blen bytes :: bytes) ++ [0] ++ concat bs).
  assert (Hmpb' : mpb = tlv_bytes (144, 14, value)).
  { rewrite Hmpb. subst value. rewrite Hbytes. reflexivity. }
  assert (Hblock : ab ++ mpb = concat (map tlv_bytes (map attr_tlv ws ++ [(144, 14, value)]))).
  { rewrite map_app, concat_app. cbn [map concat]. rewrite app_nil_r, <- Hab, <- Hmpb'. reflexivity. }
  assert (Hblen : blen (concat (map tlv_bytes (map attr_tlv ws ++ [(144, 14, value)]))) = len ab + len mpb).
  { rewrite <- Hblock. apply (@len_app N). }
  assert (Hfr' : fr = frame_of (2 :: be16 0 ++ [] ++ be16 (blen (concat (map tlv_bytes (map attr_tlv ws ++ [(144, 14, value)])))) ++
                                concat (map tlv_bytes (map attr_tlv ws ++ [(144, 14, value)])) ++ [])).
  { rewrite Hfr, Hblen, <- Hblock, Hacc, N.add_0_l, Hmpl. rewrite trunc16_small by lia.
    cbn [app be16]. rewrite app_nil_r. reflexivity. }
  assert (Hws14 : code_not 14 ws).
  { unfold code_not. apply (wire_attrs_codes (fun cd => cd <> 14) _ _ _ Hws H14); lia. }
  destruct (filter_no_code 14 ws Hws14) as [Hfil Hfind].
  split.
  { pose proof Hlen as Hlen'. rewrite Hfr' in Hlen'. rewrite Hfr'. apply read_reach_mp_built; try assumption.
    - apply Forall_app. split; [assumption|]. constructor; [|constructor].
      cbn [tlv_ok]. change (N.testbit 144 4) with true. cbn iota.
      assert (Hx : blen value <= len mpb).
      { rewrite Hmpb'. unfold tlv_bytes. change (N.testbit 144 4) with true. cbn iota. rewrite !len_app.
        change (len value) with (blen value). lia. }
      change (blen value < 65536). lia.
    - change (blen (concat (map tlv_bytes (map attr_tlv ws ++ [(144, 14, value)]))) < 65536). rewrite Hblen. lia. }
  cbn [rv_family rv_attrs rv_nexthop rv_nlri].
  split; [reflexivity|]. split; [reflexivity|]. split; [exact Hbytes|]. split; [reflexivity|].
  exists bs. split; [exact HF | reflexivity].
Qed.

(* ------------------------------------------------------------------ next hop field *)
Lemma cons_inj_tl {A} (x y : A) l1 l2 : x :: l1 = y :: l2 -> l1 = l2.
Proof. intros H. inversion H. reflexivity. Qed.

Lemma mp_nexthop_expected f b bytes :
  blen b < 248 ->
  (is_flowspec f = true \/ is_vpn f = true \/ 16 <= blen b \/ nh_as_is f = true \/ blen b = 4 \/ (blen b <> 0 /\ afi f <> 2)) ->
  mp_nexthop f (Some b) = blen bytes :: bytes -> bytes = expected_nexthop f b.
Proof.
  intros Hb Hrep H. unfold mp_nexthop, expected_nexthop in *. change (len b) with (blen b) in H.
  destruct (is_flowspec f) eqn:Hfs.
  { apply cons_inj_tl in H. symmetry. exact H. }
  destruct (is_vpn f) eqn:Hv; cbn [andb] in H.
  { destruct (blen b =? 32); apply cons_inj_tl in H; symmetry; exact H. }
  destruct ((blen b <? 16) && ((blen b =? 0) || (afi f =? 2)) && negb (nh_as_is f)) eqn:Hpad.
  - apply andb_prop in Hpad as [Hpad Has]. apply andb_prop in Hpad as [Hlt Hor].
    apply N.ltb_lt in Hlt. rewrite Has.
    destruct (blen b =? 4) eqn:E4.
    + apply N.eqb_eq in E4. apply cons_inj_tl in H.
      apply orb_prop in Hor as [Hz | Ha]; [apply N.eqb_eq in Hz; lia|]. rewrite Ha. cbn [andb]. symmetry. exact H.
    + exfalso. apply N.eqb_neq in E4. apply negb_true_iff in Has.
      destruct Hrep as [Hr | [Hr | [Hr | [Hr | [Hr | [Hr0 Hr2]]]]]]; try congruence; try lia.
      apply orb_prop in Hor as [Hz | Ha]; [apply N.eqb_eq in Hz; lia | apply N.eqb_eq in Ha; lia].
  - apply cons_inj_tl in H.
    destruct ((blen b =? 4) && (afi f =? 2) && negb (nh_as_is f)) eqn:Hm; [|symmetry; exact H].
    exfalso. apply andb_prop in Hm as [Hm Has]. apply andb_prop in Hm as [H4 Ha].
    apply N.eqb_eq in H4. rewrite Ha, Has in Hpad. rewrite H4 in Hpad. cbn in Hpad. discriminate.
Qed.

Lemma legacy_maxbits c f : legacy c f = true -> maxbits_of f = 32.
Proof.
  unfold legacy. intros H. apply andb_prop in H as [H _]. apply N.eqb_eq in H. subst f. reflexivity.
Qed.
Lemma legacy_family c f : legacy c f = true -> f = F_IPV4.
Proof. unfold legacy. intros H. apply andb_prop in H as [H _]. apply N.eqb_eq in H. exact H. Qed.

(* ------------------------------------------------------------------ C04: Reach *)
Theorem C04_reach_frames :
  forall (p : profile) (c : codec) (f : N) (nh : option (list N)) (attrs : list attr)
         (es : list pnlri) (frames : list (list N)),
    encode_to p c (MReach f nh attrs es) = Ok frames ->
    Forall attr_wf attrs -> code_not 3 attrs -> code_not 14 attrs -> fam_ok f ->
    match nh with Some b => blen b < 248 | None => True end ->
    exists ws chunks,
      wire_attrs (two_byte c) attrs = Ok ws /\
      concat chunks = es /\
      Forall2 (reach_frame_bytes p c f nh ws (es <> [])) frames chunks.
Proof.
  intros p c f nh attrs es frames H Hwf H3 H14 Hfam Hnh.
  unfold encode_to in H. cbn [entries_of] in H.
  assert (Hw : exists ws, wire_attrs (two_byte c) attrs = Ok ws).
  { cbn [enc_loop] in H. apply bind_ok in H as [[fr n] [Hd _]].
    cbn [do_encode] in Hd. apply bind_ok in Hd as [[ab acc] [Ha _]].
    apply enc_attrs_wire in Ha as [ws [Hws _]]. eauto. }
  destruct Hw as [ws Hws]. exists ws.
  destruct (enc_loop_inv p c (MReach f nh attrs es)
              (fun es' => es' = [] -> es = [])
              (reach_frame_bytes p c f nh ws (es <> [])))
    with (fuel := S (length es)) (es := es) (frames := frames)
    as [chunks [Hc HF]].
  - intros es' n _ Hne E. congruence.
  - intros es' fr n Htop Hd Hlen. unfold reach_frame_bytes.
    destruct (legacy c f) eqn:Hleg.
    + destruct (reach_legacy_frame _ _ _ _ _ _ _ _ _ Hleg Hd Hlen Hwf H3)
        as [ws' [v [Hws' [Hread [Hfam' [Hat [Hnhv Hbs]]]]]]].
      rewrite Hws in Hws'. apply Ok_inj in Hws'. subst ws'.
      exists v. split; [exact Hread|]. split; [rewrite Hfam'; symmetry; eapply legacy_family; eassumption|].
      split; [exact Hat|]. split; [|exact Hbs].
      intros b Hne Hb Hrep. unfold nh_representable, expected_nh in *. rewrite Hleg in *.
      apply Hnhv; [intros E; apply Hne; apply Htop; exact E | exact Hb | exact Hrep].
    + destruct (reach_mp_frame _ _ _ _ _ _ _ _ _ Hleg Hd Hlen Hwf H14 Hfam Hnh)
        as [ws' [v [bytes [Hws' [Hread [Hfam' [Hat [Hbytes [Hnhv Hbs]]]]]]]]].
      rewrite Hws in Hws'. apply Ok_inj in Hws'. subst ws'.
      exists v. split; [exact Hread|]. split; [exact Hfam'|]. split; [exact Hat|]. split; [|exact Hbs].
      intros b _ Hb Hrep. unfold nh_representable, expected_nh in *. rewrite Hleg in *.
      destruct Hrep as [Hb248 Hrep]. subst nh. rewrite Hnhv.
      eapply mp_nexthop_expected; eassumption.
  - tauto.
  - lia.
  - exact H.
  - exists chunks. auto.
Qed.

Lemma Forall_concat_inv {A} (P : A -> Prop) (ls : list (list A)) : Forall P (concat ls) -> Forall (Forall P) ls.
Proof.
  induction ls as [|l ls IH]; intros H; [constructor|].
  cbn [concat] in H. apply Forall_app in H as [H1 H2]. constructor; [assumption | apply IH; assumption].
Qed.

Lemma Forall2_impl_with {A B} (P : A -> Prop) (R1 R2 : B -> A -> Prop) (lb : list B) (la : list A) :
  (forall b a, P a -> R1 b a -> R2 b a) -> Forall P la -> Forall2 R1 lb la -> Forall2 R2 lb la.
Proof.
  intros Himp HP HF. revert HP. induction HF as [|b a lb la Hr HF IH]; intros HP; [constructor|].
  inversion HP; subst. constructor; [apply Himp; assumption | apply IH; assumption].
Qed.

Theorem C04_decode_encode_routes :
  forall (p : profile) (c : codec) (f : N) (nh : option (list N)) (attrs : list attr)
         (es : list pnlri) (frames : list (list N)),
    encode_to p c (MReach f nh attrs es) = Ok frames ->
    Forall attr_wf attrs -> code_not 3 attrs -> code_not 14 attrs -> fam_ok f ->
    match nh with Some b => blen b < 248 | None => True end ->
    Forall (plain (maxbits_of f)) es ->
    exists ws chunks,
      wire_attrs (two_byte c) attrs = Ok ws /\
      concat chunks = es /\
      Forall2 (reach_frame_ok c f nh ws (es <> [])) frames chunks.
Proof.
  intros p c f nh attrs es frames H Hwf H3 H14 Hfam Hnh Hplain.
  destruct (C04_reach_frames _ _ _ _ _ _ _ H Hwf H3 H14 Hfam Hnh) as [ws [chunks [Hws [Hc HF]]]].
  exists ws, chunks. split; [exact Hws|]. split; [exact Hc|].
  rewrite <- Hc in Hplain. apply Forall_concat_inv in Hplain.
  eapply Forall2_impl_with; [| exact Hplain | exact HF].
  intros fr chunk Hpl [v [Hread [Hfam' [Hat [Hnhv [bs [Hbs Hnl]]]]]]].
  exists v. repeat (split; [assumption|]).
  destruct (enc_plain_all _ _ _ _ _ _ Hpl Hbs) as [Hcc Hpok].
  rewrite Hnl, Hcc. apply read_prefixes_concat; [assumption | lia].
Qed.

(* ------------------------------------------------------------------ C04: Unreach *)
Lemma read_mp_unreach_built f body :
  fam_ok f -> read_mp_unreach (be16 (afi f) ++ [safi f] ++ body) = Some (f, body).
Proof.
  intros [Hf _]. unfold read_mp_unreach, be16. cbn [app].
  rewrite be16_rd16 by apply afi_lt. unfold fam in Hf. rewrite <- Hf. reflexivity.
Qed.

Lemma mp_unreach_spec p c cur f es mpb mp_len cnt :
  mp_unreach p c cur f es = Ok (mpb, mp_len, cnt) -> len mpb <= 65535 ->
  exists bs,
    Forall2 (fun e b => enc_pnlri p (addpath_for c f) true e = Ok b) (firstn cnt es) bs /\
    mpb = tlv_bytes (144, 15, be16 (afi f) ++ [safi f] ++ concat bs) /\
    mp_len = len mpb.
Proof.
  unfold mp_unreach. intros H Hlen.
  apply bind_ok in H as [[eb en] [He H]]. cbn [fst snd] in H.
  apply bind_ok in H as [v [Hv H]].
  set (head := be16 (afi f) ++ [safi f]) in *.
  assert (Hm : mpb = [144; 15] ++ be16 v ++ head ++ eb) by (inversion H; reflexivity).
  assert (Hml : mp_len = trunc16 (4 + len head + len eb)) by (inversion H; reflexivity).
  assert (Hc : cnt = en) by (inversion H; reflexivity).
  clear H. subst cnt.
  apply put_entries_spec in He as [bs [HF [Heb [_ _]]]].
  exists bs. split; [assumption|].
  assert (Hl : len mpb = 4 + len head + len eb).
  { rewrite Hm, !len_app, len_be16. change (len [144; 15]) with 2. lia. }
  assert (Hsm : 4 + len head + len eb < 65536) by lia.
  rewrite trunc16_small in Hv by exact Hsm. rewrite trunc16_small in Hml by exact Hsm.
  unfold sub16 in Hv. replace (4 <=? 4 + len head + len eb) with true in Hv by (symmetry; apply N.leb_le; lia).
  cbv iota in Hv. apply Ok_inj in Hv. assert (Hvv : v = len head + len eb) by lia. clear Hv.
  split; [|lia].
  rewrite Hm, Hvv. unfold tlv_bytes. change (N.testbit 144 4) with true. cbn iota.
  replace (blen (be16 (afi f) ++ [safi f] ++ concat bs)) with (len head + len eb).
  - subst head eb. rewrite <- !app_assoc. reflexivity.
  - subst head eb. change blen with (@len N). rewrite !len_app. lia.
Qed.

Lemma unreach_frame p c f es0 es fr n :
  do_encode p c (MUnreach f es0) es = Ok (fr, n) -> len fr <= max_len c ->
  fam_ok f ->
  unreach_frame_bytes p c f fr (firstn n es).
Proof.
  intros Hd Hlen Hfam. pose proof (max_len_le c) as Hmax.
  unfold unreach_frame_bytes. cbn [do_encode] in Hd. fold (legacy c f) in Hd.
  destruct (legacy c f) eqn:Hleg.
  - pose proof (legacy_family _ _ Hleg) as Hf4.
    apply bind_ok in Hd as [[eb en] [He Hd]]. cbn [fst snd] in Hd.
    assert (Hfr : fr = frame_of ([2] ++ be16 (trunc16 (len eb)) ++ eb ++ [0; 0])) by (inversion Hd; reflexivity).
    assert (Hn : n = en) by (inversion Hd; reflexivity). clear Hd. subst n.
    apply put_entries_spec in He as [bs [HF [Heb [_ _]]]].
    assert (Hl : len fr = 18 + (5 + len eb)).
    { rewrite Hfr, len_frame_of, !len_app, len_be16. change (len [2]) with 1. change (len [0; 0]) with 2. lia. }
    exists eb. split.
    + unfold read_unreach.
      assert (Hfr' : fr = frame_of (2 :: be16 (blen eb) ++ eb ++ be16 (blen (concat (map tlv_bytes []))) ++
                                    concat (map tlv_bytes []) ++ [])).
      { rewrite Hfr. rewrite trunc16_small by lia. reflexivity. }
      pose proof Hlen as Hlen'. rewrite Hfr' in Hlen'. rewrite Hfr'.
      rewrite read_frame_of; [| rewrite len_frame_of in Hlen'; exact Hlen' | exact Hmax].
      rewrite read_update_built; [| change (blen eb) with (len eb); lia | constructor | cbn; lia].
      cbn [u_attrs u_nlri u_withdrawn]. rewrite Hf4. reflexivity.
    + exists bs. split; [exact HF | exact Heb].
  - apply bind_ok in Hd as [[[mpb mp_len] cnt] [Hmp Hd]].
    assert (Hfr : fr = frame_of ([2; 0; 0] ++ be16 mp_len ++ mpb)) by (inversion Hd; reflexivity).
    assert (Hn : n = cnt) by (inversion Hd; reflexivity). clear Hd. subst n.
    assert (Hl : len fr = 18 + (5 + len mpb)).
    { rewrite Hfr, len_frame_of, !len_app, len_be16. change (len [2; 0; 0]) with 3. lia. }
    destruct (mp_unreach_spec _ _ _ _ _ _ _ _ Hmp ltac:(lia)) as [bs [HF [Hmpb Hmpl]]].
    set (value := be16 (afi f) ++ [safi f] ++ concat bs) in *.
    exists (concat bs). split.
    + unfold read_unreach.
      assert (Hfr' : fr = frame_of (2 :: be16 (blen []) ++ [] ++ be16 (blen (concat (map tlv_bytes [(144, 15, value)]))) ++
                                    concat (map tlv_bytes [(144, 15, value)]) ++ [])).
      { rewrite Hfr, Hmpl. cbn [map concat]. rewrite !app_nil_r, <- Hmpb. reflexivity. }
      pose proof Hlen as Hlen'. rewrite Hfr' in Hlen'. rewrite Hfr'.
      rewrite read_frame_of; [| rewrite len_frame_of in Hlen'; exact Hlen' | exact Hmax].
      rewrite read_update_built.
      * cbn [u_attrs u_nlri u_withdrawn is_code fst snd N.eqb Pos.eqb]. subst value.
        apply read_mp_unreach_built. exact Hfam.
      * cbn; lia.
      * constructor; [|constructor]. cbn [tlv_ok]. change (N.testbit 144 4) with true. cbn iota.
        assert (Hx : blen value <= len mpb).
        { rewrite Hmpb. unfold tlv_bytes. change (N.testbit 144 4) with true. cbn iota. rewrite !len_app.
          change (len value) with (blen value). lia. }
        lia.
      * cbn [map concat]. rewrite app_nil_r, <- Hmpb. change (blen mpb) with (len mpb). lia.
    + exists bs. split; [exact HF | reflexivity].
Qed.

Theorem C04_unreach_frames :
  forall (p : profile) (c : codec) (f : N) (es : list pnlri) (frames : list (list N)),
    encode_to p c (MUnreach f es) = Ok frames -> fam_ok f ->
    exists chunks, concat chunks = es /\ Forall2 (unreach_frame_bytes p c f) frames chunks.
Proof.
  intros p c f es frames H Hfam. unfold encode_to in H. cbn [entries_of] in H.
  apply (enc_loop_inv p c (MUnreach f es) (fun _ => True) (unreach_frame_bytes p c f))
    with (fuel := S (length es)) (es := es) (frames := frames); auto.
  intros es' fr n _ Hd Hlen. eapply unreach_frame; eassumption.
Qed.

Theorem C04_split_preserves_multiset :
  forall (p : profile) (c : codec) (f : N) (es : list pnlri) (frames : list (list N)),
    encode_to p c (MUnreach f es) = Ok frames ->
    fam_ok f -> Forall (plain (maxbits_of f)) es ->
    exists chunks, concat chunks = es /\ Forall2 (unreach_frame_ok c f) frames chunks.
Proof.
  intros p c f es frames H Hfam Hplain.
  destruct (C04_unreach_frames _ _ _ _ _ H Hfam) as [chunks [Hc HF]].
  exists chunks. split; [exact Hc|].
  rewrite <- Hc in Hplain. apply Forall_concat_inv in Hplain.
  eapply Forall2_impl_with; [| exact Hplain | exact HF].
  intros fr chunk Hpl [wd [Hread [bs [Hbs Hwd]]]].
  exists wd. split; [exact Hread|].
  destruct (enc_plain_all _ _ _ _ _ _ Hpl Hbs) as [Hcc Hpok].
  rewrite Hwd, Hcc. apply read_prefixes_concat; [assumption | lia].
Qed.

(* ------------------------------------------------------------------ C04: OPEN *)
Definition tlv8_bytes (t : N * list N) : list N := [fst t; blen (snd t)] ++ snd t.

Lemma read_tlv8_nil fuel : read_tlv8 fuel [] = Some [].
Proof. destruct fuel; reflexivity. Qed.

Lemma read_tlv8_concat ts : forall fuel,
  Forall (fun t => blen (snd t) < 256) ts -> (length (concat (map tlv8_bytes ts)) <= fuel)%nat ->
  read_tlv8 fuel (concat (map tlv8_bytes ts)) = Some ts.
Proof.
  induction ts as [|[t v] ts IH]; intros fuel Hok Hfuel; cbn [map concat].
  - apply read_tlv8_nil.
  - inversion Hok; subst. cbn [map concat] in Hfuel. unfold tlv8_bytes at 1 in Hfuel. cbn [fst snd app] in Hfuel.
    destruct fuel as [|k]; [cbn in Hfuel; lia|].
    unfold tlv8_bytes at 1. cbn [fst snd app read_tlv8].
    rewrite take_app.
    rewrite IH; [reflexivity | assumption |].
    cbn [length] in Hfuel. rewrite app_length in Hfuel. lia.
Qed.

Lemma flat_map_length {A} (g : A -> list N) (k : nat) (l : list A) :
  (forall x, length (g x) = k) -> length (flat_map g l) = (k * length l)%nat.
Proof.
  intros Hg. induction l as [|x l IH]; [cbn; lia|]. cbn [flat_map length]. rewrite app_length, Hg, IH. lia.
Qed.

Lemma blen_flat_map {A} (g : A -> list N) (k : nat) (l : list A) :
  (forall x, length (g x) = k) -> blen (flat_map g l) = N.of_nat k * len l.
Proof. intros Hg. unfold blen, len. rewrite (flat_map_length g k l Hg). lia. Qed.

Lemma be32_fam f : fam_ok f -> be32 f = be16 (afi f) ++ be16 (safi f).
Proof.
  intros [Hf Ha]. unfold be32, be16. cbn [app].
  pose proof (safi_lt f) as Hs.
  assert (H1 : f / 65536 = afi f).
  { rewrite Hf at 1. unfold fam. rewrite N.div_add_l by lia. rewrite N.div_small by lia. lia. }
  assert (H2 : f mod 256 = safi f) by reflexivity.
  assert (H3 : (f / 256) mod 256 = 0).
  { rewrite Hf at 1. unfold fam. replace (afi f * 65536 + safi f) with (safi f + (afi f * 256) * 256) by lia.
    rewrite N.div_add by lia. rewrite (N.div_small (safi f)) by lia. rewrite N.add_0_l.
    rewrite N.mod_mul by lia. reflexivity. }
  assert (H4 : f / 16777216 = afi f / 256).
  { replace 16777216 with (65536 * 256) by reflexivity. rewrite <- N.div_div by lia. rewrite H1. reflexivity. }
  rewrite H4, H1, H2, H3.
  rewrite (N.div_small (safi f) 256) by lia. rewrite (N.mod_small (safi f) 256) by lia. reflexivity.
Qed.

Lemma extnh_value l :
  Forall (fun x : N * N => fam_ok (fst x)) l ->
  flat_map (fun x : N * N => be32 (fst x) ++ be16 (snd x)) l =
  flat_map (fun x : N * N => be16 (afi (fst x)) ++ be16 (safi (fst x)) ++ be16 (snd x)) l.
Proof.
  induction l as [|x l IH]; intros Hwf; [reflexivity|]. inversion Hwf; subst. cbn [flat_map].
  rewrite IH by assumption. rewrite be32_fam by assumption. rewrite <- app_assoc. reflexivity.
Qed.

Lemma enc_cap_tlv c b :
  enc_cap c = Ok b -> cap_wf c -> b = tlv8_bytes (cap_tlv c) /\ blen (snd (cap_tlv c)) < 256.
Proof.
  unfold enc_cap. intros H Hwf.
  destruct (257 <? len (enc_cap_bytes c)) eqn:Hlt; [discriminate|]. apply N.ltb_ge in Hlt.
  apply Ok_inj in H. subst b.
  assert (Hgen : forall code vl value, enc_cap_bytes c = [code; trunc8 vl] ++ value -> vl = blen value ->
             cap_tlv c = (code, value) -> enc_cap_bytes c = tlv8_bytes (cap_tlv c) /\ blen (snd (cap_tlv c)) < 256).
  { intros code vl value He Hvl Ht. rewrite Ht. cbn [snd]. rewrite He in Hlt.
    rewrite len_app in Hlt. change (len [code; trunc8 vl]) with 2 in Hlt. change (len value) with (blen value) in Hlt.
    split; [|lia]. rewrite He. unfold tlv8_bytes. cbn [fst snd]. rewrite Hvl, trunc8_small by lia. reflexivity. }
  destruct c as [f | | l | | fl t l | a | l | | l | h d | code bin]; cbn [enc_cap_bytes cap_tlv] in *.
  - eapply (Hgen 1 4 _); [reflexivity | reflexivity | reflexivity].
  - eapply (Hgen 2 0 []); reflexivity.
  - cbn [cap_wf] in Hwf.
    pose proof (extnh_value l Hwf) as Hv.
    rewrite Hv in *. eapply Hgen; [reflexivity | | reflexivity].
    rewrite (blen_flat_map _ 6); [lia | reflexivity].
  - eapply (Hgen 6 0 []); reflexivity.
  - eapply Hgen; [reflexivity | | reflexivity].
    rewrite blen_app. rewrite (blen_flat_map _ 4) by reflexivity. change blen with (@len N). rewrite len_be16. lia.
  - eapply (Hgen 65 4 _); [reflexivity | reflexivity | reflexivity].
  - eapply Hgen; [reflexivity | | reflexivity].
    rewrite (blen_flat_map _ 4); [lia | reflexivity].
  - eapply (Hgen 70 0 []); reflexivity.
  - eapply Hgen; [reflexivity | | reflexivity].
    rewrite (blen_flat_map _ 7); [lia | reflexivity].
  - eapply (Hgen 73 _ ([trunc8 (len h)] ++ map lower h ++ [trunc8 (len d)] ++ map lower d)); [reflexivity | | reflexivity].
    rewrite !blen_app. unfold blen, len. cbn [length]. rewrite !map_length. lia.
  - eapply Hgen; [reflexivity | reflexivity | reflexivity].
Qed.

Lemma take_all (l : list N) : take (blen l) l = Some (l, []).
Proof. rewrite <- (app_nil_r l) at 2. apply take_app. Qed.

Lemma enc_caps_spec l : forall acc bytes acc',
  enc_caps acc l = Ok (bytes, acc') -> Forall cap_wf l ->
  bytes = concat (map tlv8_bytes (map cap_tlv l)) /\
  Forall (fun t => blen (snd t) < 256) (map cap_tlv l) /\ acc' = acc + len bytes.
Proof.
  induction l as [|c l IH]; intros acc bytes acc' H Hwf; cbn [enc_caps] in H.
  - apply Ok_inj in H. inversion H; subst. cbn [map concat]. split; [reflexivity|]. split; [constructor|].
    rewrite len_nil. lia.
  - apply bind_ok in H as [b [Hb H]]. apply bind_ok in H as [[rb racc] [Hr H]].
    cbn [fst snd] in H. apply Ok_inj in H. inversion H; subst. clear H.
    inversion Hwf as [|? ? Hc Hl]; subst.
    destruct (enc_cap_tlv _ _ Hb Hc) as [Hbs Hok].
    destruct (IH _ _ _ Hr Hl) as [Hrb [Hoks Hacc]].
    cbn [map concat]. split; [rewrite <- Hbs, <- Hrb; reflexivity|].
    split; [constructor; assumption|]. rewrite Hacc, len_app. lia.
Qed.

Lemma be16_small_parts n : n < 65536 -> be16 n = [n / 256; n mod 256].
Proof.
  intros H. unfold be16. rewrite (N.mod_small (n / 256)); [reflexivity|]. apply N.div_lt_upper_bound; lia.
Qed.

Theorem C04_open_roundtrip :
  forall (p : profile) (c : codec) (asn hold rid : N) (caps : list cap) (frames : list (list N)),
    encode_to p c (MOpen asn hold rid caps) = Ok frames ->
    asn < 4294967296 -> hold < 65536 -> rid < 4294967296 -> Forall cap_wf caps ->
    exists fr, frames = [fr] /\ open_ok (max_len c) asn hold rid caps fr.
Proof.
  intros p c asn hold rid caps frames H Hasn Hhold Hrid Hwf.
  pose proof (max_len_le c) as Hmax.
  unfold encode_to in H. cbn [entries_of length enc_loop] in H.
  apply bind_ok in H as [[fr n] [Hd H]]. cbn [fst snd] in H.
  destruct (max_len c <? len fr) eqn:Hlt; [discriminate|]. apply N.ltb_ge in Hlt.
  rewrite skipn_nil in H. apply Ok_inj in H. subst frames.
  exists fr. split; [reflexivity|]. unfold open_ok.
  set (t := if 65535 <? asn then TRANS_ASN else asn) in *.
  assert (Ht : t < 65536).
  { subst t. destruct (65535 <? asn) eqn:E; [unfold TRANS_ASN; lia | apply N.ltb_ge in E; lia]. }
  cbn [do_encode] in Hd. fold t in Hd.
  destruct caps as [|c0 caps'].
  - apply Ok_inj in Hd. inversion Hd; subst fr n. clear Hd.
    eexists. eexists. split.
    + cbn [app]. apply read_frame_of; [| exact Hmax]. rewrite len_frame_of in Hlt. cbn [app] in Hlt. exact Hlt.
    + unfold be16, be32. cbn [app read_open]. cbn [blen length N.of_nat N.eqb read_tlv8 caps_of_params].
      cbn [o_version o_as o_hold o_id o_caps map].
      rewrite !be16_rd16 by assumption. rewrite be32_rd32 by assumption.
      subst t. unfold TRANS_ASN. repeat split; reflexivity.
  - apply bind_ok in Hd as [[cb cl] [Hc Hd]]. cbn [fst snd] in Hd.
    destruct (255 <? cl + 2) eqn:Hov; [discriminate|]. apply N.ltb_ge in Hov.
    apply Ok_inj in Hd. inversion Hd; subst fr n. clear Hd.
    destruct (enc_caps_spec _ _ _ _ Hc Hwf) as [Hcb [Hoks Hcl]]. rewrite N.add_0_l in Hcl.
    eexists. eexists. split.
    + cbn [app]. apply read_frame_of; [| exact Hmax]. rewrite len_frame_of in Hlt. cbn [app] in Hlt. exact Hlt.
    + unfold be16, be32. cbn [app read_open].
      assert (Hb1 : blen (2 :: cl :: cb) = cl + 2).
      { rewrite !blen_cons. change (blen cb) with (len cb). lia. }
      rewrite Hb1, N.eqb_refl.
      assert (Hrd : read_tlv8 (length (2 :: cl :: cb)) (2 :: cl :: cb) = Some [(2, cb)]).
      { rewrite Hcl. cbn [length read_tlv8]. change (len cb) with (blen cb). rewrite take_all. reflexivity. }
      rewrite Hrd. cbn [caps_of_params N.eqb Pos.eqb].
      rewrite Hcb at 1 2. rewrite read_tlv8_concat; [| assumption | lia].
      cbn [o_version o_as o_hold o_id o_caps]. rewrite app_nil_r.
      rewrite !be16_rd16 by assumption. rewrite be32_rd32 by assumption.
      subst t. unfold TRANS_ASN. repeat split; reflexivity.
Qed.

(* ------------------------------------------------------------------ both ends compute the same session parameters *)
Lemma memN_In x l : memN x l = true <-> In x l.
Proof.
  unfold memN. rewrite existsb_exists. split.
  - intros [y [Hy E]]. apply N.eqb_eq in E. subst. exact Hy.
  - intros H. exists x. split; [exact H | apply N.eqb_refl].
Qed.

Lemma In_dedup x l : In x (dedup l) <-> In x l.
Proof.
  induction l as [|y l IH]; [tauto|]. cbn [dedup].
  destruct (memN y l) eqn:E.
  - rewrite IH. cbn [In]. split; [tauto|]. intros [-> | H]; [apply memN_In; exact E | exact H].
  - cbn [In]. rewrite IH. tauto.
Qed.

Lemma NoDup_dedup l : NoDup (dedup l).
Proof.
  induction l as [|y l IH]; [constructor|]. cbn [dedup].
  destruct (memN y l) eqn:E; [exact IH|]. constructor; [|exact IH].
  rewrite In_dedup. intros H. apply memN_In in H. congruence.
Qed.

Definition common (l r : list cap) : list N := filter (fun f => memN f (mp_fams l)) (dedup (mp_fams r)).

Lemma In_common f l r : In f (common l r) <-> In f (mp_fams l) /\ In f (mp_fams r).
Proof. unfold common. rewrite filter_In, In_dedup, memN_In. tauto. Qed.

Lemma fam_state_map (g : N -> fstate) keys f :
  fam_state (map (fun k => (k, g k)) keys) f = if memN f keys then Some (g f) else None.
Proof.
  induction keys as [|k keys IH]; [reflexivity|]. cbn [map fam_state memN existsb].
  fold (memN f keys). rewrite IH. rewrite (N.eqb_sym f k).
  destruct (k =? f) eqn:E; [apply N.eqb_eq in E; subst; reflexivity | reflexivity].
Qed.

Lemma memN_common f l r : memN f (common l r) = memN f (common r l).
Proof.
  destruct (memN f (common l r)) eqn:E1, (memN f (common r l)) eqn:E2; try reflexivity.
  - apply memN_In, In_common in E1. assert (H : In f (common r l)) by (apply In_common; tauto).
    apply memN_In in H. congruence.
  - apply memN_In, In_common in E2. assert (H : In f (common l r)) by (apply In_common; tauto).
    apply memN_In in H. congruence.
Qed.


(* C04: the codec the peer negotiates from the same two capability lists reads with the
   parameters the sender writes with: same maximum message size, same AS number width,
   same families, the sender's "send path ids" is the receiver's "expect path ids", and the
   RFC 8950 switch agrees. *)
Theorem C04_peer_codec_agrees :
  forall (l r : list cap) (f : N),
    max_len (negotiate l r) = max_len (negotiate r l) /\
    two_byte (negotiate l r) = two_byte (negotiate r l) /\
    negotiated (negotiate l r) f = negotiated (negotiate r l) f /\
    addpath_for (negotiate l r) f = addpath_rx_for (negotiate r l) f /\
    ext_nh (negotiate l r) = ext_nh (negotiate r l).
Proof.
  intros l r f. unfold max_len, negotiated, addpath_for, addpath_rx_for, negotiate.
  cbn [ext_len two_byte fams ext_nh]. fold (common l r) (common r l).
  rewrite !fam_state_map. rewrite (memN_common f l r).
  split; [rewrite andb_comm; reflexivity|].
  split; [rewrite andb_comm; reflexivity|].
  split; [destruct (memN f (common r l)); reflexivity|].
  split.
  - destruct (memN f (common r l)); [|reflexivity]. cbn [addpath_tx addpath_rx]. apply andb_comm.
  - destruct (existsb (fun f0 => extnh_of f0 l && extnh_of f0 r) (common l r)) eqn:E1,
             (existsb (fun f0 => extnh_of f0 r && extnh_of f0 l) (common r l)) eqn:E2; try reflexivity.
    + apply existsb_exists in E1 as [x [Hx Hb]]. rewrite andb_comm in Hb.
      assert (H : existsb (fun f0 => extnh_of f0 r && extnh_of f0 l) (common r l) = true).
      { apply existsb_exists. exists x. split; [apply In_common; apply In_common in Hx; tauto | exact Hb]. }
      congruence.
    + apply existsb_exists in E2 as [x [Hx Hb]]. rewrite andb_comm in Hb.
      assert (H : existsb (fun f0 => extnh_of f0 l && extnh_of f0 r) (common l r) = true).
      { apply existsb_exists. exists x. split; [apply In_common; apply In_common in Hx; tauto | exact Hb]. }
      congruence.
Qed.

(* ------------------------------------------------------------------ RFC 6793: AS4_PATH *)
Lemma seg_hops_down s : seg_hops (seg_down s) = seg_hops s.
Proof. unfold seg_hops, seg_down. cbn [fst snd]. unfold len. now rewrite map_length. Qed.

Lemma hops_down l : hops (map seg_down l) = hops l.
Proof. induction l as [|s l IH]; [reflexivity|]. cbn [map hops]. now rewrite seg_hops_down, IH. Qed.

Lemma hops_strip l : hops (filter not_confed l) = hops l.
Proof.
  induction l as [|s l IH]; [reflexivity|]. cbn [filter hops].
  unfold not_confed at 1, seg_confed. destruct (fst s =? 3) eqn:E3; cbn [orb negb].
  - rewrite IH. unfold seg_hops. apply N.eqb_eq in E3. rewrite E3. cbn. lia.
  - destruct (fst s =? 4) eqn:E4; cbn [negb].
    + rewrite IH. unfold seg_hops. apply N.eqb_eq in E4. rewrite E4. cbn. lia.
    + cbn [hops]. now rewrite IH.
Qed.

Lemma take_hops_0 l : take_hops 0 l = [].
Proof. destruct l; reflexivity. Qed.

(* What attrs_2byte writes for an AS_PATH is the RFC 6793 4.2.2 pair: the path with every AS
   number that needs four octets replaced by AS_TRANS, plus -- only when there is such a
   number -- an AS4_PATH with the non-confederation segments; reconstructing by RFC 6793
   4.2.3 gives back the AS4_PATH, which is the original path when it has no confederation
   segment; without wide AS numbers the down-converted path is the original one. *)
Theorem C04_as4_path_roundtrip :
  forall (a : attr) (b : list N) (w : list attr),
    a_code a = 2 -> a_binary a = Some b -> attrs_2byte a = Ok w ->
    exists segs,
      segs_of b = Ok segs /\
      (existsb seg_wide segs = false ->
         w = [mk_bin 2 (flat_map enc_seg2 segs)] /\ map seg_down segs = segs) /\
      (existsb seg_wide segs = true -> filter not_confed segs = [] ->
         w = [mk_bin 2 (flat_map enc_seg2 segs)]) /\
      (existsb seg_wide segs = true -> filter not_confed segs <> [] ->
         w = [mk_bin 2 (flat_map enc_seg2 segs); mk_bin 17 (flat_map enc_seg4 (filter not_confed segs))] /\
         as4_reconcile (map seg_down segs) (filter not_confed segs) = filter not_confed segs /\
         (forallb not_confed segs = true -> as4_reconcile (map seg_down segs) (filter not_confed segs) = segs)).
Proof.
  intros a b w Hc Hb H. unfold attrs_2byte in H. rewrite Hc, Hb in H. cbn [N.eqb Pos.eqb] in H.
  apply bind_ok in H as [segs [Hs H]]. exists segs. split; [exact Hs|].
  change (filter (fun s : N * list N => negb (seg_confed s)) segs) with (filter not_confed segs) in H.
  assert (Hrec : as4_reconcile (map seg_down segs) (filter not_confed segs) = filter not_confed segs).
  { unfold as4_reconcile. rewrite hops_down, hops_strip, N.ltb_irrefl, N.sub_diag, take_hops_0. reflexivity. }
  split; [|split].
  - intros Hw. rewrite Hw in H. cbn [andb] in H. apply Ok_inj in H. split; [symmetry; exact H|].
    clear - Hw. induction segs as [|s segs IH]; [reflexivity|].
    cbn [existsb] in Hw. apply orb_false_iff in Hw as [Hs Hr]. cbn [map]. rewrite IH by exact Hr. f_equal.
    destruct s as [t asns]. unfold seg_down, seg_wide in *. cbn [fst snd] in *. f_equal.
    induction asns as [|x asns IHa]; [reflexivity|]. cbn [existsb map] in *.
    apply orb_false_iff in Hs as [Hx Hr']. rewrite IHa by exact Hr'. unfold as2. rewrite Hx. reflexivity.
  - intros Hw He. rewrite Hw, He in H. cbn [andb] in H. apply Ok_inj in H. symmetry. exact H.
  - intros Hw Hne. rewrite Hw in H. cbn [andb] in H.
    destruct (filter not_confed segs) as [|s0 rest] eqn:Ef; [congruence|].
    apply Ok_inj in H. split; [symmetry; exact H|]. split; [exact Hrec|].
    intros Hnc. rewrite Hrec. rewrite <- Ef. clear - Hnc. induction segs as [|s segs IH]; [reflexivity|].
    cbn [forallb] in Hnc. apply andb_prop in Hnc as [Hs Hr]. cbn [filter]. rewrite Hs, IH by exact Hr. reflexivity.
Qed.

(* ------------------------------------------------------------------ control messages and End-of-RIB *)

(* C04 (2): the header length field of every emitted frame is the length of the frame and its
   type is the message's type; an End-of-RIB is an UPDATE whose inner lengths are consistent
   and which carries nothing (IPv4) or exactly an empty MP_UNREACH_NLRI of the family. *)
Theorem C04_frame_lengths_consistent :
  forall (p : profile) (c : codec) (m : msg) (frames : list (list N)),
    encode_to p c m = Ok frames ->
    Forall (fun fr => exists body, read_frame (max_len c) fr = Some (msg_type m, body)) frames.
Proof.
  intros p c m frames H. pose proof (max_len_le c) as Hmax. unfold encode_to in H.
  assert (Hty : forall es fr n, do_encode p c m es = Ok (fr, n) -> exists body, fr = frame_of (msg_type m :: body)).
  { intros es fr n Hd. unfold do_encode in Hd.
    destruct m as [asn hold rid caps | f nh attrs es0 | f es0 | f | code sub data | | f]; cbn [msg_type].
    - destruct caps.
      + apply Ok_inj in Hd. inversion Hd; subst. cbn [app]. eauto.
      + apply bind_ok in Hd as [r [_ Hd]].
        destruct (255 <? snd r + 2); [discriminate|]. apply Ok_inj in Hd. inversion Hd; subst. cbn [app]. eauto.
    - apply bind_ok in Hd as [r [_ Hd]].
      destruct ((f =? F_IPV4) && negb (ext_nh c)).
      + apply bind_ok in Hd as [r2 [_ Hd]]. apply bind_ok in Hd as [n0 [_ Hd]].
        apply Ok_inj in Hd. inversion Hd; subst. cbn [app]. eauto.
      + apply bind_ok in Hd as [[[mpb mpl] cnt] [_ Hd]]. apply Ok_inj in Hd. inversion Hd; subst. cbn [app]. eauto.
    - destruct ((f =? F_IPV4) && negb (ext_nh c)).
      + apply bind_ok in Hd as [n0 [_ Hd]]. apply Ok_inj in Hd. inversion Hd; subst. cbn [app]. eauto.
      + apply bind_ok in Hd as [[[mpb mpl] cnt] [_ Hd]]. apply Ok_inj in Hd. inversion Hd; subst. cbn [app]. eauto.
    - destruct (f =? F_IPV4).
      + apply Ok_inj in Hd. inversion Hd; subst. eauto.
      + apply bind_ok in Hd as [[[mpb mpl] cnt] [_ Hd]]. apply bind_ok in Hd as [al [_ Hd]].
        apply Ok_inj in Hd. inversion Hd; subst. cbn [app]. eauto.
    - destruct (notif_norm code sub data) as [[c' s'] d']. apply Ok_inj in Hd. inversion Hd; subst. cbn [app]. eauto.
    - apply Ok_inj in Hd. inversion Hd; subst. eauto.
    - apply Ok_inj in Hd. inversion Hd; subst. cbn [app]. eauto. }
  destruct (enc_loop_inv p c m (fun _ => True)
              (fun fr _ => exists body, read_frame (max_len c) fr = Some (msg_type m, body)))
    with (fuel := S (length (entries_of m))) (es := entries_of m) (frames := frames) as [chunks [_ HF]]; auto.
  - intros es fr n _ Hd Hlen. destruct (Hty _ _ _ Hd) as [body ->]. exists body.
    apply read_frame_of; [| exact Hmax]. rewrite len_frame_of in Hlen. exact Hlen.
  - clear - HF. induction HF; constructor; assumption.
Qed.

Theorem C04_eor_frame :
  forall (p : profile) (c : codec) (f : N) (frames : list (list N)),
    encode_to p c (MEor f) = Ok frames -> fam_ok f ->
    exists fr body u,
      frames = [fr] /\ read_frame (max_len c) fr = Some (2, body) /\ read_update body = Some u /\
      u_withdrawn u = [] /\ u_nlri u = [] /\
      (if f =? F_IPV4 then u_attrs u = []
       else exists t, u_attrs u = [t] /\ is_code 15 t = true /\ read_mp_unreach (snd t) = Some (f, [])).
Proof.
  intros p c f frames H Hfam. pose proof (max_len_le c) as Hmax.
  unfold encode_to in H. cbn [entries_of length enc_loop] in H.
  apply bind_ok in H as [[fr n] [Hd H]]. cbn [fst snd] in H.
  destruct (max_len c <? len fr) eqn:Hlt; [discriminate|]. apply N.ltb_ge in Hlt.
  rewrite skipn_nil in H. apply Ok_inj in H. subst frames.
  cbn [do_encode] in Hd. destruct (f =? F_IPV4) eqn:E4.
  - apply Ok_inj in Hd. inversion Hd; subst fr n. clear Hd.
    exists (frame_of [2; 0; 0; 0; 0]), [0; 0; 0; 0]. eexists. split; [reflexivity|].
    split; [apply read_frame_of; [rewrite len_frame_of in Hlt; exact Hlt | exact Hmax]|].
    split; [reflexivity|]. repeat split; reflexivity.
  - apply bind_ok in Hd as [[[mpb mp_len] cnt] [Hmp Hd]]. apply bind_ok in Hd as [al [Hal Hd]].
    assert (Hfr : fr = frame_of ([2; 0; 0] ++ be16 al ++ mpb)) by (apply Ok_inj in Hd; inversion Hd; reflexivity).
    clear Hd.
    assert (Hl : len fr = 18 + (5 + len mpb)).
    { rewrite Hfr, len_frame_of, !len_app, len_be16. change (len [2; 0; 0]) with 3. lia. }
    destruct (mp_unreach_spec _ _ _ _ _ _ _ _ Hmp ltac:(lia)) as [bs [HF [Hmpb Hmpl]]].
    assert (Hbs : bs = []).
    { destruct cnt; cbn [firstn] in HF; inversion HF; reflexivity. }
    subst bs. cbn [concat] in Hmpb. rewrite app_nil_r in Hmpb.
    unfold add16, wrapping in Hal. rewrite N.add_0_l in Hal.
    replace (mp_len <? 65536) with true in Hal by (symmetry; apply N.ltb_lt; lia).
    apply Ok_inj in Hal. subst al.
    set (value := be16 (afi f) ++ [safi f]) in *.
    assert (Hfr' : fr = frame_of (2 :: be16 (blen []) ++ [] ++ be16 (blen (concat (map tlv_bytes [(144, 15, value)]))) ++
                                  concat (map tlv_bytes [(144, 15, value)]) ++ [])).
    { rewrite Hfr, Hmpl. cbn [map concat]. rewrite !app_nil_r, <- Hmpb. reflexivity. }
    exists fr. eexists. eexists. split; [reflexivity|].
    pose proof Hlt as Hlt'. rewrite Hfr' in Hlt'. rewrite Hfr'.
    split; [apply read_frame_of; [rewrite len_frame_of in Hlt'; exact Hlt' | exact Hmax]|].
    split.
    + apply read_update_built.
      * cbn; lia.
      * constructor; [|constructor]. cbn [tlv_ok]. change (N.testbit 144 4) with true. cbn iota. subst value. cbn. lia.
      * cbn [map concat]. rewrite app_nil_r, <- Hmpb. change (blen mpb) with (len mpb). lia.
    + cbn [u_withdrawn u_nlri u_attrs]. repeat split.
      exists (144, 15, value). repeat split. subst value. cbn [snd].
      rewrite <- (app_nil_r [safi f]). apply read_mp_unreach_built. exact Hfam.
Qed.

(* ------------------------------------------------------------------ non-vacuity: the hypotheses of the theorems are met by
   non-trivial values (a Reach split over two frames, a withdrawal split over two frames,
   an OPEN with several capabilities, a two-octet-AS session with wide AS numbers) *)
Definition plainb (mb : N) (e : pnlri) : bool :=
  (fst e <? 4294967296) &&
  match snd e with
  | NV4 m a | NV6 m a => (m <=? mb) && (m <? 256) && ((m + 7) / 8 <=? blen a)
  | _ => false
  end.
Lemma plainb_ok mb e : plainb mb e = true -> plain mb e.
Proof.
  unfold plainb, plain. intros H. apply andb_prop in H as [H1 H2]. apply N.ltb_lt in H1. split; [exact H1|].
  destruct (snd e); try discriminate;
    apply andb_prop in H2 as [H2 H3]; apply andb_prop in H2 as [H2 H4];
    apply N.leb_le in H2; apply N.ltb_lt in H4; apply N.leb_le in H3; auto.
Qed.
Lemma plain_all mb es : forallb (plainb mb) es = true -> Forall (plain mb) es.
Proof.
  intros H. apply Forall_forall. intros e He. apply plainb_ok. rewrite forallb_forall in H. apply H. exact He.
Qed.

Definition ex_codec : codec :=
  negotiate [CMultiProtocol F_IPV4; CMultiProtocol F_IPV6; CAddPath [(F_IPV6, 2)]; CFourOctet 65001]
            [CMultiProtocol F_IPV4; CMultiProtocol F_IPV6; CAddPath [(F_IPV6, 1)]].
Definition ex_attrs : list attr :=
  [ {| a_code := 1; a_flags := 64; a_data := AVal 0 |};
    {| a_code := 2; a_flags := 64; a_data := ABin [2; 2; 0; 1; 17; 112; 0; 0; 253; 233] |};
    {| a_code := 7; a_flags := 192; a_data := ABin [0; 1; 17; 112; 192; 0; 2; 9] |};
    {| a_code := 222; a_flags := 192; a_data := AOpaque (pat_bytes 3900 1) |} ].

Example ex_session : two_byte ex_codec = true /\ max_len ex_codec = 4096 /\ addpath_for ex_codec F_IPV6 = true
                     /\ legacy ex_codec F_IPV4 = true /\ legacy ex_codec F_IPV6 = false.
Proof. vm_compute. repeat split; reflexivity. Qed.

Example ex_hyps : Forall attr_wf ex_attrs /\ code_not 3 ex_attrs /\ code_not 14 ex_attrs /\ fam_ok F_IPV4 /\ fam_ok F_IPV6
                  /\ Forall (plain (maxbits_of F_IPV4)) (bulk 6 40 0) /\ Forall (plain (maxbits_of F_IPV6)) (bulk 1 700 5)
                  /\ nh_representable ex_codec F_IPV4 [192; 0; 2; 1].
Proof.
  split; [repeat constructor|]. split; [repeat constructor; cbn [a_code]; discriminate|]. split; [repeat constructor; cbn [a_code]; discriminate|].
  split; [split; [reflexivity | vm_compute; reflexivity]|]. split; [split; [reflexivity | vm_compute; reflexivity]|].
  split; [apply plain_all; vm_compute; reflexivity|]. split; [apply plain_all; vm_compute; reflexivity|].
  vm_compute. reflexivity.
Qed.

(* 3900 bytes of attributes leave room for a few prefixes per frame: the 40 entries need several frames *)
Example ex_reach_split :
  exists frames, encode_to Debug ex_codec (MReach F_IPV4 (Some [192; 0; 2; 1]) ex_attrs (bulk 6 40 0)) = Ok frames
                 /\ (2 <= length frames)%nat.
Proof. eexists. split; [vm_compute; reflexivity | cbn; lia]. Qed.

Example ex_reach_wire_attrs :
  exists ws, wire_attrs true ex_attrs = Ok ws /\ length ws = 6%nat.
Proof. eexists. split; [vm_compute; reflexivity | reflexivity]. Qed.

Example ex_unreach_split :
  exists frames, encode_to Release ex_codec (MUnreach F_IPV6 (bulk 1 700 5)) = Ok frames /\ (2 <= length frames)%nat.
Proof. eexists. split; [vm_compute; reflexivity | cbn; lia]. Qed.

Definition ex_caps : list cap :=
  [CMultiProtocol F_IPV4; CMultiProtocol F_IPV6; CExtNexthop [(F_IPV4, 2)]; CGR 4 120 [(F_IPV4, 128); (F_IPV6, 0)];
   CFourOctet 4200000001; CAddPath [(F_IPV4, 3)]; CLLGR [(F_IPV4, 0, 86400)]; CFqdn [82; 49] [101; 120];
   CUnknown 99 [1; 2; 3]; CExtMessage].
Example ex_open : Forall cap_wf ex_caps /\
  exists fr, encode_to Debug ex_codec (MOpen 4200000001 90 167772161 ex_caps) = Ok [fr].
Proof.
  split.
  - repeat constructor; vm_compute; reflexivity.
  - eexists. vm_compute. reflexivity.
Qed.

(* what the fix: commits changed: these used to produce an over-long frame / a malformed OPEN *)
Example ex_attrs_leave_no_room :
  encode_to Debug ex_codec (MReach F_IPV4 (Some [192; 0; 2; 1])
     [ {| a_code := 222; a_flags := 192; a_data := AOpaque (pat_bytes 4070 1) |} ] (bulk 6 3 0)) = Fail.
Proof. vm_compute. reflexivity. Qed.
Example ex_open_too_long :
  encode_to Release ex_codec (MOpen 65001 90 167772161 (repeat (CMultiProtocol F_IPV4) 43)) = Fail.
Proof. vm_compute. reflexivity. Qed.

Example ex_as4 :
  exists w, attrs_2byte {| a_code := 2; a_flags := 64; a_data := ABin [2; 2; 0; 1; 17; 112; 0; 0; 253; 233] |} = Ok w
            /\ length w = 2%nat.
Proof. eexists. split; [vm_compute; reflexivity | reflexivity]. Qed.

(* ------------------------------------------------------------------ the encoder does not refuse what fits *)
Lemma put_entries_total p limit ap wd es : forall cur,
  Forall (fun e => exists b, enc_pnlri p ap wd e = Ok b) es ->
  exists r, put_entries p limit ap wd cur es = Ok r.
Proof.
  induction es as [|e es IH]; intros cur H; cbn [put_entries]; [eauto|].
  inversion H as [|? ? [b Hb] Hes]; subst. rewrite Hb. cbn [bind].
  destruct (cur + len b <=? limit); [|eauto].
  destruct (IH (cur + len b) Hes) as [r Hr]. rewrite Hr. cbn [bind]. eauto.
Qed.

Lemma put_entries_first p limit ap wd cur e es b bytes n :
  enc_pnlri p ap wd e = Ok b -> cur + len b <= limit ->
  put_entries p limit ap wd cur (e :: es) = Ok (bytes, n) -> n <> O.
Proof.
  intros Hb Hfit H. cbn [put_entries] in H. rewrite Hb in H. cbn [bind] in H.
  replace (cur + len b <=? limit) with true in H by (symmetry; apply N.leb_le; exact Hfit).
  apply bind_ok in H as [r' [_ H]]. apply Ok_inj in H. inversion H. discriminate.
Qed.

Lemma max_len_ge c : 4096 <= max_len c.
Proof. unfold max_len. destruct (ext_len c); lia. Qed.

(* one wire message of a withdrawal: produced, within the limit, and it makes progress *)
Lemma unreach_step p c f es0 es :
  Forall (fun e => exists b, enc_pnlri p (addpath_for c f) true e = Ok b /\ len b <= 4000) es ->
  exists fr n, do_encode p c (MUnreach f es0) es = Ok (fr, n) /\ len fr <= max_len c /\ (es <> [] -> n <> O).
Proof.
  intros Hall. pose proof (max_len_ge c) as Hge. pose proof (max_len_le c) as Hle.
  assert (Hall' : Forall (fun e => exists b, enc_pnlri p (addpath_for c f) true e = Ok b) es).
  { eapply Forall_impl; [|exact Hall]. intros e [b [Hb _]]. eauto. }
  cbn [do_encode]. destruct ((f =? F_IPV4) && negb (ext_nh c)).
  - destruct (put_entries_total p (max_len c - 2) (addpath_for c f) true es (18 + 3) Hall') as [[eb en] Hr].
    rewrite Hr. cbn [bind fst snd]. eexists. eexists. split; [reflexivity|].
    destruct (put_entries_spec _ _ _ _ _ _ _ _ Hr) as [bs [_ [Heb [_ Hlim]]]].
    split.
    + rewrite len_frame_of, !len_app, len_be16. change (len [2]) with 1. change (len [0; 0]) with 2.
      destruct en as [|en'].
      * destruct es as [|e es']; [cbn [put_entries] in Hr; apply Ok_inj in Hr; inversion Hr; subst; rewrite len_nil; lia|].
        cbn [put_entries] in Hr. inversion Hall as [|? ? [b [Hb Hb4]] _]; subst. rewrite Hb in Hr. cbn [bind] in Hr.
        replace (18 + 3 + len b <=? max_len c - 2) with true in Hr by (symmetry; apply N.leb_le; lia).
        apply bind_ok in Hr as [r' [_ Hr]]. apply Ok_inj in Hr. inversion Hr.
      * specialize (Hlim ltac:(discriminate)). lia.
    + intros Hne. destruct es as [|e es']; [congruence|].
      inversion Hall as [|? ? [b [Hb Hb4]] _]; subst.
      eapply put_entries_first; [exact Hb | | exact Hr]. lia.
  - unfold mp_unreach.
    destruct (put_entries_total p (max_len c) (addpath_for c f) true es (18 + 5 + 4 + len (be16 (afi f) ++ [safi f])) Hall') as [[eb en] Hr].
    rewrite Hr. cbn [bind fst snd].
    destruct (put_entries_spec _ _ _ _ _ _ _ _ Hr) as [bs [_ [Heb [_ Hlim]]]].
    change (len (be16 (afi f) ++ [safi f])) with 3 in *.
    assert (Hbound : 18 + 5 + 4 + 3 + len eb <= max_len c).
    { destruct en as [|en'].
      - destruct es as [|e es']; [cbn [put_entries] in Hr; apply Ok_inj in Hr; inversion Hr; subst; rewrite len_nil; lia|].
        cbn [put_entries] in Hr. inversion Hall as [|? ? [b [Hb Hb4]] _]; subst. rewrite Hb in Hr. cbn [bind] in Hr.
        replace (18 + 5 + 4 + 3 + len b <=? max_len c) with true in Hr by (symmetry; apply N.leb_le; lia).
        apply bind_ok in Hr as [r' [_ Hr]]. apply Ok_inj in Hr. inversion Hr.
      - specialize (Hlim ltac:(discriminate)). lia. }
    rewrite trunc16_small by lia. unfold sub16.
    replace (4 <=? 4 + 3 + len eb) with true by (symmetry; apply N.leb_le; lia). cbn [bind].
    eexists. eexists. split; [reflexivity|]. split.
    + rewrite len_frame_of, !len_app, !len_be16. change (len [2; 0; 0]) with 3. change (len [144; 15]) with 2.
      change (len [safi f]) with 1. lia.
    + intros Hne. destruct es as [|e es']; [congruence|].
      inversion Hall as [|? ? [b [Hb Hb4]] _]; subst.
      eapply put_entries_first; [exact Hb | | exact Hr]. lia.
Qed.

Theorem C04_unreach_never_refused :
  forall (p : profile) (c : codec) (f : N) (es : list pnlri),
    Forall (fun e => exists b, enc_pnlri p (addpath_for c f) true e = Ok b /\ len b <= 4000) es ->
    exists frames, encode_to p c (MUnreach f es) = Ok frames.
Proof.
  intros p c f es Hall. unfold encode_to. cbn [entries_of].
  assert (Hgen : forall fuel es', (length es' < fuel)%nat ->
            Forall (fun e => exists b, enc_pnlri p (addpath_for c f) true e = Ok b /\ len b <= 4000) es' ->
            exists frames, enc_loop fuel p c (MUnreach f es) es' = Ok frames).
  { induction fuel as [|k IH]; intros es' Hfuel Hes'; [lia|]. cbn [enc_loop].
    destruct (unreach_step p c f es es' Hes') as [fr [n [Hd [Hlen Hprog]]]].
    rewrite Hd. cbn [bind fst snd].
    replace (max_len c <? len fr) with false by (symmetry; apply N.ltb_ge; exact Hlen).
    destruct (skipn n es') as [|e rest] eqn:Hs; [eauto|].
    assert (Hne : es' <> []) by (intros E; subst es'; rewrite skipn_nil in Hs; discriminate).
    specialize (Hprog Hne). destruct n as [|n']; [congruence|].
    destruct (IH (e :: rest)) as [tl Htl].
    - rewrite <- Hs, skipn_length. destruct es'; [congruence|]. cbn [length] in *. lia.
    - rewrite <- Hs. apply Forall_skipn. exact Hes'.
    - rewrite Htl. cbn [bind]. eauto. }
  apply Hgen; [lia | exact Hall].
Qed.

Lemma mp_nexthop_len f nh :
  match nh with Some b => blen b < 248 | None => True end -> len (mp_nexthop f nh) <= 256.
Proof.
  intros H. destruct (mp_nexthop_shape f nh H) as [bytes [-> Hb]]. rewrite len_cons. change (len bytes) with (blen bytes). lia.
Qed.

Lemma put_entries_bound p limit ap wd cur es bytes n :
  Forall (fun e => exists b, enc_pnlri p ap wd e = Ok b /\ cur + len b <= limit) (firstn 1 es) ->
  put_entries p limit ap wd cur es = Ok (bytes, n) ->
  (cur <= limit -> cur + len bytes <= limit) /\ (es <> [] -> n <> O).
Proof.
  intros Hfirst Hr.
  destruct (put_entries_spec _ _ _ _ _ _ _ _ Hr) as [bs [_ [Heb [_ Hlim]]]].
  destruct es as [|e es'].
  - cbn [put_entries] in Hr. apply Ok_inj in Hr. inversion Hr; subst. rewrite len_nil. split; [lia | congruence].
  - cbn [firstn] in Hfirst. inversion Hfirst as [|? ? [b [Hb Hfit]] _]; subst.
    pose proof (put_entries_first _ _ _ _ _ _ _ _ _ _ Hb Hfit Hr) as Hn.
    split; [intros _; apply Hlim; exact Hn | intros _; exact Hn].
Qed.

Lemma enc_attr_nexthop b : len b = 4 -> enc_attr (mk_bin 3 b) = Ok ([64; 3; 4] ++ b).
Proof.
  intros H. unfold enc_attr, mk_bin, a_binary, a_value. cbn [a_code a_flags a_data].
  change (canonical_flags 3) with (Some 64). cbn [N.eqb Pos.eqb orb]. rewrite H. reflexivity.
Qed.

(* one wire message of an announcement: produced, within the limit, and it makes progress,
   provided the attributes encode and leave 1300 octets, and every entry encodes to <= 1000 *)
Lemma reach_step p c f nh attrs es0 es ab acc :
  enc_attrs (two_byte c) 0 attrs = Ok (ab, acc) -> len ab + 1300 <= max_len c ->
  match nh with Some b => blen b < 40 | None => True end ->
  Forall (fun e => exists b, enc_pnlri p (addpath_for c f) false e = Ok b /\ len b <= 1000) es ->
  exists fr n, do_encode p c (MReach f nh attrs es0) es = Ok (fr, n) /\ len fr <= max_len c /\ (es <> [] -> n <> O).
Proof.
  intros Ha Hroom Hnh Hall. pose proof (max_len_le c) as Hle.
  assert (Hall' : Forall (fun e => exists b, enc_pnlri p (addpath_for c f) false e = Ok b) es).
  { eapply Forall_impl; [|exact Hall]. intros e [b [Hb _]]. eauto. }
  cbn [do_encode]. rewrite Ha. cbn [bind fst snd].
  destruct ((f =? F_IPV4) && negb (ext_nh c)).
  - (* legacy form *)
    assert (Hn : exists nb nacc, (match es, nh with
                 | _ :: _, Some b => if len b =? 4 then enc_attr_list acc [mk_bin 3 b] else Ok ([], acc)
                 | _, _ => Ok ([], acc) end) = Ok (nb, nacc) /\ len nb <= 7).
    { destruct es as [|e0 es']; [exists [], acc; split; [reflexivity | rewrite len_nil; lia]|].
      destruct nh as [b|]; [|exists [], acc; split; [reflexivity | rewrite len_nil; lia]].
      destruct (len b =? 4) eqn:E4; [|exists [], acc; split; [reflexivity | rewrite len_nil; lia]].
      apply N.eqb_eq in E4. cbn [enc_attr_list]. rewrite (enc_attr_nexthop b E4). cbn [bind fst snd].
      eexists. eexists. split; [reflexivity|].
      rewrite app_nil_r, len_app, E4. change (len [64; 3; 4]) with 3. lia. }
    destruct Hn as [nb [nacc [Hn Hnb]]]. rewrite Hn. cbn [bind fst snd].
    set (pre := [2; 0; 0] ++ be16 (trunc16 nacc) ++ ab ++ nb).
    assert (Hpre : len pre = 5 + len ab + len nb).
    { subst pre. rewrite !len_app, len_be16. change (len [2; 0; 0]) with 3. lia. }
    destruct (put_entries_total p (max_len c) (addpath_for c f) false es (18 + len pre) Hall') as [[eb en] Hr].
    rewrite Hr. cbn [bind fst snd]. eexists. eexists. split; [reflexivity|].
    assert (Hf1 : Forall (fun e => exists b, enc_pnlri p (addpath_for c f) false e = Ok b /\ 18 + len pre + len b <= max_len c) (firstn 1 es)).
    { destruct es as [|e es']; [constructor|]. cbn [firstn]. inversion Hall as [|? ? [b [Hb Hb4]] _]; subst.
      constructor; [|constructor]. exists b. split; [exact Hb | lia]. }
    destruct (put_entries_bound _ _ _ _ _ _ _ _ Hf1 Hr) as [Hb1 Hb2].
    split; [|exact Hb2].
    rewrite len_frame_of, len_app. specialize (Hb1 ltac:(lia)). lia.
  - (* multiprotocol form *)
    unfold mp_reach.
    set (head := be16 (afi f) ++ [safi f] ++ mp_nexthop f nh ++ [0]).
    assert (Hhead : len head <= 260).
    { subst head. rewrite !len_app, len_be16. change (len [safi f]) with 1. change (len [0]) with 1.
      assert (Hx : len (mp_nexthop f nh) <= 256).
      { apply mp_nexthop_len. destruct nh; [lia | exact I]. }
      lia. }
    destruct (put_entries_total p (max_len c) (addpath_for c f) false es (18 + 5 + len ab + 4 + len head) Hall') as [[eb en] Hr].
    rewrite Hr. cbn [bind fst snd].
    assert (Hf1 : Forall (fun e => exists b, enc_pnlri p (addpath_for c f) false e = Ok b /\ 18 + 5 + len ab + 4 + len head + len b <= max_len c) (firstn 1 es)).
    { destruct es as [|e es']; [constructor|]. cbn [firstn]. inversion Hall as [|? ? [b [Hb Hb4]] _]; subst.
      constructor; [|constructor]. exists b. split; [exact Hb | lia]. }
    destruct (put_entries_bound _ _ _ _ _ _ _ _ Hf1 Hr) as [Hb1 Hb2].
    specialize (Hb1 ltac:(lia)).
    rewrite trunc16_small by lia. unfold sub16.
    replace (4 <=? 4 + len head + len eb) with true by (symmetry; apply N.leb_le; lia). cbn [bind].
    eexists. eexists. split; [reflexivity|]. split; [|exact Hb2].
    rewrite len_frame_of, !len_app, !len_be16. change (len [2; 0; 0]) with 3. change (len [144; 14]) with 2. lia.
Qed.

Theorem C04_reach_never_refused :
  forall (p : profile) (c : codec) (f : N) (nh : option (list N)) (attrs : list attr) (es : list pnlri) (ab : list N) (acc : N),
    enc_attrs (two_byte c) 0 attrs = Ok (ab, acc) -> len ab + 1300 <= max_len c ->
    match nh with Some b => blen b < 40 | None => True end ->
    Forall (fun e => exists b, enc_pnlri p (addpath_for c f) false e = Ok b /\ len b <= 1000) es ->
    exists frames, encode_to p c (MReach f nh attrs es) = Ok frames.
Proof.
  intros p c f nh attrs es ab acc Ha Hroom Hnh Hall. unfold encode_to. cbn [entries_of].
  assert (Hgen : forall fuel es', (length es' < fuel)%nat ->
            Forall (fun e => exists b, enc_pnlri p (addpath_for c f) false e = Ok b /\ len b <= 1000) es' ->
            exists frames, enc_loop fuel p c (MReach f nh attrs es) es' = Ok frames).
  { induction fuel as [|k IH]; intros es' Hfuel Hes'; [lia|]. cbn [enc_loop].
    destruct (reach_step p c f nh attrs es es' ab acc Ha Hroom Hnh Hes') as [fr [n [Hd [Hlen Hprog]]]].
    rewrite Hd. cbn [bind fst snd].
    replace (max_len c <? len fr) with false by (symmetry; apply N.ltb_ge; exact Hlen).
    destruct (skipn n es') as [|e rest] eqn:Hs; [eauto|].
    assert (Hne : es' <> []) by (intros E; subst es'; rewrite skipn_nil in Hs; discriminate).
    specialize (Hprog Hne). destruct n as [|n']; [congruence|].
    destruct (IH (e :: rest)) as [tl Htl].
    - rewrite <- Hs, skipn_length. destruct es'; [congruence|]. cbn [length] in *. lia.
    - rewrite <- Hs. apply Forall_skipn. exact Hes'.
    - rewrite Htl. cbn [bind]. eauto. }
  apply Hgen; [lia | exact Hall].
Qed.

(* ------------------------------------------------------------------ labeled-unicast and VPN NLRI *)
Lemma be24_rd24 n : n < 16777216 ->
  ((n / 65536) mod 256 * 256 + (n / 256) mod 256) * 256 + n mod 256 = n.
Proof.
  intros H.
  rewrite (N.mod_small (n / 65536)) by (apply N.div_lt_upper_bound; lia).
  pose proof (N.div_mod n 256 ltac:(lia)) as H0.
  pose proof (N.div_mod (n / 256) 256 ltac:(lia)) as H1.
  replace (n / 256 / 256) with (n / 65536) in H1 by (rewrite N.div_div by lia; reflexivity).
  lia.
Qed.

Lemma mod2_of_mod256 n : (n mod 256) mod 2 = n mod 2.
Proof.
  rewrite (N.div_mod n 256) at 2 by lia.
  replace (256 * (n / 256) + n mod 256) with (n mod 256 + (128 * (n / 256)) * 2) by lia.
  rewrite N.mod_add by lia. reflexivity.
Qed.

Lemma enc_label_read v bos :
  v < 1048576 ->
  exists b0 b1 b2, enc_label v bos = [b0; b1; b2] /\
    ((b0 * 256 + b1) * 256 + b2) / 16 = v /\ (b2 mod 2 =? 1) = bos.
Proof.
  intros Hv. unfold enc_label. set (raw := v * 16 + (if bos then 1 else 0)).
  assert (Hraw : raw < 16777216) by (subst raw; destruct bos; lia).
  eexists. eexists. eexists. split; [reflexivity|].
  rewrite (be24_rd24 raw Hraw). split.
  - subst raw. rewrite N.add_comm, N.div_add by lia. destruct bos; cbn; lia.
  - rewrite mod2_of_mod256. subst raw. rewrite N.add_comm.
    replace (v * 16) with ((v * 8) * 2) by lia. rewrite N.mod_add by lia. destruct bos; reflexivity.
Qed.

Lemma enc_labels_length ls : length (enc_labels ls) = (3 * length ls)%nat.
Proof.
  induction ls as [|v ls IH]; [reflexivity|]. destruct ls as [|v' t]; [reflexivity|].
  change (enc_labels (v :: v' :: t)) with (enc_label v false ++ enc_labels (v' :: t)).
  rewrite app_length, IH. cbn [length enc_label]. lia.
Qed.

Lemma read_labels_enc ls : forall rest fuel,
  ls <> [] -> Forall (fun v => v < 1048576) ls -> (length ls <= fuel)%nat ->
  read_labels fuel (enc_labels ls ++ rest) = Some (ls, rest).
Proof.
  induction ls as [|v ls IH]; intros rest fuel Hne Hall Hfuel; [congruence|].
  inversion Hall as [|? ? Hv Hls]; subst.
  destruct fuel as [|k]; [cbn in Hfuel; lia|].
  destruct ls as [|v' t].
  - cbn [enc_labels]. destruct (enc_label_read v true Hv) as [b0 [b1 [b2 [He [Hval Hbos]]]]].
    rewrite He. cbn [app read_labels]. rewrite Hval, Hbos. reflexivity.
  - change (enc_labels (v :: v' :: t)) with (enc_label v false ++ enc_labels (v' :: t)).
    destruct (enc_label_read v false Hv) as [b0 [b1 [b2 [He [Hval Hbos]]]]].
    rewrite He. cbn [app read_labels]. rewrite Hval, Hbos.
    rewrite IH; [reflexivity | discriminate | assumption | cbn [length] in *; lia].
Qed.

Definition lprefix_bytes (ap vpn : bool) (x : lprefix) : list N :=
  (if ap then be32 (lp_pid x) else []) ++
  (24 * blen (lp_labels x) + (if vpn then 64 else 0) + lp_mask x) :: enc_labels (lp_labels x) ++ lp_rd x ++ lp_octets x.

Definition lprefix_ok (ap vpn : bool) (maxbits : N) (x : lprefix) : Prop :=
  lp_labels x <> [] /\ Forall (fun v => v < 1048576) (lp_labels x) /\
  blen (lp_rd x) = (if vpn then 8 else 0) /\
  lp_mask x <= maxbits /\ blen (lp_octets x) = (lp_mask x + 7) / 8 /\
  (if ap then lp_pid x < 4294967296 else lp_pid x = 0).

Lemma read_lprefixes_nil fuel ap vpn mb : read_lprefixes fuel ap vpn mb [] = Some [].
Proof. destruct fuel; reflexivity. Qed.

Lemma read_lprefixes_cons ap vpn mb x rest fuel :
  lprefix_ok ap vpn mb x -> (length (lprefix_bytes ap vpn x ++ rest) <= fuel)%nat ->
  read_lprefixes fuel ap vpn mb (lprefix_bytes ap vpn x ++ rest) =
  match read_lprefixes (pred fuel) ap vpn mb rest with Some t => Some (x :: t) | None => None end.
Proof.
  destruct x as [pid ls rd m o]. unfold lprefix_ok, lprefix_bytes. cbn [lp_pid lp_labels lp_rd lp_mask lp_octets].
  intros [Hne [Hls [Hrd [Hm [Ho Hp]]]]] Hfuel.
  destruct fuel as [|k]; [destruct ap; cbn in Hfuel; lia|]. cbn [pred].
  set (fixed := 24 * blen ls + (if vpn then 64 else 0)).
  assert (Hstep : forall pid',
    (if ap then pid' = pid else pid' = 0 /\ pid = 0) ->
    match read_labels (length (enc_labels ls ++ rd ++ o ++ rest)) (enc_labels ls ++ rd ++ o ++ rest) with
    | Some (ls0, r1) =>
        match (if vpn then take 8 r1 else Some ([], r1)) with
        | Some (rd0, r2) =>
            if (24 * blen ls0 + (if vpn then 64 else 0) <=? fixed + m) &&
               (fixed + m - (24 * blen ls0 + (if vpn then 64 else 0)) <=? mb)
            then match take ((fixed + m - (24 * blen ls0 + (if vpn then 64 else 0)) + 7) / 8) r2 with
                 | Some (o0, r3) =>
                     match read_lprefixes k ap vpn mb r3 with
                     | Some t => Some ({| lp_pid := pid'; lp_labels := ls0; lp_rd := rd0;
                                          lp_mask := fixed + m - (24 * blen ls0 + (if vpn then 64 else 0)); lp_octets := o0 |} :: t)
                     | None => None
                     end
                 | None => None
                 end
            else None
        | None => None
        end
    | None => None
    end =
    match read_lprefixes k ap vpn mb rest with
    | Some t => Some ({| lp_pid := pid; lp_labels := ls; lp_rd := rd; lp_mask := m; lp_octets := o |} :: t)
    | None => None
    end).
  { intros pid' Hpid.
    rewrite read_labels_enc; [| assumption | assumption |].
    2:{ rewrite app_length, enc_labels_length. lia. }
    assert (Hrd2 : (if vpn then take 8 (rd ++ o ++ rest) else Some ([], rd ++ o ++ rest)) = Some (rd, o ++ rest)).
    { destruct vpn.
      - rewrite <- Hrd. apply take_app.
      - destruct rd; [reflexivity | cbn in Hrd; lia]. }
    rewrite Hrd2. fold fixed.
    replace (fixed <=? fixed + m) with true by (symmetry; apply N.leb_le; lia).
    replace (fixed + m - fixed) with m by lia.
    replace (m <=? mb) with true by (symmetry; apply N.leb_le; exact Hm).
    cbn [andb]. rewrite <- Ho, take_app.
    assert (Hpp : pid' = pid) by (destruct ap; [exact Hpid | destruct Hpid; congruence]).
    rewrite Hpp. reflexivity. }
  destruct ap.
  - unfold be32. cbn [app read_lprefixes]. rewrite be32_rd32 by exact Hp.
    rewrite <- !app_assoc. apply Hstep. reflexivity.
  - cbn [app read_lprefixes]. rewrite <- !app_assoc. apply Hstep. split; [reflexivity | exact Hp].
Qed.

Lemma lprefix_bytes_length ap vpn x : (1 <= length (lprefix_bytes ap vpn x))%nat.
Proof. unfold lprefix_bytes. rewrite app_length. cbn [length]. lia. Qed.

Lemma read_lprefixes_concat ap vpn mb xs : forall fuel,
  Forall (lprefix_ok ap vpn mb) xs -> (length (concat (map (lprefix_bytes ap vpn) xs)) <= fuel)%nat ->
  read_lprefixes fuel ap vpn mb (concat (map (lprefix_bytes ap vpn) xs)) = Some xs.
Proof.
  induction xs as [|x xs IH]; intros fuel Hok Hfuel; cbn [map concat].
  - apply read_lprefixes_nil.
  - inversion Hok; subst. cbn [map concat] in Hfuel.
    rewrite read_lprefixes_cons by assumption.
    rewrite IH; [reflexivity | assumption |].
    rewrite app_length in Hfuel. pose proof (lprefix_bytes_length ap vpn x). lia.
Qed.

Lemma labels_len_blen ls : labels_len ls = 3 * blen ls.
Proof. reflexivity. Qed.

Lemma enc_labeled p ap vpn mb e b :
  labeled vpn mb e -> enc_pnlri p ap false e = Ok b ->
  b = lprefix_bytes ap vpn (canon_lprefix ap e) /\ lprefix_ok ap vpn mb (canon_lprefix ap e).
Proof.
  destruct e as [pid n]. unfold labeled, enc_pnlri, canon_lprefix. cbn [fst snd].
  intros [Hpid Hn] H.
  assert (Hoct : forall m a, (m + 7) / 8 <= blen a -> prefix_octets m a = Ok (sig_octets m a)).
  { intros m a Ha. unfold prefix_octets, div_ceil8. change (len a) with (blen a).
    replace ((m + 7) / 8 <=? blen a) with true by (symmetry; apply N.leb_le; exact Ha). reflexivity. }
  assert (Hlab : forall ls m a, vpn = false /\ ls <> [] /\ Forall (fun v => v < 1048576) ls /\
            m <= mb /\ 24 * blen ls + m < 256 /\ (m + 7) / 8 <= blen a ->
            (b0 <- (bits <- add8 p (trunc8 (labels_len ls * 8)) m;; o <- prefix_octets m a;; Ok (bits :: enc_labels ls ++ o));;
             Ok ((if ap then be32 pid else []) ++ b0)) = Ok b ->
            b = lprefix_bytes ap vpn {| lp_pid := if ap then pid else 0; lp_labels := ls; lp_rd := []; lp_mask := m; lp_octets := sig_octets m a |} /\
            lprefix_ok ap vpn mb {| lp_pid := if ap then pid else 0; lp_labels := ls; lp_rd := []; lp_mask := m; lp_octets := sig_octets m a |}).
  { intros ls m a [Hv [Hne [Hls [Hm [Hbits Ha]]]]] Hb. subst vpn.
    rewrite labels_len_blen in Hb. rewrite trunc8_small in Hb by lia.
    unfold add8, wrapping in Hb. replace (3 * blen ls * 8 + m <? 256) with true in Hb by (symmetry; apply N.ltb_lt; lia).
    cbn [bind] in Hb. rewrite (Hoct m a Ha) in Hb. cbn [bind] in Hb. apply Ok_inj in Hb. subst b.
    unfold lprefix_bytes, lprefix_ok. cbn [lp_pid lp_labels lp_rd lp_mask lp_octets].
    split.
    - replace (24 * blen ls + 0 + m) with (3 * blen ls * 8 + m) by lia. destruct ap; reflexivity.
    - split; [assumption|]. split; [assumption|]. split; [reflexivity|]. split; [assumption|].
      split; [apply sig_octets_blen; assumption|]. destruct ap; [assumption | reflexivity]. }
  assert (Hvp : forall ls rd m a, vpn = true /\ ls <> [] /\ Forall (fun v => v < 1048576) ls /\ blen rd = 8 /\
            m <= mb /\ 24 * blen ls + 64 + m < 256 /\ (m + 7) / 8 <= blen a ->
            (b0 <- (x <- add8 p (trunc8 (labels_len ls * 8)) 64;; bits <- add8 p x m;; o <- prefix_octets m a;;
                    Ok (bits :: enc_labels ls ++ rd ++ o));;
             Ok ((if ap then be32 pid else []) ++ b0)) = Ok b ->
            b = lprefix_bytes ap vpn {| lp_pid := if ap then pid else 0; lp_labels := ls; lp_rd := rd; lp_mask := m; lp_octets := sig_octets m a |} /\
            lprefix_ok ap vpn mb {| lp_pid := if ap then pid else 0; lp_labels := ls; lp_rd := rd; lp_mask := m; lp_octets := sig_octets m a |}).
  { intros ls rd m a [Hv [Hne [Hls [Hrd [Hm [Hbits Ha]]]]]] Hb. subst vpn.
    rewrite labels_len_blen in Hb. rewrite trunc8_small in Hb by lia.
    unfold add8, wrapping in Hb. replace (3 * blen ls * 8 + 64 <? 256) with true in Hb by (symmetry; apply N.ltb_lt; lia).
    cbn [bind] in Hb. replace (3 * blen ls * 8 + 64 + m <? 256) with true in Hb by (symmetry; apply N.ltb_lt; lia).
    cbn [bind] in Hb. rewrite (Hoct m a Ha) in Hb. cbn [bind] in Hb. apply Ok_inj in Hb. subst b.
    unfold lprefix_bytes, lprefix_ok. cbn [lp_pid lp_labels lp_rd lp_mask lp_octets].
    split.
    - replace (24 * blen ls + 64 + m) with (3 * blen ls * 8 + 64 + m) by lia. destruct ap; reflexivity.
    - split; [assumption|]. split; [assumption|]. split; [assumption|]. split; [assumption|].
      split; [apply sig_octets_blen; assumption|]. destruct ap; [assumption | reflexivity]. }
  destruct n; try contradiction; cbn [enc_nlri] in H; first [apply Hlab; assumption | apply Hvp; assumption].
Qed.

Lemma enc_labeled_all p ap vpn mb es : forall bs,
  Forall (labeled vpn mb) es -> Forall2 (fun e b => enc_pnlri p ap false e = Ok b) es bs ->
  concat bs = concat (map (lprefix_bytes ap vpn) (map (canon_lprefix ap) es)) /\
  Forall (lprefix_ok ap vpn mb) (map (canon_lprefix ap) es).
Proof.
  induction es as [|e es IH]; intros bs Hp HF; inversion HF as [|? y ? l' He Hes]; subst.
  - split; [reflexivity | constructor].
  - inversion Hp as [|? ? Hpe Hpes]; subst. destruct (enc_labeled _ _ _ _ _ _ Hpe He) as [-> Hok].
    destruct (IH _ Hpes Hes) as [Hc Hoks]. cbn [map concat]. rewrite Hc. split; [reflexivity|].
    constructor; assumption.
Qed.

(* C04: a Reach of labeled-unicast or VPN entries is read back entry for entry: path id, label
   stack, route distinguisher, prefix *)
Theorem C04_decode_encode_routes_labeled :
  forall (p : profile) (c : codec) (f : N) (vpn : bool) (nh : option (list N)) (attrs : list attr)
         (es : list pnlri) (frames : list (list N)),
    encode_to p c (MReach f nh attrs es) = Ok frames ->
    Forall attr_wf attrs -> code_not 3 attrs -> code_not 14 attrs -> fam_ok f ->
    match nh with Some b => blen b < 248 | None => True end ->
    Forall (labeled vpn (maxbits_of f)) es ->
    exists ws chunks,
      wire_attrs (two_byte c) attrs = Ok ws /\
      concat chunks = es /\
      Forall2 (reach_frame_labeled_ok c f vpn nh ws (es <> [])) frames chunks.
Proof.
  intros p c f vpn nh attrs es frames H Hwf H3 H14 Hfam Hnh Hlab.
  destruct (C04_reach_frames _ _ _ _ _ _ _ H Hwf H3 H14 Hfam Hnh) as [ws [chunks [Hws [Hc HF]]]].
  exists ws, chunks. split; [exact Hws|]. split; [exact Hc|].
  rewrite <- Hc in Hlab. apply Forall_concat_inv in Hlab.
  eapply Forall2_impl_with; [| exact Hlab | exact HF].
  intros fr chunk Hpl [v [Hread [Hfam' [Hat [Hnhv [bs [Hbs Hnl]]]]]]].
  exists v. repeat (split; [assumption|]).
  destruct (enc_labeled_all _ _ _ _ _ _ Hpl Hbs) as [Hcc Hpok].
  rewrite Hnl, Hcc. apply read_lprefixes_concat; [assumption | lia].
Qed.

Example ex_labeled :
  Forall (labeled true (maxbits_of F_IPV6_VPN)) (bulk 8 300 0) /\
  exists frames, encode_to Debug (negotiate [CMultiProtocol F_IPV6_VPN] [CMultiProtocol F_IPV6_VPN])
                   (MReach F_IPV6_VPN (Some (pat_bytes 16 1)) [] (bulk 8 300 0)) = Ok frames /\ (2 <= length frames)%nat.
Proof.
  split.
  - apply Forall_forall. intros e He.
    assert (Hb : forallb (fun e => (fst e <? 4294967296) &&
                  match snd e with
                  | NVpn6 ls rd m a => negb (length ls =? 0)%nat && forallb (fun v => v <? 1048576) ls && (blen rd =? 8) &&
                                       (m <=? 128) && (24 * blen ls + 64 + m <? 256) && ((m + 7) / 8 <=? blen a)
                  | _ => false end) (bulk 8 300 0) = true) by (vm_compute; reflexivity).
    rewrite forallb_forall in Hb. specialize (Hb e He). apply andb_prop in Hb as [Hp Hb]. apply N.ltb_lt in Hp.
    split; [exact Hp|]. destruct (snd e); try discriminate.
    repeat (apply andb_prop in Hb as [Hb ?]).
    split; [reflexivity|]. split; [destruct labels; [discriminate | discriminate]|].
    split; [apply Forall_forall; intros v Hv; rewrite forallb_forall in H3; apply N.ltb_lt; apply H3; exact Hv|].
    split; [apply N.eqb_eq; assumption|]. split; [apply N.leb_le; assumption|]. split; [apply N.ltb_lt; assumption | apply N.leb_le; assumption].
  - eexists. split; [vm_compute; reflexivity | cbn; lia].
Qed.
